import IoraModel.Lemmas.KvLog
import IoraModel.Lemmas.KvStore
/-! Files vs memory: the directory always replays to what memory holds (restart, M4), every crash image replays to an
admissible state (D3) and recovery can be continued (D4). -/
namespace Iora.Kv
open Iora

/-! ## equivalence of entries from `now` on -/

/-- two entries that no reader can tell apart at any time `t ≥ now` -/
def Eqv (now : Int) (a b : Option Ent) : Prop := ∀ t, now ≤ t → live t a = live t b

theorem Eqv.refl (now : Int) (a : Option Ent) : Eqv now a a := fun _ _ => rfl
theorem Eqv.symm {now : Int} {a b : Option Ent} (h : Eqv now a b) : Eqv now b a := fun t ht => (h t ht).symm
theorem Eqv.trans {now : Int} {a b c : Option Ent} (h1 : Eqv now a b) (h2 : Eqv now b c) : Eqv now a c :=
  fun t ht => (h1 t ht).trans (h2 t ht)
theorem Eqv.mono {now now' : Int} {a b : Option Ent} (h : Eqv now a b) (hn : now ≤ now') : Eqv now' a b :=
  fun t ht => h t (by omega)

theorem Eqv.live_left (now : Int) (a : Option Ent) : Eqv now (live now a) a :=
  fun t ht => live_mono t now ht a

theorem Eqv.of_eq {now : Int} {a b : Option Ent} (h : a = b) : Eqv now a b := h ▸ Eqv.refl now a

/-- an expired entry is as good as none -/
theorem Eqv.expired (now : Int) (v : Val) (e : Int) (h : e ≤ now) : Eqv now (some (v, some e)) none := by
  intro t ht
  have : ¬ t < e := by omega
  simp [live, this]

theorem live_map_expiry (t : Int) (x : Option Ent) (E : Option Int) :
    live t ((live t x).map (fun p => (p.1, E))) = live t (x.map (fun p => (p.1, E))) ∨ live t x = none := by
  match x with
  | none => right; rfl
  | some (v, none) => left; rfl
  | some (v, some e) =>
    by_cases h : t < e
    · left; simp [live, h]
    · right; simp [live, h]

/-- replaying the same written records a second time over (the live part of) their own result changes nothing that a
reader can see: this is why a crash between the snapshot rename and the log reset is harmless -/
theorem foldKey_idem (l : Lim) (k : Key) (rs : List Rec) (h : ∀ r ∈ rs, r.WF l) (now : Int) (x : Option Ent) :
    Eqv now (foldKey l k rs (live now (foldKey l k rs x))) (foldKey l k rs x) := by
  cases foldKey_class l k rs h with
  | const c hc => rw [hc, hc]; exact Eqv.refl _ _
  | ident hi => rw [hi, hi]; exact Eqv.live_left now x
  | expiry E hE =>
    rw [hE (live now _), hE x]
    -- F x = x.map (·.1, E): either it is live now (then re-applying E changes nothing) or it is dead from now on
    match x with
    | none => exact Eqv.refl _ _
    | some (v, old) =>
      simp only [Option.map_some]
      match E with
      | none => simp only [live_some_none, Option.map_some]; exact Eqv.refl _ _
      | some e =>
        by_cases hlt : now < e
        · simp only [live, hlt, ↓reduceIte, Option.map_some]; exact Eqv.refl _ _
        · simp only [live, hlt, ↓reduceIte, Option.map_none]
          exact (Eqv.expired now v e (by omega)).symm

/-! ## well-formed replayed states -/

structure LInv (st : LState) : Prop where
  sub : ∀ k, (st.exp.get? k).isSome = true → (st.kv.get? k).isSome = true
  nodupKv : (Map.keys st.kv).Nodup
  nodupExp : (Map.keys st.exp).Nodup
  noEmpty : st.kv.get? [] = none

theorem LInv.init : LInv {} :=
  ⟨by intro k h; exact absurd h (by simp), List.nodup_nil, List.nodup_nil, rfl⟩

theorem LInv.applyRec (l : Lim) (st : LState) (hi : LInv st) (r : Rec) (hr : r.WF l) : LInv (applyRec l st r) := by
  have hk := WF_key hr
  have hne : r.key ≠ [] := by intro e; rw [e] at hk; simp at hk
  cases r with
  | set a v =>
    refine ⟨?_, Map.nodup_put _ _ _ hi.nodupKv, Map.nodup_erase _ _ hi.nodupExp, get?_put_nil _ _ _ hne hi.noEmpty⟩
    intro k; simp only [Iora.Kv.applyRec, Map.get?_erase, Map.get?_put]
    by_cases e : a = k <;> simp [e]; exact hi.sub k
  | setE a v e =>
    refine ⟨?_, Map.nodup_put _ _ _ hi.nodupKv, Map.nodup_put _ _ _ hi.nodupExp, get?_put_nil _ _ _ hne hi.noEmpty⟩
    intro k; simp only [Iora.Kv.applyRec, Map.get?_put]
    by_cases e : a = k <;> simp [e]; exact hi.sub k
  | del a =>
    refine ⟨?_, Map.nodup_erase _ _ hi.nodupKv, Map.nodup_erase _ _ hi.nodupExp, get?_erase_nil _ _ hi.noEmpty⟩
    intro k; simp only [Iora.Kv.applyRec, Map.get?_erase]
    by_cases e : a = k <;> simp [e]; exact hi.sub k
  | exp a e =>
    simp only [Iora.Kv.applyRec]
    cases hh : st.kv.has a with
    | false => simpa using hi
    | true =>
      simp only [Bool.not_true, Bool.false_eq_true, ↓reduceIte]
      by_cases hs : e = sentinel
      · simp only [hs, ↓reduceIte]
        refine ⟨?_, hi.nodupKv, Map.nodup_erase _ _ hi.nodupExp, hi.noEmpty⟩
        intro k; simp only [Map.get?_erase]
        by_cases e : a = k <;> simp [e]; exact hi.sub k
      · simp only [hs, ↓reduceIte]
        cases hp : plausible l e with
        | false => simpa using hi
        | true =>
          simp only [↓reduceIte]
          refine ⟨?_, hi.nodupKv, Map.nodup_put _ _ _ hi.nodupExp, hi.noEmpty⟩
          intro k; simp only [Map.get?_put]
          by_cases e : a = k
          · subst e; intro _; exact (Map.has_iff _ _).mp hh |> fun ⟨v, hv⟩ => by rw [hv]; rfl
          · simp [e]; exact hi.sub k

theorem LInv.foldl (l : Lim) (rs : List Rec) (h : ∀ r ∈ rs, r.WF l) :
    ∀ st, LInv st → LInv (rs.foldl (Iora.Kv.applyRec l) st) := by
  induction rs with
  | nil => intro st hi; exact hi
  | cons r rs ih =>
    intro st hi
    exact ih (fun x hx => h x (by simp [hx])) _ (LInv.applyRec l st hi r (h r (by simp)))

theorem LInv.snapApply (l : Lim) (st : LState) (hi : LInv st) (x : Key × Val × Option Int) (hx : EntWF l x) :
    LInv (snapApply st x) := by
  obtain ⟨k, v, eo⟩ := x
  obtain ⟨h1, _, _, _⟩ := hx
  have hne : k ≠ [] := by intro e; subst e; simp at h1
  cases eo with
  | none =>
    refine ⟨?_, Map.nodup_put _ _ _ hi.nodupKv, hi.nodupExp, get?_put_nil _ _ _ hne hi.noEmpty⟩
    intro k'; simp only [Iora.Kv.snapApply, Map.get?_put]
    by_cases e : k = k' <;> simp [e]; exact hi.sub k'
  | some e =>
    refine ⟨?_, Map.nodup_put _ _ _ hi.nodupKv, Map.nodup_put _ _ _ hi.nodupExp, get?_put_nil _ _ _ hne hi.noEmpty⟩
    intro k'; simp only [Iora.Kv.snapApply, Map.get?_put]
    by_cases e : k = k' <;> simp [e]; exact hi.sub k'

theorem LInv.snapState (l : Lim) (ents : List (Key × Val × Option Int)) (h : ∀ x ∈ ents, EntWF l x) :
    LInv (snapState ents) := by
  unfold Iora.Kv.snapState
  suffices hs : ∀ st, LInv st → LInv (ents.foldl Iora.Kv.snapApply st) from hs _ LInv.init
  induction ents with
  | nil => intro st hi; exact hi
  | cons x r ih =>
    intro st hi
    exact ih (fun y hy => h y (by simp [hy])) _ (LInv.snapApply l st hi x (h x (by simp)))

/-! ## the sweep at the end of `load` -/

theorem look_sweep (now : Int) (st : LState) (k : Key) :
    (sweep now st).look k = if expiredAt st.exp now k then none else st.look k := by
  simp only [sweep, LState.look]
  rw [Map.get?_filter_key st.kv (fun a => !expiredAt st.exp now a),
      Map.get?_filter_key st.exp (fun a => !expiredAt st.exp now a)]
  cases h : expiredAt st.exp now k <;> simp

theorem sweep_eqv (now : Int) (st : LState) (k : Key) : Eqv now ((sweep now st).look k) (st.look k) := by
  rw [look_sweep]
  cases h : expiredAt st.exp now k with
  | false => exact Eqv.refl _ _
  | true =>
    simp only [↓reduceIte]
    unfold expiredAt at h
    cases he : st.exp.get? k with
    | none => rw [he] at h; simp at h
    | some e =>
      rw [he] at h
      have hle : e ≤ now := by simpa using h
      unfold LState.look
      cases hk : st.kv.get? k with
      | none => exact Eqv.refl _ _
      | some v => simp only [he]; exact (Eqv.expired now v e hle).symm

theorem LInv.sweep (now : Int) (st : LState) (hi : LInv st) : LInv (sweep now st) where
  sub := by
    intro k
    simp only [Iora.Kv.sweep]
    rw [Map.get?_filter_key st.kv (fun a => !expiredAt st.exp now a),
        Map.get?_filter_key st.exp (fun a => !expiredAt st.exp now a)]
    cases h : expiredAt st.exp now k
    · simpa using hi.sub k
    · simp
  nodupKv := Map.nodup_filter _ _ hi.nodupKv
  nodupExp := Map.nodup_filter _ _ hi.nodupExp
  noEmpty := by
    simp only [Iora.Kv.sweep]
    rw [Map.get?_filter_key st.kv (fun a => !expiredAt st.exp now a)]
    simp [hi.noEmpty]

/-- after the sweep nothing expired is left in memory -/
theorem sweep_live (now : Int) (st : LState) (k : Key) (e : Int) (h : (sweep now st).exp.get? k = some e) : now < e := by
  simp only [sweep] at h
  rw [Map.get?_filter_key st.exp (fun a => !expiredAt st.exp now a)] at h
  cases hx : expiredAt st.exp now k with
  | true => rw [hx] at h; simp at h
  | false =>
    rw [hx] at h
    simp only [Bool.not_false, ↓reduceIte] at h
    unfold expiredAt at hx
    rw [h] at hx
    simpa using hx

end Iora.Kv

namespace Iora.Kv
open Iora

/-! ## the directory of a running store -/

/-- the files are what the store wrote: a complete snapshot of `ents` (or none) and a log of complete records `rs` -/
structure Durable (cfg : Cfg) (fs : Fs) (ents : List (Key × Val × Option Int)) (rs : List Rec) : Prop where
  snap : (fs.snap = none ∧ ents = []) ∨ fs.snap = some (encodeSnap cfg.lim ents)
  entsWF : ∀ x ∈ ents, EntWF cfg.lim x
  count : ents.length ≤ cfg.lim.snapCountMax
  log : fs.log = some (rs.flatMap (encode cfg.crc))
  recsWF : ∀ r ∈ rs, r.WF cfg.lim

/-- what `load` replays from such a directory (before the sweep) -/
def rep (l : Lim) (ents : List (Key × Val × Option Int)) (rs : List Rec) : LState :=
  rs.foldl (applyRec l) (snapState ents)

/-- the file-side invariant of a quiescent store -/
structure FInv (cfg : Cfg) (w : W) : Prop where
  pos : 0 < w.now
  valid : ∀ k v, w.mem.kv.get? k = some v → 1 ≤ k.length ∧ k.length ≤ cfg.lim.maxKey ∧ v.length ≤ cfg.lim.maxVal
  plaus : ∀ k e, w.mem.expiry.get? k = some e → e.at_ ≤ cfg.lim.maxPlausible
  nodup : (Map.keys w.mem.kv).Nodup
  file : ∃ ents rs, Durable cfg w.fs ents rs ∧ ∀ k, Eqv w.now ((rep cfg.lim ents rs).look k) (w.mem.look k)

theorem Durable.append (cfg : Cfg) (fs : Fs) (ents : List (Key × Val × Option Int)) (rs : List Rec)
    (h : Durable cfg fs ents rs) (r : Rec) (hr : r.WF cfg.lim) :
    Durable cfg ((FsOp.append .log (encode cfg.crc r)).apply fs) ents (rs ++ [r]) where
  snap := by simpa [FsOp.apply, Fs.set] using h.snap
  entsWF := h.entsWF
  count := h.count
  log := by simp [FsOp.apply, Fs.set, Fs.get, h.log]
  recsWF := by
    intro x hx
    rcases List.mem_append.mp hx with hx | hx
    · exact h.recsWF x hx
    · simp at hx; subst hx; exact hr

theorem rep_append (l : Lim) (ents : List (Key × Val × Option Int)) (rs : List Rec) (r : Rec) :
    rep l ents (rs ++ [r]) = applyRec l (rep l ents rs) r := by
  simp [rep, List.foldl_append]

/-- one record is appended for key `r.key` and memory changes at that key only, in step -/
theorem FInv.write (cfg : Cfg) (w : W) (hf : FInv cfg w) (m1 : Mem) (r : Rec) (hr : r.WF cfg.lim)
    (hother : ∀ k', r.key ≠ k' → m1.look k' = w.mem.look k')
    (hkey : ∀ x, Eqv w.now x (w.mem.look r.key) → Eqv w.now (applyKey cfg.lim r x) (m1.look r.key))
    (hvalid : ∀ k v, m1.kv.get? k = some v → 1 ≤ k.length ∧ k.length ≤ cfg.lim.maxKey ∧ v.length ≤ cfg.lim.maxVal)
    (hplaus : ∀ k e, m1.expiry.get? k = some e → e.at_ ≤ cfg.lim.maxPlausible)
    (hnodup : (Map.keys m1.kv).Nodup) : FInv cfg (writeLog cfg { w with mem := m1 } r) where
  pos := hf.pos
  valid := hvalid
  plaus := hplaus
  nodup := hnodup
  file := by
    obtain ⟨ents, rs, hd, he⟩ := hf.file
    refine ⟨ents, rs ++ [r], Durable.append cfg w.fs ents rs hd r hr, ?_⟩
    intro k
    rw [rep_append, look_applyRec]
    by_cases hk : r.key = k
    · subst hk
      simp only [↓reduceIte]
      exact hkey _ (he r.key)
    · simp only [hk, ↓reduceIte]
      show Eqv w.now _ (m1.look k)
      rw [hother k hk]
      exact he k

end Iora.Kv

namespace Iora.Kv
open Iora

/-! ## compaction -/

theorem look_snapApply (st : LState) (a : Key) (v : Val) (eo : Option Int) (k : Key) :
    (snapApply st (a, v, eo)).look k =
      if a = k then some (v, match eo with | none => st.exp.get? a | some e => some e) else st.look k := by
  cases eo with
  | none =>
    simp only [snapApply, LState.look, Map.get?_put]
    by_cases h : a = k <;> simp [h]
  | some e =>
    simp only [snapApply, LState.look, Map.get?_put]
    by_cases h : a = k <;> simp [h]

theorem exp_snapApply_other (st : LState) (a : Key) (v : Val) (eo : Option Int) (k : Key) (h : a ≠ k) :
    (snapApply st (a, v, eo)).exp.get? k = st.exp.get? k := by
  cases eo with
  | none => rfl
  | some e => simp [snapApply, Map.get?_put, h]

theorem look_snapFold (f : Key → Option Int) (kvl : List (Key × Val)) (hn : (Map.keys kvl).Nodup) (k : Key) :
    ∀ st : LState, (∀ x ∈ kvl, st.exp.get? x.1 = none) →
      ((kvl.map (fun x => (x.1, x.2, f x.1))).foldl snapApply st).look k
        = match Map.get? kvl k with
          | some v => some (v, f k)
          | none => st.look k := by
  induction kvl with
  | nil => intro st _; rfl
  | cons x r ih =>
    intro st hst
    obtain ⟨a, v⟩ := x
    simp only [Map.keys, List.map_cons, List.nodup_cons] at hn
    simp only [List.map_cons, List.foldl_cons]
    rw [ih hn.2 _ (fun y hy => by
      have hne : a ≠ y.1 := fun e => hn.1 (e ▸ List.mem_map.mpr ⟨y, hy, rfl⟩)
      rw [exp_snapApply_other _ _ _ _ _ hne]
      exact hst y (by simp [hy]))]
    simp only [Map.get?_cons]
    by_cases h : a = k
    · subst h
      have hnone : Map.get? r a = none := by
        cases hg : Map.get? r a with
        | none => rfl
        | some v' => exact absurd ((Map.mem_keys_iff r a).mpr ⟨v', hg⟩) hn.1
      simp only [hnone, ↓reduceIte]
      rw [look_snapApply]
      simp only [↓reduceIte]
      have := hst (a, v) (by simp)
      simp only at this
      cases hf : f a <;> simp [this]
    · simp only [h, ↓reduceIte]
      cases hg : Map.get? r k with
      | some v' => rfl
      | none => simp only; rw [look_snapApply]; simp [h]

/-- the snapshot written by `compactLocked` replays to exactly the memory it leaves behind -/
theorem look_snapState_survivors (cfg : Cfg) (w : W) (hn : (Map.keys w.mem.kv).Nodup) (k : Key) :
    (snapState (survivors w.mem w.now)).look k = (compactLocked cfg w).mem.look k := by
  unfold snapState survivors
  rw [look_snapFold w.mem.expOf _ (Map.nodup_filter _ _ hn) k {} (fun _ _ => rfl)]
  rw [look_compact]
  rw [Map.get?_filter_key w.mem.kv (fun a => !w.mem.expired w.now a)]
  unfold Mem.look
  cases hx : w.mem.expired w.now k with
  | true => simp [LState.look]
  | false =>
    simp only [Bool.not_false, ↓reduceIte, Bool.false_eq_true]
    cases hk : w.mem.kv.get? k <;> simp [LState.look]

theorem compact_fs (cfg : Cfg) (w : W) :
    (compactLocked cfg w).fs = { snap := some (encodeSnap cfg.lim (survivors w.mem w.now)), log := some [], tmp := none } := by
  simp [compactLocked, W.emit, FsOp.apply, Fs.set, Fs.get]

theorem survivors_length (m : Mem) (now : Int) : (survivors m now).length ≤ m.kv.length := by
  unfold survivors
  simp only [List.length_map]
  exact List.length_filter_le _ _

theorem survivors_wf (cfg : Cfg) (w : W) (hf : FInv cfg w) (x : Key × Val × Option Int) (hx : x ∈ survivors w.mem w.now) :
    EntWF cfg.lim x := by
  unfold survivors at hx
  obtain ⟨y, hy, rfl⟩ := List.mem_map.mp hx
  obtain ⟨hy1, hy2⟩ := List.mem_filter.mp hy
  have hget := Map.get?_of_mem_nodup w.mem.kv hf.nodup y.1 y.2 hy1
  obtain ⟨v1, v2, v3⟩ := hf.valid y.1 y.2 hget
  refine ⟨v1, v2, v3, ?_⟩
  intro e he
  simp only at he
  have hxf : w.mem.expired w.now y.1 = false := by simpa using hy2
  have hlt := (expired_false_iff w.mem w.now y.1).mp hxf e he
  unfold Mem.expOf at he
  cases hg : w.mem.expiry.get? y.1 with
  | none => rw [hg] at he; simp at he
  | some ent =>
    rw [hg] at he
    simp only [Option.map_some, Option.some.injEq] at he
    have hp := hf.plaus y.1 ent hg
    have hpos := hf.pos
    unfold plausible sentinel
    simp only [Bool.and_eq_true, bne_iff_ne, ne_eq, decide_eq_true_eq]
    omega

/-- `compactLocked` keeps the file-side invariant: the new snapshot alone replays to the memory left behind -/
theorem FInv.compact (cfg : Cfg) (w : W) (hf : FInv cfg w) (hc : w.mem.kv.length ≤ cfg.lim.snapCountMax) :
    FInv cfg (compactLocked cfg w) where
  pos := hf.pos
  valid := by
    intro k v h
    simp only [compactLocked] at h
    rw [Map.get?_filter_key w.mem.kv (fun a => !w.mem.expired w.now a)] at h
    split at h
    · exact hf.valid k v h
    · cases h
  plaus := by
    intro k e h
    simp only [compactLocked] at h
    rw [Map.get?_filter_key w.mem.expiry (fun a => !w.mem.expired w.now a)] at h
    split at h
    · exact hf.plaus k e h
    · cases h
  nodup := Map.nodup_filter _ _ hf.nodup
  file := by
    refine ⟨survivors w.mem w.now, [], ⟨.inr ?_, survivors_wf cfg w hf, ?_, ?_, by simp⟩, ?_⟩
    · rw [compact_fs]
    · have := survivors_length w.mem w.now; omega
    · rw [compact_fs]; rfl
    · intro k
      simp only [rep, List.foldl_nil]
      rw [look_snapState_survivors cfg w hf.nodup k]
      exact Eqv.refl _ _

theorem shouldCompact_or (cfg : Cfg) (w : W) : maybeCompact cfg w = w ∨ maybeCompact cfg w = compactLocked cfg w := by
  unfold maybeCompact; split
  · exact .inr rfl
  · exact .inl rfl

theorem FInv.maybeCompact (cfg : Cfg) (w : W) (hf : FInv cfg w) (hc : w.mem.kv.length ≤ cfg.lim.snapCountMax) :
    FInv cfg (maybeCompact cfg w) := by
  rcases shouldCompact_or cfg w with h | h
  · rw [h]; exact hf
  · rw [h]; exact FInv.compact cfg w hf hc

end Iora.Kv

namespace Iora.Kv
open Iora

/-! ## every operation keeps the file-side invariant -/

theorem length_erase_le {β : Type} (m : Map β) (k : Key) : (Map.erase m k).length ≤ m.length := by
  induction m with
  | nil => simp [Map.erase]
  | cons x r ih =>
    obtain ⟨a, b⟩ := x
    simp only [Map.erase]
    split <;> simp <;> omega

theorem length_put_le {β : Type} (m : Map β) (k : Key) (v : β) : (Map.put m k v).length ≤ m.length + 1 := by
  simp only [Map.put, List.length_cons]
  have := length_erase_le m k
  omega

/-- how many keys an operation can add -/
def Op.adds : Op → Nat
  | .set _ _ => 1
  | .setTtl _ _ _ => 1
  | .setBatch kvs => kvs.length
  | .setBatchTtl kvs _ => kvs.length
  | _ => 0

/-- side conditions under which the on-disk format can represent what an operation does: the entry count of a snapshot
stays within `load`'s sanity bound, and the `time_point` handed to `expireAt` is representable (`≤ kMaxPlausibleEpochMs`, which after
the FC12b repair is the last millisecond a `system_clock::time_point` holds).  TTLs need no side condition: the deadline saturates. -/
def StepOK (cfg : Cfg) (w : W) (op : Op) : Prop :=
  w.mem.kv.length + op.adds ≤ cfg.lim.snapCountMax ∧
  (match op with
   | .expireAt _ t => t ≤ cfg.lim.maxPlausible
   | _ => True)

theorem valid_put (cfg : Cfg) (m : Mem) (k : Key) (v : Val)
    (hv : ∀ k v, m.kv.get? k = some v → 1 ≤ k.length ∧ k.length ≤ cfg.lim.maxKey ∧ v.length ≤ cfg.lim.maxVal)
    (hk : 1 ≤ k.length ∧ k.length ≤ cfg.lim.maxKey ∧ v.length ≤ cfg.lim.maxVal) :
    ∀ k' v', (m.kv.put k v).get? k' = some v' → 1 ≤ k'.length ∧ k'.length ≤ cfg.lim.maxKey ∧ v'.length ≤ cfg.lim.maxVal := by
  intro k' v' h
  rw [Map.get?_put] at h
  by_cases e : k = k'
  · subst e; simp at h; subst h; exact hk
  · simp [e] at h; exact hv k' v' h

theorem valid_erase (cfg : Cfg) (m : Mem) (k : Key)
    (hv : ∀ k v, m.kv.get? k = some v → 1 ≤ k.length ∧ k.length ≤ cfg.lim.maxKey ∧ v.length ≤ cfg.lim.maxVal) :
    ∀ k' v', (m.kv.erase k).get? k' = some v' → 1 ≤ k'.length ∧ k'.length ≤ cfg.lim.maxKey ∧ v'.length ≤ cfg.lim.maxVal := by
  intro k' v' h
  rw [Map.get?_erase] at h
  by_cases e : k = k'
  · simp [e] at h
  · simp [e] at h; exact hv k' v' h

theorem plaus_put (cfg : Cfg) (m : Mem) (k : Key) (e : ExpEnt)
    (hp : ∀ k e, m.expiry.get? k = some e → e.at_ ≤ cfg.lim.maxPlausible) (he : e.at_ ≤ cfg.lim.maxPlausible) :
    ∀ k' e', (m.expiry.put k e).get? k' = some e' → e'.at_ ≤ cfg.lim.maxPlausible := by
  intro k' e' h
  rw [Map.get?_put] at h
  by_cases x : k = k'
  · subst x; simp at h; subst h; exact he
  · simp [x] at h; exact hp k' e' h

theorem plaus_erase (cfg : Cfg) (m : Mem) (k : Key)
    (hp : ∀ k e, m.expiry.get? k = some e → e.at_ ≤ cfg.lim.maxPlausible) :
    ∀ k' e', (m.expiry.erase k).get? k' = some e' → e'.at_ ≤ cfg.lim.maxPlausible := by
  intro k' e' h
  rw [Map.get?_erase] at h
  by_cases x : k = k'
  · simp [x] at h
  · simp [x] at h; exact hp k' e' h

theorem validate_none' {l : Lim} {k : Key} {v : Val} (h : validate l k v = none) :
    1 ≤ k.length ∧ k.length ≤ l.maxKey ∧ v.length ≤ l.maxVal := by
  obtain ⟨h1, h2, h3⟩ := validate_none h
  refine ⟨?_, h2, h3⟩
  cases k with
  | nil => exact absurd rfl h1
  | cons a b => simp

/-- `set` -/
theorem FInv.set (cfg : Cfg) (w : W) (hf : FInv cfg w) (k : Key) (v : Val)
    (hc : w.mem.kv.length + 1 ≤ cfg.lim.snapCountMax) : FInv cfg (opSet cfg w k v).1 := by
  unfold opSet
  cases hv : validate cfg.lim k v with
  | some e => exact hf
  | none =>
    have hk := validate_none' hv
    simp only
    apply FInv.maybeCompact
    · apply FInv.write cfg w hf _ (.set k v) ⟨hk.1, hk.2.1, hk.2.2⟩
      · intro k' hne; rw [look_updateCache, look_set]; simp only [Rec.key] at hne; simp [hne]
      · intro x _; rw [look_updateCache, look_set]; simp [Rec.key, applyKey]; exact Eqv.refl _ _
      · exact valid_put cfg w.mem k v hf.valid hk
      · exact plaus_erase cfg w.mem k hf.plaus
      · exact Map.nodup_put _ _ _ hf.nodup
    · simp only [writeLog_mem, updateCache_kv]
      have := length_put_le w.mem.kv k v
      omega

/-- the saturated TTL deadline is always a plausible (persistable, representable) expiry -/
theorem deadlineAfter_plausible (l : Lim) (hl : l.OK) (now ttl : Int) (hn : 0 < now) (ht : ¬ ttl ≤ 0) :
    plausible l (deadlineAfter l now ttl) = true ∧ deadlineAfter l now ttl ≤ l.maxPlausible := by
  unfold plausible sentinel deadlineAfter
  simp only [Bool.and_eq_true, bne_iff_ne, ne_eq, decide_eq_true_eq]
  have := hl.plausPos
  omega

/-- `set` with a TTL -/
theorem FInv.setTtl (cfg : Cfg) (hl : cfg.lim.OK) (w : W) (hf : FInv cfg w) (k : Key) (v : Val) (ttl : Int)
    (hc : w.mem.kv.length + 1 ≤ cfg.lim.snapCountMax) :
    FInv cfg (opSetTtl cfg w k v ttl).1 := by
  unfold opSetTtl
  by_cases h0 : ttl ≤ 0
  · simp only [h0, ↓reduceIte]; exact hf
  · simp only [h0, ↓reduceIte]
    cases hv : validate cfg.lim k v with
    | some e => exact hf
    | none =>
      have hk := validate_none' hv
      obtain ⟨hpl, hle⟩ := deadlineAfter_plausible cfg.lim hl w.now ttl hf.pos h0
      simp only [armTimer]
      apply FInv.maybeCompact
      · apply FInv.write cfg w hf _ (.setE k v (deadlineAfter cfg.lim w.now ttl)) ⟨hk.1, hk.2.1, hk.2.2, hpl⟩
        · intro k' hne; rw [look_updateCache, look_setE]; simp only [Rec.key] at hne; simp [hne]
        · intro x _; rw [look_updateCache, look_setE]; simp [Rec.key, applyKey]; exact Eqv.refl _ _
        · exact valid_put cfg w.mem k v hf.valid hk
        · exact plaus_put cfg w.mem k _ hf.plaus hle
        · exact Map.nodup_put _ _ _ hf.nodup
      · simp only [writeLog_mem, updateCache_kv]
        have := length_put_le w.mem.kv k v
        omega

end Iora.Kv

namespace Iora.Kv
open Iora

/-- memory changes that no replay-relevant part sees (cache, timers) -/
theorem FInv.congr (cfg : Cfg) (w w' : W) (hf : FInv cfg w) (hfs : w'.fs = w.fs) (hnow : w'.now = w.now)
    (hkv : w'.mem.kv = w.mem.kv) (hlook : w'.mem.look = w.mem.look)
    (hplaus : ∀ k e, w'.mem.expiry.get? k = some e → e.at_ ≤ cfg.lim.maxPlausible) : FInv cfg w' where
  pos := by rw [hnow]; exact hf.pos
  valid := by rw [hkv]; exact hf.valid
  plaus := hplaus
  nodup := by rw [hkv]; exact hf.nodup
  file := by rw [hfs, hnow, hlook]; exact hf.file

theorem FInv.get (cfg : Cfg) (w : W) (hf : FInv cfg w) (k : Key) : FInv cfg (opGet cfg w k).1 := by
  unfold opGet
  split
  · exact hf
  · simp only
    split
    · exact hf
    · split
      · exact hf
      · split
        · exact hf
        · exact FInv.congr cfg w _ hf rfl rfl rfl (look_updateCache ..) hf.plaus

/-- `remove` -/
theorem FInv.remove (cfg : Cfg) (w : W) (hf : FInv cfg w) (k : Key)
    (hc : w.mem.kv.length ≤ cfg.lim.snapCountMax) : FInv cfg (opRemove cfg w k) := by
  unfold opRemove
  split
  · exact hf
  · simp only
    cases hh : w.mem.kv.has k with
    | false => exact hf
    | true =>
      obtain ⟨v, hv⟩ := (Map.has_iff _ _).mp hh
      have hk := hf.valid k v hv
      simp only [↓reduceIte]
      apply FInv.maybeCompact
      · apply FInv.write cfg w hf _ (.del k) ⟨hk.1, hk.2.1⟩
        · intro k' hne; rw [look_del]; simp only [Rec.key] at hne; simp [hne]
        · intro x _; rw [look_del]; simp [Rec.key, applyKey]; exact Eqv.refl _ _
        · exact valid_erase cfg w.mem k hf.valid
        · exact plaus_erase cfg w.mem k hf.plaus
        · exact Map.nodup_erase _ _ hf.nodup
      · simp only [writeLog_mem]
        have := length_erase_le w.mem.kv k
        omega

theorem Eqv_iff (now : Int) (a b : Option Ent) : Eqv now a b ↔ live now a = live now b := by
  constructor
  · intro h; exact h now (Int.le_refl _)
  · intro h t ht
    rw [← live_mono t now ht a, ← live_mono t now ht b, h]

/-- an entry that is visible now is present -/
theorem present_of_eqv_visible {now : Int} {x : Option Ent} {v : Val} {eo : Option Int}
    (hx : Eqv now x (some (v, eo))) (hvis : live now (some (v, eo)) = some (v, eo)) : ∃ eo', x = some (v, eo') := by
  have h := (Eqv_iff _ _ _).mp hx
  rw [hvis] at h
  match x with
  | none => simp [live] at h
  | some (v', none) => simp [live] at h; exact ⟨none, by rw [h.1]⟩
  | some (v', some e') =>
    by_cases hl : now < e'
    · simp [live, hl] at h; exact ⟨some e', by rw [h.1]⟩
    · simp [live, hl] at h

/-- `expireAt` -/
theorem FInv.expireAt (cfg : Cfg) (hl : cfg.lim.OK) (w : W) (hf : FInv cfg w) (k : Key) (t : Int)
    (ht : t ≤ cfg.lim.maxPlausible) : FInv cfg (opExpireAt cfg w k t) := by
  unfold opExpireAt
  split
  · exact hf
  · simp only
    cases hb : (!w.mem.kv.has k || w.mem.expired w.now k) with
    | true => exact hf
    | false =>
      have h1 : w.mem.kv.has k = true := by
        cases h : w.mem.kv.has k <;> simp [h] at hb ⊢
      have h2 : w.mem.expired w.now k = false := by
        cases h : w.mem.expired w.now k <;> simp [h, h1] at hb ⊢
      obtain ⟨v, hv⟩ := (Map.has_iff _ _).mp h1
      have hk := hf.valid k v hv
      have hpos := hf.pos
      have hlook : w.mem.look k = some (v, w.mem.expOf k) := by simp [Mem.look, hv]
      have hvis : live w.now (w.mem.look k) = w.mem.look k := by
        have := live_look_eq w.mem w.now k
        simpa [h1, h2] using this
      simp only [Bool.false_eq_true, ↓reduceIte, armTimer]
      have hpl : plausible cfg.lim (max t 1) = true := by
        unfold plausible sentinel
        simp only [Bool.and_eq_true, bne_iff_ne, ne_eq, decide_eq_true_eq]
        have := hl.plaus
        have := hl.plausPos
        omega
      have hlk : ∀ k', (invalidateCache { w.mem with expiry := w.mem.expiry.put k ⟨t, w.mem.nextTimer, decide (t ≤ w.now)⟩, nextTimer := w.mem.nextTimer + 1 } k).look k'
          = if k = k' then (w.mem.look k).map (fun x => (x.1, some t)) else w.mem.look k' := by
        intro k'
        have : (invalidateCache { w.mem with expiry := w.mem.expiry.put k ⟨t, w.mem.nextTimer, decide (t ≤ w.now)⟩, nextTimer := w.mem.nextTimer + 1 } k).look
            = Mem.look { w.mem with expiry := w.mem.expiry.put k ⟨t, w.mem.nextTimer, decide (t ≤ w.now)⟩, nextTimer := w.mem.nextTimer + 1 } :=
          look_congr rfl rfl
        rw [this, look_expPut]
      apply FInv.write cfg w hf _ (.exp k (max t 1)) ⟨hk.1, hk.2.1, .inr hpl⟩
      · intro k' hne; rw [hlk]; simp only [Rec.key] at hne; simp [hne]
      · intro x hx
        simp only [Rec.key] at hx ⊢
        rw [hlk]
        simp only [↓reduceIte, hlook, Option.map_some]
        rw [hlook] at hx hvis
        obtain ⟨eo', rfl⟩ := present_of_eqv_visible hx hvis
        have hs : max t 1 ≠ sentinel := by unfold sentinel; omega
        simp only [applyKey, hs, ↓reduceIte, hpl]
        -- persisted `max t 1` vs `t` in memory: equal, or both in the past
        by_cases h1t : 1 ≤ t
        · have : max t 1 = t := by omega
          rw [this]; exact Eqv.refl _ _
        · have hm : max t 1 = 1 := by omega
          rw [hm]
          exact (Eqv.expired w.now v 1 (by omega)).trans (Eqv.expired w.now v t (by omega)).symm
      · exact hf.valid
      · exact plaus_put cfg w.mem k _ hf.plaus ht
      · exact hf.nodup

/-- `persist` -/
theorem FInv.persist (cfg : Cfg) (w : W) (hf : FInv cfg w) (k : Key) : FInv cfg (opPersist cfg w k) := by
  unfold opPersist
  split
  · exact hf
  · simp only
    cases h1 : w.mem.kv.has k with
    | false => exact hf
    | true =>
      simp only [Bool.not_true, Bool.false_eq_true, ↓reduceIte]
      cases h2 : w.mem.expiry.has k with
      | false => exact hf
      | true =>
        simp only [Bool.not_true, Bool.false_eq_true, ↓reduceIte]
        cases h3 : w.mem.expired w.now k with
        | true => exact hf
        | false =>
          simp only [Bool.false_eq_true, ↓reduceIte]
          obtain ⟨v, hv⟩ := (Map.has_iff _ _).mp h1
          have hk := hf.valid k v hv
          have hlook : w.mem.look k = some (v, w.mem.expOf k) := by simp [Mem.look, hv]
          have hvis : live w.now (w.mem.look k) = w.mem.look k := by
            have := live_look_eq w.mem w.now k
            simpa [h1, h3] using this
          have hlk : ∀ k', (invalidateCache { w.mem with expiry := w.mem.expiry.erase k } k).look k'
              = if k = k' then (w.mem.look k).map (fun x => (x.1, none)) else w.mem.look k' := by
            intro k'
            have : (invalidateCache { w.mem with expiry := w.mem.expiry.erase k } k).look
                = Mem.look { w.mem with expiry := w.mem.expiry.erase k } := look_congr rfl rfl
            rw [this, look_expErase]
          apply FInv.write cfg w hf _ (.exp k sentinel) ⟨hk.1, hk.2.1, .inl rfl⟩
          · intro k' hne; rw [hlk]; simp only [Rec.key] at hne; simp [hne]
          · intro x hx
            simp only [Rec.key] at hx ⊢
            rw [hlk]
            simp only [↓reduceIte, hlook, Option.map_some]
            rw [hlook] at hx hvis
            obtain ⟨eo', rfl⟩ := present_of_eqv_visible hx hvis
            simp only [applyKey, ↓reduceIte]
            exact Eqv.refl _ _
          · exact hf.valid
          · exact plaus_erase cfg w.mem k hf.plaus
          · exact hf.nodup

/-- the eviction callback -/
theorem FInv.evictFire (cfg : Cfg) (w : W) (hf : FInv cfg w)
    (hsub : ∀ k, (w.mem.expiry.get? k).isSome = true → (w.mem.kv.get? k).isSome = true) (k : Key) (gen : Nat) :
    FInv cfg (opEvictFire cfg w k gen) := by
  unfold opEvictFire
  simp only
  cases he : w.mem.expiry.get? k with
  | none => exact hf
  | some e =>
    simp only
    by_cases hg : gen = 0 ∨ e.timer ≠ gen
    · rw [if_pos hg]; exact hf
    · rw [if_neg hg]
      simp only [armTimer]
      by_cases hlt : e.at_ > w.now
      · rw [if_pos hlt]
        have hlook : Mem.look { w.mem with expiry := w.mem.expiry.put k { e with timer := w.mem.nextTimer, due0 := false }, nextTimer := w.mem.nextTimer + 1 }
            = w.mem.look := by
          funext k'
          rw [look_expPut]
          by_cases h : k = k'
          · subst h
            simp only [↓reduceIte, Mem.look, Mem.expOf, he]
            cases w.mem.kv.get? k <;> simp
          · simp [h]
        exact FInv.congr cfg w _ hf rfl rfl rfl hlook
          (plaus_put cfg w.mem k _ hf.plaus (hf.plaus k e he))
      · rw [if_neg hlt]
        -- EVICT: the key is in `_expiry`, hence in `_kv`; the 'D' record deletes it on both sides
        have hh : w.mem.kv.has k = true := hsub k (by rw [he]; rfl)
        obtain ⟨v, hv⟩ := (Map.has_iff _ _).mp hh
        have hk := hf.valid k v hv
        apply FInv.write cfg w hf _ (.del k) ⟨hk.1, hk.2.1⟩
        · intro k' hne; rw [look_del]; simp only [Rec.key] at hne; simp [hne]
        · intro x _; rw [look_del]; simp [Rec.key, applyKey]; exact Eqv.refl _ _
        · exact valid_erase cfg w.mem k hf.valid
        · exact plaus_erase cfg w.mem k hf.plaus
        · exact Map.nodup_erase _ _ hf.nodup

end Iora.Kv

namespace Iora.Kv
open Iora

/-! ## batches, `clear`, `removeWithPrefix` -/

theorem foldl_writeLog_fs (cfg : Cfg) {α : Type} (g : α → Rec) (l : List α) (hwf : ∀ x ∈ l, (g x).WF cfg.lim)
    (ents : List (Key × Val × Option Int)) :
    ∀ (w0 : W) (rs : List Rec), Durable cfg w0.fs ents rs →
      Durable cfg (l.foldl (fun w x => writeLog cfg w (g x)) w0).fs ents (rs ++ l.map g) := by
  induction l with
  | nil => intro w0 rs h; simpa using h
  | cons x r ih =>
    intro w0 rs h
    simp only [List.foldl_cons, List.map_cons]
    have h1 : Durable cfg (writeLog cfg w0 (g x)).fs ents (rs ++ [g x]) :=
      Durable.append cfg w0.fs ents rs h (g x) (hwf x (by simp))
    have := ih (fun y hy => hwf y (by simp [hy])) _ _ h1
    simpa [List.append_assoc] using this

theorem rep_append_list (l : Lim) (ents : List (Key × Val × Option Int)) (rs rs' : List Rec) (k : Key) :
    (rep l ents (rs ++ rs')).look k = foldKey l k rs' ((rep l ents rs).look k) := by
  simp only [rep, List.foldl_append]
  exact look_foldl_applyRec l rs' k _

theorem eqv_fold_set (l : Lim) (now : Int) (k : Key) (kvs : List (Key × Val)) :
    ∀ (x : Option Ent) (f : Spec), Eqv now x (f k) →
      Eqv now (foldKey l k (kvs.map (fun y => Rec.set y.1 y.2)) x)
        ((kvs.foldl (fun (sp : Spec) y => sp.upd y.1 (some (y.2, none))) f) k) := by
  induction kvs with
  | nil => intro x f h; exact h
  | cons y r ih =>
    intro x f h
    simp only [List.map_cons, List.foldl_cons, foldKey]
    apply ih
    unfold Spec.upd
    by_cases e : y.1 = k
    · simp [Rec.key, e, applyKey]; exact Eqv.refl _ _
    · simp [Rec.key, e]; exact h

theorem eqv_fold_setE (l : Lim) (now : Int) (k : Key) (e : Int) (kvs : List (Key × Val)) :
    ∀ (x : Option Ent) (f : Spec), Eqv now x (f k) →
      Eqv now (foldKey l k (kvs.map (fun y => Rec.setE y.1 y.2 e)) x)
        ((kvs.foldl (fun (sp : Spec) y => sp.upd y.1 (some (y.2, some e))) f) k) := by
  induction kvs with
  | nil => intro x f h; exact h
  | cons y r ih =>
    intro x f h
    simp only [List.map_cons, List.foldl_cons, foldKey]
    apply ih
    unfold Spec.upd
    by_cases e : y.1 = k
    · simp [Rec.key, e, applyKey]; exact Eqv.refl _ _
    · simp [Rec.key, e]; exact h

/-- the replay-irrelevant facts about memory that every loop step keeps -/
structure MemOK (cfg : Cfg) (m : Mem) : Prop where
  valid : ∀ k v, m.kv.get? k = some v → 1 ≤ k.length ∧ k.length ≤ cfg.lim.maxKey ∧ v.length ≤ cfg.lim.maxVal
  plaus : ∀ k e, m.expiry.get? k = some e → e.at_ ≤ cfg.lim.maxPlausible
  nodup : (Map.keys m.kv).Nodup

theorem batchBad_valid (l : Lim) (x : Key × Val) (r : List (Key × Val)) (h : batchBad l (x :: r) = false) :
    (1 ≤ x.1.length ∧ x.1.length ≤ l.maxKey ∧ x.2.length ≤ l.maxVal) ∧ batchBad l r = false := by
  unfold batchBad at *
  simp only [List.any_cons, Bool.or_eq_false_iff, decide_eq_false_iff_not] at h
  refine ⟨⟨?_, by omega, by omega⟩, h.2⟩
  cases hk : x.1 with
  | nil => rw [hk] at h; simp at h
  | cons a b => simp

theorem batchBad_all (l : Lim) (kvs : List (Key × Val)) (h : batchBad l kvs = false) :
    ∀ x ∈ kvs, 1 ≤ x.1.length ∧ x.1.length ≤ l.maxKey ∧ x.2.length ≤ l.maxVal := by
  induction kvs with
  | nil => intro x hx; cases hx
  | cons y r ih =>
    intro x hx
    obtain ⟨h1, h2⟩ := batchBad_valid l y r h
    rcases List.mem_cons.mp hx with e | e
    · subst e; exact h1
    · exact ih h2 x e

theorem setBatch_memOK (cfg : Cfg) (kvs : List (Key × Val)) (hb : batchBad cfg.lim kvs = false) :
    ∀ (m : Mem), MemOK cfg m →
      MemOK cfg (kvs.foldl (fun (m : Mem) x =>
        updateCache cfg { m with expiry := m.expiry.erase x.1, kv := m.kv.put x.1 x.2 } x.1 x.2 none) m) ∧
      (kvs.foldl (fun (m : Mem) x =>
        updateCache cfg { m with expiry := m.expiry.erase x.1, kv := m.kv.put x.1 x.2 } x.1 x.2 none) m).kv.length
        ≤ m.kv.length + kvs.length := by
  induction kvs with
  | nil => intro m h; exact ⟨h, by simp⟩
  | cons x r ih =>
    intro m h
    obtain ⟨hx, hr⟩ := batchBad_valid _ _ _ hb
    simp only [List.foldl_cons]
    have h1 : MemOK cfg (updateCache cfg { m with expiry := m.expiry.erase x.1, kv := m.kv.put x.1 x.2 } x.1 x.2 none) :=
      ⟨valid_put cfg m x.1 x.2 h.valid hx, plaus_erase cfg m x.1 h.plaus, Map.nodup_put _ _ _ h.nodup⟩
    obtain ⟨h2, h3⟩ := ih hr _ h1
    refine ⟨h2, ?_⟩
    have := length_put_le m.kv x.1 x.2
    simp only [updateCache_kv, List.length_cons] at h3 ⊢
    omega

theorem setBatchTtl_memOK (cfg : Cfg) (e : Int) (he : e ≤ cfg.lim.maxPlausible) (kvs : List (Key × Val))
    (hb : batchBad cfg.lim kvs = false) :
    ∀ (m : Mem), MemOK cfg m →
      MemOK cfg (kvs.foldl (fun (m : Mem) x =>
        let (id, m) := armTimer m
        updateCache cfg { m with kv := m.kv.put x.1 x.2, expiry := m.expiry.put x.1 ⟨e, id, false⟩ } x.1 x.2 (some e)) m) ∧
      (kvs.foldl (fun (m : Mem) x =>
        let (id, m) := armTimer m
        updateCache cfg { m with kv := m.kv.put x.1 x.2, expiry := m.expiry.put x.1 ⟨e, id, false⟩ } x.1 x.2 (some e)) m).kv.length
        ≤ m.kv.length + kvs.length := by
  induction kvs with
  | nil => intro m h; exact ⟨h, by simp⟩
  | cons x r ih =>
    intro m h
    obtain ⟨hx, hr⟩ := batchBad_valid _ _ _ hb
    simp only [List.foldl_cons, armTimer]
    have h1 : MemOK cfg (updateCache cfg { m with kv := m.kv.put x.1 x.2, expiry := m.expiry.put x.1 ⟨e, m.nextTimer, false⟩, nextTimer := m.nextTimer + 1 } x.1 x.2 (some e)) :=
      ⟨valid_put cfg m x.1 x.2 h.valid hx, plaus_put cfg m x.1 _ h.plaus he, Map.nodup_put _ _ _ h.nodup⟩
    obtain ⟨h2, h3⟩ := ih hr _ h1
    simp only [armTimer] at h2 h3
    refine ⟨h2, ?_⟩
    have := length_put_le m.kv x.1 x.2
    simp only [updateCache_kv, List.length_cons] at h3 ⊢
    omega

theorem FInv.memOK (cfg : Cfg) (w : W) (hf : FInv cfg w) : MemOK cfg w.mem := ⟨hf.valid, hf.plaus, hf.nodup⟩

/-- `setBatch(batch)` -/
theorem FInv.setBatch (cfg : Cfg) (w : W) (hf : FInv cfg w) (hi : MemInv w.mem) (hz : CacheOff cfg w.mem) (kvs : List (Key × Val))
    (hc : w.mem.kv.length + kvs.length ≤ cfg.lim.snapCountMax) : FInv cfg (opSetBatch cfg w kvs).1 := by
  unfold opSetBatch
  split
  · exact hf
  · cases hb : batchBad cfg.lim kvs with
    | true => exact hf
    | false =>
      simp only [Bool.false_eq_true, ↓reduceIte]
      obtain ⟨_, hlook⟩ := setBatch_mem cfg kvs hb w.mem hi hz
      obtain ⟨hok, hlen⟩ := setBatch_memOK cfg kvs hb w.mem (hf.memOK)
      obtain ⟨hm, hn⟩ := foldl_writeLog_mem cfg (fun x : Key × Val => Rec.set x.1 x.2) kvs
        { w with mem := kvs.foldl (fun (m : Mem) x =>
          updateCache cfg { m with expiry := m.expiry.erase x.1, kv := m.kv.put x.1 x.2 } x.1 x.2 none) w.mem }
      have hall := batchBad_all cfg.lim kvs hb
      apply FInv.maybeCompact
      · refine ⟨by rw [hn]; exact hf.pos, by rw [hm]; exact hok.valid, by rw [hm]; exact hok.plaus, by rw [hm]; exact hok.nodup, ?_⟩
        obtain ⟨ents, rs, hd, he⟩ := hf.file
        refine ⟨ents, rs ++ kvs.map (fun x => Rec.set x.1 x.2),
          foldl_writeLog_fs cfg (fun x : Key × Val => Rec.set x.1 x.2) kvs (fun x hx => hall x hx) ents _ rs hd, ?_⟩
        intro k
        rw [rep_append_list, hn, hm, hlook]
        exact eqv_fold_set cfg.lim w.now k kvs _ _ (he k)
      · rw [hm]; exact Nat.le_trans hlen hc

/-- `setBatch(batch, ttl)` -/
theorem FInv.setBatchTtl (cfg : Cfg) (hl : cfg.lim.OK) (w : W) (hf : FInv cfg w) (hi : MemInv w.mem) (hz : CacheOff cfg w.mem)
    (kvs : List (Key × Val)) (ttl : Int) (hc : w.mem.kv.length + kvs.length ≤ cfg.lim.snapCountMax) :
    FInv cfg (opSetBatchTtl cfg w kvs ttl).1 := by
  unfold opSetBatchTtl
  by_cases h0 : ttl ≤ 0
  · simp only [h0, ↓reduceIte]; exact hf
  · simp only [h0, ↓reduceIte]
    split
    · exact hf
    · cases hb : batchBad cfg.lim kvs with
      | true => exact hf
      | false =>
        simp only [Bool.false_eq_true, ↓reduceIte]
        obtain ⟨hpl, hle⟩ := deadlineAfter_plausible cfg.lim hl w.now ttl hf.pos h0
        obtain ⟨_, hlook⟩ := setBatchTtl_mem cfg (deadlineAfter cfg.lim w.now ttl) kvs hb w.mem hi hz
        obtain ⟨hok, hlen⟩ := setBatchTtl_memOK cfg (deadlineAfter cfg.lim w.now ttl) hle kvs hb w.mem (hf.memOK)
        obtain ⟨hm, hn⟩ := foldl_writeLog_mem cfg (fun x : Key × Val => Rec.setE x.1 x.2 (deadlineAfter cfg.lim w.now ttl)) kvs
          { w with mem := kvs.foldl (fun (m : Mem) x =>
            let (id, m) := armTimer m
            updateCache cfg { m with kv := m.kv.put x.1 x.2, expiry := m.expiry.put x.1 ⟨deadlineAfter cfg.lim w.now ttl, id, false⟩ } x.1 x.2
              (some (deadlineAfter cfg.lim w.now ttl))) w.mem }
        have hall := batchBad_all cfg.lim kvs hb
        apply FInv.maybeCompact
        · refine ⟨by rw [hn]; exact hf.pos, by rw [hm]; exact hok.valid, by rw [hm]; exact hok.plaus, by rw [hm]; exact hok.nodup, ?_⟩
          obtain ⟨ents, rs, hd, he⟩ := hf.file
          refine ⟨ents, rs ++ kvs.map (fun x => Rec.setE x.1 x.2 (deadlineAfter cfg.lim w.now ttl)),
            foldl_writeLog_fs cfg (fun x : Key × Val => Rec.setE x.1 x.2 (deadlineAfter cfg.lim w.now ttl)) kvs
              (fun x hx => ⟨(hall x hx).1, (hall x hx).2.1, (hall x hx).2.2, hpl⟩) ents _ rs hd, ?_⟩
          intro k
          rw [rep_append_list, hn, hm, hlook]
          exact eqv_fold_setE cfg.lim w.now k (deadlineAfter cfg.lim w.now ttl) kvs _ _ (he k)
        · rw [hm]; exact Nat.le_trans hlen hc

theorem foldKey_dels (l : Lim) (k : Key) (ks : List Key) :
    ∀ x, foldKey l k (ks.map Rec.del) x = if k ∈ ks then none else x := by
  induction ks with
  | nil => intro x; rfl
  | cons a r ih =>
    intro x
    have hstep : foldKey l k ((a :: r).map Rec.del) x = foldKey l k (r.map Rec.del) (if a = k then none else x) := rfl
    rw [hstep, ih]
    by_cases e : a = k
    · subst e; simp
    · have : ¬ k = a := fun h => e h.symm
      simp [e, this]

/-- `clear` -/
theorem FInv.clear (cfg : Cfg) (w : W) (hf : FInv cfg w) : FInv cfg (opClear cfg w) := by
  unfold opClear
  obtain ⟨hm, hn⟩ := foldl_writeLog_mem cfg (fun x : Key × Val => Rec.del x.1) w.mem.kv w
  apply FInv.maybeCompact
  · refine ⟨by simp only [hn]; exact hf.pos, by intro k v h; simp at h, by intro k e h; simp at h, by simp [Map.keys], ?_⟩
    obtain ⟨ents, rs, hd, he⟩ := hf.file
    have hwf : ∀ x ∈ w.mem.kv, (Rec.del x.1).WF cfg.lim := by
      intro x hx
      have := hf.valid x.1 x.2 (Map.get?_of_mem_nodup _ hf.nodup x.1 x.2 hx)
      exact ⟨this.1, this.2.1⟩
    refine ⟨ents, rs ++ w.mem.kv.map (fun x => Rec.del x.1),
      foldl_writeLog_fs cfg (fun x : Key × Val => Rec.del x.1) w.mem.kv hwf ents w rs hd, ?_⟩
    intro k
    rw [rep_append_list]
    have : w.mem.kv.map (fun x => Rec.del x.1) = (Map.keys w.mem.kv).map Rec.del := by
      simp [Map.keys, List.map_map]
    rw [this, foldKey_dels]
    simp only [hn]
    show Eqv w.now _ none
    by_cases hk : k ∈ Map.keys w.mem.kv
    · simp only [hk, ↓reduceIte]; exact Eqv.refl _ _
    · simp only [hk, ↓reduceIte]
      have : w.mem.look k = none := by
        unfold Mem.look
        cases hg : w.mem.kv.get? k with
        | none => rfl
        | some v => exact absurd ((Map.mem_keys_iff _ _).mpr ⟨v, hg⟩) hk
      have h2 := he k
      rw [this] at h2
      exact h2
  · exact Nat.zero_le _

end Iora.Kv

namespace Iora.Kv
open Iora

/-! ## `removeWithPrefix`, clock, restart -/

theorem compact_kv_length (cfg : Cfg) (w : W) : (compactLocked cfg w).mem.kv.length ≤ w.mem.kv.length := by
  simp only [compactLocked]; exact List.length_filter_le _ _

theorem maybeCompact_kv_length (cfg : Cfg) (w : W) : (maybeCompact cfg w).mem.kv.length ≤ w.mem.kv.length := by
  rcases shouldCompact_or cfg w with h | h
  · rw [h]; exact Nat.le_refl _
  · rw [h]; exact compact_kv_length cfg w

theorem opRemove_kv_length (cfg : Cfg) (w : W) (k : Key) : (opRemove cfg w k).mem.kv.length ≤ w.mem.kv.length := by
  unfold opRemove
  split
  · exact Nat.le_refl _
  · simp only
    split
    · refine Nat.le_trans (maybeCompact_kv_length cfg _) ?_
      simp only [writeLog_mem]
      exact length_erase_le _ _
    · exact Nat.le_refl _

theorem removeFold_finv (cfg : Cfg) (ks : List Key) :
    ∀ (w : W), FInv cfg w → w.mem.kv.length ≤ cfg.lim.snapCountMax → FInv cfg (ks.foldl (opRemove cfg) w) := by
  induction ks with
  | nil => intro w hf _; exact hf
  | cons a r ih =>
    intro w hf hc
    simp only [List.foldl_cons]
    exact ih _ (FInv.remove cfg w hf a hc) (Nat.le_trans (opRemove_kv_length cfg w a) hc)

theorem FInv.advance (cfg : Cfg) (w : W) (hf : FInv cfg w) (dt : Nat) : FInv cfg { w with now := w.now + dt } where
  pos := by have := hf.pos; show 0 < w.now + dt; omega
  valid := hf.valid
  plaus := hf.plaus
  nodup := hf.nodup
  file := by
    obtain ⟨ents, rs, hd, he⟩ := hf.file
    exact ⟨ents, rs, hd, fun k => (he k).mono (by show w.now ≤ w.now + dt; omega)⟩

/-- `shutdown()`: the drain runs eviction callbacks -/
theorem shutdown_ok (cfg : Cfg) (l : List (Key × Nat)) :
    ∀ (w : W), MemInv w.mem → FInv cfg w →
      MemInv (l.foldl (fun w x => opEvictFire cfg w x.1 x.2) w).mem ∧ FInv cfg (l.foldl (fun w x => opEvictFire cfg w x.1 x.2) w)
        ∧ (l.foldl (fun w x => opEvictFire cfg w x.1 x.2) w).abs = w.abs := by
  induction l with
  | nil => intro w hi hf; exact ⟨hi, hf, rfl⟩
  | cons x r ih =>
    intro w hi hf
    simp only [List.foldl_cons]
    obtain ⟨h1, h2⟩ := evictFire_ok cfg w hi x.1 x.2
    obtain ⟨h3, h4, h5⟩ := ih _ h1 (FInv.evictFire cfg w hf hi.sub x.1 x.2)
    exact ⟨h3, h4, by rw [h5, h2]⟩

/-- validity of replayed states -/
structure LOK (l : Lim) (st : LState) : Prop where
  valid : ∀ k v, st.kv.get? k = some v → 1 ≤ k.length ∧ k.length ≤ l.maxKey ∧ v.length ≤ l.maxVal
  plaus : ∀ k e, st.exp.get? k = some e → e ≤ l.maxPlausible

theorem LOK.applyRec (l : Lim) (hl : l.OK) (st : LState) (h : LOK l st) (r : Rec) (hr : r.WF l) : LOK l (applyRec l st r) := by
  cases r with
  | set a v =>
    obtain ⟨h1, h2, h3⟩ := hr
    refine ⟨?_, ?_⟩
    · intro k v' hg; simp only [Iora.Kv.applyRec, Map.get?_put] at hg
      by_cases e : a = k
      · subst e; simp at hg; subst hg; exact ⟨h1, h2, h3⟩
      · simp [e] at hg; exact h.valid k v' hg
    · intro k e hg; simp only [Iora.Kv.applyRec, Map.get?_erase] at hg
      by_cases x : a = k
      · simp [x] at hg
      · simp [x] at hg; exact h.plaus k e hg
  | setE a v e =>
    obtain ⟨h1, h2, h3, h4⟩ := hr
    obtain ⟨_, p2, _, _⟩ := plausible_range hl h4
    refine ⟨?_, ?_⟩
    · intro k v' hg; simp only [Iora.Kv.applyRec, Map.get?_put] at hg
      by_cases x : a = k
      · subst x; simp at hg; subst hg; exact ⟨h1, h2, h3⟩
      · simp [x] at hg; exact h.valid k v' hg
    · intro k e' hg; simp only [Iora.Kv.applyRec, Map.get?_put] at hg
      by_cases x : a = k
      · subst x; simp at hg; subst hg; exact p2
      · simp [x] at hg; exact h.plaus k e' hg
  | del a =>
    refine ⟨?_, ?_⟩
    · intro k v' hg; simp only [Iora.Kv.applyRec, Map.get?_erase] at hg
      by_cases x : a = k
      · simp [x] at hg
      · simp [x] at hg; exact h.valid k v' hg
    · intro k e hg; simp only [Iora.Kv.applyRec, Map.get?_erase] at hg
      by_cases x : a = k
      · simp [x] at hg
      · simp [x] at hg; exact h.plaus k e hg
  | exp a e =>
    simp only [Iora.Kv.applyRec]
    split
    · exact h
    · split
      · refine ⟨h.valid, ?_⟩
        intro k e' hg; simp only [Map.get?_erase] at hg
        by_cases x : a = k
        · simp [x] at hg
        · simp [x] at hg; exact h.plaus k e' hg
      · split
        · rename_i hp
          obtain ⟨_, p2, _, _⟩ := plausible_range hl hp
          refine ⟨h.valid, ?_⟩
          intro k e' hg; simp only [Map.get?_put] at hg
          by_cases x : a = k
          · subst x; simp at hg; subst hg; exact p2
          · simp [x] at hg; exact h.plaus k e' hg
        · exact h

theorem LOK.foldl (l : Lim) (hl : l.OK) (rs : List Rec) (h : ∀ r ∈ rs, r.WF l) :
    ∀ st, LOK l st → LOK l (rs.foldl (Iora.Kv.applyRec l) st) := by
  induction rs with
  | nil => intro st hi; exact hi
  | cons r rs ih =>
    intro st hi
    exact ih (fun x hx => h x (by simp [hx])) _ (LOK.applyRec l hl st hi r (h r (by simp)))

theorem LOK.snapState (l : Lim) (hl : l.OK) (ents : List (Key × Val × Option Int)) (h : ∀ x ∈ ents, EntWF l x) :
    LOK l (snapState ents) := by
  unfold Iora.Kv.snapState
  suffices hs : ∀ st, LOK l st → LOK l (ents.foldl Iora.Kv.snapApply st) from
    hs _ ⟨by intro k v hg; simp at hg, by intro k e hg; simp at hg⟩
  induction ents with
  | nil => intro st hi; exact hi
  | cons x r ih =>
    intro st hi
    apply ih (fun y hy => h y (by simp [hy]))
    obtain ⟨k, v, eo⟩ := x
    obtain ⟨h1, h2, h3, h4⟩ := h (k, v, eo) (by simp)
    simp only at h1 h2 h3 h4
    cases eo with
    | none =>
      refine ⟨?_, hi.plaus⟩
      intro k' v' hg; simp only [Iora.Kv.snapApply, Map.get?_put] at hg
      by_cases x : k = k'
      · subst x; simp at hg; subst hg; exact ⟨h1, h2, h3⟩
      · simp [x] at hg; exact hi.valid k' v' hg
    | some e =>
      obtain ⟨_, p2, _, _⟩ := plausible_range hl (h4 e rfl)
      refine ⟨?_, ?_⟩
      · intro k' v' hg; simp only [Iora.Kv.snapApply, Map.get?_put] at hg
        by_cases x : k = k'
        · subst x; simp at hg; subst hg; exact ⟨h1, h2, h3⟩
        · simp [x] at hg; exact hi.valid k' v' hg
      · intro k' e' hg; simp only [Iora.Kv.snapApply, Map.get?_put] at hg
        by_cases x : k = k'
        · subst x; simp at hg; subst hg; exact p2
        · simp [x] at hg; exact hi.plaus k' e' hg

theorem LOK.sweep (l : Lim) (now : Int) (st : LState) (h : LOK l st) : LOK l (sweep now st) := by
  refine ⟨?_, ?_⟩
  · intro k v hg
    simp only [Iora.Kv.sweep] at hg
    rw [Map.get?_filter_key st.kv (fun a => !expiredAt st.exp now a)] at hg
    split at hg
    · exact h.valid k v hg
    · cases hg
  · intro k e hg
    simp only [Iora.Kv.sweep] at hg
    rw [Map.get?_filter_key st.exp (fun a => !expiredAt st.exp now a)] at hg
    split at hg
    · exact h.plaus k e hg
    · cases hg

/-- `postLoadArm` keeps keys and expiries, and hands out timers -/
theorem armAll_get? (exp : Map Int) (n : Nat) (k : Key) :
    ((armAll exp n).1.get? k).map (·.at_) = exp.get? k ∧ Map.keys (armAll exp n).1 = Map.keys exp := by
  induction exp with
  | nil => exact ⟨rfl, rfl⟩
  | cons x r ih =>
    obtain ⟨a, e⟩ := x
    simp only [armAll, List.foldr_cons]
    have ih1 := ih.1
    have ih2 := ih.2
    simp only [armAll] at ih1 ih2
    constructor
    · simp only [Map.get?_cons]
      by_cases h : a = k
      · simp [h]
      · simp only [h, ↓reduceIte]; exact ih1
    · simp only [Map.keys, List.map_cons] at ih2 ⊢
      rw [ih2]

end Iora.Kv

namespace Iora.Kv
open Iora

theorem openStore_durable (cfg : Cfg) (hl : cfg.lim.OK) (fs : Fs) (ents : List (Key × Val × Option Int)) (rs : List Rec)
    (hd : Durable cfg fs ents rs) (now : Int) :
    openStore cfg.lim cfg.crc fs now = .ok (sweep now (rep cfg.lim ents rs), []) := by
  unfold openStore
  have hsnap : loadSnapOpt cfg.lim fs.snap = .ok (snapState ents) := by
    rcases hd.snap with ⟨h1, h2⟩ | h1
    · rw [h1, h2]; rfl
    · rw [h1]; exact loadSnap_ok cfg.lim hl ents hd.entsWF hd.count
  rw [hsnap, hd.log]
  simp only
  rw [replayLoop_records_all cfg.lim hl cfg.crc rs hd.recsWF]
  simp [rep]

theorem look_memOfLoad (st : LState) (m0 : Mem) (k : Key) : (memOfLoad st m0).look k = st.look k := by
  simp only [memOfLoad, Mem.look, Mem.expOf, LState.look]
  rw [(armAll_get? st.exp m0.nextTimer k).1]
  cases st.kv.get? k <;> rfl

theorem memOfLoad_exp (st : LState) (m0 : Mem) (k : Key) (e : ExpEnt) (h : (memOfLoad st m0).expiry.get? k = some e) :
    st.exp.get? k = some e.at_ := by
  have := (armAll_get? st.exp m0.nextTimer k).1
  simp only [memOfLoad] at h
  rw [h] at this
  exact this.symm

theorem MemInv.memOfLoad (st : LState) (m0 : Mem) (hli : LInv st) : MemInv (memOfLoad st m0) where
  cache := by intro x hx; cases hx
  sub := by
    intro k hk
    apply hli.sub k
    obtain ⟨e, he'⟩ := Option.isSome_iff_exists.mp hk
    rw [memOfLoad_exp st m0 k e he']; rfl
  nodupKv := hli.nodupKv
  nodupExp := by
    show (Map.keys (armAll st.exp m0.nextTimer).1).Nodup
    rw [(armAll_get? st.exp m0.nextTimer []).2]; exact hli.nodupExp
  noEmpty := hli.noEmpty

/-- the constructor on the directory of a cleanly closed store: **restart** -/
theorem open_ok (cfg : Cfg) (hl : cfg.lim.OK) (w : W) (hf : FInv cfg w) :
    MemInv (opOpen cfg w).1.mem ∧ FInv cfg (opOpen cfg w).1 ∧ (opOpen cfg w).1.abs = w.abs ∧ (opOpen cfg w).2 = .ok := by
  obtain ⟨ents, rs, hd, he⟩ := hf.file
  unfold opOpen
  rw [openStore_durable cfg hl w.fs ents rs hd w.now]
  simp only [List.foldl_nil]
  have hli : LInv (sweep w.now (rep cfg.lim ents rs)) :=
    LInv.sweep _ _ (LInv.foldl cfg.lim rs hd.recsWF _ (LInv.snapState cfg.lim ents hd.entsWF))
  have hlo : LOK cfg.lim (sweep w.now (rep cfg.lim ents rs)) :=
    LOK.sweep _ _ _ (LOK.foldl cfg.lim hl rs hd.recsWF _ (LOK.snapState cfg.lim hl ents hd.entsWF))
  refine ⟨MemInv.memOfLoad _ _ hli, ⟨hf.pos, hlo.valid, ?_, hli.nodupKv, ?_⟩, ?_, trivial⟩
  · intro k e hg; exact hlo.plaus k e.at_ (memOfLoad_exp _ _ k e hg)
  · refine ⟨ents, rs, hd, ?_⟩
    intro k
    show Eqv w.now _ ((memOfLoad _ _).look k)
    rw [look_memOfLoad]
    exact (sweep_eqv w.now (rep cfg.lim ents rs) k).symm
  · unfold W.abs
    simp only [SpecSt.mk.injEq, and_true]
    funext k
    rw [look_memOfLoad]
    have h1 := (Eqv_iff _ _ _).mp (sweep_eqv w.now (rep cfg.lim ents rs) k)
    have h2 := (Eqv_iff _ _ _).mp (he k)
    rw [h1, h2]

/-- clean close + reopen -/
theorem reopen_ok (cfg : Cfg) (hl : cfg.lim.OK) (w : W) (hi : MemInv w.mem) (hf : FInv cfg w) :
    MemInv (opReopen cfg w).1.mem ∧ FInv cfg (opReopen cfg w).1 ∧ (opReopen cfg w).1.abs = w.abs
      ∧ (opReopen cfg w).2 = .ok := by
  unfold opReopen opShutdown
  obtain ⟨_, h2, h3⟩ := shutdown_ok cfg (drainFires w.mem) w hi hf
  obtain ⟨a, b, c, d⟩ := open_ok cfg hl _ h2
  exact ⟨a, b, by rw [c, h3], d⟩

end Iora.Kv

namespace Iora.Kv
open Iora

/-! ## the whole invariant, one step, whole histories -/

structure Inv (cfg : Cfg) (w : W) : Prop where
  mem : MemInv w.mem
  file : FInv cfg w
  /-- `maxCacheSize == 0`: the cache is never filled -/
  cacheOff : CacheOff cfg w.mem

theorem FInv.resetTr (cfg : Cfg) (w : W) (hf : FInv cfg w) : FInv cfg { w with tr := [] } :=
  ⟨hf.pos, hf.valid, hf.plaus, hf.nodup, hf.file⟩

/-- file-side invariant of one step -/
theorem step_finv (cfg : Cfg) (hl : cfg.lim.OK) (w : W) (hi : Inv cfg w) (op : Op) (hok : StepOK cfg w op) :
    FInv cfg (step cfg w op).1 := by
  have hf := FInv.resetTr cfg w hi.file
  have him : MemInv ({ w with tr := [] } : W).mem := hi.mem
  obtain ⟨hc, ht⟩ := hok
  unfold step
  cases op with
  | set k v => exact FInv.set cfg _ hf k v hc
  | setTtl k v ttl => exact FInv.setTtl cfg hl _ hf k v ttl hc
  | setBatch kvs => exact FInv.setBatch cfg _ hf him hi.cacheOff kvs hc
  | setBatchTtl kvs ttl => exact FInv.setBatchTtl cfg hl _ hf him hi.cacheOff kvs ttl hc
  | get k => exact FInv.get cfg _ hf k
  | remove k => exact FInv.remove cfg _ hf k (by simp only [Op.adds] at hc; exact hc)
  | removeWithPrefix p ord =>
    exact removeFold_finv cfg _ _ hf (by simp only [Op.adds] at hc; exact hc)
  | clear => exact FInv.clear cfg _ hf
  | expireAt k t => exact FInv.expireAt cfg hl _ hf k t ht
  | persist k => exact FInv.persist cfg _ hf k
  | compact => exact FInv.compact cfg _ hf (by simp only [Op.adds] at hc; exact hc)
  | advance dt => exact FInv.advance cfg _ hf dt
  | evictFire k g => exact FInv.evictFire cfg _ hf him.sub k g
  | reopen => exact (reopen_ok cfg hl _ him hf).2.1

/-- **simulation of one step**, every operation: the invariants are kept, the abstract state moves as the reference
map says, the result is what the reference map allows -/
theorem step_ok (cfg : Cfg) (hl : cfg.lim.OK) (w : W) (hi : Inv cfg w) (op : Op) (hok : StepOK cfg w op) :
    Inv cfg (step cfg w op).1 ∧ (step cfg w op).1.abs = specStep cfg.lim w.abs op
      ∧ OutOK cfg.lim w.abs op (step cfg w op).2 := by
  have hfin := step_finv cfg hl w hi op hok
  by_cases hre : ∃ (_ : Unit), op = .reopen
  · obtain ⟨_, rfl⟩ := hre
    have hf := FInv.resetTr cfg w hi.file
    have him : MemInv ({ w with tr := [] } : W).mem := hi.mem
    obtain ⟨a, _, c, d⟩ := reopen_ok cfg hl _ him hf
    exact ⟨⟨a, hfin, cacheOff_step cfg w hi.cacheOff .reopen⟩, c, d⟩
  · have hne : op ≠ .reopen := fun h => hre ⟨(), h⟩
    obtain ⟨a, b, c⟩ := step_mem_ok cfg w hi.mem hi.cacheOff op hne
    exact ⟨⟨a, hfin, cacheOff_step cfg w hi.cacheOff op⟩, b, c⟩

/-- side conditions along a history -/
def RunOK (cfg : Cfg) : W → List Op → Prop
  | _, [] => True
  | w, op :: ops => StepOK cfg w op ∧ RunOK cfg (step cfg w op).1 ops

/-- every result along a history is what the reference map allows -/
def OutsOK (cfg : Cfg) : W → SpecSt → List Op → Prop
  | _, _, [] => True
  | w, s, op :: ops => OutOK cfg.lim s op (step cfg w op).2 ∧ OutsOK cfg (step cfg w op).1 (specStep cfg.lim s op) ops

theorem run_ok (cfg : Cfg) (hl : cfg.lim.OK) (ops : List Op) :
    ∀ (w : W), Inv cfg w → RunOK cfg w ops →
      Inv cfg (run cfg w ops) ∧ (run cfg w ops).abs = specRun cfg.lim w.abs ops ∧ OutsOK cfg w w.abs ops := by
  induction ops with
  | nil => intro w hi _; exact ⟨hi, rfl, trivial⟩
  | cons op ops ih =>
    intro w hi hok
    obtain ⟨h1, h2, h3⟩ := step_ok cfg hl w hi op hok.1
    obtain ⟨a, b, c⟩ := ih _ h1 hok.2
    refine ⟨a, ?_, h3, ?_⟩
    · show (run cfg (step cfg w op).1 ops).abs = specRun cfg.lim (specStep cfg.lim w.abs op) ops
      rw [b, h2]
    · rw [← h2]; exact c

/-- a fresh store on an empty directory -/
theorem init_eq (cfg : Cfg) (now : Int) (ch : List Nat) :
    W.init cfg now ch = { mem := memOfLoad (sweep now {}) { choices := ch }, fs := { log := some [] }, tr := [.append .log []], now := now } := by
  simp [W.init, opOpen, openStore, loadSnapOpt, W.emit, FsOp.apply, Fs.set, Fs.get]

theorem init_inv (cfg : Cfg) (now : Int) (hn : 0 < now) (ch : List Nat) : Inv cfg (W.init cfg now ch) := by
  rw [init_eq]
  have hli : LInv (sweep now {}) := LInv.sweep _ _ LInv.init
  refine ⟨MemInv.memOfLoad _ _ hli, ⟨hn, ?_, ?_, hli.nodupKv, ?_⟩, fun _ => rfl⟩
  · intro k v h; simp [memOfLoad, sweep] at h
  · intro k e h; simp [memOfLoad, sweep, armAll] at h
  · refine ⟨[], [], ⟨.inl ⟨rfl, rfl⟩, by simp, Nat.zero_le _, rfl, by simp⟩, ?_⟩
    intro k
    exact Eqv.of_eq (by simp [rep, snapState, LState.look, look_memOfLoad, sweep])

theorem init_abs (cfg : Cfg) (now : Int) (ch : List Nat) :
    (W.init cfg now ch).abs = { m := fun _ => none, now := now } := by
  rw [init_eq]
  unfold W.abs
  simp only [SpecSt.mk.injEq, and_true]
  funext k
  rw [look_memOfLoad]
  simp [sweep, LState.look, live]

end Iora.Kv
