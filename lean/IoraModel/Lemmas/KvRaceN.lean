import IoraModel.Model.KvRaceN
/-!
# Cache coherence of one key for any number of threads and any sequences of calls, every schedule
-/
namespace Iora.Kv.RaceN
open Iora Iora.Kv Iora.Kv.Race

/-- what a thread knows about `_kv[k]` while it holds `_mutex` -/
def Th.Ok (kv : Option Ent) : Th → Prop
  | .idle => True
  | .rd pc tmp => pc ≠ .released ∧ ((pc = .loaded ∨ pc = .hasC ∨ pc = .wrote ∨ pc = .relC) → tmp = kv)
  | .wr pc o => o.OK ∧ pc ≠ .released ∧ ((pc = .wroteKv ∨ pc = .hasC) → kv = o.kv)
  | .ev _ => True
  | .fp _ => True

/-- the inductive invariant (lock scopes of the working tree: both facts `true`) -/
structure Inv (sh : Shape) (s : St) : Prop where
  /-- `_mutex`: an exclusive holder excludes every shared holder -/
  xs : ∀ i j, i < s.n → j < s.n → (s.th i).holdsX sh = true → (s.th j).holdsS sh = false
  /-- `_mutex`: at most one exclusive holder -/
  xx : ∀ i j, i < s.n → j < s.n → i ≠ j → (s.th i).holdsX sh = true → (s.th j).holdsX sh = false
  /-- `_cacheMutex`: at most one (exclusive) holder -/
  cc : ∀ i j, i < s.n → j < s.n → i ≠ j → (s.th i).holdsC = true → (s.th j).holdsC = false
  ok : ∀ i, i < s.n → (s.th i).Ok s.kv
  /-- the cache entry is absent or the linearization value -/
  cl : s.cache = none ∨ s.cache = s.lin
  /-- the linearization value is what `_kv[k]` holds, unless some writer stands between its two assignments -/
  lk : (∀ i, i < s.n → (s.th i).mid = false) → s.lin = s.kv

/-- the cache entry is coherent, or some writer stands between its two assignments -/
theorem Inv.coh {sh : Shape} {s : St} (hi : Inv sh s) : s.Coherent ∨ ∃ i, i < s.n ∧ (s.th i).mid = true := by
  by_cases h : ∃ i, i < s.n ∧ (s.th i).mid = true
  · exact Or.inr h
  · left
    have hl := hi.lk (fun i hn => by
      cases hm : (s.th i).mid with
      | false => rfl
      | true => exact absurd ⟨i, hn, hm⟩ h)
    show s.cache = none ∨ s.cache = s.kv
    rw [← hl]; exact hi.cl

theorem noX_iff (sh : Shape) (s : St) : s.noX sh = true ↔ ∀ j, j < s.n → (s.th j).holdsX sh = false := by
  simp [St.noX, List.all_eq_true]

theorem noS_iff (sh : Shape) (s : St) : s.noS sh = true ↔ ∀ j, j < s.n → (s.th j).holdsS sh = false := by
  simp [St.noS, List.all_eq_true]

theorem noC_iff (s : St) : s.noC = true ↔ ∀ j, j < s.n → (s.th j).holdsC = false := by
  simp [St.noC, List.all_eq_true]

theorem holdsX_not_S (sh : Shape) (t : Th) (h : t.holdsX sh = true) : t.holdsS sh = false := by
  cases t <;> simp_all [Th.holdsX, Th.holdsS]

/-- a thread that holds `_mutex` in neither mode knows nothing about `_kv[k]` -/
theorem ok_of_not_holds (sh : Shape) (h1 : sh.refillUnderStoreLock = true) (h2 : sh.writerCacheUnderStoreLock = true)
    (kv kv' : Option Ent) (t : Th) (hs : t.holdsS sh = false) (hx : t.holdsX sh = false) (h : t.Ok kv) : t.Ok kv' := by
  cases t with
  | idle => trivial
  | ev pc => trivial
  | fp r => trivial
  | rd pc tmp =>
    obtain ⟨hr, _⟩ := h
    refine ⟨hr, fun hp => ?_⟩
    rcases hp with hp | hp | hp | hp <;> simp [Th.holdsS, rHoldsMu, hp, h1] at hs
  | wr pc o =>
    obtain ⟨ho, hr, _⟩ := h
    refine ⟨ho, hr, fun hp => ?_⟩
    rcases hp with hp | hp <;> simp [Th.holdsX, wHoldsMu, hp, h2] at hx

theorem mid_holdsX (sh : Shape) (h2 : sh.writerCacheUnderStoreLock = true) (t : Th) (h : t.mid = true) : t.holdsX sh = true := by
  cases t with
  | wr pc o => cases pc <;> simp_all [Th.mid, Th.holdsX, wHoldsMu]
  | _ => simp [Th.mid] at h

/-- while some thread holds `_mutex` shared no writer stands between its two assignments -/
theorem no_mid_of_holdsS (sh : Shape) (h2 : sh.writerCacheUnderStoreLock = true) (s : St) (hi : Inv sh s) (i : Nat) (hn : i < s.n)
    (hs : (s.th i).holdsS sh = true) : ∀ j, j < s.n → (s.th j).mid = false := by
  intro j hj
  cases hm : (s.th j).mid with
  | false => rfl
  | true =>
    have := hi.xs j i hj hn (mid_holdsX sh h2 _ hm)
    rw [hs] at this; exact absurd this (by simp)

/-- **frame lemma.**  Thread `i` moves from `s.th i` to `t`, `_kv[k]` / `_cache[k]` become `kv` / `cache`.  The invariant
is kept if every lock `t` holds was held before or was free, `t` is consistent with `kv`, `_kv[k]` changes only under an
exclusive hold of `_mutex`, and coherence is accounted for. -/
theorem inv_put (sh : Shape) (h1 : sh.refillUnderStoreLock = true) (h2 : sh.writerCacheUnderStoreLock = true)
    (s : St) (hi : Inv sh s) (i : Nat) (hn : i < s.n) (t : Th) (kv cache lin : Option Ent)
    (hX : t.holdsX sh = true → (s.th i).holdsX sh = true ∨ (s.noX sh = true ∧ s.noS sh = true))
    (hS : t.holdsS sh = true → (s.th i).holdsS sh = true ∨ s.noX sh = true)
    (hC : t.holdsC = true → (s.th i).holdsC = true ∨ s.noC = true)
    (hok : t.Ok kv)
    (hkv : kv = s.kv ∨ (s.th i).holdsX sh = true)
    (hcl : cache = none ∨ cache = lin)
    (hlin : t.mid = true ∨ lin = kv ∨ (kv = s.kv ∧ lin = s.lin ∧ (s.th i).mid = false)) :
    Inv sh (s.put i t kv cache lin) := by
  obtain ⟨xs, xx, cc, ok, _, lk⟩ := hi
  have hth : ∀ j, (s.put i t kv cache lin).th j = if j = i then t else s.th j := fun _ => rfl
  have hnn : (s.put i t kv cache lin).n = s.n := rfl
  refine ⟨?_, ?_, ?_, ?_, hcl, ?_⟩
  · intro a b ha hb hax
    rw [hnn] at ha hb
    rw [hth] at hax ⊢
    by_cases hai : a = i
    · subst hai
      simp only [if_true] at hax
      by_cases hbi : b = a
      · subst hbi; simp only [if_true]; exact holdsX_not_S sh t hax
      · simp only [hbi, if_false]
        rcases hX hax with h | ⟨_, h⟩
        · exact xs a b ha hb h
        · exact (noS_iff sh s).mp h b hb
    · simp only [hai, if_false] at hax
      by_cases hbi : b = i
      · subst hbi
        simp only [if_true]
        cases hts : t.holdsS sh with
        | false => rfl
        | true =>
          rcases hS hts with h | h
          · have := xs a b ha hb hax; rw [h] at this; exact absurd this (by simp)
          · have := (noX_iff sh s).mp h a ha; rw [hax] at this; exact absurd this (by simp)
      · simp only [hbi, if_false]; exact xs a b ha hb hax
  · intro a b ha hb hab hax
    rw [hnn] at ha hb
    rw [hth] at hax ⊢
    by_cases hai : a = i
    · subst hai
      simp only [if_true] at hax
      have hbi : b ≠ a := fun h => hab h.symm
      simp only [hbi, if_false]
      rcases hX hax with h | ⟨h, _⟩
      · exact xx a b ha hb hab h
      · exact (noX_iff sh s).mp h b hb
    · simp only [hai, if_false] at hax
      by_cases hbi : b = i
      · subst hbi
        simp only [if_true]
        cases htx : t.holdsX sh with
        | false => rfl
        | true =>
          rcases hX htx with h | ⟨h, _⟩
          · have := xx a b ha hb hab hax; rw [h] at this; exact absurd this (by simp)
          · have := (noX_iff sh s).mp h a ha; rw [hax] at this; exact absurd this (by simp)
      · simp only [hbi, if_false]; exact xx a b ha hb hab hax
  · intro a b ha hb hab hac
    rw [hnn] at ha hb
    rw [hth] at hac ⊢
    by_cases hai : a = i
    · subst hai
      simp only [if_true] at hac
      have hbi : b ≠ a := fun h => hab h.symm
      simp only [hbi, if_false]
      rcases hC hac with h | h
      · exact cc a b ha hb hab h
      · exact (noC_iff s).mp h b hb
    · simp only [hai, if_false] at hac
      by_cases hbi : b = i
      · subst hbi
        simp only [if_true]
        cases htc : t.holdsC with
        | false => rfl
        | true =>
          rcases hC htc with h | h
          · have := cc a b ha hb hab hac; rw [h] at this; exact absurd this (by simp)
          · have := (noC_iff s).mp h a ha; rw [hac] at this; exact absurd this (by simp)
      · simp only [hbi, if_false]; exact cc a b ha hb hab hac
  · intro a ha
    rw [hnn] at ha
    rw [hth]
    show (if a = i then t else s.th a).Ok kv
    by_cases hai : a = i
    · simp only [hai, if_true]; exact hok
    · simp only [hai, if_false]
      rcases hkv with h | h
      · rw [h]; exact ok a ha
      · exact ok_of_not_holds sh h1 h2 s.kv kv (s.th a) (xs i a hn ha h) (xx i a hn ha (fun e => hai e.symm) h) (ok a ha)
  · intro hq
    rw [hnn] at hq
    show lin = kv
    rcases hlin with h | h | ⟨hk, hl, hm⟩
    · have := hq i hn; rw [hth] at this; simp only [if_true] at this; rw [h] at this; exact absurd this (by simp)
    · exact h
    · rw [hk, hl]
      apply lk
      intro a ha
      by_cases hai : a = i
      · rw [hai]; exact hm
      · have := hq a ha; rw [hth] at this; simp only [hai, if_false] at this; exact this

theorem inv_init (sh : Shape) (n : Nat) (kv cache : Option Ent) (h0 : cache = none ∨ cache = kv) :
    Inv sh (St.init n kv cache) where
  xs := by intro i j _ _ h; simp [St.init, Th.holdsX] at h
  xx := by intro i j _ _ _ h; simp [St.init, Th.holdsX] at h
  cc := by intro i j _ _ _ h; simp [St.init, Th.holdsC] at h
  ok := by intro i _; simp [St.init, Th.Ok]
  cl := h0
  lk := fun _ => rfl

theorem inv_stepTh (sh : Shape) (h1 : sh.refillUnderStoreLock = true) (h2 : sh.writerCacheUnderStoreLock = true)
    (fresh : Bool) (s : St) (i : Nat) (hn : i < s.n) (hi : Inv sh s) : Inv sh (stepTh sh fresh s i) := by
  have hoki := hi.ok i hn
  unfold stepTh
  cases hti : s.th i with
  | idle => exact hi
  | rd pc tmp =>
    rw [hti] at hoki
    obtain ⟨hnr, htmp⟩ := hoki
    simp only
    cases pc with
    | start =>
      simp only [nextR]
      cases hx : s.noX sh with
      | false => exact hi
      | true =>
        simp only [if_true]
        refine inv_put sh h1 h2 s hi i hn _ _ _ _ (by simp [Th.holdsX]) (fun _ => Or.inr hx) (by simp [Th.holdsC, rHoldsC])
          ⟨by simp, by simp⟩ (Or.inl rfl) hi.cl (Or.inr (Or.inr ⟨rfl, rfl, by simp [hti, Th.mid]⟩))
    | hasS =>
      simp only [nextR]
      cases hk : s.kv with
      | none =>
        simp only
        rw [← hk]
        exact inv_put sh h1 h2 s hi i hn _ _ _ _ (by simp [Th.holdsX]) (by simp [Th.holdsS, rHoldsMu]) (by simp [Th.holdsC, rHoldsC])
          ⟨by simp, by simp⟩ (Or.inl rfl) hi.cl (Or.inr (Or.inr ⟨rfl, rfl, by simp [hti, Th.mid]⟩))
      | some e =>
        simp only
        rw [← hk]
        cases fresh with
        | false =>
          simp only [Bool.false_eq_true, if_false]
          exact inv_put sh h1 h2 s hi i hn _ _ _ _ (by simp [Th.holdsX]) (by simp [Th.holdsS, rHoldsMu]) (by simp [Th.holdsC, rHoldsC])
            ⟨by simp, by simp⟩ (Or.inl rfl) hi.cl (Or.inr (Or.inr ⟨rfl, rfl, by simp [hti, Th.mid]⟩))
        | true =>
          simp only [if_true]
          exact inv_put sh h1 h2 s hi i hn _ _ _ _ (by simp [Th.holdsX]) (fun _ => Or.inl (by simp [hti, Th.holdsS, rHoldsMu]))
            (by simp [Th.holdsC, rHoldsC]) ⟨by simp, fun _ => rfl⟩ (Or.inl rfl) hi.cl (Or.inr (Or.inr ⟨rfl, rfl, by simp [hti, Th.mid]⟩))
    | loaded =>
      simp only [nextR, h1, if_true]
      cases hc : s.noC with
      | false => exact hi
      | true =>
        simp only [if_true]
        exact inv_put sh h1 h2 s hi i hn _ _ _ _ (by simp [Th.holdsX]) (fun _ => Or.inl (by simp [hti, Th.holdsS, rHoldsMu]))
          (fun _ => Or.inr hc) ⟨by simp, fun _ => htmp (Or.inl rfl)⟩ (Or.inl rfl) hi.cl (Or.inr (Or.inr ⟨rfl, rfl, by simp [hti, Th.mid]⟩))
    | released => exact absurd rfl hnr
    | hasC =>
      simp only [nextR]
      have ht := htmp (Or.inr (Or.inl rfl))
      have hl : s.lin = s.kv := hi.lk (no_mid_of_holdsS sh h2 s hi i hn (by simp [hti, Th.holdsS, rHoldsMu, h1]))
      exact inv_put sh h1 h2 s hi i hn _ _ _ _ (by simp [Th.holdsX]) (fun _ => Or.inl (by simp [hti, Th.holdsS, rHoldsMu, h1]))
        (fun _ => Or.inl (by simp [hti, Th.holdsC, rHoldsC])) ⟨by simp, fun _ => ht⟩ (Or.inl rfl) (Or.inr (ht.trans hl.symm))
        (Or.inr (Or.inr ⟨rfl, rfl, by simp [hti, Th.mid]⟩))
    | wrote =>
      simp only [nextR]
      exact inv_put sh h1 h2 s hi i hn _ _ _ _ (by simp [Th.holdsX]) (fun _ => Or.inl (by simp [hti, Th.holdsS, rHoldsMu, h1]))
        (by simp [Th.holdsC, rHoldsC]) ⟨by simp, fun _ => htmp (Or.inr (Or.inr (Or.inl rfl)))⟩ (Or.inl rfl)
        hi.cl (Or.inr (Or.inr ⟨rfl, rfl, by simp [hti, Th.mid]⟩))
    | relC =>
      simp only [nextR]
      exact inv_put sh h1 h2 s hi i hn _ _ _ _ (by simp [Th.holdsX]) (by simp [Th.holdsS, rHoldsMu]) (by simp [Th.holdsC, rHoldsC])
        ⟨by simp, by simp⟩ (Or.inl rfl) hi.cl (Or.inr (Or.inr ⟨rfl, rfl, by simp [hti, Th.mid]⟩))
    | done => simp only [nextR]; exact hi
  | wr pc o =>
    rw [hti] at hoki
    obtain ⟨hoo, hnr, hkvo⟩ := hoki
    simp only
    cases pc with
    | start =>
      simp only [nextW]
      cases hx : s.noX sh with
      | false => simp only [Bool.false_and, Bool.false_eq_true, if_false]; exact hi
      | true =>
        cases hs : s.noS sh with
        | false => simp only [Bool.and_false, Bool.false_eq_true, if_false]; exact hi
        | true =>
          simp only [Bool.and_self, if_true]
          exact inv_put sh h1 h2 s hi i hn _ _ _ _ (fun _ => Or.inr ⟨hx, hs⟩) (by simp [Th.holdsS]) (by simp [Th.holdsC, wHoldsC])
            ⟨hoo, by simp, by simp⟩ (Or.inl rfl) hi.cl (Or.inr (Or.inr ⟨rfl, rfl, by simp [hti, Th.mid]⟩))
    | hasX =>
      simp only [nextW]
      exact inv_put sh h1 h2 s hi i hn _ _ _ _ (fun _ => Or.inl (by simp [hti, Th.holdsX, wHoldsMu])) (by simp [Th.holdsS])
        (by simp [Th.holdsC, wHoldsC]) ⟨hoo, by simp, fun _ => rfl⟩ (Or.inr (by simp [hti, Th.holdsX, wHoldsMu])) hi.cl (Or.inl rfl)
    | wroteKv =>
      simp only [nextW, h2, if_true]
      cases hc : s.noC with
      | false => exact hi
      | true =>
        simp only [if_true]
        exact inv_put sh h1 h2 s hi i hn _ _ _ _ (fun _ => Or.inl (by simp [hti, Th.holdsX, wHoldsMu])) (by simp [Th.holdsS])
          (fun _ => Or.inr hc) ⟨hoo, by simp, fun _ => hkvo (Or.inl rfl)⟩ (Or.inl rfl) hi.cl (Or.inl rfl)
    | released => exact absurd rfl hnr
    | hasC =>
      simp only [nextW]
      have hk := hkvo (Or.inr rfl)
      exact inv_put sh h1 h2 s hi i hn _ _ _ _ (fun _ => Or.inl (by simp [hti, Th.holdsX, wHoldsMu, h2])) (by simp [Th.holdsS])
        (fun _ => Or.inl (by simp [hti, Th.holdsC, wHoldsC])) ⟨hoo, by simp, by simp⟩ (Or.inl rfl) hoo (Or.inr (Or.inl hk.symm))
    | wroteC =>
      simp only [nextW]
      exact inv_put sh h1 h2 s hi i hn _ _ _ _ (fun _ => Or.inl (by simp [hti, Th.holdsX, wHoldsMu, h2])) (by simp [Th.holdsS])
        (by simp [Th.holdsC, wHoldsC]) ⟨hoo, by simp, by simp⟩ (Or.inl rfl) hi.cl (Or.inr (Or.inr ⟨rfl, rfl, by simp [hti, Th.mid]⟩))
    | relC =>
      simp only [nextW]
      exact inv_put sh h1 h2 s hi i hn _ _ _ _ (by simp [Th.holdsX, wHoldsMu]) (by simp [Th.holdsS]) (by simp [Th.holdsC, wHoldsC])
        ⟨hoo, by simp, by simp⟩ (Or.inl rfl) hi.cl (Or.inr (Or.inr ⟨rfl, rfl, by simp [hti, Th.mid]⟩))
    | done => simp only [nextW]; exact hi
  | ev pc =>
    simp only
    cases pc with
    | start =>
      simp only [nextE]
      cases hc : s.noC with
      | false => exact hi
      | true =>
        simp only [if_true]
        exact inv_put sh h1 h2 s hi i hn _ _ _ _ (by simp [Th.holdsX]) (by simp [Th.holdsS]) (fun _ => Or.inr hc) trivial (Or.inl rfl)
          hi.cl (Or.inr (Or.inr ⟨rfl, rfl, by simp [hti, Th.mid]⟩))
    | hasC =>
      simp only [nextE]
      exact inv_put sh h1 h2 s hi i hn _ _ _ _ (by simp [Th.holdsX]) (by simp [Th.holdsS])
        (fun _ => Or.inl (by simp [hti, Th.holdsC, ePcHoldsC])) trivial (Or.inl rfl) (Or.inl rfl)
        (Or.inr (Or.inr ⟨rfl, rfl, by simp [hti, Th.mid]⟩))
    | wrote =>
      simp only [nextE]
      exact inv_put sh h1 h2 s hi i hn _ _ _ _ (by simp [Th.holdsX]) (by simp [Th.holdsS]) (by simp [Th.holdsC, ePcHoldsC]) trivial (Or.inl rfl)
        hi.cl (Or.inr (Or.inr ⟨rfl, rfl, by simp [hti, Th.mid]⟩))
    | done => simp only [nextE]; exact hi
  | fp ret =>
    simp only
    cases ret with
    | some r => exact hi
    | none =>
      simp only
      cases hc : s.noC with
      | false => exact hi
      | true =>
        simp only [if_true]
        unfold St.setTh
        exact inv_put sh h1 h2 s hi i hn _ _ _ _ (by simp [Th.holdsX]) (by simp [Th.holdsS]) (by simp [Th.holdsC]) trivial (Or.inl rfl)
          hi.cl (Or.inr (Or.inr ⟨rfl, rfl, by simp [hti, Th.mid]⟩))

theorem finished_not_mid (t : Th) (h : t.finished = true) : t.mid = false := by
  cases t with
  | idle => rfl
  | ev pc => rfl
  | fp r => rfl
  | rd pc tmp => rfl
  | wr pc o => cases pc <;> simp_all [Th.finished, Th.mid]

theorem inv_apply (sh : Shape) (h1 : sh.refillUnderStoreLock = true) (h2 : sh.writerCacheUnderStoreLock = true)
    (s : St) (a : Act) (ha : a.OK) (hi : Inv sh s) : Inv sh (apply sh s a) := by
  cases a with
  | move i fresh =>
    simp only [apply]
    split
    · next hn => exact inv_stepTh sh h1 h2 fresh s i hn hi
    · exact hi
  | call i c =>
    simp only [apply]
    split
    · next h =>
      obtain ⟨hn, hf⟩ := h
      have hm := finished_not_mid _ hf
      unfold St.setTh
      cases c with
      | fast =>
        exact inv_put sh h1 h2 s hi i hn _ _ _ _ (by simp [Call.start, Th.holdsX]) (by simp [Call.start, Th.holdsS])
          (by simp [Call.start, Th.holdsC]) trivial (Or.inl rfl) hi.cl (Or.inr (Or.inr ⟨rfl, rfl, hm⟩))
      | get =>
        exact inv_put sh h1 h2 s hi i hn _ _ _ _ (by simp [Call.start, Th.holdsX]) (by simp [Call.start, Th.holdsS, rHoldsMu])
          (by simp [Call.start, Th.holdsC, rHoldsC]) ⟨by simp, by simp⟩ (Or.inl rfl) hi.cl (Or.inr (Or.inr ⟨rfl, rfl, hm⟩))
      | write o =>
        exact inv_put sh h1 h2 s hi i hn _ _ _ _ (by simp [Call.start, Th.holdsX, wHoldsMu]) (by simp [Call.start, Th.holdsS])
          (by simp [Call.start, Th.holdsC, wHoldsC]) ⟨ha, by simp, by simp⟩ (Or.inl rfl) hi.cl (Or.inr (Or.inr ⟨rfl, rfl, hm⟩))
      | evict =>
        exact inv_put sh h1 h2 s hi i hn _ _ _ _ (by simp [Call.start, Th.holdsX]) (by simp [Call.start, Th.holdsS])
          (by simp [Call.start, Th.holdsC, ePcHoldsC]) trivial (Or.inl rfl) hi.cl (Or.inr (Or.inr ⟨rfl, rfl, hm⟩))
    · exact hi

theorem inv_run (sh : Shape) (h1 : sh.refillUnderStoreLock = true) (h2 : sh.writerCacheUnderStoreLock = true)
    (sched : List Act) : ∀ s : St, (∀ a ∈ sched, a.OK) → Inv sh s → Inv sh (run sh s sched) := by
  induction sched with
  | nil => intro s _ hi; exact hi
  | cons a rest ih =>
    intro s hok hi
    unfold run
    simp only [List.foldl_cons]
    exact ih _ (fun b hb => hok b (List.mem_cons_of_mem _ hb)) (inv_apply sh h1 h2 s a (hok a List.mem_cons_self) hi)

theorem run_n (sh : Shape) (sched : List Act) : ∀ s : St, (run sh s sched).n = s.n := by
  induction sched with
  | nil => intro s; rfl
  | cons a rest ih =>
    intro s
    unfold run
    simp only [List.foldl_cons]
    have h := ih (apply sh s a)
    unfold run at h
    rw [h]
    cases a with
    | move i fresh =>
      simp only [apply]
      split
      · unfold stepTh
        cases s.th i with
        | idle => rfl
        | rd pc tmp => simp only; split <;> rfl
        | wr pc o => simp only; split <;> rfl
        | ev pc => simp only; split <;> rfl
        | fp ret =>
          simp only
          cases ret with
          | some r => rfl
          | none => simp only; split <;> rfl
      · rfl
    | call i c =>
      simp only [apply]
      split <;> rfl

/-- **cache coherence for any number of threads, any calls, every schedule.**  `n` threads; each makes any sequence of
`get(k)` (miss path), writers of `k` (erasing the cache entry or setting it to what they stored) and erasures of `k`'s cache
entry under `_cacheMutex`; steps interleaved in any way, stopped anywhere.  With the refill and the writers' cache update under
the store lock: the cache entry of `k` is absent or exactly the stored entry whenever no writer stands between its two
assignments — in particular whenever no call is in flight; at most one thread holds `_mutex` exclusively, and then none
holds it shared; at most one holds `_cacheMutex`. -/
theorem raceN_coherent (sh : Shape) (h1 : sh.refillUnderStoreLock = true) (h2 : sh.writerCacheUnderStoreLock = true)
    (n : Nat) (kv cache : Option Ent) (h0 : cache = none ∨ cache = kv) (sched : List Act) (hok : ∀ a ∈ sched, a.OK) :
    let s := run sh (St.init n kv cache) sched
    ((∀ i, i < n → (s.th i).mid = false) → s.Coherent) ∧
    ((∀ i, i < n → (s.th i).finished = true) → s.Coherent) ∧
    (∀ i j, i < n → j < n → (s.th i).holdsX sh = true → (s.th j).holdsS sh = false ∧ (i ≠ j → (s.th j).holdsX sh = false)) ∧
    (∀ i j, i < n → j < n → i ≠ j → (s.th i).holdsC = true → (s.th j).holdsC = false) := by
  intro s
  have hi : Inv sh s := inv_run sh h1 h2 sched _ hok (inv_init sh n kv cache h0)
  have hn : s.n = n := run_n sh sched _
  have hq : (∀ i, i < n → (s.th i).mid = false) → s.Coherent := by
    intro hq
    rcases hi.coh with h | ⟨i, hin, hm⟩
    · exact h
    · rw [hn] at hin; rw [hq i hin] at hm; exact absurd hm (by simp)
  refine ⟨hq, fun hf => hq (fun i hin => finished_not_mid _ (hf i hin)), ?_, ?_⟩
  · intro i j hin hjn hx
    exact ⟨hi.xs i j (hn ▸ hin) (hn ▸ hjn) hx, fun hij => hi.xx i j (hn ▸ hin) (hn ▸ hjn) hij hx⟩
  · intro i j hin hjn hij hc
    exact hi.cc i j (hn ▸ hin) (hn ▸ hjn) hij hc

/-- the two-thread refutation carries over: with the refill outside the store lock two threads suffice to end, with no call
in flight, in an incoherent state (thread 0: `get(k)`, thread 1: `remove(k)`) -/
theorem raceN_refuted :
    ∃ (kv : Option Ent) (sched : List Act), (∀ a ∈ sched, a.OK) ∧
      let s := run { refillUnderStoreLock := false, writerCacheUnderStoreLock := true } (St.init 2 kv none) sched
      (∀ i, i < 2 → (s.th i).finished = true) ∧ s.kv = none ∧ s.cache = kv ∧ ¬ s.Coherent := by
  refine ⟨some ([1], none),
    [.call 0 .get, .call 1 (.write { kv := none, cache := none }),
     .move 0 true, .move 0 true, .move 0 true,
     .move 1 true, .move 1 true, .move 1 true, .move 1 true, .move 1 true, .move 1 true, .move 1 true,
     .move 0 true, .move 0 true, .move 0 true, .move 0 true], ?_, ?_⟩
  · intro a ha
    simp only [List.mem_cons, List.not_mem_nil, or_false] at ha
    rcases ha with h | h | h | h | h | h | h | h | h | h | h | h | h | h | h | h <;> subst h <;> first | trivial | exact Or.inl rfl
  · simp [run, apply, stepTh, nextR, nextW, St.init, St.put, St.setTh, St.noX, St.noS, St.noC, Th.finished, Th.holdsX, Th.holdsS, Th.holdsC,
      rHoldsMu, rHoldsC, wHoldsMu, wHoldsC, Call.start, St.Coherent, List.range, List.range.loop]
    intro i hi
    rcases (by omega : i = 0 ∨ i = 1) with h | h <;> subst h <;> simp

/-- **the writers' lock scope is needed too.**  If a writer gives `_mutex` back before it updates the cache
(`writerCacheUnderStoreLock = false`), two writers suffice (no reader at all): `set(k, v)` stores and releases `_mutex`,
`remove(k)` runs from start to end, then the `set` writes its cache entry — no call in flight, the key is gone, the cache
serves `v`. -/
theorem raceN_writer_scope_refuted :
    ∃ (v : Ent) (sched : List Act), (∀ a ∈ sched, a.OK) ∧
      let s := run { refillUnderStoreLock := true, writerCacheUnderStoreLock := false } (St.init 2 none none) sched
      (∀ i, i < 2 → (s.th i).finished = true) ∧ s.kv = none ∧ s.cache = some v ∧ ¬ s.Coherent := by
  refine ⟨([1], none),
    [.call 0 (.write { kv := some ([1], none), cache := some ([1], none) }), .call 1 (.write { kv := none, cache := none }),
     .move 0 true, .move 0 true, .move 0 true,
     .move 1 true, .move 1 true, .move 1 true, .move 1 true, .move 1 true, .move 1 true, .move 1 true,
     .move 0 true, .move 0 true, .move 0 true, .move 0 true], ?_, ?_⟩
  · intro a ha
    simp only [List.mem_cons, List.not_mem_nil, or_false] at ha
    rcases ha with h | h | h | h | h | h | h | h | h | h | h | h | h | h | h | h <;> subst h <;>
      first | trivial | exact Or.inl rfl | exact Or.inr rfl
  · simp [run, apply, stepTh, nextW, St.init, St.put, St.setTh, St.noX, St.noS, St.noC, Th.finished, Th.holdsX, Th.holdsS, Th.holdsC,
      rHoldsMu, rHoldsC, wHoldsMu, wHoldsC, Call.start, St.Coherent, List.range, List.range.loop]
    intro i hi
    rcases (by omega : i = 0 ∨ i = 1) with h | h <;> subst h <;> simp

/-! ## Linearization: `St.lin` is an atomic register that every read returns -/

/-- the ghost `lin` is assigned by one kind of step only: a writer's assignment to `_cache[k]` (it then holds `_mutex` and
`_cacheMutex`), and it becomes what that writer stored -/
theorem lin_step (sh : Shape) (fresh : Bool) (s : St) (i : Nat) :
    (stepTh sh fresh s i).lin = s.lin ∨ ∃ o, s.th i = .wr .hasC o ∧ (stepTh sh fresh s i).lin = o.kv := by
  unfold stepTh
  cases hti : s.th i with
  | idle => exact Or.inl rfl
  | rd pc tmp => simp only; split <;> exact Or.inl rfl
  | ev pc => simp only; split <;> exact Or.inl rfl
  | fp ret =>
    cases ret with
    | some r => exact Or.inl rfl
    | none => simp only; split <;> exact Or.inl rfl
  | wr pc o =>
    cases pc with
    | start => simp only [nextW]; split <;> (try split) <;> simp_all [St.put]
    | hasX => exact Or.inl rfl
    | wroteKv =>
      simp only [nextW]
      cases sh.writerCacheUnderStoreLock <;> cases s.noC <;> simp [St.put]
    | released => simp only [nextW]; split <;> (try split) <;> simp_all [St.put]
    | hasC => exact Or.inr ⟨o, rfl, rfl⟩
    | wroteC => exact Or.inl rfl
    | relC => exact Or.inl rfl
    | done => exact Or.inl rfl

/-- starting a call does not touch the ghost; no step touches it outside a writer's call -/
theorem lin_apply (sh : Shape) (s : St) (a : Act) :
    (apply sh s a).lin = s.lin ∨ ∃ i fresh o, a = .move i fresh ∧ i < s.n ∧ s.th i = .wr .hasC o ∧ (apply sh s a).lin = o.kv := by
  cases a with
  | call i c => simp only [apply]; split <;> exact Or.inl rfl
  | move i fresh =>
    simp only [apply]
    split
    · next hn =>
      rcases lin_step sh fresh s i with h | ⟨o, h1, h2⟩
      · exact Or.inl h
      · exact Or.inr ⟨i, fresh, o, rfl, hn, h1, h2⟩
    · exact Or.inl rfl

/-- **every read returns the linearization value.**  In every reachable state: what the fast path reads from `_cache[k]` is
absent (a miss) or the linearization value; what the miss path loads from `_kv[k]` (a thread standing at its load) is the
linearization value; and the linearization value is what `_kv[k]` holds whenever no writer stands between its two
assignments, in particular whenever no call is in flight.  With `lin_apply` (the value changes in exactly one step of each
writer's call, to what that writer stores) this is linearizability of `get` / writers of one key to an atomic register:
linearization points = the fast path's read, the miss path's load, the writer's assignment to `_cache[k]`. -/
theorem raceN_linearizable (sh : Shape) (h1 : sh.refillUnderStoreLock = true) (h2 : sh.writerCacheUnderStoreLock = true)
    (n : Nat) (kv cache : Option Ent) (h0 : cache = none ∨ cache = kv) (sched : List Act) (hok : ∀ a ∈ sched, a.OK) :
    let s := run sh (St.init n kv cache) sched
    (s.cache = none ∨ s.cache = s.lin) ∧
    (∀ i tmp, i < n → s.th i = .rd .hasS tmp → s.kv = s.lin) ∧
    ((∀ i, i < n → (s.th i).mid = false) → s.lin = s.kv) := by
  intro s
  have hi : Inv sh s := inv_run sh h1 h2 sched _ hok (inv_init sh n kv cache h0)
  have hn : s.n = n := run_n sh sched _
  refine ⟨hi.cl, ?_, fun hq => hi.lk (fun i hin => hq i (hn ▸ hin))⟩
  intro i tmp hin ht
  exact (hi.lk (no_mid_of_holdsS sh h2 s hi i (hn ▸ hin) (by simp [ht, Th.holdsS, rHoldsMu]))).symm

/-! ## Progress -/

/-- thread `i` is not blocked: given the processor it changes its program counter -/
def Moves (sh : Shape) (s : St) (i : Nat) : Prop := ∀ fresh, (stepTh sh fresh s i).th i ≠ s.th i

/-- about to take `_mutex` -/
def Th.waitsMu : Th → Bool
  | .rd .start _ => true
  | .wr .start _ => true
  | _ => false

theorem put_th_self (s : St) (i : Nat) (t : Th) (kv c l : Option Ent) : (s.put i t kv c l).th i = t := by simp [St.put]

theorem exists_of_noC_false (s : St) (h : s.noC = false) : ∃ k, k < s.n ∧ (s.th k).holdsC = true := by
  simp only [St.noC] at h
  have : ¬ ((List.range s.n).all fun j => !(s.th j).holdsC) = true := by rw [h]; simp
  rw [List.all_eq_true] at this
  have ⟨k, hk⟩ := Classical.not_forall.mp this
  have ⟨hm, hc⟩ := Classical.not_imp.mp hk
  exact ⟨k, List.mem_range.mp hm, by simpa using hc⟩

theorem exists_of_noX_false (sh : Shape) (s : St) (h : s.noX sh = false) : ∃ k, k < s.n ∧ (s.th k).holdsX sh = true := by
  simp only [St.noX] at h
  have : ¬ ((List.range s.n).all fun j => !(s.th j).holdsX sh) = true := by rw [h]; simp
  rw [List.all_eq_true] at this
  have ⟨k, hk⟩ := Classical.not_forall.mp this
  have ⟨hm, hc⟩ := Classical.not_imp.mp hk
  exact ⟨k, List.mem_range.mp hm, by simpa using hc⟩

theorem exists_of_noS_false (sh : Shape) (s : St) (h : s.noS sh = false) : ∃ k, k < s.n ∧ (s.th k).holdsS sh = true := by
  simp only [St.noS] at h
  have : ¬ ((List.range s.n).all fun j => !(s.th j).holdsS sh) = true := by rw [h]; simp
  rw [List.all_eq_true] at this
  have ⟨k, hk⟩ := Classical.not_forall.mp this
  have ⟨hm, hc⟩ := Classical.not_imp.mp hk
  exact ⟨k, List.mem_range.mp hm, by simpa using hc⟩

/-- a thread inside a call moves, or waits for `_cacheMutex`, or stands at its acquisition of `_mutex` and that is taken -/
theorem moves_or_waits (sh : Shape) (h1 : sh.refillUnderStoreLock = true) (h2 : sh.writerCacheUnderStoreLock = true)
    (s : St) (i : Nat) (hf : (s.th i).finished = false) (hok : (s.th i).Ok s.kv) :
    Moves sh s i ∨ s.noC = false ∨ ((s.th i).waitsMu = true ∧ (s.noX sh = false ∨ s.noS sh = false)) := by
  unfold Moves stepTh
  cases hti : s.th i with
  | idle => simp [hti, Th.finished] at hf
  | fp ret =>
    cases ret with
    | some r => simp [hti, Th.finished] at hf
    | none =>
      cases hc : s.noC with
      | false => exact Or.inr (Or.inl rfl)
      | true => left; intro fresh; simp [St.setTh, St.put]
  | ev pc =>
    cases pc with
    | start =>
      cases hc : s.noC with
      | false => exact Or.inr (Or.inl rfl)
      | true => left; intro fresh; simp [nextE, hc, St.put]
    | hasC => left; intro fresh; simp [nextE, St.put]
    | wrote => left; intro fresh; simp [nextE, St.put]
    | done => simp [hti, Th.finished] at hf
  | rd pc tmp =>
    rw [hti] at hok
    cases pc with
    | start =>
      cases hx : s.noX sh with
      | false => exact Or.inr (Or.inr ⟨rfl, Or.inl rfl⟩)
      | true => left; intro fresh; simp [nextR, hx, St.put]
    | hasS =>
      left; intro fresh
      cases hk : s.kv with
      | none => simp [nextR, hk, St.put]
      | some e => cases fresh <;> simp [nextR, hk, St.put]
    | loaded =>
      cases hc : s.noC with
      | false => exact Or.inr (Or.inl rfl)
      | true => left; intro fresh; simp [nextR, h1, hc, St.put]
    | released => exact absurd rfl hok.1
    | hasC => left; intro fresh; simp [nextR, St.put]
    | wrote => left; intro fresh; simp [nextR, St.put]
    | relC => left; intro fresh; simp [nextR, St.put]
    | done => simp [hti, Th.finished] at hf
  | wr pc o =>
    rw [hti] at hok
    cases pc with
    | start =>
      cases hx : s.noX sh with
      | false => exact Or.inr (Or.inr ⟨rfl, Or.inl rfl⟩)
      | true =>
        cases hs : s.noS sh with
        | false => exact Or.inr (Or.inr ⟨rfl, Or.inr rfl⟩)
        | true => left; intro fresh; simp [nextW, hx, hs, St.put]
    | hasX => left; intro fresh; simp [nextW, St.put]
    | wroteKv =>
      cases hc : s.noC with
      | false => exact Or.inr (Or.inl rfl)
      | true => left; intro fresh; simp [nextW, h2, hc, St.put]
    | released => exact absurd rfl hok.2.1
    | hasC => left; intro fresh; simp [nextW, St.put]
    | wroteC => left; intro fresh; simp [nextW, St.put]
    | relC => left; intro fresh; simp [nextW, St.put]
    | done => simp [hti, Th.finished] at hf

/-- a holder of `_cacheMutex` is never blocked -/
theorem holderC_moves (sh : Shape) (s : St) (k : Nat) (hc : (s.th k).holdsC = true) : Moves sh s k := by
  unfold Moves stepTh
  intro fresh
  cases hti : s.th k with
  | idle => simp [hti, Th.holdsC] at hc
  | fp ret => simp [hti, Th.holdsC] at hc
  | ev pc => cases pc <;> simp_all [Th.holdsC, ePcHoldsC, nextE, St.put]
  | rd pc tmp => cases pc <;> simp_all [Th.holdsC, rHoldsC, nextR, St.put]
  | wr pc o => cases pc <;> simp_all [Th.holdsC, wHoldsC, nextW, St.put]

theorem holder_mu_inside (sh : Shape) (t : Th) (h : t.holdsX sh = true ∨ t.holdsS sh = true) :
    t.finished = false ∧ t.waitsMu = false := by
  cases t with
  | idle => simp [Th.holdsX, Th.holdsS] at h
  | fp ret => simp [Th.holdsX, Th.holdsS] at h
  | ev pc => simp [Th.holdsX, Th.holdsS] at h
  | rd pc tmp => cases pc <;> simp_all [Th.holdsX, Th.holdsS, rHoldsMu, Th.finished, Th.waitsMu]
  | wr pc o => cases pc <;> simp_all [Th.holdsX, Th.holdsS, wHoldsMu, Th.finished, Th.waitsMu]

/-- **no deadlock, any number of threads.**  In every state that satisfies the invariant (every reachable state) in which some
thread is inside a call, some thread can move: both locks are always taken in the order `_mutex`, `_cacheMutex`. -/
theorem raceN_no_deadlock (sh : Shape) (h1 : sh.refillUnderStoreLock = true) (h2 : sh.writerCacheUnderStoreLock = true)
    (s : St) (hi : Inv sh s) (i : Nat) (hn : i < s.n) (hf : (s.th i).finished = false) :
    ∃ j, j < s.n ∧ Moves sh s j := by
  have viaC : s.noC = false → ∃ j, j < s.n ∧ Moves sh s j := by
    intro hc
    obtain ⟨k, hk, hkc⟩ := exists_of_noC_false s hc
    exact ⟨k, hk, holderC_moves sh s k hkc⟩
  rcases moves_or_waits sh h1 h2 s i hf (hi.ok i hn) with h | h | ⟨_, h⟩
  · exact ⟨i, hn, h⟩
  · exact viaC h
  · have : ∃ j, j < s.n ∧ ((s.th j).holdsX sh = true ∨ (s.th j).holdsS sh = true) := by
      rcases h with h | h
      · obtain ⟨j, hj, hx⟩ := exists_of_noX_false sh s h; exact ⟨j, hj, Or.inl hx⟩
      · obtain ⟨j, hj, hx⟩ := exists_of_noS_false sh s h; exact ⟨j, hj, Or.inr hx⟩
    obtain ⟨j, hj, hh⟩ := this
    obtain ⟨hjf, hjw⟩ := holder_mu_inside sh _ hh
    rcases moves_or_waits sh h1 h2 s j hjf (hi.ok j hj) with h | h | ⟨h, _⟩
    · exact ⟨j, hj, h⟩
    · exact viaC h
    · rw [hjw] at h; exact absurd h (by simp)

end Iora.Kv.RaceN
