import IoraModel.Model.DnsTcp
/-
Lemmas about the TCP receive path of the DNS client (`Model/DnsTcp.lean`): `frameAt` is a stable frame parser on EVERY
buffer, `tcpLoop` is the generic greedy drain, and every segmentation of a stream of length-prefixed messages hands out
exactly the messages (`tcpFeed_segmentation`).  All statements are for all inputs (induction, no sampling).
-/
namespace Iora.DnsTcp
open Iora Iora.Dns

/-! ### one round -/

/-- closed form of one round on a buffer with at least two bytes -/
theorem frameAt_cons2 (cap : Nat) (b0 b1 : UInt8) (rest : Bytes) :
    frameAt cap (b0 :: b1 :: rest) =
      if b0.toNat * 256 + b1.toNat = 0 ∨ b0.toNat * 256 + b1.toNat > 65535 then .fatal .close
      else if b0.toNat * 256 + b1.toNat > cap then .fatal .close
      else if rest.length < b0.toNat * 256 + b1.toNat then .more
      else .frame (.msg (rest.take (b0.toNat * 256 + b1.toNat))) (2 + (b0.toNat * 256 + b1.toNat)) := rfl

/-- fewer than two bytes: wait -/
theorem frameAt_short (cap : Nat) (d : Bytes) (h : d.length < 2) : frameAt cap d = .more := by
  match d, h with
  | [], _ => rfl
  | [_], _ => rfl
  | _ :: _ :: _, h => simp only [List.length_cons] at h; omega

/-- a frame is handed out only behind a two-byte prefix announcing a length in 1..min(65535, cap) that is completely
present; the message has EXACTLY the announced length and lies inside the buffer (strong form, with the 16-bit bound) -/
theorem frameAt_frame_inv' (cap : Nat) (d : Bytes) (a : Ev) (n : Nat) (h : frameAt cap d = .frame a n) :
    ∃ b0 b1 rest, d = b0 :: b1 :: rest ∧ n = 2 + (b0.toNat * 256 + b1.toNat) ∧
      a = .msg (rest.take (b0.toNat * 256 + b1.toNat)) ∧ b0.toNat * 256 + b1.toNat ≤ rest.length ∧
      0 < b0.toNat * 256 + b1.toNat ∧ b0.toNat * 256 + b1.toNat ≤ cap ∧ b0.toNat * 256 + b1.toNat ≤ 65535 := by
  match d, h with
  | [], h => exact nomatch h
  | [_], h => exact nomatch h
  | b0 :: b1 :: rest, h =>
    rw [frameAt_cons2] at h
    split at h
    · exact nomatch h
    · split at h
      · exact nomatch h
      · split at h
        · exact nomatch h
        · injection h with ha hn
          exact ⟨b0, b1, rest, rfl, hn.symm, ha.symm, by omega, by omega, by omega, by omega⟩

theorem frameAt_frame_inv (cap : Nat) (d : Bytes) (a : Ev) (n : Nat) (h : frameAt cap d = .frame a n) :
    ∃ b0 b1 rest, d = b0 :: b1 :: rest ∧ n = 2 + (b0.toNat * 256 + b1.toNat) ∧
      a = .msg (rest.take (b0.toNat * 256 + b1.toNat)) ∧ b0.toNat * 256 + b1.toNat ≤ rest.length ∧
      0 < b0.toNat * 256 + b1.toNat ∧ b0.toNat * 256 + b1.toNat ≤ cap := by
  obtain ⟨b0, b1, rest, h1, h2, h3, h4, h5, h6, _⟩ := frameAt_frame_inv' cap d a n h
  exact ⟨b0, b1, rest, h1, h2, h3, h4, h5, h6⟩

/-- the only fatal answer is `close`, and only for a prefix announcing 0, more than 65535 or more than `cap` bytes -/
theorem frameAt_fatal_inv (cap : Nat) (d : Bytes) (e : Ev) (h : frameAt cap d = .fatal e) :
    ∃ b0 b1 rest, d = b0 :: b1 :: rest ∧ e = .close ∧
      (b0.toNat * 256 + b1.toNat = 0 ∨ b0.toNat * 256 + b1.toNat > 65535 ∨ b0.toNat * 256 + b1.toNat > cap) := by
  match d, h with
  | [], h => exact nomatch h
  | [_], h => exact nomatch h
  | b0 :: b1 :: rest, h =>
    rw [frameAt_cons2] at h
    split at h
    · injection h with he
      exact ⟨b0, b1, rest, rfl, he.symm, by omega⟩
    · split at h
      · injection h with he
        exact ⟨b0, b1, rest, rfl, he.symm, by omega⟩
      · split at h
        · exact nomatch h
        · exact nomatch h

theorem frameAt_fatal_of (cap : Nat) (b0 b1 : UInt8) (rest : Bytes)
    (h : b0.toNat * 256 + b1.toNat = 0 ∨ b0.toNat * 256 + b1.toNat > 65535 ∨ b0.toNat * 256 + b1.toNat > cap) :
    frameAt cap (b0 :: b1 :: rest) = .fatal .close := by
  rw [frameAt_cons2]
  split
  · rfl
  · rw [if_pos (by omega)]

theorem frameAt_frame_of (cap : Nat) (b0 b1 : UInt8) (rest : Bytes)
    (h0 : 0 < b0.toNat * 256 + b1.toNat) (h1 : b0.toNat * 256 + b1.toNat ≤ 65535)
    (h2 : b0.toNat * 256 + b1.toNat ≤ cap) (h3 : b0.toNat * 256 + b1.toNat ≤ rest.length) :
    frameAt cap (b0 :: b1 :: rest) =
      .frame (.msg (rest.take (b0.toNat * 256 + b1.toNat))) (2 + (b0.toNat * 256 + b1.toNat)) := by
  rw [frameAt_cons2, if_neg (by omega), if_neg (by omega), if_neg (by omega)]

/-! ### `frameAt` is a stable parser on every buffer -/

/-- `frameAt cap` as a stable frame parser: its answer depends only on the first two bytes and on whether enough bytes
are present, so `frame` and `fatal` answers survive every extension of the buffer -/
def tcpParser (cap : Nat) : Framing.Stable Ev (fun _ => True) where
  p := frameAt cap
  pos := by
    intro d a n h
    obtain ⟨b0, b1, rest, rfl, rfl, _, hle, h0, _⟩ := frameAt_frame_inv cap d a n h
    simp only [List.length_cons]
    omega
  ext_frame := by
    intro d a n x _ h
    obtain ⟨b0, b1, rest, rfl, rfl, rfl, hle, h0, hc, hm⟩ := frameAt_frame_inv' cap d a n h
    show frameAt cap (b0 :: b1 :: (rest ++ x)) = _
    rw [frameAt_frame_of cap b0 b1 (rest ++ x) h0 hm hc (by simp only [List.length_append]; omega),
      List.take_append_of_le_length hle]
  ext_fatal := by
    intro d e x _ h
    obtain ⟨b0, b1, rest, rfl, rfl, hbad⟩ := frameAt_fatal_inv cap d e h
    exact frameAt_fatal_of cap b0 b1 (rest ++ x) hbad
  g_drop := fun _ _ _ _ _ => trivial
  g_prefix := fun _ _ _ => trivial

@[simp] theorem tcpParser_p (cap : Nat) (d : Bytes) : (tcpParser cap).p d = frameAt cap d := rfl

/-! ### the loop is the generic greedy drain -/

/-- the buffer left behind by a carry (`dead`: `buffer.clear()`) -/
def carryBuf : Framing.Carry → Bytes
  | .alive r => r
  | .dead => []

theorem tcpLoop_eq_drainF' (cap : Nat) : ∀ (f : Nat) (d : Bytes),
    tcpLoop cap f d =
      ((Framing.drainF (tcpParser cap) f d).1, carryBuf (Framing.drainF (tcpParser cap) f d).2) := by
  intro f
  induction f with
  | zero => intro d; rfl
  | succ f ih =>
    intro d
    simp only [tcpLoop, Framing.drainF, tcpParser_p]
    cases frameAt cap d with
    | more => rfl
    | fatal e => rfl
    | frame a n => simp only [ih (d.drop n)]

theorem tcpLoop_eq_drainF (cap : Nat) (f : Nat) (d : Bytes) :
    tcpLoop cap f d =
      (match Framing.drainF (tcpParser cap) f d with
       | (evs, .alive r) => (evs, r)
       | (evs, .dead) => (evs, [])) := by
  rw [tcpLoop_eq_drainF']
  generalize Framing.drainF (tcpParser cap) f d = r
  obtain ⟨evs, c⟩ := r
  cases c <;> rfl

/-- the fuel handed in by `tcpData` is always enough -/
theorem tcpLoop_fuel (cap : Nat) (f : Nat) (d : Bytes) (h : d.length < f) :
    tcpLoop cap f d = tcpLoop cap (d.length + 1) d := by
  rw [tcpLoop_eq_drainF', tcpLoop_eq_drainF',
    Framing.drainF_fuel (tcpParser cap) f (d.length + 1) d h (by omega)]

/-- the loop never grows the buffer -/
theorem tcpLoop_buf_le (cap : Nat) : ∀ (f : Nat) (d : Bytes), (tcpLoop cap f d).2.length ≤ d.length := by
  intro f
  induction f with
  | zero => intro d; exact Nat.le_refl _
  | succ f ih =>
    intro d
    simp only [tcpLoop]
    cases frameAt cap d with
    | more => exact Nat.le_refl _
    | fatal e => exact Nat.zero_le _
    | frame a n =>
      have := ih (d.drop n)
      simp only [List.length_drop] at this
      show (tcpLoop cap f (d.drop n)).2.length ≤ d.length
      omega

/-- every message handed out by the loop has a length in 1..min(65535, cap) -/
theorem tcpLoop_msg_bounds (cap : Nat) : ∀ (f : Nat) (d : Bytes) (m : Bytes), Ev.msg m ∈ (tcpLoop cap f d).1 →
    0 < m.length ∧ m.length ≤ 65535 ∧ m.length ≤ cap := by
  intro f
  induction f with
  | zero => intro d m h; simp only [tcpLoop] at h; exact nomatch h
  | succ f ih =>
    intro d m h
    simp only [tcpLoop] at h
    cases hp : frameAt cap d with
    | more => rw [hp] at h; exact nomatch h
    | fatal e =>
      rw [hp] at h
      obtain ⟨_, _, _, _, rfl, _⟩ := frameAt_fatal_inv cap d e hp
      simp at h
    | frame a n =>
      rw [hp] at h
      have h' : Ev.msg m = a ∨ Ev.msg m ∈ (tcpLoop cap f (d.drop n)).1 := List.mem_cons.mp h
      cases h' with
      | inr h' => exact ih _ m h'
      | inl h' =>
        obtain ⟨b0, b1, rest, _, _, ha, hle, h0, hc, hm⟩ := frameAt_frame_inv' cap d a n hp
        rw [ha] at h'
        injection h' with h'
        have : m.length = b0.toNat * 256 + b1.toNat := by
          rw [h', List.length_take]; omega
        omega

/-! ### one read -/

theorem tcpData_overflow_closes (cap : Nat) (buf data : Bytes) (h : buf.length + data.length > cap) :
    tcpData cap buf data = ([.close], []) := by
  unfold tcpData
  rw [if_pos h]

theorem tcpData_fits (cap : Nat) (buf data : Bytes) (h : buf.length + data.length ≤ cap) :
    tcpData cap buf data =
      ((Framing.drain (tcpParser cap) (buf ++ data)).1, carryBuf (Framing.drain (tcpParser cap) (buf ++ data)).2) := by
  unfold tcpData
  rw [if_neg (by omega)]
  exact tcpLoop_eq_drainF' cap _ _

/-- a zero length prefix closes the session and clears the buffer -/
theorem tcpData_zero_length_closes (cap : Nat) (rest : Bytes) (h : 2 + rest.length ≤ cap) :
    tcpData cap [] (0 :: 0 :: rest) = ([.close], []) := by
  unfold tcpData
  rw [if_neg (by simp only [List.length_cons, List.length_nil]; omega)]
  show tcpLoop cap ((0 :: 0 :: rest).length + 1) (0 :: 0 :: rest) = _
  have hf : frameAt cap (0 :: 0 :: rest) = .fatal .close :=
    frameAt_fatal_of cap 0 0 rest (Or.inl (by decide))
  simp only [tcpLoop, hf]

/-- a read never leaves more in the buffer than was there plus what arrived -/
theorem tcpData_buf_le (cap : Nat) (buf data : Bytes) : (tcpData cap buf data).2.length ≤ buf.length + data.length := by
  unfold tcpData
  split
  · exact Nat.zero_le _
  · have := tcpLoop_buf_le cap ((buf ++ data).length + 1) (buf ++ data)
    simp only [List.length_append] at this
    simpa only [List.length_append] using this

/-! ### streams of valid messages -/

/-- every message of the list is non-empty, fits the 16-bit length prefix and the configured buffer limit -/
def ValidMsgs (cap : Nat) (ms : List Bytes) : Prop := ∀ m ∈ ms, 0 < m.length ∧ m.length ≤ 65535 ∧ m.length ≤ cap

/-- a valid message behind its prefix is handed out whole, whatever follows -/
theorem frameAt_msg (cap : Nat) (m rest : Bytes) (h0 : 0 < m.length) (h1 : m.length ≤ 65535) (h2 : m.length ≤ cap) :
    frameAt cap (be16 m.length ++ m ++ rest) = .frame (.msg m) (2 + m.length) := by
  have hlen : (b8 (m.length / 256)).toNat * 256 + (b8 m.length).toNat = m.length := by
    simp only [b8_toNat]; omega
  show frameAt cap (b8 (m.length / 256) :: b8 m.length :: (m ++ rest)) = _
  rw [frameAt_frame_of cap _ _ (m ++ rest) (by omega) (by omega) (by omega)
    (by simp only [List.length_append]; omega), hlen, List.take_left' rfl]

/-- the whole stream in one piece: exactly the messages, in order, nothing left, connection alive -/
theorem drain_tcpStream (cap : Nat) : ∀ (ms : List Bytes), ValidMsgs cap ms →
    Framing.drain (tcpParser cap) (tcpStream ms) = (ms.map Ev.msg, .alive [])
  | [], _ => Framing.drain_more (tcpParser cap) [] rfl
  | m :: ms, hv => by
    have ⟨h0, h1, h2⟩ := hv m (List.mem_cons_self ..)
    have hf : (tcpParser cap).p (tcpStream (m :: ms)) = .frame (.msg m) (2 + m.length) :=
      frameAt_msg cap m (tcpStream ms) h0 h1 h2
    have hd : (tcpStream (m :: ms)).drop (2 + m.length) = tcpStream ms := by
      show ((be16 m.length ++ m) ++ tcpStream ms).drop (2 + m.length) = _
      exact List.drop_left' (by simp only [List.length_append, be16_length])
    rw [Framing.drain_frame _ _ _ _ hf, hd,
      drain_tcpStream cap ms (fun x hx => hv x (List.mem_cons_of_mem _ hx))]
    rfl

/-- as long as no read trips the growth check and the generic feed stays alive, `tcpFeed` IS the generic feed -/
theorem tcpFeed_of_feed (cap : Nat) : ∀ (ss : List Bytes) (buf : Bytes) (evs : List Ev) (r : Bytes),
    Fits cap buf ss → Framing.feed (tcpParser cap) (.alive buf) ss = (evs, .alive r) →
    tcpFeed cap buf ss = (evs, r) := by
  intro ss
  induction ss with
  | nil =>
    intro buf evs r _ h
    simp only [Framing.feed] at h
    injection h with h1 h2
    injection h2 with h2
    subst h1 h2
    rfl
  | cons s ss ih =>
    intro buf evs r hfit h
    obtain ⟨hle, hfit'⟩ := hfit
    have hdata := tcpData_fits cap buf s hle
    rw [hdata] at hfit'
    simp only [Framing.feed, Framing.resume] at h
    simp only [tcpFeed]
    rw [hdata]
    generalize Framing.drain (tcpParser cap) (buf ++ s) = dr at h hfit' ⊢
    obtain ⟨e1, c⟩ := dr
    cases c with
    | dead =>
      rw [Framing.feed_dead] at h
      injection h with _ h2
      exact nomatch h2
    | alive r1 =>
      generalize hfe : Framing.feed (tcpParser cap) (.alive r1) ss = fr at h
      obtain ⟨e2, c2⟩ := fr
      injection h with h1 h2
      subst h1 h2
      show (e1 ++ (tcpFeed cap r1 ss).1, (tcpFeed cap r1 ss).2) = (e1 ++ e2, r)
      rw [ih r1 e2 r hfit' hfe]

/-- **Segmentation independence of the DNS TCP receive path.**  EVERY segmentation of the stream of length-prefixed
messages (cut anywhere: inside a length prefix, inside a message, several messages per segment, empty segments) hands out
exactly the messages, in order, each with exactly its own bytes, no close, and leaves an empty buffer — provided no read
trips the buffer growth check. -/
theorem tcpFeed_segmentation (cap : Nat) (ms : List Bytes) (hv : ValidMsgs cap ms) (ss : List Bytes)
    (hflat : ss.flatten = tcpStream ms) (hfit : Fits cap [] ss) :
    tcpFeed cap [] ss = (ms.map Ev.msg, []) := by
  apply tcpFeed_of_feed cap ss [] _ _ hfit
  rw [Framing.feed_eq_whole (tcpParser cap) rfl ss trivial, hflat]
  exact drain_tcpStream cap ms hv

/-- a sequence of reads whose total (with the carried buffer) stays within the limit never trips the growth check -/
theorem fits_of_small (cap : Nat) : ∀ (ss : List Bytes) (buf : Bytes),
    buf.length + ss.flatten.length ≤ cap → Fits cap buf ss := by
  intro ss
  induction ss with
  | nil => intro buf _; exact trivial
  | cons s ss ih =>
    intro buf h
    simp only [List.flatten_cons, List.length_append] at h
    refine ⟨by omega, ih _ ?_⟩
    have := tcpData_buf_le cap buf s
    omega

/-- model-independent form: a stream no longer than the buffer limit is received correctly under EVERY segmentation -/
theorem tcpFeed_segmentation_small (cap : Nat) (ms : List Bytes) (hv : ValidMsgs cap ms) (ss : List Bytes)
    (hflat : ss.flatten = tcpStream ms) (hsmall : (tcpStream ms).length ≤ cap) :
    tcpFeed cap [] ss = (ms.map Ev.msg, []) := by
  apply tcpFeed_segmentation cap ms hv ss hflat
  apply fits_of_small
  rw [hflat]
  simpa only [List.length_nil, Nat.zero_add] using hsmall

/-! ### the hypotheses are satisfiable by a non-trivial value -/

example : tcpFeed 64 [] [[0], [3, 1, 2], [3, 0, 1, 9]] = ([.msg [1, 2, 3], .msg [9]], []) := by decide

example : ValidMsgs 64 [[1, 2, 3], [9]] := by
  intro m hm
  simp only [List.mem_cons, List.mem_nil_iff, or_false] at hm
  rcases hm with rfl | rfl <;> decide

example : ([[0], [3, 1, 2], [3, 0, 1, 9]] : List Bytes).flatten = tcpStream [[1, 2, 3], [9]] := by decide

example : tcpFeed 64 [] [[0], [3, 1, 2], [3, 0, 1, 9]] = ([.msg [1, 2, 3], .msg [9]], []) :=
  tcpFeed_segmentation_small 64 [[1, 2, 3], [9]]
    (by intro m hm
        simp only [List.mem_cons, List.mem_nil_iff, or_false] at hm
        rcases hm with rfl | rfl <;> decide)
    [[0], [3, 1, 2], [3, 0, 1, 9]] (by decide) (by decide)

end Iora.DnsTcp
