import IoraModel.Model.CloseFanout
/-! # Lemmas about the Transport close fan-out (C02, T5) -/
namespace Iora.Fanout

/-- the events that are callbacks of the fan-out itself (`unobserved` only reports the return value of a nested unobserve) -/
def isCb : Out → Bool
  | .unobserved _ _ => false
  | _ => true

@[simp] theorem isCb_global (sid : Sid) : isCb (.global sid) = true := rfl
@[simp] theorem isCb_observer (sid : Sid) (o : Obs) : isCb (.observer sid o) = true := rfl
@[simp] theorem isCb_cleanup (sid : Sid) (t : Nat) : isCb (.cleanup sid t) = true := rfl
@[simp] theorem isCb_unobserved (o : Obs) (b : Bool) : isCb (.unobserved o b) = false := rfl

theorem applyAct_noCb (a : Act) (f : F) : (applyAct a f).2.filter isCb = [] := by
  cases a <;> simp [applyAct]

theorem runActs_noCb (as : List Act) (f : F) : (runActs as f).2.filter isCb = [] := by
  induction as generalizing f with
  | nil => simp [runActs]
  | cons a r ih => simp [runActs, List.filter_append, applyAct_noCb, ih]

theorem runInside_noCb (w : Where) (f : F) : (runInside w f).2.filter isCb = [] := by
  simp [runInside, runActs_noCb]

/-- copy-then-iterate: every observer of the snapshot is called exactly once, in snapshot order, whatever the callbacks do -/
theorem notify_cbs (sid : Sid) (snap : List Obs) (f : F) :
    (notify sid snap f).2.filter isCb = snap.map (Out.observer sid) := by
  induction snap generalizing f with
  | nil => simp [notify]
  | cons o r ih => simp [notify, List.filter_cons, List.filter_append, runInside_noCb, ih]

theorem globalPart_cbs (sid : Sid) (f : F) :
    (globalPart sid f).2.filter isCb = if f.hasGlobal then [Out.global sid] else [] := by
  unfold globalPart
  split <;> simp [List.filter_cons, runInside_noCb]

theorem observerPart_cbs (sid : Sid) (f : F) :
    (observerPart sid f).2.filter isCb = (f.observers sid).map (Out.observer sid) := by
  simp [observerPart, notify_cbs]

/-- what the cleanup step reports for a state: the cleanup of the user data present at that moment, if it has a cleanup function
and a non-null pointer -/
def cleanupOf (sid : Sid) (f : F) : List Out :=
  match f.data sid with
  | some (tag, true) => if tag ≠ 0 then [.cleanup sid tag] else []
  | _ => []

theorem cleanupPart_cbs (sid : Sid) (f : F) : (cleanupPart sid f).2.filter isCb = cleanupOf sid f := by
  unfold cleanupPart cleanupOf
  split
  · rename_i hd; simp [hd]
  · rename_i tag hc hd
    cases hc
    · simp [hd]
    · by_cases ht : tag = 0
      · simp [hd, ht]
      · simp [hd, ht, List.filter_cons, runInside_noCb]

/-- T5, shape of one close: the callbacks of the fan-out are the global callback (if installed), then every observer registered
when the global callback returned, in registration order, each once, then the cleanup of the user data present after the last
observer returned - whatever the callbacks themselves do (observe / unobserve / setSessionData). -/
theorem closeFan_shape (sid : Sid) (f : F) :
    (closeFan sid f).2.filter isCb =
      (if f.hasGlobal then [Out.global sid] else []) ++ ((globalPart sid f).1.observers sid).map (Out.observer sid) ++
      cleanupOf sid (observerPart sid (globalPart sid f).1).1 := by
  unfold closeFan
  simp only [List.filter_append, globalPart_cbs, observerPart_cbs, cleanupPart_cbs]


/-! ## a second close of the same session notifies nobody again -/
theorem F.eta_inside (f : F) (h : f.inside = []) : { f with inside := [] } = f := by
  cases f; simp_all

theorem runInside_nil (w : Where) (f : F) (h : f.inside = []) : runInside w f = (f, []) := by
  simp [runInside, h, runActs, F.eta_inside f h]

theorem notify_nil (sid : Sid) (snap : List Obs) (f : F) (h : f.inside = []) :
    notify sid snap f = (f, snap.map (Out.observer sid)) := by
  induction snap generalizing f with
  | nil => simp [notify]
  | cons o r ih => simp [notify, runInside_nil _ f h, ih f h]

/-- without re-entrant callbacks: one close calls global, observers (registration order), cleanup; the session's observers and
user data are gone afterwards, so a second close would reach the global callback only. -/
theorem closeFan_once (sid : Sid) (f : F) (hi : f.inside = []) :
    (closeFan sid (closeFan sid f).1).2 = if f.hasGlobal then [Out.global sid] else [] := by
  have hg : globalPart sid f = (f, if f.hasGlobal then [Out.global sid] else []) := by
    unfold globalPart; split <;> simp [runInside_nil _ f hi]
  have e1 : (closeFan sid f).1.inside = [] ∧
      (closeFan sid f).1.hasGlobal = f.hasGlobal ∧ (closeFan sid f).1.observers sid = [] ∧ (closeFan sid f).1.data sid = none := by
    unfold closeFan
    simp only [hg]
    unfold observerPart
    rw [notify_nil _ _ _ (by simpa using hi)]
    unfold cleanupPart
    dsimp only
    split
    · rename_i hd; simp [hi, updL, hd]
    · rename_i tag hc hd
      split
      · rw [runInside_nil _ _ (by simpa using hi)]; simp [hi, updL, updO]
      · simp [hi, updL, updO]
  obtain ⟨h2, h3, h4, h5⟩ := e1
  generalize (closeFan sid f).1 = f' at h2 h3 h4 h5 ⊢
  have hg' : globalPart sid f' = (f', if f.hasGlobal then [Out.global sid] else []) := by
    unfold globalPart; rw [h3]; split <;> simp [runInside_nil _ _ h2]
  unfold closeFan
  simp only [hg']
  unfold observerPart
  rw [h4]
  simp only [notify]
  unfold cleanupPart
  simp [h5]

/-! ## registration order, uniqueness and the two maps agree - for every history -/
structure FInv (f : F) : Prop where
  sorted : ∀ sid, (f.observers sid).Pairwise (· < ·)
  idx_of_mem : ∀ sid o, o ∈ f.observers sid → f.obsIndex o = some sid
  mem_of_idx : ∀ o sid, f.obsIndex o = some sid → o ∈ f.observers sid
  lt_next : ∀ sid o, o ∈ f.observers sid → o < f.nextObs

theorem finv_observe (sid : Sid) {f : F} (h : FInv f) : FInv (observe sid f) := by
  unfold observe
  constructor
  · intro x
    by_cases e : x = sid
    · subst e
      simp only [updL, if_true]
      rw [List.pairwise_append]
      exact ⟨h.sorted x, by simp, by intro a ha b hb; simp at hb; subst hb; exact h.lt_next x a ha⟩
    · simpa [updL, e] using h.sorted x
  · intro x o ho
    by_cases e : x = sid
    · subst e
      simp only [updL, if_true, List.mem_append, List.mem_singleton] at ho
      rcases ho with ho | ho
      · have := h.lt_next x o ho
        have hne : o ≠ f.nextObs := Nat.ne_of_lt this
        simp [updO, hne, h.idx_of_mem x o ho]
      · simp [updO, ho]
    · simp only [updL, e, if_false] at ho
      have := h.lt_next x o ho
      have hne : o ≠ f.nextObs := Nat.ne_of_lt this
      simp [updO, hne, h.idx_of_mem x o ho]
  · intro o x ho
    by_cases eo : o = f.nextObs
    · subst eo; simp [updO] at ho; subst ho; simp [updL]
    · simp [updO, eo] at ho
      have := h.mem_of_idx o x ho
      by_cases e : x = sid
      · subst e; simp [updL, this]
      · simp [updL, e, this]
  · intro x o ho
    by_cases e : x = sid
    · subst e
      simp only [updL, if_true, List.mem_append, List.mem_singleton] at ho
      rcases ho with ho | ho
      · exact Nat.lt_succ_of_lt (h.lt_next x o ho)
      · exact ho ▸ Nat.lt_succ_self _
    · simp only [updL, e, if_false] at ho
      exact Nat.lt_succ_of_lt (h.lt_next x o ho)

theorem finv_unobserve (o : Obs) {f : F} (h : FInv f) : FInv (unobserve o f).1 := by
  unfold unobserve
  split
  · exact h
  · rename_i sid hs
    constructor
    · intro x
      by_cases e : x = sid
      · subst e; simp only [updL, if_true]; exact (h.sorted x).filter _
      · simpa [updL, e] using h.sorted x
    · intro x o' ho'
      by_cases e : x = sid
      · subst e
        simp only [updL, if_true, List.mem_filter] at ho'
        have hne : o' ≠ o := by simpa using ho'.2
        simp [updO, hne, h.idx_of_mem x o' ho'.1]
      · simp only [updL, e, if_false] at ho'
        have hne : o' ≠ o := by
          intro e2; subst e2
          have := h.idx_of_mem x o' ho'
          rw [hs] at this; cases this; exact e rfl
        simp [updO, hne, h.idx_of_mem x o' ho']
    · intro o' x ho'
      by_cases eo : o' = o
      · subst eo; simp [updO] at ho'
      · simp [updO, eo] at ho'
        have := h.mem_of_idx o' x ho'
        by_cases e : x = sid
        · subst e; simp [updL, this, eo]
        · simp [updL, e, this]
    · intro x o' ho'
      by_cases e : x = sid
      · subst e
        simp only [updL, if_true, List.mem_filter] at ho'
        exact h.lt_next x o' ho'.1
      · simp only [updL, e, if_false] at ho'
        exact h.lt_next x o' ho'

theorem finv_frame {f f' : F} (h : FInv f) (h1 : f'.observers = f.observers) (h2 : f'.obsIndex = f.obsIndex) (h3 : f'.nextObs = f.nextObs) :
    FInv f' := by
  constructor
  · rw [h1]; exact h.sorted
  · rw [h1, h2]; exact h.idx_of_mem
  · rw [h1, h2]; exact h.mem_of_idx
  · rw [h1, h3]; exact h.lt_next

theorem finv_applyAct (a : Act) {f : F} (h : FInv f) : FInv (applyAct a f).1 := by
  cases a with
  | observe sid => exact finv_observe sid h
  | unobserve o => simpa [applyAct] using finv_unobserve o h
  | setData sid tag c => exact finv_frame h rfl rfl rfl

theorem finv_runActs (as : List Act) {f : F} (h : FInv f) : FInv (runActs as f).1 := by
  induction as generalizing f with
  | nil => exact h
  | cons a r ih => simpa [runActs] using ih (finv_applyAct a h)

theorem finv_runInside (w : Where) {f : F} (h : FInv f) : FInv (runInside w f).1 := by
  unfold runInside
  exact finv_runActs _ (finv_frame h rfl rfl rfl)

theorem finv_notify (sid : Sid) (snap : List Obs) {f : F} (h : FInv f) : FInv (notify sid snap f).1 := by
  induction snap generalizing f with
  | nil => exact h
  | cons o r ih => simpa [notify] using ih (finv_runInside (.obs o) h)

theorem eraseIndex_spec (snap : List Obs) (ix : Obs → Option Sid) (o : Obs) :
    eraseIndex snap ix o = if o ∈ snap then none else ix o := by
  induction snap generalizing ix with
  | nil => simp [eraseIndex]
  | cons x r ih =>
    simp only [eraseIndex, ih]
    by_cases h1 : o ∈ r
    · simp [h1]
    · by_cases h2 : o = x
      · simp [h2, updO]
      · simp [h1, h2, updO]

theorem finv_observerPart (sid : Sid) {f : F} (h : FInv f) : FInv (observerPart sid f).1 := by
  unfold observerPart
  apply finv_notify
  constructor
  · intro x
    by_cases e : x = sid
    · simp [updL, e]
    · simpa [updL, e] using h.sorted x
  · intro x o ho
    by_cases e : x = sid
    · simp [updL, e] at ho
    · simp only [updL, e, if_false] at ho
      have hn : o ∉ f.observers sid := by
        intro hm
        have h1 := h.idx_of_mem x o ho
        have h2 := h.idx_of_mem sid o hm
        rw [h1] at h2; cases h2; exact e rfl
      simp [eraseIndex_spec, hn, h.idx_of_mem x o ho]
  · intro o x ho
    simp only [eraseIndex_spec] at ho
    by_cases hm : o ∈ f.observers sid
    · simp [hm] at ho
    · simp only [hm, if_false] at ho
      have := h.mem_of_idx o x ho
      by_cases e : x = sid
      · subst e; exact absurd this hm
      · simpa [updL, e] using this
  · intro x o ho
    by_cases e : x = sid
    · simp [updL, e] at ho
    · simp only [updL, e, if_false] at ho
      exact h.lt_next x o ho

theorem finv_closeFan (sid : Sid) {f : F} (h : FInv f) : FInv (closeFan sid f).1 := by
  unfold closeFan
  have h1 : FInv (globalPart sid f).1 := by
    unfold globalPart; split
    · exact finv_runInside _ h
    · exact h
  have h2 := finv_observerPart sid h1
  dsimp only
  unfold cleanupPart
  split
  · exact h2
  · dsimp only
    split
    · exact finv_runInside _ (finv_frame h2 rfl rfl rfl)
    · exact finv_frame h2 rfl rfl rfl

theorem finv_step (op : Op) {f : F} (h : FInv f) : FInv (step f op).1 := by
  cases op with
  | act a => exact finv_applyAct a h
  | inside w a => exact finv_frame h rfl rfl rfl
  | close sid => exact finv_closeFan sid h

def runOps (f : F) : List Op → F
  | [] => f
  | op :: r => runOps (step f op).1 r

theorem finv_run (ops : List Op) {f : F} (h : FInv f) : FInv (runOps f ops) := by
  induction ops generalizing f with
  | nil => exact h
  | cons op r ih => exact ih (finv_step op h)

theorem finv_init (g : Bool) : FInv { hasGlobal := g } := by
  constructor <;> simp

end Iora.Fanout
