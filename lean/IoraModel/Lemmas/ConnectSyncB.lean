import IoraModel.Lemmas.ConnectSyncBase
namespace Iora.ConnectSync
set_option linter.unusedSimpArgs false
set_option linter.unusedVariables false

theorem doComplete_core {s : State} (h : Inv s) (sid : Nat) (hio : s.io = .idle) (he : s.eng sid = .connecting) :
    Inv ({ s with eng := setE s.eng sid .established, io := .connCS sid }) := by
  constructor
  case F_log => first | exact h.F_log | (pick h [F_log]; inv_grind [evSid])
  case F_att => first | exact h.F_att | (pick h [F_att]; inv_grind)
  case F_pend => first | exact h.F_pend | (pick h [F_pend]; inv_grind)
  case F_fifo => first | exact h.F_fifo | (pick h [F_fifo]; inv_grind [cmdSid])
  case F_eng => first | exact h.F_eng | (pick h [F_eng]; inv_grind)
  case F_io => first | exact h.F_io | (pick h [F_eng]; inv_grind [ioSid])
  case U_att => first | exact h.U_att | (pick h [U_att]; inv_grind)
  case A_cr => first | exact h.A_cr | (pick h [A_cr]; inv_grind)
  case U_cr => first | exact h.U_cr | (pick h [U_cr]; inv_grind)
  case RC => first | exact h.RC | (pick h [RC]; inv_grind)
  case E2 => first | exact h.E2 | (pick h [E2]; inv_grind)
  case K => first | exact h.K | (pick h [K]; inv_grind)
  case S1 => first | exact h.S1 | (pick h [S1]; inv_grind)
  case REG => first | exact h.REG | (pick h [REG]; inv_grind)
  case ACC => first | exact h.ACC | (pick h [ACC]; inv_grind)
  case P1 => first | exact h.P1 | (pick h [P1]; inv_grind)
  case P2 => first | exact h.P2 | (pick h [P2]; inv_grind)
  case P3 => first | exact h.P3 | (pick h [P3]; inv_grind)
  case P4 => first | exact h.P4 | (pick h [P4]; inv_grind)
  case P5 => first | exact h.P5 | (pick h [P5]; inv_grind)
  case P8 => first | exact h.P8 | (pick h [P8]; inv_grind)
  case D1 => first | exact h.D1 | (pick h [D1]; inv_grind)
  case E3 => first | exact h.E3 | (pick h [E3]; inv_grind)
  case E5 => first | exact h.E5 | (pick h [E5]; inv_grind)
  case H1 => first | exact h.H1 | (pick h [E5]; inv_grind)
  case H2 => first | exact h.H2 | (pick h [H2]; inv_grind)
  case E1 => first | exact h.E1 | (pick h [E1]; inv_grind)
  case E6 => first | exact h.E6 | (pick h [E6]; inv_grind)
  case R1 => first | exact h.R1 | (pick h [R1]; inv_grind)
  case T1 => first | exact h.T1 | (pick h [T1]; inv_grind)
  case FIX => first | exact h.FIX | (pick h [FIX]; inv_grind)
  case T3a => first | exact h.T3a | (pick h [T3a]; inv_grind)
  case T6a => first | exact h.T6a | (pick h [T6a]; inv_grind)
  case T6b => first | exact h.T6b | (pick h [T6b]; inv_grind)
  case G1 => first | exact h.G1 | (pick h [G1]; inv_grind)
  case G2 => first | exact h.G2 | (pick h [G2]; inv_grind)
  case T4 => first | exact h.T4 | (pick h [T4]; inv_grind)
  case Q1 => first | exact h.Q1 | (pick h [Q1]; inv_grind)
  case Q3 => first | exact h.Q3 | (pick h [Q3]; inv_grind)
  case ORD => first | exact h.ORD | (pick h [ORD]; inv_grind)
  case W => first | exact h.W | (pick h [W]; inv_grind)

theorem doFail_core {s : State} (h : Inv s) (sid : Nat) (hio : s.io = .idle) (he : s.eng sid = .connecting ∨ s.eng sid = .established) :
    Inv ({ s with eng := setE s.eng sid .closed, io := .closeCS sid }) := by
  constructor
  case F_log => first | exact h.F_log | (pick h [F_log]; inv_grind [evSid])
  case F_att => first | exact h.F_att | (pick h [F_att]; inv_grind)
  case F_pend => first | exact h.F_pend | (pick h [F_pend]; inv_grind)
  case F_fifo => first | exact h.F_fifo | (pick h [F_fifo]; inv_grind [cmdSid])
  case F_eng => first | exact h.F_eng | (pick h [F_eng]; inv_grind)
  case F_io => first | exact h.F_io | (pick h [F_eng]; inv_grind [ioSid])
  case U_att => first | exact h.U_att | (pick h [U_att]; inv_grind)
  case A_cr => first | exact h.A_cr | (pick h [A_cr]; inv_grind)
  case U_cr => first | exact h.U_cr | (pick h [U_cr]; inv_grind)
  case RC => first | exact h.RC | (pick h [RC]; inv_grind)
  case E2 => first | exact h.E2 | (pick h [E2]; inv_grind)
  case K => first | exact h.K | (pick h [K]; inv_grind)
  case S1 => first | exact h.S1 | (pick h [S1]; inv_grind)
  case REG => first | exact h.REG | (pick h [REG]; inv_grind)
  case ACC => first | exact h.ACC | (pick h [ACC]; inv_grind)
  case P1 => first | exact h.P1 | (pick h [P1]; inv_grind)
  case P2 => first | exact h.P2 | (pick h [P2]; inv_grind)
  case P3 => first | exact h.P3 | (pick h [P3]; inv_grind)
  case P4 => first | exact h.P4 | (pick h [P4]; inv_grind)
  case P5 => first | exact h.P5 | (pick h [P5]; inv_grind)
  case P8 => first | exact h.P8 | (pick h [P8]; inv_grind)
  case D1 => first | exact h.D1 | (pick h [D1]; inv_grind)
  case E3 => first | exact h.E3 | (pick h [E3]; inv_grind)
  case E5 => first | exact h.E5 | (pick h [E5]; inv_grind)
  case H1 => first | exact h.H1 | (pick h [H1]; inv_grind)
  case H2 => first | exact h.H2 | (pick h [E3]; inv_grind)
  case E1 => first | exact h.E1 | (pick h [E1]; inv_grind)
  case E6 => first | exact h.E6 | (pick h [E6]; inv_grind)
  case R1 => first | exact h.R1 | (pick h [R1]; inv_grind)
  case T1 => first | exact h.T1 | (pick h [T1]; inv_grind)
  case FIX => first | exact h.FIX | (pick h [FIX]; inv_grind)
  case T3a => first | exact h.T3a | (pick h [T3a]; inv_grind)
  case T6a => first | exact h.T6a | (pick h [T6a]; inv_grind)
  case T6b => first | exact h.T6b | (pick h [T6b]; inv_grind)
  case G1 => first | exact h.G1 | (pick h [G1]; inv_grind)
  case G2 => first | exact h.G2 | (pick h [G2]; inv_grind)
  case T4 => first | exact h.T4 | (pick h [T4]; inv_grind)
  case Q1 => first | exact h.Q1 | (pick h [Q1]; inv_grind)
  case Q3 => first | exact h.Q3 | (pick h [Q3]; inv_grind)
  case ORD => first | exact h.ORD | (pick h [ORD]; inv_grind)
  case W => first | exact h.W | (pick h [W]; inv_grind)

theorem doPop_a {s : State} (h : Inv s) (sid : Nat) (rest : List Cmd) (hio : s.io = .idle) (hf : s.fifo = .connect sid :: rest) (he : s.eng sid = .none) :
    Inv ({ s with fifo := rest, eng := setE s.eng sid .connecting }) := by
  constructor
  case F_log => first | exact h.F_log | (pick h [F_log]; inv_grind [evSid])
  case F_att => first | exact h.F_att | (pick h [F_att]; inv_grind)
  case F_pend => first | exact h.F_pend | (pick h [F_pend]; inv_grind)
  case F_fifo => first | exact h.F_fifo | (pick h [F_fifo]; inv_grind [cmdSid])
  case F_eng => first | exact h.F_eng | (pick h [F_eng, F_fconn]; inv_grind)
  case F_io => first | exact h.F_io | (pick h [F_io]; inv_grind [ioSid])
  case U_att => first | exact h.U_att | (pick h [U_att]; inv_grind)
  case A_cr => first | exact h.A_cr | (pick h [A_cr]; inv_grind)
  case U_cr => first | exact h.U_cr | (pick h [U_cr]; inv_grind)
  case RC => first | exact h.RC | (pick h [RC]; inv_grind)
  case E2 => first | exact h.E2 | (pick h [E2]; inv_grind)
  case K => first | exact h.K | (pick h [K]; inv_grind)
  case S1 => first | exact h.S1 | (pick h [S1]; inv_grind)
  case REG => first | exact h.REG | (pick h [REG]; inv_grind)
  case ACC => first | exact h.ACC | (pick h [ACC]; inv_grind)
  case P1 => first | exact h.P1 | (pick h [P1]; inv_grind)
  case P2 => first | exact h.P2 | (pick h [P2]; inv_grind)
  case P3 => first | exact h.P3 | (pick h [P3]; inv_grind)
  case P4 => first | exact h.P4 | (pick h [P4]; inv_grind)
  case P5 => first | exact h.P5 | (pick h [P5]; inv_grind)
  case P8 => first | exact h.P8 | (pick h [P8]; inv_grind)
  case D1 => first | exact h.D1 | (pick h [D1]; inv_grind)
  case E3 => first | exact h.E3 | (pick h [E3]; inv_grind)
  case E5 => first | exact h.E5 | (pick h [E5]; inv_grind)
  case H1 => first | exact h.H1 | (pick h [H1]; inv_grind)
  case H2 => first | exact h.H2 | (pick h [H2]; inv_grind)
  case E1 => first | exact h.E1 | (pick h [E1]; inv_grind)
  case E6 => first | exact h.E6 | (pick h [E6]; inv_grind)
  case R1 => first | exact h.R1 | (pick h [R1]; inv_grind)
  case T1 => first | exact h.T1 | (pick h [T1]; inv_grind)
  case FIX => first | exact h.FIX | (pick h [FIX]; inv_grind)
  case T3a => first | exact h.T3a | (pick h [T3a]; inv_grind)
  case T6a => first | exact h.T6a | (pick h [T6a]; inv_grind)
  case T6b => first | exact h.T6b | (pick h [T6b]; inv_grind)
  case G1 => first | exact h.G1 | (pick h [G1]; inv_grind)
  case G2 => first | exact h.G2 | (pick h [G2]; inv_grind)
  case T4 => first | exact h.T4 | (pick h [T4]; inv_grind)
  case Q1 => first | exact h.Q1 | (pick h [Q1]; inv_grind)
  case Q3 => first | exact h.Q3 | (pick h [Q3]; inv_grind)
  case ORD => have := h.ORD; rw [hf] at this; exact OrdP_tail this
  case W => first | exact h.W | (pick h [W]; inv_grind)

theorem doPop_b {s : State} (h : Inv s) (sid : Nat) (rest : List Cmd) (hio : s.io = .idle) (hf : s.fifo = .connect sid :: rest) (he : s.eng sid = .none) :
    Inv ({ s with fifo := rest, eng := setE s.eng sid .closed, io := .closeCS sid }) := by
  constructor
  case F_log => first | exact h.F_log | (pick h [F_log]; inv_grind [evSid])
  case F_att => first | exact h.F_att | (pick h [F_att]; inv_grind)
  case F_pend => first | exact h.F_pend | (pick h [F_pend]; inv_grind)
  case F_fifo => first | exact h.F_fifo | (pick h [F_fifo]; inv_grind [cmdSid])
  case F_eng => first | exact h.F_eng | (pick h [F_eng, F_fconn]; inv_grind)
  case F_io => first | exact h.F_io | (pick h [F_fconn]; inv_grind [ioSid])
  case U_att => first | exact h.U_att | (pick h [U_att]; inv_grind)
  case A_cr => first | exact h.A_cr | (pick h [A_cr]; inv_grind)
  case U_cr => first | exact h.U_cr | (pick h [U_cr]; inv_grind)
  case RC => first | exact h.RC | (pick h [RC]; inv_grind)
  case E2 => first | exact h.E2 | (pick h [E2]; inv_grind)
  case K => first | exact h.K | (pick h [K]; inv_grind)
  case S1 => first | exact h.S1 | (pick h [S1]; inv_grind)
  case REG => first | exact h.REG | (pick h [REG]; inv_grind)
  case ACC => first | exact h.ACC | (pick h [ACC]; inv_grind)
  case P1 => first | exact h.P1 | (pick h [P1]; inv_grind)
  case P2 => first | exact h.P2 | (pick h [P2]; inv_grind)
  case P3 => first | exact h.P3 | (pick h [P3]; inv_grind)
  case P4 => first | exact h.P4 | (pick h [P4]; inv_grind)
  case P5 => first | exact h.P5 | (pick h [P5]; inv_grind)
  case P8 => first | exact h.P8 | (pick h [P8]; inv_grind)
  case D1 => first | exact h.D1 | (pick h [D1]; inv_grind)
  case E3 => first | exact h.E3 | (pick h [E3]; inv_grind)
  case E5 => first | exact h.E5 | (pick h [E5]; inv_grind)
  case H1 => first | exact h.H1 | (pick h [H1]; inv_grind)
  case H2 => first | exact h.H2 | (pick h [E3]; inv_grind)
  case E1 => first | exact h.E1 | (pick h [E1]; inv_grind)
  case E6 => first | exact h.E6 | (pick h [E6]; inv_grind)
  case R1 => first | exact h.R1 | (pick h [R1]; inv_grind)
  case T1 => first | exact h.T1 | (pick h [T1]; inv_grind)
  case FIX => first | exact h.FIX | (pick h [FIX]; inv_grind)
  case T3a => first | exact h.T3a | (pick h [T3a]; inv_grind)
  case T6a => first | exact h.T6a | (pick h [T6a]; inv_grind)
  case T6b => first | exact h.T6b | (pick h [T6b]; inv_grind)
  case G1 => first | exact h.G1 | (pick h [G1]; inv_grind)
  case G2 => first | exact h.G2 | (pick h [G2]; inv_grind)
  case T4 => first | exact h.T4 | (pick h [T4]; inv_grind)
  case Q1 => first | exact h.Q1 | (pick h [Q1]; inv_grind)
  case Q3 => first | exact h.Q3 | (pick h [Q3]; inv_grind)
  case ORD => have := h.ORD; rw [hf] at this; exact OrdP_tail this
  case W => first | exact h.W | (pick h [W]; inv_grind)

theorem doPop_c {s : State} (h : Inv s) (x : Cmd) (rest : List Cmd) (hio : s.io = .idle) (hf : s.fifo = x :: rest) (hx : ∀ sid, x = .connect sid → s.eng sid ≠ .none) (hy : ∀ sid, x = .close sid → s.eng sid ≠ .connecting ∧ s.eng sid ≠ .established) :
    Inv ({ s with fifo := rest }) := by
  constructor
  case F_log => first | exact h.F_log | (pick h [F_log]; inv_grind [evSid])
  case F_att => first | exact h.F_att | (pick h [F_att]; inv_grind)
  case F_pend => first | exact h.F_pend | (pick h [F_pend]; inv_grind)
  case F_fifo => first | exact h.F_fifo | (pick h [F_fifo]; inv_grind [cmdSid])
  case F_eng => first | exact h.F_eng | (pick h [F_eng]; inv_grind)
  case F_io => first | exact h.F_io | (pick h [F_io]; inv_grind [ioSid])
  case U_att => first | exact h.U_att | (pick h [U_att]; inv_grind)
  case A_cr => first | exact h.A_cr | (pick h [A_cr]; inv_grind)
  case U_cr => first | exact h.U_cr | (pick h [U_cr]; inv_grind)
  case RC => first | exact h.RC | (pick h [RC]; inv_grind)
  case E2 => first | exact h.E2 | (pick h [E2]; inv_grind)
  case K => first | exact h.K | (pick h [K]; inv_grind)
  case S1 => first | exact h.S1 | (pick h [S1]; inv_grind)
  case REG => first | exact h.REG | (pick h [REG]; inv_grind)
  case ACC => first | exact h.ACC | (pick h [ACC]; inv_grind)
  case P1 => first | exact h.P1 | (pick h [P1]; inv_grind)
  case P2 => first | exact h.P2 | (pick h [P2]; inv_grind)
  case P3 => first | exact h.P3 | (pick h [P3]; inv_grind)
  case P4 => first | exact h.P4 | (pick h [P4]; inv_grind)
  case P5 => first | exact h.P5 | (pick h [P5]; inv_grind)
  case P8 => first | exact h.P8 | (pick h [P8]; inv_grind)
  case D1 => first | exact h.D1 | (pick h [D1]; inv_grind)
  case E3 => first | exact h.E3 | (pick h [E3]; inv_grind)
  case E5 => first | exact h.E5 | (pick h [E5]; inv_grind)
  case H1 => first | exact h.H1 | (pick h [H1]; inv_grind)
  case H2 => first | exact h.H2 | (pick h [H2]; inv_grind)
  case E1 => first | exact h.E1 | (pick h [E1]; inv_grind)
  case E6 => first | exact h.E6 | (pick h [E6]; inv_grind)
  case R1 => first | exact h.R1 | (pick h [R1]; inv_grind)
  case T1 => first | exact h.T1 | (pick h [T1]; inv_grind)
  case FIX => first | exact h.FIX | (pick h [FIX]; inv_grind)
  case T3a => first | exact h.T3a | (pick h [T3a]; inv_grind)
  case T6a => first | exact h.T6a | (pick h [T6a]; inv_grind)
  case T6b => first | exact h.T6b | (pick h [T6b]; inv_grind)
  case G1 => first | exact h.G1 | (pick h [G1]; inv_grind)
  case G2 => first | exact h.G2 | (pick h [G2]; inv_grind)
  case T4 => first | exact h.T4 | (pick h [T4]; inv_grind)
  case Q1 =>
    intro c sid' hm
    rcases h.Q1 c sid' hm with h1 | h1
    · rw [hf] at h1
      rcases List.mem_cons.1 h1 with h2 | h2
      · right
        have hc := h.E2 c sid' hm
        rcases h.Q3 c sid' hc with h3 | h3
        · rw [hf] at h3; rcases List.mem_cons.1 h3 with h4 | h4
          · rw [← h2] at h4; cases h4
          · exact absurd h4 (h.ORD [] rest sid' (by rw [hf, ← h2]; rfl))
        · have := hy sid' h2.symm
          cases he : s.eng sid' <;> simp_all
      · exact Or.inl h2
    · exact Or.inr h1
  case Q3 => first | exact h.Q3 | (pick h [Q3]; inv_grind)
  case ORD => have := h.ORD; rw [hf] at this; exact OrdP_tail this
  case W => first | exact h.W | (pick h [W]; inv_grind)

theorem doPop_d {s : State} (h : Inv s) (sid : Nat) (rest : List Cmd) (hio : s.io = .idle) (hf : s.fifo = .close sid :: rest) (he : s.eng sid = .connecting ∨ s.eng sid = .established) :
    Inv ({ s with fifo := rest, eng := setE s.eng sid .closed, io := .closeCS sid }) := by
  constructor
  case F_log => first | exact h.F_log | (pick h [F_log]; inv_grind [evSid])
  case F_att => first | exact h.F_att | (pick h [F_att]; inv_grind)
  case F_pend => first | exact h.F_pend | (pick h [F_pend]; inv_grind)
  case F_fifo => first | exact h.F_fifo | (pick h [F_fifo]; inv_grind [cmdSid])
  case F_eng => first | exact h.F_eng | (pick h [F_eng]; inv_grind)
  case F_io => first | exact h.F_io | (pick h [F_fclose]; inv_grind [ioSid])
  case U_att => first | exact h.U_att | (pick h [U_att]; inv_grind)
  case A_cr => first | exact h.A_cr | (pick h [A_cr]; inv_grind)
  case U_cr => first | exact h.U_cr | (pick h [U_cr]; inv_grind)
  case RC => first | exact h.RC | (pick h [RC]; inv_grind)
  case E2 => first | exact h.E2 | (pick h [E2]; inv_grind)
  case K => first | exact h.K | (pick h [K]; inv_grind)
  case S1 => first | exact h.S1 | (pick h [S1]; inv_grind)
  case REG => first | exact h.REG | (pick h [REG]; inv_grind)
  case ACC => first | exact h.ACC | (pick h [ACC]; inv_grind)
  case P1 => first | exact h.P1 | (pick h [P1]; inv_grind)
  case P2 => first | exact h.P2 | (pick h [P2]; inv_grind)
  case P3 => first | exact h.P3 | (pick h [P3]; inv_grind)
  case P4 => first | exact h.P4 | (pick h [P4]; inv_grind)
  case P5 => first | exact h.P5 | (pick h [P5]; inv_grind)
  case P8 => first | exact h.P8 | (pick h [P8]; inv_grind)
  case D1 => first | exact h.D1 | (pick h [D1]; inv_grind)
  case E3 => first | exact h.E3 | (pick h [E3]; inv_grind)
  case E5 => first | exact h.E5 | (pick h [E5]; inv_grind)
  case H1 => first | exact h.H1 | (pick h [H1]; inv_grind)
  case H2 => first | exact h.H2 | (pick h [E3]; inv_grind)
  case E1 => first | exact h.E1 | (pick h [E1]; inv_grind)
  case E6 => first | exact h.E6 | (pick h [E6]; inv_grind)
  case R1 => first | exact h.R1 | (pick h [R1]; inv_grind)
  case T1 => first | exact h.T1 | (pick h [T1]; inv_grind)
  case FIX => first | exact h.FIX | (pick h [FIX]; inv_grind)
  case T3a => first | exact h.T3a | (pick h [T3a]; inv_grind)
  case T6a => first | exact h.T6a | (pick h [T6a]; inv_grind)
  case T6b => first | exact h.T6b | (pick h [T6b]; inv_grind)
  case G1 => first | exact h.G1 | (pick h [G1]; inv_grind)
  case G2 => first | exact h.G2 | (pick h [G2]; inv_grind)
  case T4 => first | exact h.T4 | (pick h [T4]; inv_grind)
  case Q1 => first | exact h.Q1 | (pick h [Q1]; inv_grind)
  case Q3 => first | exact h.Q3 | (pick h [Q3]; inv_grind)
  case ORD => have := h.ORD; rw [hf] at this; exact OrdP_tail this
  case W => first | exact h.W | (pick h [W]; inv_grind)

theorem doComplete_inv {s : State} (h : Inv s) (sid : Nat) : Inv (doComplete s sid) := by
  unfold doComplete
  split
  · rename_i hio he; exact doComplete_core h sid hio he
  · exact h

theorem doFail_inv {s : State} (h : Inv s) (sid : Nat) : Inv (doFail s sid) := by
  unfold doFail
  split
  · rename_i hio he; exact doFail_core h sid hio (Or.inl he)
  · exact h

theorem doPeerClose_inv {s : State} (h : Inv s) (sid : Nat) : Inv (doPeerClose s sid) := by
  unfold doPeerClose
  split
  · rename_i hio he; exact doFail_core h sid hio (Or.inr he)
  · exact h

theorem doPop_inv {s : State} (h : Inv s) (b : Bool) : Inv (doPop s b) := by
  unfold doPop
  split
  · rename_i sid rest hio hf
    split
    · rename_i he
      split
      · exact doPop_a h sid rest hio hf he
      · exact doPop_b h sid rest hio hf he
    · rename_i hne
      exact doPop_c h _ rest hio hf (by intro sid' hx; cases hx; intro he; exact hne he) (by intro sid' hx; cases hx)
  · rename_i sid rest hio hf
    split
    · rename_i he; exact doPop_d h sid rest hio hf (Or.inl he)
    · rename_i he; exact doPop_d h sid rest hio hf (Or.inr he)
    · rename_i hne1 hne2
      exact doPop_c h _ rest hio hf (by intro sid' hx; cases hx) (by intro sid' hx; cases hx; exact ⟨hne1, hne2⟩)
  · exact h


end Iora.ConnectSync
