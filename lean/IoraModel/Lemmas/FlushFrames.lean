import IoraModel.Model.FlushFrames
/-! Invariants of the flush-frame model (C05): the filtering walk of `releaseOwnFlushes`, as regenerated from the source. -/
namespace Iora.FlushFrames
set_option linter.unusedSimpArgs false
set_option linter.unusedVariables false

/-- the walk regenerated from the source is the filter (a change of the source that makes it a take-while breaks the build here) -/
theorem walk_filters : walkFilters = true := by decide

/-- live guards of transport `d` on the stack -/
def cnt (d : Nat) (l : List Frame) : Nat := l.countP fun f => decide (f.impl = d) && f.guard
/-- some frame of transport `d` is on the stack -/
def has (d : Nat) (l : List Frame) : Bool := l.any fun f => decide (f.impl = d)
/-- an orphaned frame is the OUTERMOST frame of its transport -/
def orphOK : List Frame → Prop
  | [] => True
  | f :: rest => (f.orphaned = true → ∀ g ∈ rest, g.impl ≠ f.impl) ∧ orphOK rest

theorem has_iff {d : Nat} {l : List Frame} : has d l = true ↔ ∃ f ∈ l, f.impl = d := by
  simp [has]

theorem mask_any {d : Nat} (l : List Frame) : (mask true d l).any id = has d l := by
  induction l with
  | nil => rfl
  | cons f rest ih =>
    by_cases h : f.impl = d
    · simp [mask, has, h]
    · simp [mask, has, h]
      simpa [has] using ih

theorem live_eq_cnt {d : Nat} (l : List Frame) : liveMatched (mask true d l) l = cnt d l := by
  induction l with
  | nil => rfl
  | cons f rest ih =>
    by_cases h : f.impl = d
    · cases hg : f.guard <;> simp [mask, liveMatched, cnt, List.countP_cons, h, hg] <;> (simp [cnt] at ih; omega)
    · simp [mask, liveMatched, cnt, List.countP_cons, h]
      simpa [cnt] using ih

/-- what the filter walk does to one frame -/
def rst (d : Nat) (f : Frame) : Frame := if f.impl = d then { f with guard := false } else f

theorem reset_eq_map {d : Nat} (l : List Frame) : resetGuards (mask true d l) l = l.map (rst d) := by
  induction l with
  | nil => rfl
  | cons f rest ih =>
    by_cases h : f.impl = d
    · simp [mask, resetGuards, rst, h, ih]
    · simp [mask, resetGuards, rst, h, ih]

theorem rst_props (d : Nat) (f : Frame) : (rst d f).impl = f.impl ∧ (rst d f).orphaned = f.orphaned ∧
    ((rst d f).guard = true → f.guard = true ∧ f.impl ≠ d) ∧ (f.impl ≠ d → rst d f = f) := by
  unfold rst; split <;> simp_all

theorem cnt_map_rst_self (d : Nat) (l : List Frame) : cnt d (l.map (rst d)) = 0 := by
  unfold cnt
  apply List.countP_eq_zero.mpr
  intro g hg
  obtain ⟨f, _, rfl⟩ := List.mem_map.mp hg
  have := rst_props d f
  by_cases h : f.impl = d
  · simp [rst, h]
  · simp [this.1, h]

theorem cnt_map_rst_ne {d e : Nat} (h : e ≠ d) (l : List Frame) : cnt e (l.map (rst d)) = cnt e l := by
  unfold cnt
  rw [List.countP_map]
  apply List.countP_congr
  intro f _
  simp only [Function.comp]
  by_cases hf : f.impl = d
  · have : f.impl ≠ e := fun h' => h (h'.symm.trans hf)
    simp [rst, hf, this, h]
    intro h'; exact absurd (h'.symm) h
  · rw [(rst_props d f).2.2.2 hf]

theorem orphOK_map {φ : Frame → Frame} (hφ : ∀ f, (φ f).impl = f.impl ∧ (φ f).orphaned = f.orphaned) :
    ∀ l : List Frame, orphOK l → orphOK (l.map φ) := by
  intro l
  induction l with
  | nil => intro _; trivial
  | cons f rest ih =>
    intro h
    refine ⟨?_, ih h.2⟩
    intro ho g hg
    obtain ⟨g0, hg0, rfl⟩ := List.mem_map.mp hg
    rw [(hφ g0).1, (hφ f).1]
    exact h.1 (by rw [← (hφ f).2]; exact ho) g0 hg0

/-- the frames after `orphanLast`: same transports and guards position by position; the last frame of `d` is orphaned -/
theorem orphanLast_spec {d : Nat} : ∀ l : List Frame, orphOK l →
    orphOK (orphanLast (mask true d l) l) ∧
    (∀ g ∈ orphanLast (mask true d l) l, ∃ f ∈ l, g.impl = f.impl ∧ g.guard = f.guard ∧ (g.orphaned = true → f.orphaned = true ∨ g.impl = d)) ∧
    (∀ f ∈ l, ∃ g ∈ orphanLast (mask true d l) l, g.impl = f.impl ∧ g.guard = f.guard ∧ (f.orphaned = true → g.orphaned = true)) ∧
    (has d l = true → ∃ g ∈ orphanLast (mask true d l) l, g.impl = d ∧ g.orphaned = true) ∧
    cnt d (orphanLast (mask true d l) l) = cnt d l ∧ (∀ e, cnt e (orphanLast (mask true d l) l) = cnt e l) := by
  intro l
  induction l with
  | nil => intro _; simp [mask, orphanLast, orphOK, has, cnt]
  | cons f rest ih =>
    intro h
    obtain ⟨i1, i2, i3, i4, i5, i6⟩ := ih h.2
    by_cases hf : f.impl = d
    · by_cases hr : has d rest = true
      · -- a deeper frame of d exists: this one is left alone
        have e : orphanLast (mask true d (f :: rest)) (f :: rest) = f :: orphanLast (mask true d rest) rest := by
          simp [mask, orphanLast, hf, mask_any, hr]
        rw [e]
        refine ⟨⟨?_, i1⟩, ?_, ?_, ?_, ?_, ?_⟩
        · intro ho g hg
          obtain ⟨f0, hf0, h1, _, _⟩ := i2 g hg
          rw [h1]; exact h.1 ho f0 hf0
        · intro g hg
          simp only [List.mem_cons] at hg
          rcases hg with rfl | hg
          · exact ⟨g, by simp, rfl, rfl, fun ho => Or.inl ho⟩
          · obtain ⟨f0, hf0, h1⟩ := i2 g hg
            exact ⟨f0, by simp [hf0], h1⟩
        · intro f1 hf1
          simp only [List.mem_cons] at hf1
          rcases hf1 with rfl | hf1
          · exact ⟨f1, by simp, rfl, rfl, fun ho => ho⟩
          · obtain ⟨g, hg, h1⟩ := i3 f1 hf1
            exact ⟨g, by simp [hg], h1⟩
        · intro _
          obtain ⟨g, hg, h1⟩ := i4 hr
          exact ⟨g, by simp [hg], h1⟩
        · simp [cnt, List.countP_cons] at i5 ⊢; omega
        · intro e'; have := i6 e'; simp [cnt, List.countP_cons] at this ⊢; omega
      · -- this is the outermost frame of d: it becomes the owner
        have hr' : has d rest = false := by simpa using hr
        have e : orphanLast (mask true d (f :: rest)) (f :: rest) = { f with orphaned := true } :: rest := by
          simp [mask, orphanLast, hf, mask_any, hr']
        rw [e]
        have hno : ∀ g ∈ rest, g.impl ≠ d := by
          intro g hg hgd
          have : has d rest = true := has_iff.mpr ⟨g, hg, hgd⟩
          rw [hr'] at this; cases this
        refine ⟨⟨?_, h.2⟩, ?_, ?_, ?_, ?_, ?_⟩
        · intro _ g hg; simp only []; rw [hf]; exact hno g hg
        · intro g hg
          simp only [List.mem_cons] at hg
          rcases hg with rfl | hg
          · exact ⟨f, by simp, rfl, rfl, fun _ => Or.inr hf⟩
          · exact ⟨g, by simp [hg], rfl, rfl, fun ho => Or.inl ho⟩
        · intro f1 hf1
          simp only [List.mem_cons] at hf1
          rcases hf1 with rfl | hf1
          · exact ⟨{ f1 with orphaned := true }, by simp, rfl, rfl, fun _ => rfl⟩
          · exact ⟨f1, by simp [hf1], rfl, rfl, fun ho => ho⟩
        · intro _; exact ⟨{ f with orphaned := true }, by simp, hf, rfl⟩
        · simp [cnt, List.countP_cons]
        · intro e'; simp [cnt, List.countP_cons]
    · have e : orphanLast (mask true d (f :: rest)) (f :: rest) = f :: orphanLast (mask true d rest) rest := by
        simp [mask, orphanLast, hf]
      rw [e]
      refine ⟨⟨?_, i1⟩, ?_, ?_, ?_, ?_, ?_⟩
      · intro ho g hg
        obtain ⟨f0, hf0, h1, _, _⟩ := i2 g hg
        rw [h1]; exact h.1 ho f0 hf0
      · intro g hg
        simp only [List.mem_cons] at hg
        rcases hg with rfl | hg
        · exact ⟨g, by simp, rfl, rfl, fun ho => Or.inl ho⟩
        · obtain ⟨f0, hf0, h1⟩ := i2 g hg
          exact ⟨f0, by simp [hf0], h1⟩
      · intro f1 hf1
        simp only [List.mem_cons] at hf1
        rcases hf1 with rfl | hf1
        · exact ⟨f1, by simp, rfl, rfl, fun ho => ho⟩
        · obtain ⟨g, hg, h1⟩ := i3 f1 hf1
          exact ⟨g, by simp [hg], h1⟩
      · intro hh
        have : has d rest = true := by simpa [has, hf] using hh
        obtain ⟨g, hg, h1⟩ := i4 this
        exact ⟨g, by simp [hg], h1⟩
      · simp [cnt, List.countP_cons] at i5 ⊢; omega
      · intro e'; have := i6 e'; simp [cnt, List.countP_cons] at this ⊢; omega


structure Inv (s : State) : Prop where
  A : s.uaf = false
  B : ∀ f ∈ s.stack, s.alive f.impl = true
  C : ∀ d, s.flushes d = cnt d s.stack
  D : ∀ d, s.released d = true → cnt d s.stack = 0
  E : orphOK s.stack
  F : ∀ d, s.alive d = false → s.released d = true
  G : ∀ d, s.released d = true → s.alive d = true →
        (∃ o, s.dtor = some (d, o)) ∨ (∃ f ∈ s.stack, f.impl = d ∧ f.orphaned = true)
  H : ∀ d o, s.dtor = some (d, o) → s.released d = true ∧ s.alive d = true ∧ o = has d s.stack
  I : ∀ f ∈ s.stack, f.orphaned = true → s.released f.impl = true
  J : ∀ d, s.fence d = true → s.released d = true

theorem Inv_mk (others : Nat → Nat) : Inv (mk others) := by
  constructor <;> simp [mk, cnt, orphOK]

theorem touch_alive {s : State} {d : Nat} (h : s.alive d = true) : touch s d = s := by simp [touch, h]

theorem alive_of_not_released {s : State} (h : Inv s) {d : Nat} (hr : s.released d = false) : s.alive d = true := by
  cases ha : s.alive d with
  | true => rfl
  | false => have := h.F d ha; rw [hr] at this; cases this

@[simp] theorem upd_same {α : Type} (g : Nat → α) (d : Nat) (v : α) : upd g d v d = v := by simp [upd]
theorem upd_ne {α : Type} (g : Nat → α) {d e : Nat} (v : α) (h : e ≠ d) : upd g d v e = g e := by simp [upd, h]

theorem doPush_inv {s : State} (h : Inv s) (d : Nat) (hok : ok s (.push d) = true) : Inv (doPush s d) := by
  have hr : s.released d = false := by simpa [ok] using hok
  have hal := alive_of_not_released h hr
  have hfe : s.fence d = false := by
    cases hf : s.fence d with
    | false => rfl
    | true => have := h.J d hf; rw [hr] at this; cases this
  unfold doPush
  split
  · exact h
  · simp only [touch_alive hal, hfe, Bool.false_eq_true, if_false]
    constructor
    all_goals (try simp only [])
    · exact h.A
    · intro f hf
      simp only [List.mem_cons] at hf
      rcases hf with rfl | hf
      · exact hal
      · exact h.B f hf
    · intro e
      by_cases he : e = d
      · subst he; simp [cnt, List.countP_cons]; have := h.C e; simp [cnt] at this; omega
      · rw [upd_ne _ _ he]
        have : ¬ (d = e) := fun h' => he h'.symm
        simp [cnt, List.countP_cons, this]; have := h.C e; simpa [cnt] using this
    · intro e hre
      have hne : ¬ (d = e) := by intro h'; subst h'; rw [hr] at hre; cases hre
      simp [cnt, List.countP_cons, hne]; have := h.D e hre; simpa [cnt] using this
    · exact ⟨by simp, h.E⟩
    · exact h.F
    · intro e h1 h2
      rcases h.G e h1 h2 with h3 | ⟨f, hf, h3⟩
      · exact Or.inl h3
      · exact Or.inr ⟨f, by simp [hf], h3⟩
    · intro e o hd; rename_i hdt; rw [hdt] at hd; cases hd
    · intro f hf ho
      simp only [List.mem_cons] at hf
      rcases hf with rfl | hf
      · simp at ho
      · exact h.I f hf ho
    · exact h.J

theorem doRelease_inv {s : State} (h : Inv s) (d : Nat) (hok : ok s (.release d) = true) : Inv (doRelease true s d) := by
  have hr : s.released d = false := by simpa [ok] using hok
  have hal := alive_of_not_released h hr
  unfold doRelease
  split
  · exact h
  · rename_i hdt
    simp only [touch_alive hal, reset_eq_map, live_eq_cnt, mask_any]
    have hmem : ∀ g ∈ s.stack.map (rst d), ∃ f ∈ s.stack, g = rst d f := by
      intro g hg; obtain ⟨f, hf, rfl⟩ := List.mem_map.mp hg; exact ⟨f, hf, rfl⟩
    constructor
    all_goals (try simp only [])
    · exact h.A
    · intro g hg
      obtain ⟨f, hf, rfl⟩ := hmem g hg
      rw [(rst_props d f).1]; exact h.B f hf
    · intro e
      by_cases he : e = d
      · subst he; rw [upd_same, cnt_map_rst_self, h.C e]; omega
      · rw [upd_ne _ _ he, cnt_map_rst_ne he]; exact h.C e
    · intro e hre
      by_cases he : e = d
      · subst he; exact cnt_map_rst_self e _
      · rw [upd_ne _ _ he] at hre; rw [cnt_map_rst_ne he]; exact h.D e hre
    · exact orphOK_map (fun f => ⟨(rst_props d f).1, (rst_props d f).2.1⟩) _ h.E
    · intro e hae
      by_cases he : e = d
      · subst he; exact upd_same _ _ _
      · rw [upd_ne _ _ he]; exact h.F e hae
    · intro e h1 h2
      by_cases he : e = d
      · subst he; exact Or.inl ⟨_, rfl⟩
      · rw [upd_ne _ _ he] at h1
        rcases h.G e h1 h2 with ⟨o, h3⟩ | ⟨f, hf, h3, h4⟩
        · rw [hdt] at h3; cases h3
        · exact Or.inr ⟨rst d f, List.mem_map.mpr ⟨f, hf, rfl⟩, by rw [(rst_props d f).1]; exact h3, by rw [(rst_props d f).2.1]; exact h4⟩
    · intro e o hd
      simp only [Option.some.injEq, Prod.mk.injEq] at hd
      obtain ⟨rfl, rfl⟩ := hd
      refine ⟨upd_same _ _ _, hal, ?_⟩
      simp [has, List.any_map, Function.comp, (rst_props _ _).1]
      congr 1
      funext f
      simp [(rst_props d f).1]
    · intro g hg ho
      obtain ⟨f, hf, rfl⟩ := hmem g hg
      rw [(rst_props d f).2.1] at ho
      rw [(rst_props d f).1]
      have := h.I f hf ho
      by_cases he : f.impl = d
      · rw [he]; exact upd_same _ _ _
      · rw [upd_ne _ _ he]; exact this
    · intro e hfe
      by_cases he : e = d
      · subst he; exact upd_same _ _ _
      · rw [upd_ne _ _ he] at hfe ⊢; exact h.J e hfe

theorem doDtorWake_inv {s : State} (h : Inv s) : Inv (doDtorWake true s) := by
  unfold doDtorWake
  split
  · exact h
  · rename_i d own hdt
    obtain ⟨hrel, hal, hown⟩ := h.H d own hdt
    split
    · split
      · -- flusher branch: Impl is left to the outermost own frame
        rename_i hgate ho
        obtain ⟨s1, s2, s3, s4, _, s6⟩ := orphanLast_spec (d := d) s.stack h.E
        constructor
        all_goals (try simp only [])
        · exact h.A
        · intro g hg; obtain ⟨f, hf, h1, _⟩ := s2 g hg; rw [h1]; exact h.B f hf
        · intro e; rw [s6 e]; exact h.C e
        · intro e hre; rw [s6 e]; exact h.D e hre
        · exact s1
        · exact h.F
        · intro e h1 h2
          by_cases he : e = d
          · subst he
            have : has e s.stack = true := by rw [← hown]; exact ho
            obtain ⟨g, hg, h3⟩ := s4 this
            exact Or.inr ⟨g, hg, h3⟩
          · rcases h.G e h1 h2 with ⟨o, h3⟩ | ⟨f, hf, h3, h4⟩
            · rw [hdt] at h3; simp only [Option.some.injEq, Prod.mk.injEq] at h3; exact absurd h3.1.symm he
            · obtain ⟨g, hg, g1, _, g3⟩ := s3 f hf
              exact Or.inr ⟨g, hg, by rw [g1]; exact h3, g3 h4⟩
        · intro e o hd; cases hd
        · intro g hg hgo
          obtain ⟨f, hf, h1, _, h3⟩ := s2 g hg
          rcases h3 hgo with h4 | h4
          · rw [h1]; exact h.I f hf h4
          · rw [h4]; exact hrel
        · exact h.J
      · -- ordinary branch: ~Impl now; no frame of d is on the stack
        rename_i hgate ho
        have hno : has d s.stack = false := by rw [← hown]; simpa using ho
        have hnf : ∀ f ∈ s.stack, f.impl ≠ d := by
          intro f hf hfd
          have : has d s.stack = true := has_iff.mpr ⟨f, hf, hfd⟩
          rw [hno] at this; cases this
        constructor
        all_goals (try simp only [])
        · exact h.A
        · intro f hf; rw [upd_ne _ _ (hnf f hf)]; exact h.B f hf
        · exact h.C
        · exact h.D
        · exact h.E
        · intro e hae
          by_cases he : e = d
          · subst he; exact hrel
          · rw [upd_ne _ _ he] at hae; exact h.F e hae
        · intro e h1 h2
          by_cases he : e = d
          · subst he; simp at h2
          · rw [upd_ne _ _ he] at h2
            rcases h.G e h1 h2 with ⟨o, h3⟩ | h3
            · rw [hdt] at h3; simp only [Option.some.injEq, Prod.mk.injEq] at h3; exact absurd h3.1.symm he
            · exact Or.inr h3
        · intro e o hd; cases hd
        · exact h.I
        · exact h.J
    · exact h

theorem doPop_inv {s : State} (h : Inv s) : Inv (doPop s) := by
  unfold doPop
  split
  · rename_i f rest hdt hst
    have hB := h.B; have hC := h.C; have hD := h.D; have hE := h.E; have hG := h.G; have hI := h.I
    rw [hst] at hB hC hD hE hG hI
    have hal := hB f (by simp)
    simp only [touch_alive hal]
    have hcnt : ∀ e, upd s.flushes f.impl (s.flushes f.impl - (if f.guard = true then 1 else 0)) e = cnt e rest := by
      intro e
      by_cases he : e = f.impl
      · subst he; rw [upd_same, hC]; cases hg : f.guard <;> simp [cnt, List.countP_cons, hg]
      · rw [upd_ne _ _ he, hC e]
        have : ¬ (f.impl = e) := fun h' => he h'.symm
        simp [cnt, List.countP_cons, this]
    have hD' : ∀ e, s.released e = true → cnt e rest = 0 := by
      intro e hre
      have := hD e hre
      simp [cnt, List.countP_cons] at this ⊢
      exact this.1
    split
    · -- the orphaned frame deletes Impl: it is the outermost frame of its transport
      rename_i ho
      have hno := hE.1 ho
      constructor
      all_goals (try simp only [])
      · exact h.A
      · intro g hg; rw [upd_ne _ _ (hno g hg)]; exact hB g (by simp [hg])
      · exact hcnt
      · exact hD'
      · exact hE.2
      · intro e hae
        by_cases he : e = f.impl
        · subst he; exact hI f (by simp) ho
        · rw [upd_ne _ _ he] at hae; exact h.F e hae
      · intro e h1 h2
        by_cases he : e = f.impl
        · subst he; simp at h2
        · rw [upd_ne _ _ he] at h2
          rcases hG e h1 h2 with ⟨o, h3⟩ | ⟨g, hg, h3, h4⟩
          · rw [hdt] at h3; cases h3
          · simp only [List.mem_cons] at hg
            rcases hg with rfl | hg
            · exact absurd h3.symm he
            · exact Or.inr ⟨g, hg, h3, h4⟩
      · intro e o hd; rw [hdt] at hd; cases hd
      · intro g hg hgo; exact hI g (by simp [hg]) hgo
      · exact h.J
    · rename_i ho
      constructor
      all_goals (try simp only [])
      · exact h.A
      · intro g hg; exact hB g (by simp [hg])
      · exact hcnt
      · exact hD'
      · exact hE.2
      · exact h.F
      · intro e h1 h2
        rcases hG e h1 h2 with ⟨o, h3⟩ | ⟨g, hg, h3, h4⟩
        · rw [hdt] at h3; cases h3
        · simp only [List.mem_cons] at hg
          rcases hg with rfl | hg
          · exact absurd h4 ho
          · exact Or.inr ⟨g, hg, h3, h4⟩
      · intro e o hd; rw [hdt] at hd; cases hd
      · intro g hg hgo; exact hI g (by simp [hg]) hgo
      · exact h.J
  · exact h

theorem step_inv {s : State} (h : Inv s) (st : Step) (hok : ok s st = true) : Inv (step s st) := by
  unfold step
  rw [walk_filters]
  cases st with
  | push d => exact doPush_inv h d hok
  | release d => exact doRelease_inv h d hok
  | dtorWake => exact doDtorWake_inv h
  | otherLeave d =>
    simp only [stepW]
    exact ⟨h.A, h.B, h.C, h.D, h.E, h.F, h.G, h.H, h.I, h.J⟩
  | pop => exact doPop_inv h

theorem run_inv : ∀ (steps : List Step) (s : State), Inv s → Disciplined s steps → Inv (run s steps) := by
  intro steps
  induction steps with
  | nil => intro s h _; exact h
  | cons st rest ih =>
    intro s h hd
    have : run s (st :: rest) = run (step s st) rest := rfl
    rw [this]
    exact ih _ (step_inv h st hd.1) hd.2


/-! ## completion -/

theorem run_append (a b : List Step) : ∀ s : State, run s (a ++ b) = run (run s a) b := by
  induction a with
  | nil => intro s; rfl
  | cons x rest ih => intro s; exact ih (step s x)

theorem disc_append (a b : List Step) : ∀ s : State, Disciplined s a → Disciplined (run s a) b → Disciplined s (a ++ b) := by
  induction a with
  | nil => intro s _ h; exact h
  | cons x rest ih => intro s h1 h2; exact ⟨h1.1, ih (step s x) h1.2 h2⟩

theorem step_pop {s : State} {f : Frame} {rest : List Frame} (hd : s.dtor = none) (hs : s.stack = f :: rest) :
    (step s .pop).stack = rest ∧ (step s .pop).dtor = none := by
  simp only [step, stepW, doPop, hd, hs]
  split <;> simp [touch] <;> (split <;> simp [hd])

/-- every callback returns: the stack unwinds completely -/
theorem pops : ∀ (n : Nat) (s : State), Inv s → s.dtor = none → s.stack.length = n →
    (run s (List.replicate n .pop)).stack = [] ∧ (run s (List.replicate n .pop)).dtor = none ∧
    Inv (run s (List.replicate n .pop)) ∧ Disciplined s (List.replicate n .pop) := by
  intro n
  induction n with
  | zero =>
    intro s h hd hl
    exact ⟨List.eq_nil_of_length_eq_zero hl, hd, h, trivial⟩
  | succ n ih =>
    intro s h hd hl
    cases hs : s.stack with
    | nil => rw [hs] at hl; simp at hl
    | cons f rest =>
      have hp := step_pop hd hs
      have hi := step_inv h .pop rfl
      have hlen : (step s .pop).stack.length = n := by rw [hp.1]; rw [hs] at hl; simpa using hl
      obtain ⟨r1, r2, r3, r4⟩ := ih (step s .pop) hi hp.2 hlen
      exact ⟨r1, r2, r3, ⟨rfl, r4⟩⟩

/-- the callers of other threads leave transport `d` -/
theorem leaves (d : Nat) (o : Bool) : ∀ (n : Nat) (s : State), Inv s → s.dtor = some (d, o) → s.others d = n →
    (run s (List.replicate n (.otherLeave d))).others d = 0 ∧ (run s (List.replicate n (.otherLeave d))).dtor = some (d, o) ∧
    (run s (List.replicate n (.otherLeave d))).stack = s.stack ∧
    Inv (run s (List.replicate n (.otherLeave d))) ∧ Disciplined s (List.replicate n (.otherLeave d)) := by
  intro n
  induction n with
  | zero => intro s h hd ho; exact ⟨ho, hd, rfl, h, trivial⟩
  | succ n ih =>
    intro s h hd ho
    have hi := step_inv h (.otherLeave d) rfl
    have e1 : (step s (.otherLeave d)).others d = n := by simp [step, stepW, ho]
    have e2 : (step s (.otherLeave d)).dtor = some (d, o) := by simp [step, stepW, hd]
    have e3 : (step s (.otherLeave d)).stack = s.stack := by simp [step, stepW]
    obtain ⟨r1, r2, r3, r4, r5⟩ := ih (step s (.otherLeave d)) hi e2 e1
    exact ⟨r1, r2, r3.trans e3, r4, ⟨rfl, r5⟩⟩

/-- the destructor's predicate check succeeds once the other callers are out: all frames of the transport on this thread were released -/
theorem wake_done {s : State} (h : Inv s) {d : Nat} {o : Bool} (hd : s.dtor = some (d, o)) (ho : s.others d = 0) :
    (step s .dtorWake).dtor = none ∧ (step s .dtorWake).stack.length = s.stack.length := by
  have hrel := (h.H d o hd).1
  have hz : s.flushes d = 0 := by rw [h.C d]; exact h.D d hrel
  obtain ⟨_, s2, s3, _⟩ := orphanLast_spec (d := d) s.stack h.E
  have hlen : (orphanLast (mask true d s.stack) s.stack).length = s.stack.length := by
    have : ∀ l : List Frame, (orphanLast (mask true d l) l).length = l.length := by
      intro l
      induction l with
      | nil => rfl
      | cons f rest ih =>
        by_cases hf : f.impl = d
        · by_cases hr : (mask true d rest).any id = true
          · simp [mask, orphanLast, hf, hr, ih]
          · simp [mask, orphanLast, hf, hr]
        · simp [mask, orphanLast, hf, ih]
    exact this _
  simp only [step, walk_filters, stepW, doDtorWake, hd, hz, ho]
  cases o <;> simp [hlen]

/-- **no dead end** for nested flushes over several transports: from every state the invariant holds in, a schedule respecting
the contract, at most (callers of other threads inside the transport being destroyed) + 1 + (depth of the stack) steps long,
ends with the destructor returned and every flush unwound -/
theorem completes {s : State} (h : Inv s) :
    ∃ steps : List Step, Disciplined s steps ∧
      steps.length ≤ (match s.dtor with | some (d, _) => s.others d + 1 | none => 0) + s.stack.length ∧
      (run s steps).dtor = none ∧ (run s steps).stack = [] ∧ Inv (run s steps) := by
  cases hd : s.dtor with
  | none =>
    obtain ⟨r1, r2, r3, r4⟩ := pops s.stack.length s h hd rfl
    exact ⟨List.replicate s.stack.length .pop, r4, by simp, r2, r1, r3⟩
  | some p =>
    obtain ⟨d, o⟩ := p
    obtain ⟨l1, l2, l3, l4, l5⟩ := leaves d o (s.others d) s h hd rfl
    let s1 := run s (List.replicate (s.others d) (.otherLeave d))
    have hw := wake_done l4 l2 l1
    have hi2 := step_inv l4 .dtorWake rfl
    let s2 := step s1 .dtorWake
    have hlen2 : s2.stack.length = s.stack.length := by
      have := hw.2; rw [l3] at this; exact this
    obtain ⟨r1, r2, r3, r4⟩ := pops s.stack.length s2 hi2 hw.1 hlen2
    refine ⟨List.replicate (s.others d) (.otherLeave d) ++ (.dtorWake :: List.replicate s.stack.length .pop), ?_, ?_, ?_, ?_, ?_⟩
    · exact disc_append _ _ s l5 ⟨rfl, r4⟩
    · simp; omega
    · rw [run_append]; exact r2
    · rw [run_append]; exact r1
    · rw [run_append]; exact r3

/-- when nothing is in progress any more every released transport has been deleted -/
theorem released_deleted {s : State} (h : Inv s) (hd : s.dtor = none) (hs : s.stack = []) (d : Nat)
    (hr : s.released d = true) : s.alive d = false := by
  cases ha : s.alive d with
  | false => rfl
  | true =>
    rcases h.G d hr ha with ⟨o, h1⟩ | ⟨f, hf, _⟩
    · rw [hd] at h1; cases h1
    · rw [hs] at hf; cases hf

/-! ## the take-while walk (test in the loop condition) is NOT enough -/

/-- transport 0 (D) flushes, its callback flushes transport 1 (U), U's callback drops the last reference of D -/
def relay : List Step := [.push 0, .push 1, .release 0]

/-- with the take-while walk the destructor of D finds U's frame on top, stops, takes the ordinary branch and waits for D's own,
still counted, flush: whatever happens afterwards — any steps of the thread, of other threads, any number of predicate checks —
the destructor never returns -/
theorem takeWhile_stuck (steps : List Step) :
    (runW false (runW false (mk fun _ => 0) relay) steps).dtor = some (0, false) := by
  have key : ∀ (l : List Step) (s : State), s.dtor = some (0, false) → s.flushes 0 = 1 →
      (runW false s l).dtor = some (0, false) := by
    intro l
    induction l with
    | nil => intro s h _; exact h
    | cons st rest ih =>
      intro s h1 h2
      apply ih
      · cases st <;> simp [stepW, doPush, doRelease, doDtorWake, doPop, h1, h2]
      · cases st <;> simp [stepW, doPush, doRelease, doDtorWake, doPop, h1, h2]
  exact key steps _ (by decide) (by decide)

end Iora.FlushFrames
