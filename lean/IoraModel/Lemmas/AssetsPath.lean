import IoraModel.Model.Assets
/-!
String-level lemmas for the C20 model: `splitSlash` / `comps` / `joinSlash`, the lexical filter (A1),
`elems`, `lexRelFirst` / `isContained` on canonical absolute paths (A2).
-/
namespace Iora.Assets
open Iora

/-! ### splitSlash -/

theorem splitSlash_ne_nil (p : Bytes) : splitSlash p ≠ [] := by
  cases p with
  | nil => simp [splitSlash]
  | cons c cs =>
    simp only [splitSlash]
    split
    · simp
    · cases h : splitSlash cs <;> simp [consHead]

theorem consHead_append (c : UInt8) (a b : List Bytes) (h : a ≠ []) : consHead c (a ++ b) = consHead c a ++ b := by
  cases a with
  | nil => exact absurd rfl h
  | cons x xs => simp [consHead]

/-- splitting distributes over a separator -/
theorem splitSlash_append (a b : Bytes) : splitSlash (a ++ SLASH :: b) = splitSlash a ++ splitSlash b := by
  induction a with
  | nil => simp [splitSlash]
  | cons c cs ih =>
    simp only [List.cons_append, splitSlash]
    split
    · simp [ih]
    · rw [ih, consHead_append _ _ _ (splitSlash_ne_nil cs)]

theorem splitSlash_noslash (s : Bytes) (h : SLASH ∉ s) : splitSlash s = [s] := by
  induction s with
  | nil => simp [splitSlash]
  | cons c cs ih =>
    have hc : c ≠ SLASH := fun e => h (by simp [e])
    have hcs : SLASH ∉ cs := fun e => h (by simp [e])
    simp [splitSlash, hc, ih hcs, consHead]

theorem mem_splitSlash_noslash (p s : Bytes) (h : s ∈ splitSlash p) : SLASH ∉ s := by
  induction p generalizing s with
  | nil => simp [splitSlash] at h; subst h; simp
  | cons c cs ih =>
    simp only [splitSlash] at h
    split at h
    · simp at h
      rcases h with h | h
      · subst h; simp
      · exact ih s h
    · rename_i hc
      cases hsp : splitSlash cs with
      | nil => exact absurd hsp (splitSlash_ne_nil cs)
      | cons x xs =>
        rw [hsp] at h
        simp [consHead] at h
        rcases h with h | h
        · subst h
          have : SLASH ∉ x := ih x (by simp [hsp])
          intro hm
          simp at hm
          rcases hm with hm | hm
          · exact hc hm.symm
          · exact this hm
        · exact ih s (by simp [hsp, h])

/-! ### comps -/

theorem comps_append (a b : Bytes) : comps (a ++ SLASH :: b) = comps a ++ comps b := by
  simp [comps, splitSlash_append]

theorem comps_nil : comps [] = [] := by simp [comps, splitSlash]

theorem comps_slash_cons (p : Bytes) : comps (SLASH :: p) = comps p := by
  simp [comps, splitSlash]

theorem comps_noslash (s : Bytes) (h : SLASH ∉ s) (hne : s ≠ []) : comps s = [s] := by
  simp [comps, splitSlash_noslash s h, hne]

theorem mem_comps (p s : Bytes) (h : s ∈ comps p) : SLASH ∉ s ∧ s ≠ [] := by
  simp only [comps, List.mem_filter] at h
  refine ⟨mem_splitSlash_noslash p s h.1, ?_⟩
  intro e; subst e; simp at h

theorem comps_append_trail (a : Bytes) : comps (a ++ [SLASH]) = comps a := by
  have := comps_append a []
  simpa [comps_nil] using this

/-- a name: non-empty and free of `/` -/
def IsName (n : Bytes) : Prop := n ≠ [] ∧ SLASH ∉ n

theorem comps_joinSlash (ns : List Bytes) (h : ∀ n ∈ ns, IsName n) : comps (joinSlash ns) = ns := by
  induction ns with
  | nil => simp [joinSlash, comps_nil]
  | cons a rest ih =>
    cases rest with
    | nil =>
      have := h a (by simp)
      simp [joinSlash, comps_noslash a this.2 this.1]
    | cons b rest' =>
      have ha := h a (by simp)
      have : joinSlash (a :: b :: rest') = a ++ SLASH :: joinSlash (b :: rest') := by simp [joinSlash]
      rw [this, comps_append, comps_noslash a ha.2 ha.1, ih (fun n hn => h n (by simp [hn]))]
      simp

theorem comps_renderAbs (ns : List Bytes) (h : ∀ n ∈ ns, IsName n) : comps (SLASH :: joinSlash ns) = ns := by
  rw [comps_slash_cons, comps_joinSlash ns h]

/-! ### the lexical filter (A1) -/

def prependHead (acc : Bytes) : List Bytes → List Bytes
  | [] => [acc]
  | s :: ss => (acc ++ s) :: ss

theorem prependHead_nil (l : List Bytes) (h : l ≠ []) : prependHead [] l = l := by
  cases l with
  | nil => exact absurd rfl h
  | cons x xs => simp [prependHead]

theorem prependHead_consHead (acc : Bytes) (c : UInt8) (l : List Bytes) :
    prependHead acc (consHead c l) = prependHead (acc ++ [c]) l := by
  cases l <;> simp [prependHead, consHead]

theorem sep_eq : Gen.Assets.segmentSeparator = SLASH := by decide

/-- the segment loop looks at exactly the `/`-separated segments -/
theorem segLoop_eq (acc p : Bytes) :
    segLoop acc p = (prependHead acc (splitSlash p)).any (fun s => Gen.Assets.forbiddenSegments.contains s) := by
  induction p generalizing acc with
  | nil => simp [segLoop, splitSlash, prependHead]
  | cons c cs ih =>
    simp only [segLoop, splitSlash, sep_eq]
    split
    · rw [ih, prependHead_nil _ (splitSlash_ne_nil cs)]
      simp [prependHead]
    · rw [ih, prependHead_consHead]

theorem lexicallyRejected_iff (p : Bytes) :
    lexicallyRejected p = false ↔
      (p.head? ≠ some 47 ∧ (0 : UInt8) ∉ p ∧ (92 : UInt8) ∉ p ∧ dotdot ∉ splitSlash p) := by
  cases p with
  | nil => simp [lexicallyRejected, Gen.Assets.emptyRejected, splitSlash, dotdot]
  | cons c cs =>
    simp only [lexicallyRejected, segLoop_eq, prependHead_nil _ (splitSlash_ne_nil (c :: cs))]
    simp only [Gen.Assets.forbiddenLeading, Gen.Assets.forbiddenAnywhere, Gen.Assets.forbiddenSegments, Bool.or_eq_false_iff]
    constructor
    · rintro ⟨⟨h1, h2⟩, h3⟩
      refine ⟨?_, ?_, ?_, ?_⟩
      · simpa using h1
      · intro hm
        have := List.any_eq_false.mp h2 0 hm
        simp at this
      · intro hm
        have := List.any_eq_false.mp h2 92 hm
        simp at this
      · intro hm
        have := List.any_eq_false.mp h3 dotdot hm
        simp [dotdot] at this
    · rintro ⟨h1, h2, h3, h4⟩
      refine ⟨⟨?_, ?_⟩, ?_⟩
      · simpa using h1
      · apply List.any_eq_false.mpr
        intro x hx
        simp
        constructor
        · intro e; subst e; exact h2 hx
        · intro e; subst e; exact h3 hx
      · apply List.any_eq_false.mpr
        intro x hx
        simp
        intro e
        apply h4
        have : x = dotdot := by simp [dotdot, e]
        exact this ▸ hx

/-! ### `splitSlash` is THE decomposition into `/`-separated segments -/

theorem splitSlash_joinSlash (ns : List Bytes) (hne : ns ≠ []) (h : ∀ n ∈ ns, SLASH ∉ n) :
    splitSlash (joinSlash ns) = ns := by
  induction ns with
  | nil => exact absurd rfl hne
  | cons a rest ih =>
    cases rest with
    | nil => simp [joinSlash, splitSlash_noslash a (h a (by simp))]
    | cons b rest' =>
      have : joinSlash (a :: b :: rest') = a ++ SLASH :: joinSlash (b :: rest') := by simp [joinSlash]
      rw [this, splitSlash_append, splitSlash_noslash a (h a (by simp)),
        ih (by simp) (fun n hn => h n (by simp [hn]))]
      simp

theorem joinSlash_cons (a : Bytes) (l : List Bytes) (h : l ≠ []) : joinSlash (a :: l) = a ++ SLASH :: joinSlash l := by
  cases l with
  | nil => exact absurd rfl h
  | cons b r => simp [joinSlash]

theorem joinSlash_consHead (c : UInt8) (l : List Bytes) (h : l ≠ []) :
    joinSlash (consHead c l) = c :: joinSlash l := by
  cases l with
  | nil => exact absurd rfl h
  | cons x xs =>
    cases xs with
    | nil => simp [consHead, joinSlash]
    | cons y ys => simp [consHead, joinSlash]

theorem joinSlash_splitSlash (p : Bytes) : joinSlash (splitSlash p) = p := by
  induction p with
  | nil => simp [splitSlash, joinSlash]
  | cons c cs ih =>
    simp only [splitSlash]
    split
    · rename_i hc
      rw [joinSlash_cons _ _ (splitSlash_ne_nil cs), ih]; simp [hc]
    · rw [joinSlash_consHead _ _ (splitSlash_ne_nil cs), ih]

/-! ### canonical absolute paths, `elems`, containment (A2) -/

/-- an ordinary file name: non-empty, no `/`, not `.` and not `..` -/
def Plain (n : Bytes) : Prop := IsName n ∧ n ≠ dot ∧ n ≠ dotdot

/-- the canonical absolute path with the given names -/
def renderAbs (ns : List Bytes) : Bytes := SLASH :: joinSlash ns

theorem getLast?_cons_ne {α} (x : α) (l : List α) (h : l ≠ []) : (x :: l).getLast? = l.getLast? := by
  cases l with
  | nil => exact absurd rfl h
  | cons y ys => simp [List.getLast?_cons_cons]

theorem getLast?_append_cons_ne {α} (a : List α) (x : α) (l : List α) (h : l ≠ []) :
    (a ++ x :: l).getLast? = l.getLast? := by
  induction a with
  | nil => simpa using getLast?_cons_ne x l h
  | cons y ys ih =>
    rw [List.cons_append, getLast?_cons_ne _ _ (by simp), ih]

theorem joinSlash_getLast (ns : List Bytes) (h : ∀ n ∈ ns, IsName n) : (joinSlash ns).getLast? ≠ some SLASH := by
  induction ns with
  | nil => simp [joinSlash]
  | cons a rest ih =>
    cases rest with
    | nil =>
      have ha := h a (by simp)
      simp only [joinSlash]
      intro hl
      have : SLASH ∈ a := List.mem_of_getLast? hl
      exact ha.2 this
    | cons b rest' =>
      have : joinSlash (a :: b :: rest') = a ++ SLASH :: joinSlash (b :: rest') := by simp [joinSlash]
      rw [this]
      have ih' := ih (fun n hn => h n (by simp [hn]))
      have hne : joinSlash (b :: rest') ≠ [] := by
        have hb := h b (by simp)
        cases rest' with
        | nil => simpa [joinSlash] using hb.1
        | cons c r => simp [joinSlash]
      rw [getLast?_append_cons_ne _ _ _ hne]
      exact ih'

theorem trailSlash_renderAbs (ns : List Bytes) (h : ∀ n ∈ ns, IsName n) (hne : ns ≠ []) : trailSlash (renderAbs ns) = false := by
  unfold trailSlash renderAbs
  have hj : joinSlash ns ≠ [] := by
    cases ns with
    | nil => exact absurd rfl hne
    | cons a r =>
      have ha := h a (by simp)
      cases r with
      | nil => simpa [joinSlash] using ha.1
      | cons b r' => simp [joinSlash]
  have := joinSlash_getLast ns h
  cases hjs : joinSlash ns with
  | nil => exact absurd hjs hj
  | cons x xs =>
    rw [hjs] at this
    simp only [List.getLast?_cons_cons]
    simpa using this

theorem isAbs_renderAbs (ns : List Bytes) : isAbs (renderAbs ns) = true := by simp [isAbs, renderAbs]

theorem elems_renderAbs (ns : List Bytes) (h : ∀ n ∈ ns, IsName n) : elems (renderAbs ns) = [SLASH] :: ns := by
  unfold elems
  rw [isAbs_renderAbs]
  have hc : comps (renderAbs ns) = ns := comps_renderAbs ns h
  rw [hc]
  cases ns with
  | nil => simp
  | cons a r => simp [trailSlash_renderAbs (a :: r) h (by simp)]

theorem mismatch_spec (a b : List Bytes) :
    ∃ c, a = c ++ (mismatch a b).1 ∧ b = c ++ (mismatch a b).2 ∧
      ((mismatch a b).1 = [] ∨ (mismatch a b).2 = [] ∨ (mismatch a b).1.head? ≠ (mismatch a b).2.head?) := by
  induction a generalizing b with
  | nil => exact ⟨[], by simp [mismatch]⟩
  | cons x xs ih =>
    cases b with
    | nil => exact ⟨[], by simp [mismatch]⟩
    | cons y ys =>
      simp only [mismatch]
      split
      · rename_i hxy
        obtain ⟨c, h1, h2, h3⟩ := ih ys
        exact ⟨x :: c, by simp [← h1], by simp [hxy, ← h2], h3⟩
      · rename_i hxy
        exact ⟨[], by simp, by simp, Or.inr (Or.inr (by simpa using hxy))⟩

theorem relCount_plain_aux (bs : List Bytes) (n : Int) (h : ∀ e ∈ bs, Plain e) :
    bs.foldl (fun n e => if e = dotdot then n - 1 else if e ≠ [] ∧ e ≠ dot then n + 1 else n) n = n + bs.length := by
  induction bs generalizing n with
  | nil => simp
  | cons e es ih =>
    have he := h e (by simp)
    simp only [List.foldl_cons, he.2.2, he.1.1, he.2.1, ↓reduceIte, ne_eq, not_false_eq_true, and_self]
    rw [ih _ (fun x hx => h x (by simp [hx]))]
    simp; omega

theorem relCount_plain (bs : List Bytes) (h : ∀ e ∈ bs, Plain e) : relCount bs = bs.length := by
  simpa [relCount] using relCount_plain_aux bs 0 h

theorem containedLit_eq : Gen.Assets.containedLit = dotdot := by decide
theorem containedCmp_eq : Gen.Assets.containedCmp = "!=" := by decide

/-- **A2 core.** On canonical absolute paths the containment test is exactly "the names of `base` are a prefix of the names of `target`"
(equality included: a target equal to the base yields `.` which is accepted; it is a directory and is refused later). -/
theorem isContained_canonical (bn tn : List Bytes) (hb : ∀ n ∈ bn, Plain n) (ht : ∀ n ∈ tn, Plain n) :
    isContained (renderAbs bn) (renderAbs tn) = true ↔ bn <+: tn := by
  unfold isContained lexRelFirst
  rw [isAbs_renderAbs, isAbs_renderAbs, elems_renderAbs bn (fun n hn => (hb n hn).1), elems_renderAbs tn (fun n hn => (ht n hn).1)]
  simp only [bne_self_eq_false, Bool.false_eq_true, ↓reduceIte, mismatch, containedCmp_eq, containedLit_eq]
  obtain ⟨c, h1, h2, h3⟩ := mismatch_spec tn bn
  generalize hm : mismatch tn bn = m at h1 h2 h3
  obtain ⟨a', b'⟩ := m
  simp only at h1 h2 h3
  cases b' with
  | nil =>
    have hpre : bn <+: tn := by rw [h1, h2]; simp
    cases a' with
    | nil => simp [hpre, dot, dotdot]
    | cons x xs =>
      have hx : Plain x := ht x (by rw [h1]; simp)
      simp [relCount, hpre, hx.1.1, hx.2.2]
  | cons y ys =>
    have hb' : ∀ e ∈ y :: ys, Plain e := fun e he => hb e (by rw [h2]; simp [he])
    have hcount := relCount_plain (y :: ys) hb'
    have hnot : ¬ bn <+: tn := by
      rw [h1, h2]
      intro hp
      rw [List.prefix_append_right_inj] at hp
      rcases h3 with h3 | h3 | h3
      · subst h3; simp at hp
      · simp at h3
      · cases a' with
        | nil => simp at hp
        | cons x xs =>
          obtain ⟨t, ht⟩ := hp
          simp at ht
          exact h3 (by simp [ht.1])
    have hpos : relCount (y :: ys) > 0 := by rw [hcount]; simp
    have hne : ¬ relCount (y :: ys) = 0 := by omega
    cases a' <;> simp [hne, hpos, hnot]

end Iora.Assets
