import IoraModel.Model.KvLog
import IoraModel.Lemmas.KvMap
/-! Lemmas about the on-disk format of `Model/KvLog.lean`: codec round trip, torn tails, snapshots, per-key replay algebra. -/
namespace Iora.Kv
open Iora

/-! ## fixed-width integers -/

@[simp] theorem i64le_length (e : Int) : (i64le e).length = 8 := rfl

theorem i64_roundtrip (e : Int) (h1 : -9223372036854775808 ≤ e) (h2 : e < 9223372036854775808) :
    i64of (leNat (i64le e)) = e := by
  unfold i64le
  have hlt : (e % 18446744073709551616).toNat < 2 ^ 64 := by omega
  rw [leNat_le64 _ hlt]
  unfold i64of
  by_cases hn : 0 ≤ e
  · have : (e % 18446744073709551616).toNat = e.toNat := by omega
    rw [this]
    have : e.toNat < 9223372036854775808 := by omega
    simp only [this, ↓reduceIte]
    omega
  · have : ¬ (e % 18446744073709551616).toNat < 9223372036854775808 := by omega
    simp only [this, ↓reduceIte]
    omega

theorem plausible_range {l : Lim} (hl : l.OK) {e : Int} (h : plausible l e = true) :
    0 < e ∧ e ≤ l.maxPlausible ∧ e < 9223372036854775808 ∧ e ≠ sentinel := by
  unfold plausible at h
  simp only [Bool.and_eq_true, bne_iff_ne, ne_eq, decide_eq_true_eq] at h
  have := hl.plaus
  refine ⟨h.1.2, h.2, by omega, h.1.1⟩

theorem sentinel_roundtrip : i64of (leNat (i64le sentinel)) = sentinel :=
  i64_roundtrip sentinel (by unfold sentinel; omega) (by unfold sentinel; omega)

/-- splitting a fixed-width field off the front -/
theorem take_append_len {α : Type} (a b : List α) (n : Nat) (h : a.length = n) : (a ++ b).take n = a := by
  rw [List.take_left' h]
theorem drop_append_len {α : Type} (a b : List α) (n : Nat) (h : a.length = n) : (a ++ b).drop n = b := by
  rw [List.drop_left' h]

end Iora.Kv

namespace Iora.Kv
open Iora

/-! ## one record: `parseBuf (body ++ crc) = some r` -/

theorem leNat_le32' (n : Nat) (h : n < 2 ^ 32) : leNat (le32 n) = n := leNat_le32 n h

theorem WF_key {l : Lim} {r : Rec} (h : r.WF l) : 1 ≤ r.key.length ∧ r.key.length ≤ l.maxKey := by
  cases r <;> simp only [Rec.WF, Rec.key] at * <;> omega

theorem parseS_ok (l : Lim) (hl : l.OK) (k : Key) (v c : Bytes) (hv : v.length ≤ l.maxVal) (hc : c.length = 4) :
    parseS l k (le32 v.length ++ (v ++ c)) = some (.set k v) := by
  unfold parseS
  have h32 : v.length < 2 ^ 32 := by have := hl.val; have := hl.max; have := hl.u32; omega
  have h1 : ¬ (le32 v.length ++ (v ++ c)).length < 4 := by simp
  simp only [h1, ↓reduceIte]
  rw [take_append_len _ _ 4 rfl, drop_append_len _ _ 4 rfl, leNat_le32' _ h32]
  have h2 : ¬ (v.length > l.ldVal ∨ (v ++ c).length < v.length + 4) := by
    have := hl.val; simp [hc]; omega
  simp only [h2, ↓reduceIte]
  rw [take_append_len _ _ _ rfl]

theorem parseE_ok (l : Lim) (hl : l.OK) (k : Key) (v c : Bytes) (e : Int) (hv : v.length ≤ l.maxVal) (hc : c.length = 4)
    (he : plausible l e = true) :
    parseE l k (i64le e ++ (le32 v.length ++ (v ++ c))) = some (.setE k v e) := by
  unfold parseE
  have h32 : v.length < 2 ^ 32 := by have := hl.val; have := hl.max; have := hl.u32; omega
  have h1 : ¬ (i64le e ++ (le32 v.length ++ (v ++ c))).length < 12 := by simp; omega
  simp only [h1, ↓reduceIte]
  rw [take_append_len _ _ 8 rfl, drop_append_len _ _ 8 rfl, take_append_len _ _ 4 rfl, drop_append_len _ _ 4 rfl,
    leNat_le32' _ h32]
  obtain ⟨p1, p2, p3, p4⟩ := plausible_range hl he
  rw [i64_roundtrip e (by omega) p3]
  have h2 : ¬ (v.length > l.ldVal ∨ (v ++ c).length < v.length + 4) := by
    have := hl.val; simp [hc]; omega
  simp only [h2, ↓reduceIte, he, Bool.not_true, Bool.false_eq_true]
  rw [take_append_len _ _ _ rfl]

theorem parseX_ok (k : Key) (c : Bytes) (e : Int) (hc : c.length = 4)
    (h1 : -9223372036854775808 ≤ e) (h2 : e < 9223372036854775808) :
    parseX k (i64le e ++ c) = some (.exp k e) := by
  unfold parseX
  have h0 : ¬ (i64le e ++ c).length < 12 := by simp [hc]
  simp only [h0, ↓reduceIte]
  rw [take_append_len _ _ 8 rfl, i64_roundtrip e h1 h2]

theorem exp_range {l : Lim} (hl : l.OK) {e : Int} (h : e = sentinel ∨ plausible l e = true) :
    -9223372036854775808 ≤ e ∧ e < 9223372036854775808 := by
  rcases h with h | h
  · subst h; unfold sentinel; omega
  · obtain ⟨p1, p2, p3, p4⟩ := plausible_range hl h; omega

/-- the header part of `parseFields`: op letter and key -/
theorem parseFields_hdr (l : Lim) (hl : l.OK) (op : UInt8) (k : Key) (rest : Bytes)
    (hop : op = opS ∨ op = opD ∨ op = opE ∨ op = opX) (hk1 : 1 ≤ k.length) (hk2 : k.length ≤ l.maxKey) :
    parseFields l (op :: (le32 k.length ++ (k ++ rest))) =
      (if op = opS then parseS l k rest else if op = opE then parseE l k rest
       else if op = opX then parseX k rest else some (.del k)) := by
  unfold parseFields
  have h32 : k.length < 2 ^ 32 := by have := hl.key; have := hl.max; have := hl.u32; omega
  have h0 : ¬ (op ≠ opS ∧ op ≠ opD ∧ op ≠ opE ∧ op ≠ opX) := by
    rcases hop with h | h | h | h <;> simp [h]
  have h1 : ¬ (le32 k.length ++ (k ++ rest)).length < 4 := by simp
  simp only [h0, h1, ↓reduceIte]
  rw [take_append_len _ _ 4 rfl, drop_append_len _ _ 4 rfl, leNat_le32' _ h32]
  have h2 : ¬ (k.length = 0 ∨ k.length > l.ldKey ∨ (k ++ rest).length < k.length) := by
    have := hl.key; simp only [List.length_append]; omega
  simp only [h2, ↓reduceIte]
  rw [take_append_len _ _ _ rfl, drop_append_len _ _ _ rfl]

theorem parseFields_ok (l : Lim) (hl : l.OK) (r : Rec) (h : r.WF l) (c : Bytes) (hc : c.length = 4) :
    parseFields l (r.body ++ c) = some r := by
  cases r with
  | set k v =>
    obtain ⟨h1, h2, h3⟩ := h
    simp only [Rec.body, List.cons_append, List.append_assoc]
    rw [parseFields_hdr l hl opS k _ (.inl rfl) h1 h2]
    simp only [↓reduceIte]
    exact parseS_ok l hl k v c h3 hc
  | setE k v e =>
    obtain ⟨h1, h2, h3, h4⟩ := h
    simp only [Rec.body, List.cons_append, List.append_assoc]
    rw [parseFields_hdr l hl opE k _ (.inr (.inr (.inl rfl))) h1 h2]
    have : opE ≠ opS := by decide
    simp only [this, ↓reduceIte]
    exact parseE_ok l hl k v c e h3 hc h4
  | exp k e =>
    obtain ⟨h1, h2, h3⟩ := h
    simp only [Rec.body, List.cons_append, List.append_assoc]
    rw [parseFields_hdr l hl opX k _ (.inr (.inr (.inr rfl))) h1 h2]
    have a : opX ≠ opS := by decide
    have b : opX ≠ opE := by decide
    simp only [a, b, ↓reduceIte]
    obtain ⟨r1, r2⟩ := exp_range hl h3
    exact parseX_ok k c e hc r1 r2
  | del k =>
    obtain ⟨h1, h2⟩ := h
    simp only [Rec.body, List.cons_append, List.append_assoc]
    have := parseFields_hdr l hl opD k c (.inr (.inl rfl)) h1 h2
    have a : opD ≠ opS := by decide
    have b : opD ≠ opE := by decide
    have d : opD ≠ opX := by decide
    simp only [a, b, d, ↓reduceIte] at this
    exact this

theorem body_length_ge (r : Rec) : 5 + r.key.length ≤ r.body.length := by
  cases r <;> simp [Rec.body, Rec.key] <;> omega

theorem body_length_le (l : Lim) (r : Rec) (h : r.WF l) : r.body.length ≤ 1 + 4 + l.maxKey + 8 + 4 + l.maxVal := by
  cases r <;> simp only [Rec.WF] at h <;> simp [Rec.body] <;> omega

/-- a record written by `writeLogEntry` is read back by the replay loop, whatever `crc` is -/
theorem parseBuf_ok (l : Lim) (hl : l.OK) (crc : Bytes → UInt32) (r : Rec) (h : r.WF l) :
    parseBuf l crc (r.body ++ le32 (crc r.body).toNat) = some r := by
  unfold parseBuf
  have hlen : (r.body ++ le32 (crc r.body).toNat).length = r.body.length + 4 := by simp
  have hk := WF_key h
  have hb := body_length_ge r
  simp only [hlen]
  have h1 : ¬ r.body.length + 4 < 10 := by omega
  simp only [h1, ↓reduceIte, Nat.add_sub_cancel]
  rw [take_append_len _ _ _ rfl, drop_append_len _ _ _ rfl]
  have hcrc : leNat (le32 (crc r.body).toNat) = (crc r.body).toNat :=
    leNat_le32' _ (crc r.body).toNat_lt
  simp only [hcrc, ne_eq, not_true_eq_false, ↓reduceIte]
  exact parseFields_ok l hl r h _ rfl

end Iora.Kv

namespace Iora.Kv
open Iora

/-! ## the replay loop on written records (D1) and on a torn tail (D2) -/

theorem encode_length (crc : Bytes → UInt32) (r : Rec) : (encode crc r).length = 4 + (r.body.length + 4) := by
  simp [encode]

theorem replayLoop_encode (l : Lim) (hl : l.OK) (crc : Bytes → UInt32) (r : Rec) (h : r.WF l) (rest : Bytes)
    (st : LState) (off : Nat) :
    replayLoop l crc (encode crc r ++ rest) st off
      = replayLoop l crc rest (applyRec l st r) (off + (encode crc r).length) := by
  rw [replayLoop]
  have hk := WF_key h
  have hb := body_length_ge r
  have hb2 := body_length_le l r h
  have hmax := hl.max
  have hu := hl.u32
  have hmin := hl.min
  have h32 : r.body.length + 4 < 2 ^ 32 := by omega
  have hlen : ¬ (encode crc r ++ rest).length < 4 := by simp [encode_length]; omega
  simp only [hlen, ↓reduceDIte]
  have htake : (encode crc r ++ rest).take 4 = le32 (r.body.length + 4) := by
    simp only [encode, List.append_assoc]; exact take_append_len _ _ 4 rfl
  have hdrop : (encode crc r ++ rest).drop 4 = (r.body ++ le32 (crc r.body).toNat) ++ rest := by
    simp only [encode, List.append_assoc]; exact drop_append_len _ _ 4 rfl
  rw [htake, hdrop, leNat_le32' _ h32]
  have h1 : ¬ (r.body.length + 4 < l.ldMin ∨ r.body.length + 4 > l.ldMax) := by omega
  have h2 : ¬ ((r.body ++ le32 (crc r.body).toNat) ++ rest).length < r.body.length + 4 := by
    simp only [List.length_append, le32_length]; omega
  simp only [h1, h2, ↓reduceIte]
  rw [take_append_len _ _ _ (by simp), drop_append_len _ _ _ (by simp), parseBuf_ok l hl crc r h]
  simp only [encode_length]
  congr 1
  omega

/-- **D1** in continuation form: a sequence of written records is replayed record by record, whatever follows -/
theorem replayLoop_records (l : Lim) (hl : l.OK) (crc : Bytes → UInt32) (rs : List Rec) (h : ∀ r ∈ rs, r.WF l) :
    ∀ (rest : Bytes) (st : LState) (off : Nat),
      replayLoop l crc (rs.flatMap (encode crc) ++ rest) st off
        = replayLoop l crc rest (rs.foldl (applyRec l) st) (off + (rs.flatMap (encode crc)).length) := by
  induction rs with
  | nil => intro rest st off; simp
  | cons r rs ih =>
    intro rest st off
    simp only [List.flatMap_cons, List.append_assoc, List.foldl_cons]
    rw [replayLoop_encode l hl crc r (h r (by simp)), ih (fun x hx => h x (by simp [hx]))]
    simp only [List.length_append]
    congr 1
    omega

theorem replayLoop_nil (l : Lim) (crc : Bytes → UInt32) (st : LState) (off : Nat) :
    replayLoop l crc [] st off = (st, off) := by
  rw [replayLoop]; simp

/-- **D2**: a strict prefix of one more written record stops the loop — by the length prefix alone, whatever `crc` is -/
theorem replayLoop_torn (l : Lim) (hl : l.OK) (crc : Bytes → UInt32) (r : Rec) (h : r.WF l) (p q : Bytes)
    (hpq : p ++ q = encode crc r) (hq : q ≠ []) (st : LState) (off : Nat) :
    replayLoop l crc p st off = (st, off) := by
  rw [replayLoop]
  by_cases h4 : p.length < 4
  · simp [h4]
  · simp only [h4, ↓reduceDIte]
    have hb := body_length_ge r
    have hk := WF_key h
    have hb2 := body_length_le l r h
    have hmax := hl.max
    have hu := hl.u32
    have hmin := hl.min
    have h32 : r.body.length + 4 < 2 ^ 32 := by omega
    have hlen : p.length + q.length = 4 + (r.body.length + 4) := by
      rw [← encode_length crc r, ← hpq]; simp
    have hqpos : 0 < q.length := by
      cases q with
      | nil => exact absurd rfl hq
      | cons a b => simp
    have htake : p.take 4 = le32 (r.body.length + 4) := by
      have : (p ++ q).take 4 = p.take 4 := by rw [List.take_append_of_le_length (by omega)]
      rw [← this, hpq]
      simp only [encode]; exact take_append_len _ _ 4 rfl
    rw [htake, leNat_le32' _ h32]
    have h1 : ¬ (r.body.length + 4 < l.ldMin ∨ r.body.length + 4 > l.ldMax) := by omega
    have h2 : (p.drop 4).length < r.body.length + 4 := by simp only [List.length_drop]; omega
    simp only [h1, h2, ↓reduceIte]

/-- D1 + D2 together: complete records followed by a torn one -/
theorem replayLoop_records_torn (l : Lim) (hl : l.OK) (crc : Bytes → UInt32) (rs : List Rec) (h : ∀ r ∈ rs, r.WF l)
    (r : Rec) (hr : r.WF l) (p q : Bytes) (hpq : p ++ q = encode crc r) (hq : q ≠ []) (st : LState) (off : Nat) :
    replayLoop l crc (rs.flatMap (encode crc) ++ p) st off
      = (rs.foldl (applyRec l) st, off + (rs.flatMap (encode crc)).length) := by
  rw [replayLoop_records l hl crc rs h, replayLoop_torn l hl crc r hr p q hpq hq]

theorem replayLoop_records_all (l : Lim) (hl : l.OK) (crc : Bytes → UInt32) (rs : List Rec) (h : ∀ r ∈ rs, r.WF l)
    (st : LState) (off : Nat) :
    replayLoop l crc (rs.flatMap (encode crc)) st off
      = (rs.foldl (applyRec l) st, off + (rs.flatMap (encode crc)).length) := by
  have := replayLoop_records l hl crc rs h [] st off
  rw [List.append_nil] at this
  rw [this, replayLoop_nil]

end Iora.Kv

namespace Iora.Kv
open Iora

/-! ## snapshots: `loadSnap (encodeSnap ents) = ok (snapState ents)` -/

/-- one snapshot entry as `load` applies it -/
def snapApply (st : LState) (x : Key × Val × Option Int) : LState :=
  match x.2.2 with
  | none => { st with kv := st.kv.put x.1 x.2.1 }
  | some e => { kv := st.kv.put x.1 x.2.1, exp := st.exp.put x.1 e }

def snapState (ents : List (Key × Val × Option Int)) : LState := ents.foldl snapApply {}

/-- what `compactLocked` writes: valid keys and values, plausible expiries -/
def EntWF (l : Lim) (x : Key × Val × Option Int) : Prop :=
  1 ≤ x.1.length ∧ x.1.length ≤ l.maxKey ∧ x.2.1.length ≤ l.maxVal ∧ ∀ e, x.2.2 = some e → plausible l e = true

theorem takeN_append_left (a r : Bytes) (n : Nat) (h : a.length = n) : takeN n (a ++ r) = some (a, r) := takeN_left a r h

theorem snapEntries_ok (l : Lim) (hl : l.OK) (ents : List (Key × Val × Option Int)) (h : ∀ x ∈ ents, EntWF l x) :
    ∀ (rest : Bytes) (st : LState),
      snapEntries l 2 ents.length (ents.flatMap snapEntry ++ rest) st = .ok (ents.foldl snapApply st) := by
  induction ents with
  | nil => intro rest st; rfl
  | cons x r ih =>
    intro rest st
    obtain ⟨k, v, eo⟩ := x
    obtain ⟨h1, h2, h3, h4⟩ := h (k, v, eo) (by simp)
    simp only at h1 h2 h3 h4
    have hk32 : k.length < 2 ^ 32 := by have := hl.key; have := hl.max; have := hl.u32; omega
    have hv32 : v.length < 2 ^ 32 := by have := hl.val; have := hl.max; have := hl.u32; omega
    simp only [List.length_cons, List.flatMap_cons, snapEntry, List.append_assoc, snapEntries, List.foldl_cons]
    rw [takeN_append_left _ _ 4 rfl]
    simp only [leNat_le32' _ hk32]
    have c1 : ¬ (k.length = 0 ∨ k.length > l.ldKey) := by have := hl.key; omega
    simp only [c1, ↓reduceIte]
    rw [takeN_append_left _ _ _ rfl]
    simp only [↓reduceIte]
    rw [takeN_append_left _ _ 8 rfl]
    simp only [Option.map_some]
    rw [takeN_append_left _ _ 4 rfl]
    simp only [leNat_le32' _ hv32]
    have c2 : ¬ v.length > l.ldVal := by have := hl.val; omega
    simp only [c2, ↓reduceIte]
    rw [takeN_append_left _ _ _ rfl]
    simp only
    cases eo with
    | none =>
      simp only [Option.getD_none, sentinel_roundtrip, ↓reduceIte]
      exact ih (fun y hy => h y (by simp [hy])) rest _
    | some e =>
      have hp := h4 e rfl
      obtain ⟨p1, p2, p3, p4⟩ := plausible_range hl hp
      simp only [Option.getD_some]
      rw [i64_roundtrip e (by omega) p3]
      simp only [p4, ↓reduceIte, hp]
      exact ih (fun y hy => h y (by simp [hy])) rest _

/-- every entry `compactLocked` writes takes at least 17 bytes (keyLen:4, a non-empty key, expiry:8, valLen:4) -/
theorem snapEntries_length (l : Lim) (ents : List (Key × Val × Option Int)) (h : ∀ x ∈ ents, EntWF l x) :
    17 * ents.length ≤ (ents.flatMap snapEntry).length := by
  induction ents with
  | nil => simp
  | cons x r ih =>
    have h1 := (h x (by simp)).1
    have := ih (fun y hy => h y (by simp [hy]))
    simp only [List.flatMap_cons, List.length_append, List.length_cons, snapEntry, le32_length, i64le_length]
    omega

theorem loadSnap_ok (l : Lim) (hl : l.OK) (ents : List (Key × Val × Option Int)) (h : ∀ x ∈ ents, EntWF l x)
    (hc : ents.length ≤ l.snapCountMax) : loadSnap l (encodeSnap l ents) = .ok (snapState ents) := by
  unfold loadSnap encodeSnap
  have hm := hl.magic
  have hcount : ents.length < 2 ^ 32 := by have := hl.count; omega
  rw [takeN_append_left _ _ 4 rfl]
  simp only [leNat_le32' _ hm, ne_eq, not_true_eq_false, ↓reduceIte]
  rw [takeN_append_left _ _ 4 rfl]
  have h2 : leNat (le32 2) = 2 := leNat_le32' 2 (by omega)
  simp only [h2]
  have c0 : ¬ (¬ (2 : Nat) = 1 ∧ ¬ True) := by simp
  simp only [c0, ↓reduceIte]
  rw [takeN_append_left _ _ 4 rfl]
  simp only [leNat_le32' _ hcount]
  have c1 : ¬ ents.length > (ents.flatMap snapEntry).length / l.snapMinEntry := by
    have h17 := snapEntries_length l ents h
    have hp := hl.minEntryPos
    have hm := hl.minEntry
    have : ents.length * l.snapMinEntry ≤ (ents.flatMap snapEntry).length :=
      Nat.le_trans (Nat.mul_le_mul_left _ hm) (by omega)
    have := (Nat.le_div_iff_mul_le hp).2 this
    omega
  simp only [c1, ↓reduceIte]
  have := snapEntries_ok l hl ents h [] {}
  rw [List.append_nil] at this
  exact this

end Iora.Kv

namespace Iora.Kv
open Iora

/-! ## replay, one key at a time -/

/-- what one record does to the entry of its own key -/
def applyKey (l : Lim) (r : Rec) (x : Option (Val × Option Int)) : Option (Val × Option Int) :=
  match r with
  | .set _ v => some (v, none)
  | .setE _ v e => some (v, some e)
  | .exp _ e =>
    match x with
    | none => none
    | some (v, old) =>
      if e = sentinel then some (v, none) else if plausible l e then some (v, some e) else some (v, old)
  | .del _ => none

theorem look_applyRec (l : Lim) (st : LState) (r : Rec) (k : Key) :
    (applyRec l st r).look k = if r.key = k then applyKey l r (st.look k) else st.look k := by
  cases r with
  | set a v =>
    simp only [applyRec, LState.look, Rec.key, applyKey, Map.get?_put, Map.get?_erase]
    by_cases h : a = k <;> simp [h]
  | setE a v e =>
    simp only [applyRec, LState.look, Rec.key, applyKey, Map.get?_put]
    by_cases h : a = k <;> simp [h]
  | del a =>
    simp only [applyRec, LState.look, Rec.key, applyKey, Map.get?_erase]
    by_cases h : a = k <;> simp [h]
  | exp a e =>
    simp only [applyRec, Rec.key, applyKey]
    cases hh : st.kv.has a with
    | false =>
      simp only [Bool.not_false, ↓reduceIte]
      by_cases h : a = k
      · subst h
        have : st.kv.get? a = none := by
          unfold Map.has at hh; cases hg : st.kv.get? a with
          | none => rfl
          | some v => rw [hg] at hh; simp at hh
        simp [LState.look, this]
      · simp [h]
    | true =>
      obtain ⟨v, hv⟩ := (Map.has_iff st.kv a).mp hh
      simp only [Bool.not_true, Bool.false_eq_true, ↓reduceIte]
      by_cases h : a = k
      · subst h
        simp only [↓reduceIte]
        by_cases hs : e = sentinel
        · simp [hs, LState.look, hv, Map.get?_erase]
        · simp only [hs, ↓reduceIte]
          cases hp : plausible l e <;> simp [LState.look, hv, Map.get?_put]
      · simp only [h, ↓reduceIte]
        by_cases hs : e = sentinel
        · simp [hs, LState.look, Map.get?_erase, h]
        · simp only [hs, ↓reduceIte]
          cases hp : plausible l e <;> simp [LState.look, Map.get?_put, h]

/-- the records of one key, folded -/
def foldKey (l : Lim) (k : Key) (rs : List Rec) (x : Option (Val × Option Int)) : Option (Val × Option Int) :=
  rs.foldl (fun x r => if r.key = k then applyKey l r x else x) x

theorem look_foldl_applyRec (l : Lim) (rs : List Rec) (k : Key) :
    ∀ st : LState, (rs.foldl (applyRec l) st).look k = foldKey l k rs (st.look k) := by
  induction rs with
  | nil => intro st; rfl
  | cons r rs ih => intro st; simp only [List.foldl_cons, foldKey]; rw [ih, look_applyRec]; rfl

theorem foldKey_append (l : Lim) (k : Key) (a b : List Rec) (x : Option (Val × Option Int)) :
    foldKey l k (a ++ b) x = foldKey l k b (foldKey l k a x) := by
  simp [foldKey, List.foldl_append]

/-- a fold of written records acts on one key as a constant, as "replace the expiry", or as the identity -/
inductive KeyClass (F : Option (Val × Option Int) → Option (Val × Option Int)) : Prop
  | const (c : Option (Val × Option Int)) (h : ∀ x, F x = c)
  | expiry (E : Option Int) (h : ∀ x, F x = x.map (fun p => (p.1, E)))
  | ident (h : ∀ x, F x = x)

theorem foldKey_class (l : Lim) (k : Key) (rs : List Rec) (h : ∀ r ∈ rs, r.WF l) : KeyClass (foldKey l k rs) := by
  induction rs with
  | nil => exact .ident (fun x => rfl)
  | cons r rs ih =>
    have ih := ih (fun x hx => h x (by simp [hx]))
    have hr := h r (by simp)
    have hstep : ∀ x, foldKey l k (r :: rs) x = foldKey l k rs (if r.key = k then applyKey l r x else x) := fun x => rfl
    by_cases hk : r.key = k
    · simp only [hk, ↓reduceIte] at hstep
      -- classify the first record
      have hfirst : KeyClass (applyKey l r) := by
        cases r with
        | set a v => exact .const _ (fun x => rfl)
        | setE a v e => exact .const _ (fun x => rfl)
        | del a => exact .const _ (fun x => rfl)
        | exp a e =>
          obtain ⟨_, _, he⟩ := hr
          by_cases hs : e = sentinel
          · refine .expiry none (fun x => ?_)
            cases x with
            | none => rfl
            | some p => simp [applyKey, hs]
          · have hp : plausible l e = true := by rcases he with he | he; exact absurd he hs; exact he
            refine .expiry (some e) (fun x => ?_)
            cases x with
            | none => rfl
            | some p => simp [applyKey, hs, hp]
      cases ih with
      | const c hc => exact .const c (fun x => by rw [hstep, hc])
      | ident hi =>
        cases hfirst with
        | const c hc => exact .const c (fun x => by rw [hstep, hi, hc])
        | expiry E hE => exact .expiry E (fun x => by rw [hstep, hi, hE])
        | ident h0 => exact .ident (fun x => by rw [hstep, hi, h0])
      | expiry E hE =>
        cases hfirst with
        | const c hc => exact .const (c.map (fun p => (p.1, E))) (fun x => by rw [hstep, hE, hc])
        | expiry E' hE' =>
          refine .expiry E (fun x => ?_)
          rw [hstep, hE, hE']
          cases x <;> rfl
        | ident h0 => exact .expiry E (fun x => by rw [hstep, hE, h0])
    · simp only [hk, ↓reduceIte] at hstep
      cases ih with
      | const c hc => exact .const c (fun x => by rw [hstep, hc])
      | expiry E hE => exact .expiry E (fun x => by rw [hstep, hE])
      | ident hi => exact .ident (fun x => by rw [hstep, hi])

end Iora.Kv

namespace Iora.Kv
open Iora

/-! ## `goodEnd` counts every complete frame, whatever the frame holds -/

/-- the length of the longest prefix of `d` made of complete frames `[totalLen:4][totalLen bytes]` with an admissible
`totalLen` — defined without looking at CRCs, op letters, keys or the replayed state -/
def framesLen (l : Lim) (d : Bytes) : Nat :=
  if h4 : d.length < 4 then 0
  else
    let total := leNat (d.take 4)
    if total < l.ldMin ∨ total > l.ldMax then 0
    else if (d.drop 4).length < total then 0
    else 4 + total + framesLen l ((d.drop 4).drop total)
termination_by d.length
decreasing_by simp only [List.length_drop]; omega

/-- `goodEnd` is advanced by every record that was read completely — also by one the replay then skips (CRC mismatch, unknown
op letter, bad inner lengths, orphan 'X', implausible expiry): it does not depend on `crc`, on the parse or on the state -/
theorem replayLoop_goodEnd (l : Lim) (crc : Bytes → UInt32) (d : Bytes) :
    ∀ (st : LState) (off : Nat), (replayLoop l crc d st off).2 = off + framesLen l d := by
  induction hn : d.length using Nat.strongRecOn generalizing d with
  | _ n ih =>
    intro st off
    rw [replayLoop, framesLen]
    by_cases h4 : d.length < 4
    · simp [h4]
    · simp only [h4, ↓reduceDIte]
      by_cases hb : leNat (d.take 4) < l.ldMin ∨ leNat (d.take 4) > l.ldMax
      · simp [hb]
      · simp only [hb, ↓reduceIte]
        by_cases hs : (d.drop 4).length < leNat (d.take 4)
        · rw [if_pos hs, if_pos hs]; rfl
        · rw [if_neg hs, if_neg hs]
          have hlt : ((d.drop 4).drop (leNat (d.take 4))).length < n := by
            simp only [List.length_drop]; omega
          rw [ih _ hlt _ rfl]
          omega

/-- a frame: any body of admissible length behind its length prefix -/
def frame (b : Bytes) : Bytes := le32 b.length ++ b

theorem framesLen_frame (l : Lim) (hl : l.OK) (b rest : Bytes) (h1 : l.ldMin ≤ b.length) (h2 : b.length ≤ l.ldMax) :
    framesLen l (frame b ++ rest) = 4 + b.length + framesLen l rest := by
  rw [framesLen]
  have h32 : b.length < 2 ^ 32 := by have := hl.u32; omega
  have hlen : ¬ (frame b ++ rest).length < 4 := by simp [frame]
  simp only [hlen, ↓reduceDIte]
  have htake : (frame b ++ rest).take 4 = le32 b.length := by
    simp only [frame, List.append_assoc]; exact take_append_len _ _ 4 rfl
  have hdrop : (frame b ++ rest).drop 4 = b ++ rest := by
    simp only [frame, List.append_assoc]; exact drop_append_len _ _ 4 rfl
  rw [htake, hdrop, leNat_le32' _ h32]
  have c1 : ¬ (b.length < l.ldMin ∨ b.length > l.ldMax) := by omega
  have c2 : ¬ (b ++ rest).length < b.length := by simp
  simp only [c1, c2, ↓reduceIte]
  rw [drop_append_len _ _ _ rfl]

theorem framesLen_frames (l : Lim) (hl : l.OK) (bs : List Bytes) (h : ∀ b ∈ bs, l.ldMin ≤ b.length ∧ b.length ≤ l.ldMax) (rest : Bytes) :
    framesLen l (bs.flatMap frame ++ rest) = (bs.flatMap frame).length + framesLen l rest := by
  induction bs with
  | nil => simp
  | cons b r ih =>
    simp only [List.flatMap_cons, List.append_assoc]
    rw [framesLen_frame l hl b _ (h b (by simp)).1 (h b (by simp)).2, ih (fun x hx => h x (by simp [hx]))]
    simp [frame]; omega

/-- a strict prefix of one more frame is not counted -/
theorem framesLen_torn (l : Lim) (hl : l.OK) (b p q : Bytes) (h1 : l.ldMin ≤ b.length) (h2 : b.length ≤ l.ldMax)
    (hpq : p ++ q = frame b) (hq : q ≠ []) : framesLen l p = 0 := by
  rw [framesLen]
  by_cases h4 : p.length < 4
  · simp [h4]
  · simp only [h4, ↓reduceDIte]
    have h32 : b.length < 2 ^ 32 := by have := hl.u32; omega
    have hlen : p.length + q.length = 4 + b.length := by
      have := congrArg List.length hpq
      simpa [frame] using this
    have hqpos : 0 < q.length := by
      cases q with
      | nil => exact absurd rfl hq
      | cons a c => simp
    have htake : p.take 4 = le32 b.length := by
      have : (p ++ q).take 4 = p.take 4 := by rw [List.take_append_of_le_length (by omega)]
      rw [← this, hpq]
      simp only [frame]; exact take_append_len _ _ 4 rfl
    rw [htake, leNat_le32' _ h32]
    have c1 : ¬ (b.length < l.ldMin ∨ b.length > l.ldMax) := by omega
    have c2 : (p.drop 4).length < b.length := by simp only [List.length_drop]; omega
    simp only [c1, c2, ↓reduceIte]

end Iora.Kv

namespace Iora.Kv
open Iora

theorem framesLen_le (l : Lim) (d : Bytes) : framesLen l d ≤ d.length := by
  induction hn : d.length using Nat.strongRecOn generalizing d with
  | _ n ih =>
    rw [framesLen]
    by_cases h4 : d.length < 4
    · simp [h4]
    · simp only [h4, ↓reduceDIte]
      split
      · omega
      · split
        · omega
        · rename_i hs
          have hlt : ((d.drop 4).drop (leNat (d.take 4))).length < n := by
            simp only [List.length_drop]; omega
          have := ih _ hlt _ rfl
          simp only [List.length_drop] at this hs
          omega

/-- what follows the counted prefix does not start with a complete frame -/
theorem framesLen_drop (l : Lim) (d : Bytes) : framesLen l (d.drop (framesLen l d)) = 0 := by
  induction hn : d.length using Nat.strongRecOn generalizing d with
  | _ n ih =>
    by_cases h4 : d.length < 4
    · have h0 : framesLen l d = 0 := by rw [framesLen]; simp [h4]
      rw [h0, List.drop_zero, h0]
    · by_cases hb : leNat (d.take 4) < l.ldMin ∨ leNat (d.take 4) > l.ldMax
      · have h0 : framesLen l d = 0 := by rw [framesLen]; simp [h4, hb]
        rw [h0, List.drop_zero, h0]
      · by_cases hs : (d.drop 4).length < leNat (d.take 4)
        · have h0 : framesLen l d = 0 := by rw [framesLen]; simp only [h4, ↓reduceDIte, hb, ↓reduceIte]; rw [if_pos hs]
          rw [h0, List.drop_zero, h0]
        · have h1 : framesLen l d = 4 + leNat (d.take 4) + framesLen l ((d.drop 4).drop (leNat (d.take 4))) := by
            rw [framesLen]; simp only [h4, ↓reduceDIte, hb, ↓reduceIte]; rw [if_neg hs]
          have hlt : ((d.drop 4).drop (leNat (d.take 4))).length < n := by
            simp only [List.length_drop]; omega
          have := ih _ hlt _ rfl
          rw [h1]
          have e : d.drop (4 + leNat (d.take 4) + framesLen l ((d.drop 4).drop (leNat (d.take 4))))
              = ((d.drop 4).drop (leNat (d.take 4))).drop (framesLen l ((d.drop 4).drop (leNat (d.take 4)))) := by
            simp only [List.drop_drop]
          rw [e]; exact this

end Iora.Kv
