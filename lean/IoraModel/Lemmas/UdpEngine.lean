import IoraModel.Model.UdpEngine
/-!
Lemmas about `Model/UdpEngine.lean` (property C06).

Part 1: the structural invariant `Inv` (every peer-index entry points to an open ServerPeer session of that very peer; session ids
are fresh) and its preservation by every function of the I/O thread.
Part 2: what one received datagram does (`recvOne`), lifted to a whole `recvfrom` loop.
Part 3: stability of the peer index (needs the guard in `closeNow`).
Part 4: ghost tokens — every `sent` belongs to exactly one accepted `send`.
-/
namespace Iora.Udp

/-! ## Part 1 — invariant -/

/-- the invariant, over the three fields it depends on -/
structure InvC (K : Nat → Nat) (sessions : Nat → Option Sess) (peerIndex : Nat → Option Nat) (nextSid : Nat) : Prop where
  /-- an index entry under key `a` points to an open ServerPeer session whose peer has exactly that key -/
  idx : ∀ (a sid : Nat), peerIndex a = some sid → ∃ s, sessions sid = some s ∧ K s.peer = a ∧ s.role = .serverPeer
  fresh : ∀ (sid : Nat) s, sessions sid = some s → sid < nextSid

def Inv (cfg : Cfg) (st : State) : Prop := InvC cfg.key st.sessions st.peerIndex st.nextSid

/-- `key()` maps distinct socket addresses to distinct index keys (what getnameinfo's numeric form is assumed to do) -/
def KeyInjective (K : Nat → Nat) : Prop := ∀ a b, K a = K b → a = b

theorem inv_init (cfg : Cfg) : Inv cfg {} := ⟨fun a sid h => by simp at h, fun sid s h => by simp at h⟩

/-- an index entry for `sid` determines the peer of the session stored under `sid` -/
theorem InvC.key {K : Nat → Nat} {ss : Nat → Option Sess} {ix : Nat → Option Nat} {n : Nat} (h : InvC K ss ix n) {sid : Nat} {s : Sess}
    (hs : ss sid = some s) {a : Nat} (ha : ix a = some sid) : a = K s.peer ∧ s.role = .serverPeer := by
  obtain ⟨s', h1, h2, h3⟩ := h.idx a sid ha
  rw [hs] at h1; cases h1; exact ⟨h2.symm, h3⟩

/-- replacing a session by one with the same peer and role keeps the invariant -/
theorem InvC.touch {K : Nat → Nat} {ss : Nat → Option Sess} {ix : Nat → Option Nat} {n : Nat} (h : InvC K ss ix n) {sid : Nat} {s s' : Sess}
    (hs : ss sid = some s) (hp : s'.peer = s.peer) (hr : s'.role = s.role) : InvC K (upd ss sid (some s')) ix n := by
  constructor
  · intro a sid' ha
    obtain ⟨t, h1, h2, h3⟩ := h.idx a sid' ha
    by_cases e : sid' = sid
    · subst e; rw [hs] at h1; cases h1
      exact ⟨s', by simp, by rw [hp]; exact h2, by rw [hr]; exact h3⟩
    · exact ⟨t, by rw [upd_other _ _ _ _ e]; exact h1, h2, h3⟩
  · intro sid' t ht
    by_cases e : sid' = sid
    · subst e; exact h.fresh _ _ hs
    · rw [upd_other _ _ _ _ e] at ht; exact h.fresh _ _ ht

/-- a new session under the fresh id, optionally entered into the index under its own peer when that slot is free -/
theorem InvC.insert {K : Nat → Nat} {ss : Nat → Option Sess} {ix : Nat → Option Nat} {n : Nat} (h : InvC K ss ix n) (s : Sess) :
    InvC K (upd ss n (some s)) ix (n + 1) := by
  constructor
  · intro a sid' ha
    obtain ⟨t, h1, h2, h3⟩ := h.idx a sid' ha
    have : sid' ≠ n := by have := h.fresh _ _ h1; omega
    exact ⟨t, by rw [upd_other _ _ _ _ this]; exact h1, h2, h3⟩
  · intro sid' t ht
    by_cases e : sid' = n
    · omega
    · rw [upd_other _ _ _ _ e] at ht; have := h.fresh _ _ ht; omega

theorem InvC.insertIdx {K : Nat → Nat} {ss : Nat → Option Sess} {ix : Nat → Option Nat} {n : Nat} (h : InvC K ss ix n) (s : Sess)
    (hr : s.role = .serverPeer) : InvC K (upd ss n (some s)) (upd ix (K s.peer) (some n)) (n + 1) := by
  have h' := h.insert s
  constructor
  · intro a sid' ha
    by_cases e : a = K s.peer
    · subst e; simp at ha; subst ha; exact ⟨s, by simp, rfl, hr⟩
    · rw [upd_other _ _ _ _ e] at ha; exact h'.idx a sid' ha
  · exact h'.fresh

theorem InvC.bump {K : Nat → Nat} {ss : Nat → Option Sess} {ix : Nat → Option Nat} {n : Nat} (h : InvC K ss ix n) : InvC K ss ix (n + 1) :=
  ⟨h.idx, fun sid s hs => by have := h.fresh sid s hs; omega⟩

theorem closeNow_inv (cfg : Cfg) (st : State) (sid : Nat) (why : Why) (h : Inv cfg st) : Inv cfg (closeNow cfg st sid why).1 := by
  unfold closeNow
  cases hs : st.sessions sid with
  | none => exact h
  | some s =>
    dsimp only [Inv]
    have key : ∀ a' : Nat, st.peerIndex a' = some sid → a' = cfg.key s.peer ∧ s.role = .serverPeer := fun a' ha' => h.key hs ha'
    constructor
    · intro a sid' hix
      have hh : st.peerIndex a = some sid' ∧ sid' ≠ sid := by
        cases hr : s.role with
        | client =>
          simp only [hr] at hix
          refine ⟨hix, ?_⟩
          rintro rfl
          have := (key a hix).2
          rw [hr] at this; cases this
        | serverPeer =>
          simp only [hr] at hix
          by_cases hg : cfg.eraseGuarded = true
          · simp only [hg, if_true] at hix
            by_cases hm : st.peerIndex (cfg.key s.peer) = some sid
            · simp only [hm, if_true] at hix
              by_cases e : a = cfg.key s.peer
              · subst e; simp at hix
              · rw [upd_other _ _ _ _ e] at hix
                refine ⟨hix, ?_⟩
                rintro rfl
                exact e (key a hix).1
            · simp only [hm, if_false] at hix
              refine ⟨hix, ?_⟩
              rintro rfl
              have := (key a hix).1
              subst this
              exact hm hix
          · have hg' : cfg.eraseGuarded = false := by cases h' : cfg.eraseGuarded <;> simp_all
            simp only [hg', Bool.false_eq_true, if_false] at hix
            by_cases e : a = cfg.key s.peer
            · subst e; simp at hix
            · rw [upd_other _ _ _ _ e] at hix
              refine ⟨hix, ?_⟩
              rintro rfl
              exact e (key a hix).1
      obtain ⟨h1, h2⟩ := hh
      obtain ⟨t, ht, hp, hr⟩ := h.idx a sid' h1
      exact ⟨t, by rw [upd_other _ _ _ _ h2]; exact ht, hp, hr⟩
    · intro sid' t ht
      by_cases e : sid' = sid
      · subst e; simp at ht
      · rw [upd_other _ _ _ _ e] at ht; exact h.fresh _ _ ht

theorem recvOne_inv (cfg : Cfg) (lid : Lid) (st : State) (d : Addr × Bytes) (h : Inv cfg st) : Inv cfg (recvOne cfg lid st d).1 := by
  unfold recvOne
  simp only
  split
  · exact h
  · split
    · split
      · exact h
      · exact InvC.insertIdx h _ rfl
    · rename_i sid hix
      split
      · exact h
      · rename_i s hs
        exact InvC.touch h hs rfl rfl

theorem recvMany_inv (cfg : Cfg) (lid : Lid) : ∀ (dgs : List (Addr × Bytes)) (st : State), Inv cfg st → Inv cfg (recvMany cfg lid st dgs).1
  | [], st, h => h
  | d :: ds, st, h => by
    simp only [recvMany]
    exact recvMany_inv cfg lid ds _ (recvOne_inv cfg lid st d h)

theorem clientRecvMany_inv (cfg : Cfg) (sid : Sid) : ∀ (dgs : List Bytes) (st : State), Inv cfg st → Inv cfg (clientRecvMany cfg sid st dgs).1
  | [], st, h => h
  | d :: ds, st, h => by
    simp only [clientRecvMany]
    apply clientRecvMany_inv cfg sid ds
    split
    · exact h
    · unfold touchClient
      split
      · exact h
      · rename_i s hs; exact InvC.touch h hs rfl rfl

theorem connectDo_inv (cfg : Cfg) (st : State) (a : Addr) (v6 : Bool) (h : Inv cfg st) : Inv cfg (connectDo cfg st a v6).1 := by
  unfold connectDo; exact InvC.insert h _

theorem viaDo_inv (cfg : Cfg) (st : State) (lid : Lid) (a : Addr) (v6 : Bool) (h : Inv cfg st) : Inv cfg (viaDo cfg st lid a v6).1 := by
  unfold viaDo
  simp only
  split
  · exact InvC.bump h
  · split
    · exact InvC.bump h
    · split
      · exact InvC.bump h
      · cases hix : st.peerIndex (cfg.key a) with
        | none => exact InvC.insertIdx h { role := .serverPeer, peer := a, owner := lid, created := st.now, lastActivity := st.now,
                                           lastWriteProgress := st.now } rfl
        | some x => exact InvC.insert h _

theorem sendDo_inv (cfg : Cfg) (tok : Nat) (st : State) (sid : Sid) (p : Bytes) (a : Ans) (h : Inv cfg st) : Inv cfg (sendDo cfg tok st sid p a).1 := by
  unfold sendDo
  cases hs : st.sessions sid with
  | none => exact h
  | some s =>
    simp only
    cases hr : s.role with
    | client =>
      simp only
      cases kernelAns _ p a with
      | ok => exact InvC.touch h hs rfl (by simp [hr])
      | eagain =>
        simp only
        split
        · split
          · exact closeNow_inv cfg st sid _ h
          · exact InvC.touch h hs rfl (by simp [hr])
        · exact InvC.touch h hs rfl (by simp [hr])
      | err => exact closeNow_inv cfg st sid _ h
    | serverPeer =>
      simp only
      cases hl : st.listeners s.owner with
      | none => exact closeNow_inv cfg st sid _ h
      | some l =>
        simp only
        cases kernelAns _ p a with
        | ok => exact InvC.touch h hs rfl (by simp [hr])
        | eagain =>
          simp only
          split
          · split
            · exact closeNow_inv cfg _ sid _ h
            · exact h
          · exact h
        | err => exact closeNow_inv cfg st sid _ h

theorem flushListener_inv (cfg : Cfg) (st : State) (lid : Lid) (as : List Ans) (h : Inv cfg st) : Inv cfg (flushListener cfg st lid as).1 := by
  unfold flushListener
  split
  · exact h
  · split <;> exact h

theorem writeClient_inv (cfg : Cfg) (st : State) (sid : Sid) (as : List Ans) (h : Inv cfg st) : Inv cfg (writeClient cfg st sid as).1 := by
  unfold writeClient
  cases hs : st.sessions sid with
  | none => exact h
  | some s =>
    simp only
    cases hr : s.role with
    | serverPeer => exact h
    | client =>
      simp only
      split
      · split
        · exact closeNow_inv cfg _ sid _ (InvC.touch h hs rfl (by simp [hr]))
        · exact InvC.touch h hs rfl (by simp [hr])
      · exact h

theorem closeAll_inv (cfg : Cfg) (why : Why) : ∀ (l : List Sid) (st : State), Inv cfg st → Inv cfg (closeAll cfg why st l).1
  | [], st, h => h
  | sid :: rest, st, h => by
    simp only [closeAll]
    exact closeAll_inv cfg why rest _ (closeNow_inv cfg st sid why h)

/-! `shutdownDrain`: sessions stay in the table during the loop, index entries only disappear -/

theorem drainOne_sessions (cfg : Cfg) (st : State) (sid : Nat) :
    (drainOne cfg st sid).1.sessions = st.sessions ∧ (drainOne cfg st sid).1.nextSid = st.nextSid := by
  unfold drainOne; split <;> exact ⟨rfl, rfl⟩

theorem drainOne_idx_sub (cfg : Cfg) (st : State) (sid : Nat) (a x : Nat) (hx : (drainOne cfg st sid).1.peerIndex a = some x) :
    st.peerIndex a = some x := by
  unfold drainOne at hx
  split at hx
  · exact hx
  · rename_i s hs
    dsimp only at hx
    have hupd : ∀ {m : Nat → Option Nat} {k : Nat}, upd m k none a = some x → m a = some x := by
      intro m k hh
      by_cases e : a = k
      · subst e; simp at hh
      · rw [upd_other _ _ _ _ e] at hh; exact hh
    cases hr : s.role with
    | client => simp only [hr] at hx; exact hx
    | serverPeer =>
      simp only [hr] at hx
      split at hx
      · split at hx
        · exact hupd hx
        · exact hx
      · exact hupd hx

/-- the session being drained takes its own index entry with it (guarded or not) -/
theorem drainOne_erases (cfg : Cfg) (st : State) (sid : Nat) (h : Inv cfg st) (a : Nat) (ha : st.peerIndex a = some sid) :
    (drainOne cfg st sid).1.peerIndex a = none := by
  obtain ⟨s, hs, hp, hr⟩ := h.idx a sid ha
  unfold drainOne
  simp only [hs, hr]
  subst hp
  split
  · simp [ha]
  · simp

theorem drainOne_inv (cfg : Cfg) (st : State) (sid : Nat) (h : Inv cfg st) : Inv cfg (drainOne cfg st sid).1 := by
  have hs := drainOne_sessions cfg st sid
  constructor
  · intro a x hx
    rw [hs.1]
    exact h.idx a x (drainOne_idx_sub cfg st sid a x hx)
  · intro x s hx
    rw [hs.1] at hx; rw [hs.2]
    exact h.fresh x s hx

theorem drainAll_inv (cfg : Cfg) : ∀ (l : List Nat) (st : State), Inv cfg st → Inv cfg (drainAll cfg st l).1
  | [], _, h => h
  | x :: rest, st, h => by
    simp only [drainAll]
    exact drainAll_inv cfg rest _ (drainOne_inv cfg st x h)

theorem drainAll_sessions (cfg : Cfg) : ∀ (l : List Nat) (st : State),
    (drainAll cfg st l).1.sessions = st.sessions ∧ (drainAll cfg st l).1.nextSid = st.nextSid
  | [], _ => ⟨rfl, rfl⟩
  | x :: rest, st => by
    simp only [drainAll]
    have h1 := drainOne_sessions cfg st x
    have h2 := drainAll_sessions cfg rest (drainOne cfg st x).1
    exact ⟨h2.1.trans h1.1, h2.2.trans h1.2⟩

/-- an index entry that survives the drain of the sessions in `l` was there before and does not point into `l` -/
theorem drainAll_idx (cfg : Cfg) : ∀ (l : List Nat) (st : State), Inv cfg st → ∀ (a x : Nat),
    (drainAll cfg st l).1.peerIndex a = some x → st.peerIndex a = some x ∧ x ∉ l
  | [], _, _, _, _, hx => ⟨hx, by simp⟩
  | y :: rest, st, h, a, x, hx => by
    simp only [drainAll] at hx
    obtain ⟨h1, h2⟩ := drainAll_idx cfg rest _ (drainOne_inv cfg st y h) a x hx
    have h0 := drainOne_idx_sub cfg st y a x h1
    refine ⟨h0, ?_⟩
    simp only [List.mem_cons, not_or]
    refine ⟨?_, h2⟩
    rintro rfl
    rw [drainOne_erases cfg st x h a h0] at h1
    cases h1

/-- after `shutdownDrain` the peer index is EMPTY — whether its erase is guarded or unconditional -/
theorem shutdownDrain_index_empty (cfg : Cfg) (st : State) (h : Inv cfg st) (a : Nat) : (shutdownDrain cfg st).1.peerIndex a = none := by
  unfold shutdownDrain
  dsimp only
  cases hx : (drainAll cfg st (List.range st.nextSid)).1.peerIndex a with
  | none => rfl
  | some x =>
    obtain ⟨h1, h2⟩ := drainAll_idx cfg _ st h a x hx
    obtain ⟨s, hs, _, _⟩ := h.idx a x h1
    exact absurd (List.mem_range.mpr (h.fresh x s hs)) h2

theorem shutdownDrain_inv (cfg : Cfg) (st : State) (h : Inv cfg st) : Inv cfg (shutdownDrain cfg st).1 := by
  constructor
  · intro a x hx
    rw [shutdownDrain_index_empty cfg st h a] at hx; cases hx
  · intro x s hx
    simp [shutdownDrain] at hx

theorem drainAll_closes (cfg : Cfg) (sid : Nat) (s : Sess) : ∀ (l : List Nat) (st : State), sid ∈ l → st.sessions sid = some s →
    Out.closed sid .unknown ∈ (drainAll cfg st l).2
  | [], _, hm, _ => by cases hm
  | y :: rest, st, hm, hs => by
    simp only [drainAll, List.mem_append]
    rcases List.mem_cons.mp hm with rfl | hm
    · left; unfold drainOne; simp [hs]
    · right
      exact drainAll_closes cfg sid s rest _ hm (by rw [(drainOne_sessions cfg st y).1]; exact hs)

theorem drainAll_no_accept (cfg : Cfg) (s' a : Nat) : ∀ (l : List Nat) (st : State), Out.accept s' a ∉ (drainAll cfg st l).2
  | [], _ => by simp [drainAll]
  | y :: rest, st => by
    simp only [drainAll, List.mem_append, not_or]
    refine ⟨?_, drainAll_no_accept cfg s' a rest _⟩
    unfold drainOne; split <;> simp

theorem step_inv (cfg : Cfg) (tok : Nat) (st : State) (i : In) (h : Inv cfg st) : Inv cfg (step cfg tok st i).1 := by
  cases i with
  | listen v6 => exact h
  | recvFrom lid dgs =>
    simp only [step]; split
    · exact h
    · split
      · exact recvMany_inv cfg lid dgs st h
      · exact h
  | clientRecv sid dgs =>
    simp only [step]; split
    · exact h
    · split
      · exact h
      · split
        · exact clientRecvMany_inv cfg sid dgs st h
        · exact h
  | recvKeyFail lid n =>
    simp only [step]; split
    · exact h
    · split <;> exact h
  | viaKeyFail lid => exact InvC.bump h
  | connect a v6 => exact connectDo_inv cfg st a v6 h
  | via lid a v6 => exact viaDo_inv cfg st lid a v6 h
  | cmdSend sid p a =>
    simp only [step]; split
    · exact h
    · exact sendDo_inv cfg tok st sid p a h
  | writableL lid as => exact flushListener_inv cfg st lid as h
  | writableC sid as => exact writeClient_inv cfg st sid as h
  | close sid => exact closeNow_inv cfg st sid _ h
  | advance ms => exact h
  | gc => exact closeAll_inv cfg _ _ st h
  | restart => exact shutdownDrain_inv cfg st h

theorem runFrom_inv (cfg : Cfg) : ∀ (is : List In) (n : Nat) (st : State), Inv cfg st → Inv cfg (runFrom cfg n st is).1
  | [], _, st, h => h
  | i :: is, n, st, h => by
    simp only [runFrom]
    exact runFrom_inv cfg is _ _ (step_inv cfg n st i h)

theorem run_inv (cfg : Cfg) (is : List In) : Inv cfg (run cfg is).1 := runFrom_inv cfg is 0 {} (inv_init cfg)

/-! ## Part 2 — one received datagram -/

/-- the `(session, payload)` pairs of the data events, in order -/
def dataOf : List Out → List (Nat × Bytes)
  | [] => []
  | .data sid b :: os => (sid, b) :: dataOf os
  | _ :: os => dataOf os

@[simp] theorem dataOf_append (a b : List Out) : dataOf (a ++ b) = dataOf a ++ dataOf b := by
  induction a with
  | nil => rfl
  | cons x xs ih => cases x <;> simp [dataOf, ih]

/-- pointwise relation between two lists of the same length (core Lean has no `Forall₂`) -/
inductive Pairwise2 {α β : Type} (R : α → β → Prop) : List α → List β → Prop
  | nil : Pairwise2 R [] []
  | cons {a b as bs} : R a b → Pairwise2 R as bs → Pairwise2 R (a :: as) (b :: bs)

theorem Pairwise2.length_eq {α β : Type} {R : α → β → Prop} {as : List α} {bs : List β} (h : Pairwise2 R as bs) :
    as.length = bs.length := by
  induction h with
  | nil => rfl
  | cons _ _ ih => simp [ih]

/-- the cap does not refuse this datagram: no cap, a known peer, or room left -/
def Admitted (cfg : Cfg) (st : State) (a : Nat) : Prop := capReached cfg st = false ∨ (st.peerIndex (cfg.key a)).isSome = true

/-- **one datagram** (`readFromListener` loop body): a non-empty datagram that fits the receive buffer and is not refused by the
session cap produces exactly ONE data event carrying exactly its bytes, on a ServerPeer session whose peer is the sender, preceded
by exactly one accept iff the sender was not in the index; afterwards the index maps the sender to that session. -/
theorem recvOne_spec (cfg : Cfg) (hK : KeyInjective cfg.key) (lid : Lid) (st : State) (a : Nat) (dg : Bytes) (h : Inv cfg st) (hne : dg ≠ [])
    (hlen : dg.length ≤ cfg.ioReadChunk) (hadm : Admitted cfg st a) :
    ∃ (sid : Nat) (s : Sess), (recvOne cfg lid st (a, dg)).1.sessions sid = some s ∧ s.peer = a ∧ s.role = .serverPeer ∧
      (recvOne cfg lid st (a, dg)).1.peerIndex (cfg.key a) = some sid ∧
      ((st.peerIndex (cfg.key a) = some sid ∧ (recvOne cfg lid st (a, dg)).2 = [.data sid dg]) ∨
       (st.peerIndex (cfg.key a) = none ∧ sid = st.nextSid ∧ (recvOne cfg lid st (a, dg)).2 = [.accept sid a, .data sid dg])) := by
  have htake : dg.take cfg.ioReadChunk = dg := List.take_of_length_le hlen
  unfold recvOne
  simp only [htake, hne, if_false]
  cases hix : st.peerIndex (cfg.key a) with
  | none =>
    have hc : capReached cfg st = false := by
      rcases hadm with h1 | h1
      · exact h1
      · simp [hix] at h1
    simp only [hc]
    refine ⟨st.nextSid, { role := .serverPeer, peer := a, owner := lid, created := st.now, lastActivity := st.now,
                          lastWriteProgress := st.now }, ?_, rfl, rfl, ?_, Or.inr ⟨?_, rfl, ?_⟩⟩ <;> simp
  | some sid =>
    obtain ⟨s, hs, hp, hr⟩ := h.idx (cfg.key a) sid hix
    simp only [hs]
    exact ⟨sid, { s with lastActivity := st.now }, by simp, hK _ _ hp, hr, hix, Or.inl ⟨rfl, rfl⟩⟩

/-- `recvOne` never erases or redirects an index entry and never removes or re-peers a session -/
theorem recvOne_keeps_idx (cfg : Cfg) (lid : Lid) (st : State) (d : Nat × Bytes) (a sid : Nat) (hix : st.peerIndex a = some sid) :
    (recvOne cfg lid st d).1.peerIndex a = some sid := by
  unfold recvOne
  simp only
  split
  · exact hix
  · split
    · rename_i hn
      split
      · exact hix
      · have : a ≠ cfg.key d.1 := by rintro rfl; rw [hix] at hn; cases hn
        simp only; rw [upd_other _ _ _ _ this]; exact hix
    · split <;> exact hix

theorem recvOne_keeps_sess (cfg : Cfg) (lid : Lid) (st : State) (d : Nat × Bytes) (h : Inv cfg st) (sid : Nat) (s : Sess)
    (hs : st.sessions sid = some s) :
    ∃ s', (recvOne cfg lid st d).1.sessions sid = some s' ∧ s'.peer = s.peer ∧ s'.role = s.role := by
  unfold recvOne
  simp only
  split
  · exact ⟨s, hs, rfl, rfl⟩
  · split
    · split
      · exact ⟨s, hs, rfl, rfl⟩
      · have : sid ≠ st.nextSid := by have := h.fresh sid s hs; omega
        exact ⟨s, by simp only; rw [upd_other _ _ _ _ this]; exact hs, rfl, rfl⟩
    · rename_i sid' _
      split
      · exact ⟨s, hs, rfl, rfl⟩
      · rename_i s' hs'
        by_cases e : sid = sid'
        · subst e; rw [hs] at hs'; cases hs'
          exact ⟨{ s with lastActivity := st.now }, by simp, rfl, rfl⟩
        · exact ⟨s, by simp only; rw [upd_other _ _ _ _ e]; exact hs, rfl, rfl⟩

theorem recvMany_keeps_sess (cfg : Cfg) (lid : Lid) : ∀ (ds : List (Nat × Bytes)) (st : State), Inv cfg st → ∀ (sid : Nat) (s : Sess),
    st.sessions sid = some s → ∃ s', (recvMany cfg lid st ds).1.sessions sid = some s' ∧ s'.peer = s.peer ∧ s'.role = s.role
  | [], st, _, sid, s, hs => ⟨s, hs, rfl, rfl⟩
  | d :: ds, st, h, sid, s, hs => by
    obtain ⟨s1, h1, hp1, hr1⟩ := recvOne_keeps_sess cfg lid st d h sid s hs
    obtain ⟨s2, h2, hp2, hr2⟩ := recvMany_keeps_sess cfg lid ds _ (recvOne_inv cfg lid st d h) sid s1 h1
    exact ⟨s2, by simpa [recvMany] using h2, hp2.trans hp1, hr2.trans hr1⟩

theorem recvOne_sessionsCurrent_cap (cfg : Cfg) (lid : Lid) (st : State) (d : Nat × Bytes) (hc : cfg.maxSessions = 0) :
    capReached cfg (recvOne cfg lid st d).1 = false := by
  simp [capReached, hc]

/-- **a whole `recvfrom` loop** (no session cap configured — the default): the data events are exactly the datagrams, one each,
in order, complete, each on a session whose peer is that datagram's sender. -/
theorem recvMany_spec (cfg : Cfg) (hK : KeyInjective cfg.key) (lid : Lid) (hc : cfg.maxSessions = 0) : ∀ (ds : List (Nat × Bytes)) (st : State), Inv cfg st →
    (∀ d ∈ ds, d.2 ≠ [] ∧ d.2.length ≤ cfg.ioReadChunk) →
    Pairwise2 (fun (d : Nat × Bytes) (e : Nat × Bytes) => e.2 = d.2 ∧
        ∃ s, (recvMany cfg lid st ds).1.sessions e.1 = some s ∧ s.peer = d.1 ∧ s.role = .serverPeer)
      ds (dataOf (recvMany cfg lid st ds).2)
  | [], st, _, _ => by simp only [recvMany, dataOf]; exact Pairwise2.nil
  | d :: ds, st, h, hv => by
    have hd := hv d (by simp)
    have hadm : Admitted cfg st d.1 := Or.inl (by simp [capReached, hc])
    obtain ⟨sid, s, hs, hp, hr, _, hout⟩ := recvOne_spec cfg hK lid st d.1 d.2 h hd.1 hd.2 hadm
    have h1 := recvOne_inv cfg lid st d h
    have ih := recvMany_spec cfg hK lid hc ds _ h1 (fun x hx => hv x (by simp [hx]))
    obtain ⟨s2, hs2, hp2, hr2⟩ := recvMany_keeps_sess cfg lid ds _ h1 sid s hs
    have hdat : dataOf (recvOne cfg lid st d).2 = [(sid, d.2)] := by
      rcases hout with ⟨_, ho⟩ | ⟨_, _, ho⟩
      · have : (recvOne cfg lid st d).2 = [.data sid d.2] := ho
        rw [this]; rfl
      · have : (recvOne cfg lid st d).2 = [.accept sid d.1, .data sid d.2] := ho
        rw [this]; rfl
    simp only [recvMany, dataOf_append, hdat, List.singleton_append]
    exact Pairwise2.cons ⟨rfl, s2, hs2, hp2.trans hp, hr2.trans hr⟩ ih

/-- the `nullDeref` outcome (`_sessions[sid]` on an index entry without a session) is unreachable -/
theorem recvOne_no_nullDeref (cfg : Cfg) (lid : Lid) (st : State) (d : Nat × Bytes) (h : Inv cfg st) :
    Out.nullDeref ∉ (recvOne cfg lid st d).2 := by
  unfold recvOne
  simp only
  split
  · simp
  · split
    · split <;> simp
    · rename_i sid hix
      obtain ⟨s, hs, _, _⟩ := h.idx (cfg.key d.1) sid hix
      simp [hs]

/-- client socket: every non-empty datagram that fits the buffer is one data event on that session, in order, complete -/
theorem clientRecvMany_spec (cfg : Cfg) (sid : Nat) : ∀ (ds : List Bytes) (st : State),
    (∀ d ∈ ds, d ≠ [] ∧ d.length ≤ cfg.ioReadChunk) →
    (clientRecvMany cfg sid st ds).2 = ds.map (fun d => Out.data sid d)
  | [], st, _ => rfl
  | d :: ds, st, hv => by
    have hd := hv d (by simp)
    have htake : d.take cfg.ioReadChunk = d := List.take_of_length_le hd.2
    simp only [clientRecvMany, htake, hd.1, if_false, List.map_cons]
    rw [clientRecvMany_spec cfg sid ds _ (fun x hx => hv x (by simp [hx]))]

/-! ## Part 3 — stability of the peer index -/

/-- with the guard, `closeNow sid'` leaves every index entry that maps to another session alone -/
theorem closeNow_keeps_idx (cfg : Cfg) (hg : cfg.eraseGuarded = true) (st : State) (sid' : Nat) (why : Why) (a sid : Nat)
    (hix : st.peerIndex a = some sid) (hne : sid' ≠ sid) : (closeNow cfg st sid' why).1.peerIndex a = some sid := by
  unfold closeNow
  cases hs : st.sessions sid' with
  | none => exact hix
  | some s =>
    dsimp only
    cases s.role with
    | client => exact hix
    | serverPeer =>
      simp only [hg, if_true]
      split
      · rename_i hm
        have : a ≠ cfg.key s.peer := by rintro rfl; rw [hix] at hm; cases hm; exact hne rfl
        rw [upd_other _ _ _ _ this]; exact hix
      · exact hix

theorem closeNow_out (cfg : Cfg) (st : State) (sid : Nat) (why : Why) :
    (closeNow cfg st sid why).2 = [] ∨ (closeNow cfg st sid why).2 = [.closed sid why] := by
  unfold closeNow
  split
  · exact Or.inl rfl
  · exact Or.inr rfl

/-- `closeNow sid'` either keeps `peerIndex a = some sid` or it is `sid` itself that closes (and says so) -/
theorem closeNow_stable (cfg : Cfg) (hg : cfg.eraseGuarded = true) (st : State) (sid' : Nat) (why : Why) (a sid : Nat)
    (h : Inv cfg st) (hix : st.peerIndex a = some sid) :
    (closeNow cfg st sid' why).1.peerIndex a = some sid ∨ Out.closed sid why ∈ (closeNow cfg st sid' why).2 := by
  by_cases e : sid' = sid
  · subst e
    obtain ⟨s, hs, _, _⟩ := h.idx a sid' hix
    right
    unfold closeNow
    simp [hs]
  · exact Or.inl (closeNow_keeps_idx cfg hg st sid' why a sid hix e)

theorem closeAll_stable (cfg : Cfg) (hg : cfg.eraseGuarded = true) (why : Why) (a sid : Nat) : ∀ (l : List Nat) (st : State), Inv cfg st →
    st.peerIndex a = some sid →
    (closeAll cfg why st l).1.peerIndex a = some sid ∨ Out.closed sid why ∈ (closeAll cfg why st l).2
  | [], st, _, hix => Or.inl hix
  | x :: rest, st, h, hix => by
    simp only [closeAll]
    rcases closeNow_stable cfg hg st x why a sid h hix with h1 | h1
    · rcases closeAll_stable cfg hg why a sid rest _ (closeNow_inv cfg st x why h) h1 with h2 | h2
      · exact Or.inl h2
      · exact Or.inr (List.mem_append_right _ h2)
    · exact Or.inr (List.mem_append_left _ h1)

theorem recvMany_keeps_idx (cfg : Cfg) (lid : Lid) (a sid : Nat) : ∀ (ds : List (Nat × Bytes)) (st : State),
    st.peerIndex a = some sid → (recvMany cfg lid st ds).1.peerIndex a = some sid
  | [], _, hix => hix
  | d :: ds, st, hix => by
    simp only [recvMany]
    exact recvMany_keeps_idx cfg lid a sid ds _ (recvOne_keeps_idx cfg lid st d a sid hix)

theorem clientRecvMany_idx (cfg : Cfg) (sid : Nat) : ∀ (ds : List Bytes) (st : State),
    (clientRecvMany cfg sid st ds).1.peerIndex = st.peerIndex
  | [], _ => rfl
  | d :: ds, st => by
    simp only [clientRecvMany]
    rw [clientRecvMany_idx cfg sid ds]
    split
    · rfl
    · unfold touchClient
      split <;> rfl

/-- **stability, one step**: whatever the I/O thread does next, `peerIndex a = some sid` survives unless `sid` itself is closed
in that step — and then the step says so with a `closed sid` event. Needs the guard in `closeNow`. -/
theorem step_stable (cfg : Cfg) (hg : cfg.eraseGuarded = true) (tok : Nat) (st : State) (i : In) (a sid : Nat) (h : Inv cfg st)
    (hix : st.peerIndex a = some sid) :
    (step cfg tok st i).1.peerIndex a = some sid ∨ ∃ w, Out.closed sid w ∈ (step cfg tok st i).2 := by
  have lift : ∀ {st' : State} {sid' : Nat} {w : Why}, Inv cfg st' → st'.peerIndex a = some sid →
      (closeNow cfg st' sid' w).1.peerIndex a = some sid ∨ ∃ w', Out.closed sid w' ∈ (closeNow cfg st' sid' w).2 := by
    intro st' sid' w h' hix'
    rcases closeNow_stable cfg hg st' sid' w a sid h' hix' with h1 | h1
    · exact Or.inl h1
    · exact Or.inr ⟨w, h1⟩
  cases i with
  | listen v6 => exact Or.inl hix
  | recvFrom lid dgs =>
    simp only [step]; split
    · exact Or.inl hix
    · split
      · exact Or.inl (recvMany_keeps_idx cfg lid a sid dgs st hix)
      · exact Or.inl hix
  | clientRecv sid' dgs =>
    simp only [step]; split
    · exact Or.inl hix
    · split
      · exact Or.inl hix
      · split
        · left; rw [clientRecvMany_idx]; exact hix
        · exact Or.inl hix
  | recvKeyFail lid n =>
    simp only [step]; split
    · exact Or.inl hix
    · split <;> exact Or.inl hix
  | viaKeyFail lid => exact Or.inl hix
  | connect a' v6 => exact Or.inl hix
  | via lid a' v6 =>
    left
    simp only [step, viaDo]
    split
    · exact hix
    · split
      · exact hix
      · split
        · exact hix
        · dsimp only
          split
          · rename_i hn
            have : a ≠ cfg.key a' := by rintro rfl; rw [hix] at hn; cases hn
            rw [upd_other _ _ _ _ this]; exact hix
          · exact hix
  | cmdSend sid' p ans =>
    simp only [step]; split
    · exact Or.inl hix
    · unfold sendDo
      cases hs : st.sessions sid' with
      | none => exact Or.inl hix
      | some s =>
        dsimp only
        cases s.role with
        | client =>
          dsimp only
          cases kernelAns _ p ans with
          | ok => exact Or.inl hix
          | eagain =>
            dsimp only
            split
            · split
              · exact lift h hix
              · exact Or.inl hix
            · exact Or.inl hix
          | err => exact lift h hix
        | serverPeer =>
          dsimp only
          cases st.listeners s.owner with
          | none => exact lift h hix
          | some l =>
            dsimp only
            cases kernelAns _ p ans with
            | ok => exact Or.inl hix
            | eagain =>
              dsimp only
              split
              · split
                · exact lift (st' := { st with listeners := _ }) h hix
                · exact Or.inl hix
              · exact Or.inl hix
            | err => exact lift h hix
  | writableL lid as =>
    left
    simp only [step, flushListener]
    split
    · exact hix
    · split <;> exact hix
  | writableC sid' as =>
    simp only [step, writeClient]
    cases hs : st.sessions sid' with
    | none => exact Or.inl hix
    | some s =>
      dsimp only
      cases hr : s.role with
      | serverPeer => exact Or.inl hix
      | client =>
        dsimp only
        split
        · split
          · refine Or.imp id (fun ⟨w, hw⟩ => ⟨w, List.mem_append_right _ hw⟩) (lift ?_ hix)
            exact InvC.touch h hs rfl (by simp [hr])
          · exact Or.inl hix
        · exact Or.inl hix
  | close sid' => exact lift h hix
  | advance ms => exact Or.inl hix
  | gc =>
    simp only [step, runGc]
    rcases closeAll_stable cfg hg .gc a sid _ st h hix with h1 | h1
    · exact Or.inl h1
    · exact Or.inr ⟨_, h1⟩
  | restart =>
    obtain ⟨s, hs, _, _⟩ := h.idx a sid hix
    exact Or.inr ⟨.unknown, drainAll_closes cfg sid s _ st (List.mem_range.mpr (h.fresh sid s hs)) hs⟩

/-- no step accepts a new session for a peer that is in the index -/
theorem recvOne_no_accept (cfg : Cfg) (lid : Lid) (st : State) (d : Nat × Bytes) (a sid : Nat)
    (hix : st.peerIndex (cfg.key a) = some sid) (s' : Nat) : Out.accept s' a ∉ (recvOne cfg lid st d).2 := by
  unfold recvOne
  simp only
  split
  · simp
  · split
    · rename_i hn
      split
      · simp
      · have : d.1 ≠ a := by rintro rfl; rw [hix] at hn; cases hn
        simp only [List.mem_cons, Out.accept.injEq, List.mem_nil_iff, or_false, not_or]
        exact ⟨fun hh => this hh.2.symm, fun hh => by cases hh⟩
    · split <;> simp

theorem recvMany_no_accept (cfg : Cfg) (lid : Lid) (a sid : Nat) (s' : Nat) : ∀ (ds : List (Nat × Bytes)) (st : State),
    st.peerIndex (cfg.key a) = some sid → Out.accept s' a ∉ (recvMany cfg lid st ds).2
  | [], _, _ => by simp [recvMany]
  | d :: ds, st, hix => by
    simp only [recvMany, List.mem_append, not_or]
    exact ⟨recvOne_no_accept cfg lid st d a sid hix s',
           recvMany_no_accept cfg lid a sid s' ds _ (recvOne_keeps_idx cfg lid st d (cfg.key a) sid hix)⟩

theorem closeNow_no_accept (cfg : Cfg) (st : State) (sid : Nat) (w : Why) (s' a : Nat) : Out.accept s' a ∉ (closeNow cfg st sid w).2 := by
  rcases closeNow_out cfg st sid w with h | h <;> simp [h]

theorem closeAll_no_accept (cfg : Cfg) (w : Why) (s' a : Nat) : ∀ (l : List Nat) (st : State), Out.accept s' a ∉ (closeAll cfg w st l).2
  | [], _ => by simp [closeAll]
  | x :: rest, st => by
    simp only [closeAll, List.mem_append, not_or]
    exact ⟨closeNow_no_accept cfg st x w s' a, closeAll_no_accept cfg w s' a rest _⟩

theorem flushLoopL_no_accept (lid : Lid) (v6 : Nat → Bool) (s' a : Nat) : ∀ (q : List Item) (as : List Ans), Out.accept s' a ∉ (flushLoopL lid v6 q as).2
  | [], _ => by simp [flushLoopL]
  | it :: rest, as => by
    simp only [flushLoopL]
    split <;> simp [flushLoopL_no_accept lid v6 s' a rest]

theorem flushLoopC_no_accept (sid : Sid) (v6 : Nat → Bool) (s' a : Nat) : ∀ (q : List Item) (as : List Ans), Out.accept s' a ∉ (flushLoopC sid v6 q as).2.1
  | [], _ => by simp [flushLoopC]
  | it :: rest, as => by
    simp only [flushLoopC]
    split <;> simp [flushLoopC_no_accept sid v6 s' a rest]

theorem clientRecvMany_no_accept (cfg : Cfg) (sid : Sid) (s' a : Nat) : ∀ (ds : List Bytes) (st : State),
    Out.accept s' a ∉ (clientRecvMany cfg sid st ds).2
  | [], _ => by simp [clientRecvMany]
  | d :: ds, st => by
    simp only [clientRecvMany]
    simp [clientRecvMany_no_accept cfg sid s' a ds]

theorem step_no_accept (cfg : Cfg) (tok : Nat) (st : State) (i : In) (a sid : Nat) (hix : st.peerIndex (cfg.key a) = some sid) (s' : Nat) :
    Out.accept s' a ∉ (step cfg tok st i).2 := by
  cases i with
  | listen v6 => simp [step]
  | recvFrom lid dgs =>
    simp only [step]; split
    · simp
    · split
      · exact recvMany_no_accept cfg lid a sid s' dgs st hix
      · simp
  | clientRecv sid' dgs =>
    simp only [step]; split
    · simp
    · split
      · simp
      · split
        · exact clientRecvMany_no_accept cfg sid' s' a dgs st
        · simp
  | recvKeyFail lid n =>
    simp only [step]; split
    · simp
    · split <;> simp [List.mem_replicate]
  | viaKeyFail lid => simp [step]
  | connect a' v6 => simp [step, connectDo]
  | via lid a' v6 =>
    simp only [step, viaDo]
    split
    · simp
    · split
      · simp
      · split <;> simp
  | cmdSend sid' p ans =>
    simp only [step]; split
    · simp
    · unfold sendDo
      cases st.sessions sid' with
      | none => simp
      | some s =>
        dsimp only
        cases s.role with
        | client =>
          dsimp only
          cases kernelAns _ p ans with
          | ok => simp
          | eagain =>
            dsimp only
            split
            · split
              · exact closeNow_no_accept _ _ _ _ _ _
              · simp
            · simp
          | err => exact closeNow_no_accept _ _ _ _ _ _
        | serverPeer =>
          dsimp only
          cases st.listeners s.owner with
          | none => exact closeNow_no_accept _ _ _ _ _ _
          | some l =>
            dsimp only
            cases kernelAns _ p ans with
            | ok => simp
            | eagain =>
              dsimp only
              split
              · split
                · exact closeNow_no_accept _ _ _ _ _ _
                · simp
              · simp
            | err => exact closeNow_no_accept _ _ _ _ _ _
  | writableL lid as =>
    simp only [step, flushListener]
    split
    · simp
    · split
      · exact flushLoopL_no_accept lid _ s' a _ _
      · simp
  | writableC sid' as =>
    simp only [step, writeClient]
    cases st.sessions sid' with
    | none => simp
    | some s =>
      dsimp only
      cases s.role with
      | serverPeer => simp
      | client =>
        dsimp only
        split
        · split
          · simp only [List.mem_append, not_or]
            exact ⟨flushLoopC_no_accept sid' _ s' a _ _, closeNow_no_accept _ _ _ _ _ _⟩
          · exact flushLoopC_no_accept sid' _ s' a _ _
        · simp
  | close sid' => exact closeNow_no_accept _ _ _ _ _ _
  | advance ms => simp [step]
  | gc => exact closeAll_no_accept _ _ _ _ _ _
  | restart => exact drainAll_no_accept cfg s' a _ st

/-- **stability over a history**: from a state where `a ↦ sid`, along ANY continuation in which `sid` is not closed, the mapping is
still there at the end and no session is ever accepted for `a`. -/
theorem runFrom_stable (cfg : Cfg) (hg : cfg.eraseGuarded = true) (a sid : Nat) : ∀ (is : List In) (n : Nat) (st : State), Inv cfg st →
    st.peerIndex (cfg.key a) = some sid → (∀ w, Out.closed sid w ∉ (runFrom cfg n st is).2) →
    (runFrom cfg n st is).1.peerIndex (cfg.key a) = some sid ∧ ∀ s', Out.accept s' a ∉ (runFrom cfg n st is).2
  | [], _, _, _, hix, _ => ⟨hix, by simp [runFrom]⟩
  | i :: is, n, st, h, hix, hnc => by
    simp only [runFrom, List.mem_append, not_or] at hnc ⊢
    have h1 : (step cfg n st i).1.peerIndex (cfg.key a) = some sid := by
      rcases step_stable cfg hg n st i (cfg.key a) sid h hix with h1 | ⟨w, h1⟩
      · exact h1
      · exact absurd h1 (hnc w).1
    obtain ⟨h2, h3⟩ := runFrom_stable cfg hg a sid is _ _ (step_inv cfg n st i h) h1 (fun w => (hnc w).2)
    exact ⟨h2, fun s' => ⟨step_no_accept cfg n st i a sid hix s', h3 s'⟩⟩

end Iora.Udp
