import IoraModel.Lemmas.UdpEngine
/-!
Part 4 of the C06 lemmas: ghost tokens.  Every datagram handed to the kernel (`Out.sent … tok`) belongs to the `cmdSend` input
number `tok` of the history — same bytes, addressed to the peer the session had when that command ran, leaving from that session's
socket — and no two `sent` events carry the same token (at most one datagram per accepted send), whatever is queued on `EAGAIN`,
flushed later, dropped on overflow, or left behind by a session that closed meanwhile.
-/
namespace Iora.Udp
open List

/-! ### histories -/

theorem runFrom_append (cfg : Cfg) : ∀ (a b : List In) (n : Nat) (st : State),
    runFrom cfg n st (a ++ b) =
      ((runFrom cfg (n + a.length) (runFrom cfg n st a).1 b).1,
       (runFrom cfg n st a).2 ++ (runFrom cfg (n + a.length) (runFrom cfg n st a).1 b).2)
  | [], b, n, st => by simp [runFrom]
  | i :: a, b, n, st => by
    simp only [List.cons_append, runFrom, runFrom_append cfg a b (n + 1), List.length_cons, List.append_assoc]
    have : n + 1 + a.length = n + (a.length + 1) := by omega
    rw [this]

theorem run_snoc (cfg : Cfg) (h : List In) (i : In) :
    run cfg (h ++ [i]) = ((step cfg h.length (run cfg h).1 i).1, (run cfg h).2 ++ (step cfg h.length (run cfg h).1 i).2) := by
  simp [run, runFrom_append, runFrom]

/-! ### queues and sent events as plain lists -/

def wqOf : Option Sess → List Item
  | some s => s.wq
  | none => []

def lwqOf : Option Lst → List Item
  | some l => l.wq
  | none => []

/-- the queue a socket drains: `Listener::wq` / `Session::wq` -/
def pending (st : State) : Src → List Item
  | .lst lid => lwqOf (st.listeners lid)
  | .cli sid => wqOf (st.sessions sid)

/-- the `(socket, datagram)` pairs of the sent events, in order -/
def sentOf : List Out → List (Src × Item)
  | [] => []
  | .sent src d b t :: os => (src, ⟨t, d, b⟩) :: sentOf os
  | .accept _ _ :: os => sentOf os
  | .connected _ _ :: os => sentOf os
  | .data _ _ :: os => sentOf os
  | .closed _ _ :: os => sentOf os
  | .error :: os => sentOf os
  | .nullDeref :: os => sentOf os

@[simp] theorem sentOf_nil : sentOf [] = [] := rfl

@[simp] theorem sentOf_append (a b : List Out) : sentOf (a ++ b) = sentOf a ++ sentOf b := by
  induction a with
  | nil => rfl
  | cons x xs ih => cases x <;> simp [sentOf, ih]

theorem mem_sentOf {os : List Out} {src : Src} {it : Item} :
    (src, it) ∈ sentOf os ↔ Out.sent src it.dest it.payload it.tok ∈ os := by
  induction os with
  | nil => simp
  | cons x xs ih =>
    cases x with
    | sent s d b t =>
      simp only [sentOf, List.mem_cons, ih, Prod.mk.injEq, Out.sent.injEq]
      constructor
      · rintro (⟨rfl, rfl⟩ | h)
        · exact Or.inl ⟨rfl, rfl, rfl, rfl⟩
        · exact Or.inr h
      · rintro (⟨rfl, h1, h2, h3⟩ | h)
        · left; refine ⟨rfl, ?_⟩; cases it; simp_all
        · exact Or.inr h
    | _ => simp [sentOf, ih]

/-- queue-wise "nothing new": every queue of `st'` is a sub-list (order kept) of the same queue of `st` -/
def QLe (st' st : State) : Prop :=
  (∀ sid : Nat, wqOf (st'.sessions sid) <+ wqOf (st.sessions sid)) ∧ (∀ lid : Nat, lwqOf (st'.listeners lid) <+ lwqOf (st.listeners lid))

theorem QLe.refl (st : State) : QLe st st := ⟨fun _ => List.Sublist.refl _, fun _ => List.Sublist.refl _⟩

theorem QLe.trans {a b c : State} (h1 : QLe a b) (h2 : QLe b c) : QLe a c :=
  ⟨fun s => (h1.1 s).trans (h2.1 s), fun l => (h1.2 l).trans (h2.2 l)⟩

theorem QLe.pending {st' st : State} (h : QLe st' st) (q : Src) : pending st' q <+ pending st q := by
  cases q with
  | lst lid => exact h.2 lid
  | cli sid => exact h.1 sid

theorem wqOf_upd (ss : Nat → Option Sess) (sid : Nat) (v : Option Sess) (x : Nat) :
    wqOf (upd ss sid v x) = if x = sid then wqOf v else wqOf (ss x) := by
  unfold upd; split <;> rfl

theorem lwqOf_upd (ls : Nat → Option Lst) (lid : Nat) (v : Option Lst) (x : Nat) :
    lwqOf (upd ls lid v x) = if x = lid then lwqOf v else lwqOf (ls x) := by
  unfold upd; split <;> rfl

/-- replacing / inserting / erasing ONE session whose new queue is a sub-list of the old one -/
theorem qle_sess (st : State) (sid : Nat) (v : Option Sess) (pi : Nat → Option Nat) (n c : Nat)
    (hv : wqOf v <+ wqOf (st.sessions sid)) :
    QLe { st with sessions := upd st.sessions sid v, peerIndex := pi, nextSid := n, sessionsCurrent := c } st := by
  refine ⟨fun x => ?_, fun _ => List.Sublist.refl _⟩
  simp only [wqOf_upd]
  split
  · rename_i e; subst e; exact hv
  · exact List.Sublist.refl _

theorem closeNow_qle (cfg : Cfg) (st : State) (sid : Nat) (why : Why) : QLe (closeNow cfg st sid why).1 st := by
  unfold closeNow
  split
  · exact QLe.refl st
  · exact qle_sess st sid none _ _ _ (List.nil_sublist _)

theorem closeAll_qle (cfg : Cfg) (why : Why) : ∀ (l : List Nat) (st : State), QLe (closeAll cfg why st l).1 st
  | [], st => QLe.refl st
  | x :: rest, st => by
    simp only [closeAll]
    exact (closeAll_qle cfg why rest _).trans (closeNow_qle cfg st x why)

theorem closeNow_sent (cfg : Cfg) (st : State) (sid : Nat) (why : Why) : sentOf (closeNow cfg st sid why).2 = [] := by
  rcases closeNow_out cfg st sid why with h | h <;> simp [h, sentOf]

theorem closeAll_sent (cfg : Cfg) (why : Why) : ∀ (l : List Nat) (st : State), sentOf (closeAll cfg why st l).2 = []
  | [], _ => rfl
  | x :: rest, st => by simp [closeAll, closeNow_sent, closeAll_sent cfg why rest]

theorem recvOne_qle (cfg : Cfg) (lid : Lid) (st : State) (d : Nat × Bytes) :
    QLe (recvOne cfg lid st d).1 st ∧ sentOf (recvOne cfg lid st d).2 = [] := by
  unfold recvOne
  simp only
  split
  · exact ⟨QLe.refl st, rfl⟩
  · split
    · split
      · exact ⟨QLe.refl st, rfl⟩
      · exact ⟨qle_sess st st.nextSid _ _ _ _ (List.nil_sublist _), rfl⟩
    · split
      · exact ⟨QLe.refl st, rfl⟩
      · rename_i sid _ _ s hs
        refine ⟨?_, rfl⟩
        exact qle_sess st sid (some { s with lastActivity := st.now }) st.peerIndex st.nextSid st.sessionsCurrent
          (by rw [hs]; exact List.Sublist.refl _)

theorem recvMany_qle (cfg : Cfg) (lid : Lid) : ∀ (ds : List (Nat × Bytes)) (st : State),
    QLe (recvMany cfg lid st ds).1 st ∧ sentOf (recvMany cfg lid st ds).2 = []
  | [], st => ⟨QLe.refl st, rfl⟩
  | d :: ds, st => by
    simp only [recvMany, sentOf_append]
    have h1 := recvOne_qle cfg lid st d
    have h2 := recvMany_qle cfg lid ds (recvOne cfg lid st d).1
    exact ⟨h2.1.trans h1.1, by rw [h1.2, h2.2]; rfl⟩

theorem clientRecvMany_qle (cfg : Cfg) (sid : Nat) : ∀ (ds : List Bytes) (st : State),
    QLe (clientRecvMany cfg sid st ds).1 st ∧ sentOf (clientRecvMany cfg sid st ds).2 = []
  | [], st => ⟨QLe.refl st, rfl⟩
  | d :: ds, st => by
    simp only [clientRecvMany]
    have h2 := clientRecvMany_qle cfg sid ds
    refine ⟨(h2 _).1.trans ?_, by simp [sentOf, (h2 _).2]⟩
    split
    · exact QLe.refl st
    · unfold touchClient
      split
      · exact QLe.refl st
      · rename_i s hs
        exact qle_sess st sid (some { s with lastActivity := st.now }) st.peerIndex st.nextSid st.sessionsCurrent
          (by rw [hs]; exact List.Sublist.refl _)

theorem drainAll_sent (cfg : Cfg) : ∀ (l : List Nat) (st : State), sentOf (drainAll cfg st l).2 = []
  | [], _ => rfl
  | y :: rest, st => by
    simp only [drainAll, sentOf_append, drainAll_sent cfg rest, List.append_nil]
    unfold drainOne; split <;> rfl

/-! ### the flush loops -/

/-- `flushListener`'s loop pops a prefix of the queue; what it sends is (in order) a sub-list of that prefix, from this listener -/
theorem flushLoopL_shape (lid : Nat) (v6 : Nat → Bool) : ∀ (q : List Item) (as : List Ans),
    ∃ popped, q = popped ++ (flushLoopL lid v6 q as).1 ∧ (sentOf (flushLoopL lid v6 q as).2).map (·.2) <+ popped ∧
      ∀ x ∈ sentOf (flushLoopL lid v6 q as).2, x.1 = .lst lid
  | [], _ => ⟨[], by simp [flushLoopL]⟩
  | it :: rest, as => by
    simp only [flushLoopL]
    obtain ⟨pp, h1, h2, h3⟩ := flushLoopL_shape lid v6 rest (nextAns as).2
    split
    · refine ⟨it :: pp, by simp only [List.cons_append]; rw [← h1], ?_, ?_⟩
      · simp only [sentOf, List.map_cons]; exact List.Sublist.cons_cons _ h2
      · intro x hx
        simp only [sentOf, List.mem_cons] at hx
        rcases hx with rfl | hx
        · rfl
        · exact h3 x hx
    · exact ⟨[], by simp [sentOf]⟩
    · refine ⟨it :: pp, by simp only [List.cons_append]; rw [← h1], ?_, ?_⟩
      · simp only [sentOf]; exact List.Sublist.cons _ h2
      · intro x hx; simp only [sentOf] at hx; exact h3 x hx

theorem flushLoopC_shape (sid : Nat) (v6 : Nat → Bool) : ∀ (q : List Item) (as : List Ans),
    ∃ popped, q = popped ++ (flushLoopC sid v6 q as).1 ∧ (sentOf (flushLoopC sid v6 q as).2.1).map (·.2) <+ popped ∧
      ∀ x ∈ sentOf (flushLoopC sid v6 q as).2.1, x.1 = .cli sid
  | [], _ => ⟨[], by simp [flushLoopC]⟩
  | it :: rest, as => by
    simp only [flushLoopC]
    obtain ⟨pp, h1, h2, h3⟩ := flushLoopC_shape sid v6 rest (nextAns as).2
    split
    · refine ⟨it :: pp, by simp only [List.cons_append]; rw [← h1], ?_, ?_⟩
      · simp only [sentOf, List.map_cons]; exact List.Sublist.cons_cons _ h2
      · intro x hx
        simp only [sentOf, List.mem_cons] at hx
        rcases hx with rfl | hx
        · rfl
        · exact h3 x hx
    · exact ⟨[], by simp [sentOf]⟩
    · exact ⟨[], by simp [sentOf]⟩

/-! ### where a token comes from -/

/-- the socket a datagram of session `sid` leaves from -/
def homeOf (sid : Nat) (s : Sess) : Src :=
  match s.role with
  | .client => .cli sid
  | .serverPeer => .lst s.owner

/-- history `h` justifies datagram `it` on socket `q`: input number `it.tok` is a `cmdSend` of exactly these bytes on a session that
was open when the command ran, whose peer was `it.dest` and whose socket is `q` -/
def Origin (cfg : Cfg) (h : List In) (q : Src) (it : Item) : Prop :=
  ∃ (sid : Nat) (ans : Ans) (s : Sess), h[it.tok]? = some (In.cmdSend sid it.payload ans) ∧
    (run cfg (h.take it.tok)).1.sessions sid = some s ∧ s.peer = it.dest ∧ q = homeOf sid s

theorem Origin.lt {cfg : Cfg} {h : List In} {q : Src} {it : Item} (o : Origin cfg h q it) : it.tok < h.length := by
  obtain ⟨_, _, _, h1, _⟩ := o
  obtain ⟨hlt, _⟩ := List.getElem?_eq_some_iff.mp h1
  exact hlt

theorem Origin.mono {cfg : Cfg} {h : List In} {q : Src} {it : Item} (o : Origin cfg h q it) (i : In) : Origin cfg (h ++ [i]) q it := by
  have hlt := o.lt
  obtain ⟨sid, ans, s, h1, h2, h3, h4⟩ := o
  refine ⟨sid, ans, s, ?_, ?_, h3, h4⟩
  · rw [List.getElem?_append_left hlt]; exact h1
  · rw [List.take_append_of_le_length (Nat.le_of_lt hlt)]; exact h2

theorem Origin.unique {cfg : Cfg} {h : List In} {q q' : Src} {it it' : Item} (o : Origin cfg h q it) (o' : Origin cfg h q' it')
    (ht : it.tok = it'.tok) : q = q' := by
  obtain ⟨sid, ans, s, h1, h2, _, h4⟩ := o
  obtain ⟨sid', ans', s', h1', h2', _, h4'⟩ := o'
  rw [ht] at h1 h2
  rw [h1] at h1'
  simp only [Option.some.injEq, In.cmdSend.injEq] at h1'
  obtain ⟨rfl, _, _⟩ := h1'
  rw [h2] at h2'
  cases h2'
  rw [h4, h4']

/-- the origin created by the input being processed right now -/
theorem Origin.new (cfg : Cfg) (h : List In) (sid : Nat) (p : Bytes) (ans : Ans) (s : Sess)
    (hs : (run cfg h).1.sessions sid = some s) :
    Origin cfg (h ++ [In.cmdSend sid p ans]) (homeOf sid s) ⟨h.length, s.peer, p⟩ :=
  ⟨sid, ans, s, by simp, by simp [hs], rfl, rfl⟩

/-! ### the token invariant, abstractly -/

structure GInv (cfg : Cfg) (h : List In) (P : Src → List Item) (S : List (Src × Item)) : Prop where
  q_origin : ∀ q it, it ∈ P q → Origin cfg h q it
  q_sorted : ∀ q, (P q).Pairwise (fun x y => x.tok < y.tok)
  s_origin : ∀ x ∈ S, Origin cfg h x.1 x.2
  disj : ∀ x ∈ S, ∀ q it, it ∈ P q → it.tok ≠ x.2.tok
  s_nodup : S.Pairwise (fun x y => x.2.tok ≠ y.2.tok)

theorem GInv.quiet {cfg : Cfg} {h : List In} {P P' : Src → List Item} {S : List (Src × Item)} (g : GInv cfg h P S) (i : In)
    (hsub : ∀ q, P' q <+ P q) : GInv cfg (h ++ [i]) P' S where
  q_origin q it hit := (g.q_origin q it ((hsub q).subset hit)).mono i
  q_sorted q := (g.q_sorted q).sublist (hsub q)
  s_origin x hx := (g.s_origin x hx).mono i
  disj x hx q it hit := g.disj x hx q it ((hsub q).subset hit)
  s_nodup := g.s_nodup

/-- a datagram sent directly by the command being processed -/
theorem GInv.direct {cfg : Cfg} {h : List In} {P P' : Src → List Item} {S : List (Src × Item)} (g : GInv cfg h P S) (i : In)
    (hsub : ∀ q, P' q <+ P q) (src : Src) (it : Item) (ho : Origin cfg (h ++ [i]) src it) (ht : it.tok = h.length) :
    GInv cfg (h ++ [i]) P' (S ++ [(src, it)]) where
  q_origin q it' hit := (g.q_origin q it' ((hsub q).subset hit)).mono i
  q_sorted q := (g.q_sorted q).sublist (hsub q)
  s_origin x hx := by
    rcases List.mem_append.mp hx with hx | hx
    · exact (g.s_origin x hx).mono i
    · simp only [List.mem_singleton] at hx; subst hx; exact ho
  disj x hx q it' hit := by
    rcases List.mem_append.mp hx with hx | hx
    · exact g.disj x hx q it' ((hsub q).subset hit)
    · simp only [List.mem_singleton] at hx; subst hx
      have := (g.q_origin q it' ((hsub q).subset hit)).lt
      simp only; omega
  s_nodup := by
    rw [List.pairwise_append]
    refine ⟨g.s_nodup, by simp, ?_⟩
    intro a ha b hb
    simp only [List.mem_singleton] at hb; subst hb
    have := (g.s_origin a ha).lt
    simp only; omega

/-- a datagram queued by the command being processed (possibly followed by an overflow drop or by the close of the session) -/
theorem GInv.enqueue {cfg : Cfg} {h : List In} {P P' : Src → List Item} {S : List (Src × Item)} (g : GInv cfg h P S) (i : In)
    (home : Src) (it : Item) (ho : Origin cfg (h ++ [i]) home it) (ht : it.tok = h.length)
    (hsub : ∀ q, P' q <+ P q ++ (if q = home then [it] else [])) : GInv cfg (h ++ [i]) P' S where
  q_origin q it' hit := by
    have := (hsub q).subset hit
    rcases List.mem_append.mp this with h1 | h1
    · exact (g.q_origin q it' h1).mono i
    · split at h1
      · rename_i e; simp only [List.mem_singleton] at h1; subst h1; subst e; exact ho
      · cases h1
  q_sorted q := by
    refine List.Pairwise.sublist (hsub q) ?_
    rw [List.pairwise_append]
    refine ⟨g.q_sorted q, ?_, ?_⟩
    · split <;> simp
    · intro a ha b hb
      split at hb
      · simp only [List.mem_singleton] at hb; subst hb
        have := (g.q_origin q a ha).lt
        omega
      · cases hb
  s_origin x hx := (g.s_origin x hx).mono i
  disj x hx q it' hit := by
    have := (hsub q).subset hit
    rcases List.mem_append.mp this with h1 | h1
    · exact g.disj x hx q it' h1
    · split at h1
      · simp only [List.mem_singleton] at h1; subst h1
        have := (g.s_origin x hx).lt
        omega
      · cases h1
  s_nodup := g.s_nodup

/-- a flush: one queue loses a prefix, some of which is sent (in order), the rest dropped; other queues only shrink -/
theorem GInv.flush {cfg : Cfg} {h : List In} {P P' : Src → List Item} {S : List (Src × Item)} (g : GInv cfg h P S) (i : In)
    (src : Src) (popped rem : List Item) (N : List (Src × Item)) (hP : P src = popped ++ rem) (hP' : P' src <+ rem)
    (hoth : ∀ q, q ≠ src → P' q <+ P q) (hN : N.map (·.2) <+ popped) (hsrc : ∀ x ∈ N, x.1 = src) :
    GInv cfg (h ++ [i]) P' (S ++ N) := by
  have hsub : ∀ q, P' q <+ P q := by
    intro q
    by_cases e : q = src
    · subst e; rw [hP]; exact hP'.trans (List.sublist_append_right _ _)
    · exact hoth q e
  have hsorted := g.q_sorted src
  rw [hP, List.pairwise_append] at hsorted
  have hNin : ∀ x ∈ N, x.2 ∈ popped := fun x hx => hN.subset (List.mem_map_of_mem hx)
  have hNP : ∀ x ∈ N, x.2 ∈ P src := fun x hx => by rw [hP]; exact List.mem_append_left _ (hNin x hx)
  exact {
    q_origin := fun q it hit => (g.q_origin q it ((hsub q).subset hit)).mono i
    q_sorted := fun q => (g.q_sorted q).sublist (hsub q)
    s_origin := fun x hx => by
      rcases List.mem_append.mp hx with hx | hx
      · exact (g.s_origin x hx).mono i
      · have := g.q_origin src x.2 (hNP x hx)
        rw [← hsrc x hx] at this
        exact this.mono i
    disj := fun x hx q it hit => by
      rcases List.mem_append.mp hx with hx | hx
      · exact g.disj x hx q it ((hsub q).subset hit)
      · by_cases e : q = src
        · subst e
          have h1 := hsorted.2.2 x.2 (hNin x hx) it (hP'.subset hit)
          omega
        · intro heq
          exact e (Origin.unique (g.q_origin q it ((hsub q).subset hit)) (g.q_origin src x.2 (hNP x hx)) heq)
    s_nodup := by
      rw [List.pairwise_append]
      refine ⟨g.s_nodup, ?_, ?_⟩
      · have h1 : (N.map (·.2)).Pairwise (fun x y => x.tok < y.tok) := hsorted.1.sublist hN
        rw [List.pairwise_map] at h1
        exact h1.imp (fun hlt => by omega)
      · intro a ha b hb
        exact (g.disj a ha src b.2 (hNP b hb)).symm }

/-! ### what each input does to the queues -/

theorem pending_set_sess (st : State) (sid : Nat) (s' : Sess) (q : Src) :
    pending { st with sessions := upd st.sessions sid (some s') } q = if q = .cli sid then s'.wq else pending st q := by
  cases q with
  | lst lid => simp [pending]
  | cli x =>
    simp only [pending, wqOf_upd, Src.cli.injEq]
    split <;> rfl

theorem pending_set_lst (st : State) (lid : Nat) (l' : Lst) (q : Src) :
    pending { st with listeners := upd st.listeners lid (some l') } q = if q = .lst lid then l'.wq else pending st q := by
  cases q with
  | cli sid => simp [pending]
  | lst x =>
    simp only [pending, lwqOf_upd, Src.lst.injEq]
    split <;> rfl

theorem pending_cli_of (st : State) (sid : Nat) (s : Sess) (hs : st.sessions sid = some s) : pending st (.cli sid) = s.wq := by
  simp [pending, hs, wqOf]

theorem pending_lst_of (st : State) (lid : Nat) (l : Lst) (hl : st.listeners lid = some l) : pending st (.lst lid) = l.wq := by
  simp [pending, hl, lwqOf]

/-- the three things `sendDo` can do to queues and wire -/
theorem sendDo_effect (cfg : Cfg) (tok : Nat) (st : State) (sid : Nat) (p : Bytes) (ans : Ans) :
    (QLe (sendDo cfg tok st sid p ans).1 st ∧ sentOf (sendDo cfg tok st sid p ans).2 = []) ∨
    (∃ s, st.sessions sid = some s ∧ QLe (sendDo cfg tok st sid p ans).1 st ∧
        sentOf (sendDo cfg tok st sid p ans).2 = [(homeOf sid s, ⟨tok, s.peer, p⟩)]) ∨
    (∃ s, st.sessions sid = some s ∧ sentOf (sendDo cfg tok st sid p ans).2 = [] ∧
        ∀ q, pending (sendDo cfg tok st sid p ans).1 q <+
          pending st q ++ (if q = homeOf sid s then [⟨tok, s.peer, p⟩] else [])) := by
  unfold sendDo
  cases hs : st.sessions sid with
  | none => exact Or.inl ⟨QLe.refl st, rfl⟩
  | some s =>
    dsimp only
    have hclose : ∀ (st' : State) (w : Why), QLe st' st →
        QLe (closeNow cfg st' sid w).1 st ∧ sentOf (closeNow cfg st' sid w).2 = [] :=
      fun st' w h' => ⟨(closeNow_qle cfg st' sid w).trans h', closeNow_sent cfg st' sid w⟩
    cases hr : s.role with
    | client =>
      have hhome : homeOf sid s = .cli sid := by simp [homeOf, hr]
      dsimp only
      cases kernelAns _ p ans with
      | ok =>
        refine Or.inr (Or.inl ⟨s, rfl, ?_, by simp [sentOf, hhome]⟩)
        exact qle_sess st sid _ st.peerIndex st.nextSid st.sessionsCurrent (by rw [hs]; exact Sublist.refl _)
      | eagain =>
        dsimp only
        split
        · split
          · exact Or.inl (hclose st _ (QLe.refl st))
          · refine Or.inr (Or.inr ⟨s, rfl, rfl, fun q => ?_⟩)
            rw [pending_set_sess, hhome]
            split
            · rename_i e; subst e
              rw [pending_cli_of st sid s hs]
              exact tail_sublist _
            · simp
        · refine Or.inr (Or.inr ⟨s, rfl, rfl, fun q => ?_⟩)
          rw [pending_set_sess, hhome]
          split
          · rename_i e; subst e
            rw [pending_cli_of st sid s hs]
            exact Sublist.refl _
          · simp
      | err => exact Or.inl (hclose st _ (QLe.refl st))
    | serverPeer =>
      have hhome : homeOf sid s = .lst s.owner := by simp [homeOf, hr]
      dsimp only
      cases hl : st.listeners s.owner with
      | none => exact Or.inl (hclose st _ (QLe.refl st))
      | some l =>
        dsimp only
        cases kernelAns _ p ans with
        | ok =>
          refine Or.inr (Or.inl ⟨s, rfl, ?_, by simp [sentOf, hhome]⟩)
          exact qle_sess st sid _ st.peerIndex st.nextSid st.sessionsCurrent (by rw [hs]; exact Sublist.refl _)
        | eagain =>
          dsimp only
          split
          · split
            · refine Or.inr (Or.inr ⟨s, rfl, closeNow_sent _ _ _ _, fun q => ?_⟩)
              refine ((closeNow_qle cfg _ sid _).pending q).trans ?_
              rw [pending_set_lst, hhome]
              split
              · rename_i e; subst e
                rw [pending_lst_of st _ l hl]
                exact Sublist.refl _
              · simp
            · refine Or.inr (Or.inr ⟨s, rfl, rfl, fun q => ?_⟩)
              rw [pending_set_lst, hhome]
              split
              · rename_i e; subst e
                rw [pending_lst_of st _ l hl]
                exact tail_sublist _
              · simp
          · refine Or.inr (Or.inr ⟨s, rfl, rfl, fun q => ?_⟩)
            rw [pending_set_lst, hhome]
            split
            · rename_i e; subst e
              rw [pending_lst_of st _ l hl]
              exact Sublist.refl _
            · simp
        | err => exact Or.inl (hclose st _ (QLe.refl st))

/-! ### the token invariant along every history -/

theorem snoc_induction {α : Type} {P : List α → Prop} (nil : P []) (snoc : ∀ l a, P l → P (l ++ [a])) : ∀ l, P l := by
  intro l
  generalize hn : l.length = n
  induction n generalizing l with
  | zero =>
    have : l = [] := List.eq_nil_of_length_eq_zero hn
    subst this; exact nil
  | succ k ih =>
    have hne : l ≠ [] := by intro e; subst e; simp at hn
    rw [← List.dropLast_concat_getLast hne]
    exact snoc _ _ (ih _ (by simp [hn]))

theorem ginv_step (cfg : Cfg) (h : List In) (i : In) (g : GInv cfg h (pending (run cfg h).1) (sentOf (run cfg h).2)) :
    GInv cfg (h ++ [i]) (pending (step cfg h.length (run cfg h).1 i).1)
      (sentOf (run cfg h).2 ++ sentOf (step cfg h.length (run cfg h).1 i).2) := by
  have quiet : ∀ (st' : State) (o : List Out), QLe st' (run cfg h).1 → sentOf o = [] →
      GInv cfg (h ++ [i]) (pending st') (sentOf (run cfg h).2 ++ sentOf o) := by
    intro st' o hq hs
    rw [hs, List.append_nil]
    exact g.quiet i (fun q => hq.pending q)
  generalize hst : (run cfg h).1 = st at *
  cases i with
  | listen v6 => exact quiet _ _ ⟨fun _ => Sublist.refl _, fun x => by
      simp only [step, lwqOf_upd]; split
      · exact nil_sublist _
      · exact Sublist.refl _⟩ rfl
  | recvFrom lid dgs =>
    simp only [step]; split
    · exact quiet _ _ (QLe.refl st) rfl
    · split
      · exact quiet _ _ (recvMany_qle cfg lid dgs st).1 (recvMany_qle cfg lid dgs st).2
      · exact quiet _ _ (QLe.refl st) rfl
  | clientRecv sid dgs =>
    simp only [step]; split
    · exact quiet _ _ (QLe.refl st) rfl
    · split
      · exact quiet _ _ (QLe.refl st) rfl
      · split
        · exact quiet _ _ (clientRecvMany_qle cfg sid dgs st).1 (clientRecvMany_qle cfg sid dgs st).2
        · exact quiet _ _ (QLe.refl st) rfl
  | recvKeyFail lid n =>
    simp only [step]; split
    · exact quiet _ _ (QLe.refl st) rfl
    · have hrep : ∀ k, sentOf (List.replicate k Out.error) = [] := by
        intro k; induction k with
        | zero => rfl
        | succ j ih => simp [List.replicate_succ, sentOf, ih]
      split
      · exact quiet _ _ (QLe.refl st) (hrep n)
      · exact quiet _ _ (QLe.refl st) rfl
  | viaKeyFail lid => exact quiet _ _ ⟨fun _ => Sublist.refl _, fun _ => Sublist.refl _⟩ rfl
  | connect a v6 =>
    exact quiet _ _ (qle_sess st st.nextSid _ _ _ _ (by exact nil_sublist _)) rfl
  | via lid a v6 =>
    simp only [step, viaDo]
    split
    · exact quiet _ _ ⟨fun _ => Sublist.refl _, fun _ => Sublist.refl _⟩ rfl
    · split
      · exact quiet _ _ ⟨fun _ => Sublist.refl _, fun _ => Sublist.refl _⟩ rfl
      · split
        · exact quiet _ _ ⟨fun _ => Sublist.refl _, fun _ => Sublist.refl _⟩ rfl
        · exact quiet _ _ (qle_sess st st.nextSid _ _ _ _ (by exact nil_sublist _)) rfl
  | close sid => exact quiet _ _ (closeNow_qle cfg st sid _) (closeNow_sent cfg st sid _)
  | advance ms => exact quiet _ _ ⟨fun _ => Sublist.refl _, fun _ => Sublist.refl _⟩ rfl
  | gc => exact quiet _ _ (closeAll_qle cfg _ _ st) (closeAll_sent cfg _ _ st)
  | restart => exact quiet _ _ ⟨fun _ => nil_sublist _, fun _ => nil_sublist _⟩ (drainAll_sent cfg _ st)
  | cmdSend sid p ans =>
    simp only [step]; split
    · exact quiet _ _ (QLe.refl st) rfl
    · rcases sendDo_effect cfg h.length st sid p ans with ⟨hq, hs⟩ | ⟨s, hs, hq, hsent⟩ | ⟨s, hs, hsent, hsub⟩
      · exact quiet _ _ hq hs
      · rw [hsent]
        exact g.direct _ (fun q => hq.pending q) _ _ (Origin.new cfg h sid p ans s (by rw [hst]; exact hs)) rfl
      · rw [hsent, List.append_nil]
        exact g.enqueue _ _ _ (Origin.new cfg h sid p ans s (by rw [hst]; exact hs)) rfl hsub
  | writableL lid as =>
    simp only [step, flushListener]
    cases hl : st.listeners lid with
    | none => exact quiet _ _ (QLe.refl st) rfl
    | some l =>
      dsimp only
      split
      · obtain ⟨popped, h1, h2, h3⟩ := flushLoopL_shape lid (overV6 cfg l.v6) l.wq as
        refine g.flush _ (.lst lid) popped (flushLoopL lid (overV6 cfg l.v6) l.wq as).1 _ ?_ ?_ ?_ h2 h3
        · rw [pending_lst_of st lid l hl]; exact h1
        · rw [pending_set_lst]; simp
        · intro q hq; rw [pending_set_lst]; simp [hq]
      · exact quiet _ _ (QLe.refl st) rfl
  | writableC sid as =>
    simp only [step, writeClient]
    cases hs : st.sessions sid with
    | none => exact quiet _ _ (QLe.refl st) rfl
    | some s =>
      dsimp only
      cases hr : s.role with
      | serverPeer => exact quiet _ _ (QLe.refl st) rfl
      | client =>
        dsimp only
        split
        · obtain ⟨popped, h1, h2, h3⟩ := flushLoopC_shape sid (overV6 cfg s.v6) s.wq as
          split
          · rw [sentOf_append, closeNow_sent, List.append_nil]
            refine g.flush _ (.cli sid) popped (flushLoopC sid (overV6 cfg s.v6) s.wq as).1 _ ?_ ?_ ?_ h2 h3
            · rw [pending_cli_of st sid s hs]; exact h1
            · refine ((closeNow_qle cfg _ sid _).pending _).trans ?_
              rw [pending_set_sess]; simp
            · intro q hq
              refine ((closeNow_qle cfg _ sid _).pending _).trans ?_
              rw [pending_set_sess]; simp [hq]
          · refine g.flush _ (.cli sid) popped (flushLoopC sid (overV6 cfg s.v6) s.wq as).1 _ ?_ ?_ ?_ h2 h3
            · rw [pending_cli_of st sid s hs]; exact h1
            · rw [pending_set_sess]; simp
            · intro q hq; rw [pending_set_sess]; simp [hq]
        · exact quiet _ _ (QLe.refl st) rfl

theorem ginv_run (cfg : Cfg) : ∀ h : List In, GInv cfg h (pending (run cfg h).1) (sentOf (run cfg h).2) := by
  apply snoc_induction
  · have hp : ∀ q, pending (run cfg []).1 q = [] := by intro q; cases q <;> rfl
    exact { q_origin := fun q it hit => by rw [hp] at hit; cases hit
            q_sorted := fun q => by rw [hp]; exact Pairwise.nil
            s_origin := fun x hx => by cases hx
            disj := fun x hx => by cases hx
            s_nodup := Pairwise.nil }
  · intro h i g
    rw [run_snoc]
    dsimp only
    rw [sentOf_append]
    exact ginv_step cfg h i g

/-- **at most one datagram per accepted send**: no two `sent` events of a run carry the same token -/
theorem sent_tokens_distinct (cfg : Cfg) (h : List In) : (sentOf (run cfg h).2).Pairwise (fun x y => x.2.tok ≠ y.2.tok) :=
  (ginv_run cfg h).s_nodup

/-- **byte-identical and addressed to the session's peer**: a `sent` event with token `t` is justified by input number `t` -/
theorem sent_faithful (cfg : Cfg) (h : List In) (src : Src) (d : Nat) (b : Bytes) (t : Nat)
    (hs : Out.sent src d b t ∈ (run cfg h).2) :
    ∃ (sid : Nat) (ans : Ans) (s : Sess), h[t]? = some (In.cmdSend sid b ans) ∧
      (run cfg (h.take t)).1.sessions sid = some s ∧ s.peer = d ∧ src = homeOf sid s :=
  (ginv_run cfg h).s_origin (src, ⟨t, d, b⟩) (mem_sentOf.mpr hs)

end Iora.Udp
