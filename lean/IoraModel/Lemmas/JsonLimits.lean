import IoraModel.Lemmas.JsonSort
/-! Lemmas for J4 (limits) and J5 (duplicate keys) of C13: what every *accepted* value satisfies, for arbitrary input bytes. -/
namespace Iora.Json
open Iora Iora.Json.Spec

/-- slack of the string-length guard: it runs before the append, and a `\u` escape appends up to 4 bytes -/
def strSlack : Nat := 4

theorem utf8_length_le (cp : Nat) : (utf8 cp).length ≤ 4 := by
  unfold utf8
  split
  · simp
  · split
    · simp
    · split <;> simp

theorem strLoop_len (lim : Limits) : ∀ (fuel : Nat) (racc : Bytes) (n : Nat) (c : Cur) (s : Bytes) (c' : Cur),
    n = racc.length → n ≤ lim.stringLengthMax + strSlack → strLoop lim fuel racc n c = .ok (s, c') →
    s.length ≤ lim.stringLengthMax + strSlack := by
  intro fuel
  induction fuel with
  | zero => intro racc n c s c' _ _ h; simp [strLoop] at h
  | succ fuel ih =>
    intro racc n c s c' hn hle h
    obtain ⟨rest, pos⟩ := c
    cases rest with
    | nil => simp [strLoop] at h
    | cons b r =>
      simp only [strLoop] at h
      split at h
      · simp only [Except.ok.injEq, Prod.mk.injEq] at h
        obtain ⟨rfl, -⟩ := h
        simp only [List.length_reverse]; omega
      · split at h
        · cases h
        · rename_i hx
          have hx' : n ≤ lim.stringLengthMax := Nat.le_of_not_lt (fun h' => hx ((stringExceeded_iff _ _).mpr h'))
          split at h
          · cases r with
            | nil => cases h
            | cons e r2 =>
              simp only at h
              split at h
              · cases hd : decodeU r2 with
                | none => simp [hd] at h
                | some x =>
                  obtain ⟨cp, k⟩ := x
                  simp only [hd] at h
                  have := utf8_length_le cp
                  exact ih _ _ _ s c' (by simp [hn]; omega) (by simp only [strSlack] at *; omega) h
              · cases hl : Gen.Json.parseEscapes.lookup e.toNat with
                | none => simp [hl] at h
                | some o' =>
                  simp only [hl] at h
                  exact ih _ _ _ s c' (by simp [hn]) (by simp only [strSlack] at *; omega) h
          · exact ih _ _ _ s c' (by simp [hn]) (by simp only [strSlack] at *; omega) h

theorem parseString_len (lim : Limits) (c : Cur) (s : Bytes) (c' : Cur) (h : parseString lim c = .ok (s, c')) :
    s.length ≤ lim.stringLengthMax + strSlack := by
  obtain ⟨rest, pos⟩ := c
  cases rest with
  | nil => simp [parseString] at h
  | cons b r =>
    simp only [parseString] at h
    split at h
    · exact strLoop_len lim _ [] 0 _ s c' rfl (by omega) h
    · cases h

/-! ### `insertOrAssign` -/

theorem mem_insertOrAssign {k : Bytes} {v : Json} {ms : List (Bytes × Json)} {kv : Bytes × Json}
    (h : kv ∈ insertOrAssign k v ms) : kv ∈ ms ∨ kv = (k, v) := by
  induction ms with
  | nil => simp only [insertOrAssign, List.mem_singleton] at h; exact Or.inr h
  | cons m ms ih =>
    obtain ⟨k', v'⟩ := m
    simp only [insertOrAssign] at h
    split at h
    · rename_i hk
      simp only [List.mem_cons] at h ⊢
      rcases h with h | h
      · right; rw [h, hk]
      · left; right; exact h
    · simp only [List.mem_cons] at h ⊢
      rcases h with h | h
      · left; left; exact h
      · rcases ih h with h | h
        · left; right; exact h
        · right; exact h

theorem keys_insertOrAssign (k : Bytes) (v : Json) (ms : List (Bytes × Json)) :
    (insertOrAssign k v ms).map Prod.fst = if k ∈ ms.map Prod.fst then ms.map Prod.fst else ms.map Prod.fst ++ [k] := by
  induction ms with
  | nil => simp [insertOrAssign]
  | cons m ms ih =>
    obtain ⟨k', v'⟩ := m
    simp only [insertOrAssign]
    by_cases hk : k' = k
    · simp [hk]
    · have hk' : ¬ k = k' := fun e => hk e.symm
      simp only [hk, ↓reduceIte, List.map_cons, ih, List.mem_cons, hk', false_or]
      split <;> simp

theorem nodup_insertOrAssign (k : Bytes) (v : Json) (ms : List (Bytes × Json)) (h : (ms.map Prod.fst).Nodup) :
    ((insertOrAssign k v ms).map Prod.fst).Nodup := by
  rw [keys_insertOrAssign]
  split
  · exact h
  · rename_i hk
    rw [List.nodup_append]
    exact ⟨h, by simp, fun a ha b hb => by simp only [List.mem_singleton] at hb; subst hb; exact fun e => hk (e ▸ ha)⟩

/-- **J5 (core)**: after `obj[k] = v` a lookup of `k` yields `v`, every other key is unchanged -/
theorem lookupKey_insertOrAssign (k k' : Bytes) (v : Json) (ms : List (Bytes × Json)) :
    lookupKey k' (insertOrAssign k v ms) = if k = k' then some v else lookupKey k' ms := by
  induction ms with
  | nil => simp [insertOrAssign, lookupKey]
  | cons m ms ih =>
    obtain ⟨k0, v0⟩ := m
    simp only [insertOrAssign]
    by_cases h0 : k0 = k
    · subst h0
      simp only [↓reduceIte, lookupKey]
      split <;> rfl
    · simp only [h0, ↓reduceIte, lookupKey, ih]
      by_cases h1 : k0 = k'
      · have : ¬ k = k' := fun e => h0 (h1.trans e.symm)
        simp [h1, this]
      · simp [h1]

/-- the value of the LAST member named `k` in an object's member list, if any -/
def Spec.SMembers.lastValue (ops : FloatOps) (k : Bytes) : SMembers → Option Json
  | .nil => none
  | .cons _ k' _ _ v _ tl =>
    match tl.lastValue ops k with
    | some x => some x
    | none => if denoteItems k' = k then some (v.denote ops) else none

/-- **J5**: the decoded object maps `k` to the value of the last member named `k` (earlier duplicates are overwritten) -/
theorem lookupKey_denote (ops : FloatOps) (k : Bytes) : ∀ (ms : SMembers) (acc : List (Bytes × Json)),
    lookupKey k (ms.denote ops acc) = match ms.lastValue ops k with | some x => some x | none => lookupKey k acc
  | .nil, acc => by simp [SMembers.denote, SMembers.lastValue]
  | .cons w1 k' w2 w3 v w4 tl, acc => by
    simp only [SMembers.denote, SMembers.lastValue]
    rw [lookupKey_denote ops k tl]
    cases tl.lastValue ops k with
    | some x => rfl
    | none =>
      simp only [lookupKey_insertOrAssign]
      split <;> rfl

/-! ### every accepted value is within the limits and is a map (distinct keys) -/

/-- what holds of every value the parser returns at nesting depth `d` -/
def Accepted (lim : Limits) (d : Nat) (v : Json) : Prop := v.within lim strSlack d ∧ v.distinctKeys

theorem distinctKeysMembers_iff (ms : List (Bytes × Json)) : Json.distinctKeysMembers ms ↔ ∀ kv ∈ ms, kv.2.distinctKeys := by
  induction ms with
  | nil => simp [Json.distinctKeysMembers]
  | cons m ms ih => obtain ⟨k, v⟩ := m; simp [Json.distinctKeysMembers, ih]

theorem distinctKeysList_iff (xs : List Json) : Json.distinctKeysList xs ↔ ∀ x ∈ xs, x.distinctKeys := by
  induction xs with
  | nil => simp [Json.distinctKeysList]
  | cons x xs ih => simp [Json.distinctKeysList, ih]

theorem arrLoop_accepted {pv : Cur → Res Json} (lim : Limits) (depth : Nat) (hd : depth ≤ lim.depthMax)
    (hpv : ∀ c v c', pv c = .ok (v, c') → Accepted lim (depth + 1) v) :
    ∀ (fuel : Nat) (racc : List Json) (n : Nat) (c : Cur) (v : Json) (c' : Cur),
    n = racc.length → (∀ x ∈ racc, Accepted lim (depth + 1) x) → arrLoop pv lim fuel racc n c = .ok (v, c') →
    Accepted lim depth v := by
  intro fuel
  induction fuel with
  | zero => intro racc n c v c' _ _ h; simp [arrLoop] at h
  | succ fuel ih =>
    intro racc n c v c' hn hall h
    simp only [arrLoop] at h
    split at h
    · cases h
    · rename_i hx
      have hx' : n < lim.arrayItemsMax := Nat.lt_of_not_le (fun h' => hx ((arrayExceeded_iff _ _).mpr h'))
      cases hr : pv c with
      | error e => simp [hr] at h
      | ok y =>
        obtain ⟨x, c1⟩ := y
        have hxa := hpv c x c1 hr
        simp only [hr] at h
        cases h2 : (skipWs c1).rest with
        | nil => simp [h2] at h
        | cons b r =>
          simp only [h2] at h
          have hall' : ∀ y ∈ x :: racc, Accepted lim (depth + 1) y := by
            intro y hy
            simp only [List.mem_cons] at hy
            rcases hy with rfl | hy
            · exact hxa
            · exact hall y hy
          split at h
          · simp only [Except.ok.injEq, Prod.mk.injEq] at h
            obtain ⟨rfl, -⟩ := h
            refine ⟨?_, ?_⟩
            · simp only [Json.within, withinList_iff, List.length_reverse, List.length_cons, List.mem_reverse]
              exact ⟨hd, by omega, fun y hy => (hall' y hy).1⟩
            · simp only [Json.distinctKeys, distinctKeysList_iff, List.mem_reverse]
              exact fun y hy => (hall' y hy).2
          · split at h
            · exact ih _ _ _ v c' (by simp [hn]) hall' h
            · cases h

theorem objLoop_accepted {pv : Cur → Res Json} (lim : Limits) (depth : Nat) (hd : depth ≤ lim.depthMax)
    (hpv : ∀ c v c', pv c = .ok (v, c') → Accepted lim (depth + 1) v) :
    ∀ (fuel : Nat) (ms : List (Bytes × Json)) (c : Cur) (v : Json) (c' : Cur),
    (ms.map Prod.fst).Nodup → (∀ kv ∈ ms, kv.1.length ≤ lim.stringLengthMax + strSlack ∧ Accepted lim (depth + 1) kv.2) →
    objLoop pv lim fuel ms c = .ok (v, c') → Accepted lim depth v := by
  intro fuel
  induction fuel with
  | zero => intro ms c v c' _ _ h; simp [objLoop] at h
  | succ fuel ih =>
    intro ms c v c' hnd hall h
    simp only [objLoop] at h
    split at h
    · cases h
    · rename_i hx
      have hx' : ms.length < lim.membersMax := Nat.lt_of_not_le (fun h' => hx ((membersExceeded_iff _ _).mpr h'))
      cases hr : parseString lim c with
      | error e => simp [hr] at h
      | ok y =>
        obtain ⟨k, c1⟩ := y
        have hk := parseString_len lim c k c1 hr
        simp only [hr] at h
        cases h2 : (skipWs c1).rest with
        | nil => simp [h2] at h
        | cons b r =>
          simp only [h2] at h
          split at h
          · cases h
          · cases hr3 : pv ⟨r, (skipWs c1).pos + 1⟩ with
            | error e => simp [hr3] at h
            | ok y3 =>
              obtain ⟨x, c3⟩ := y3
              have hxa := hpv _ x c3 hr3
              simp only [hr3] at h
              cases h4 : (skipWs c3).rest with
              | nil => simp [h4] at h
              | cons b4 r4 =>
                simp only [h4] at h
                have hnd' := nodup_insertOrAssign k x ms hnd
                have hall' : ∀ kv ∈ insertOrAssign k x ms,
                    kv.1.length ≤ lim.stringLengthMax + strSlack ∧ Accepted lim (depth + 1) kv.2 := by
                  intro kv hkv
                  rcases mem_insertOrAssign hkv with hm | rfl
                  · exact hall kv hm
                  · exact ⟨hk, hxa⟩
                have hlen := Spec.insertOrAssign_length_le k x ms
                split at h
                · simp only [Except.ok.injEq, Prod.mk.injEq] at h
                  obtain ⟨rfl, -⟩ := h
                  refine ⟨?_, ?_⟩
                  · simp only [Json.within, withinMembers_iff]
                    exact ⟨hd, by omega, fun kv hkv => ⟨(hall' kv hkv).1, (hall' kv hkv).2.1⟩⟩
                  · simp only [Json.distinctKeys, distinctKeysMembers_iff]
                    exact ⟨hnd', fun kv hkv => (hall' kv hkv).2.2⟩
                · split at h
                  · exact ih _ _ v c' hnd' hall' h
                  · cases h

theorem parseArray_accepted {pv : Cur → Res Json} (lim : Limits) (depth : Nat) (hd : depth ≤ lim.depthMax)
    (hpv : ∀ c v c', pv c = .ok (v, c') → Accepted lim (depth + 1) v) (c : Cur) (v : Json) (c' : Cur)
    (h : parseArray pv lim c = .ok (v, c')) : Accepted lim depth v := by
  simp only [parseArray] at h
  split at h
  · split at h
    · simp only [Except.ok.injEq, Prod.mk.injEq] at h
      obtain ⟨rfl, -⟩ := h
      exact ⟨by simp [Json.within, Json.withinList, hd], by simp [Json.distinctKeys, Json.distinctKeysList]⟩
    · exact arrLoop_accepted lim depth hd hpv _ [] 0 _ v c' rfl (fun _ h => by cases h) h
  · exact arrLoop_accepted lim depth hd hpv _ [] 0 _ v c' rfl (fun _ h => by cases h) h

theorem parseObject_accepted {pv : Cur → Res Json} (lim : Limits) (depth : Nat) (hd : depth ≤ lim.depthMax)
    (hpv : ∀ c v c', pv c = .ok (v, c') → Accepted lim (depth + 1) v) (c : Cur) (v : Json) (c' : Cur)
    (h : parseObject pv lim c = .ok (v, c')) : Accepted lim depth v := by
  simp only [parseObject] at h
  split at h
  · split at h
    · simp only [Except.ok.injEq, Prod.mk.injEq] at h
      obtain ⟨rfl, -⟩ := h
      exact ⟨by simp [Json.within, Json.withinMembers, hd], by simp [Json.distinctKeys, Json.distinctKeysMembers]⟩
    · exact objLoop_accepted lim depth hd hpv _ [] _ v c' (by simp) (fun _ h => by cases h) h
  · exact objLoop_accepted lim depth hd hpv _ [] _ v c' (by simp) (fun _ h => by cases h) h

theorem scalar_accepted {lim : Limits} {depth : Nat} (hd : depth ≤ lim.depthMax) (v : Json)
    (h : (∀ s, v ≠ .str s) ∧ (∀ xs, v ≠ .arr xs) ∧ (∀ ms, v ≠ .obj ms)) : Accepted lim depth v := by
  cases v with
  | str s => exact absurd rfl (h.1 s)
  | arr xs => exact absurd rfl (h.2.1 xs)
  | obj ms => exact absurd rfl (h.2.2 ms)
  | null => exact ⟨by simp [Json.within, hd], by simp [Json.distinctKeys]⟩
  | bool b => exact ⟨by simp [Json.within, hd], by simp [Json.distinctKeys]⟩
  | int i => exact ⟨by simp [Json.within, hd], by simp [Json.distinctKeys]⟩
  | dbl d => exact ⟨by simp [Json.within, hd], by simp [Json.distinctKeys]⟩

theorem parseValue_accepted (ops : FloatOps) (lim : Limits) : ∀ (fuel depth : Nat) (c : Cur) (v : Json) (c' : Cur),
    parseValue ops lim fuel depth c = .ok (v, c') → Accepted lim depth v := by
  intro fuel
  induction fuel with
  | zero => intro depth c v c' h; simp [parseValue] at h
  | succ fuel ih =>
    intro depth c v c' h
    simp only [parseValue] at h
    split at h
    · cases h
    · rename_i hx
      have hd : depth ≤ lim.depthMax := Nat.le_of_not_lt (fun h' => hx ((depthExceeded_iff _ _).mpr h'))
      have hpv : ∀ c v c', parseValue ops lim fuel (depth + 1) c = .ok (v, c') → Accepted lim (depth + 1) v :=
        fun c v c' h => ih (depth + 1) c v c' h
      cases h1 : (skipWs c).rest with
      | nil => simp [h1] at h
      | cons b r =>
        simp only [h1] at h
        split at h
        · simp only [parseNull] at h
          split at h
          · simp only [Except.ok.injEq, Prod.mk.injEq] at h; obtain ⟨rfl, -⟩ := h
            exact scalar_accepted hd _ (by simp)
          · cases h
        · split at h
          · simp only [parseBool] at h
            split at h
            · simp only [Except.ok.injEq, Prod.mk.injEq] at h; obtain ⟨rfl, -⟩ := h
              exact scalar_accepted hd _ (by simp)
            · split at h
              · simp only [Except.ok.injEq, Prod.mk.injEq] at h; obtain ⟨rfl, -⟩ := h
                exact scalar_accepted hd _ (by simp)
              · cases h
          · split at h
            · cases hr : parseString lim (skipWs c) with
              | error e => simp [hr] at h
              | ok y =>
                obtain ⟨s, c1⟩ := y
                simp only [hr, Except.ok.injEq, Prod.mk.injEq] at h
                obtain ⟨rfl, -⟩ := h
                exact ⟨by simp only [Json.within]; exact ⟨hd, parseString_len lim _ s c1 hr⟩, by simp [Json.distinctKeys]⟩
            · split at h
              · exact parseArray_accepted lim depth hd hpv _ v c' h
              · split at h
                · exact parseObject_accepted lim depth hd hpv _ v c' h
                · split at h
                  · simp only [parseNumber] at h
                    cases hs : scanNumber (skipWs c) with
                    | error p => simp [hs] at h
                    | ok y =>
                      obtain ⟨f, c3⟩ := y
                      simp only [hs, Except.ok.injEq, Prod.mk.injEq] at h
                      obtain ⟨rfl, -⟩ := h
                      apply scalar_accepted hd
                      unfold convertNumber
                      split
                      · simp
                      · split <;> simp
                  · cases h

/-- **J4 (limits)** and the map shape, for arbitrary bytes: whatever `parse` accepts respects the limits -/
theorem parse_accepted (ops : FloatOps) (lim : Limits) (bs : Bytes) (v : Json) (h : parse ops lim bs = .ok v) :
    Accepted lim 0 v := by
  unfold parse at h
  cases h1 : (skipWs ⟨bs, 0⟩).rest with
  | nil => simp [h1] at h
  | cons b r =>
    simp only [h1] at h
    cases hr : parseValue ops lim (lim.depthMax + 2) 0 (skipWs ⟨bs, 0⟩) with
    | error e => simp [hr] at h
    | ok y =>
      obtain ⟨x, c1⟩ := y
      simp only [hr] at h
      cases h2 : (skipWs c1).rest with
      | nil =>
        simp only [h2, Except.ok.injEq] at h
        subst h
        exact parseValue_accepted ops lim _ 0 _ x c1 hr
      | cons b2 r2 => simp [h2] at h

end Iora.Json

namespace Iora.Json
open Iora

/-! ### `_appendUtf8` against Lean's own UTF-8 encoder -/

/-- `_appendUtf8` computes exactly core Lean's `String.utf8EncodeChar` (the reference encoder) on every `Char` -/
theorem utf8_eq_core (c : Char) : utf8 c.val.toNat = String.utf8EncodeChar c := by
  unfold utf8 String.utf8EncodeChar
  rfl

theorem isHiSurr_iff (v : Nat) : isHiSurr v = true ↔ 0xD800 ≤ v ∧ v ≤ 0xDBFF := by
  have h : isHiSurr v = true ↔ Gen.Json.hiSurrLo ≤ v ∧ v ≤ Gen.Json.hiSurrHi := by simp [isHiSurr]
  exact h

theorem isLoSurr_iff (v : Nat) : isLoSurr v = true ↔ 0xDC00 ≤ v ∧ v ≤ 0xDFFF := by
  have h : isLoSurr v = true ↔ Gen.Json.loSurrLo ≤ v ∧ v ≤ Gen.Json.loSurrHi := by simp [isLoSurr]
  exact h

theorem hexVal_lt {b : UInt8} {v : Nat} (h : hexVal b = some v) : v < 16 := by
  unfold hexVal at h
  split at h
  · rename_i hb
    simp only [Option.some.injEq] at h; subst h
    have := hb.2; rw [UInt8.le_iff_toNat_le] at this; simp at this; omega
  · split at h
    · rename_i hb
      simp only [Option.some.injEq] at h; subst h
      have h1 := hb.1; have h2 := hb.2
      rw [UInt8.le_iff_toNat_le] at h1 h2; simp at h1 h2; omega
    · split at h
      · rename_i hb
        simp only [Option.some.injEq] at h; subst h
        have h1 := hb.1; have h2 := hb.2
        rw [UInt8.le_iff_toNat_le] at h1 h2; simp at h1 h2; omega
      · cases h

theorem parseHex4_lt {r : Bytes} {v : Nat} (h : parseHex4 r = some v) : v < 65536 := by
  match r with
  | [] | [_] | [_, _] | [_, _, _] => simp [parseHex4] at h
  | a :: b :: c :: d :: _ =>
    simp only [parseHex4] at h
    cases ha : hexVal a with
    | none => simp [ha] at h
    | some va =>
      cases hb : hexVal b with
      | none => simp [ha, hb] at h
      | some vb =>
        cases hc : hexVal c with
        | none => simp [ha, hb, hc] at h
        | some vc =>
          cases hd : hexVal d with
          | none => simp [ha, hb, hc, hd] at h
          | some vd =>
            simp only [ha, hb, hc, hd, Option.some.injEq] at h
            have := hexVal_lt ha; have := hexVal_lt hb; have := hexVal_lt hc; have := hexVal_lt hd
            omega

/-- every `\u` escape (single or surrogate pair, also a lone surrogate) is decoded to a Unicode scalar value -/
theorem decodeU_scalar {r : Bytes} {cp k : Nat} (h : decodeU r = some (cp, k)) : cp < 0x110000 ∧ ¬ (0xD800 ≤ cp ∧ cp ≤ 0xDFFF) := by
  unfold decodeU at h
  cases hp : parseHex4 r with
  | none => simp [hp] at h
  | some v =>
    have hv := parseHex4_lt hp
    simp only [hp] at h
    split at h
    · rename_i hh
      rw [isHiSurr_iff] at hh
      cases hl : lowSurrogate (r.drop Gen.Json.hexAdvance) with
      | none =>
        simp only [hl, Option.some.injEq, Prod.mk.injEq] at h
        obtain ⟨rfl, -⟩ := h
        simp [Gen.Json.replacementCp]
      | some lo =>
        simp only [hl, Option.some.injEq, Prod.mk.injEq] at h
        obtain ⟨rfl, -⟩ := h
        have hlo : 0xDC00 ≤ lo ∧ lo ≤ 0xDFFF := by
          unfold lowSurrogate at hl
          split at hl
          · split at hl
            · split at hl
              · split at hl
                · rename_i hlo
                  simp only [Option.some.injEq] at hl; subst hl
                  exact (isLoSurr_iff _).mp hlo
                · cases hl
              · cases hl
            · cases hl
          · cases hl
        simp only [Gen.Json.supplementaryBase, Gen.Json.hiSurrLo, Gen.Json.surrogateShift, Gen.Json.loSurrLo]
        omega
    · rename_i hh
      split at h
      · simp only [Option.some.injEq, Prod.mk.injEq] at h
        obtain ⟨rfl, -⟩ := h
        simp [Gen.Json.replacementCp]
      · rename_i hl
        simp only [Option.some.injEq, Prod.mk.injEq] at h
        obtain ⟨rfl, -⟩ := h
        rw [isHiSurr_iff] at hh
        rw [isLoSurr_iff] at hl
        omega

/-- ... and appended as the well-formed UTF-8 encoding of that scalar value -/
theorem decodeU_utf8 {r : Bytes} {cp k : Nat} (h : decodeU r = some (cp, k)) :
    ∃ c : Char, c.val.toNat = cp ∧ utf8 cp = String.utf8EncodeChar c := by
  have hs := decodeU_scalar h
  have hv : cp < 0xD800 ∨ (0xDFFF < cp ∧ cp < 0x110000) := by omega
  refine ⟨Char.ofNat cp, ?_, ?_⟩
  · have : (Char.ofNat cp).val.toNat = cp := by
      unfold Char.ofNat
      rw [dif_pos (by simp [Nat.isValidChar]; omega)]
      simp [Char.ofNatAux, UInt32.toNat_ofNatLT]
    exact this
  · have : (Char.ofNat cp).val.toNat = cp := by
      unfold Char.ofNat
      rw [dif_pos (by simp [Nat.isValidChar]; omega)]
      simp [Char.ofNatAux, UInt32.toNat_ofNatLT]
    rw [← utf8_eq_core, this]

end Iora.Json
