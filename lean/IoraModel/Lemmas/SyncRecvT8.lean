import IoraModel.Lemmas.SyncRecvG
/-! T8: nothing is delivered through the data callback for a session after its close.  `Quiet` is preserved by EVERY disciplined
step — mode switches of the dead id included: `setReadMode` is a no-op for a closed tombstone (FC02a), and once the tombstone has been
reclaimed whatever buffer the id gets again stays empty (nothing arrives for a dead id) — and a quiet session's steps emit no `cbData`. -/
namespace Iora.SyncRecv
open Iora
set_option linter.unusedSimpArgs false
set_option linter.unusedVariables false

/-- no flusher of the session holds bytes it has taken out of the buffer and not yet handed to the callback -/
def noHold (x : Sess) : Bool := match x.flush with | some (.holding _) => false | _ => true

/-- (a) the close has been processed and the tombstone is still there: no flush is in progress (and `setReadMode` ignores the id) -/
def QuietA (x : Sess) : Prop := x.dead = true ∧ tomb x = true ∧ x.flush = none

/-- (b) the close has been processed and nothing is buffered or held (the tombstone was drained to EOF or reclaimed by the GC; a
buffer the application creates again for the dead id stays empty): a flush of the id finds nothing to deliver -/
def QuietB (x : Sess) : Prop := x.dead = true ∧ bufData x = [] ∧ noHold x = true

/-- a closed session nothing can be delivered for -/
def QuietS (x : Sess) : Prop := QuietA x ∨ QuietB x

/-- `QuietS` plus: the I/O thread is not about to hand a chunk of this session to the callback -/
def Quiet (s : State) (sid : Nat) : Prop := QuietS (s.sess sid) ∧ pendO s sid = none

theorem QuietS.dead {x : Sess} (h : QuietS x) : x.dead = true := by
  rcases h with h | h <;> exact h.1

theorem wake_quiet {x : Sess} (r : Bool) (h : QuietS x) : QuietS (wake x r) := by
  unfold wake
  rcases h with h | h
  · left; split <;> simpa [QuietA, tomb] using h
  · right; split <;> simpa [QuietB, bufData, noHold] using h

theorem drain_quietA {x : Sess} {b : Buf} (len : Nat) (hb : x.buf = some b) (h : QuietA x) : QuietS (drain x b len).1 := by
  obtain ⟨h1, h2, h3⟩ := h
  have hc : b.closed = true := by simpa [tomb, hb] using h2
  unfold drain
  split
  · left; simp [QuietA, tomb, h1, h3, hc]
  · split
    · left; simp [QuietA, tomb, h1, h3, hc, hb]
    · right; simp [hc, QuietB, bufData, noHold, h1, h3]

theorem drain_quietB {x : Sess} {b : Buf} (len : Nat) (hb : x.buf = some b) (h : QuietB x) : QuietB (drain x b len).1 := by
  obtain ⟨h1, h2, h3⟩ := h
  have hd : b.data = [] := by simpa [bufData, hb] using h2
  unfold drain
  simp only [hd, ne_eq, not_true_eq_false, if_false]
  (repeat' split) <;> simp_all [QuietB, bufData, noHold]

theorem recvEnterS_quiet {sh : Bool} {x : Sess} (len : Nat) (h : QuietS x) : QuietS (recvEnterS sh x len).1 := by
  unfold recvEnterS
  split
  · exact h
  · rcases h with h | h
    · obtain ⟨h1, h2, h3⟩ := h
      cases hb : x.buf with
      | none => simp [tomb, hb] at h2
      | some b =>
        have hA : QuietA { x with buf := some b } := ⟨h1, by simpa [tomb, hb] using h2, h3⟩
        simp only []
        split
        · exact Or.inl hA
        · split
          · exact drain_quietA len rfl hA
          · left; exact ⟨h1, by simpa [tomb, hb] using h2, h3⟩
    · obtain ⟨h1, h2, h3⟩ := h
      cases hb : x.buf with
      | none =>
        have hB : QuietB { x with buf := some ({} : Buf) } := ⟨h1, by simp [bufData], by simpa [noHold] using h3⟩
        simp only []
        split
        · exact Or.inr hB
        · split
          · exact Or.inr (drain_quietB len rfl hB)
          · right; exact ⟨h1, by simp [bufData], by simpa [noHold] using h3⟩
      | some b =>
        have hB : QuietB { x with buf := some b } := ⟨h1, by simpa [bufData, hb] using h2, by simpa [noHold] using h3⟩
        simp only []
        split
        · exact Or.inr hB
        · split
          · exact Or.inr (drain_quietB len rfl hB)
          · right; exact ⟨h1, by simpa [bufData, hb] using h2, by simpa [noHold] using h3⟩

theorem recvWakeS_quiet {sh : Bool} {x : Sess} (t : Bool) (h : QuietS x) : QuietS (recvWakeS sh x t).1 := by
  unfold recvWakeS
  split
  · rename_i p b hp hb
    split
    · rcases h with h | h
      · exact drain_quietA _ hb h
      · exact Or.inr (drain_quietB _ hb h)
    · split
      · rcases h with h | h
        · left; obtain ⟨h1, h2, h3⟩ := h; exact ⟨h1, by simpa [tomb] using h2, h3⟩
        · right; obtain ⟨h1, h2, h3⟩ := h; exact ⟨h1, by simpa [bufData] using h2, by simpa [noHold] using h3⟩
      · rcases h with h | h
        · left; obtain ⟨h1, h2, h3⟩ := h; exact ⟨h1, by simpa [tomb] using h2, h3⟩
        · right; obtain ⟨h1, h2, h3⟩ := h; exact ⟨h1, by simpa [bufData] using h2, by simpa [noHold] using h3⟩
  · exact h

/-- `setReadMode` on a quiet id, WHATEVER the requested mode: a tombstone is left alone (FC02a); without one the switch registers a mode,
at most creates an EMPTY buffer or begins a flush that will find nothing -/
theorem setModeS_quiet {cfg : Cfg} {x : Sess} (m : Mode) (h : QuietS x) : QuietS (setModeS cfg x m).1 := by
  unfold setModeS
  split
  · exact h
  · split
    · exact h
    · rename_i ht
      rcases h with h | h
      · exact absurd h.2.1 ht
      · right
        obtain ⟨h1, h2, h3⟩ := h
        split
        · exact ⟨h1, by simpa [bufData] using h2, by simp [noHold]⟩
        · cases m <;> cases hb : x.buf <;> simp_all [QuietB, bufData, noHold]

/-- a flush step of a quiet id changes nothing the callback could see: it never has bytes to take, never holds any -/
theorem flushStepS_quiet {sh : Bool} {x : Sess} (sid : Nat) (h : QuietS x) :
    QuietS (flushStepS sh x).1 ∧ ∀ d, Ev.cbData sid d ∉ evFlush sid (flushStepS sh x).2 := by
  rcases h with h | h
  · obtain ⟨h1, h2, h3⟩ := h
    have : flushStepS sh x = (x, .none) := by unfold flushStepS; simp [h3]
    rw [this]
    exact ⟨Or.inl ⟨h1, h2, h3⟩, by simp [evFlush]⟩
  · obtain ⟨h1, h2, h3⟩ := h
    unfold flushStepS
    split
    · exact ⟨Or.inr ⟨h1, h2, h3⟩, by simp [evFlush]⟩
    · rename_i hf
      split
      · exact ⟨Or.inr ⟨h1, by simpa [bufData] using h2, by simp [noHold]⟩, by simp [evFlush]⟩
      · split
        · exact ⟨Or.inr ⟨h1, by simpa [bufData] using h2, by simp [noHold]⟩, by simp [evFlush]⟩
        · exact ⟨Or.inr ⟨h1, by simpa [bufData] using h2, by simp [noHold]⟩, by simp [evFlush]⟩
    · rename_i hf
      split
      · exact ⟨Or.inr ⟨h1, by simpa [bufData] using h2, by simp [noHold]⟩, by simp [evFlush]⟩
      · split
        · rename_i b hb
          have hd : b.data = [] := by simpa [bufData, hb] using h2
          simp only [hd, ne_eq, not_true_eq_false, if_false]
          exact ⟨Or.inr ⟨h1, by simp [bufData, hb, hd], by simp [noHold]⟩, by simp [evFlush]⟩
        · exact ⟨Or.inr ⟨h1, by simpa [bufData] using h2, by simp [noHold]⟩, by simp [evFlush]⟩
    · rename_i d hf
      simp [noHold, hf] at h3
    · exact ⟨Or.inr ⟨h1, by simpa [bufData] using h2, by simp [noHold]⟩, by simp [evFlush]⟩

/-- the close of a session on which no flush is in progress leaves it quiet — and, more precisely, with a closed tombstone and NO
`readModes` entry, whatever was buffered (the handler erases the entry unconditionally) -/
theorem ioCloseS_quiet (cfg : Cfg) (x : Sess) (hf : x.flush = none) :
    QuietA (ioCloseS cfg x) ∧ (ioCloseS cfg x).mode = none := by
  unfold ioCloseS
  cases hb : x.buf <;> cases hp : x.parked <;> simp_all [QuietA, tomb, wake]

theorem gc_quiet {x : Sess} (h : QuietS x) (hr : reclaimable x = true) : QuietS { x with buf := none } := by
  right
  rcases h with h | h
  · obtain ⟨h1, h2, h3⟩ := h; exact ⟨h1, by simp [bufData], by simp [noHold, h3]⟩
  · obtain ⟨h1, h2, h3⟩ := h; exact ⟨h1, by simp [bufData], by simpa [noHold] using h3⟩

theorem pendO_none_of_ioPend {s : State} (h : s.ioPend = none) (j : Nat) : pendO s j = none := by simp [pendO, h]

theorem not_cb_evRecv (sid j : Nat) (r : Option RecvRes) (d : Bytes) : Ev.cbData sid d ∉ evRecv j r := by
  cases r <;> simp [evRecv]

theorem not_cb_evMode (sid j : Nat) (r : Option Bool) (d : Bytes) : Ev.cbData sid d ∉ evMode j r := by
  cases r <;> simp [evMode]

/-- one step from a quiet session — ANY disciplined step, mode switches of the dead id included: it stays quiet and the step hands
nothing of the session to the data callback -/
theorem quiet_step {cfg : Cfg} {s : State} {sid : Nat} (hq : Quiet s sid) (st : Step) (hok : ok s st = true) :
    Quiet (step cfg s st).1 sid ∧ ∀ d, Ev.cbData sid d ∉ (step cfg s st).2 := by
  obtain ⟨hx, hpo⟩ := hq
  have hdead := hx.dead
  cases st with
  | ioData j chunk =>
    have hk : (s.sess j).dead = false ∧ s.ioPend = none := by simpa [ok] using hok
    have hne : sid ≠ j := by intro h; subst h; simp_all
    simp only [step, hk.2]
    refine ⟨⟨by simpa [upd_other _ _ hne] using hx, ?_⟩, by simp⟩
    simp only [pendO]
    split
    · rename_i i d heq
      split at heq
      · simp only [Option.some.injEq, Prod.mk.injEq] at heq
        have : ¬ i = sid := by rw [← heq.1]; exact Ne.symm hne
        simp [this]
      · simp at heq
    · rfl
  | ioDeliver =>
    simp only [step]
    cases hp : s.ioPend with
    | none => exact ⟨⟨by simpa using hx, by simp [pendO, hp]⟩, by simp⟩
    | some q =>
      obtain ⟨j, d⟩ := q
      have hne : sid ≠ j := by
        intro h; subst h; simp [pendO, hp] at hpo
      refine ⟨⟨by simpa [upd_other _ _ hne] using hx, by simp [pendO]⟩, ?_⟩
      intro d'; simp; intro h; exact absurd h hne
  | ioClose j =>
    have hk : (s.sess j).dead = false ∧ s.ioPend = none := by simpa [ok] using hok
    have hne : sid ≠ j := by intro h; subst h; simp_all
    simp only [step, hk.2, closeSess]
    refine ⟨⟨?_, by simp [pendO]⟩, by simp⟩
    simp only [hne, if_false]
    split
    · rename_i hgc
      exact gc_quiet hx (by simp_all)
    · exact hx
  | recvEnter j len =>
    simp only [step]
    refine ⟨⟨?_, by simpa [pendO] using hpo⟩, fun d => not_cb_evRecv sid j _ d⟩
    by_cases hj : sid = j
    · subst hj; simpa using recvEnterS_quiet len hx
    · simpa [upd_other _ _ hj] using hx
  | recvWake j t =>
    simp only [step]
    refine ⟨⟨?_, by simpa [pendO] using hpo⟩, fun d => not_cb_evRecv sid j _ d⟩
    by_cases hj : sid = j
    · subst hj; simpa using recvWakeS_quiet t hx
    · simpa [upd_other _ _ hj] using hx
  | setMode j m =>
    simp only [step]
    refine ⟨⟨?_, by simpa [pendO] using hpo⟩, fun d => not_cb_evMode sid j _ d⟩
    by_cases hj : sid = j
    · subst hj; simpa using setModeS_quiet (cfg := cfg) m hx
    · simpa [upd_other _ _ hj] using hx
  | flushStep j =>
    simp only [step]
    by_cases hj : sid = j
    · subst hj
      have h := flushStepS_quiet (sh := s.shuttingDown) sid hx
      exact ⟨⟨by simpa using h.1, by simpa [pendO] using hpo⟩, h.2⟩
    · refine ⟨⟨by simpa [upd_other _ _ hj] using hx, by simpa [pendO] using hpo⟩, ?_⟩
      intro d
      cases hr' : (flushStepS s.shuttingDown (s.sess j)).2 <;> simp [evFlush, hr']
      intro h; exact absurd h hj
  | ioCloseCb j =>
    simp only [step]
    split
    · exact ⟨⟨by simpa using hx, by simpa [pendO] using hpo⟩, by simp⟩
    · exact ⟨⟨hx, hpo⟩, by simp⟩
  | fence n =>
    simp only [step]
    exact ⟨⟨wake_quiet n hx, by simpa [pendO] using hpo⟩, by simp⟩

/-- any disciplined continuation delivers nothing of a quiet id through the data callback -/
theorem quiet_run {cfg : Cfg} {sid : Nat} : ∀ (steps : List Step) (s : State), Quiet s sid → Disciplined cfg s steps →
    ∀ d, Ev.cbData sid d ∉ (run cfg s steps).2 := by
  intro steps
  induction steps with
  | nil => intro s _ _ d; simp [run_nil]
  | cons st rest ih =>
    intro s hq hd d
    rw [run_cons]
    have h1 := quiet_step (cfg := cfg) hq st hd.1
    simp only [List.mem_append, not_or]
    exact ⟨h1.2 d, ih _ h1.1 hd.2 d⟩

/-! ## T8 measured from the close CALLBACK (FC03c): the handler marks the session closed BEFORE it invokes the callbacks -/

/-- while the close handler is between marking `sid` closed (`ioClose`) and invoking its close callbacks (`ioCloseCb`), the session is
already quiet — unless a flush of it was in progress when the close was processed (`closeGrace`) -/
def CloseK (s : State) : Prop := ∀ sid, s.closePend = some sid → s.closeGrace = false → Quiet s sid

theorem CloseK_init : CloseK init := by
  intro sid h; simp [init] at h

/-- only `ioClose` / `ioCloseCb` touch the close handler's program counter -/
theorem step_closePend (cfg : Cfg) (s : State) (st : Step) (h1 : ∀ j, st ≠ .ioClose j) (h2 : ∀ j, st ≠ .ioCloseCb j) :
    (step cfg s st).1.closePend = s.closePend ∧ (step cfg s st).1.closeGrace = s.closeGrace := by
  cases st with
  | ioClose j => exact absurd rfl (h1 j)
  | ioCloseCb j => exact absurd rfl (h2 j)
  | ioData j c => simp only [step]; split <;> exact ⟨rfl, rfl⟩
  | ioDeliver => simp only [step]; split <;> exact ⟨rfl, rfl⟩
  | recvEnter j l => exact ⟨rfl, rfl⟩
  | recvWake j t => exact ⟨rfl, rfl⟩
  | setMode j m => exact ⟨rfl, rfl⟩
  | flushStep j => exact ⟨rfl, rfl⟩
  | fence n => exact ⟨rfl, rfl⟩

theorem step_closeK {cfg : Cfg} {s : State} (h : CloseK s) (st : Step) (hok : ok s st = true) : CloseK (step cfg s st).1 := by
  by_cases hc : ∃ j, st = .ioClose j
  · obtain ⟨j, rfl⟩ := hc
    have hk : (s.sess j).dead = false ∧ s.ioPend = none := by simpa [ok] using hok
    intro sid hp hgr
    simp only [step, hk.2] at hp hgr ⊢
    have hsj : j = sid := by simpa using hp
    subst hsj
    have hf : (s.sess j).flush = none := by cases hfl : (s.sess j).flush <;> simp_all
    have hq := ioCloseS_quiet cfg (s.sess j) hf
    have hqs : QuietS (ioCloseS cfg (s.sess j)) := Or.inl hq.1
    exact ⟨by simpa [closeSess] using hqs, by simp [pendO]⟩
  · by_cases hb : ∃ j, st = .ioCloseCb j
    · obtain ⟨j, rfl⟩ := hb
      intro sid hp hgr
      simp only [step] at hp hgr ⊢
      split at hp
      · simp at hp
      · rename_i hne
        simp only [hne, if_false] at hgr ⊢
        exact h sid hp hgr
    · have h1 : ∀ j, st ≠ .ioClose j := fun j e => hc ⟨j, e⟩
      have h2 : ∀ j, st ≠ .ioCloseCb j := fun j e => hb ⟨j, e⟩
      obtain ⟨e1, e2⟩ := step_closePend cfg s st h1 h2
      intro sid hp hgr
      rw [e1] at hp; rw [e2] at hgr
      exact (quiet_step (h sid hp hgr) st hok).1

theorem run_closeK {cfg : Cfg} : ∀ (steps : List Step) (s : State), CloseK s → Disciplined cfg s steps → CloseK (run cfg s steps).1 := by
  intro steps
  induction steps with
  | nil => intro s h _; simpa [run_nil] using h
  | cons st rest ih =>
    intro s h hd
    rw [run_cons]
    exact ih _ (step_closeK h st hd.1) hd.2

theorem not_close_evRecv (sid j : Nat) (r : Option RecvRes) : Ev.closeCb sid ∉ evRecv j r := by
  cases r <;> simp [evRecv]

theorem not_close_evMode (sid j : Nat) (r : Option Bool) : Ev.closeCb sid ∉ evMode j r := by
  cases r <;> simp [evMode]

theorem not_close_evFlush (sid j : Nat) (r : FlushOut) : Ev.closeCb sid ∉ evFlush j r := by
  cases r <;> simp [evFlush]

/-- the close callback of `sid` is invoked by exactly one kind of step: `ioCloseCb sid`, and only while the handler is past the
section that marked `sid` closed -/
theorem closeCb_emitted {cfg : Cfg} {s : State} {st : Step} {sid : Nat} (hev : Ev.closeCb sid ∈ (step cfg s st).2) :
    st = .ioCloseCb sid ∧ s.closePend = some sid := by
  cases st with
  | ioData j c => simp only [step] at hev; split at hev <;> simp at hev
  | ioDeliver => simp only [step] at hev; split at hev <;> simp at hev
  | ioClose j => simp only [step] at hev; split at hev <;> simp at hev
  | ioCloseCb j =>
    simp only [step] at hev
    split at hev
    · rename_i hp
      simp at hev; subst hev; exact ⟨rfl, hp⟩
    · simp at hev
  | recvEnter j l => simp only [step] at hev; exact absurd hev (not_close_evRecv sid j _)
  | recvWake j t => simp only [step] at hev; exact absurd hev (not_close_evRecv sid j _)
  | setMode j m => simp only [step] at hev; exact absurd hev (not_close_evMode sid j _)
  | flushStep j => simp only [step] at hev; exact absurd hev (not_close_evFlush sid j _)
  | fence n => simp [step] at hev

end Iora.SyncRecv
