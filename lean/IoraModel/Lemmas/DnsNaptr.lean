import IoraModel.Lemmas.DnsTyped
import IoraModel.Lemmas.DnsRecords
/-! N2 for C19, typed records: exact decoding of NAPTR RDATA (ORDER, PREFERENCE, three character strings, then the REPLACEMENT
name compressed in any way). -/
namespace Iora.Dns
open Iora

/-- one character string (`<length octet> <octets>`) read by the `parseString` lambda -/
theorem naptrString_exact (pre s post : Bytes) (hs : s.length < 256) :
    naptrString (pre ++ (b8 s.length :: s) ++ post) pre.length = .ok (s, pre.length + 1 + s.length) := by
  have hb : (b8 s.length).toNat = s.length := b8_toNat_small hs
  have e0 : pre ++ (b8 s.length :: s) ++ post = pre ++ b8 s.length :: (s ++ post) := by simp
  have e1 : pre ++ (b8 s.length :: s) ++ post = (pre ++ [b8 s.length]) ++ s ++ post := by simp
  have hlen : (pre ++ (b8 s.length :: s) ++ post).length = pre.length + 1 + s.length + post.length := by
    simp; omega
  unfold naptrString
  have hlt : ¬ pre.length ≥ (pre ++ (b8 s.length :: s) ++ post).length := by rw [hlen]; omega
  simp only [hlt, ↓reduceIte]
  have hrd : rd (pre ++ (b8 s.length :: s) ++ post) pre.length = .ok (b8 s.length) := by rw [e0]; exact rd_mid _ _ _
  rw [hrd]
  simp only [bind, Except.bind]
  have hfit : ¬ pre.length + 1 + (b8 s.length).toNat > (pre ++ (b8 s.length :: s) ++ post).length := by
    rw [hb, hlen]; omega
  simp only [hfit, ↓reduceIte]
  have hcp : copy (pre ++ (b8 s.length :: s) ++ post) (pre.length + 1) (b8 s.length).toNat =
      .ok (slice (pre ++ (b8 s.length :: s) ++ post) (pre.length + 1) (b8 s.length).toNat) := copy_ok (by omega)
  rw [hcp]
  have hsl : slice (pre ++ (b8 s.length :: s) ++ post) (pre.length + 1) (b8 s.length).toNat = s := by
    rw [hb, e1]
    have hl : (pre ++ [b8 s.length]).length = pre.length + 1 := by simp
    rw [← hl]
    exact slice_mid _ _ _
  rw [hsl, hb]
  rfl

/-- the NAPTR parser on a well-laid-out RDATA -/
theorem parseNaptr_exact (m : Bytes) (rr : RR) (o : Nat) (ls : List Bytes) (order pref : Nat)
    (flags service regexp : Bytes) (tail : Bytes)
    (hr : rr.rdata = slice m o rr.rdata.length)
    (ho : order < 65536) (hp : pref < 65536)
    (hf : flags.length < 256) (hsv : service.length < 256) (hre : regexp.length < 256)
    (hrd : rr.rdata = be16 order ++ be16 pref ++ (b8 flags.length :: flags) ++ (b8 service.length :: service) ++
      (b8 regexp.length :: regexp) ++ tail)
    (htail : 0 < tail.length)
    (hd : WellFormedName m (o + (7 + flags.length + service.length + regexp.length)) ls (o + rr.rdata.length)) :
    parseNaptr rr m o = .ok (.naptr rr.name order pref flags service regexp (dottedName ls) rr.ttl) := by
  have hlen : rr.rdata.length = 7 + flags.length + service.length + regexp.length + tail.length := by
    rw [hrd]; simp; omega
  have r0 : rd16 rr.rdata 0 = .ok order := by
    have := rd16_mid [] (be16 pref ++ (b8 flags.length :: flags) ++ (b8 service.length :: service) ++
      (b8 regexp.length :: regexp) ++ tail) order ho
    simpa [hrd, List.append_assoc] using this
  have r2 : rd16 rr.rdata 2 = .ok pref := by
    have := rd16_mid (be16 order) ((b8 flags.length :: flags) ++ (b8 service.length :: service) ++
      (b8 regexp.length :: regexp) ++ tail) pref hp
    simpa [hrd, List.append_assoc] using this
  have s1 : naptrString rr.rdata 4 = .ok (flags, 5 + flags.length) := by
    have := naptrString_exact (be16 order ++ be16 pref) flags ((b8 service.length :: service) ++
      (b8 regexp.length :: regexp) ++ tail) hf
    have e : (be16 order ++ be16 pref).length + 1 + flags.length = 5 + flags.length := by simp
    rw [e] at this
    simpa [hrd, List.append_assoc] using this
  have s2 : naptrString rr.rdata (5 + flags.length) = .ok (service, 6 + flags.length + service.length) := by
    have := naptrString_exact (be16 order ++ be16 pref ++ (b8 flags.length :: flags)) service
      ((b8 regexp.length :: regexp) ++ tail) hsv
    have e0 : (be16 order ++ be16 pref ++ (b8 flags.length :: flags)).length = 5 + flags.length := by simp; omega
    rw [e0] at this
    have e : 5 + flags.length + 1 + service.length = 6 + flags.length + service.length := by omega
    rw [e] at this
    simpa [hrd, List.append_assoc] using this
  have s3 : naptrString rr.rdata (6 + flags.length + service.length) =
      .ok (regexp, 7 + flags.length + service.length + regexp.length) := by
    have := naptrString_exact (be16 order ++ be16 pref ++ (b8 flags.length :: flags) ++ (b8 service.length :: service))
      regexp tail hre
    have e0 : (be16 order ++ be16 pref ++ (b8 flags.length :: flags) ++ (b8 service.length :: service)).length =
        6 + flags.length + service.length := by simp; omega
    rw [e0] at this
    have e : 6 + flags.length + service.length + 1 + regexp.length =
        7 + flags.length + service.length + regexp.length := by omega
    rw [e] at this
    simpa [hrd, List.append_assoc] using this
  have ho3 : 7 + flags.length + service.length + regexp.length < rr.rdata.length := by omega
  have en := rdataName_exact m rr.rdata o (7 + flags.length + service.length + regexp.length) rr.rdata.length ls hr ho3 hd
    (Nat.le_refl _)
  unfold parseNaptr
  have hmin : ¬ rr.rdata.length < Gen.Dns.minNaptr := by simp [Gen.Dns.minNaptr]; omega
  simp only [hmin, ↓reduceIte]
  rw [r0]; simp only [bind, Except.bind]
  rw [r2]; simp only []
  rw [s1]; simp only []
  rw [s2]; simp only []
  rw [s3]; simp only [ho3, ↓reduceIte]
  rw [en]
  rfl

/-- **NAPTR**: ORDER, PREFERENCE, three character strings (FLAGS, SERVICES, REGEXP), then the REPLACEMENT name compressed in
any way -/
theorem typed_naptr (m : Bytes) (rr : RR) (o : Nat) (ls : List Bytes) (order pref : Nat)
    (flags service regexp : Bytes) (tail : Bytes)
    (ht : rr.type = 35)
    (hr : rr.rdata = slice m o rr.rdata.length)
    (ho : order < 65536) (hp : pref < 65536)
    (hf : flags.length < 256) (hsv : service.length < 256) (hre : regexp.length < 256)
    (hrd : rr.rdata = be16 order ++ be16 pref ++ (b8 flags.length :: flags) ++ (b8 service.length :: service) ++
      (b8 regexp.length :: regexp) ++ tail)
    (htail : 0 < tail.length)
    (hd : WellFormedName m (o + (7 + flags.length + service.length + regexp.length)) ls (o + rr.rdata.length)) :
    typedSpec m (rr, o) = some (.naptr rr.name order pref flags service regexp (dottedName ls) rr.ttl) := by
  apply typedSpec_of
  have := parseNaptr_exact m rr o ls order pref flags service regexp tail hr ho hp hf hsv hre hrd htail hd
  unfold typedOf
  simp [ht, Gen.Dns.typedTypes, this, Except.map]

/-- non-vacuity: flags "S", empty SERVICES and REGEXP, REPLACEMENT = root -/
example :
    typedSpec (be16 10 ++ be16 20 ++ [1, 83] ++ [0] ++ [0] ++ [0])
      ({ name := [], type := 35, cls := 1, ttl := 9, rdlength := 9,
         rdata := be16 10 ++ be16 20 ++ [1, 83] ++ [0] ++ [0] ++ [0] }, 0) =
      some (.naptr [] 10 20 [83] [] [] (dottedName []) 9) :=
  typed_naptr _ _ 0 [] 10 20 [83] [] [] [0] rfl (by decide) (by decide) (by decide) (by decide) (by decide) (by decide)
    (by decide) (by decide) ⟨0, DenotesH.root (by decide), by decide, by decide⟩

end Iora.Dns
