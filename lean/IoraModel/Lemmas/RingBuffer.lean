import IoraModel.Model.RingBuffer
/-!
Helper lemmas for the sequential ring model (R1): the ring refines a bounded FIFO for every capacity `2^k`,
including slot wrap (`& mask`) and batches across the wrap, as long as the counters do not overflow `2^64`.
-/
namespace Iora.Ring

/-- well-formed ring state: power-of-two capacity, `mask = cap - 1`, counters ordered and at most `cap` apart -/
structure WF {α : Type} (r : Ring α) : Prop where
  pow : ∃ k, k ≤ 63 ∧ r.cap.toNat = 2 ^ k
  mask : r.mask = r.cap - 1
  le : r.tail.toNat ≤ r.head.toNat
  bound : r.head.toNat - r.tail.toNat ≤ r.cap.toNat

/-- Nat-level content: slots `(t+i) % c`, `i < n` -/
def contentOf {α : Type} (b : Nat → α) (t n c : Nat) : List α := (List.range n).map (fun i => b ((t + i) % c))

theorem cap_pos {α : Type} {r : Ring α} (h : WF r) : 0 < r.cap.toNat := by
  obtain ⟨k, _, hk⟩ := h.pow
  rw [hk]; exact Nat.two_pow_pos k

theorem slot_eq {α : Type} {r : Ring α} (h : WF r) (c : UInt64) : slot r c = c.toNat % r.cap.toNat := by
  obtain ⟨k, hk63, hk⟩ := h.pow
  have h1 : (1 : UInt64) ≤ r.cap := by
    rw [UInt64.le_iff_toNat_le, hk]
    exact Nat.one_le_two_pow
  have hm : r.mask.toNat = 2 ^ k - 1 := by
    rw [h.mask, UInt64.toNat_sub_of_le _ _ h1, hk]; rfl
  unfold slot
  rw [UInt64.toNat_and, hm, hk, Nat.and_two_pow_sub_one_eq_mod]

/-- **no out-of-range slot**: every index the code computes is `< capacity` -/
theorem slot_lt {α : Type} {r : Ring α} (h : WF r) (c : UInt64) : slot r c < r.cap.toNat := by
  rw [slot_eq h]; exact Nat.mod_lt _ (cap_pos h)

theorem toNat_add_ofNat (c : UInt64) (k : Nat) (h : c.toNat + k < 2 ^ 64) : (c + UInt64.ofNat k).toNat = c.toNat + k := by
  rw [UInt64.toNat_add, UInt64.toNat_ofNat']
  have : k % 2 ^ 64 = k := Nat.mod_eq_of_lt (by omega)
  rw [this]; exact Nat.mod_eq_of_lt h

theorem mod_ne_of_lt {a b c : Nat} (h1 : a < b) (h2 : b - a < c) : a % c ≠ b % c := by
  intro e
  have := Nat.sub_mod_eq_zero_of_mod_eq e.symm
  rw [Nat.mod_eq_of_lt h2] at this
  omega

theorem readFrom_eq {α : Type} {r : Ring α} (h : WF r) (s : UInt64) (n : Nat) (hn : s.toNat + n ≤ 2 ^ 64) :
    readFrom r s n = contentOf r.buf s.toNat n r.cap.toNat := by
  unfold readFrom contentOf
  apply List.map_congr_left
  intro i hi
  have hi' : i < n := List.mem_range.mp hi
  rw [slot_eq h, toNat_add_ofNat _ _ (by omega)]

theorem contentOf_congr {α : Type} (b b' : Nat → α) (t n c : Nat) (h : ∀ i, i < n → b ((t + i) % c) = b' ((t + i) % c)) :
    contentOf b t n c = contentOf b' t n c := by
  unfold contentOf
  apply List.map_congr_left
  intro i hi
  exact h i (List.mem_range.mp hi)

/-- Lemma A: one more slot written just behind the content -/
theorem contentOf_upd_snoc {α : Type} (b : Nat → α) (t n c : Nat) (x : α) (hn : n < c) :
    contentOf (upd b ((t + n) % c) x) t (n + 1) c = contentOf b t n c ++ [x] := by
  unfold contentOf
  rw [List.range_succ, List.map_append]
  congr 1
  · apply List.map_congr_left
    intro i hi
    have hi' : i < n := List.mem_range.mp hi
    have : (t + i) % c ≠ (t + n) % c := mod_ne_of_lt (by omega) (by omega)
    simp [upd, this]
  · simp [upd]

/-- Lemma C: content splits -/
theorem contentOf_add {α : Type} (b : Nat → α) (t m n c : Nat) :
    contentOf b t (m + n) c = contentOf b t m c ++ contentOf b (t + m) n c := by
  unfold contentOf
  rw [List.range_add, List.map_append, List.map_map]
  congr 1
  apply List.map_congr_left
  intro i _
  simp [Nat.add_assoc]

theorem contentOf_length {α : Type} (b : Nat → α) (t n c : Nat) : (contentOf b t n c).length = n := by
  simp [contentOf]

theorem contentOf_take {α : Type} (b : Nat → α) (t m n c : Nat) (h : m ≤ n) :
    (contentOf b t n c).take m = contentOf b t m c := by
  obtain ⟨d, rfl⟩ := Nat.exists_eq_add_of_le h
  rw [contentOf_add, List.take_left' (contentOf_length ..)]

theorem contentOf_drop {α : Type} (b : Nat → α) (t m n c : Nat) (h : m ≤ n) :
    (contentOf b t n c).drop m = contentOf b (t + m) (n - m) c := by
  obtain ⟨d, rfl⟩ := Nat.exists_eq_add_of_le h
  rw [contentOf_add, List.drop_left' (contentOf_length ..)]
  congr 1; omega

/-- Lemma B: the batch copy loop appends the batch -/
theorem contentOf_writeFrom {α : Type} {r : Ring α} (h : WF r) (t n : Nat) (hh : r.head.toNat = t + n) :
    ∀ (xs : List α) (b : Nat → α) (k : Nat), n + k + xs.length ≤ r.cap.toNat → r.head.toNat + k + xs.length < 2 ^ 64 →
      contentOf (writeFrom r b k xs) t (n + k + xs.length) r.cap.toNat = contentOf b t (n + k) r.cap.toNat ++ xs := by
  intro xs
  induction xs with
  | nil => intro b k _ _; simp [writeFrom]
  | cons x xs ih =>
    intro b k hc ho
    simp only [List.length_cons] at hc ho
    simp only [writeFrom]
    have e := ih (upd b (slot r (r.head + UInt64.ofNat k)) x) (k + 1) (by omega) (by omega)
    have e2 : n + k + (xs.length + 1) = n + (k + 1) + xs.length := by omega
    rw [List.length_cons, e2, e]
    rw [slot_eq h, toNat_add_ofNat _ _ (by omega), hh]
    have e3 : t + n + k = t + (n + k) := by omega
    have e4 : n + (k + 1) = (n + k) + 1 := by omega
    rw [e3, e4, contentOf_upd_snoc _ _ _ _ _ (by omega)]
    simp

theorem abs_items {α : Type} {r : Ring α} (h : WF r) :
    (abs r).items = contentOf r.buf r.tail.toNat (r.head.toNat - r.tail.toNat) r.cap.toNat := by
  have hle : r.tail ≤ r.head := UInt64.le_iff_toNat_le.mpr h.le
  have hs : (r.head - r.tail).toNat = r.head.toNat - r.tail.toNat := UInt64.toNat_sub_of_le _ _ hle
  unfold abs
  simp only [hs]
  apply readFrom_eq h
  have := UInt64.toNat_lt r.head
  have := h.le
  omega

theorem sub_toNat {α : Type} {r : Ring α} (h : WF r) : (r.head - r.tail).toNat = r.head.toNat - r.tail.toNat :=
  UInt64.toNat_sub_of_le _ _ (UInt64.le_iff_toNat_le.mpr h.le)

theorem abs_eq {α : Type} {r : Ring α} (h : WF r) :
    abs r = ⟨r.cap.toNat, contentOf r.buf r.tail.toNat (r.head.toNat - r.tail.toNat) r.cap.toNat⟩ := by
  have := abs_items h
  unfold abs at *
  simp only at this
  rw [this]

theorem ge_iff {α : Type} {r : Ring α} (h : WF r) : (r.head - r.tail ≥ r.cap) ↔ r.cap.toNat ≤ r.head.toNat - r.tail.toNat := by
  show r.cap ≤ r.head - r.tail ↔ _
  rw [UInt64.le_iff_toNat_le, sub_toNat h]

theorem toNat_add_one (c : UInt64) (h : c.toNat + 1 < 2 ^ 64) : (c + 1).toNat = c.toNat + 1 := by
  have := toNat_add_ofNat c 1 h
  simpa using this

/-- `tryPush` refines the FIFO push -/
theorem tryPush_refines {α : Type} {r : Ring α} (h : WF r) (x : α) (ho : r.head.toNat + 1 < 2 ^ 64) :
    WF (tryPush r x).2 ∧ (abs r).step (.push x) = (abs (tryPush r x).2, .bool (tryPush r x).1) := by
  unfold tryPush
  by_cases hf : r.head - r.tail ≥ r.cap
  · simp only [hf, if_true]
    refine ⟨h, ?_⟩
    have hc := (ge_iff h).mp hf
    rw [abs_eq h]
    simp only [Fifo.step, contentOf_length]
    simp [hc]
  · simp only [hf, if_false]
    have hc : ¬ r.cap.toNat ≤ r.head.toNat - r.tail.toNat := fun c => hf ((ge_iff h).mpr c)
    have hle := h.le
    have hh1 := toNat_add_one r.head ho
    have hw : WF ({ r with buf := upd r.buf (slot r r.head) x, head := r.head + 1 } : Ring α) :=
      ⟨h.pow, h.mask, by show r.tail.toNat ≤ (r.head + 1).toNat; omega,
       by show (r.head + 1).toNat - r.tail.toNat ≤ r.cap.toNat; omega⟩
    refine ⟨hw, ?_⟩
    rw [abs_eq h, abs_eq hw]
    simp only [Fifo.step, contentOf_length]
    have : ¬ (r.head.toNat - r.tail.toNat ≥ r.cap.toNat) := hc
    simp only [this, if_false]
    show _ = (Fifo.mk r.cap.toNat (contentOf (upd r.buf (slot r r.head) x) r.tail.toNat ((r.head + 1).toNat - r.tail.toNat) r.cap.toNat), _)
    have e1 : (r.head + 1).toNat - r.tail.toNat = (r.head.toNat - r.tail.toNat) + 1 := by omega
    have e2 : slot r r.head = (r.tail.toNat + (r.head.toNat - r.tail.toNat)) % r.cap.toNat := by
      rw [slot_eq h]; congr 1; omega
    rw [e1, e2, contentOf_upd_snoc _ _ _ _ _ (by omega)]

theorem tail_ge_iff {α : Type} (r : Ring α) : (r.tail ≥ r.head) ↔ r.head.toNat ≤ r.tail.toNat := by
  show r.head ≤ r.tail ↔ _
  rw [UInt64.le_iff_toNat_le]

theorem contentOf_succ {α : Type} (b : Nat → α) (t n c : Nat) :
    contentOf b t (n + 1) c = b (t % c) :: contentOf b (t + 1) n c := by
  have := contentOf_add b t 1 n c
  rw [Nat.add_comm 1 n] at this
  rw [this]
  simp [contentOf]

/-- `tryPop` refines the FIFO pop -/
theorem tryPop_refines {α : Type} {r : Ring α} (h : WF r) :
    WF (tryPop r).2 ∧ (abs r).step .pop = (abs (tryPop r).2, .item (tryPop r).1) := by
  unfold tryPop
  by_cases he : r.tail ≥ r.head
  · simp only [he, if_true]
    refine ⟨h, ?_⟩
    have hc := (tail_ge_iff r).mp he
    rw [abs_eq h]
    have : r.head.toNat - r.tail.toNat = 0 := by omega
    simp [Fifo.step, this, contentOf]
  · simp only [he, if_false]
    have hc : ¬ r.head.toNat ≤ r.tail.toNat := fun c => he ((tail_ge_iff r).mpr c)
    have hlt := UInt64.toNat_lt r.head
    have ht1 := toNat_add_one r.tail (by omega)
    have hb := h.bound
    have hw : WF ({ r with tail := r.tail + 1 } : Ring α) :=
      ⟨h.pow, h.mask, by show (r.tail + 1).toNat ≤ r.head.toNat; omega,
       by show r.head.toNat - (r.tail + 1).toNat ≤ r.cap.toNat; omega⟩
    refine ⟨hw, ?_⟩
    rw [abs_eq h, abs_eq hw]
    obtain ⟨n, hn⟩ : ∃ n, r.head.toNat - r.tail.toNat = n + 1 := ⟨r.head.toNat - r.tail.toNat - 1, by omega⟩
    show Fifo.step _ _ = (Fifo.mk r.cap.toNat (contentOf r.buf (r.tail + 1).toNat (r.head.toNat - (r.tail + 1).toNat) r.cap.toNat), _)
    have e1 : r.head.toNat - (r.tail + 1).toNat = n := by omega
    rw [hn, e1, ht1, contentOf_succ, slot_eq h]
    simp [Fifo.step]

theorem peek_refines {α : Type} {r : Ring α} (h : WF r) : (abs r).items.head? = peek r := by
  unfold peek
  rw [abs_eq h]
  by_cases he : r.tail ≥ r.head
  · have hc := (tail_ge_iff r).mp he
    have : r.head.toNat - r.tail.toNat = 0 := by omega
    simp [he, this, contentOf]
  · have hc : ¬ r.head.toNat ≤ r.tail.toNat := fun c => he ((tail_ge_iff r).mpr c)
    obtain ⟨n, hn⟩ : ∃ n, r.head.toNat - r.tail.toNat = n + 1 := ⟨r.head.toNat - r.tail.toNat - 1, by omega⟩
    simp only [he, if_false, hn, contentOf_succ, slot_eq h]
    simp

theorem avail_toNat {α : Type} {r : Ring α} (h : WF r) :
    (r.cap - (r.head - r.tail)).toNat = r.cap.toNat - (r.head.toNat - r.tail.toNat) := by
  have hb := h.bound
  rw [UInt64.toNat_sub_of_le _ _ (by rw [UInt64.le_iff_toNat_le, sub_toNat h]; exact hb), sub_toNat h]

/-- `tryPushBatch` refines the FIFO batch push (also across the slot wrap) -/
theorem tryPushBatch_refines {α : Type} {r : Ring α} (h : WF r) (xs : List α) (ho : r.head.toNat + xs.length < 2 ^ 64) :
    WF (tryPushBatch r xs).2 ∧
      (abs r).step (.pushBatch xs) = (abs (tryPushBatch r xs).2, .count (tryPushBatch r xs).1) := by
  unfold tryPushBatch
  simp only [avail_toNat h]
  have hle := h.le
  have hb := h.bound
  generalize hm : (if xs.length < r.cap.toNat - (r.head.toNat - r.tail.toNat) then xs.length
      else r.cap.toNat - (r.head.toNat - r.tail.toNat)) = m
  have hmin : m = min xs.length (r.cap.toNat - (r.head.toNat - r.tail.toNat)) := by
    rw [← hm]; split <;> omega
  have hml : m ≤ xs.length := by omega
  have hhm := toNat_add_ofNat r.head m (by omega)
  have hw : WF ({ r with buf := writeFrom r r.buf 0 (xs.take m), head := r.head + UInt64.ofNat m } : Ring α) :=
    ⟨h.pow, h.mask, by show r.tail.toNat ≤ (r.head + UInt64.ofNat m).toNat; omega,
     by show (r.head + UInt64.ofNat m).toNat - r.tail.toNat ≤ r.cap.toNat; omega⟩
  refine ⟨hw, ?_⟩
  rw [abs_eq h, abs_eq hw]
  simp only [Fifo.step, contentOf_length]
  rw [← hmin]
  show _ = (Fifo.mk r.cap.toNat (contentOf (writeFrom r r.buf 0 (xs.take m)) r.tail.toNat
      ((r.head + UInt64.ofNat m).toNat - r.tail.toNat) r.cap.toNat), _)
  have hl : (xs.take m).length = m := by simp [List.length_take]; omega
  have hB := contentOf_writeFrom h r.tail.toNat (r.head.toNat - r.tail.toNat) (by omega) (xs.take m) r.buf 0
    (by rw [hl]; omega) (by rw [hl]; omega)
  rw [hl] at hB
  have e1 : (r.head + UInt64.ofNat m).toNat - r.tail.toNat = r.head.toNat - r.tail.toNat + 0 + m := by omega
  rw [e1, hB]
  simp

/-- `tryPopBatch` refines the FIFO batch pop -/
theorem tryPopBatch_refines {α : Type} {r : Ring α} (h : WF r) (n : Nat) :
    WF (tryPopBatch r n).2 ∧
      (abs r).step (.popBatch n) = (abs (tryPopBatch r n).2, .items (tryPopBatch r n).1) := by
  unfold tryPopBatch
  simp only [sub_toNat h]
  have hle := h.le
  have hb := h.bound
  have hlt := UInt64.toNat_lt r.head
  generalize hm : (if n < r.head.toNat - r.tail.toNat then n else r.head.toNat - r.tail.toNat) = m
  have hmin : m = min n (r.head.toNat - r.tail.toNat) := by
    rw [← hm]; split <;> omega
  have htm := toNat_add_ofNat r.tail m (by omega)
  have hw : WF ({ r with tail := r.tail + UInt64.ofNat m } : Ring α) :=
    ⟨h.pow, h.mask, by show (r.tail + UInt64.ofNat m).toNat ≤ r.head.toNat; omega,
     by show r.head.toNat - (r.tail + UInt64.ofNat m).toNat ≤ r.cap.toNat; omega⟩
  refine ⟨hw, ?_⟩
  rw [abs_eq h, abs_eq hw, readFrom_eq h _ _ (by omega)]
  simp only [Fifo.step]
  show _ = (Fifo.mk r.cap.toNat (contentOf r.buf (r.tail + UInt64.ofNat m).toNat
      (r.head.toNat - (r.tail + UInt64.ofNat m).toNat) r.cap.toNat), _)
  rw [htm]
  have e1 : List.take n (contentOf r.buf r.tail.toNat (r.head.toNat - r.tail.toNat) r.cap.toNat)
      = contentOf r.buf r.tail.toNat m r.cap.toNat := by
    rw [← contentOf_take r.buf r.tail.toNat m (r.head.toNat - r.tail.toNat) r.cap.toNat (by omega)]
    rw [List.take_eq_take_iff]
    simp [contentOf_length]; omega
  have e2 : List.drop n (contentOf r.buf r.tail.toNat (r.head.toNat - r.tail.toNat) r.cap.toNat)
      = contentOf r.buf (r.tail.toNat + m) (r.head.toNat - (r.tail.toNat + m)) r.cap.toNat := by
    have e : r.head.toNat - (r.tail.toNat + m) = (r.head.toNat - r.tail.toNat) - m := by omega
    rw [e, ← contentOf_drop r.buf r.tail.toNat m (r.head.toNat - r.tail.toNat) r.cap.toNat (by omega)]
    by_cases hn : n < r.head.toNat - r.tail.toNat
    · have : m = n := by omega
      rw [this]
    · have : m = r.head.toNat - r.tail.toNat := by omega
      rw [this, List.drop_of_length_le (by simp [contentOf_length]; omega),
        List.drop_of_length_le (by simp [contentOf_length])]
  rw [e1, e2]

/-! ### `nextPowerOfTwo` -/

theorem smear_step (x y s : Nat) (hy : ∀ i, y.testBit i = true ↔ ∃ d, d ≤ s ∧ x.testBit (i + d) = true) :
    ∀ i, (y ||| y >>> (s + 1)).testBit i = true ↔ ∃ d, d ≤ 2 * s + 1 ∧ x.testBit (i + d) = true := by
  intro i
  rw [Nat.testBit_or, Nat.testBit_shiftRight, Bool.or_eq_true, hy, hy]
  constructor
  · rintro (⟨d, hd, h⟩ | ⟨d, hd, h⟩)
    · exact ⟨d, by omega, h⟩
    · exact ⟨s + 1 + d, by omega, by rwa [show i + (s + 1 + d) = s + 1 + i + d by omega]⟩
  · rintro ⟨d, hd, h⟩
    by_cases hds : d ≤ s
    · exact Or.inl ⟨d, hds, h⟩
    · exact Or.inr ⟨d - (s + 1), by omega, by rwa [show s + 1 + i + (d - (s + 1)) = i + d by omega]⟩

/-- the bit smear of `nextPowerOfTwo` on naturals -/
def smearN (x : Nat) : Nat :=
  let v := x ||| (x >>> 1)
  let v := v ||| (v >>> 2)
  let v := v ||| (v >>> 4)
  let v := v ||| (v >>> 8)
  let v := v ||| (v >>> 16)
  let v := v ||| (v >>> 32)
  v

theorem smearN_testBit (x i : Nat) : (smearN x).testBit i = true ↔ ∃ d, d ≤ 63 ∧ x.testBit (i + d) = true := by
  have h0 : ∀ i, x.testBit i = true ↔ ∃ d, d ≤ 0 ∧ x.testBit (i + d) = true := by
    intro i; constructor
    · intro h; exact ⟨0, by omega, h⟩
    · rintro ⟨d, hd, h⟩; have : d = 0 := by omega
      subst this; exact h
  have h1 := smear_step x _ 0 h0
  have h2 := smear_step x _ 1 h1
  have h3 := smear_step x _ 3 h2
  have h4 := smear_step x _ 7 h3
  have h5 := smear_step x _ 15 h4
  have h6 := smear_step x _ 31 h5
  exact h6 i

theorem smearN_eq (x : Nat) (hx : x ≠ 0) (h64 : x < 2 ^ 64) : smearN x = 2 ^ (x.log2 + 1) - 1 := by
  apply Nat.eq_of_testBit_eq
  intro i
  rw [Nat.testBit_two_pow_sub_one]
  have hlt : x < 2 ^ (x.log2 + 1) := Nat.lt_log2_self
  have hge : 2 ^ x.log2 ≤ x := Nat.log2_self_le hx
  have hL : x.log2 < 64 := (Nat.log2_lt hx).mpr h64
  by_cases hi : i < x.log2 + 1
  · simp only [hi, decide_true]
    rw [smearN_testBit]
    obtain ⟨j, hj, hb⟩ := Nat.exists_ge_and_testBit_of_ge_two_pow hge
    have hj2 : j < x.log2 + 1 := by
      apply Classical.byContradiction
      intro hc
      have : x < 2 ^ j := Nat.lt_of_lt_of_le hlt (Nat.pow_le_pow_right (by decide) (by omega))
      rw [Nat.testBit_lt_two_pow this] at hb
      cases hb
    have : j = x.log2 := by omega
    subst this
    exact ⟨x.log2 - i, by omega, by rwa [show i + (x.log2 - i) = x.log2 by omega]⟩
  · simp only [hi, decide_false]
    apply Bool.eq_false_iff.mpr
    intro hc
    rw [smearN_testBit] at hc
    obtain ⟨d, _, hb⟩ := hc
    have : x < 2 ^ (i + d) := Nat.lt_of_lt_of_le hlt (Nat.pow_le_pow_right (by decide) (by omega))
    rw [Nat.testBit_lt_two_pow this] at hb
    cases hb

theorem smear_toNat (v : UInt64) :
    (let v := v ||| (v >>> 1)
     let v := v ||| (v >>> 2)
     let v := v ||| (v >>> 4)
     let v := v ||| (v >>> 8)
     let v := v ||| (v >>> 16)
     let v := v ||| (v >>> 32)
     v).toNat = smearN v.toNat := by
  simp only [smearN, UInt64.toNat_or, UInt64.toNat_shiftRight]
  rfl

/-- the definition from the extracted shift list, written out (fails to build when the source's shift sequence changes) -/
theorem nextPowerOfTwo_unfold (v : UInt64) :
    nextPowerOfTwo v =
      if v = 0 then (1 : UInt64) else
      (let v : UInt64 := v - 1
       let v : UInt64 := v ||| (v >>> 1)
       let v : UInt64 := v ||| (v >>> 2)
       let v : UInt64 := v ||| (v >>> 4)
       let v : UInt64 := v ||| (v >>> 8)
       let v : UInt64 := v ||| (v >>> 16)
       let v : UInt64 := v ||| (v >>> 32)
       v) + (1 : UInt64) := rfl

/-- `nextPowerOfTwo v` is the least power of two `≥ v`, for every `v ≤ 2^63` (for larger `v` the C++ wraps to 0) -/
theorem nextPowerOfTwo_spec (v : UInt64) (hv : v.toNat ≤ 2 ^ 63) :
    ∃ k, k ≤ 63 ∧ (nextPowerOfTwo v).toNat = 2 ^ k ∧ v.toNat ≤ 2 ^ k ∧ (1 < v.toNat → 2 ^ k < 2 * v.toNat) := by
  rw [nextPowerOfTwo_unfold]
  by_cases h0 : v = 0
  · subst h0; exact ⟨0, by omega, by simp, by simp, by simp⟩
  · simp only [h0, if_false]
    have hv0 : v.toNat ≠ 0 := fun c => h0 (UInt64.toNat_inj.mp (by simpa using c))
    have h1 : (1 : UInt64) ≤ v := by rw [UInt64.le_iff_toNat_le]; show 1 ≤ v.toNat; omega
    have hx : (v - 1).toNat = v.toNat - 1 := by rw [UInt64.toNat_sub_of_le _ _ h1]; rfl
    rw [UInt64.toNat_add, smear_toNat, hx]
    by_cases hx0 : v.toNat - 1 = 0
    · rw [hx0]
      exact ⟨0, by omega, by decide, by omega, by omega⟩
    · have h64 : v.toNat - 1 < 2 ^ 64 := by omega
      rw [smearN_eq _ hx0 h64]
      have hlt : v.toNat - 1 < 2 ^ ((v.toNat - 1).log2 + 1) := Nat.lt_log2_self
      have hge : 2 ^ (v.toNat - 1).log2 ≤ v.toNat - 1 := Nat.log2_self_le hx0
      have hL : (v.toNat - 1).log2 < 63 := (Nat.log2_lt hx0).mpr (by omega)
      have hpos : 0 < 2 ^ ((v.toNat - 1).log2 + 1) := Nat.two_pow_pos _
      have hle : 2 ^ ((v.toNat - 1).log2 + 1) ≤ 2 ^ 63 := Nat.pow_le_pow_right (by decide) (by omega)
      refine ⟨(v.toNat - 1).log2 + 1, by omega, ?_, by omega, ?_⟩
      · show (2 ^ ((v.toNat - 1).log2 + 1) - 1 + (1 : UInt64).toNat) % 2 ^ 64 = _
        have : (1 : UInt64).toNat = 1 := rfl
        rw [this, Nat.sub_add_cancel hpos]
        exact Nat.mod_eq_of_lt (by omega)
      · intro _
        rw [Nat.pow_succ]; omega

/-- above `2^63` the 64-bit computation wraps: the smear gives `2^64 - 1` and `+ 1` gives 0 (capacity 0: such a ring
refuses every push) -/
theorem nextPowerOfTwo_wraps (v : UInt64) (hv : 2 ^ 63 < v.toNat) : nextPowerOfTwo v = 0 := by
  rw [nextPowerOfTwo_unfold]
  have h0 : v ≠ 0 := by
    intro c; subst c; simp at hv
  simp only [h0, if_false]
  have h1 : (1 : UInt64) ≤ v := by rw [UInt64.le_iff_toNat_le]; show 1 ≤ v.toNat; omega
  have hx : (v - 1).toNat = v.toNat - 1 := by rw [UInt64.toNat_sub_of_le _ _ h1]; rfl
  have hlt := UInt64.toNat_lt v
  apply UInt64.toNat_inj.mp
  rw [UInt64.toNat_add, smear_toNat, hx]
  have hx0 : v.toNat - 1 ≠ 0 := by omega
  rw [smearN_eq _ hx0 (by omega)]
  have hL : (v.toNat - 1).log2 = 63 := by
    have a : (v.toNat - 1).log2 < 64 := (Nat.log2_lt hx0).mpr (by omega)
    have b : ¬ (v.toNat - 1).log2 < 63 := by
      intro c
      have := (Nat.log2_lt hx0).mp c
      omega
    omega
  rw [hL]
  decide

/-- the model's `resize` (evaluated from the extracted expression trees) is the hand-written function on this source -/
theorem resize_unfold {α : Type} (r : Ring α) (n : UInt64) : resize r n = resizeRef r n := rfl

/-! ### resize / clear / queries -/

theorem contentOf_ofList {α : Type} (d : α) (xs : List α) (c : Nat) (h : xs.length ≤ c) :
    contentOf (ofList d xs) 0 xs.length c = xs := by
  apply List.ext_getElem
  · simp [contentOf]
  · intro i h1 h2
    have hi : i < xs.length := h2
    simp only [contentOf, List.getElem_map, List.getElem_range, Nat.zero_add, ofList]
    rw [Nat.mod_eq_of_lt (by omega)]
    simp [hi]

/-- `resize` refines the FIFO resize: the newest `min count newCap` items survive, in order -/
theorem resize_refines {α : Type} {r : Ring α} (h : WF r) (n : UInt64) (hn : n.toNat ≤ 2 ^ 63) :
    WF (resize r n).2 ∧ (abs r).step (.resize n) = (abs (resize r n).2, .count (resize r n).1.toNat) := by
  obtain ⟨k, hk, hc, _, _⟩ := nextPowerOfTwo_spec n hn
  rw [resize_unfold]
  dsimp only [resizeRef]
  have hle := h.le
  have hb := h.bound
  have hlt := UInt64.toNat_lt r.head
  have hs := sub_toNat h
  generalize hC : nextPowerOfTwo n = C at *
  have hCpos : 0 < C.toNat := by rw [hc]; exact Nat.two_pow_pos k
  -- toCopy
  generalize hm : (if r.head - r.tail < C then r.head - r.tail else C) = m
  have hmN : m.toNat = min (r.head.toNat - r.tail.toNat) C.toNat := by
    rw [← hm]; split
    · rename_i hlt'; rw [UInt64.lt_iff_toNat_lt, hs] at hlt'; rw [hs]; omega
    · rename_i hnl; rw [UInt64.lt_iff_toNat_lt, hs] at hnl; omega
  generalize hst : (if r.head - r.tail > C then r.head - C else r.tail) = st
  have hstN : st.toNat = r.tail.toNat + ((r.head.toNat - r.tail.toNat) - m.toNat) := by
    rw [← hst]; split
    · rename_i hgt
      have hgt' : C < r.head - r.tail := hgt
      rw [UInt64.lt_iff_toNat_lt, hs] at hgt'
      rw [UInt64.toNat_sub_of_le _ _ (by rw [UInt64.le_iff_toNat_le]; omega)]; omega
    · rename_i hng
      have hng' : ¬ C < r.head - r.tail := hng
      rw [UInt64.lt_iff_toNat_lt, hs] at hng'; omega
  have hmle : m ≤ r.head - r.tail := by rw [UInt64.le_iff_toNat_le, hs]; omega
  have hdrop : (r.head - r.tail - m).toNat = (r.head.toNat - r.tail.toNat) - C.toNat := by
    rw [UInt64.toNat_sub_of_le _ _ hmle, hs]; omega
  have hitems : readFrom r st m.toNat
      = ((abs r).items).drop ((r.head.toNat - r.tail.toNat) - C.toNat) := by
    rw [readFrom_eq h _ _ (by omega), abs_items h, contentOf_drop _ _ _ _ _ (by omega), hstN]
    congr 1 <;> omega
  have hlen : (readFrom r st m.toNat).length = m.toNat := by simp [readFrom]
  have hw : WF ({ r with cap := C, mask := C - 1, buf := ofList r.dflt (readFrom r st m.toNat), tail := 0, head := m } : Ring α) :=
    ⟨⟨k, hk, hc⟩, rfl, by show (0 : UInt64).toNat ≤ m.toNat; simp,
     by show m.toNat - (0 : UInt64).toNat ≤ C.toNat; simp; omega⟩
  refine ⟨hw, ?_⟩
  rw [abs_eq hw]
  show _ = (Fifo.mk C.toNat (contentOf (ofList r.dflt (readFrom r st m.toNat)) (0 : UInt64).toNat
      (m.toNat - (0 : UInt64).toNat) C.toNat), _)
  have e0 : (0 : UInt64).toNat = 0 := rfl
  rw [e0, Nat.sub_zero]
  have := contentOf_ofList r.dflt (readFrom r st m.toNat) C.toNat (by rw [hlen]; omega)
  rw [hlen] at this
  rw [this, hitems, hdrop]
  simp only [Fifo.step, hC]
  have : (abs r).items.length = r.head.toNat - r.tail.toNat := by rw [abs_items h, contentOf_length]
  rw [this]

theorem clear_wf {α : Type} {r : Ring α} (h : WF r) : WF (clear r) :=
  ⟨h.pow, h.mask, by show (0 : UInt64).toNat ≤ (0 : UInt64).toNat; omega, by show (0 : UInt64).toNat - (0 : UInt64).toNat ≤ _; simp⟩

theorem clear_abs {α : Type} {r : Ring α} (h : WF r) : abs (clear r) = ⟨r.cap.toNat, []⟩ := by
  rw [abs_eq (clear_wf h)]
  show Fifo.mk r.cap.toNat (contentOf _ _ ((0 : UInt64).toNat - (0 : UInt64).toNat) _) = _
  simp [contentOf]

theorem abs_len {α : Type} {r : Ring α} (h : WF r) : (abs r).items.length = r.head.toNat - r.tail.toNat := by
  rw [abs_items h, contentOf_length]

theorem abs_cap {α : Type} (r : Ring α) : (abs r).cap = r.cap.toNat := rfl

/-- side condition of one operation: counters do not overflow, requested capacities are representable -/
def Op.ok {α : Type} (r : Ring α) : Op α → Prop
  | .push _ => r.head.toNat + 1 < 2 ^ 64
  | .pushBatch xs => r.head.toNat + xs.length < 2 ^ 64
  | .resize n => n.toNat ≤ 2 ^ 63
  | _ => True

/-- every operation of the ring is the same operation of the bounded FIFO it stands for -/
theorem step_refines {α : Type} {r : Ring α} (h : WF r) (o : Op α) (ho : o.ok r) :
    WF (step r o).1 ∧ (abs r).step o = (abs (step r o).1, (step r o).2) := by
  cases o with
  | push x => exact tryPush_refines h x ho
  | pop => exact tryPop_refines h
  | peek => exact ⟨h, by simp only [step, Fifo.step, peek_refines h]⟩
  | pushBatch xs => exact tryPushBatch_refines h xs ho
  | popBatch n => exact tryPopBatch_refines h n
  | size => exact ⟨h, by simp only [step, Fifo.step, abs_len h, size, sub_toNat h]⟩
  | empty =>
    refine ⟨h, ?_⟩
    simp only [step, Fifo.step, empty, size]
    congr 2
    have := abs_len h
    have hs := sub_toNat h
    rw [Bool.eq_iff_iff]
    simp only [List.isEmpty_iff, beq_iff_eq]
    constructor
    · intro e; rw [e] at this
      apply UInt64.toNat_inj.mp; rw [hs]; simpa using this.symm
    · intro e; rw [e] at hs
      apply List.eq_nil_of_length_eq_zero; rw [this]; simpa using hs.symm
  | full =>
    refine ⟨h, ?_⟩
    simp only [step, Fifo.step, full, size, abs_len h, abs_cap]
    congr 2
    have e := ge_iff h
    by_cases hc : r.head - r.tail ≥ r.cap
    · have := e.mp hc; simp [hc, this]
    · have : ¬ r.cap.toNat ≤ r.head.toNat - r.tail.toNat := fun c => hc (e.mpr c)
      simp [hc, this]
  | capacity => exact ⟨h, rfl⟩
  | clear => exact ⟨clear_wf h, by simp only [step, Fifo.step, clear_abs h]; rfl⟩
  | resize n => exact resize_refines h n ho

theorem step_head_le {α : Type} {r : Ring α} (h : WF r) (o : Op α) (ho : o.ok r) :
    (step r o).1.head.toNat ≤ r.head.toNat + o.weight := by
  cases o with
  | push x =>
    simp only [step, tryPush, Op.weight]
    split
    · show r.head.toNat ≤ _; omega
    · show (r.head + 1).toNat ≤ _; rw [toNat_add_one _ ho]; omega
  | pushBatch xs =>
    simp only [step, tryPushBatch, Op.weight]
    generalize hm : (if xs.length < (r.cap - (r.head - r.tail)).toNat then xs.length else (r.cap - (r.head - r.tail)).toNat) = m
    have hml : m ≤ xs.length := by rw [← hm]; split <;> omega
    have ho' : r.head.toNat + xs.length < 2 ^ 64 := ho
    show (r.head + UInt64.ofNat m).toNat ≤ _
    rw [toNat_add_ofNat _ _ (by omega)]; omega
  | resize n =>
    simp only [step, resize_unfold, resizeRef, Op.weight]
    have hs := sub_toNat h
    show (if r.head - r.tail < nextPowerOfTwo n then r.head - r.tail else nextPowerOfTwo n).toNat ≤ _
    split
    · rw [hs]; omega
    · rename_i hnl; rw [UInt64.lt_iff_toNat_lt, hs] at hnl; omega
  | clear => simp [step, clear, Op.weight]
  | pop =>
    simp only [step, tryPop, Op.weight]; split <;> simp
  | popBatch n => simp [step, tryPopBatch, Op.weight]
  | peek => simp [step, Op.weight]
  | size => simp [step, Op.weight]
  | empty => simp [step, Op.weight]
  | full => simp [step, Op.weight]
  | capacity => simp [step, Op.weight]

/-- total number of items a history may add to `_head` -/
def totalWeight {α : Type} (ops : List (Op α)) : Nat := (ops.map Op.weight).sum

/-- every `resize` request in the history is representable (`≤ 2^63`; beyond that `nextPowerOfTwo` wraps to 0) -/
def resizesOk {α : Type} : List (Op α) → Prop
  | [] => True
  | .resize n :: os => n.toNat ≤ 2 ^ 63 ∧ resizesOk os
  | _ :: os => resizesOk os

theorem run_refines {α : Type} (ops : List (Op α)) : ∀ (r : Ring α), WF r → r.head.toNat + totalWeight ops < 2 ^ 64 →
    resizesOk ops →
    WF (run r ops).1 ∧ (abs r).run ops = (abs (run r ops).1, (run r ops).2) := by
  induction ops with
  | nil => intro r h _ _; exact ⟨h, rfl⟩
  | cons o os ih =>
    intro r h hw hr
    have hw' : r.head.toNat + (o.weight + totalWeight os) < 2 ^ 64 := by
      simpa [totalWeight] using hw
    have hok : o.ok r := by
      cases o <;> simp only [Op.ok, Op.weight] at * <;> first | trivial | omega | exact hr.1
    have hr' : resizesOk os := by
      cases o <;> first | exact hr.2 | exact hr
    obtain ⟨hwf, hstep⟩ := step_refines h o hok
    have hhead := step_head_le h o hok
    obtain ⟨hwf2, hrun⟩ := ih (step r o).1 hwf (by omega) hr'
    refine ⟨hwf2, ?_⟩
    simp only [run, Fifo.run, hstep, hrun]

theorem mkStatic_wf {α : Type} (d : α) (c : UInt64) (k : Nat) (hk : k ≤ 63) (hc : c.toNat = 2 ^ k) : WF (mkStatic d c) :=
  ⟨⟨k, hk, hc⟩, rfl, Nat.le_refl _, by show (0 : UInt64).toNat - (0 : UInt64).toNat ≤ _; simp⟩

theorem mkDynamic_wf {α : Type} (d : α) (req : UInt64) (h : req.toNat ≤ 2 ^ 63) : WF (mkDynamic d req) := by
  obtain ⟨k, hk, hc, _, _⟩ := nextPowerOfTwo_spec req h
  exact mkStatic_wf d _ k hk hc

theorem mkStatic_abs {α : Type} (d : α) (c : UInt64) : abs (mkStatic d c) = ⟨c.toNat, []⟩ := by
  simp [abs, mkStatic, readFrom]

end Iora.Ring
