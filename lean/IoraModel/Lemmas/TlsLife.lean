import IoraModel.Model.TlsLife
import IoraModel.Lemmas.TlsPlan
/-! # C07 — lemmas about the lifecycles of `Model/TlsLife.lean` -/
namespace Iora.Tls
open Iora.Gen.TlsCalls

/-! ### `HttpServer` history -/

/-- the settings a started server runs with are the settings `enableTls` accepted last -/
def HSState.Coherent (s : HSState) : Prop := s.running = none ∨ s.running = some s.stored

theorem hsStep_coherent (s : HSState) (o : HSOp) (h : s.Coherent) : (hsStep s o).1.Coherent := by
  cases o with
  | start => simp [hsStep, HSState.Coherent]
  | stop => simp [hsStep, HSState.Coherent]
  | enableTls c =>
    simp only [hsStep, enableTlsRejectsWhenStarted, Bool.true_and]
    cases hr : s.running with
    | some a => simpa [hr] using h
    | none =>
      simp only [Option.isSome_none, Bool.false_eq_true, if_false]
      split
      · exact h
      · simp [HSState.Coherent, hr]

theorem hsRun_coherent (s : HSState) (ops : List HSOp) (h : s.Coherent) : (hsRun s ops).Coherent := by
  induction ops generalizing s with
  | nil => exact h
  | cons o os ih => exact ih _ (hsStep_coherent s o h)

/-- only an accepted `enableTls` writes `_tlsConfig`; what it writes satisfies its preconditions -/
def HSState.Valid (s : HSState) : Prop := ∀ c, s.stored = some c → enableTlsInvalid c = false

theorem hsStep_valid (s : HSState) (o : HSOp) (h : s.Valid) : (hsStep s o).1.Valid := by
  cases o with
  | start => simpa [hsStep, HSState.Valid] using h
  | stop => simpa [hsStep, HSState.Valid, stopKeepsTlsConfig] using h
  | enableTls c =>
    simp only [hsStep]
    split
    · exact h
    · split
      · exact h
      · rename_i hv
        intro c' hc'
        simp only [Option.some.injEq] at hc'
        subst hc'
        simpa using hv

theorem hsRun_valid (s : HSState) (ops : List HSOp) (h : s.Valid) : (hsRun s ops).Valid := by
  induction ops generalizing s with
  | nil => exact h
  | cons o os ih => exact ih _ (hsStep_valid s o h)

/-- `start`/`stop` never touch `_tlsConfig` once it is set -/
theorem hsStep_keeps (s : HSState) (o : HSOp) (c : HttpSrvTls) (h : s.stored = some c) : (hsStep s o).1.stored.isSome = true := by
  cases o with
  | start => simp [hsStep, h]
  | stop => simp [hsStep, h, stopKeepsTlsConfig]
  | enableTls c' => simp only [hsStep]; split <;> (try split) <;> simp [h]

/-! ### the receive side -/

theorem readAvail_tls (s : Sess) (wire : List UInt8) (h : s.IsTls) (ho : s.tlsState = .open) :
    ∀ bs, ROut.deliverRaw bs ∉ readAvail s wire := by
  obtain ⟨_, hm, _⟩ := h
  intro bs
  cases wire <;> cases hmm : s.tlsMode <;> simp_all [readAvail, Sess.openTls, readAvailSslWhenOpenTls]

theorem recvStep_tls (s : Sess) (wire : List UInt8) (rc : Option Bool) (h : s.IsTls) :
    (recvStep s wire rc).1.IsTls ∧ (∀ bs, ROut.deliverRaw bs ∉ (recvStep s wire rc).2) ∧
    (∀ bs, ROut.out (.rawWire bs) ∉ (recvStep s wire rc).2) := by
  obtain ⟨req, mode, st, pend, ann, closed, wq⟩ := s
  obtain ⟨hr, hm, hs⟩ := h
  simp only at hr hm hs
  cases req <;> simp at hr <;> cases mode <;> simp at hm <;> cases st <;> simp at hs <;> cases closed <;>
    rcases rc with _ | _ | _ <;> cases wire <;>
    simp [recvStep, readAvail, driveHs, leakOnIncomplete, Sess.IsTls, Sess.inHs, Sess.openTls,
      handshakeDrivenFirst, handshakeReturnsWhenIncomplete, wantIoKeepsHandshake, failureCloses, openOnlyOnRc1, connectCbOnlyOnRc1,
      readAvailSslWhenOpenTls, readAvailAfterHandshakeGate, driveHsReadsOnlyAfterOpen]

theorem rStep_tls (s : Sess) (ev : REv) (h : s.IsTls) :
    (rStep s ev).1.IsTls ∧ (∀ bs, ROut.deliverRaw bs ∉ (rStep s ev).2) ∧ (∀ bs, ROut.out (.rawWire bs) ∉ (rStep s ev).2) := by
  cases ev with
  | inp wire rc => exact recvStep_tls s wire rc h
  | out e =>
    have := sessStep_tls s e h
    refine ⟨this.1, ?_, ?_⟩
    · intro bs; simp [rStep]
    · intro bs; simpa [rStep] using this.2 bs

theorem rRun_tls (s : Sess) (evs : List REv) (h : s.IsTls) :
    ∀ bs, ROut.deliverRaw bs ∉ rRun s evs ∧ ROut.out (.rawWire bs) ∉ rRun s evs := by
  induction evs generalizing s with
  | nil => simp [rRun]
  | cons e es ih =>
    intro bs
    have hst := rStep_tls s e h
    simp only [rRun, List.mem_append, not_or]
    exact ⟨⟨hst.2.1 bs, (ih _ hst.1 bs).1⟩, ⟨hst.2.2 bs, (ih _ hst.1 bs).2⟩⟩

theorem recvStep_pending (s : Sess) (wire : List UInt8) (rc : Option Bool) (h : s.Pending) (hrc : rc ≠ some true) :
    (recvStep s wire rc).1.Pending ∧ ∀ o ∈ (recvStep s wire rc).2, o = .out .onClose := by
  obtain ⟨req, mode, st, pend, ann, closed, wq⟩ := s
  obtain ⟨hr, hm, hs, ha⟩ := h
  simp only at hr hm hs ha
  subst ha
  cases req <;> simp at hr <;> cases mode <;> simp at hm <;> cases closed <;> cases st <;> simp at hs <;>
    rcases rc with _ | _ | _ <;> simp at hrc <;> cases wire <;>
    simp [recvStep, readAvail, driveHs, leakOnIncomplete, Sess.Pending, Sess.inHs, Sess.openTls,
      handshakeDrivenFirst, handshakeReturnsWhenIncomplete, wantIoKeepsHandshake, failureCloses, openOnlyOnRc1, connectCbOnlyOnRc1,
      readAvailSslWhenOpenTls, readAvailAfterHandshakeGate, driveHsReadsOnlyAfterOpen]

theorem rStep_pending (s : Sess) (ev : REv) (h : s.Pending) (hev : ev.isHsOk = false) :
    (rStep s ev).1.Pending ∧ ∀ o ∈ (rStep s ev).2, o = .out .onClose := by
  cases ev with
  | inp wire rc =>
    refine recvStep_pending s wire rc h ?_
    intro hc; subst hc; simp [REv.isHsOk] at hev
  | out e =>
    have he : e.isHsOk = false := by
      cases e with
      | epoll o rc => rcases rc with _ | _ | _ <;> simp_all [REv.isHsOk, SEv.isHsOk]
      | immediate => rfl
      | appSend bs => rfl
    have := sessStep_pending s e h he
    refine ⟨this.1, ?_⟩
    intro o ho
    simp only [rStep, List.mem_map] at ho
    obtain ⟨o', ho', rfl⟩ := ho
    rw [this.2 o' ho']

theorem rRun_pending (s : Sess) (evs : List REv) (h : s.Pending) (hev : ∀ e ∈ evs, e.isHsOk = false) :
    ∀ o ∈ rRun s evs, o = .out .onClose := by
  induction evs generalizing s with
  | nil => simp [rRun]
  | cons e es ih =>
    intro o ho
    simp only [rRun, List.mem_append] at ho
    have hst := rStep_pending s e h (hev e (List.mem_cons_self ..))
    rcases ho with ho | ho
    · exact hst.2 o ho
    · exact ih _ hst.1 (fun e' he' => hev e' (List.mem_cons_of_mem _ he')) o ho

end Iora.Tls
