import IoraModel.Model.EngineQueue
/-! Invariants of the engine command-queue model (C05 T4). -/
namespace Iora.EngineQueue
set_option linter.unusedSimpArgs false
set_option linter.unusedVariables false

/-! the regenerated facts of both engines the model is instantiated with (a change of the source that flips one breaks the build here) -/
theorem f_enq : TeardownFacts.enqueueRefusesWhenClosed = true := by decide
theorem f_drain : TeardownFacts.drainClosesAndTakesUnderOneLock = true := by decide
theorem f_resid : TeardownFacts.residualPromisesFailed = true := by decide
theorem f_norm : TeardownFacts.dispatchFulfilsNormalArm = true := by decide
theorem f_catch : TeardownFacts.dispatchFulfilsCatchArm = true := by decide
theorem f_shut : TeardownFacts.shutdownCommandClearsRunning = true := by decide

/-- how many queued commands still carry promise `p` -/
def pending (s : State) (p : Nat) : Nat :=
  s.cmds.count (.addListener p) + s.batch.count (.addListener p) + s.residual.count (.addListener p)

structure Inv (s : State) : Prop where
  /-- conservation: every accepted promise is either still queued once or has been fulfilled once -/
  C : ∀ p, s.fulfilled p + pending s p = if p ∈ s.accepted then 1 else 0
  /-- once the queue is closed nothing is queued any more -/
  Q : s.closed = true → s.cmds = []
  P1 : s.phase = .loop ∨ s.phase = .drain → s.closed = false ∧ s.residual = []
  P2 : s.phase = .residual ∨ s.phase = .exited → s.closed = true ∧ s.batch = []
  P3 : s.phase = .exited → s.residual = []
  R : ∀ p, p ∈ s.rejected → p ∉ s.accepted

theorem Inv_init : Inv init := by
  constructor <;> simp [init, pending]

theorem count_snoc_ne {l : List Cmd} {c : Cmd} {q : Nat} (h : c ≠ .addListener q) :
    (l ++ [c]).count (.addListener q) = l.count (.addListener q) := by
  rw [List.count_append]
  have : [c].count (Cmd.addListener q) = 0 := by
    simp only [List.count_cons, List.count_nil]
    have : (c == Cmd.addListener q) = false := by simpa using h
    simp [this]
  omega

theorem count_snoc_eq {l : List Cmd} {q : Nat} :
    (l ++ [Cmd.addListener q]).count (.addListener q) = l.count (.addListener q) + 1 := by
  rw [List.count_append]; simp

/-- appending a command that does not carry a fresh accepted promise keeps the invariant -/
theorem push_plain {s : State} (h : Inv s) (hcl : s.closed = false) (c : Cmd) (hc : ∀ q, c ≠ .addListener q) :
    Inv { s with cmds := s.cmds ++ [c] } := by
  have hC := h.C; have hQ := h.Q; have hP1 := h.P1; have hP2 := h.P2; have hP3 := h.P3; have hR := h.R
  constructor
  · intro q; have := hC q; simp only [pending] at this ⊢; rw [count_snoc_ne (hc q)]; exact this
  · intro hc'; simp [hcl] at hc'
  · exact hP1
  · exact hP2
  · exact hP3
  · exact hR

theorem step_inv {s : State} (h : Inv s) (st : Step) (hok : ok s st = true) : Inv (step s st) := by
  have hC := h.C; have hQ := h.Q; have hP1 := h.P1; have hP2 := h.P2; have hP3 := h.P3; have hR := h.R
  cases st with
  | enqueue c =>
    simp only [step]
    cases hcl : s.closed with
    | true =>
      cases c with
      | addListener p =>
        simp only [ok, Bool.and_eq_true, Bool.not_eq_true', List.contains_eq_mem, decide_eq_false_iff_not] at hok
        have e : doEnqueue s (.addListener p) = { s with rejected := p :: s.rejected } := by simp [doEnqueue, hcl, f_enq]
        rw [e]
        constructor
        · intro q; have := hC q; simpa [pending] using this
        · exact hQ
        · exact hP1
        · exact hP2
        · exact hP3
        · intro q hq
          simp only [List.mem_cons] at hq
          rcases hq with hq | hq
          · subst hq; exact hok.1
          · exact hR q hq
      | shutdown => have e : doEnqueue s .shutdown = s := by simp [doEnqueue, hcl, f_enq]
                    rw [e]; exact h
      | other => have e : doEnqueue s .other = s := by simp [doEnqueue, hcl, f_enq]
                 rw [e]; exact h
    | false =>
      cases c with
      | addListener p =>
        simp only [ok, Bool.and_eq_true, Bool.not_eq_true', List.contains_eq_mem, decide_eq_false_iff_not] at hok
        have e : doEnqueue s (.addListener p) =
            { s with cmds := s.cmds ++ [.addListener p], accepted := p :: s.accepted } := by simp [doEnqueue, hcl, f_enq]
        rw [e]
        constructor
        · intro q
          have := hC q
          by_cases hqp : q = p
          · subst hqp
            simp only [pending] at this ⊢
            rw [count_snoc_eq]
            simp only [hok.1, if_false] at this
            simp only [List.mem_cons, true_or, if_true]
            omega
          · have hne : (Cmd.addListener p) ≠ Cmd.addListener q := by
              intro h'; injection h' with h''; exact hqp h''.symm
            simp only [pending] at this ⊢
            rw [count_snoc_ne hne]
            simp only [List.mem_cons, hqp, false_or]
            exact this
        · intro hc; simp [hcl] at hc
        · exact hP1
        · exact hP2
        · exact hP3
        · intro q hq hq'
          simp only [List.mem_cons] at hq'
          rcases hq' with hq' | hq'
          · subst hq'; exact hok.2 hq
          · exact hR q hq hq'
      | shutdown =>
        have e : doEnqueue s .shutdown = { s with cmds := s.cmds ++ [.shutdown] } := by simp [doEnqueue, hcl, f_enq]
        rw [e]; exact push_plain h hcl _ (by intro q; simp)
      | other =>
        have e : doEnqueue s .other = { s with cmds := s.cmds ++ [.other] } := by simp [doEnqueue, hcl, f_enq]
        rw [e]; exact push_plain h hcl _ (by intro q; simp)
  | clearRunning =>
    simp only [step]
    constructor <;> simp_all [pending]
  | restart =>
    simp only [step]
    split
    · rename_i hph
      have h2 := hP2 (Or.inr hph)
      have h3 := hP3 hph
      have h4 := hQ h2.1
      constructor <;> simp_all [pending]
    · exact h
  | swap =>
    simp only [step]
    split
    · rename_i hph hb
      constructor <;> simp_all [pending]
      all_goals (intro p; have := hC p; omega)
    · rename_i hph hb
      constructor <;> simp_all [pending]
      all_goals (intro p; have := hC p; omega)
    · exact h
  | dispatch t =>
    simp only [step]
    have key : Inv (doDispatch s t) := by
      unfold doDispatch
      simp only [f_norm, f_catch, f_shut, ite_self, if_true]
      split
      · exact h
      · rename_i p rest hb
        constructor <;> simp_all [pending, bump]
        intro q; have := hC q
        by_cases hqp : q = p
        · subst hqp; simp [List.count_cons] at this ⊢; omega
        · have hne : ¬ (p = q) := fun h' => hqp h'.symm
          simp [List.count_cons, hqp, hne] at this ⊢; omega
      · rename_i rest hb
        constructor <;> simp_all [pending]
      · rename_i rest hb
        constructor <;> simp_all [pending]
    split
    · exact key
    · exact key
    · exact h
  | loopExit =>
    simp only [step]
    split
    · split
      · exact h
      · constructor <;> simp_all [pending]
    · exact h
  | closeQueue =>
    simp only [step, f_drain, if_true]
    split
    · rename_i hph hb
      constructor <;> simp_all [pending]
      all_goals (intro p; have := hC p; omega)
    · exact h
  | failResidual =>
    simp only [step, f_resid, if_true]
    split
    · constructor <;> simp_all [pending]
    · rename_i p rest hph hr
      constructor <;> simp_all [pending, bump]
      intro q; have := hC q
      by_cases hqp : q = p
      · subst hqp; simp [List.count_cons] at this ⊢; omega
      · have hne : ¬ (p = q) := fun h' => hqp h'.symm
        simp [List.count_cons, hqp, hne] at this ⊢; omega
    · rename_i c rest hph hr hnl
      constructor <;> simp_all [pending]
      all_goals
        intro q; have := hC q
        cases c with
        | addListener p => exact absurd rfl (hnl p rest)
        | shutdown => simp [List.count_cons] at this ⊢; omega
        | other => simp [List.count_cons] at this ⊢; omega
    · exact h

theorem run_inv : ∀ (steps : List Step) (s : State), Inv s → Disciplined s steps → Inv (run s steps) := by
  intro steps
  induction steps with
  | nil => intro s h _; exact h
  | cons st rest ih => intro s h hd; exact ih _ (step_inv h st hd.1) hd.2

end Iora.EngineQueue
