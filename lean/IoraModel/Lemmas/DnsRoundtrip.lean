import IoraModel.Lemmas.DnsName
/-! N1 round trips for C19: names written by `encodeName`, queries written by `buildQuery`. -/
namespace Iora.Dns
open Iora

theorem getElem?_mid (pre : Bytes) (x : UInt8) (post : Bytes) : (pre ++ x :: post)[pre.length]? = some x := by
  simp

theorem slice_mid (pre l post : Bytes) : slice (pre ++ l ++ post) pre.length l.length = l := by
  simp [slice, List.append_assoc]

theorem b8_toNat_small {n : Nat} (h : n < 256) : (b8 n).toNat = n := by
  simp [b8_toNat]; omega

theorem encodeWire_length (ls : List Bytes) : (encodeWire ls).length = wire ls + 1 := by
  induction ls with
  | nil => rfl
  | cons l ls ih => simp only [encodeWire, wire, List.length_cons, List.length_append, ih]; omega

/-- the uncompressed encoding of valid labels denotes those labels, wherever it stands in a message -/
theorem denotes_encodeWire (ls : List Bytes) (hv : ValidLabels ls) : ∀ (pre post : Bytes),
    DenotesH (pre ++ encodeWire ls ++ post) pre.length ls (pre.length + wire ls + 1) 0 := by
  induction ls with
  | nil =>
    intro pre post
    have : (pre ++ encodeWire [] ++ post)[pre.length]? = some 0 := by
      simp [encodeWire]
    simpa [wire] using DenotesH.root this
  | cons l ls ih =>
    intro pre post
    have hl := hv l (by simp)
    have hv' : ValidLabels ls := fun x hx => hv x (by simp [hx])
    have hb : (b8 l.length).toNat = l.length := b8_toNat_small (by omega)
    -- re-associate the message around the first label
    have hm : pre ++ encodeWire (l :: ls) ++ post = (pre ++ b8 l.length :: l) ++ encodeWire ls ++ post := by
      simp [encodeWire, List.append_assoc]
    have hm2 : pre ++ encodeWire (l :: ls) ++ post = pre ++ b8 l.length :: (l ++ (encodeWire ls ++ post)) := by
      simp [encodeWire, List.append_assoc]
    have h0 : (pre ++ encodeWire (l :: ls) ++ post)[pre.length]? = some (b8 l.length) := by
      rw [hm2]; exact getElem?_mid _ _ _
    have hsl : slice (pre ++ encodeWire (l :: ls) ++ post) (pre.length + 1) (b8 l.length).toNat = l := by
      rw [hb]
      have : pre ++ encodeWire (l :: ls) ++ post = (pre ++ [b8 l.length]) ++ l ++ (encodeWire ls ++ post) := by
        simp [encodeWire, List.append_assoc]
      rw [this]
      have hlen : (pre ++ [b8 l.length]).length = pre.length + 1 := by simp
      rw [← hlen]
      exact slice_mid _ _ _
    have hrest := ih hv' (pre ++ b8 l.length :: l) post
    rw [← hm] at hrest
    have hlen : (pre ++ b8 l.length :: l).length = pre.length + ((b8 l.length).toNat + 1) := by
      simp [hb]
    rw [hlen] at hrest
    have hbound : pre.length + 1 + (b8 l.length).toNat ≤ (pre ++ encodeWire (l :: ls) ++ post).length := by
      rw [hm2, hb]; simp; omega
    have := DenotesH.label h0 (by omega) (by omega) hbound hrest
    rw [hsl] at this
    have e : pre.length + ((b8 l.length).toNat + 1) + wire ls + 1 = pre.length + wire (l :: ls) + 1 := by
      simp only [wire, hb]; omega
    rw [e] at this
    exact this

theorem encodeLabels_ok {ls : List Bytes} {w : Bytes} (h : encodeLabels ls = .ok w) :
    w = encodeWire ls ∧ ∀ l ∈ ls, l.length ≤ 63 := by
  induction ls generalizing w with
  | nil => simp [encodeLabels] at h; subst h; exact ⟨rfl, by simp⟩
  | cons l ls ih =>
    simp only [encodeLabels] at h
    split at h
    · cases h
    · rename_i hl
      simp only [Gen.Dns.maxLabel] at hl
      split at h
      · cases h
      · rename_i rest hr
        cases h
        obtain ⟨e, hall⟩ := ih hr
        refine ⟨by rw [e]; rfl, ?_⟩
        intro x hx
        cases hx with
        | head => omega
        | tail _ hm => exact hall x hm

theorem labelsOf_nonempty (name : Bytes) : ∀ l ∈ labelsOf name, 1 ≤ l.length := by
  intro l hl
  unfold labelsOf at hl
  have := (List.mem_filter.mp hl).2
  cases l with
  | nil => simp at this
  | cons _ _ => simp

/-- what `encodeName` writes: the uncompressed RFC 1035 encoding of the non-empty dot-separated pieces, at most 253 octets -/
theorem encodeName_ok {name w : Bytes} (h : encodeName name = .ok w) :
    w = encodeWire (labelsOf name) ∧ ValidLabels (labelsOf name) ∧ wire (labelsOf name) + 1 ≤ 255 := by
  unfold encodeName at h
  split at h
  · rename_i hsp
    cases h
    have : labelsOf name = [] := by
      rcases hsp with h1 | h1
      · have : name = [] := by simpa using h1
        subst this; rfl
      · subst h1; rfl
    rw [this]
    exact ⟨rfl, (by intro l hl; cases hl), (by simp [wire])⟩
  · split at h
    · cases h
    · rename_i enc he
      -- the length test counts the root octet (regenerated fact `Gen.Dns.encodeLimitCountsRoot`)
      rw [if_pos (show Gen.Dns.encodeLimitCountsRoot = true from rfl)] at h
      split at h
      · cases h
      · rename_i hlen
        cases h
        obtain ⟨e, hall⟩ := encodeLabels_ok he
        refine ⟨e, fun l hl => ⟨labelsOf_nonempty name l hl, hall l hl⟩, ?_⟩
        rw [e, encodeWire_length] at hlen
        simp only [Gen.Dns.maxName] at hlen
        omega

/-- **N1 (encode/decode round trip).** A name accepted by `encodeName`, placed anywhere in a message, decodes back to its
labels (the non-empty dot-separated pieces, joined by dots) and the decoder continues right behind it. -/
theorem decode_encodeName (name w : Bytes) (h : encodeName name = .ok w) (pre post : Bytes) :
    decodeName (pre ++ w ++ post) pre.length = .ok (dottedName (labelsOf name), pre.length + w.length) := by
  obtain ⟨e, hv, hw⟩ := encodeName_ok h
  subst e
  have hd := denotes_encodeWire (labelsOf name) hv pre post
  rw [encodeWire_length]
  have := decodeName_sound _ _ _ _ ⟨0, hd, Nat.zero_le _, hw⟩
  rw [this, Nat.add_assoc]

theorem rd_mid (pre : Bytes) (x : UInt8) (post : Bytes) : rd (pre ++ x :: post) pre.length = .ok x := by
  unfold rd; rw [getElem?_mid]

theorem rd16_mid (pre post : Bytes) (v : Nat) (hv : v < 65536) : rd16 (pre ++ be16 v ++ post) pre.length = .ok v := by
  have e1 : pre ++ be16 v ++ post = pre ++ b8 (v / 256) :: (b8 v :: post) := by simp [be16]
  have e2 : pre ++ be16 v ++ post = (pre ++ [b8 (v / 256)]) ++ b8 v :: post := by simp [be16]
  unfold rd16
  rw [e1, rd_mid]
  have : rd (pre ++ b8 (v / 256) :: b8 v :: post) (pre.length + 1) = .ok (b8 v) := by
    rw [← e1, e2]
    have hl : (pre ++ [b8 (v / 256)]).length = pre.length + 1 := by simp
    rw [← hl]; exact rd_mid _ _ _
  rw [this]
  simp only [bind, Except.bind, pure, Except.pure, b8_toNat]
  congr 1
  omega

/-- what a question looks like after a round trip: empty labels of the name are dropped -/
def normQ (q : Question) : Question := { q with qname := dottedName (labelsOf q.qname) }

theorem parseQuestion_encoded (q : Question) (w : Bytes) (hw : encodeName q.qname = .ok w)
    (ht : q.qtype < 65536) (hc : q.qclass < 65536) (pre post : Bytes) :
    parseQuestion (pre ++ (w ++ be16 q.qtype ++ be16 q.qclass) ++ post) pre.length =
      .ok (normQ q, pre.length + (w ++ be16 q.qtype ++ be16 q.qclass).length) := by
  have e0 : pre ++ (w ++ be16 q.qtype ++ be16 q.qclass) ++ post = pre ++ w ++ (be16 q.qtype ++ be16 q.qclass ++ post) := by
    simp [List.append_assoc]
  have e1 : pre ++ (w ++ be16 q.qtype ++ be16 q.qclass) ++ post = (pre ++ w) ++ be16 q.qtype ++ (be16 q.qclass ++ post) := by
    simp [List.append_assoc]
  have e2 : pre ++ (w ++ be16 q.qtype ++ be16 q.qclass) ++ post = (pre ++ w ++ be16 q.qtype) ++ be16 q.qclass ++ post := by
    simp [List.append_assoc]
  have hdec := decode_encodeName q.qname w hw pre (be16 q.qtype ++ be16 q.qclass ++ post)
  rw [← e0] at hdec
  have h16a : rd16 (pre ++ (w ++ be16 q.qtype ++ be16 q.qclass) ++ post) (pre.length + w.length) = .ok q.qtype := by
    rw [e1]
    have := rd16_mid (pre ++ w) (be16 q.qclass ++ post) q.qtype ht
    simpa using this
  have h16b : rd16 (pre ++ (w ++ be16 q.qtype ++ be16 q.qclass) ++ post) (pre.length + w.length + 2) = .ok q.qclass := by
    rw [e2]
    have := rd16_mid (pre ++ w ++ be16 q.qtype) post q.qclass hc
    simpa [Nat.add_assoc] using this
  have hlen : (pre ++ (w ++ be16 q.qtype ++ be16 q.qclass) ++ post).length = pre.length + w.length + 4 + post.length := by
    simp; omega
  unfold parseQuestion
  rw [hdec]
  simp only [bind, Except.bind, checkBounds, hlen, h16a, h16b, pure, Except.pure,
    show ¬ pre.length + w.length + 2 > pre.length + w.length + 4 + post.length by omega,
    show ¬ pre.length + w.length + 2 + 2 > pre.length + w.length + 4 + post.length by omega, ↓reduceIte]
  simp [normQ]; omega

theorem encodeQuestions_cons {q : Question} {qs : List Question} {body : Bytes} (h : encodeQuestions (q :: qs) = .ok body) :
    ∃ n rest, encodeName q.qname = .ok n ∧ encodeQuestions qs = .ok rest ∧ body = n ++ be16 q.qtype ++ be16 q.qclass ++ rest := by
  simp only [encodeQuestions] at h
  split at h
  · cases h
  · rename_i n hn
    split at h
    · cases h
    · rename_i rest hr
      cases h
      exact ⟨n, rest, hn, hr, rfl⟩

theorem parseQuestions_encoded : ∀ (qs : List Question) (body : Bytes), encodeQuestions qs = .ok body →
    (∀ q ∈ qs, q.qtype < 65536 ∧ q.qclass < 65536) → ∀ (pre post : Bytes) (acc : List Question),
    parseQuestions (pre ++ body ++ post) qs.length pre.length acc = .ok (acc ++ qs.map normQ, pre.length + body.length) := by
  intro qs
  induction qs with
  | nil =>
    intro body h _ pre post acc
    simp [encodeQuestions] at h
    subst h
    simp [parseQuestions]
  | cons q qs ih =>
    intro body h hq pre post acc
    obtain ⟨n, rest, hn, hr, hb⟩ := encodeQuestions_cons h
    subst hb
    have hq0 := hq q (by simp)
    have e : pre ++ (n ++ be16 q.qtype ++ be16 q.qclass ++ rest) ++ post =
        pre ++ (n ++ be16 q.qtype ++ be16 q.qclass) ++ (rest ++ post) := by simp [List.append_assoc]
    have e' : pre ++ (n ++ be16 q.qtype ++ be16 q.qclass ++ rest) ++ post =
        (pre ++ (n ++ be16 q.qtype ++ be16 q.qclass)) ++ rest ++ post := by simp [List.append_assoc]
    simp only [List.length_cons, parseQuestions]
    rw [e, parseQuestion_encoded q n hn hq0.1 hq0.2 pre (rest ++ post)]
    dsimp only
    rw [← e, e']
    have := ih rest hr (fun x hx => hq x (by simp [hx])) (pre ++ (n ++ be16 q.qtype ++ be16 q.qclass)) post (acc ++ [normQ q])
    rw [List.length_append] at this
    rw [this]
    simp [List.append_assoc]
    omega

/-- **N1q (query round trip).** Every query built by `buildQuery` (non-zero id) parses back to the same header fields and the
same questions, names normalised by dropping empty labels. -/
theorem parse_buildQuery (qs : List Question) (rd : Bool) (id0 gen : Nat) (w : Bytes) (h : buildQuery qs rd id0 gen = .ok w)
    (hid : (if id0 = 0 then gen else id0) < 65536) (hn : qs.length < 65536) (hq : ∀ q ∈ qs, q.qtype < 65536 ∧ q.qclass < 65536) :
    parse w = .ok { header := { id := if id0 = 0 then gen else id0, qr := false, opcode := 0, aa := false, tc := false, rd := rd,
                                ra := false, z := 0, rcode := 0, qd := qs.length, an := 0, ns := 0, ar := 0 },
                    questions := qs.map normQ } := by
  unfold buildQuery at h
  dsimp only at h
  generalize (if id0 = 0 then gen else id0) = id at h hid ⊢
  split at h
  · cases h
  · rename_i body hb
    cases h
    generalize hfl : (if rd = true then Gen.Dns.rdFlag else 0) = fl
    have hfl' : fl < 65536 := by
      subst hfl; cases rd <;> simp [Gen.Dns.rdFlag]
    let m := be16 id ++ be16 fl ++ be16 qs.length ++ be16 0 ++ be16 0 ++ be16 0 ++ body
    have r0 : rd16 m 0 = .ok id := by
      have := rd16_mid [] (be16 fl ++ be16 qs.length ++ be16 0 ++ be16 0 ++ be16 0 ++ body) id hid
      simpa [m, List.append_assoc] using this
    have r2 : rd16 m 2 = .ok fl := by
      have := rd16_mid (be16 id) (be16 qs.length ++ be16 0 ++ be16 0 ++ be16 0 ++ body) fl hfl'
      simpa [m, List.append_assoc] using this
    have r4 : rd16 m 4 = .ok qs.length := by
      have := rd16_mid (be16 id ++ be16 fl) (be16 0 ++ be16 0 ++ be16 0 ++ body) qs.length hn
      simpa [m, List.append_assoc] using this
    have r6 : rd16 m 6 = .ok 0 := by
      have := rd16_mid (be16 id ++ be16 fl ++ be16 qs.length) (be16 0 ++ be16 0 ++ body) 0 (by omega)
      simpa [m, List.append_assoc] using this
    have r8 : rd16 m 8 = .ok 0 := by
      have := rd16_mid (be16 id ++ be16 fl ++ be16 qs.length ++ be16 0) (be16 0 ++ body) 0 (by omega)
      simpa [m, List.append_assoc] using this
    have r10 : rd16 m 10 = .ok 0 := by
      have := rd16_mid (be16 id ++ be16 fl ++ be16 qs.length ++ be16 0 ++ be16 0) body 0 (by omega)
      simpa [m, List.append_assoc] using this
    have hlen : m.length = 12 + body.length := by simp [m]; omega
    have hqs := parseQuestions_encoded qs body hb hq (be16 id ++ be16 fl ++ be16 qs.length ++ be16 0 ++ be16 0 ++ be16 0) [] []
    have hpre : (be16 id ++ be16 fl ++ be16 qs.length ++ be16 0 ++ be16 0 ++ be16 0).length = 12 := by simp
    rw [hpre, List.append_nil] at hqs
    change parseQuestions m qs.length 12 [] = _ at hqs
    show parse m = _
    unfold parse parseHeader
    simp only [Gen.Dns.headerSize, hlen, show ¬ 12 + body.length < 12 by omega, ↓reduceIte, checkBounds,
      bind, Except.bind, Nat.zero_add, r0, r2, r4, r6, r8, r10, pure, Except.pure, hqs,
      parseSection, List.nil_append]
    subst hfl
    cases rd <;> simp [bitOf, Gen.Dns.rdFlag]

end Iora.Dns
