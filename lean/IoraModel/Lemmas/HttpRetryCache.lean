import IoraModel.Lemmas.HttpRetry
/-! Lemmas about the connection cache and the engine trace (C17, R4). -/
namespace Iora.HttpRetry
open Iora

/-! ### association-list facts -/

theorem mem_eraseHost {h : Host} {l : List (Host × Sid)} {p : Host × Sid} :
    p ∈ eraseHost h l ↔ p ∈ l ∧ p.1 ≠ h := by
  simp [eraseHost, List.mem_filter]

theorem lookup_eraseHost (h : Host) (l : List (Host × Sid)) : (eraseHost h l).lookup h = none := by
  induction l with
  | nil => rfl
  | cons p t ih =>
    obtain ⟨k, v⟩ := p
    by_cases hk : k = h
    · subst hk; simpa [eraseHost] using ih
    · have hk' : (h == k) = false := by simpa using fun e => hk e.symm
      simp only [eraseHost, List.filter_cons, ne_eq, hk, not_false_eq_true, decide_true, if_true, List.lookup_cons, hk']
      simpa [eraseHost] using ih

theorem lookup_some_mem {h : Host} {s : Sid} : ∀ {l : List (Host × Sid)}, l.lookup h = some s → (h, s) ∈ l := by
  intro l
  induction l with
  | nil => intro hl; simp at hl
  | cons p t ih =>
    obtain ⟨k, v⟩ := p
    intro hl
    by_cases hk : (h == k) = true
    · simp only [List.lookup_cons, hk] at hl
      have : h = k := by simpa using hk
      subst this
      cases hl
      simp
    · have hk' : (h == k) = false := by simpa using hk
      simp only [List.lookup_cons, hk'] at hl
      exact List.mem_cons_of_mem _ (ih hl)

theorem lookup_none_not_key {h : Host} : ∀ {l : List (Host × Sid)}, l.lookup h = none → ∀ p ∈ l, p.1 ≠ h := by
  intro l
  induction l with
  | nil => intro _ p hp; simp at hp
  | cons q t ih =>
    obtain ⟨k, v⟩ := q
    intro hl p hp
    by_cases hk : (h == k) = true
    · simp [List.lookup_cons, hk] at hl
    · have hk' : (h == k) = false := by simpa using hk
      simp only [List.lookup_cons, hk'] at hl
      rcases List.mem_cons.1 hp with rfl | hp
      · intro e; simp at hk'; exact hk' e.symm
      · exact ih hl p hp

theorem nodup_snd_unique : ∀ {l : List (Host × Sid)}, (l.map (·.2)).Nodup → ∀ p ∈ l, ∀ q ∈ l, p.2 = q.2 → p = q := by
  intro l
  induction l with
  | nil => intro _ p hp; simp at hp
  | cons a t ih =>
    intro hn p hp q hq hpq
    simp only [List.map_cons, List.nodup_cons, List.mem_map, not_exists, not_and] at hn
    rcases List.mem_cons.1 hp with hp1 | hp1 <;> rcases List.mem_cons.1 hq with hq1 | hq1
    · rw [hp1, hq1]
    · rw [hp1] at hpq; exact absurd hpq.symm (hn.1 q hq1)
    · rw [hq1] at hpq; exact absurd hpq (hn.1 p hp1)
    · exact ih hn.2 p hp1 q hq1 hpq

theorem eraseHost_sublist (h : Host) (l : List (Host × Sid)) : (eraseHost h l).Sublist l := by
  simp [eraseHost]

theorem nodup_map_eraseHost {β : Type} (f : Host × Sid → β) (h : Host) {l : List (Host × Sid)} (hn : (l.map f).Nodup) :
    ((eraseHost h l).map f).Nodup :=
  List.Nodup.sublist ((eraseHost_sublist h l).map f) hn

/-! ### the invariant through the helpers -/

theorem Inv.erase {cl : List Sid} {c : Client} (hi : Inv cl c) (h : Host) :
    Inv cl { c with conns := eraseHost h c.conns } :=
  { keys := nodup_map_eraseHost _ h hi.keys
    sids := nodup_map_eraseHost _ h hi.sids
    live := fun p hp => hi.live p (mem_eraseHost.1 hp).1
    old := hi.old }

theorem dropConnection_hit {c : Client} {h : Host} {sid : Sid} (hl : c.conns.lookup h = some sid) :
    (dropConnection c h sid).1 = { c with conns := eraseHost h c.conns } := by
  simp [dropConnection, hl]

/-- evicting the entry of `h` (which holds `sid`) and closing `sid` -/
theorem Inv.drop {cl : List Sid} {c : Client} (hi : Inv cl c) {h : Host} {sid : Sid} (hl : c.conns.lookup h = some sid) :
    Inv (sid :: cl) (dropConnection c h sid).1 := by
  have hm := lookup_some_mem hl
  rw [dropConnection_hit hl]
  have he := hi.erase h
  refine { keys := he.keys, sids := he.sids, live := ?_, old := ?_ }
  · intro p hp
    have hp' := mem_eraseHost.1 hp
    refine ⟨?_, (hi.live p hp'.1).2⟩
    intro hin
    rcases List.mem_cons.1 hin with e | hin
    · have := nodup_snd_unique hi.sids p hp'.1 (h, sid) hm e
      exact hp'.2 (by rw [this])
    · exact (hi.live p hp'.1).1 hin
  · intro s hs
    rcases List.mem_cons.1 hs with hs | hs
    · subst hs; exact (hi.live _ hm).2
    · exact hi.old s hs


/-! ### traces -/

theorem closedAfter_append (cl : List Sid) (e1 e2 : List Ev) :
    closedAfter cl (e1 ++ e2) = closedAfter (closedAfter cl e1) e2 := by
  induction e1 generalizing cl with
  | nil => rfl
  | cons e es ih => cases e <;> simp [closedAfter, ih]

theorem wellUsed_append (cl : List Sid) (e1 e2 : List Ev) :
    wellUsed cl (e1 ++ e2) ↔ wellUsed cl e1 ∧ wellUsed (closedAfter cl e1) e2 := by
  induction e1 generalizing cl with
  | nil => simp [wellUsed, closedAfter]
  | cons e es ih => cases e <;> simp [wellUsed, closedAfter, ih, and_assoc]

/-- what a piece of code guarantees when started in `c` with the sessions `cl` closed so far -/
structure StepOK (cl : List Sid) (c c' : Client) (ev : List Ev) : Prop where
  used : wellUsed cl ev
  inv : Inv (closedAfter cl ev) c'
  mono : c.nextSid ≤ c'.nextSid
  leased : c'.leased = c.leased

theorem StepOK.refl {cl : List Sid} {c : Client} (hi : Inv cl c) : StepOK cl c c [] :=
  ⟨trivial, hi, Nat.le_refl _, rfl⟩

theorem StepOK.trans {cl : List Sid} {c c1 c2 : Client} {e1 e2 : List Ev}
    (h1 : StepOK cl c c1 e1) (h2 : StepOK (closedAfter cl e1) c1 c2 e2) : StepOK cl c c2 (e1 ++ e2) :=
  ⟨(wellUsed_append _ _ _).2 ⟨h1.used, h2.used⟩, by rw [closedAfter_append]; exact h2.inv,
   Nat.le_trans h1.mono h2.mono, h2.leased.trans h1.leased⟩

theorem not_mem_of_all_lt {l : List Sid} {n : Sid} (h : ∀ s ∈ l, s < n) : n ∉ l :=
  fun hn => Nat.lt_irrefl _ (h n hn)

/-- `dropConnection` of the cached entry -/
theorem step_drop {cl : List Sid} {c : Client} (hi : Inv cl c) {h : Host} {sid : Sid} (hl : c.conns.lookup h = some sid) :
    StepOK cl c (dropConnection c h sid).1 (dropConnection c h sid).2 ∧ (dropConnection c h sid).1.conns.lookup h = none := by
  have hinv := hi.drop hl
  rw [dropConnection_hit hl] at hinv ⊢
  refine ⟨⟨?_, ?_, Nat.le_refl _, rfl⟩, lookup_eraseHost h _⟩
  · simp [dropConnection, wellUsed]
  · simpa [dropConnection, closedAfter] using hinv

/-- what is cached for `h` after a piece of code that yields a session id or fails -/
def CacheAfter (h : Host) (c' : Client) : Except Exn Sid → Prop
  | .ok sid => c'.conns.lookup h = some sid
  | .error _ => c'.conns.lookup h = none

/-- opening a new connection when nothing is cached for `h` -/
theorem step_connectNew {cl : List Sid} {c : Client} (hi : Inv cl c) {h : Host} (a : Attempt) (hl : c.conns.lookup h = none) :
    StepOK cl c (connectNew c h a).1 (connectNew c h a).2.2 ∧
    CacheAfter h (connectNew c h a).1 (connectNew c h a).2.1 := by
  have hnew : c.nextSid ∉ cl := not_mem_of_all_lt hi.old
  have hlt : ∀ p ∈ c.conns, p.2 < c.nextSid := fun p hp => (hi.live p hp).2
  have hncl : ∀ p ∈ c.conns, p.2 ∉ cl := fun p hp => (hi.live p hp).1
  have hold : ∀ s ∈ cl, s < c.nextSid := hi.old
  unfold connectNew
  cases a.connect with
  | ok =>
    refine ⟨⟨?_, ?_, Nat.le_succ _, rfl⟩, by simp [CacheAfter, List.lookup]⟩
    · simp [wellUsed, hnew]
    · show Inv cl { conns := (h, c.nextSid) :: eraseHost h c.conns, leased := c.leased, nextSid := c.nextSid + 1,
                      tls := (c.nextSid, a.https) :: c.tls }
      refine { keys := ?_, sids := ?_, live := ?_, old := ?_ }
      · show ((h, c.nextSid) :: eraseHost h c.conns |>.map (·.1)).Nodup
        simp only [List.map_cons, List.nodup_cons]
        refine ⟨?_, nodup_map_eraseHost _ h hi.keys⟩
        intro hin
        obtain ⟨p, hp, hph⟩ := List.mem_map.1 hin
        exact (mem_eraseHost.1 hp).2 hph
      · show ((h, c.nextSid) :: eraseHost h c.conns |>.map (·.2)).Nodup
        simp only [List.map_cons, List.nodup_cons]
        refine ⟨?_, nodup_map_eraseHost _ h hi.sids⟩
        intro hin
        obtain ⟨p, hp, hps⟩ := List.mem_map.1 hin
        have h1 : p.2 < c.nextSid := hlt p (mem_eraseHost.1 hp).1
        have h2 : p.2 = c.nextSid := hps
        exact absurd h2 (Nat.ne_of_lt h1)
      · intro p hp
        have hp' : p ∈ (h, c.nextSid) :: eraseHost h c.conns := hp
        show p.2 ∉ cl ∧ p.2 < c.nextSid + 1
        rcases List.mem_cons.1 hp' with hp1 | hp1
        · rw [hp1]; exact ⟨hnew, Nat.lt_succ_self _⟩
        · have h1 := hlt p (mem_eraseHost.1 hp1).1
          exact ⟨hncl p (mem_eraseHost.1 hp1).1, Nat.lt_succ_of_lt h1⟩
      · intro s hs
        exact Nat.lt_succ_of_lt (hold s hs)
  | refused =>
    refine ⟨⟨?_, ?_, Nat.le_succ _, rfl⟩, hl⟩
    · simp [wellUsed, hnew]
    · show Inv cl { conns := c.conns, leased := c.leased, nextSid := c.nextSid + 1, tls := c.tls }
      exact { keys := hi.keys, sids := hi.sids,
              live := fun p hp => ⟨hncl p hp, Nat.lt_succ_of_lt (hlt p hp)⟩,
              old := fun s hs => Nat.lt_succ_of_lt (hold s hs) }
  | timedOut =>
    refine ⟨⟨?_, ?_, Nat.le_succ _, rfl⟩, hl⟩
    · simp [wellUsed, hnew]
    · show Inv (c.nextSid :: cl) { conns := c.conns, leased := c.leased, nextSid := c.nextSid + 1, tls := c.tls }
      refine { keys := hi.keys, sids := hi.sids, live := ?_, old := ?_ }
      · intro p hp
        have h1 : p.2 < c.nextSid := hlt p hp
        refine ⟨?_, Nat.lt_succ_of_lt h1⟩
        intro hin
        rcases List.mem_cons.1 hin with e | hin
        · exact absurd e (Nat.ne_of_lt h1)
        · exact hncl p hp hin
      · intro s hs
        show s < c.nextSid + 1
        rcases List.mem_cons.1 hs with e | hs
        · rw [e]; exact Nat.lt_succ_self _
        · exact Nat.lt_succ_of_lt (hold s hs)


theorem step_acquire {cl : List Sid} {c : Client} (hi : Inv cl c) (h : Host) (a : Attempt) :
    StepOK cl c (acquireConnection c h a).1 (acquireConnection c h a).2.2 ∧
    CacheAfter h (acquireConnection c h a).1 (acquireConnection c h a).2.1 := by
  unfold acquireConnection
  cases hl : c.conns.lookup h with
  | none => exact step_connectNew hi a hl
  | some sid =>
    by_cases hf : entryUsable c sid a = true
    · simp only [hf, if_true]
      exact ⟨StepOK.refl hi, hl⟩
    · have hf' : entryUsable c sid a = false := by simpa using hf
      simp only [hf', Bool.false_eq_true, if_false]
      have hd := step_drop hi hl
      rw [dropConnection_hit hl] at hd
      have hd1 : StepOK cl c { c with conns := eraseHost h c.conns } [.close sid] := by
        simpa [dropConnection] using hd.1
      have hc := step_connectNew (c := { c with conns := eraseHost h c.conns }) hd1.inv a (lookup_eraseHost h _)
      refine ⟨?_, hc.2⟩
      have := StepOK.trans hd1 hc.1
      simpa using this

theorem step_preSend {cl : List Sid} {c : Client} (hi : Inv cl c) (h : Host) (a : Attempt) :
    StepOK cl c (preSend c h a).1 (preSend c h a).2.2 ∧ CacheAfter h (preSend c h a).1 (preSend c h a).2.1 := by
  have ha := step_acquire hi h a
  unfold preSend
  generalize hx : acquireConnection c h a = x at ha
  obtain ⟨c1, r, ev⟩ := x
  cases r with
  | error e => exact ha
  | ok sid =>
    by_cases hs : a.setSync = true
    · simp only [hs, if_true]; exact ha
    · have hs' : a.setSync = false := by simpa using hs
      simp only [hs', Bool.false_eq_true, if_false]
      have hl : c1.conns.lookup h = some sid := ha.2
      have hd := step_drop ha.1.inv hl
      exact ⟨StepOK.trans ha.1 hd.1, hd.2⟩

/-- handing the request to the transport on the cached session -/
theorem step_send {cl : List Sid} {c : Client} (hi : Inv cl c) {h : Host} {sid : Sid} (hl : c.conns.lookup h = some sid) :
    StepOK cl c c [.send sid] :=
  ⟨by simp [wellUsed]; exact (hi.live _ (lookup_some_mem hl)).1, by simpa [closedAfter] using hi, Nat.le_refl _, rfl⟩

/-- after the part of executeRequest that runs under the lease: trace and cache are fine, a failed attempt leaves nothing
cached for the host, and a successful one leaves something cached only if the reuse decision said so -/
theorem step_underLease {cl : List Sid} {c : Client} (cfg : Cfg) (hi : Inv cl c) (h : Host) (a : Attempt) :
    StepOK cl c (underLease cfg c h a).1 (underLease cfg c h a).2.2 ∧
    (match (underLease cfg c h a).2.1.result with
     | .error _ => (underLease cfg c h a).1.conns.lookup h = none
     | .ok _ => (underLease cfg c h a).1.conns.lookup h ≠ none →
         ∃ r fe cd, loopRes a.recvs = .done r fe cd ∧ reusable cfg r fe cd a.residue = true ∧ a.setAsync = true) := by
  have hp := step_preSend hi h a
  unfold underLease
  generalize hx : preSend c h a = x at hp
  obtain ⟨c1, r, ev⟩ := x
  cases r with
  | error e => exact ⟨hp.1, hp.2⟩
  | ok sid =>
    have hl : c1.conns.lookup h = some sid := hp.2
    have hsend := StepOK.trans hp.1 (step_send hp.1.inv hl)
    have hdrop := step_drop hsend.inv hl
    have hall := StepOK.trans hsend hdrop.1
    by_cases hs : a.send = true
    · simp only [hs, Bool.not_true, Bool.false_eq_true, if_false]
      rw [recvLoop_eq]
      cases hlr : loopRes a.recvs with
      | fail e => exact ⟨by simpa [List.append_assoc] using hall, hdrop.2⟩
      | done r fe cd =>
        by_cases hk : (reusable cfg r fe cd a.residue && a.setAsync) = true
        · simp only [hk, if_true]
          refine ⟨hsend, fun _ => ⟨r, fe, cd, rfl, ?_, ?_⟩⟩ <;> simp_all
        · have hk' : (reusable cfg r fe cd a.residue && a.setAsync) = false := by simpa using hk
          simp only [hk', Bool.false_eq_true, if_false]
          exact ⟨by simpa [List.append_assoc] using hall, fun hne => absurd hdrop.2 hne⟩
    · have hs' : a.send = false := by simpa using hs
      simp only [hs', Bool.not_false, if_true]
      exact ⟨by simpa [List.append_assoc] using hall, hdrop.2⟩


theorem Inv.setLeased {cl : List Sid} {c : Client} (hi : Inv cl c) (l : List Host) : Inv cl { c with leased := l } :=
  { keys := hi.keys, sids := hi.sids, live := hi.live, old := hi.old }

theorem wellUsed_wrap (cl : List Sid) (h : Host) (ev : List Ev) :
    wellUsed cl ([.acquire h] ++ ev ++ [.release h]) ↔ wellUsed cl ev := by
  rw [wellUsed_append, wellUsed_append]
  simp [wellUsed, closedAfter]

theorem closedAfter_wrap (cl : List Sid) (h : Host) (ev : List Ev) :
    closedAfter cl ([.acquire h] ++ ev ++ [.release h]) = closedAfter cl ev := by
  rw [closedAfter_append, closedAfter_append]
  simp [closedAfter]

/-- one `executeRequest` call -/
theorem step_exec {cl : List Sid} {c : Client} (cfg : Cfg) (hi : Inv cl c) (urlOk : Bool) (h : Host) (a : Attempt) :
    StepOK cl c (executeRequest cfg c urlOk h a).1 (executeRequest cfg c urlOk h a).2.2 := by
  unfold executeRequest
  by_cases hu : urlOk = true
  · simp only [hu, Bool.not_true, Bool.false_eq_true, if_false]
    cases a.lease with
    | timedOut => exact StepOK.refl hi
    | closing => exact StepOK.refl hi
    | granted =>
      have hs := (step_underLease cfg (hi.setLeased (h :: c.leased)) h a).1
      generalize underLease cfg { c with leased := h :: c.leased } h a = x at hs
      obtain ⟨c1, lg, ev⟩ := x
      refine ⟨(wellUsed_wrap _ _ _).2 hs.used, ?_, hs.mono, ?_⟩
      · rw [closedAfter_wrap]; exact hs.inv.setLeased _
      · show c1.leased.erase h = c.leased
        rw [hs.leased]; simp
  · have : urlOk = false := by simpa using hu
    simp only [this, Bool.not_false, if_true]
    exact StepOK.refl hi

/-- **a failed attempt leaves no cached connection** (whenever it got as far as holding the lease), and a successful one
leaves one only if the reuse decision allowed it -/
theorem exec_cache {cl : List Sid} {c : Client} (cfg : Cfg) (hi : Inv cl c) (h : Host) (a : Attempt) (hl : a.lease = .granted) :
    match (executeRequest cfg c true h a).2.1.result with
    | .error _ => (executeRequest cfg c true h a).1.conns.lookup h = none
    | .ok _ => (executeRequest cfg c true h a).1.conns.lookup h ≠ none →
        ∃ r fe cd, loopRes a.recvs = .done r fe cd ∧ reusable cfg r fe cd a.residue = true ∧ a.setAsync = true := by
  have hs := (step_underLease cfg (hi.setLeased (h :: c.leased)) h a).2
  unfold executeRequest
  simp only [Bool.not_true, Bool.false_eq_true, if_false, hl]
  generalize underLease cfg { c with leased := h :: c.leased } h a = x at hs
  obtain ⟨c1, lg, ev⟩ := x
  exact hs

/-- the whole retry loop -/
theorem step_performLoop {cl : List Sid} (cfg : Cfg) (rq : Request) :
    ∀ (fuel attempt : Nat) (c : Client), Inv cl c →
      StepOK cl c (performLoop cfg rq fuel attempt c).client (performLoop cfg rq fuel attempt c).evs := by
  intro fuel
  induction fuel generalizing cl with
  | zero => intro attempt c hi; exact StepOK.refl hi
  | succ fuel ih =>
    intro attempt c hi
    have hs := step_exec cfg hi rq.urlOk rq.host (rq.script attempt)
    generalize hx : executeRequest cfg c rq.urlOk rq.host (rq.script attempt) = x at hs
    obtain ⟨c1, lg1, ev⟩ := x
    simp only [performLoop, hx]
    cases lg1.result with
    | ok r => exact hs
    | error e =>
      simp only
      cases dispatch e with
      | rethrow => exact hs
      | uncaught => exact hs
      | retry =>
        simp only
        split
        · exact hs
        · split
          · exact hs
          · exact StepOK.trans hs (ih (attempt + 1) c1 hs.inv)

theorem step_runRequests {cl : List Sid} (cfg : Cfg) :
    ∀ (rqs : List Request) (c : Client), Inv cl c →
      StepOK cl c (runRequests cfg c rqs).1 (runRequests cfg c rqs).2.1 := by
  intro rqs
  induction rqs generalizing cl with
  | nil => intro c hi; exact StepOK.refl hi
  | cons rq rqs ih =>
    intro c hi
    have h1 : StepOK cl c (performRequest cfg c rq).client (performRequest cfg c rq).evs := step_performLoop cfg rq _ 0 c hi
    have h2 := ih (performRequest cfg c rq).client h1.inv
    simp only [runRequests]
    exact StepOK.trans h1 h2

theorem Inv.init : Inv [] ({} : Client) :=
  { keys := by simp, sids := by simp, live := by intro p hp; simp at hp, old := by intro s hs; simp at hs }

/-! ### sends in the trace = attempts that reached sendSync -/

@[simp] theorem isSend_send (s : Sid) : isSend (.send s) = true := rfl
@[simp] theorem isSend_close (s : Sid) : isSend (.close s) = false := rfl
@[simp] theorem isSend_connect (h : Host) (s : Sid) : isSend (.connect h s) = false := rfl
@[simp] theorem isSend_acquire (h : Host) : isSend (.acquire h) = false := rfl
@[simp] theorem isSend_release (h : Host) : isSend (.release h) = false := rfl

theorem connectNew_sends (c : Client) (h : Host) (a : Attempt) : (connectNew c h a).2.2.countP isSend = 0 := by
  unfold connectNew; cases a.connect <;> simp

theorem acquire_sends (c : Client) (h : Host) (a : Attempt) : (acquireConnection c h a).2.2.countP isSend = 0 := by
  unfold acquireConnection
  split
  · split
    · simp
    · have := connectNew_sends { c with conns := eraseHost h c.conns } h a
      generalize connectNew { c with conns := eraseHost h c.conns } h a = x at this
      obtain ⟨c1, r, ev⟩ := x
      simp only [List.countP_cons, isSend_close] at this ⊢
      simpa using this
  · exact connectNew_sends _ _ _

theorem preSend_sends (c : Client) (h : Host) (a : Attempt) : (preSend c h a).2.2.countP isSend = 0 := by
  have ha := acquire_sends c h a
  unfold preSend
  generalize acquireConnection c h a = x at ha
  obtain ⟨c1, r, ev⟩ := x
  cases r with
  | error e => exact ha
  | ok sid =>
    have ha' : ev.countP isSend = 0 := ha
    simp only
    split
    · exact ha'
    · show (ev ++ [Ev.close sid]).countP isSend = 0
      rw [List.countP_append, ha']
      simp

theorem underLease_sends (cfg : Cfg) (c : Client) (h : Host) (a : Attempt) :
    (underLease cfg c h a).2.2.countP isSend = if (underLease cfg c h a).2.1.reachedSend then 1 else 0 := by
  have hp := preSend_sends c h a
  unfold underLease
  generalize preSend c h a = x at hp
  obtain ⟨c1, r, ev⟩ := x
  cases r with
  | error e => simpa using hp
  | ok sid =>
    have hp' : ev.countP isSend = 0 := hp
    simp only
    split
    · simp [dropConnection, List.countP_append, List.countP_cons, hp']
    · split
      · simp [dropConnection, List.countP_append, List.countP_cons, hp']
      · split <;> simp [dropConnection, List.countP_append, List.countP_cons, hp']

theorem exec_sends (cfg : Cfg) (c : Client) (urlOk : Bool) (h : Host) (a : Attempt) :
    (executeRequest cfg c urlOk h a).2.2.countP isSend = if (executeRequest cfg c urlOk h a).2.1.reachedSend then 1 else 0 := by
  unfold executeRequest
  by_cases hu : urlOk = true
  · simp only [hu, Bool.not_true, Bool.false_eq_true, if_false]
    cases a.lease with
    | timedOut => simp
    | closing => simp
    | granted =>
      have := underLease_sends cfg { c with leased := h :: c.leased } h a
      generalize underLease cfg { c with leased := h :: c.leased } h a = x at this
      obtain ⟨c1, lg, ev⟩ := x
      simp only [List.countP_append, List.countP_cons, List.countP_nil] at this ⊢
      simpa using this
  · have : urlOk = false := by simpa using hu
    simp [this]

theorem performLoop_sends (cfg : Cfg) (rq : Request) :
    ∀ (fuel attempt : Nat) (c : Client),
      (performLoop cfg rq fuel attempt c).evs.countP isSend = (performLoop cfg rq fuel attempt c).log.countP (·.reachedSend) := by
  intro fuel
  induction fuel with
  | zero => intro attempt c; simp [performLoop]
  | succ fuel ih =>
    intro attempt c
    have hs := exec_sends cfg c rq.urlOk rq.host (rq.script attempt)
    generalize hx : executeRequest cfg c rq.urlOk rq.host (rq.script attempt) = x at hs
    obtain ⟨c1, lg1, ev⟩ := x
    simp only at hs
    have h1 : ev.countP isSend = [lg1].countP (·.reachedSend) := by
      rw [hs]; cases hr : lg1.reachedSend <;> simp [hr]
    simp only [performLoop, hx]
    cases lg1.result with
    | ok r => exact h1
    | error e =>
      simp only
      cases dispatch e with
      | rethrow => exact h1
      | uncaught => exact h1
      | retry =>
        simp only
        split
        · exact h1
        · split
          · exact h1
          · simp only [List.countP_append, List.countP_cons, ih (attempt + 1) c1]
            simp only [List.countP_cons, List.countP_nil] at h1
            omega

end Iora.HttpRetry
