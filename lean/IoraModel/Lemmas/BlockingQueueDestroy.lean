import IoraModel.Model.BlockingQueue
/-!
# `~BlockingQueue()` — destruction with and without callers inside (blocking_queue.hpp l.80-83)

The destructor's body is `close()` (translator fact `("~BlockingQueue#0", [("call", "close", "", "")])`); when it returns
the members `_mutex`, `_condNotEmpty`, `_condNotFull`, `_queue` are destroyed.  In the monitor model a *destroying
thread* is a thread whose LAST call is `close`; "the destructor has returned" = that thread is `finished`.  Every step of
another thread after that moment touches a destroyed member (a woken waiter re-acquires `_mutex`, reads `_queue`, …):
destruction is safe exactly when no other thread has anything left to do.
-/
namespace Iora.BQ
open Iora.Monitor

/-- thread state of somebody who will never touch the queue again -/
def Gone (ts : TState Loc) : Prop := ts.status = .ready ∧ ts.loc.pc = .finished

/-- the full statement one would like: when the destructor (thread `d`, last call `close`) has returned, every other
thread is out of the object -/
def destroy_statement : Prop :=
  ∀ (cap : Nat) (ps : List (List Call)) (sched : List Choice) (d : Tid),
    (progOf ps d).getLast? = some .close →
    let s := run (prog true) (init cap ps) sched
    (s.thr d).loc.pc = .finished → ∀ t, t < s.n → t ≠ d → Gone (s.thr t)

/-- witness: one blocked `dequeue`, the other thread destroys: `close()` wakes the waiter (Q3), but when the destructor
returns the waiter is only *woken* - it still has to re-acquire `_mutex`, a member of the destroyed object -/
def destroySchedule : List Choice :=
  [.run 0 0, .run 0 0, .run 0 0, .run 1 0, .run 1 0, .run 1 0, .run 1 0, .run 1 0]

theorem destroy_witness :
    let s := run (prog true) (init 1 [[.dequeue], [.close]]) destroySchedule
    (s.thr 1).loc.pc = .finished ∧ (s.thr 0).status = .woken M false false ∧ (s.thr 0).loc.pc = .sleepNE := by
  decide

theorem destroy_refuted : ¬ destroy_statement := by
  intro h
  have := h 1 [[.dequeue], [.close]] destroySchedule 1 (by decide) (by decide) 0 (by decide) (by decide)
  exact absurd this.1 (by decide)

/-- a thread that is gone stays exactly as it is under every step of anybody -/
theorem step_gone (fixed : Bool) (s : State Data Loc) (c : Choice) (t : Tid) (h : Gone (s.thr t)) :
    (step (prog fixed) s c).thr t = s.thr t := by
  obtain ⟨hst, hpc⟩ := h
  have hop : (prog fixed).op (s.thr t).loc = .done := by simp [prog, op, hpc]
  have hna : ∀ cv, isAsleepOn cv (s.thr t) = false := by intro cv; simp [isAsleepOn, hst]
  cases c with
  | timeout u =>
    simp only [step]
    split
    · split
      · by_cases e : t = u
        · subst e; simp_all
        · simp [updT, e]
      · rfl
    · rfl
  | spurious u =>
    simp only [step]
    split
    · split
      · by_cases e : t = u
        · subst e; simp_all
        · simp [updT, e]
      · rfl
    · rfl
  | run u alt =>
    by_cases e : t = u
    · subst e
      simp only [step]
      split
      · simp [hst, hop]
      · rfl
    · simp only [step]
      split
      · split
        · rfl
        · split
          · simp [runAfter, updT, e]
          · rfl
        · split
          · simp [runAfter, updT, e]
          · simp [runAfter, updT, e]
          · split
            · simp [runAfter, updT, e]
            · rfl
          · simp [runAfter, updT, e]
          · simp [updT, e]
          · split
            · split
              · rename_i hal
                have hne : t ≠ alt := by
                  intro c; subst c; simp [hna] at hal
                simp [runAfter, updT, e, hne]
              · rfl
            · simp [runAfter, updT, e]
          · simp [runAfter, updT, e, wakeAll, hna]
          · rfl
      · rfl

/-- **destruction is safe when every other thread is out**: if in some state every thread other than the destroyer `d`
is gone, then under EVERY continuation (the destructor's `close()` included) none of them ever moves again - nobody but
`d` touches the object from then on -/
theorem destroy_partial (fixed : Bool) (d : Tid) (sched : List Choice) :
    ∀ (s : State Data Loc), (∀ t, t ≠ d → Gone (s.thr t)) →
      ∀ t, t ≠ d → (run (prog fixed) s sched).thr t = s.thr t ∧ Gone ((run (prog fixed) s sched).thr t) := by
  induction sched with
  | nil => intro s h t ht; exact ⟨rfl, h t ht⟩
  | cons c cs ih =>
    intro s h t ht
    have hs : ∀ u, u ≠ d → Gone ((step (prog fixed) s c).thr u) := by
      intro u hu; rw [step_gone fixed s c u (h u hu)]; exact h u hu
    have := ih (step (prog fixed) s c) hs t ht
    rw [run_cons]
    exact ⟨by rw [this.1, step_gone fixed s c t (h t ht)], this.2⟩

end Iora.BQ
