import IoraModel.Model.HttpRespondRestart
namespace Iora.HttpRespond
open Iora

theorem rmarkFirst_gen (o : Option Nat) (ts : List RTask) : ∀ t' ∈ rmarkFirst o ts, ∃ t ∈ ts, t'.gen = t.gen ∧ t'.sid = t.sid := by
  induction ts with
  | nil => intro t' h; cases h
  | cons a as ih =>
    intro t' h
    unfold rmarkFirst at h
    split at h
    · rcases List.mem_cons.1 h with rfl | h
      · exact ⟨t', List.mem_cons_self, rfl, rfl⟩
      · obtain ⟨t, ht, hg⟩ := ih t' h
        exact ⟨t, List.mem_cons_of_mem _ ht, hg⟩
    · rcases List.mem_cons.1 h with rfl | h
      · exact ⟨a, List.mem_cons_self, rfl, rfl⟩
      · exact ⟨t', List.mem_cons_of_mem _ h, rfl, rfl⟩

theorem rmarkFirst_stamp (ts : List RTask) : ∀ t' ∈ rmarkFirst none ts, ∃ t ∈ ts, t'.gen = t.gen ∧ t'.stamp = t.stamp := by
  induction ts with
  | nil => intro t' h; cases h
  | cons a as ih =>
    intro t' h
    unfold rmarkFirst at h
    split at h
    · rcases List.mem_cons.1 h with rfl | h
      · exact ⟨t', List.mem_cons_self, rfl, rfl⟩
      · obtain ⟨t, ht, hg⟩ := ih t' h
        exact ⟨t, List.mem_cons_of_mem _ ht, hg⟩
    · rcases List.mem_cons.1 h with rfl | h
      · exact ⟨a, List.mem_cons_self, rfl, rfl⟩
      · exact ⟨t', List.mem_cons_of_mem _ h, rfl, rfl⟩

theorem remitAt_tasks (ts : List RTask) (i : Nat) : ∀ t' ∈ (remitAt ts i).2, ∃ t ∈ ts, t'.gen = t.gen ∧ t'.sid = t.sid ∧ t'.stamp = t.stamp := by
  induction ts generalizing i with
  | nil => intro t' h; cases i <;> cases h
  | cons a as ih =>
    intro t' h
    cases i with
    | zero =>
      unfold remitAt at h
      split at h
      · exact ⟨t', h, rfl, rfl, rfl⟩
      · split at h
        · exact ⟨t', List.mem_cons_of_mem _ h, rfl, rfl, rfl⟩
        · exact ⟨t', List.mem_cons_of_mem _ h, rfl, rfl, rfl⟩
        · rcases List.mem_cons.1 h with rfl | h
          · exact ⟨a, List.mem_cons_self, rfl, rfl, rfl⟩
          · exact ⟨t', List.mem_cons_of_mem _ h, rfl, rfl, rfl⟩
    | succ j =>
      simp only [remitAt] at h
      rcases List.mem_cons.1 h with rfl | h
      · exact ⟨t', List.mem_cons_self, rfl, rfl, rfl⟩
      · obtain ⟨t, ht, hg⟩ := ih j t' h
        exact ⟨t, List.mem_cons_of_mem _ ht, hg⟩

theorem remitAt_emitted (ts : List RTask) (i : Nat) (t : RTask) (c : Cmd) (h : (remitAt ts i).1 = some (t, c)) : t ∈ ts := by
  induction ts generalizing i with
  | nil => cases i <;> simp [remitAt] at h
  | cons a as ih =>
    cases i with
    | zero =>
      unfold remitAt at h
      split at h
      · cases h
      · split at h
        · cases h
        · simp only [Option.some.injEq, Prod.mk.injEq] at h; rw [← h.1]; exact List.mem_cons_self
        · simp only [Option.some.injEq, Prod.mk.injEq] at h; rw [← h.1]; exact List.mem_cons_self
    | succ j =>
      simp only [remitAt] at h
      exact List.mem_cons_of_mem _ (ih j h)

theorem logSameGen_append {l m : List RCmd} (hl : LogSameGen l) (hm : LogSameGen m) : LogSameGen (l ++ m) := by
  intro e he
  rcases List.mem_append.1 he with h | h
  · exact hl e h
  · exact hm e h

/-- the stamp a worker compares is the generation its request arrived in -/
def Stamped (p : RPool) : Prop := ∀ t ∈ p.tasks, t.stamp = t.gen

/-- epoch captured at dispatch: one step keeps the stamps right and the log clean, whatever the tasks are -/
theorem stepR_dispatch (P : Params) (p : RPool) (s : RStep) (hs : Stamped p) (h : LogSameGen p.log) :
    Stamped (stepR .atDispatch P p s) ∧ LogSameGen (stepR .atDispatch P p s).log := by
  cases s with
  | arrive sid data =>
    simp only [stepR]
    split
    · exact ⟨hs, h⟩
    · split
      · refine ⟨hs, logSameGen_append h ?_⟩
        intro e he
        obtain ⟨c, _, rfl⟩ := List.mem_map.1 he
        rfl
      · refine ⟨?_, h⟩
        intro t htm
        rcases List.mem_append.1 htm with h' | h'
        · exact hs t h'
        · simp only [List.mem_singleton] at h'; subst h'; rfl
  | pick =>
    simp only [stepR]
    split
    · refine ⟨?_, h⟩
      intro t' h'
      have hne : ¬ (EpochCheck.atDispatch = EpochCheck.atTaskStart) := by decide
      rw [if_neg hne] at h'
      obtain ⟨t, htm, hg, hst⟩ := rmarkFirst_stamp p.tasks t' h'
      rw [hg, hst]; exact hs t htm
    · exact ⟨hs, h⟩
  | emit i =>
    have hkeep : ∀ t' ∈ (remitAt p.tasks i).2, t'.stamp = t'.gen := by
      intro t' h'
      obtain ⟨t, htm, hg, _, hst⟩ := remitAt_tasks p.tasks i t' h'
      rw [hg, hst]; exact hs t htm
    simp only [stepR]
    split
    · exact ⟨hkeep, h⟩
    · rename_i t c he
      split
      · rename_i hg
        refine ⟨hkeep, logSameGen_append h ?_⟩
        intro e hem
        simp only [List.mem_singleton] at hem
        subst hem
        have hk : (EpochCheck.atDispatch == EpochCheck.none) = false := by decide
        simp only [hk, Bool.false_or, Bool.and_eq_true, beq_iff_eq] at hg
        have := hs t (remitAt_emitted p.tasks i t c he)
        show p.gen = t.gen
        rw [← this]; exact hg.2.symm
      · exact ⟨hkeep, h⟩
  | stop => exact ⟨hs, h⟩
  | start => exact ⟨hs, h⟩

theorem runR_dispatch_log (P : Params) (p : RPool) (steps : List RStep) (hs : Stamped p) (h : LogSameGen p.log) :
    LogSameGen (runR .atDispatch P p steps).log := by
  induction steps generalizing p with
  | nil => exact h
  | cons s rest ih =>
    obtain ⟨a, b⟩ := stepR_dispatch P p s hs h
    exact ih (stepR .atDispatch P p s) a b

/-- invariant of the partial theorem: every live task belongs to the current generation -/
def TasksCurrent (p : RPool) : Prop := ∀ t ∈ p.tasks, t.gen = p.gen

theorem stepR_drained (g : EpochCheck) (P : Params) (p : RPool) (s : RStep)
    (hs : match s with | .start => p.tasks = [] | _ => True)
    (ht : TasksCurrent p) (hl : LogSameGen p.log) :
    TasksCurrent (stepR g P p s) ∧ LogSameGen (stepR g P p s).log := by
  cases s with
  | arrive sid data =>
    simp only [stepR]
    split
    · exact ⟨ht, hl⟩
    · split
      · refine ⟨ht, logSameGen_append hl ?_⟩
        intro e he
        obtain ⟨c, _, rfl⟩ := List.mem_map.1 he
        rfl
      · refine ⟨?_, hl⟩
        intro t htm
        rcases List.mem_append.1 htm with h | h
        · exact ht t h
        · simp only [List.mem_singleton] at h; subst h; rfl
  | pick =>
    simp only [stepR]
    split
    · refine ⟨?_, hl⟩
      intro t' h'
      obtain ⟨t, htm, hg, _⟩ := rmarkFirst_gen _ p.tasks t' h'
      rw [hg]; exact ht t htm
    · exact ⟨ht, hl⟩
  | emit i =>
    have hkeep : ∀ t' ∈ (remitAt p.tasks i).2, t'.gen = p.gen := by
      intro t' h'
      obtain ⟨t, htm, hg, _⟩ := remitAt_tasks p.tasks i t' h'
      rw [hg]; exact ht t htm
    simp only [stepR]
    split
    · exact ⟨hkeep, hl⟩
    · rename_i t c he
      split
      · refine ⟨hkeep, logSameGen_append hl ?_⟩
        intro e hem
        simp only [List.mem_singleton] at hem
        subst hem
        exact (ht t (remitAt_emitted p.tasks i t c he)).symm
      · exact ⟨hkeep, hl⟩
  | stop => exact ⟨ht, hl⟩
  | start =>
    simp only at hs
    refine ⟨?_, hl⟩
    intro t htm
    simp only [stepR, hs] at htm
    cases htm

theorem runR_drained (g : EpochCheck) (P : Params) (p : RPool) (steps : List RStep) (hd : StartsDrained g P p steps)
    (ht : TasksCurrent p) (hl : LogSameGen p.log) : LogSameGen (runR g P p steps).log := by
  induction steps generalizing p with
  | nil => exact hl
  | cons s rest ih =>
    obtain ⟨h1, h2⟩ := hd
    obtain ⟨a, b⟩ := stepR_drained g P p s h1 ht hl
    exact ih (stepR g P p s) h2 a b

end Iora.HttpRespond
