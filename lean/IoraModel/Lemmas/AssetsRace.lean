import IoraModel.Model.AssetsRace
import IoraModel.Lemmas.AssetsHistory
/-!
# C20 under N threads: theorems about the small-step model of the cache's double-checked locking (`Model/AssetsRace.lean`)
Every statement is for ALL thread pools, ALL schedules (induction over the schedule) and ALL snapshots.
-/
namespace Iora.Assets.Race
open Iora Iora.Assets

/-! ## the pool: what one step changes -/

theorem get_set {α} (l : List α) (i j : Nat) (a t : α) (h : (l.set i a)[j]? = some t) :
    (j = i ∧ t = a) ∨ (j ≠ i ∧ l[j]? = some t) := by
  rw [List.getElem?_set] at h
  by_cases hij : i = j
  · subst hij
    simp only [if_true] at h
    split at h
    · injection h with h; exact Or.inl ⟨rfl, h.symm⟩
    · cases h
  · simp only [hij, if_false] at h
    exact Or.inr ⟨fun e => hij e.symm, h⟩

theorem lt_of_get {α} (l : List α) (i : Nat) (t : α) (h : l[i]? = some t) : i < l.length := by
  rcases Nat.lt_or_ge i l.length with h' | h'
  · exact h'
  · rw [List.getElem?_eq_none h'] at h; cases h

theorem set_same {α} : ∀ (l : List α) (i : Nat) (t : α), l[i]? = some t → l.set i t = l
  | [], _, _, h => by simp at h
  | x :: xs, 0, t, h => by simp at h; simp [h]
  | x :: xs, i + 1, t, h => by
    simp at h
    simp [set_same xs i t h]

theorem step_none (sh : Shape) (s : State) (i : Nat) (h : s.threads[i]? = none) : step sh s i = s := by
  simp [step, h]

theorem step_some (sh : Shape) (s : State) (i : Nat) (t : Thread) (h : s.threads[i]? = some t) :
    step sh s i = { g := (stepT sh i t s.g).2, threads := s.threads.set i (stepT sh i t s.g).1 } := by
  simp [step, h]

/-- a property of the shared state and of every thread that every thread step preserves holds along every schedule -/
theorem run_invariant (sh : Shape) (G : Shared → Prop) (T : Thread → Prop)
    (hstep : ∀ i t g, G g → T t → G (stepT sh i t g).2 ∧ T (stepT sh i t g).1) :
    ∀ (sched : List Nat) (s : State), G s.g → (∀ t ∈ s.threads, T t) →
      G (run sh s sched).g ∧ ∀ t ∈ (run sh s sched).threads, T t := by
  intro sched
  induction sched with
  | nil => intro s hg ht; exact ⟨hg, ht⟩
  | cons i rest ih =>
    intro s hg ht
    show G (run sh (step sh s i) rest).g ∧ ∀ t ∈ (run sh (step sh s i) rest).threads, T t
    cases h : s.threads[i]? with
    | none => rw [step_none sh s i h]; exact ih s hg ht
    | some t =>
      rw [step_some sh s i t h]
      have hm : t ∈ s.threads := List.mem_of_getElem? h
      obtain ⟨h1, h2⟩ := hstep i t s.g hg (ht t hm)
      refine ih _ h1 ?_
      intro t' ht'
      rcases List.mem_or_eq_of_mem_set ht' with h' | h'
      · exact ht t' h'
      · subst h'; exact h2

/-! ## R3: only good values in the caches, in the locals and in the results -/

section Good
variable (GoodS : Bytes → CacheEntry → Prop) (GoodT : Bytes → Bytes → Prop)

def GoodV (k : Bytes) : Val → Prop
  | .s e => GoodS k e
  | .t d => GoodT k d

def Val.isT : Val → Bool
  | .s _ => false
  | .t _ => true

/-- every entry of both maps is good FOR THE KEY IT IS STORED UNDER -/
def CacheGood (st : FsState) : Prop :=
  (∀ k e, (k, e) ∈ st.staticCache → GoodS k e) ∧ (∀ k d, (k, d) ∈ st.templateCache → GoodT k d)

/-- a returned value is good for the name that was asked -/
def RetGood (k : Bytes) : Ret → Prop
  | .inl (.found b) => ∃ e, GoodS k e ∧ b = blobOf e k
  | .inr (some d) => GoodT k d
  | _ => True

/-- `r` is what `weakly_canonical` returned to this lookup and it passed `isContained` -/
def Validated (root : Bytes) (sn : Snaps) (k r : Bytes) : Prop :=
  weaklyCanonicalAt sn.s sn.c (pathAppend root k) = .ok r ∧ isContained root r = true

/-- hypothesis on one lookup: what its `build` produces from a validated path is good for its name -/
def BuildGood (tmpl : Bool) (root : Bytes) (k : Bytes) (sn : Snaps) : Prop :=
  ∀ r v, Validated root sn k r → buildVal tmpl sn r = some v → GoodV GoodS GoodT k v

/-- the locals of a lookup of `k` at each program point -/
def LkGood (tmpl : Bool) (root : Bytes) (k : Bytes) (sn : Snaps) : Pc → Prop
  | .lock1 r | .cs1 r | .build r => Validated root sn k r
  | .lock2 v | .cs2 v | .lockE v | .csE v => GoodV GoodS GoodT k v ∧ v.isT = tmpl
  | .done (some ret) => RetGood GoodS GoodT k ret
  | _ => True

/-- the roots and the mode never change -/
def Frame (rootS rootT : Bytes) (pr : Bool) (st : FsState) : Prop :=
  st.staticsRoot = rootS ∧ st.templatesRoot = rootT ∧ st.perRequest = pr

def ThreadGood (rootS rootT : Bytes) (t : Thread) : Prop :=
  match t.op with
  | .static k => BuildGood GoodS GoodT false rootS k t.sn ∧ LkGood GoodS GoodT false rootS k t.sn t.pc
  | .template k => BuildGood GoodS GoodT true rootT k t.sn ∧ LkGood GoodS GoodT true rootT k t.sn t.pc
  | _ => ∀ ret, t.pc ≠ .done (some ret)      -- `reload` returns nothing

theorem find_good (tmpl : Bool) (st : FsState) (k : Bytes) (v : Val) (hc : CacheGood GoodS GoodT st)
    (h : find tmpl st k = some v) : GoodV GoodS GoodT k v ∧ v.isT = tmpl := by
  unfold find at h
  cases tmpl with
  | true =>
    simp only [if_true] at h
    cases hl : st.templateCache.lookup k with
    | none => simp [hl] at h
    | some d =>
      simp [hl] at h; subst h
      exact ⟨hc.2 k d (lookup_mem _ _ _ hl), rfl⟩
  | false =>
    simp only [Bool.false_eq_true, if_false] at h
    cases hl : st.staticCache.lookup k with
    | none => simp [hl] at h
    | some e =>
      simp [hl] at h; subst h
      exact ⟨hc.1 k e (lookup_mem _ _ _ hl), rfl⟩

theorem put_mem {α} (emplace : Bool) (k : Bytes) (v : α) (l : List (Bytes × α)) (x : Bytes × α) (h : x ∈ put emplace k v l) :
    x = (k, v) ∨ x ∈ l := by
  unfold put at h
  split at h
  · exact Or.inr h
  · simpa using h

theorem insert_good (sh : Shape) (k : Bytes) (v : Val) (st : FsState) (hc : CacheGood GoodS GoodT st)
    (hv : GoodV GoodS GoodT k v) : CacheGood GoodS GoodT (insert sh k v st) := by
  cases v with
  | s e =>
    refine ⟨?_, hc.2⟩
    intro k' e' hm
    rcases put_mem _ _ _ _ _ hm with h | h
    · injection h with h1 h2; subst h1; subst h2; exact hv
    · exact hc.1 _ _ h
  | t d =>
    refine ⟨hc.1, ?_⟩
    intro k' d' hm
    rcases put_mem _ _ _ _ _ hm with h | h
    · injection h with h1 h2; subst h1; subst h2; exact hv
    · exact hc.2 _ _ h

theorem retOf_good (k : Bytes) (v : Val) (hv : GoodV GoodS GoodT k v) : RetGood GoodS GoodT k (retOf k v) := by
  cases v with
  | s e => exact ⟨e, hv, rfl⟩
  | t d => exact hv

@[simp] theorem release_st (i : Nat) (g : Shared) : (release i g).st = g.st := rfl
@[simp] theorem touch_st (i : Nat) (g : Shared) : (touch i g).st = g.st := rfl
@[simp] theorem touch_owner (i : Nat) (g : Shared) : (touch i g).owner = g.owner := rfl
@[simp] theorem release_unguarded (i : Nat) (g : Shared) : (release i g).unguarded = g.unguarded := rfl

theorem lockStep_st (i : Nat) (g : Shared) (a b : Pc) : (lockStep i g a b).2.st = g.st := by
  unfold lockStep; split <;> rfl

theorem lockStep_pc (i : Nat) (g : Shared) (a b : Pc) : (lockStep i g a b).1 = a ∨ (lockStep i g a b).1 = b := by
  unfold lockStep; split
  · exact Or.inl rfl
  · exact Or.inr rfl

theorem insert_frame (sh : Shape) (k : Bytes) (v : Val) (st : FsState) (rootS rootT : Bytes) (pr : Bool)
    (h : Frame rootS rootT pr st) : Frame rootS rootT pr (insert sh k v st) := by
  cases v <;> exact h

/-- one step of a lookup keeps the caches, the locals and the result good -/
theorem stepLookup_good (sh : Shape) (i : Nat) (tmpl : Bool) (k : Bytes) (sn : Snaps) (pc : Pc) (g : Shared)
    (rootS rootT : Bytes) (pr : Bool) (hf : Frame rootS rootT pr g.st)
    (hb : BuildGood GoodS GoodT tmpl (if tmpl then rootT else rootS) k sn) (hc : CacheGood GoodS GoodT g.st)
    (hp : LkGood GoodS GoodT tmpl (if tmpl then rootT else rootS) k sn pc) :
    Frame rootS rootT pr (stepLookup sh i tmpl k sn pc g).2.st ∧
    CacheGood GoodS GoodT (stepLookup sh i tmpl k sn pc g).2.st ∧
    LkGood GoodS GoodT tmpl (if tmpl then rootT else rootS) k sn (stepLookup sh i tmpl k sn pc g).1 := by
  obtain ⟨hf1, hf2, hf3⟩ := hf
  have hf : Frame rootS rootT pr g.st := ⟨hf1, hf2, hf3⟩
  have hroot : (if tmpl then g.st.templatesRoot else g.st.staticsRoot) = (if tmpl then rootT else rootS) := by
    rw [hf1, hf2]
  have hmiss : RetGood GoodS GoodT k (missRet tmpl) := by cases tmpl <;> simp [missRet, RetGood]
  have hrej : RetGood GoodS GoodT k (rejRet tmpl) := by cases tmpl <;> simp [rejRet, RetGood]
  have hemp : ∀ v g', g'.st = g.st → GoodV GoodS GoodT k v →
      Frame rootS rootT pr (emplaceDone sh i k v g').2.st ∧ CacheGood GoodS GoodT (emplaceDone sh i k v g').2.st ∧
      LkGood GoodS GoodT tmpl (if tmpl then rootT else rootS) k sn (emplaceDone sh i k v g').1 := by
    intro v g' hg' hv
    simp only [emplaceDone, release_st, hg']
    exact ⟨insert_frame sh k v _ _ _ _ hf, insert_good GoodS GoodT sh k v _ hc hv, retOf_good GoodS GoodT k v hv⟩
  unfold stepLookup
  simp only [hroot]
  generalize (if tmpl = true then rootT else rootS) = root at *
  generalize (if tmpl = true then sh.template else sh.static) = lk
  cases pc with
  | start =>
    simp only
    split
    · exact ⟨hf, hc, hmiss⟩
    · rename_i resolved hw
      split
      · exact ⟨hf, hc, hrej⟩
      · rename_i hcont
        have hv : Validated root sn k resolved := ⟨hw, by simpa using hcont⟩
        split
        · exact ⟨hf, hc, hmiss⟩
        · split
          · exact ⟨hf, hc, hv⟩
          · split
            · exact ⟨hf, hc, hv⟩
            · exact ⟨hf, hc, hv⟩
  | lock1 r =>
    simp only
    refine ⟨by rw [lockStep_st]; exact hf, by rw [lockStep_st]; exact hc, ?_⟩
    rcases lockStep_pc i g (.cs1 r) (.lock1 r) with h | h <;> rw [h] <;> exact hp
  | cs1 r =>
    simp only [touch_st]
    split
    · rename_i v hv
      exact ⟨hf, hc, retOf_good GoodS GoodT k v (find_good GoodS GoodT tmpl _ k v hc hv).1⟩
    · refine ⟨?_, ?_, hp⟩
      · split <;> exact hf
      · split <;> exact hc
  | build r =>
    simp only
    split
    · exact ⟨hf, hc, hmiss⟩
    · rename_i v hv
      have hgv := hb r v hp hv
      have hk : v.isT = tmpl := by
        unfold buildVal at hv
        cases tmpl with
        | true =>
          simp only [if_true] at hv
          cases h : readFile sn.o r with
          | none => simp [h] at hv
          | some d => simp [h] at hv; subst hv; rfl
        | false =>
          simp only [Bool.false_eq_true, if_false] at hv
          cases h : buildEntryAt sn.o sn.g sn.z r with
          | none => simp [h] at hv
          | some d => simp [h] at hv; subst hv; rfl
      split
      · exact ⟨hf, hc, retOf_good GoodS GoodT k v hgv⟩
      · split
        · exact ⟨hf, hc, hgv, hk⟩
        · exact ⟨hf, hc, hgv, hk⟩
  | lock2 v =>
    simp only
    refine ⟨by rw [lockStep_st]; exact hf, by rw [lockStep_st]; exact hc, ?_⟩
    rcases lockStep_pc i g (.cs2 v) (.lock2 v) with h | h <;> rw [h] <;> exact hp
  | cs2 v =>
    simp only [touch_st]
    split
    · split
      · rename_i w hw
        exact ⟨hf, hc, retOf_good GoodS GoodT k w (find_good GoodS GoodT tmpl _ k w hc hw).1⟩
      · split
        · exact hemp v _ rfl hp.1
        · exact ⟨hf, hc, hp⟩
    · split
      · exact hemp v _ rfl hp.1
      · exact ⟨hf, hc, hp⟩
  | lockE v =>
    simp only
    refine ⟨by rw [lockStep_st]; exact hf, by rw [lockStep_st]; exact hc, ?_⟩
    rcases lockStep_pc i g (.csE v) (.lockE v) with h | h <;> rw [h] <;> exact hp
  | csE v => exact hemp v _ rfl hp.1
  | lockR => exact ⟨hf, hc, hp⟩
  | csR => exact ⟨hf, hc, hp⟩
  | done r => exact ⟨hf, hc, hp⟩

theorem stepReload_good (sh : Shape) (i : Nat) (pc : Pc) (g : Shared) (rootS rootT : Bytes) (pr : Bool)
    (hf : Frame rootS rootT pr g.st) (hc : CacheGood GoodS GoodT g.st) :
    Frame rootS rootT pr (stepReload sh i pc g).2.st ∧ CacheGood GoodS GoodT (stepReload sh i pc g).2.st := by
  unfold stepReload
  cases pc with
  | start => simp only; split <;> exact ⟨hf, hc⟩
  | lockR => simp only; rw [lockStep_st]; exact ⟨hf, hc⟩
  | csR =>
    simp only [release_st, touch_st]
    refine ⟨hf, ?_, ?_⟩
    · intro k e h
      simp only at h
      split at h
      · cases h
      · exact hc.1 k e h
    · intro k e h
      simp only at h
      split at h
      · cases h
      · exact hc.2 k e h
  | _ => exact ⟨hf, hc⟩

/-- one step of any thread keeps everything good -/
theorem stepT_good (sh : Shape) (i : Nat) (t : Thread) (g : Shared) (rootS rootT : Bytes) (pr : Bool)
    (hg : Frame rootS rootT pr g.st ∧ CacheGood GoodS GoodT g.st) (ht : ThreadGood GoodS GoodT rootS rootT t) :
    (Frame rootS rootT pr (stepT sh i t g).2.st ∧ CacheGood GoodS GoodT (stepT sh i t g).2.st) ∧
    ThreadGood GoodS GoodT rootS rootT (stepT sh i t g).1 := by
  obtain ⟨hf, hc⟩ := hg
  unfold stepT ThreadGood
  cases hop : t.op with
  | static k =>
    simp only [ThreadGood, hop] at ht
    obtain ⟨h1, h2, h3⟩ := stepLookup_good GoodS GoodT sh i false k t.sn t.pc g rootS rootT pr hf ht.1 hc ht.2
    exact ⟨⟨h1, h2⟩, ht.1, h3⟩
  | template k =>
    simp only [ThreadGood, hop] at ht
    obtain ⟨h1, h2, h3⟩ := stepLookup_good GoodS GoodT sh i true k t.sn t.pc g rootS rootT pr hf ht.1 hc ht.2
    exact ⟨⟨h1, h2⟩, ht.1, h3⟩
  | reload =>
    simp only [ThreadGood, hop] at ht
    refine ⟨stepReload_good GoodS GoodT sh i t.pc g rootS rootT pr hf hc, ?_⟩
    intro ret
    simp only
    unfold stepReload
    cases hpc : t.pc with
    | start => simp only; split <;> simp
    | lockR => simp only; rcases lockStep_pc i g .csR .lockR with h | h <;> rw [h] <;> simp
    | csR => simp
    | done r => simp only; rw [← hpc]; exact ht ret
    | _ => simp
  | none =>
    simp only [ThreadGood, hop] at ht
    refine ⟨⟨hf, hc⟩, ?_⟩
    intro ret
    simp only
    cases hpc : t.pc with
    | start => simp
    | done r => simp only; rw [← hpc]; exact ht ret
    | _ => simp

/-- **the cache-good invariant along every schedule** -/
theorem run_good (sh : Shape) (rootS rootT : Bytes) (pr : Bool) (sched : List Nat) (s : State)
    (hf : Frame rootS rootT pr s.g.st) (hc : CacheGood GoodS GoodT s.g.st)
    (ht : ∀ t ∈ s.threads, ThreadGood GoodS GoodT rootS rootT t) :
    (Frame rootS rootT pr (run sh s sched).g.st ∧ CacheGood GoodS GoodT (run sh s sched).g.st) ∧
    ∀ t ∈ (run sh s sched).threads, ThreadGood GoodS GoodT rootS rootT t :=
  run_invariant sh (fun g => Frame rootS rootT pr g.st ∧ CacheGood GoodS GoodT g.st) (ThreadGood GoodS GoodT rootS rootT)
    (fun i t g hg ht => stepT_good GoodS GoodT sh i t g rootS rootT pr hg ht) sched s ⟨hf, hc⟩ ht

end Good

/-! ## R2: every map access is inside a critical section of `_fs->mutex`; at most one thread is inside one -/

/-- the program points inside a `lock_guard` scope (for the lock skeleton of the source) -/
def holds : Pc → Bool
  | .cs1 _ | .cs2 _ | .csE _ | .csR => true
  | _ => false

/-- what a step of thread `i` may do to the owner: nothing, take the free mutex, give its own back -/
def OwnerStep (i : Nat) (o o' : Option Nat) : Prop := o' = o ∨ (o = none ∧ o' = some i) ∨ (o = some i ∧ o' = none)

/-- per-thread part of the mutex invariant, relative to the shared state -/
def MutexOK (i : Nat) (pc : Pc) (g : Shared) : Prop := (holds pc = true ↔ g.owner = some i)

theorem lockStep_mutex (i : Nat) (g : Shared) (a b : Pc) (ha : holds a = true)
    (h1 : MutexOK i b g) (h2 : g.unguarded = false) :
    (lockStep i g a b).2.unguarded = false ∧ MutexOK i (lockStep i g a b).1 (lockStep i g a b).2 ∧
    OwnerStep i g.owner (lockStep i g a b).2.owner := by
  unfold lockStep
  split
  · rename_i ho; simp [MutexOK, ha, h2, OwnerStep, ho]
  · exact ⟨h2, h1, Or.inl rfl⟩

theorem release_held (i : Nat) (g : Shared) (h : g.owner = some i) : (release i g).owner = none := by
  simp [release, h]

theorem release_not_held (i : Nat) (g : Shared) (h : g.owner ≠ some i) : (release i g).owner = g.owner := by
  simp [release, h]

theorem touch_held (i : Nat) (g : Shared) (h : g.owner = some i) (h2 : g.unguarded = false) : (touch i g).unguarded = false := by
  simp [touch, h, h2]

theorem stepLookup_mutex (sh : Shape) (i : Nat) (tmpl : Bool) (k : Bytes) (sn : Snaps) (pc : Pc) (g : Shared)
    (hok : (if tmpl then sh.template else sh.static).ok = true) (h1 : MutexOK i pc g) (h2 : g.unguarded = false) :
    (stepLookup sh i tmpl k sn pc g).2.unguarded = false ∧
    MutexOK i (stepLookup sh i tmpl k sn pc g).1 (stepLookup sh i tmpl k sn pc g).2 ∧
    OwnerStep i g.owner (stepLookup sh i tmpl k sn pc g).2.owner := by
  unfold stepLookup
  generalize (if tmpl = true then sh.template else sh.static) = lk at *
  generalize (if tmpl = true then g.st.templatesRoot else g.st.staticsRoot) = root
  simp only [LookupShape.ok, Bool.and_eq_true, Bool.not_eq_true'] at hok
  obtain ⟨⟨⟨⟨hk1, hk2⟩, hk3⟩, hk4⟩, hk5⟩ := hok
  have hidle : ∀ pc', holds pc = false → holds pc' = false → MutexOK i pc' g := by
    intro pc' ha hb
    unfold MutexOK at *
    rw [hb]; rw [ha] at h1; exact h1
  have hrel : ∀ pc' (g' : Shared), holds pc = true → holds pc' = false → g'.owner = g.owner → g'.unguarded = false →
      (release i g').unguarded = false ∧ MutexOK i pc' (release i g') ∧ OwnerStep i g.owner (release i g').owner := by
    intro pc' g' ha hb ho hu
    have hown : g.owner = some i := h1.mp ha
    have : (release i g').owner = none := release_held i g' (by rw [ho]; exact hown)
    refine ⟨hu, ?_, Or.inr (Or.inr ⟨hown, this⟩)⟩
    unfold MutexOK; rw [hb, this]; simp
  cases pc with
  | start =>
    simp only [hk1, if_true]
    split
    · exact ⟨h2, hidle _ rfl rfl, Or.inl rfl⟩
    · split
      · exact ⟨h2, hidle _ rfl rfl, Or.inl rfl⟩
      · split
        · exact ⟨h2, hidle _ rfl rfl, Or.inl rfl⟩
        · split
          · exact ⟨h2, hidle _ rfl rfl, Or.inl rfl⟩
          · exact ⟨h2, hidle _ rfl rfl, Or.inl rfl⟩
  | lock1 r => exact lockStep_mutex i g _ _ rfl h1 h2
  | cs1 r =>
    have hown : g.owner = some i := h1.mp rfl
    simp only [touch_st, hk2, Bool.false_eq_true, if_false]
    split
    · exact hrel _ _ rfl rfl rfl (touch_held i g hown h2)
    · exact hrel _ _ rfl rfl rfl (touch_held i g hown h2)
  | build r =>
    have hno : g.owner ≠ some i := fun h => by have := h1.mpr h; simp [holds] at this
    simp only [hk2, Bool.false_eq_true, if_false]
    split
    · refine ⟨h2, ?_, Or.inl (release_not_held i g hno)⟩
      unfold MutexOK; rw [release_not_held i g hno]; exact hidle _ rfl rfl
    · split
      · exact ⟨h2, hidle _ rfl rfl, Or.inl rfl⟩
      · exact ⟨h2, hidle _ rfl rfl, Or.inl rfl⟩
  | lock2 v => exact lockStep_mutex i g _ _ rfl h1 h2
  | cs2 v =>
    have hown : g.owner = some i := h1.mp rfl
    simp only [touch_st, hk3, hk4, if_true]
    split
    · exact hrel _ _ rfl rfl rfl (touch_held i g hown h2)
    · exact hrel _ { touch i g with st := insert sh k v g.st } rfl rfl rfl (touch_held i g hown h2)
  | lockE v => exact lockStep_mutex i g _ _ rfl h1 h2
  | csE v =>
    have hown : g.owner = some i := h1.mp rfl
    exact hrel _ { touch i g with st := insert sh k v g.st } rfl rfl rfl (touch_held i g hown h2)
  | lockR => exact ⟨h2, h1, Or.inl rfl⟩
  | csR => exact ⟨h2, h1, Or.inl rfl⟩
  | done r => exact ⟨h2, h1, Or.inl rfl⟩

theorem stepReload_mutex (sh : Shape) (i : Nat) (pc : Pc) (g : Shared) (hok : sh.reloadUnderLock = true)
    (h1 : MutexOK i pc g) (h2 : g.unguarded = false) :
    (stepReload sh i pc g).2.unguarded = false ∧ MutexOK i (stepReload sh i pc g).1 (stepReload sh i pc g).2 ∧
    OwnerStep i g.owner (stepReload sh i pc g).2.owner := by
  unfold stepReload
  cases pc with
  | start =>
    simp only [hok, if_true]
    refine ⟨h2, ?_, Or.inl rfl⟩
    unfold MutexOK at *; simpa [holds] using h1
  | lockR => exact lockStep_mutex i g _ _ rfl h1 h2
  | csR =>
    have hown : g.owner = some i := h1.mp rfl
    simp only
    refine ⟨touch_held i g hown h2, ?_, Or.inr (Or.inr ⟨hown, ?_⟩)⟩
    · unfold MutexOK; simp [holds, release, hown]
    · simp [release, hown]
  | lock1 r => exact ⟨h2, h1, Or.inl rfl⟩
  | cs1 r => exact ⟨h2, h1, Or.inl rfl⟩
  | build r => exact ⟨h2, h1, Or.inl rfl⟩
  | lock2 r => exact ⟨h2, h1, Or.inl rfl⟩
  | cs2 r => exact ⟨h2, h1, Or.inl rfl⟩
  | lockE r => exact ⟨h2, h1, Or.inl rfl⟩
  | csE r => exact ⟨h2, h1, Or.inl rfl⟩
  | done r => exact ⟨h2, h1, Or.inl rfl⟩

theorem stepT_mutex (sh : Shape) (hok : sh.ok = true) (i : Nat) (t : Thread) (g : Shared)
    (h1 : MutexOK i t.pc g) (h2 : g.unguarded = false) :
    (stepT sh i t g).2.unguarded = false ∧ MutexOK i (stepT sh i t g).1.pc (stepT sh i t g).2 ∧
    OwnerStep i g.owner (stepT sh i t g).2.owner := by
  simp only [Shape.ok, Bool.and_eq_true] at hok
  obtain ⟨⟨⟨⟨hs, ht⟩, hr⟩, _⟩, _⟩ := hok
  unfold stepT
  cases hop : t.op with
  | static k => exact stepLookup_mutex sh i false k t.sn t.pc g hs h1 h2
  | template k => exact stepLookup_mutex sh i true k t.sn t.pc g ht h1 h2
  | reload => exact stepReload_mutex sh i t.pc g hr h1 h2
  | none =>
    refine ⟨h2, ?_, Or.inl rfl⟩
    simp only
    unfold MutexOK at *
    cases hpc : t.pc <;> simp_all [holds]

/-- the mutex invariant of a pool -/
def MInv (s : State) : Prop :=
  s.g.unguarded = false ∧ ∀ j t, s.threads[j]? = some t → MutexOK j t.pc s.g

theorem step_minv (sh : Shape) (hok : sh.ok = true) (s : State) (i : Nat) (h : MInv s) : MInv (step sh s i) := by
  cases hi : s.threads[i]? with
  | none => rw [step_none sh s i hi]; exact h
  | some t =>
    rw [step_some sh s i t hi]
    obtain ⟨hu, hall⟩ := h
    obtain ⟨h1, h2, h3⟩ := stepT_mutex sh hok i t s.g (hall i t hi) hu
    refine ⟨h1, ?_⟩
    intro j t' hj
    rcases get_set _ _ _ _ _ hj with ⟨rfl, rfl⟩ | ⟨hne, hj'⟩
    · exact h2
    · have hold := hall j t' hj'
      unfold MutexOK at *
      simp only
      rcases h3 with h3 | ⟨h3, h4⟩ | ⟨h3, h4⟩
      · rw [h3]; exact hold
      · rw [h4]; rw [h3] at hold
        constructor
        · intro hh; have := hold.mp hh; cases this
        · intro hh; injection hh with hh; exact absurd hh.symm hne
      · rw [h4]; rw [h3] at hold
        constructor
        · intro hh; have := hold.mp hh; injection this with this; exact absurd this.symm hne
        · intro hh; cases hh

theorem run_minv (sh : Shape) (hok : sh.ok = true) : ∀ (sched : List Nat) (s : State), MInv s → MInv (run sh s sched) := by
  intro sched
  induction sched with
  | nil => intro s h; exact h
  | cons i rest ih => intro s h; exact ih _ (step_minv sh hok s i h)

theorem init_minv (st : FsState) (ts : List (RaceOp × Snaps)) : MInv (State.init st ts) := by
  refine ⟨rfl, ?_⟩
  intro j t hj
  simp only [State.init, List.getElem?_map] at hj
  cases h : ts[j]? with
  | none => simp [h] at hj
  | some x => simp [h] at hj; subst hj; simp [MutexOK, holds, State.init]

/-! ## R1: one thread alone is the sequential model -/

/-- `n` consecutive steps of thread `i` -/
def soloT (sh : Shape) (i : Nat) : Nat → Thread × Shared → Thread × Shared
  | 0, x => x
  | n + 1, x => soloT sh i n (stepT sh i x.1 x.2)

theorem run_solo (sh : Shape) (i : Nat) : ∀ (n : Nat) (s : State) (t : Thread), s.threads[i]? = some t →
    run sh s (List.replicate n i) =
      { g := (soloT sh i n (t, s.g)).2, threads := s.threads.set i (soloT sh i n (t, s.g)).1 } := by
  intro n
  induction n with
  | zero => intro s t h; simp [run, soloT, set_same _ _ _ h]
  | succ n ih =>
    intro s t h
    show run sh (step sh s i) (List.replicate n i) = _
    rw [step_some sh s i t h]
    rw [ih _ (stepT sh i t s.g).1 (List.getElem?_set_self (lt_of_get _ _ _ h))]
    simp [soloT, List.set_set]

theorem ok_static {sh : Shape} (hok : sh.ok = true) :
    sh.static.find1UnderLock = true ∧ sh.static.buildUnderLock = false ∧ sh.static.hasSecondFind = true ∧
    sh.static.find2EmplaceSameLock = true ∧ sh.static.emplace = true := by
  simp only [Shape.ok, LookupShape.ok, Bool.and_eq_true, Bool.not_eq_true'] at hok
  obtain ⟨⟨⟨⟨⟨⟨⟨⟨h1, h2⟩, h3⟩, h4⟩, h5⟩, _⟩, _⟩, _⟩, _⟩ := hok
  exact ⟨h1, h2, h3, h4, h5⟩

theorem ok_template {sh : Shape} (hok : sh.ok = true) :
    sh.template.find1UnderLock = true ∧ sh.template.buildUnderLock = false ∧ sh.template.hasSecondFind = true ∧
    sh.template.find2EmplaceSameLock = true ∧ sh.template.emplace = true := by
  simp only [Shape.ok, LookupShape.ok, Bool.and_eq_true, Bool.not_eq_true'] at hok
  obtain ⟨⟨⟨⟨_, ⟨⟨⟨h1, h2⟩, h3⟩, h4⟩, h5⟩, _⟩, _⟩, _⟩ := hok
  exact ⟨h1, h2, h3, h4, h5⟩

theorem ok_reload {sh : Shape} (hok : sh.ok = true) :
    sh.reloadUnderLock = true ∧ sh.reloadClearsStatic = true ∧ sh.reloadClearsTemplate = true := by
  simp only [Shape.ok, Bool.and_eq_true] at hok
  exact ⟨hok.1.1.2, hok.1.2, hok.2⟩

/-- `getStaticFilesystem` run alone from a free mutex IS `getStaticFilesystemAt` (result and cache) -/
theorem solo_static (sh : Shape) (hok : sh.ok = true) (i : Nat) (sn : Snaps) (st : FsState) (k : Bytes) (u : Bool) :
    soloT sh i soloLen ({ op := .static k, sn := sn, pc := .start }, { st := st, owner := none, unguarded := u }) =
      ({ op := .static k, sn := sn, pc := .done (some (.inl (getStaticFilesystemAt sn st k).1)) },
       { st := (getStaticFilesystemAt sn st k).2, owner := none, unguarded := u }) := by
  obtain ⟨h1, h2, h3, h4, h5⟩ := ok_static hok
  unfold getStaticFilesystemAt
  simp only [soloLen, soloT, stepT]
  cases hw : weaklyCanonicalAt sn.s sn.c (pathAppend st.staticsRoot k) with
  | error e => simp [stepLookup, hw, missRet]
  | ok r =>
    cases hc : isContained st.staticsRoot r with
    | false => simp [stepLookup, hw, hc, rejRet]
    | true =>
      cases hr : isRegularFile sn.r r with
      | false => simp [stepLookup, hw, hc, hr, missRet]
      | true =>
        cases hp : st.perRequest with
        | true =>
          cases hb : buildEntryAt sn.o sn.g sn.z r with
          | none => simp [stepLookup, hw, hc, hr, hp, hb, buildVal, missRet, release]
          | some e => simp [stepLookup, hw, hc, hr, hp, hb, buildVal, retOf]
        | false =>
          cases hl : st.staticCache.lookup k with
          | some e => simp [stepLookup, hw, hc, hr, hp, hl, h1, lockStep, touch, find, retOf, release]
          | none =>
            cases hb : buildEntryAt sn.o sn.g sn.z r with
            | none => simp [stepLookup, hw, hc, hr, hp, hl, hb, h1, h2, lockStep, touch, find, buildVal, missRet, release]
            | some e =>
              simp [stepLookup, hw, hc, hr, hp, hl, hb, h1, h2, h3, h4, h5, lockStep, touch, find, buildVal, retOf, release,
                emplaceDone, insert, put]

/-- `getTemplateFilesystem` run alone from a free mutex IS `getTemplateFilesystemAt` -/
theorem solo_template (sh : Shape) (hok : sh.ok = true) (i : Nat) (sn : Snaps) (st : FsState) (k : Bytes) (u : Bool) :
    soloT sh i soloLen ({ op := .template k, sn := sn, pc := .start }, { st := st, owner := none, unguarded := u }) =
      ({ op := .template k, sn := sn, pc := .done (some (.inr (getTemplateFilesystemAt sn st k).1)) },
       { st := (getTemplateFilesystemAt sn st k).2, owner := none, unguarded := u }) := by
  obtain ⟨h1, h2, h3, h4, h5⟩ := ok_template hok
  unfold getTemplateFilesystemAt
  simp only [soloLen, soloT, stepT]
  cases hw : weaklyCanonicalAt sn.s sn.c (pathAppend st.templatesRoot k) with
  | error e => simp [stepLookup, hw, missRet]
  | ok r =>
    cases hc : isContained st.templatesRoot r with
    | false => simp [stepLookup, hw, hc, rejRet]
    | true =>
      cases hr : isRegularFile sn.r r with
      | false => simp [stepLookup, hw, hc, hr, missRet]
      | true =>
        cases hl : st.templateCache.lookup k with
        | some e => simp [stepLookup, hw, hc, hr, hl, h1, lockStep, touch, find, retOf, release]
        | none =>
          cases hb : readFile sn.o r with
          | none => simp [stepLookup, hw, hc, hr, hl, hb, h1, h2, lockStep, touch, find, buildVal, missRet, release]
          | some e =>
            simp [stepLookup, hw, hc, hr, hl, hb, h1, h2, h3, h4, h5, lockStep, touch, find, buildVal, retOf, release,
              emplaceDone, insert, put]

/-- `reload` run alone from a free mutex IS `reload` of the sequential model -/
theorem solo_reload (sh : Shape) (hok : sh.ok = true) (i : Nat) (sn : Snaps) (st : FsState) (u : Bool) :
    soloT sh i soloLen ({ op := .reload, sn := sn, pc := .start }, { st := st, owner := none, unguarded := u }) =
      ({ op := .reload, sn := sn, pc := .done none },
       { st := { st with staticCache := [], templateCache := [] }, owner := none, unguarded := u }) := by
  obtain ⟨h1, h2, h3⟩ := ok_reload hok
  simp [soloLen, soloT, stepT, stepReload, h1, h2, h3, lockStep, touch, release]

/-! ## R4: the second critical section returns the winner's entry or its own, and `emplace` never overwrites -/

theorem find_insert_absent (sh : Shape) (k : Bytes) (v : Val) (st : FsState) (h : find v.isT st k = none) :
    find v.isT (insert sh k v st) k = some v := by
  cases v with
  | s e =>
    simp only [find, Val.isT, Bool.false_eq_true, if_false, Option.map_eq_none_iff] at h
    simp [find, Val.isT, insert, put, h]
  | t d =>
    simp only [find, Val.isT, if_true, Option.map_eq_none_iff] at h
    simp [find, Val.isT, insert, put, h]

theorem put_lookup_keep {α} (k k' : Bytes) (v w : α) (l : List (Bytes × α)) (h : l.lookup k' = some w) :
    (put true k v l).lookup k' = some w := by
  unfold put
  cases hl : l.lookup k with
  | some x => simp [h]
  | none =>
    simp only [Bool.true_and, Option.isSome_none, Bool.false_eq_true, if_false, List.lookup_cons]
    cases hkk : k' == k with
    | false => exact h
    | true =>
      have : k' = k := by simpa using hkk
      subst this; rw [hl] at h; cases h

/-- `emplace`: a key that is present keeps its value, whatever is inserted under whatever key -/
theorem find_insert_present (sh : Shape) (hs : sh.static.emplace = true) (ht : sh.template.emplace = true)
    (tmpl : Bool) (k k' : Bytes) (v w : Val) (st : FsState) (h : find tmpl st k' = some w) :
    find tmpl (insert sh k v st) k' = some w := by
  cases v with
  | s e =>
    cases tmpl with
    | true => exact h
    | false =>
      simp only [find, Bool.false_eq_true, if_false] at h ⊢
      cases hl : st.staticCache.lookup k' with
      | none => simp [hl] at h
      | some x => simp only [insert, hs, put_lookup_keep k k' e x _ hl]; rw [hl] at h; exact h
  | t d =>
    cases tmpl with
    | false => exact h
    | true =>
      simp only [find, if_true] at h ⊢
      cases hl : st.templateCache.lookup k' with
      | none => simp [hl] at h
      | some x => simp only [insert, ht, put_lookup_keep k k' d x _ hl]; rw [hl] at h; exact h

/-- **the second critical section** (second `find` + `emplace` in one lock scope): the call returns a value `w` that is the
entry of its key afterwards; `w` is the entry another thread had inserted under the SAME key (the cache is then unchanged), or
the key was absent and `w` is what this thread built and has now inserted. -/
theorem cs2_winner_or_own (sh : Shape) (i : Nat) (tmpl : Bool) (k : Bytes) (sn : Snaps) (v : Val) (g : Shared)
    (hok : (if tmpl then sh.template else sh.static).ok = true) (hk : v.isT = tmpl) :
    ∃ w, (stepLookup sh i tmpl k sn (.cs2 v) g).1 = .done (some (retOf k w)) ∧
      find tmpl (stepLookup sh i tmpl k sn (.cs2 v) g).2.st k = some w ∧
      ((find tmpl g.st k = some w ∧ (stepLookup sh i tmpl k sn (.cs2 v) g).2.st = g.st) ∨
       (find tmpl g.st k = none ∧ w = v ∧ (stepLookup sh i tmpl k sn (.cs2 v) g).2.st = insert sh k v g.st)) := by
  unfold stepLookup
  generalize (if tmpl = true then sh.template else sh.static) = lk at *
  simp only [LookupShape.ok, Bool.and_eq_true, Bool.not_eq_true'] at hok
  obtain ⟨⟨⟨⟨_, _⟩, hk3⟩, hk4⟩, _⟩ := hok
  simp only [touch_st, hk3, hk4, if_true]
  cases hf : find tmpl g.st k with
  | some w => exact ⟨w, rfl, hf, Or.inl ⟨rfl, rfl⟩⟩
  | none =>
    refine ⟨v, rfl, ?_, Or.inr ⟨rfl, rfl, rfl⟩⟩
    simp only [emplaceDone, release_st]
    subst hk
    exact find_insert_absent sh k v g.st hf

/-- what a lookup step can do to the caches: nothing, or one insertion under its own key -/
theorem stepLookup_st (sh : Shape) (i : Nat) (tmpl : Bool) (k : Bytes) (sn : Snaps) (pc : Pc) (g : Shared) :
    (stepLookup sh i tmpl k sn pc g).2.st = g.st ∨ ∃ v, (stepLookup sh i tmpl k sn pc g).2.st = insert sh k v g.st := by
  unfold stepLookup
  cases pc with
  | start => simp only; repeat' split
             all_goals exact Or.inl rfl
  | lock1 r => exact Or.inl (lockStep_st _ _ _ _)
  | cs1 r => simp only; repeat' split
             all_goals exact Or.inl rfl
  | build r => simp only; repeat' split
               all_goals exact Or.inl rfl
  | lock2 v => exact Or.inl (lockStep_st _ _ _ _)
  | cs2 v =>
    simp only [touch_st]
    repeat' split
    all_goals first | exact Or.inl rfl | exact Or.inr ⟨v, rfl⟩
  | lockE v => exact Or.inl (lockStep_st _ _ _ _)
  | csE v => exact Or.inr ⟨v, rfl⟩
  | lockR => exact Or.inl rfl
  | csR => exact Or.inl rfl
  | done r => exact Or.inl rfl

/-- with `emplace`, no step of any thread other than `reload`'s critical section changes the entry of a present key -/
theorem stepT_find_stable (sh : Shape) (hs : sh.static.emplace = true) (ht : sh.template.emplace = true)
    (i : Nat) (t : Thread) (g : Shared) (tmpl : Bool) (k : Bytes) (w : Val) (h : find tmpl g.st k = some w)
    (hnr : t.op ≠ .reload) : find tmpl (stepT sh i t g).2.st k = some w := by
  unfold stepT
  cases hop : t.op with
  | static k' =>
    rcases stepLookup_st sh i false k' t.sn t.pc g with h' | ⟨v, h'⟩
    · simp only [h']; exact h
    · simp only [h']; exact find_insert_present sh hs ht tmpl k' k v w g.st h
  | template k' =>
    rcases stepLookup_st sh i true k' t.sn t.pc g with h' | ⟨v, h'⟩
    · simp only [h']; exact h
    · simp only [h']; exact find_insert_present sh hs ht tmpl k' k v w g.st h
  | reload => exact absurd hop hnr
  | none => exact h

theorem stepT_op (sh : Shape) (i : Nat) (t : Thread) (g : Shared) : (stepT sh i t g).1.op = t.op := rfl
theorem stepT_sn (sh : Shape) (i : Nat) (t : Thread) (g : Shared) : (stepT sh i t g).1.sn = t.sn := rfl

/-- **between two reloads the entry of a key never changes once present** (every schedule of a pool without `reload`) -/
theorem run_find_stable (sh : Shape) (hs : sh.static.emplace = true) (ht : sh.template.emplace = true)
    (tmpl : Bool) (k : Bytes) (w : Val) (sched : List Nat) (s : State) (hnr : ∀ t ∈ s.threads, t.op ≠ .reload)
    (h : find tmpl s.g.st k = some w) : find tmpl (run sh s sched).g.st k = some w :=
  (run_invariant sh (fun g => find tmpl g.st k = some w) (fun t => t.op ≠ .reload)
    (fun i t g hg htr => ⟨stepT_find_stable sh hs ht i t g tmpl k w hg htr, htr⟩) sched s h hnr).1

/-! ## the inputs of the threads never change -/

theorem step_inputs (sh : Shape) (s : State) (i : Nat) :
    (step sh s i).threads.map (fun t => (t.op, t.sn)) = s.threads.map (fun t => (t.op, t.sn)) := by
  cases h : s.threads[i]? with
  | none => rw [step_none sh s i h]
  | some t =>
    rw [step_some sh s i t h]
    simp only [List.map_set]
    apply set_same
    simp [List.getElem?_map, h, stepT]

theorem run_inputs (sh : Shape) : ∀ (sched : List Nat) (s : State),
    (run sh s sched).threads.map (fun t => (t.op, t.sn)) = s.threads.map (fun t => (t.op, t.sn)) := by
  intro sched
  induction sched with
  | nil => intro s; rfl
  | cons i rest ih => intro s; exact (ih (step sh s i)).trans (step_inputs sh s i)

/-- thread `j` of a reachable state runs what thread `j` was given -/
theorem run_thread_inputs (sh : Shape) (sched : List Nat) (s : State) (j : Nat) (t : Thread)
    (h : (run sh s sched).threads[j]? = some t) : ∃ t0, s.threads[j]? = some t0 ∧ t0.op = t.op ∧ t0.sn = t.sn := by
  have h1 := congrArg (fun l => l[j]?) (run_inputs sh sched s)
  simp only [List.getElem?_map, h, Option.map_some] at h1
  cases h0 : s.threads[j]? with
  | none => simp [h0] at h1
  | some t0 =>
    simp only [h0, Option.map_some, Option.some.injEq, Prod.mk.injEq] at h1
    exact ⟨t0, rfl, h1.1.symm, h1.2.symm⟩

/-! ## R3, results -/

/-- every result ever returned by any thread, under any schedule, is good for the name that thread asked -/
theorem run_results_good (GoodS : Bytes → CacheEntry → Prop) (GoodT : Bytes → Bytes → Prop)
    (sh : Shape) (rootS rootT : Bytes) (pr : Bool) (sched : List Nat) (s : State)
    (hf : Frame rootS rootT pr s.g.st) (hc : CacheGood GoodS GoodT s.g.st)
    (ht : ∀ t ∈ s.threads, ThreadGood GoodS GoodT rootS rootT t)
    (j : Nat) (t : Thread) (hj : (run sh s sched).threads[j]? = some t) (k : Bytes)
    (hop : t.op = .static k ∨ t.op = .template k) (ret : Ret) (hret : t.pc = .done (some ret)) :
    RetGood GoodS GoodT k ret := by
  have h := (run_good GoodS GoodT sh rootS rootT pr sched s hf hc ht).2 t (List.mem_of_getElem? hj)
  unfold ThreadGood at h
  rcases hop with hop | hop
  · rw [hop] at h; have := h.2; rw [hret] at this; exact this
  · rw [hop] at h; have := h.2; rw [hret] at this; exact this

/-! ## R5: the link to C20 — under every interleaving only bytes that were strictly inside the root are served -/

/-- the hypotheses of `getStaticFilesystemAt_good` / `getTemplateFilesystemAt_good`, per thread: the name passed the lexical
filter (`getStatic` / `getTemplate` check it before they call the filesystem lookup) and the environment is `LeafOnly` WHILE
this thread's lookup runs (w.r.t. its own snapshots and its own candidate) -/
def ThreadOK (rootS rootT : Bytes) (bnS bnT : List Name) (t : Thread) : Prop :=
  match t.op with
  | .static k => lexicallyRejected k = false ∧ LeafOnly t.sn (pathAppend rootS k) bnS
  | .template k => lexicallyRejected k = false ∧ LeafOnly t.sn (pathAppend rootT k) bnT
  | _ => True

/-- a result consists of bytes that were strictly inside the root at an open of some lookup -/
def RetInside (seen : List Fs) (bnS bnT : List Name) : Ret → Prop
  | .inl (.found b) => BlobGood (EverInside seen bnS) b
  | .inr (some d) => EverInside seen bnT d
  | _ => True

/-- the file systems that are current at an open of some thread of the pool -/
def seenOf (ts : List Thread) : List Fs := ts.flatMap (fun t => [t.sn.o, t.sn.z])

theorem buildGood_static (seen : List Fs) (bnS bnT : List Name) (rootS : Bytes) (hroot : RootOK rootS bnS) (k : Bytes)
    (sn : Snaps) (hn : lexicallyRejected k = false) (hL : LeafOnly sn (pathAppend rootS k) bnS)
    (ho : sn.o ∈ seen) (hz : sn.z ∈ seen) :
    BuildGood (fun _ e => EntryGood (EverInside seen bnS) e) (fun _ d => EverInside seen bnT d) false rootS k sn := by
  intro r v hv hb
  unfold buildVal at hb
  simp only [Bool.false_eq_true, if_false] at hb
  cases he : buildEntryAt sn.o sn.g sn.z r with
  | none => simp [he] at hb
  | some e =>
    simp [he] at hb; subst hb
    show EntryGood (EverInside seen bnS) e
    refine buildEntryAt_good _ sn.o sn.g sn.z r e (fun d hd => ?_) he
    obtain ⟨h1, h2⟩ := resolve_phases_inside sn rootS bnS hroot k r hn hv.1 hv.2 hL d hd
    exact ⟨⟨sn.o, ho, h1⟩, fun g hg => ⟨sn.z, hz, h2 g hg⟩⟩

theorem buildGood_template (seen : List Fs) (bnS bnT : List Name) (rootT : Bytes) (hroot : RootOK rootT bnT) (k : Bytes)
    (sn : Snaps) (hn : lexicallyRejected k = false) (hL : LeafOnly sn (pathAppend rootT k) bnT)
    (ho : sn.o ∈ seen) :
    BuildGood (fun _ e => EntryGood (EverInside seen bnS) e) (fun _ d => EverInside seen bnT d) true rootT k sn := by
  intro r v hv hb
  unfold buildVal at hb
  simp only [if_true] at hb
  cases he : readFile sn.o r with
  | none => simp [he] at hb
  | some d =>
    simp [he] at hb; subst hb
    show EverInside seen bnT d
    exact ⟨sn.o, ho, (resolve_phases_inside sn rootT bnT hroot k r hn hv.1 hv.2 hL d he).1⟩

/-- **every interleaving serves only once-inside bytes** -/
theorem run_inside (sh : Shape) (bnS bnT : List Name) (s : State) (seen : List Fs)
    (hrS : RootOK s.g.st.staticsRoot bnS) (hrT : RootOK s.g.st.templatesRoot bnT)
    (hcS : ∀ k e, (k, e) ∈ s.g.st.staticCache → EntryGood (EverInside seen bnS) e)
    (hcT : ∀ k d, (k, d) ∈ s.g.st.templateCache → EverInside seen bnT d)
    (hstart : ∀ t ∈ s.threads, t.pc = .start)
    (hseen : ∀ t ∈ s.threads, t.sn.o ∈ seen ∧ t.sn.z ∈ seen)
    (hok : ∀ t ∈ s.threads, ThreadOK s.g.st.staticsRoot s.g.st.templatesRoot bnS bnT t)
    (sched : List Nat) :
    (∀ (j : Nat) (t : Thread), (run sh s sched).threads[j]? = some t → ∀ ret, t.pc = .done (some ret) → RetInside seen bnS bnT ret) ∧
    (∀ k e, (k, e) ∈ (run sh s sched).g.st.staticCache → EntryGood (EverInside seen bnS) e) ∧
    (∀ k d, (k, d) ∈ (run sh s sched).g.st.templateCache → EverInside seen bnT d) := by
  have htg : ∀ t ∈ s.threads, ThreadGood (fun _ e => EntryGood (EverInside seen bnS) e) (fun _ d => EverInside seen bnT d)
      s.g.st.staticsRoot s.g.st.templatesRoot t := by
    intro t ht
    have h1 := hok t ht
    have h2 := hstart t ht
    have h3 := hseen t ht
    unfold ThreadGood
    unfold ThreadOK at h1
    cases hop : t.op with
    | static k =>
      rw [hop] at h1
      exact ⟨buildGood_static seen bnS bnT _ hrS k t.sn h1.1 h1.2 h3.1 h3.2, by rw [h2]; trivial⟩
    | template k =>
      rw [hop] at h1
      exact ⟨buildGood_template seen bnS bnT _ hrT k t.sn h1.1 h1.2 h3.1, by rw [h2]; trivial⟩
    | reload => intro ret; rw [h2]; simp
    | none => intro ret; rw [h2]; simp
  have hg := run_good (fun _ e => EntryGood (EverInside seen bnS) e) (fun _ d => EverInside seen bnT d) sh
    s.g.st.staticsRoot s.g.st.templatesRoot s.g.st.perRequest sched s ⟨rfl, rfl, rfl⟩ ⟨hcS, hcT⟩ htg
  refine ⟨?_, hg.1.2.1, hg.1.2.2⟩
  intro j t hj ret hret
  have h := hg.2 t (List.mem_of_getElem? hj)
  unfold ThreadGood at h
  have key : ∀ k, RetGood (fun _ e => EntryGood (EverInside seen bnS) e) (fun _ d => EverInside seen bnT d) k ret →
      RetInside seen bnS bnT ret := by
    intro k hr
    cases ret with
    | inl r =>
      cases r with
      | found b => obtain ⟨e, he, hb⟩ := hr; subst hb; exact he
      | notFound => trivial
      | rejected => trivial
    | inr o =>
      cases o with
      | none => trivial
      | some d => exact hr
  cases hop : t.op with
  | static k => rw [hop] at h; have := h.2; rw [hret] at this; exact key k this
  | template k => rw [hop] at h; have := h.2; rw [hret] at this; exact key k this
  | reload => rw [hop] at h; exact absurd hret (h ret)
  | none => rw [hop] at h; exact absurd hret (h ret)

/-! ## R4, globally: between two reloads all threads that look a key up agree on its entry -/

/-- an invariant whose per-thread part also depends on the shared state -/
theorem run_invariant2 (sh : Shape) (G : Shared → Prop) (I : Shared → Thread → Prop)
    (hown : ∀ i t g, G g → I g t → G (stepT sh i t g).2 ∧ I (stepT sh i t g).2 (stepT sh i t g).1)
    (hother : ∀ i t g u, G g → I g t → I g u → I (stepT sh i t g).2 u) :
    ∀ (sched : List Nat) (s : State), G s.g → (∀ t ∈ s.threads, I s.g t) →
      G (run sh s sched).g ∧ ∀ t ∈ (run sh s sched).threads, I (run sh s sched).g t := by
  intro sched
  induction sched with
  | nil => intro s hg ht; exact ⟨hg, ht⟩
  | cons i rest ih =>
    intro s hg ht
    show G (run sh (step sh s i) rest).g ∧ ∀ t ∈ (run sh (step sh s i) rest).threads, I (run sh (step sh s i) rest).g t
    cases h : s.threads[i]? with
    | none => rw [step_none sh s i h]; exact ih s hg ht
    | some t =>
      rw [step_some sh s i t h]
      have hm : t ∈ s.threads := List.mem_of_getElem? h
      obtain ⟨h1, h2⟩ := hown i t s.g hg (ht t hm)
      refine ih _ h1 ?_
      intro t' ht'
      rcases List.mem_or_eq_of_mem_set ht' with h' | h'
      · exact hother i t s.g t' hg (ht t hm) (ht t' h')
      · subst h'; exact h2

/-- what a lookup of `k` knows about the cache: its built value has the kind of its map, the split insertion points are never
reached, and a value it has returned IS the entry of `k` -/
def AgreePc (tmpl : Bool) (k : Bytes) (st : FsState) : Pc → Prop
  | .lock2 v | .cs2 v => v.isT = tmpl
  | .lockE _ | .csE _ => False
  | .done (some ret) => ret = missRet tmpl ∨ ret = rejRet tmpl ∨ ∃ w, ret = retOf k w ∧ find tmpl st k = some w
  | _ => True

def AgreeT (g : Shared) (t : Thread) : Prop :=
  match t.op with
  | .static k => AgreePc false k g.st t.pc
  | .template k => AgreePc true k g.st t.pc
  | .reload => False          -- pools without `reload`
  | .none => True

theorem buildVal_kind (tmpl : Bool) (sn : Snaps) (r : Bytes) (v : Val) (hv : buildVal tmpl sn r = some v) : v.isT = tmpl := by
  unfold buildVal at hv
  cases tmpl with
  | true =>
    simp only [if_true] at hv
    cases h : readFile sn.o r with
    | none => simp [h] at hv
    | some d => simp [h] at hv; subst hv; rfl
  | false =>
    simp only [Bool.false_eq_true, if_false] at hv
    cases h : buildEntryAt sn.o sn.g sn.z r with
    | none => simp [h] at hv
    | some d => simp [h] at hv; subst hv; rfl

theorem insert_perRequest (sh : Shape) (k : Bytes) (v : Val) (st : FsState) : (insert sh k v st).perRequest = st.perRequest := by
  cases v <;> rfl

theorem stepLookup_agree (sh : Shape) (i : Nat) (tmpl : Bool) (k : Bytes) (sn : Snaps) (pc : Pc) (g : Shared)
    (hok : (if tmpl then sh.template else sh.static).ok = true) (hpr : g.st.perRequest = false)
    (h : AgreePc tmpl k g.st pc) : AgreePc tmpl k (stepLookup sh i tmpl k sn pc g).2.st (stepLookup sh i tmpl k sn pc g).1 := by
  cases pc with
  | cs2 v =>
    obtain ⟨w, h1, h2, _⟩ := cs2_winner_or_own sh i tmpl k sn v g hok h
    rw [h1]
    exact Or.inr (Or.inr ⟨w, rfl, h2⟩)
  | lockE v => exact absurd h id
  | csE v => exact absurd h id
  | lockR => exact h
  | csR => exact h
  | done r => exact h
  | start =>
    unfold stepLookup
    generalize (if tmpl = true then sh.template else sh.static) = lk at *
    simp only [LookupShape.ok, Bool.and_eq_true, Bool.not_eq_true'] at hok
    simp only [hpr, Bool.and_false, Bool.false_eq_true, if_false, hok.1.1.1.1, if_true]
    repeat' split
    all_goals first | exact Or.inl rfl | exact Or.inr (Or.inl rfl) | trivial
  | lock1 r =>
    unfold stepLookup
    simp only [lockStep_st]
    rcases lockStep_pc i g (.cs1 r) (.lock1 r) with h' | h' <;> rw [h'] <;> trivial
  | lock2 v =>
    unfold stepLookup
    simp only [lockStep_st]
    rcases lockStep_pc i g (.cs2 v) (.lock2 v) with h' | h' <;> rw [h'] <;> exact h
  | cs1 r =>
    unfold stepLookup
    simp only [touch_st]
    split
    · rename_i v hv
      exact Or.inr (Or.inr ⟨v, rfl, hv⟩)
    · trivial
  | build r =>
    unfold stepLookup
    generalize (if tmpl = true then sh.template else sh.static) = lk at *
    simp only [LookupShape.ok, Bool.and_eq_true, Bool.not_eq_true'] at hok
    simp only [hpr, Bool.and_false, Bool.false_eq_true, if_false, hok.1.1.1.2]
    split
    · exact Or.inl rfl
    · rename_i v hv
      exact buildVal_kind tmpl sn r v hv

theorem agreePc_stable (tmpl : Bool) (k : Bytes) (st st' : FsState) (pc : Pc)
    (hst : ∀ w, find tmpl st k = some w → find tmpl st' k = some w) (h : AgreePc tmpl k st pc) : AgreePc tmpl k st' pc := by
  cases pc with
  | done r =>
    cases r with
    | none => trivial
    | some ret =>
      rcases h with h | h | ⟨w, h1, h2⟩
      · exact Or.inl h
      · exact Or.inr (Or.inl h)
      · exact Or.inr (Or.inr ⟨w, h1, hst w h2⟩)
  | _ => exact h

theorem stepT_perRequest (sh : Shape) (i : Nat) (t : Thread) (g : Shared) (hnr : t.op ≠ .reload) :
    (stepT sh i t g).2.st.perRequest = g.st.perRequest := by
  unfold stepT
  cases hop : t.op with
  | static k' =>
    rcases stepLookup_st sh i false k' t.sn t.pc g with h' | ⟨v, h'⟩
    · simp only [h']
    · simp only [h', insert_perRequest]
  | template k' =>
    rcases stepLookup_st sh i true k' t.sn t.pc g with h' | ⟨v, h'⟩
    · simp only [h']
    · simp only [h', insert_perRequest]
  | reload => exact absurd hop hnr
  | none => rfl

theorem agreeT_not_reload (g : Shared) (t : Thread) (h : AgreeT g t) : t.op ≠ .reload := by
  intro ho; unfold AgreeT at h; rw [ho] at h; exact h

/-- the agreement invariant along every schedule (cached mode, pool without `reload`) -/
theorem run_agree (sh : Shape) (hok : sh.ok = true) (sched : List Nat) (s : State) (hpr : s.g.st.perRequest = false)
    (ht : ∀ t ∈ s.threads, AgreeT s.g t) :
    (run sh s sched).g.st.perRequest = false ∧ ∀ t ∈ (run sh s sched).threads, AgreeT (run sh s sched).g t := by
  have hS : sh.static.ok = true := by simp only [Shape.ok, Bool.and_eq_true] at hok; exact hok.1.1.1.1
  have hT : sh.template.ok = true := by simp only [Shape.ok, Bool.and_eq_true] at hok; exact hok.1.1.1.2
  have hes := (ok_static hok).2.2.2.2
  have het := (ok_template hok).2.2.2.2
  refine run_invariant2 sh (fun g => g.st.perRequest = false) AgreeT ?_ ?_ sched s hpr ht
  · intro i t g hg hi
    have hnr := agreeT_not_reload g t hi
    refine ⟨by rw [stepT_perRequest sh i t g hnr]; exact hg, ?_⟩
    unfold AgreeT at hi ⊢
    unfold stepT
    cases hop : t.op with
    | static k => rw [hop] at hi; exact stepLookup_agree sh i false k t.sn t.pc g hS hg hi
    | template k => rw [hop] at hi; exact stepLookup_agree sh i true k t.sn t.pc g hT hg hi
    | reload => exact absurd hop hnr
    | none => trivial
  · intro i t g u _ hi hu
    have hnr := agreeT_not_reload g t hi
    unfold AgreeT at hu ⊢
    cases hop : u.op with
    | static k =>
      rw [hop] at hu
      exact agreePc_stable false k _ _ u.pc (fun w hw => stepT_find_stable sh hes het i t g false k w hw hnr) hu
    | template k =>
      rw [hop] at hu
      exact agreePc_stable true k _ _ u.pc (fun w hw => stepT_find_stable sh hes het i t g true k w hw hnr) hu
    | reload => rw [hop] at hu; exact hu
    | none => trivial

/-- the operation of a lookup of kind `tmpl` -/
def lookupOp (tmpl : Bool) (k : Bytes) : RaceOp := if tmpl then .template k else .static k

/-- a lookup that did not find a file -/
def isMiss (tmpl : Bool) (ret : Ret) : Prop := ret = missRet tmpl ∨ ret = rejRet tmpl

theorem agreeT_lookup (g : Shared) (t : Thread) (tmpl : Bool) (k : Bytes) (hop : t.op = lookupOp tmpl k) (h : AgreeT g t) :
    AgreePc tmpl k g.st t.pc := by
  unfold AgreeT at h
  cases tmpl with
  | true => simp only [lookupOp, if_true] at hop; rw [hop] at h; exact h
  | false => simp only [lookupOp, Bool.false_eq_true, if_false] at hop; rw [hop] at h; exact h

/-- two finished lookups of the same key return the same value — the key's entry — unless one of them found no file -/
theorem agree_results (s : State) (hall : ∀ t ∈ s.threads, AgreeT s.g t) (t t' : Thread) (ht : t ∈ s.threads)
    (ht' : t' ∈ s.threads) (tmpl : Bool) (k : Bytes) (hop : t.op = lookupOp tmpl k) (hop' : t'.op = lookupOp tmpl k)
    (ret ret' : Ret) (hr : t.pc = .done (some ret)) (hr' : t'.pc = .done (some ret')) :
    (∃ w, ret = retOf k w ∧ ret' = retOf k w ∧ find tmpl s.g.st k = some w) ∨ isMiss tmpl ret ∨ isMiss tmpl ret' := by
  have h1 := agreeT_lookup s.g t tmpl k hop (hall t ht)
  have h2 := agreeT_lookup s.g t' tmpl k hop' (hall t' ht')
  rw [hr] at h1; rw [hr'] at h2
  rcases h1 with h1 | h1 | ⟨w, hw1, hw2⟩
  · exact Or.inr (Or.inl (Or.inl h1))
  · exact Or.inr (Or.inl (Or.inr h1))
  · rcases h2 with h2 | h2 | ⟨w', hw1', hw2'⟩
    · exact Or.inr (Or.inr (Or.inl h2))
    · exact Or.inr (Or.inr (Or.inr h2))
    · rw [hw2] at hw2'; injection hw2' with hw2'; subst hw2'
      exact Or.inl ⟨w, hw1, hw1', hw2⟩

theorem init_agree (st : FsState) (ts : List (RaceOp × Snaps)) (hnr : ∀ x ∈ ts, x.1 ≠ .reload) :
    ∀ t ∈ (State.init st ts).threads, AgreeT (State.init st ts).g t := by
  intro t ht
  simp only [State.init, List.mem_map] at ht
  obtain ⟨x, hx, rfl⟩ := ht
  have := hnr x hx
  unfold AgreeT
  cases hop : x.1 with
  | static k => trivial
  | template k => trivial
  | reload => exact absurd hop this
  | none => trivial

/-- the second critical section, in a pool -/
theorem step_cs2 (sh : Shape) (hok : sh.ok = true) (s : State) (j : Nat) (t : Thread) (tmpl : Bool) (k : Bytes) (v : Val)
    (hj : s.threads[j]? = some t) (hop : t.op = lookupOp tmpl k) (hpc : t.pc = .cs2 v) (hk : v.isT = tmpl) :
    ∃ w, (step sh s j).result j = some (retOf k w) ∧ find tmpl (step sh s j).g.st k = some w ∧
      ((find tmpl s.g.st k = some w ∧ (step sh s j).g.st = s.g.st) ∨
       (find tmpl s.g.st k = none ∧ w = v ∧ (step sh s j).g.st = insert sh k v s.g.st)) := by
  have hS : sh.static.ok = true := by simp only [Shape.ok, Bool.and_eq_true] at hok; exact hok.1.1.1.1
  have hT : sh.template.ok = true := by simp only [Shape.ok, Bool.and_eq_true] at hok; exact hok.1.1.1.2
  have hlk : (if tmpl then sh.template else sh.static).ok = true := by cases tmpl <;> simp [hS, hT]
  obtain ⟨w, h1, h2, h3⟩ := cs2_winner_or_own sh j tmpl k t.sn v s.g hlk hk
  have hst : stepT sh j t s.g = ({ t with pc := (stepLookup sh j tmpl k t.sn (.cs2 v) s.g).1 }, (stepLookup sh j tmpl k t.sn (.cs2 v) s.g).2) := by
    unfold stepT
    cases tmpl with
    | true => simp only [lookupOp, if_true] at hop; simp only [hop, hpc]
    | false => simp only [lookupOp, Bool.false_eq_true, if_false] at hop; simp only [hop, hpc]
  refine ⟨w, ?_, ?_, ?_⟩
  · rw [step_some sh s j t hj]
    simp only [State.result, List.getElem?_set_self (lt_of_get _ _ _ hj), hst, h1]
  · rw [step_some sh s j t hj, hst]; exact h2
  · rw [step_some sh s j t hj, hst]; exact h3

/-! ## the gated schedule is a schedule -/

theorem run_append (sh : Shape) (s : State) (a b : List Nat) : run sh s (a ++ b) = run sh (run sh s a) b := by
  simp [run, List.foldl_append]

theorem advanceToBuild_is_run (sh : Shape) (i : Nat) : ∀ (n : Nat) (s : State),
    ∃ m, m ≤ n ∧ advanceToBuild sh i n s = run sh s (List.replicate m i) := by
  intro n
  induction n with
  | zero => intro s; exact ⟨0, Nat.le_refl _, rfl⟩
  | succ n ih =>
    intro s
    unfold advanceToBuild
    split
    · exact ⟨0, Nat.zero_le _, rfl⟩
    · obtain ⟨m, hm, h⟩ := ih (step sh s i)
      exact ⟨m + 1, Nat.succ_le_succ hm, by rw [h]; rfl⟩

/-- `gatedRace` IS a run of the small-step machine for `Shape.gen` on an explicit schedule: `m ≤ soloLen` moves of A, B to
completion, A to completion — so every for-all-schedules theorem applies to what the driver replays. -/
theorem gatedRace_is_schedule (fs0 fs1 : Fs) (st : FsState) (tmplA : Bool) (nameA : Bytes) (bOp : RaceOp) :
    ∃ m, m ≤ soloLen ∧
      let s0 : State := { g := { st := st }, threads :=
        [{ op := if tmplA then .template nameA else .static nameA, sn := ⟨fs0, fs0, fs0, fs1, fs1, fs1⟩ },
         { op := bOp, sn := Snaps.const fs0 }] }
      let s3 := run Shape.gen s0 (List.replicate m 0 ++ List.replicate soloLen 1 ++ List.replicate soloLen 0)
      (gatedRace fs0 fs1 st tmplA nameA bOp).st = s3.g.st ∧
      (gatedRace fs0 fs1 st tmplA nameA bOp).resB = s3.result 1 ∧
      (gatedRace fs0 fs1 st tmplA nameA bOp).resA = orMiss tmplA (s3.result 0) ∧
      (gatedRace fs0 fs1 st tmplA nameA bOp).gated = atBuild (run Shape.gen s0 (List.replicate m 0)) 0 := by
  obtain ⟨m, hm, h⟩ := advanceToBuild_is_run Shape.gen 0 soloLen
    { g := { st := st }, threads :=
        [{ op := if tmplA then .template nameA else .static nameA, sn := ⟨fs0, fs0, fs0, fs1, fs1, fs1⟩ },
         { op := bOp, sn := Snaps.const fs0 }] }
  refine ⟨m, hm, ?_⟩
  simp only [gatedRace, run_append, h, and_self]

/-! ## R3, instance: a value is only ever returned for the key it was built for -/

/-- `e` was in the initial cache under `k`, or is what some thread of the pool that looks up THIS `k` builds -/
def BuiltForS (st0 : FsState) (ts : List (RaceOp × Snaps)) (k : Bytes) (e : CacheEntry) : Prop :=
  (k, e) ∈ st0.staticCache ∨ ∃ x ∈ ts, x.1 = .static k ∧ ∃ r, buildEntryAt x.2.o x.2.g x.2.z r = some e

def BuiltForT (st0 : FsState) (ts : List (RaceOp × Snaps)) (k : Bytes) (d : Bytes) : Prop :=
  (k, d) ∈ st0.templateCache ∨ ∃ x ∈ ts, x.1 = .template k ∧ ∃ r, readFile x.2.o r = some d

theorem init_builtFor (st0 : FsState) (ts : List (RaceOp × Snaps)) :
    ∀ t ∈ (State.init st0 ts).threads,
      ThreadGood (BuiltForS st0 ts) (BuiltForT st0 ts) st0.staticsRoot st0.templatesRoot t := by
  intro t ht
  simp only [State.init, List.mem_map] at ht
  obtain ⟨x, hx, rfl⟩ := ht
  unfold ThreadGood
  cases hop : x.1 with
  | static k =>
    refine ⟨?_, trivial⟩
    intro r v _ hb
    unfold buildVal at hb
    simp only [Bool.false_eq_true, if_false] at hb
    cases he : buildEntryAt x.2.o x.2.g x.2.z r with
    | none => simp [he] at hb
    | some e => simp [he] at hb; subst hb; exact Or.inr ⟨x, hx, hop, r, he⟩
  | template k =>
    refine ⟨?_, trivial⟩
    intro r v _ hb
    unfold buildVal at hb
    simp only [if_true] at hb
    cases he : readFile x.2.o r with
    | none => simp [he] at hb
    | some d => simp [he] at hb; subst hb; exact Or.inr ⟨x, hx, hop, r, he⟩
  | reload => intro ret; simp
  | none => intro ret; simp

/-- **no cross-key value, ever**: under every lock skeleton and schedule, what a thread returns for name `k` was cached under
`k` initially or built by a lookup of `k` -/
theorem run_built_for_key (sh : Shape) (st0 : FsState) (ts : List (RaceOp × Snaps)) (sched : List Nat)
    (j : Nat) (t : Thread) (hj : (run sh (State.init st0 ts) sched).threads[j]? = some t) (k : Bytes)
    (hop : t.op = .static k ∨ t.op = .template k) (ret : Ret) (hret : t.pc = .done (some ret)) :
    RetGood (BuiltForS st0 ts) (BuiltForT st0 ts) k ret :=
  run_results_good (BuiltForS st0 ts) (BuiltForT st0 ts) sh st0.staticsRoot st0.templatesRoot st0.perRequest sched
    (State.init st0 ts) ⟨rfl, rfl, rfl⟩ ⟨fun _ _ h => Or.inl h, fun _ _ h => Or.inl h⟩ (init_builtFor st0 ts) j t hj k hop ret hret

end Iora.Assets.Race
