import IoraModel.Lemmas.TpLock
import IoraModel.Lemmas.TpRefuse
/-!
# C09 — a submission id is decided once: `result id = accepted ↔ accCnt id = 1`

Every enqueue call allocates a fresh id (`nextId`) before its outcome is decided; the outcome is decided by the one step
of that call that acquires `_mutex`.  Hence no id is accepted twice, and the outcome "accepted" and the count of pushes
of the id agree in every reachable state (with or without restart, in every shutdown mode).
-/
namespace Iora.ThreadPool

/-- the id whose outcome the call is about to decide (the call is at its `lock` operation) -/
def lockCidC : CallSt → Option Nat
  | .inCall _ cid .lock => some cid
  | _ => none

def lockOut : CallOut → Option Nat
  | .more c => lockCidC c
  | .done => none

def lockCid : Thread → Option Nat
  | .worker (.body _ c) => lockCidC c
  | .sub (.run c) => lockCidC c
  | .main (.inCall c) _ => lockCidC c
  | _ => none

@[simp] theorem lockCid_wake (x : Thread) (b : Bool) : lockCid (wake x b) = lockCid x := by
  unfold wake; split <;> simp [lockCid]

theorem lockCid_wokeFrom {x y : Thread} (h : WokeFrom x y) : lockCid y = lockCid x := by
  rcases h with e | ⟨_, e⟩ <;> rw [e]
  exact lockCid_wake x false

theorem lockCid_fresh (nt : Thread) (h : isFresh nt = true) : lockCid nt = none := by
  cases nt with
  | main pc r => cases pc <;> simp [isFresh] at h <;> rfl
  | sub x => cases x <;> simp [isFresh] at h <;> rfl
  | worker w => cases w <;> simp [isFresh] at h <;> rfl

/-- the step does not touch the id allocator, the outcomes and the acceptance counts -/
structure IdsSame (sh sh' : Shared) : Prop where
  nextId : sh'.nextId = sh.nextId
  result : sh'.result = sh.result
  accCnt : sh'.accCnt = sh.accCnt

theorem IdsSame.rfl' (sh : Shared) : IdsSame sh sh := ⟨rfl, rfl, rfl⟩

/-- what a step does to the ids; `pre` / `post`: the id the stepping thread is about to decide, before / after -/
inductive IdEff (sh sh' : Shared) (pre post : Option Nat) : Prop
  | same (h : IdsSame sh sh') (hp : post = pre ∨ post = none)
  | alloc (h1 : sh'.nextId = sh.nextId + 1) (h2 : sh'.accCnt = sh.accCnt) (hpre : pre = none)
      (h3 : (post = some sh.nextId ∧ sh'.result = sh.result) ∨ (post = none ∧ sh'.result = setF sh.result sh.nextId .refDraining))
  | decide (cid : Nat) (hpre : pre = some cid) (hpost : post = none) (h1 : sh'.nextId = sh.nextId)
      (h3 : (∃ r, r ≠ Res.accepted ∧ sh'.result = setF sh.result cid r ∧ sh'.accCnt = sh.accCnt) ∨
            (sh'.result = setF sh.result cid .accepted ∧ sh'.accCnt = bump sh.accCnt cid))

theorem IdEff.then_same {sh sh' sh'' : Shared} {pre post : Option Nat} (h : IdEff sh sh' pre post) (h2 : IdsSame sh' sh'') :
    IdEff sh sh'' pre post := by
  cases h with
  | same h hp => exact .same ⟨by rw [h2.nextId, h.nextId], by rw [h2.result, h.result], by rw [h2.accCnt, h.accCnt]⟩ hp
  | alloc h1 ha hpre h3 =>
    refine .alloc (by rw [h2.nextId, h1]) (by rw [h2.accCnt, ha]) hpre ?_
    rw [h2.result]; exact h3
  | decide cid hpre hpost h1 h3 =>
    refine .decide cid hpre hpost (by rw [h2.nextId, h1]) ?_
    rw [h2.result, h2.accCnt]; exact h3

theorem lockOut_nextCall (rest : List Act) : lockOut (nextCall rest) = none := by
  unfold nextCall; split <;> rfl

theorem callStep_idEff (cfg : Cfg) (sh : Shared) (n t : Nat) (c : CallSt) :
    IdEff sh (callStep cfg sh n t c).1 (lockCidC c) (lockOut (callStep cfg sh n t c).2.1) := by
  cases c with
  | yield_ sc =>
    cases sc with
    | nil => exact .same (IdsSame.rfl' _) (Or.inl rfl)
    | cons a rest =>
      simp only [callStep]
      split
      · exact .alloc rfl rfl rfl (Or.inl ⟨rfl, rfl⟩)
      · exact .alloc rfl rfl rfl (Or.inr ⟨lockOut_nextCall rest, rfl⟩)
  | inCall rest cid e =>
    cases e <;> simp only [callStep]
    · -- lock
      split
      · exact .decide cid rfl rfl rfl (Or.inl ⟨.refShutdown, (by intro e; cases e), rfl, rfl⟩)
      · split
        · exact .decide cid rfl rfl rfl (Or.inl ⟨.refFull, (by intro e; cases e), rfl, rfl⟩)
        · split
          · exact .decide cid rfl rfl rfl (Or.inr ⟨rfl, rfl⟩)
          · exact .decide cid rfl rfl rfl (Or.inr ⟨rfl, rfl⟩)
    · exact .same ⟨rfl, rfl, rfl⟩ (Or.inl rfl)
    · exact .same ⟨rfl, rfl, rfl⟩ (Or.inl rfl)
    · exact .same ⟨rfl, rfl, rfl⟩ (Or.inr (lockOut_nextCall rest))
    · exact .same ⟨rfl, rfl, rfl⟩ (Or.inr (lockOut_nextCall rest))

-- helper functions of the model leave the ids alone
theorem bodyEnd_ids (cfg : Cfg) (sh : Shared) (id : Nat) : IdsSame sh (bodyEnd cfg sh id).1 := by
  unfold bodyEnd; split <;> exact ⟨rfl, rfl, rfl⟩
theorem afterWait_ids (cfg : Cfg) (sh : Shared) (t : Tid) (res : Bool) : IdsSame sh (afterWait cfg sh t res).1 := by
  unfold afterWait; (repeat' split) <;> exact ⟨rfl, rfl, rfl⟩
theorem reacq_ids (cfg : Cfg) (sh : Shared) (t : Tid) (late : Bool) : IdsSame sh (reacq cfg sh t late).1 := by
  unfold reacq
  split
  · have := afterWait_ids cfg { sh with owner := some t, waiting := sh.waiting - 1 } t (waitPred sh)
    exact ⟨this.nextId, this.result, this.accCnt⟩
  · split
    · have := afterWait_ids cfg { sh with owner := some t, waiting := sh.waiting - 1 } t true
      exact ⟨this.nextId, this.result, this.accCnt⟩
    · exact ⟨rfl, rfl, rfl⟩
theorem pollExit_ids (sh : Shared) (r : MRegs) (k : Poll) (d : Bool) : IdsSame sh (pollExit sh r k d).1 := by
  unfold pollExit drainReturn; (repeat' split) <;> exact ⟨rfl, rfl, rfl⟩
theorem pollHead_ids (sh : Shared) (r : MRegs) (k : Poll) : IdsSame sh (pollHead sh r k).1 := by
  unfold pollHead; split
  · exact ⟨rfl, rfl, rfl⟩
  · exact pollExit_ids sh r k false
theorem stepMYield_ids (cfg : Cfg) (sh : Shared) (r : MRegs) : IdsSame sh (stepMYield cfg sh r).1 := by
  unfold stepMYield drainEnter; (repeat' split) <;> exact ⟨rfl, rfl, rfl⟩
theorem drainReturn_ids (sh : Shared) (r : MRegs) (b : Bool) : IdsSame sh (drainReturn sh r b).1 := by
  unfold drainReturn; (repeat' split) <;> exact ⟨rfl, rfl, rfl⟩
theorem shutdownReturn_ids (sh : Shared) (r : MRegs) : IdsSame sh (shutdownReturn sh r).1 := by
  unfold shutdownReturn; (repeat' split) <;> exact ⟨rfl, rfl, rfl⟩
theorem dtorReturn_ids (sh : Shared) (r : MRegs) : IdsSame sh (dtorReturn sh r).1 := by
  unfold dtorReturn; exact ⟨rfl, rfl, rfl⟩
theorem dtorEarly_ids (sh : Shared) (r : MRegs) : IdsSame sh (dtorEarly sh r).1 := by
  unfold dtorEarly; split
  · exact dtorReturn_ids sh r
  · exact ⟨rfl, rfl, rfl⟩

theorem IdsSame.of {a b x : Shared} (h : IdsSame b x) (e1 : b.nextId = a.nextId) (e2 : b.result = a.result) (e3 : b.accCnt = a.accCnt) :
    IdsSame a x := ⟨by rw [h.nextId, e1], by rw [h.result, e2], by rw [h.accCnt, e3]⟩

-- ... and never leave the controller at the `lock` operation of a call
theorem pollExit_nl (sh : Shared) (r r' : MRegs) (k : Poll) (d : Bool) : lockCid (.main (pollExit sh r k d).2.1 r') = none := by
  unfold pollExit drainReturn; (repeat' split) <;> rfl
theorem pollHead_nl (sh : Shared) (r r' : MRegs) (k : Poll) : lockCid (.main (pollHead sh r k).2.1 r') = none := by
  unfold pollHead; split
  · rfl
  · exact pollExit_nl sh r r' k false
theorem stepMYield_nl (cfg : Cfg) (sh : Shared) (r r' : MRegs) : lockCid (.main (stepMYield cfg sh r).2.1 r') = none := by
  unfold stepMYield drainEnter; (repeat' split) <;> rfl
theorem drainReturn_nl (sh : Shared) (r r' : MRegs) (b : Bool) : lockCid (.main (drainReturn sh r b).2.1 r') = none := by
  unfold drainReturn; (repeat' split) <;> rfl
theorem shutdownReturn_nl (sh : Shared) (r r' : MRegs) : lockCid (.main (shutdownReturn sh r).2.1 r') = none := by
  unfold shutdownReturn; (repeat' split) <;> rfl
theorem dtorReturn_nl (sh : Shared) (r r' : MRegs) : lockCid (.main (dtorReturn sh r).2.1 r') = none := by
  unfold dtorReturn; rfl
theorem dtorEarly_nl (sh : Shared) (r r' : MRegs) : lockCid (.main (dtorEarly sh r).2.1 r') = none := by
  unfold dtorEarly; split
  · exact dtorReturn_nl sh r r'
  · rfl

theorem transM_ids (cfg : Cfg) (sh : Shared) (n t : Nat) (pc : MPc) (r : MRegs) (alt : Nat) (h : ∀ c, pc ≠ .inCall c) :
    IdsSame sh (transM cfg sh n t pc r alt).1 ∧ lockCid (.main (transM cfg sh n t pc r alt).2.1.1 (transM cfg sh n t pc r alt).2.1.2) = none := by
  cases pc with
  | inCall c => exact absurd rfl (h c)
  | _ =>
    simp only [transM] <;> (repeat' split) <;>
    first
    | exact ⟨⟨rfl, rfl, rfl⟩, rfl⟩
    | exact ⟨(pollHead_ids _ _ _).of rfl rfl rfl, pollHead_nl _ _ _ _⟩
    | exact ⟨(pollExit_ids _ _ _ _).of rfl rfl rfl, pollExit_nl _ _ _ _ _⟩
    | exact ⟨(stepMYield_ids _ _ _).of rfl rfl rfl, stepMYield_nl _ _ _ _⟩
    | exact ⟨(drainReturn_ids _ _ _).of rfl rfl rfl, drainReturn_nl _ _ _ _⟩
    | exact ⟨(shutdownReturn_ids _ _).of rfl rfl rfl, shutdownReturn_nl _ _ _⟩
    | exact ⟨(dtorReturn_ids _ _).of rfl rfl rfl, dtorReturn_nl _ _ _⟩
    | exact ⟨(dtorEarly_ids _ _).of rfl rfl rfl, dtorEarly_nl _ _ _⟩

theorem idEff_more {sh sh' : Shared} {pre : Option Nat} {o : CallOut} (h : IdEff sh sh' pre (lockOut o)) (e : o = .done) :
    IdEff sh sh' pre none := by rw [e] at h; exact h

/-- every step of every thread, as far as the ids are concerned -/
theorem trans_idEff (cfg : Cfg) (sh : Shared) (n t : Nat) (th : Thread) (alt : Nat) :
    IdEff sh (trans cfg sh n t th alt).1 (lockCid th) (lockCid (trans cfg sh n t th alt).2.1) := by
  cases th with
  | main pc r =>
    simp only [trans]
    cases pc with
    | inCall c =>
      have hc := callStep_idEff cfg sh n t c
      simp only [transM]
      cases hx : (callStep cfg sh n t c).2.1 with
      | more c' => rw [hx] at hc; exact hc
      | done => rw [hx] at hc; exact hc
    | _ =>
      refine .same (transM_ids cfg sh n t _ r alt (by intro c e; cases e)).1 (Or.inr ?_)
      exact (transM_ids cfg sh n t _ r alt (by intro c e; cases e)).2
  | sub x =>
    simp only [trans]
    cases x with
    | run c =>
      have hc := callStep_idEff cfg sh n t c
      simp only [transS]
      cases hx : (callStep cfg sh n t c).2.1 with
      | more c' => rw [hx] at hc; exact hc
      | done => rw [hx] at hc; exact hc
    | start sc => simp only [transS]; split <;> exact .same ⟨rfl, rfl, rfl⟩ (Or.inl rfl)
    | done => exact .same ⟨rfl, rfl, rfl⟩ (Or.inl rfl)
  | worker w =>
    simp only [trans]
    cases w with
    | body tid c =>
      have hc := callStep_idEff cfg sh n t c
      simp only [transW]
      cases hx : (callStep cfg sh n t c).2.1 with
      | more c' => rw [hx] at hc; exact hc
      | done =>
        rw [hx] at hc
        have hb := bodyEnd_ids cfg (callStep cfg sh n t c).1 tid
        have hn : lockCid (.worker (bodyEnd cfg (callStep cfg sh n t c).1 tid).2) = none := by
          unfold bodyEnd; split <;> rfl
        simp only []
        rw [hn]
        exact hc.then_same hb
    | lock =>
      simp only [transW]; split
      · refine .same ((afterWait_ids cfg _ t true).of rfl rfl rfl) (Or.inr ?_)
        unfold afterWait; (repeat' split) <;> rfl
      · exact .same ⟨rfl, rfl, rfl⟩ (Or.inl rfl)
    | unlockTask tid => simp only [transW, beginTask]; split <;> exact .same ⟨rfl, rfl, rfl⟩ (Or.inl rfl)
    | bYield tid sc =>
      simp only [transW]; split
      · refine .same (bodyEnd_ids cfg sh tid) (Or.inr ?_)
        unfold bodyEnd; split <;> rfl
      · exact .same ⟨rfl, rfl, rfl⟩ (Or.inl rfl)
    | cfgUnlock tid again => simp only [transW, taskDone]; split <;> exact .same ⟨rfl, rfl, rfl⟩ (Or.inl rfl)
    | _ => simp only [transW, beginTask] <;> exact .same ⟨rfl, rfl, rfl⟩ (Or.inl rfl)

/-- the id invariant -/
structure IdInv (s : St) : Prop where
  /-- ids not yet allocated are untouched -/
  fresh : ∀ id, s.sh.nextId ≤ id → s.sh.accCnt id = 0 ∧ s.sh.result id = .pending
  /-- accepted ids have been pushed once, all others never -/
  acc : ∀ id, (s.sh.result id = .accepted → s.sh.accCnt id = 1) ∧ (s.sh.result id ≠ .accepted → s.sh.accCnt id = 0)
  /-- a call at its `lock` operation has an allocated, undecided id ... -/
  pend : ∀ (t : Nat) (th : Thread) (cid : Nat), s.thr[t]? = some th → lockCid th = some cid →
      cid < s.sh.nextId ∧ s.sh.result cid = .pending
  /-- ... which no other call shares -/
  uniq : ∀ (t t' : Nat) (th th' : Thread) (cid : Nat), s.thr[t]? = some th → s.thr[t']? = some th' →
      lockCid th = some cid → lockCid th' = some cid → t = t'

theorem idInv_init (cfg : Cfg) : IdInv (init cfg) := by
  have h1 : ∀ (t : Nat) (x : Thread), (init cfg).thr[t]? = some x → lockCid x = none := by
    intro t x h
    simp [init] at h
    cases t with
    | zero => simp at h; rw [← h]; rfl
    | succ k => simp at h
  refine ⟨fun id _ => ⟨rfl, rfl⟩, fun id => ⟨fun h => by simp [init] at h, fun _ => rfl⟩, ?_, ?_⟩
  · intro t th cid h hl; rw [h1 t th h] at hl; cases hl
  · intro t t' th th' cid h _ hl; rw [h1 t th h] at hl; cases hl

theorem setF_same {α : Type} (f : Nat → α) (k : Nat) (x : α) : setF f k x k = x := by simp [setF]
theorem setF_other {α : Type} (f : Nat → α) (k i : Nat) (x : α) (h : i ≠ k) : setF f k x i = f i := by simp [setF, h]
theorem bump_same (f : Nat → Nat) (k : Nat) : bump f k k = f k + 1 := by simp [bump]
theorem bump_other (f : Nat → Nat) (k i : Nat) (h : i ≠ k) : bump f k i = f i := by simp [bump, h]

/-- the id invariant is preserved by a step described by `IdEff` + `ThreadsStep` -/
theorem idInv_of_eff (s : St) (sh' : Shared) (t : Tid) (th th' : Thread) (post : Post) (l : List Thread)
    (hI : IdInv s) (hget : s.thr[t]? = some th)
    (heff : IdEff s.sh sh' (lockCid th) (lockCid th'))
    (hts : ThreadsStep s.thr l t th' post)
    (hfresh : ∀ nt, post = .spawn nt → isFresh nt = true) :
    IdInv { sh := sh', thr := l } := by
  -- the threads of the new list other than `t` carry an old `lockCid` (or none)
  have others : ∀ (j : Nat) (y : Thread) (cid : Nat), l[j]? = some y → j ≠ t → lockCid y = some cid →
      ∃ x, s.thr[j]? = some x ∧ lockCid x = some cid := by
    intro j y cid hy hne hl
    rcases hts.new j y hy with ⟨e, _⟩ | ⟨_, x, hx, hwf⟩ | ⟨nt, hnt, _, e2⟩
    · exact absurd e hne
    · exact ⟨x, hx, by rw [← lockCid_wokeFrom hwf]; exact hl⟩
    · rw [e2, lockCid_fresh nt (hfresh nt hnt)] at hl; cases hl
  have selfj : ∀ (y : Thread), l[t]? = some y → y = th' := by
    intro y hy; rw [hts.self] at hy; exact (Option.some.inj hy).symm
  cases heff with
  | same h hp =>
    refine ⟨?_, ?_, ?_, ?_⟩
    · intro id hid
      show sh'.accCnt id = 0 ∧ sh'.result id = .pending
      rw [h.accCnt, h.result]; exact hI.fresh id (by rw [← h.nextId]; exact hid)
    · intro id; show (sh'.result id = .accepted → sh'.accCnt id = 1) ∧ (sh'.result id ≠ .accepted → sh'.accCnt id = 0)
      rw [h.accCnt, h.result]; exact hI.acc id
    · intro j y cid hy hl
      show cid < sh'.nextId ∧ sh'.result cid = .pending
      rw [h.nextId, h.result]
      by_cases e : j = t
      · rw [e] at hy; rw [selfj y hy] at hl
        rcases hp with hp | hp
        · rw [hp] at hl; exact hI.pend t th cid hget hl
        · rw [hp] at hl; cases hl
      · obtain ⟨x, hx, hlx⟩ := others j y cid hy e hl
        exact hI.pend j x cid hx hlx
    · intro j j' y y' cid hy hy' hl hl'
      have old : ∀ (i : Nat) (z : Thread), l[i]? = some z → lockCid z = some cid → ∃ x, s.thr[i]? = some x ∧ lockCid x = some cid := by
        intro i z hz hlz
        by_cases e : i = t
        · rw [e] at hz; rw [selfj z hz] at hlz
          rcases hp with hp | hp
          · rw [hp] at hlz; rw [e]; exact ⟨th, hget, hlz⟩
          · rw [hp] at hlz; cases hlz
        · exact others i z cid hz e hlz
      obtain ⟨x, hx, hlx⟩ := old j y hy hl
      obtain ⟨x', hx', hlx'⟩ := old j' y' hy' hl'
      exact hI.uniq j j' x x' cid hx hx' hlx hlx'
  | alloc h1 h2 hpre h3 =>
    have hres : ∀ id, id ≠ s.sh.nextId → sh'.result id = s.sh.result id := by
      intro id hne
      rcases h3 with ⟨_, e⟩ | ⟨_, e⟩
      · rw [e]
      · rw [e, setF_other _ _ _ _ hne]
    have hnew : sh'.result s.sh.nextId ≠ .accepted ∧ s.sh.accCnt s.sh.nextId = 0 := by
      have hf := hI.fresh s.sh.nextId (Nat.le_refl _)
      refine ⟨?_, hf.1⟩
      rcases h3 with ⟨_, e⟩ | ⟨_, e⟩
      · rw [e, hf.2]; intro x; cases x
      · rw [e, setF_same]; intro x; cases x
    refine ⟨?_, ?_, ?_, ?_⟩
    · intro id hid
      show sh'.accCnt id = 0 ∧ sh'.result id = .pending
      have hid' : s.sh.nextId + 1 ≤ id := by rw [← h1]; exact hid
      rw [h2, hres id (by omega)]; exact hI.fresh id (by omega)
    · intro id; show (sh'.result id = .accepted → sh'.accCnt id = 1) ∧ (sh'.result id ≠ .accepted → sh'.accCnt id = 0)
      rw [h2]
      by_cases e : id = s.sh.nextId
      · rw [e]; exact ⟨fun x => absurd x hnew.1, fun _ => hnew.2⟩
      · rw [hres id e]; exact hI.acc id
    · intro j y cid hy hl
      show cid < sh'.nextId ∧ sh'.result cid = .pending
      rw [h1]
      by_cases e : j = t
      · rw [e] at hy; rw [selfj y hy] at hl
        rcases h3 with ⟨hp, er⟩ | ⟨hp, _⟩
        · rw [hp] at hl
          have := Option.some.inj hl
          rw [← this, er]
          exact ⟨Nat.lt_succ_self _, (hI.fresh _ (Nat.le_refl _)).2⟩
        · rw [hp] at hl; cases hl
      · obtain ⟨x, hx, hlx⟩ := others j y cid hy e hl
        have := hI.pend j x cid hx hlx
        rw [hres cid (by omega)]
        exact ⟨by omega, this.2⟩
    · intro j j' y y' cid hy hy' hl hl'
      by_cases e : j = t
      · by_cases e' : j' = t
        · rw [e, e']
        · exfalso
          rw [e] at hy; rw [selfj y hy] at hl
          obtain ⟨x', hx', hlx'⟩ := others j' y' cid hy' e' hl'
          have hlt := (hI.pend j' x' cid hx' hlx').1
          rcases h3 with ⟨hp, _⟩ | ⟨hp, _⟩
          · rw [hp] at hl; have := Option.some.inj hl; omega
          · rw [hp] at hl; cases hl
      · by_cases e' : j' = t
        · exfalso
          rw [e'] at hy'; rw [selfj y' hy'] at hl'
          obtain ⟨x, hx, hlx⟩ := others j y cid hy e hl
          have hlt := (hI.pend j x cid hx hlx).1
          rcases h3 with ⟨hp, _⟩ | ⟨hp, _⟩
          · rw [hp] at hl'; have := Option.some.inj hl'; omega
          · rw [hp] at hl'; cases hl'
        · obtain ⟨x, hx, hlx⟩ := others j y cid hy e hl
          obtain ⟨x', hx', hlx'⟩ := others j' y' cid hy' e' hl'
          exact hI.uniq j j' x x' cid hx hx' hlx hlx'
  | decide cid0 hpre hpost h1 h3 =>
    have hp0 := hI.pend t th cid0 hget hpre
    have hacc0 : s.sh.accCnt cid0 = 0 := (hI.acc cid0).2 (by rw [hp0.2]; intro x; cases x)
    have hres : ∀ id, id ≠ cid0 → sh'.result id = s.sh.result id ∧ sh'.accCnt id = s.sh.accCnt id := by
      intro id hne
      rcases h3 with ⟨r, _, e, e2⟩ | ⟨e, e2⟩
      · rw [e, e2, setF_other _ _ _ _ hne]; exact ⟨rfl, rfl⟩
      · rw [e, e2, setF_other _ _ _ _ hne, bump_other _ _ _ hne]; exact ⟨rfl, rfl⟩
    have hself : (sh'.result cid0 = .accepted → sh'.accCnt cid0 = 1) ∧ (sh'.result cid0 ≠ .accepted → sh'.accCnt cid0 = 0) := by
      rcases h3 with ⟨r, hr, e, e2⟩ | ⟨e, e2⟩
      · rw [e, e2, setF_same]
        exact ⟨fun x => absurd x hr, fun _ => hacc0⟩
      · rw [e, e2, setF_same, bump_same, hacc0]
        exact ⟨fun _ => rfl, fun x => absurd rfl x⟩
    refine ⟨?_, ?_, ?_, ?_⟩
    · intro id hid
      show sh'.accCnt id = 0 ∧ sh'.result id = .pending
      have hid' : s.sh.nextId ≤ id := by rw [← h1]; exact hid
      have hne : id ≠ cid0 := by have := hp0.1; omega
      rw [(hres id hne).1, (hres id hne).2]; exact hI.fresh id hid'
    · intro id; show (sh'.result id = .accepted → sh'.accCnt id = 1) ∧ (sh'.result id ≠ .accepted → sh'.accCnt id = 0)
      by_cases e : id = cid0
      · rw [e]; exact hself
      · rw [(hres id e).1, (hres id e).2]; exact hI.acc id
    · intro j y cid hy hl
      show cid < sh'.nextId ∧ sh'.result cid = .pending
      rw [h1]
      by_cases e : j = t
      · rw [e] at hy; rw [selfj y hy, hpost] at hl; cases hl
      · obtain ⟨x, hx, hlx⟩ := others j y cid hy e hl
        have hne : cid ≠ cid0 := by
          intro ec; rw [ec] at hlx
          exact e (hI.uniq j t x th cid0 hx hget hlx hpre)
        rw [(hres cid hne).1]; exact hI.pend j x cid hx hlx
    · intro j j' y y' cid hy hy' hl hl'
      have notself : ∀ (i : Nat) (z : Thread), l[i]? = some z → lockCid z = some cid → i ≠ t := by
        intro i z hz hlz e
        rw [e] at hz; rw [selfj z hz, hpost] at hlz; cases hlz
      obtain ⟨x, hx, hlx⟩ := others j y cid hy (notself j y hy hl) hl
      obtain ⟨x', hx', hlx'⟩ := others j' y' cid hy' (notself j' y' hy' hl') hl'
      exact hI.uniq j j' x x' cid hx hx' hlx hlx'

theorem idInv_step (cfg : Cfg) (s : St) (c : Choice) (hI : IdInv s) : IdInv (step cfg s c) := by
  apply step_cases cfg s c IdInv
  · exact hI
  · intro t th b hget _
    exact idInv_of_eff s s.sh t th (wake th b) .none _ hI hget (.same (IdsSame.rfl' _) (Or.inl (lockCid_wake th b)))
      (threadsStep_of_set s.thr t th (wake th b) hget) (fun nt e => by cases e)
  · intro t th to late hget hw _
    have hth : th = .worker (.woken to) := by
      cases th with
      | worker w => cases w <;> simp [wokenBy] at hw; rw [hw]
      | main pc r => simp [wokenBy] at hw
      | sub x => simp [wokenBy] at hw
    refine idInv_of_eff s _ t th _ .none _ hI hget (.same (reacq_ids cfg s.sh t late) (Or.inr ?_))
      (threadsStep_of_set s.thr t th (.worker (reacq cfg s.sh t late).2) hget) (fun nt e => by cases e)
    unfold reacq afterWait; (repeat' split) <;> rfl
  · intro t th alt l hget _ _ _ _ hp
    exact idInv_of_eff s _ t th _ _ l hI hget (trans_idEff cfg s.sh s.thr.length t th alt)
      (threadsStep_of_run cfg s t th alt l hget hp) (fun nt e => trans_spawn cfg s.sh s.thr.length t th alt nt e)

theorem idInv_run (cfg : Cfg) (sched : List Choice) : IdInv (run cfg sched) :=
  inv_run cfg IdInv (idInv_init cfg) (fun s c h => idInv_step cfg s c h) sched

/-- **the outcome "accepted" and the push count agree** -/
theorem accepted_iff_accCnt (cfg : Cfg) (sched : List Choice) (id : Nat) :
    (run cfg sched).sh.result id = .accepted ↔ (run cfg sched).sh.accCnt id = 1 := by
  have h := (idInv_run cfg sched).acc id
  constructor
  · exact h.1
  · intro h1
    cases hr : (run cfg sched).sh.result id <;> first | rfl | (have := h.2 (by rw [hr]; intro x; cases x); omega)

theorem accCnt_le_one (cfg : Cfg) (sched : List Choice) (id : Nat) : (run cfg sched).sh.accCnt id ≤ 1 := by
  have h := (idInv_run cfg sched).acc id
  cases hr : (run cfg sched).sh.result id <;> first | (have := h.1 hr; omega) | (have := h.2 (by rw [hr]; intro x; cases x); omega)

end Iora.ThreadPool
