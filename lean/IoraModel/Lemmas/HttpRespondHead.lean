import IoraModel.Lemmas.HttpRespond
namespace Iora.HttpRespond
open Iora

theorem splitOn_ne_nil (sep : UInt8) (s : Bytes) : splitOn sep s ≠ [] := by
  induction s with
  | nil => simp [splitOn]
  | cons c cs ih =>
    unfold splitOn
    split
    · simp
    · split <;> simp

theorem splitOn_prefix (sep : UInt8) (pre x : Bytes) (h : ∀ c ∈ pre, (c == sep) = false) :
    ∃ p ps, splitOn sep (pre ++ x) = (pre ++ p) :: ps := by
  induction pre with
  | nil =>
    cases hs : splitOn sep x with
    | nil => exact absurd hs (splitOn_ne_nil _ _)
    | cons p ps => exact ⟨p, ps, by simpa using hs⟩
  | cons c pre ih =>
    obtain ⟨p, ps, e⟩ := ih (fun d hd => h d (List.mem_cons_of_mem _ hd))
    refine ⟨p, ps, ?_⟩
    have hc := h c List.mem_cons_self
    simp [splitOn, hc, e]

theorem dropLastEmpty_cons (q : Bytes) (ps : List Bytes) (hq : q.isEmpty = false) : ∃ ls, dropLastEmpty (q :: ps) = q :: ls := by
  cases ps with
  | nil => exact ⟨[], by simp [dropLastEmpty, hq]⟩
  | cons r rs => exact ⟨dropLastEmpty (r :: rs), by simp [dropLastEmpty]⟩

theorem splitAtSub_prefix (p0 : UInt8) (pt pre x : Bytes) (h : ∀ c ∈ pre, (p0 == c) = false) :
    splitAtSub (p0 :: pt) (pre ++ x) = (splitAtSub (p0 :: pt) x).map (fun ab => (pre ++ ab.1, ab.2)) := by
  induction pre with
  | nil => cases hs : splitAtSub (p0 :: pt) x <;> simp [hs]
  | cons c pre ih =>
    have hc := h c List.mem_cons_self
    have ih' := ih (fun d hd => h d (List.mem_cons_of_mem _ hd))
    simp only [List.cons_append, splitAtSub, List.isPrefixOf, hc, Bool.false_and, Bool.false_eq_true, if_false, ih']
    cases hs : splitAtSub (p0 :: pt) x <;> simp

/-- the five bytes `HEAD ` -/
def headSp : Bytes := [72, 69, 65, 68, 32]

theorem stripCR_head (p : Bytes) : ∃ p', stripCR (headSp ++ p) = headSp ++ p' := by
  unfold stripCR
  split
  · rename_i hl
    cases p with
    | nil => simp [headSp] at hl
    | cons q qs => exact ⟨(q :: qs).dropLast, by simp [headSp, List.dropLast]⟩
  · exact ⟨p, rfl⟩

theorem splitFirst_head (p : Bytes) : splitFirst 32 (headSp ++ p) = some ([72, 69, 65, 68], p) := by
  simp [headSp, splitFirst]

theorem parseMethod_head : parseMethod [72, 69, 65, 68] = .ok .HEAD := by rfl

theorem parseRequestLine_head (p : Bytes) (m : Method) (t : Bytes) (a b : Nat)
    (h : parseRequestLine (headSp ++ p) = .ok (m, t, a, b)) : m = .HEAD := by
  unfold parseRequestLine at h
  rw [splitFirst_head] at h
  simp only [parseMethod_head] at h
  repeat' (split at h)
  all_goals (first | (cases h; done) | (cases h; rfl))

/-- FC16f, the two readings of the method agree: a request whose raw bytes start with `HEAD ` (what `isHeadRequest` tests on
    the arms outside the normal path) and that the parser accepts has the parsed method HEAD (what the normal path tests) -/
theorem fromWireFormat_head (data : Bytes) (p : ParsedReq) (hpre : (ascii "HEAD ").isPrefixOf data = true)
    (h : fromWireFormat data = .ok p) : p.method = .HEAD := by
  have ha : ascii "HEAD " = headSp := by decide
  rw [ha, List.isPrefixOf_iff_prefix] at hpre
  obtain ⟨x, rfl⟩ := hpre
  unfold fromWireFormat at h
  have hsp : splitAtSub crlf2 (headSp ++ x) = (splitAtSub crlf2 x).map (fun ab => (headSp ++ ab.1, ab.2)) :=
    splitAtSub_prefix 13 [10, 13, 10] headSp x (by decide)
  rw [hsp] at h
  cases hx : splitAtSub crlf2 x with
  | none => rw [hx] at h; simp at h
  | some ab =>
    obtain ⟨a, body⟩ := ab
    rw [hx] at h
    simp only [Option.map_some] at h
    obtain ⟨q, ps, hso⟩ := splitOn_prefix 10 headSp a (by decide)
    obtain ⟨ls, hdl⟩ := dropLastEmpty_cons (headSp ++ q) ps (by simp [headSp])
    have hlines : getlines 10 (headSp ++ a) = (headSp ++ q) :: ls := by unfold getlines; rw [hso, hdl]
    obtain ⟨q', hcr⟩ := stripCR_head q
    rw [hlines] at h
    simp only [hcr, List.tail_cons] at h
    cases hprl : parseRequestLine (headSp ++ q') with
    | error e => rw [hprl] at h; simp at h
    | ok r =>
      obtain ⟨m, t, maj, mnr⟩ := r
      have hm := parseRequestLine_head q' m t maj mnr hprl
      rw [hprl] at h
      simp only at h
      repeat' (split at h)
      all_goals (first | (cases h; done) | (cases h; exact hm))

end Iora.HttpRespond
