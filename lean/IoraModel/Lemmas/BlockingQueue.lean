import IoraModel.Model.BlockingQueue
/-!
Invariant of the blocking-queue monitor model (class as repaired) over every schedule, and its consequences Q1–Q4.
-/
namespace Iora.BQ
open Iora.Monitor

/-! ## classification of thread states -/

def isHoldingPc : Pc → Bool
  | .sleepNF => true
  | .sleepNE => true
  | .unlockRet _ => true
  | .unlockNotify _ _ => true
  | .closeUnlock => true
  | _ => false

/-- the thread holds `_mutex` -/
def holding (ts : TState Loc) : Bool :=
  match ts.status with
  | .ready => isHoldingPc ts.loc.pc
  | _ => false

/-- a wake-up for condition variable `cv` is "in the pipeline" at this thread: either it is a notifier that has made the
condition true and has not yet called `notify_one(cv)`, or it is a waiter of `cv` that has been woken and has not yet
re-evaluated its predicate -/
def creditOn (cv : CvId) (ts : TState Loc) : Bool :=
  match ts.status with
  | .woken _ _ _ => (cv == NE && ts.loc.pc == .sleepNE) || (cv == NF && ts.loc.pc == .sleepNF)
  | .ready =>
    match ts.loc.pc with
    | .unlockNotify c _ => c == cv
    | .notify c _ => c == cv
    | _ => false
  | .asleep _ _ _ => false

/-- the thread is inside `close()` and has not yet executed `notify_all` on `cv` -/
def closerFor (cv : CvId) (ts : TState Loc) : Bool :=
  match ts.status with
  | .ready => ts.loc.pc == .closeUnlock || ts.loc.pc == .closeNotifyNE || (cv == NF && ts.loc.pc == .closeNotifyNF)
  | _ => false

/-- status, program counter and current call fit together -/
def wfT (ts : TState Loc) : Prop :=
  (match ts.status with
   | .ready => True
   | .asleep cv m _ => m = M ∧ ((cv = NE ∧ ts.loc.pc = .sleepNE) ∨ (cv = NF ∧ ts.loc.pc = .sleepNF))
   | .woken m _ _ => m = M ∧ (ts.loc.pc = .sleepNE ∨ ts.loc.pc = .sleepNF)) ∧
  (ts.loc.pc = .sleepNE → ∃ rest, ts.loc.todo = .dequeue :: rest ∨ ts.loc.todo = .dequeueFor :: rest) ∧
  (ts.loc.pc = .sleepNF → ∃ v rest, ts.loc.todo = .queue v :: rest ∨ ts.loc.todo = .tryQueueFor v :: rest) ∧
  (∀ cv r, ts.loc.pc = .unlockNotify cv r ∨ ts.loc.pc = .notify cv r → cv = NE ∨ cv = NF) ∧
  (ts.loc.pc = .enter → ts.loc.todo ≠ [])

/-- what must hold of thread `t` given the shared data and the owner of `_mutex` -/
structure LocalOk (d : Data) (o : Option Tid) (t : Tid) (ts : TState Loc) : Prop where
  wf : wfT ts
  own : holding ts = true → o = some t
  aboutNE : ts.status = .ready → ts.loc.pc = .sleepNE → d.q = [] ∧ d.closed = false
  aboutNF : ts.status = .ready → ts.loc.pc = .sleepNF → d.cap ≤ d.q.length ∧ d.closed = false

def someAsleep (s : State Data Loc) (cv : CvId) : Prop := ∃ t, t < s.n ∧ isAsleepOn cv (s.thr t) = true

/-- the invariant, with slack `kE`/`kF` in the two wake-up accounts (the invariant proper is `InvK 0 0`; the slack is
only used between the two halves of a `notify_one` that wakes a sleeper) -/
structure InvK (kE kF : Nat) (s : State Data Loc) : Prop where
  loc : ∀ t, t < s.n → LocalOk s.data (s.owner M) t (s.thr t)
  own2 : ∀ t, s.owner M = some t → t < s.n ∧ holding (s.thr t) = true
  bound : s.data.q.length ≤ s.data.cap
  cons : s.data.puts.map (·.2) = s.data.takes.map (·.2) ++ s.data.q
  /-- while somebody sleeps on `_condNotEmpty` and the queue is open, every queued item is matched by a wake-up in the pipeline -/
  credNE : someAsleep s NE → s.data.closed = false → s.data.q.length + kE ≤ cnt (creditOn NE) s.thr s.n
  /-- while somebody sleeps on `_condNotFull` and the queue is open, every free slot is matched by a wake-up in the pipeline -/
  credNF : someAsleep s NF → s.data.closed = false → s.data.cap + kF ≤ s.data.q.length + cnt (creditOn NF) s.thr s.n
  /-- once closed, sleepers exist only until the closer's `notify_all` -/
  closeNE : s.data.closed = true → someAsleep s NE → ∃ u, u < s.n ∧ closerFor NE (s.thr u) = true
  closeNF : s.data.closed = true → someAsleep s NF → ∃ u, u < s.n ∧ closerFor NF (s.thr u) = true

abbrev Inv (s : State Data Loc) : Prop := InvK 0 0 s

/-! ## basic facts -/

@[simp] theorem updT_same {α : Type} (f : Nat → α) (k : Nat) (x : α) : updT f k x k = x := by simp [updT]
theorem updT_other {α : Type} (f : Nat → α) (k : Nat) (x : α) (i : Nat) (h : i ≠ k) : updT f k x i = f i := by simp [updT, h]

theorem begin_fixed_data (l : Loc) (d : Data) (todo : List Call) : (begin true l d todo).2 = d := by
  cases todo with
  | nil => rfl
  | cons c rest => cases c <;> rfl

theorem begin_fixed_pc (l : Loc) (d : Data) (todo : List Call) :
    ((begin true l d todo).1.pc = .enter ∧ (begin true l d todo).1.todo ≠ []) ∨ (begin true l d todo).1.pc = .finished := by
  cases todo with
  | nil => right; rfl
  | cons c rest => cases c <;> (left; exact ⟨rfl, by simp [begin]⟩)

theorem ret_fixed_data (l : Loc) (d : Data) (r : Ret) : (ret true l d r).2 = d := begin_fixed_data _ _ _
theorem ret_fixed_pc (l : Loc) (d : Data) (r : Ret) :
    ((ret true l d r).1.pc = .enter ∧ (ret true l d r).1.todo ≠ []) ∨ (ret true l d r).1.pc = .finished :=
  begin_fixed_pc _ _ _

/-- a fresh thread state whose pc is `enter`/`finished` is harmless -/
theorem localOk_idle (d : Data) (o : Option Tid) (t : Tid) (l : Loc) (h : (l.pc = .enter ∧ l.todo ≠ []) ∨ l.pc = .finished) :
    LocalOk d o t { status := .ready, loc := l } := by
  rcases h with ⟨h, h2⟩ | h
  · exact ⟨⟨trivial, by simp [h], by simp [h], by simp [h], fun _ => h2⟩, by simp [holding, isHoldingPc, h], by simp [h], by simp [h]⟩
  · exact ⟨⟨trivial, by simp [h], by simp [h], by simp [h], by simp [h]⟩, by simp [holding, isHoldingPc, h], by simp [h], by simp [h]⟩

theorem credit_idle (cv : CvId) (l : Loc) (h : (l.pc = .enter ∧ l.todo ≠ []) ∨ l.pc = .finished) :
    creditOn cv { status := .ready, loc := l } = false := by
  rcases h with ⟨h, _⟩ | h <;> simp [creditOn, h]

theorem closer_idle (cv : CvId) (l : Loc) (h : (l.pc = .enter ∧ l.todo ≠ []) ∨ l.pc = .finished) :
    closerFor cv { status := .ready, loc := l } = false := by
  rcases h with ⟨h, _⟩ | h <;> simp [closerFor, h]

theorem asleep_ready (cv : CvId) (l : Loc) : isAsleepOn cv ({ status := .ready, loc := l } : TState Loc) = false := rfl

theorem asleep_status {cv : CvId} {ts : TState Loc} (h : isAsleepOn cv ts = true) :
    ∃ m timed, ts.status = .asleep cv m timed := by
  unfold isAsleepOn at h
  split at h
  · rename_i c m timed hs
    have : c = cv := by simpa using h
    subst this; exact ⟨m, timed, hs⟩
  · cases h

/-- other threads stay fine when the mutex changes hands to/from `t`, or when nothing they can see changes -/
theorem others_ok {d d' : Data} {o o' : Option Tid} {t u : Tid} {ts : TState Loc} (hu : u ≠ t)
    (h : LocalOk d o u ts) (hcase : (o' = o ∧ d' = d) ∨ o = none ∨ o = some t) : LocalOk d' o' u ts := by
  rcases hcase with ⟨rfl, rfl⟩ | ho | ho
  · exact h
  · have nh : holding ts = false := by
      cases hh : holding ts with
      | false => rfl
      | true => have := h.own hh; rw [ho] at this; cases this
    refine ⟨h.wf, by simp [nh], ?_, ?_⟩
    · intro h1 h2; simp [holding, h1, h2, isHoldingPc] at nh
    · intro h1 h2; simp [holding, h1, h2, isHoldingPc] at nh
  · have nh : holding ts = false := by
      cases hh : holding ts with
      | false => rfl
      | true => have := h.own hh; rw [ho] at this; cases this; exact absurd rfl hu
    refine ⟨h.wf, by simp [nh], ?_, ?_⟩
    · intro h1 h2; simp [holding, h1, h2, isHoldingPc] at nh
    · intro h1 h2; simp [holding, h1, h2, isHoldingPc] at nh

/-- a thread that is woken (asleep → woken) stays fine, whatever the data and owner -/
theorem localOk_woken {d d' : Data} {o o' : Option Tid} {u : Tid} {ts : TState Loc} {cv : CvId} {m : MutexId} {timed to : Bool}
    (h : LocalOk d o u ts) (hs : ts.status = .asleep cv m timed) :
    LocalOk d' o' u { ts with status := .woken m timed to } := by
  obtain ⟨⟨w1, w2, w3, w4, w5⟩, _, _, _⟩ := h
  rw [hs] at w1
  refine ⟨⟨?_, w2, w3, w4, w5⟩, by simp [holding], (by intro h1; cases h1), (by intro h1; cases h1)⟩
  show m = M ∧ _
  rcases w1 with ⟨hm, ⟨_, hp⟩ | ⟨_, hp⟩⟩
  · exact ⟨hm, Or.inl hp⟩
  · exact ⟨hm, Or.inr hp⟩

theorem ite01 (b : Bool) : (if b = true then 1 else 0 : Nat) ≤ 1 := by split <;> omega

/-- one thread `t` moves to a non-sleeping state `x`; data and owner may change -/
theorem inv_single {kE kF : Nat} (s : State Data Loc) (h : InvK kE kF s) (t : Tid) (ht : t < s.n) (x : TState Loc) (d' : Data)
    (own' : MutexId → Option Tid)
    (hx : LocalOk d' (own' M) t x)
    (hcase : (own' M = s.owner M ∧ d' = s.data) ∨ s.owner M = none ∨ s.owner M = some t)
    (hown2 : ∀ u, own' M = some u → (u = t ∧ holding x = true) ∨ (u ≠ t ∧ s.owner M = some u))
    (hb : d'.q.length ≤ d'.cap)
    (hc : d'.puts.map (·.2) = d'.takes.map (·.2) ++ d'.q)
    (hxa : ∀ cv, isAsleepOn cv x = false)
    (hmono : s.data.closed = true → d'.closed = true)
    (hNE : someAsleep s NE → d'.closed = false → d'.q.length = 0 ∨ d'.q.length + (if creditOn NE (s.thr t) = true then 1 else 0)
              ≤ s.data.q.length + (if creditOn NE x = true then 1 else 0) + kE)
    (hNF : someAsleep s NF → d'.closed = false → d'.cap = s.data.cap ∧ (d'.cap ≤ d'.q.length ∨
              s.data.q.length + (if creditOn NF (s.thr t) = true then 1 else 0)
              ≤ d'.q.length + (if creditOn NF x = true then 1 else 0) + kF))
    (hclNE : d'.closed = true → someAsleep s NE →
              (s.data.closed = true ∧ (closerFor NE (s.thr t) = true → closerFor NE x = true)) ∨ closerFor NE x = true)
    (hclNF : d'.closed = true → someAsleep s NF →
              (s.data.closed = true ∧ (closerFor NF (s.thr t) = true → closerFor NF x = true)) ∨ closerFor NF x = true) :
    Inv { s with data := d', owner := own', thr := updT s.thr t x } := by
  have hsl : ∀ cv, someAsleep { s with data := d', owner := own', thr := updT s.thr t x } cv → someAsleep s cv := by
    rintro cv ⟨u, hu, hs⟩
    by_cases e : u = t
    · subst e; simp only [updT_same] at hs; rw [hxa cv] at hs; cases hs
    · exact ⟨u, hu, by simpa [updT_other _ _ _ _ e] using hs⟩
  have hcl : ∀ cv, (d'.closed = true → someAsleep s cv →
              (s.data.closed = true ∧ (closerFor cv (s.thr t) = true → closerFor cv x = true)) ∨ closerFor cv x = true) →
      (s.data.closed = true → someAsleep s cv → ∃ u, u < s.n ∧ closerFor cv (s.thr u) = true) →
      d'.closed = true → someAsleep s cv → ∃ u, u < s.n ∧ closerFor cv (updT s.thr t x u) = true := by
    intro cv h1 h2 hcd hsa
    rcases h1 hcd hsa with ⟨hc0, himp⟩ | hnew
    · obtain ⟨u, hu, hcu⟩ := h2 hc0 hsa
      by_cases e : u = t
      · subst e; exact ⟨u, hu, by simpa using himp hcu⟩
      · exact ⟨u, hu, by simpa [updT_other _ _ _ _ e] using hcu⟩
    · exact ⟨t, ht, by simpa using hnew⟩
  refine ⟨?_, ?_, hb, hc, ?_, ?_, ?_, ?_⟩
  · intro u hu
    by_cases e : u = t
    · subst e; simpa using hx
    · simp only [updT_other _ _ _ _ e]
      exact others_ok e (h.loc u hu) hcase
  · intro u hu
    rcases hown2 u hu with ⟨rfl, hh⟩ | ⟨hne, ho⟩
    · exact ⟨ht, by simpa using hh⟩
    · have := h.own2 u ho
      exact ⟨this.1, by simpa [updT_other _ _ _ _ hne] using this.2⟩
  · intro hs hcf
    have hcf : d'.closed = false := hcf
    have hc0 : s.data.closed = false := by
      cases hh : s.data.closed with
      | false => rfl
      | true => rw [hmono hh] at hcf; cases hcf
    have hs0 := hsl NE hs
    have h1 := h.credNE hs0 hc0
    have h2 := hNE hs0 hcf
    have h3 := cnt_upd (creditOn NE) s.thr s.n t x ht
    show d'.q.length + 0 ≤ cnt (creditOn NE) (updT s.thr t x) s.n
    omega
  · intro hs hcf
    have hcf : d'.closed = false := hcf
    have hc0 : s.data.closed = false := by
      cases hh : s.data.closed with
      | false => rfl
      | true => rw [hmono hh] at hcf; cases hcf
    have hs0 := hsl NF hs
    have h1 := h.credNF hs0 hc0
    obtain ⟨h2, h2'⟩ := hNF hs0 hcf
    have h3 := cnt_upd (creditOn NF) s.thr s.n t x ht
    show d'.cap + 0 ≤ d'.q.length + cnt (creditOn NF) (updT s.thr t x) s.n
    omega
  · intro hcd hs
    exact hcl NE hclNE h.closeNE hcd (hsl NE hs)
  · intro hcd hs
    exact hcl NF hclNF h.closeNF hcd (hsl NF hs)

/-! ## the code that runs when the mutex has just been acquired (method entry, or return from a wait) -/

def consOk (d : Data) : Prop := d.puts.map (·.2) = d.takes.map (·.2) ++ d.q

/-- summary of one critical-section prefix: thread `t` (old credit `cE`/`cF`) ends in local state `l'` with data `d'` -/
structure AcqOk (d : Data) (cE cF : Bool) (t : Tid) (l' : Loc) (d' : Data) : Prop where
  lok : LocalOk d' (some t) t { status := .ready, loc := l' }
  hold : holding { status := .ready, loc := l' } = true
  hb : d.q.length ≤ d.cap → d'.q.length ≤ d'.cap
  hc : consOk d → consOk d'
  cap : d'.cap = d.cap
  mono : d.closed = true → d'.closed = true
  ne : d'.closed = false → d'.q.length = 0 ∨
        d'.q.length + (if cE = true then 1 else 0) ≤ d.q.length + (if creditOn NE { status := .ready, loc := l' } = true then 1 else 0)
  nf : d'.closed = false → d'.cap ≤ d'.q.length ∨
        d.q.length + (if cF = true then 1 else 0) ≤ d'.q.length + (if creditOn NF { status := .ready, loc := l' } = true then 1 else 0)
  clo : d'.closed = true → d.closed = true ∨ (closerFor NE { status := .ready, loc := l' } = true ∧ closerFor NF { status := .ready, loc := l' } = true)

theorem putBody_ok (l : Loc) (d : Data) (v : Val) (t : Tid) (cF : Bool) (hroom : d.closed = true ∨ d.q.length < d.cap) :
    AcqOk d false cF t (putBody l d v).1 (putBody l d v).2 := by
  unfold putBody
  by_cases hc : d.closed = true
  · simp only [hc, if_true]
    exact ⟨⟨⟨trivial, by simp, by simp, by simp, by simp⟩, by simp, by simp, by simp⟩, by simp [holding, isHoldingPc],
      id, id, rfl, id, by simp [hc], by simp [hc], fun _ => Or.inl hc⟩
  · have hcf : d.closed = false := by simpa using hc
    have hlt : d.q.length < d.cap := by rcases hroom with h | h; exact absurd h hc; exact h
    simp only [hcf, Bool.false_eq_true, if_false]
    refine ⟨⟨⟨trivial, by simp, by simp, ?_, by simp⟩, by simp, by simp, by simp⟩, by simp [holding, isHoldingPc],
      ?_, ?_, rfl, by simp [hcf], ?_, ?_, by simp [hcf]⟩
    · intro cv r h; simp at h; left; exact h.1.symm
    · intro _; simp; omega
    · intro h; simp only [consOk] at *; simp [h]
    · intro _; right; simp [creditOn]
    · intro _; right; have := ite01 cF; simp [creditOn, NE, NF]; omega

theorem takeBody_ok (l : Loc) (d : Data) (t : Tid) (cE : Bool) :
    AcqOk d cE false t (takeBody l d).1 (takeBody l d).2 := by
  unfold takeBody
  cases hq : d.q with
  | nil =>
    simp only
    exact ⟨⟨⟨trivial, by simp, by simp, by simp, by simp⟩, by simp, by simp, by simp⟩, by simp [holding, isHoldingPc],
      id, id, rfl, id, fun _ => Or.inl (by simp [hq]), fun _ => Or.inr (by simp), fun h => Or.inl h⟩
  | cons x xs =>
    simp only
    refine ⟨⟨⟨trivial, by simp, by simp, ?_, by simp⟩, by simp, by simp, by simp⟩, by simp [holding, isHoldingPc],
      ?_, ?_, rfl, id, ?_, ?_, fun h => Or.inl h⟩
    · intro cv r h; simp at h; right; exact h.1.symm
    · intro h; rw [hq] at h; simp at h ⊢; omega
    · intro h; simp only [consOk] at *; rw [hq] at h; simp [h]
    · intro _; right; have := ite01 cE; simp [hq]; omega
    · intro _; right; simp [creditOn, hq]

theorem acqOk_same (d : Data) (cE cF : Bool) (t : Tid) (l' : Loc)
    (hl : LocalOk d (some t) t { status := .ready, loc := l' }) (hh : holding { status := .ready, loc := l' } = true)
    (hE : cE = true → d.q.length = 0) (hF : cF = true → d.cap ≤ d.q.length) : AcqOk d cE cF t l' d := by
  refine ⟨hl, hh, id, id, rfl, id, ?_, ?_, fun h => Or.inl h⟩
  · intro _
    cases cE with
    | true => left; exact hE rfl
    | false => right; simp
  · intro _
    cases cF with
    | true => left; exact hF rfl
    | false => right; simp

theorem predNF_false {d : Data} (h : predNF d = false) : d.cap ≤ d.q.length ∧ d.closed = false := by
  simp only [predNF, Bool.or_eq_false_iff, decide_eq_false_iff_not] at h
  exact ⟨by omega, h.2⟩

theorem predNF_true {d : Data} (h : predNF d = true) : d.closed = true ∨ d.q.length < d.cap := by
  simp only [predNF, Bool.or_eq_true, decide_eq_true_eq] at h
  rcases h with h | h
  · exact Or.inr h
  · exact Or.inl h

theorem predNE_false {d : Data} (h : predNE d = false) : d.q = [] ∧ d.closed = false := by
  simp only [predNE, Bool.or_eq_false_iff] at h
  refine ⟨?_, h.2⟩
  have := h.1
  cases hq : d.q with
  | nil => rfl
  | cons x xs => rw [hq] at this; simp at this

/-- method entry: the code from `lock` to the next pthread call -/
theorem entered_ok (l : Loc) (d : Data) (t : Tid) (hne : l.todo ≠ []) :
    AcqOk d false false t (entered l d).1 (entered l d).2 := by
  unfold entered
  cases htodo : l.todo with
  | nil => exact absurd htodo hne
  | cons c rest =>
    cases c with
    | queue v =>
      simp only
      cases hp : predNF d with
      | true => simp only [if_true]; exact putBody_ok l d v t false (predNF_true hp)
      | false =>
        simp only [Bool.false_eq_true, if_false]
        have := predNF_false hp
        exact acqOk_same d false false t _ ⟨⟨trivial, by simp, by simp [htodo], by simp, by simp⟩, by simp, by simp, by simpa using this⟩
          (by simp [holding, isHoldingPc]) (by simp) (by simp)
    | tryQueueFor v =>
      simp only
      cases hp : predNF d with
      | true => simp only [if_true]; exact putBody_ok l d v t false (predNF_true hp)
      | false =>
        simp only [Bool.false_eq_true, if_false]
        have := predNF_false hp
        exact acqOk_same d false false t _ ⟨⟨trivial, by simp, by simp [htodo], by simp, by simp⟩, by simp, by simp, by simpa using this⟩
          (by simp [holding, isHoldingPc]) (by simp) (by simp)
    | tryQueue v =>
      simp only
      by_cases hc : (d.closed || decide (d.q.length ≥ d.cap)) = true
      · simp only [hc, if_true]
        exact acqOk_same d false false t _ ⟨⟨trivial, by simp, by simp, by simp, by simp⟩, by simp, by simp, by simp⟩
          (by simp [holding, isHoldingPc]) (by simp) (by simp)
      · simp only [hc, if_false]
        simp only [Bool.or_eq_true, decide_eq_true_eq, not_or] at hc
        have hcf : d.closed = false := by simpa using hc.1
        have hlt : d.q.length < d.cap := by omega
        have := putBody_ok l d v t false (Or.inr hlt)
        simpa [putBody, hcf, htodo] using this
    | dequeue =>
      simp only
      cases hp : predNE d with
      | true => simp only [if_true]; exact takeBody_ok l d t false
      | false =>
        simp only [Bool.false_eq_true, if_false]
        have := predNE_false hp
        exact acqOk_same d false false t _ ⟨⟨trivial, by simp [htodo], by simp, by simp, by simp⟩, by simp, by simpa using this, by simp⟩
          (by simp [holding, isHoldingPc]) (by simp) (by simp)
    | dequeueFor =>
      simp only
      cases hp : predNE d with
      | true => simp only [if_true]; exact takeBody_ok l d t false
      | false =>
        simp only [Bool.false_eq_true, if_false]
        have := predNE_false hp
        exact acqOk_same d false false t _ ⟨⟨trivial, by simp [htodo], by simp, by simp, by simp⟩, by simp, by simpa using this, by simp⟩
          (by simp [holding, isHoldingPc]) (by simp) (by simp)
    | tryDequeue => exact takeBody_ok l d t false
    | close =>
      simp only
      by_cases hc : d.closed = true
      · simp only [hc, if_true]
        exact acqOk_same d false false t _ ⟨⟨trivial, by simp, by simp, by simp, by simp⟩, by simp, by simp, by simp⟩
          (by simp [holding, isHoldingPc]) (by simp) (by simp)
      · simp only [hc, if_false]
        exact ⟨⟨⟨trivial, by simp, by simp, by simp, by simp⟩, by simp, by simp, by simp⟩, by simp [holding, isHoldingPc],
          id, id, rfl, fun _ => rfl, by simp, by simp, fun _ => Or.inr ⟨by simp [closerFor], by simp [closerFor]⟩⟩
    | size =>
      exact acqOk_same d false false t _ ⟨⟨trivial, by simp, by simp, by simp, by simp⟩, by simp, by simp, by simp⟩
        (by simp [holding, isHoldingPc]) (by simp) (by simp)
    | empty =>
      exact acqOk_same d false false t _ ⟨⟨trivial, by simp, by simp, by simp, by simp⟩, by simp, by simp, by simp⟩
        (by simp [holding, isHoldingPc]) (by simp) (by simp)
    | full =>
      exact acqOk_same d false false t _ ⟨⟨trivial, by simp, by simp, by simp, by simp⟩, by simp, by simp, by simp⟩
        (by simp [holding, isHoldingPc]) (by simp) (by simp)

/-- return from a wait on `_condNotEmpty` -/
theorem rewokenNE_ok (l : Loc) (d : Data) (t : Tid) (late : Bool) (hpc : l.pc = .sleepNE)
    (htodo : ∃ rest, l.todo = .dequeue :: rest ∨ l.todo = .dequeueFor :: rest) :
    AcqOk d true false t (rewoken l d late).1 (rewoken l d late).2 := by
  obtain ⟨rest, ht | ht⟩ := htodo
  · unfold rewoken; rw [ht]; simp only
    cases hp : predNE d with
    | true => simp only [if_true]; exact takeBody_ok l d t true
    | false =>
      simp only [Bool.false_eq_true, if_false]
      have := predNE_false hp
      exact acqOk_same d true false t _ ⟨⟨trivial, by simp [ht], by simp [hpc], by simp [hpc], by simp [hpc]⟩,
        by simp, by intro _ _; exact this, by simp [hpc]⟩ (by simp [holding, isHoldingPc, hpc]) (by simp [this.1]) (by simp)
  · unfold rewoken; rw [ht]; simp only
    cases hp : predNE d with
    | true => simp only [if_true]; exact takeBody_ok l d t true
    | false =>
      simp only [Bool.false_eq_true, if_false]
      have := predNE_false hp
      cases late with
      | true =>
        simp only [if_true]
        exact acqOk_same d true false t _ ⟨⟨trivial, by simp, by simp, by simp, by simp⟩, by simp, by simp, by simp⟩
          (by simp [holding, isHoldingPc]) (by simp [this.1]) (by simp)
      | false =>
        simp only [Bool.false_eq_true, if_false]
        exact acqOk_same d true false t _ ⟨⟨trivial, by simp [ht], by simp [hpc], by simp [hpc], by simp [hpc]⟩,
          by simp, by intro _ _; exact this, by simp [hpc]⟩ (by simp [holding, isHoldingPc, hpc]) (by simp [this.1]) (by simp)

/-- return from a wait on `_condNotFull` -/
theorem rewokenNF_ok (l : Loc) (d : Data) (t : Tid) (late : Bool) (hpc : l.pc = .sleepNF)
    (htodo : ∃ v rest, l.todo = .queue v :: rest ∨ l.todo = .tryQueueFor v :: rest) :
    AcqOk d false true t (rewoken l d late).1 (rewoken l d late).2 := by
  obtain ⟨v, rest, ht | ht⟩ := htodo
  · unfold rewoken; rw [ht]; simp only
    cases hp : predNF d with
    | true => simp only [if_true]; exact putBody_ok l d v t true (predNF_true hp)
    | false =>
      simp only [Bool.false_eq_true, if_false]
      have := predNF_false hp
      exact acqOk_same d false true t _ ⟨⟨trivial, by simp [hpc], by simp [ht], by simp [hpc], by simp [hpc]⟩,
        by simp, by simp [hpc], by intro _ _; exact this⟩ (by simp [holding, isHoldingPc, hpc]) (by simp) (by simp [this.1])
  · unfold rewoken; rw [ht]; simp only
    cases hp : predNF d with
    | true => simp only [if_true]; exact putBody_ok l d v t true (predNF_true hp)
    | false =>
      simp only [Bool.false_eq_true, if_false]
      have := predNF_false hp
      cases late with
      | true =>
        simp only [if_true]
        exact acqOk_same d false true t _ ⟨⟨trivial, by simp, by simp, by simp, by simp⟩, by simp, by simp, by simp⟩
          (by simp [holding, isHoldingPc]) (by simp) (by simp [this.1])
      | false =>
        simp only [Bool.false_eq_true, if_false]
        exact acqOk_same d false true t _ ⟨⟨trivial, by simp [hpc], by simp [ht], by simp [hpc], by simp [hpc]⟩,
          by simp, by simp [hpc], by intro _ _; exact this⟩ (by simp [holding, isHoldingPc, hpc]) (by simp) (by simp [this.1])

/-! ## the transitions -/

theorem invK_weaken {kE kF : Nat} {s : State Data Loc} (h : InvK kE kF s) : Inv s :=
  ⟨h.loc, h.own2, h.bound, h.cons, fun a b => by have := h.credNE a b; omega, fun a b => by have := h.credNF a b; omega,
   h.closeNE, h.closeNF⟩

theorem asleep_not_holding {ts : TState Loc} {cv : CvId} {m : MutexId} {timed : Bool} (h : ts.status = .asleep cv m timed) :
    holding ts = false := by simp [holding, h]

theorem asleep_wf {ts : TState Loc} {cv : CvId} {m : MutexId} {timed : Bool} (hw : wfT ts) (h : ts.status = .asleep cv m timed) :
    m = M ∧ ((cv = NE ∧ ts.loc.pc = .sleepNE) ∨ (cv = NF ∧ ts.loc.pc = .sleepNF)) := by
  have := hw.1; rw [h] at this; exact this

/-- a sleeper is woken (time-out, spurious, or the first half of a `notify_one`): one more wake-up in the pipeline of its
condition variable -/
theorem inv_wake (s : State Data Loc) (h : Inv s) (t : Tid) (ht : t < s.n) (cv : CvId) (m : MutexId) (timed to : Bool)
    (hs : (s.thr t).status = .asleep cv m timed) :
    InvK (if cv = NE then 1 else 0) (if cv = NF then 1 else 0)
      { s with thr := updT s.thr t { (s.thr t) with status := .woken m timed to } } := by
  obtain ⟨hm, hcv⟩ := asleep_wf (h.loc t ht).wf hs
  have hsl : ∀ c, someAsleep { s with thr := updT s.thr t { (s.thr t) with status := .woken m timed to } } c → someAsleep s c := by
    rintro c ⟨u, hu, hsu⟩
    by_cases e : u = t
    · subst e; simp [isAsleepOn] at hsu
    · exact ⟨u, hu, by simpa [updT_other _ _ _ _ e] using hsu⟩
  have hcredit : ∀ c, creditOn c (s.thr t) = false := by intro c; simp [creditOn, hs]
  have hnew : ∀ c, creditOn c { (s.thr t) with status := .woken m timed to } = decide (c = cv) := by
    intro c
    rcases hcv with ⟨rfl, hp⟩ | ⟨rfl, hp⟩
    · by_cases e : c = NE
      · subst e; simp [creditOn, hp]
      · simp [creditOn, hp, e]
    · by_cases e : c = NF
      · subst e; simp [creditOn, hp]
      · simp [creditOn, hp, e]
  have hclo : ∀ c, (∃ u, u < s.n ∧ closerFor c (s.thr u) = true) →
      ∃ u, u < s.n ∧ closerFor c (updT s.thr t { (s.thr t) with status := .woken m timed to } u) = true := by
    rintro c ⟨u, hu, hc⟩
    have e : u ≠ t := by rintro rfl; simp [closerFor, hs] at hc
    exact ⟨u, hu, by simpa [updT_other _ _ _ _ e] using hc⟩
  refine ⟨?_, ?_, h.bound, h.cons, ?_, ?_, ?_, ?_⟩
  · intro u hu
    by_cases e : u = t
    · subst e; simpa using localOk_woken (h.loc u hu) hs
    · simpa [updT_other _ _ _ _ e] using h.loc u hu
  · intro u hu
    have := h.own2 u hu
    have e : u ≠ t := by rintro rfl; rw [asleep_not_holding hs] at this; cases this.2
    exact ⟨this.1, by simpa [updT_other _ _ _ _ e] using this.2⟩
  · intro hsa hcl
    have h1 := h.credNE (hsl NE hsa) hcl
    have h3 := cnt_upd (creditOn NE) s.thr s.n t { (s.thr t) with status := .woken m timed to } ht
    rw [hcredit NE, hnew NE] at h3
    show s.data.q.length + _ ≤ cnt (creditOn NE) (updT s.thr t _) s.n
    by_cases e : cv = NE
    · subst e; simp at h3 ⊢; omega
    · have e' : ¬ NE = cv := fun c => e c.symm
      simp [e, e'] at h3 ⊢; omega
  · intro hsa hcl
    have h1 := h.credNF (hsl NF hsa) hcl
    have h3 := cnt_upd (creditOn NF) s.thr s.n t { (s.thr t) with status := .woken m timed to } ht
    rw [hcredit NF, hnew NF] at h3
    show s.data.cap + _ ≤ s.data.q.length + cnt (creditOn NF) (updT s.thr t _) s.n
    by_cases e : cv = NF
    · subst e; simp at h3 ⊢; omega
    · have e' : ¬ NF = cv := fun c => e c.symm
      simp [e, e'] at h3 ⊢; omega
  · intro hc hsa; exact hclo NE (h.closeNE hc (hsl NE hsa))
  · intro hc hsa; exact hclo NF (h.closeNF hc (hsl NF hsa))

theorem op_wait {l : Loc} {cv : CvId} {m : MutexId} {timed : Bool} (h : op l = .wait cv m timed) :
    m = M ∧ ((cv = NE ∧ l.pc = .sleepNE) ∨ (cv = NF ∧ l.pc = .sleepNF)) := by
  unfold op at h
  cases hp : l.pc <;> rw [hp] at h <;> simp at h
  · exact ⟨h.2.1.symm, Or.inr ⟨h.1.symm, rfl⟩⟩
  · exact ⟨h.2.1.symm, Or.inl ⟨h.1.symm, rfl⟩⟩

/-- release-and-sleep: the thread evaluated its predicate (false) while holding the mutex and has held it since -/
theorem inv_sleep (s : State Data Loc) (h : Inv s) (t : Tid) (ht : t < s.n) (cv : CvId) (m : MutexId) (timed : Bool)
    (hs : (s.thr t).status = .ready) (hop : op (s.thr t).loc = .wait cv m timed) :
    Inv { s with owner := updT s.owner m none, thr := updT s.thr t { (s.thr t) with status := .asleep cv m timed } } := by
  obtain ⟨hm, hcv⟩ := op_wait hop
  subst hm
  have hl := h.loc t ht
  have hhold : holding (s.thr t) = true := by
    rcases hcv with ⟨_, hp⟩ | ⟨_, hp⟩ <;> simp [holding, hs, hp, isHoldingPc]
  have hown : s.owner M = some t := hl.own hhold
  have hclosed : s.data.closed = false := by
    rcases hcv with ⟨_, hp⟩ | ⟨_, hp⟩
    · exact (hl.aboutNE hs hp).2
    · exact (hl.aboutNF hs hp).2
  have hcredit : ∀ c, creditOn c (s.thr t) = false := by
    intro c; rcases hcv with ⟨_, hp⟩ | ⟨_, hp⟩ <;> simp [creditOn, hs, hp]
  have hnew : ∀ c, creditOn c { (s.thr t) with status := .asleep cv M timed } = false := by intro c; simp [creditOn]
  have hcnt : ∀ c, cnt (creditOn c) (updT s.thr t { (s.thr t) with status := .asleep cv M timed }) s.n = cnt (creditOn c) s.thr s.n := by
    intro c
    have h3 := cnt_upd (creditOn c) s.thr s.n t { (s.thr t) with status := .asleep cv M timed } ht
    rw [hcredit c, hnew c] at h3; simpa using h3
  have hsl : ∀ c, c ≠ cv → someAsleep { s with owner := updT s.owner M none, thr := updT s.thr t { (s.thr t) with status := .asleep cv M timed } } c →
      someAsleep s c := by
    rintro c hc ⟨u, hu, hsu⟩
    by_cases e : u = t
    · subst e; simp [isAsleepOn] at hsu; exact absurd hsu.symm hc
    · exact ⟨u, hu, by simpa [updT_other _ _ _ _ e] using hsu⟩
  refine ⟨?_, ?_, h.bound, h.cons, ?_, ?_, ?_, ?_⟩
  · intro u hu
    by_cases e : u = t
    · subst e
      simp only [updT_same]
      obtain ⟨w1, w2, w3, w4, w5⟩ := hl.wf
      exact ⟨⟨⟨rfl, hcv⟩, w2, w3, w4, w5⟩, by simp [holding], (by intro h1; cases h1), (by intro h1; cases h1)⟩
    · simp only [updT_other _ _ _ _ e]
      exact others_ok e (h.loc u hu) (Or.inr (Or.inr hown))
  · intro u hu
    simp at hu
  · intro hsa hcl
    show s.data.q.length + 0 ≤ cnt (creditOn NE) (updT s.thr t _) s.n
    rw [hcnt NE]
    by_cases e : cv = NE
    · subst e
      rcases hcv with ⟨_, hp⟩ | ⟨hc, _⟩
      · simp [(hl.aboutNE hs hp).1]
      · cases hc
    · have := h.credNE (hsl NE (fun c => e c.symm) hsa) hclosed; omega
  · intro hsa hcl
    show s.data.cap + 0 ≤ s.data.q.length + cnt (creditOn NF) (updT s.thr t _) s.n
    rw [hcnt NF]
    by_cases e : cv = NF
    · subst e
      rcases hcv with ⟨hc, _⟩ | ⟨_, hp⟩
      · cases hc
      · have := (hl.aboutNF hs hp).1; omega
    · have := h.credNF (hsl NF (fun c => e c.symm) hsa) hclosed; omega
  · intro hc; rw [hclosed] at hc; cases hc
  · intro hc; rw [hclosed] at hc; cases hc

theorem wakeAll_not_asleep (cv : CvId) (thr : Tid → TState Loc) (u : Tid) (h : isAsleepOn cv (thr u) = false) :
    wakeAll cv thr u = thr u := by simp [wakeAll, h]

theorem wakeAll_asleep (cv : CvId) (thr : Tid → TState Loc) (u : Tid) (m : MutexId) (timed : Bool)
    (h : (thr u).status = .asleep cv m timed) :
    wakeAll cv thr u = { (thr u) with status := .woken m timed false } := by
  have : isAsleepOn cv (thr u) = true := by simp [isAsleepOn, h]
  simp [wakeAll, this, wakeT, h]

/-- `notify_all(cv)`, first half: every sleeper of `cv` is woken -/
theorem inv_wakeAll (s : State Data Loc) (h : Inv s) (cv : CvId) :
    Inv { s with thr := wakeAll cv s.thr } ∧ ¬ someAsleep { s with thr := wakeAll cv s.thr } cv := by
  have hsame : ∀ u, isAsleepOn cv (s.thr u) = false → wakeAll cv s.thr u = s.thr u := wakeAll_not_asleep cv s.thr
  have key : ∀ u, u < s.n → (wakeAll cv s.thr u = s.thr u ∧ isAsleepOn cv (s.thr u) = false) ∨
      (∃ m timed, (s.thr u).status = .asleep cv m timed ∧ wakeAll cv s.thr u = { (s.thr u) with status := .woken m timed false } ∧
        ((cv = NE ∧ (s.thr u).loc.pc = .sleepNE) ∨ (cv = NF ∧ (s.thr u).loc.pc = .sleepNF))) := by
    intro u hu
    cases ha : isAsleepOn cv (s.thr u) with
    | false => exact Or.inl ⟨hsame u ha, rfl⟩
    | true =>
      obtain ⟨m, timed, hst⟩ := asleep_status ha
      exact Or.inr ⟨m, timed, hst, wakeAll_asleep cv s.thr u m timed hst, (asleep_wf (h.loc u hu).wf hst).2⟩
  have hno : ¬ someAsleep { s with thr := wakeAll cv s.thr } cv := by
    rintro ⟨u, hu, hsu⟩
    rcases key u hu with ⟨e, ha⟩ | ⟨m, timed, _, e, _⟩
    · simp only [e] at hsu; rw [ha] at hsu; cases hsu
    · simp only [e] at hsu; simp [isAsleepOn] at hsu
  have hsl : ∀ c, someAsleep { s with thr := wakeAll cv s.thr } c → someAsleep s c := by
    rintro c ⟨u, hu, hsu⟩
    rcases key u hu with ⟨e, _⟩ | ⟨m, timed, _, e, _⟩
    · exact ⟨u, hu, by simpa [e] using hsu⟩
    · simp only [e] at hsu; simp [isAsleepOn] at hsu
  have hcnt : ∀ c, c ≠ cv → cnt (creditOn c) (wakeAll cv s.thr) s.n = cnt (creditOn c) s.thr s.n := by
    intro c hc
    apply cnt_congr
    intro u hu
    rcases key u hu with ⟨e, _⟩ | ⟨m, timed, hst, e, hp⟩
    · rw [e]
    · rw [e]
      rcases hp with ⟨rfl, hp⟩ | ⟨rfl, hp⟩
      · simp [creditOn, hst, hp, hc]
      · simp [creditOn, hst, hp, hc]
  have hclo : ∀ c, (∃ u, u < s.n ∧ closerFor c (s.thr u) = true) → ∃ u, u < s.n ∧ closerFor c (wakeAll cv s.thr u) = true := by
    rintro c ⟨u, hu, hc⟩
    rcases key u hu with ⟨e, _⟩ | ⟨m, timed, hst, _, _⟩
    · exact ⟨u, hu, by simpa [e] using hc⟩
    · simp [closerFor, hst] at hc
  refine ⟨⟨?_, ?_, h.bound, h.cons, ?_, ?_, ?_, ?_⟩, hno⟩
  · intro u hu
    rcases key u hu with ⟨e, _⟩ | ⟨m, timed, hst, e, _⟩
    · simpa [e] using h.loc u hu
    · simp only [e]; exact localOk_woken (h.loc u hu) hst
  · intro u hu
    have := h.own2 u hu
    rcases key u this.1 with ⟨e, _⟩ | ⟨m, timed, hst, _, _⟩
    · exact ⟨this.1, by simpa [e] using this.2⟩
    · rw [asleep_not_holding hst] at this; cases this.2
  · intro hsa hcl
    by_cases e : cv = NE
    · subst e; exact absurd hsa hno
    · show s.data.q.length + 0 ≤ cnt (creditOn NE) (wakeAll cv s.thr) s.n
      rw [hcnt NE (fun c => e c.symm)]
      exact h.credNE (hsl NE hsa) hcl
  · intro hsa hcl
    by_cases e : cv = NF
    · subst e; exact absurd hsa hno
    · show s.data.cap + 0 ≤ s.data.q.length + cnt (creditOn NF) (wakeAll cv s.thr) s.n
      rw [hcnt NF (fun c => e c.symm)]
      exact h.credNF (hsl NF hsa) hcl
  · intro hc hsa; exact hclo NE (h.closeNE hc (hsl NE hsa))
  · intro hc hsa; exact hclo NF (h.closeNF hc (hsl NF hsa))

/-- thread `t` acquires the free mutex and runs a critical-section prefix summarised by `AcqOk` -/
theorem inv_acquire (s : State Data Loc) (h : Inv s) (t : Tid) (ht : t < s.n) (hfree : s.owner M = none) (l' : Loc) (d' : Data)
    (hA : AcqOk s.data (creditOn NE (s.thr t)) (creditOn NF (s.thr t)) t l' d')
    (hnc : ∀ c, closerFor c (s.thr t) = false) :
    Inv { s with data := d', owner := updT s.owner M (some t), thr := updT s.thr t { status := .ready, loc := l' } } := by
  apply inv_single s h t ht _ d' (updT s.owner M (some t))
  · simpa using hA.lok
  · exact Or.inr (Or.inl hfree)
  · intro u hu
    simp only [updT_same, Option.some.injEq] at hu
    exact Or.inl ⟨hu.symm, hA.hold⟩
  · exact hA.hb h.bound
  · exact hA.hc h.cons
  · intro cv; rfl
  · exact hA.mono
  · intro _ hcf
    rcases hA.ne hcf with h0 | h1
    · exact Or.inl h0
    · exact Or.inr (by omega)
  · intro _ hcf
    refine ⟨hA.cap, ?_⟩
    rcases hA.nf hcf with h0 | h1
    · exact Or.inl h0
    · exact Or.inr (by omega)
  · intro hcd _
    rcases hA.clo hcd with h0 | h1
    · exact Or.inl ⟨h0, by rw [hnc NE]; intro c; cases c⟩
    · exact Or.inr h1.1
  · intro hcd _
    rcases hA.clo hcd with h0 | h1
    · exact Or.inl ⟨h0, by rw [hnc NF]; intro c; cases c⟩
    · exact Or.inr h1.2

theorem op_lock {l : Loc} {m : MutexId} (h : op l = .lock m) : l.pc = .enter ∧ m = M := by
  unfold op at h
  cases hp : l.pc <;> rw [hp] at h <;> simp at h
  exact ⟨rfl, h.symm⟩

theorem op_unlock {l : Loc} {m : MutexId} (h : op l = .unlock m) :
    m = M ∧ ((∃ r, l.pc = .unlockRet r) ∨ (∃ cv r, l.pc = .unlockNotify cv r) ∨ l.pc = .closeUnlock) := by
  unfold op at h
  cases hp : l.pc <;> rw [hp] at h <;> simp at h
  · exact ⟨h.symm, Or.inl ⟨_, rfl⟩⟩
  · exact ⟨h.symm, Or.inr (Or.inl ⟨_, _, rfl⟩)⟩
  · exact ⟨h.symm, Or.inr (Or.inr rfl)⟩

theorem op_notifyOne {l : Loc} {cv : CvId} (h : op l = .notifyOne cv) : ∃ r, l.pc = .notify cv r := by
  unfold op at h
  cases hp : l.pc <;> rw [hp] at h <;> simp at h
  subst h; exact ⟨_, rfl⟩

theorem op_notifyAll {l : Loc} {cv : CvId} (h : op l = .notifyAll cv) :
    (cv = NE ∧ l.pc = .closeNotifyNE) ∨ (cv = NF ∧ l.pc = .closeNotifyNF) := by
  unfold op at h
  cases hp : l.pc <;> rw [hp] at h <;> simp at h
  · exact Or.inl ⟨h.symm, rfl⟩
  · exact Or.inr ⟨h.symm, rfl⟩

theorem op_plain {l : Loc} (h : op l = .start ∨ op l = .yield) : l.pc = .start := by
  unfold op at h
  cases hp : l.pc <;> rw [hp] at h <;> simp at h

theorem woken_wf {ts : TState Loc} {m : MutexId} {timed to : Bool} (hw : wfT ts) (h : ts.status = .woken m timed to) :
    m = M ∧ (ts.loc.pc = .sleepNE ∨ ts.loc.pc = .sleepNF) := by
  have := hw.1; rw [h] at this; exact this

/-- thread `t` (ready, pc not a wait) moves on without touching the data; the mutex is either untouched or released by `t` -/
theorem inv_move {kE kF : Nat} (s : State Data Loc) (h : InvK kE kF s) (t : Tid) (ht : t < s.n) (l' : Loc)
    (own' : MutexId → Option Tid)
    (hs : (s.thr t).status = .ready)
    (hown : (own' M = s.owner M ∧ holding (s.thr t) = false) ∨ (s.owner M = some t ∧ own' M = none))
    (hx : LocalOk s.data (own' M) t { status := .ready, loc := l' })
    (hNE : someAsleep s NE → (if creditOn NE (s.thr t) = true then 1 else 0) ≤ (if creditOn NE { status := .ready, loc := l' } = true then 1 else 0) + kE)
    (hNF : someAsleep s NF → (if creditOn NF (s.thr t) = true then 1 else 0) ≤ (if creditOn NF { status := .ready, loc := l' } = true then 1 else 0) + kF)
    (hclNE : someAsleep s NE → closerFor NE (s.thr t) = true → closerFor NE { status := .ready, loc := l' } = true)
    (hclNF : someAsleep s NF → closerFor NF (s.thr t) = true → closerFor NF { status := .ready, loc := l' } = true) :
    Inv { s with owner := own', thr := updT s.thr t { status := .ready, loc := l' } } := by
  apply inv_single s h t ht _ s.data own' hx
  · rcases hown with ⟨e, _⟩ | ⟨e, _⟩
    · exact Or.inl ⟨e, rfl⟩
    · exact Or.inr (Or.inr e)
  · intro u hu
    rcases hown with ⟨e, hnh⟩ | ⟨_, e⟩
    · rw [e] at hu
      have := h.own2 u hu
      have hne : u ≠ t := by rintro rfl; rw [hnh] at this; cases this.2
      exact Or.inr ⟨hne, hu⟩
    · rw [e] at hu; cases hu
  · exact h.bound
  · exact h.cons
  · intro cv; rfl
  · exact id
  · intro hsa _; right; have := hNE hsa; omega
  · intro hsa _; refine ⟨rfl, Or.inr ?_⟩; have := hNF hsa; omega
  · intro hc hsa; exact Or.inl ⟨hc, hclNE hsa⟩
  · intro hc hsa; exact Or.inl ⟨hc, hclNF hsa⟩

theorem runAfter_eq (s : State Data Loc) (t : Tid) (late : Bool) :
    runAfter (prog true) s t late =
      { s with data := (after true (s.thr t).loc s.data late).2,
               thr := updT s.thr t { status := .ready, loc := (after true (s.thr t).loc s.data late).1 } } := rfl

/-- every transition of the repaired blocking queue preserves the invariant -/
theorem inv_tr (s s' : State Data Loc) (h : Inv s) (tr : Tr (prog true) s s') : Inv s' := by
  cases tr with
  | wake t cv m timed to ht hs => exact invK_weaken (inv_wake s h t ht cv m timed to hs)
  | sleep t cv m timed ht hs hop => exact inv_sleep s h t ht cv m timed hs hop
  | reacquire t m timed to late ht hs hfree =>
    obtain ⟨hm, hpc⟩ := woken_wf (h.loc t ht).wf hs
    subst hm
    rw [runAfter_eq]
    have hnc : ∀ c, closerFor c (s.thr t) = false := by intro c; simp [closerFor, hs]
    rcases hpc with hp | hp
    · have hA := rewokenNE_ok (s.thr t).loc s.data t late hp ((h.loc t ht).wf.2.1 hp)
      have e1 : creditOn NE (s.thr t) = true := by simp [creditOn, hs, hp]
      have e2 : creditOn NF (s.thr t) = false := by simp [creditOn, hs, hp, NE, NF]
      have := inv_acquire s h t ht hfree _ _ (by rw [e1, e2]; exact hA) hnc
      simpa [after, hp] using this
    · have hA := rewokenNF_ok (s.thr t).loc s.data t late hp ((h.loc t ht).wf.2.2.1 hp)
      have e1 : creditOn NE (s.thr t) = false := by simp [creditOn, hs, hp, NE, NF]
      have e2 : creditOn NF (s.thr t) = true := by simp [creditOn, hs, hp]
      have := inv_acquire s h t ht hfree _ _ (by rw [e1, e2]; exact hA) hnc
      simpa [after, hp] using this
  | lock t m ht hs hop hfree =>
    obtain ⟨hp, hm⟩ := op_lock hop
    subst hm
    rw [runAfter_eq]
    have hne := (h.loc t ht).wf.2.2.2.2 hp
    have hA := entered_ok (s.thr t).loc s.data t hne
    have e1 : creditOn NE (s.thr t) = false := by simp [creditOn, hs, hp]
    have e2 : creditOn NF (s.thr t) = false := by simp [creditOn, hs, hp]
    have hnc : ∀ c, closerFor c (s.thr t) = false := by intro c; simp [closerFor, hs, hp]
    have := inv_acquire s h t ht hfree _ _ (by rw [e1, e2]; exact hA) hnc
    simpa [after, hp] using this
  | unlock t m ht hs hop =>
    obtain ⟨hm, hpc⟩ := op_unlock hop
    subst hm
    rw [runAfter_eq]
    have hl := h.loc t ht
    have hhold : holding (s.thr t) = true := by
      rcases hpc with ⟨r, hp⟩ | ⟨cv, r, hp⟩ | hp <;> simp [holding, hs, hp, isHoldingPc]
    have hown : s.owner M = some t := hl.own hhold
    rcases hpc with ⟨r, hp⟩ | ⟨cv, r, hp⟩ | hp
    · have hd : (after true (s.thr t).loc s.data false).2 = s.data := by simp [after, hp, ret_fixed_data]
      have hpc' := ret_fixed_pc (s.thr t).loc s.data r
      have := inv_move s h t ht (ret true (s.thr t).loc s.data r).1 (updT s.owner M none) hs
        (Or.inr ⟨hown, by simp⟩) (localOk_idle _ _ _ _ hpc')
        (by intro _; simp [creditOn, hs, hp]) (by intro _; simp [creditOn, hs, hp])
        (by intro _; simp [closerFor, hs, hp]) (by intro _; simp [closerFor, hs, hp])
      simpa [after, hp, ret_fixed_data] using this
    · have hcv := (hl.wf.2.2.2.1 cv r (Or.inl hp))
      have := inv_move s h t ht { (s.thr t).loc with pc := .notify cv r } (updT s.owner M none) hs
        (Or.inr ⟨hown, by simp⟩)
        ⟨⟨trivial, by simp, by simp, by intro c r' hh; simp at hh; rcases hh with ⟨rfl, _⟩; exact hcv, by simp⟩,
          by simp [holding, isHoldingPc], by simp, by simp⟩
        (by intro _; simp [creditOn, hs, hp]) (by intro _; simp [creditOn, hs, hp])
        (by intro _; simp [closerFor, hs, hp]) (by intro _; simp [closerFor, hs, hp])
      simpa [after, hp] using this
    · have := inv_move s h t ht { (s.thr t).loc with pc := .closeNotifyNE } (updT s.owner M none) hs
        (Or.inr ⟨hown, by simp⟩)
        ⟨⟨trivial, by simp, by simp, by simp, by simp⟩, by simp [holding, isHoldingPc], by simp, by simp⟩
        (by intro _; simp [creditOn, hs, hp]) (by intro _; simp [creditOn, hs, hp])
        (by intro _ _; simp [closerFor]) (by intro _ _; simp [closerFor])
      simpa [after, hp] using this
  | plain t ht hs hop =>
    have hp := op_plain hop
    rw [runAfter_eq]
    have hpc' := begin_fixed_pc (s.thr t).loc s.data (s.thr t).loc.todo
    have := inv_move s h t ht (begin true (s.thr t).loc s.data (s.thr t).loc.todo).1 s.owner hs
      (Or.inl ⟨rfl, by simp [holding, hs, hp, isHoldingPc]⟩) (localOk_idle _ _ _ _ hpc')
      (by intro _; simp [creditOn, hs, hp]) (by intro _; simp [creditOn, hs, hp])
      (by intro _; simp [closerFor, hs, hp]) (by intro _; simp [closerFor, hs, hp])
    simpa [after, hp, begin_fixed_data] using this
  | notifyNone t cv ht hs hop hno =>
    obtain ⟨r, hp⟩ := op_notifyOne hop
    rw [runAfter_eq]
    have hpc' := ret_fixed_pc (s.thr t).loc s.data r
    have hnoS : ¬ someAsleep s cv := by rintro ⟨u, hu, hsu⟩; rw [hno u hu] at hsu; cases hsu
    have := inv_move s h t ht (ret true (s.thr t).loc s.data r).1 s.owner hs
      (Or.inl ⟨rfl, by simp [holding, hs, hp, isHoldingPc]⟩) (localOk_idle _ _ _ _ hpc')
      (by intro hsa
          by_cases e : cv = NE
          · subst e; exact absurd hsa hnoS
          · simp [creditOn, hs, hp, e])
      (by intro hsa
          by_cases e : cv = NF
          · subst e; exact absurd hsa hnoS
          · simp [creditOn, hs, hp, e])
      (by intro _; simp [closerFor, hs, hp]) (by intro _; simp [closerFor, hs, hp])
    simpa [after, hp, ret_fixed_data] using this
  | notifyWake t cv u ht hs hop hu hsl =>
    obtain ⟨r, hp⟩ := op_notifyOne hop
    obtain ⟨m, timed, hsu⟩ := asleep_status hsl
    have hut : u ≠ t := by rintro rfl; rw [hs] at hsu; cases hsu
    have h1 := inv_wake s h u hu cv m timed false hsu
    rw [runAfter_eq]
    have ew : wakeT (s.thr u) false = { (s.thr u) with status := .woken m timed false } := wakeT_asleep _ cv m timed false hsu
    have et : updT s.thr u (wakeT (s.thr u) false) t = s.thr t := updT_other _ _ _ _ (Ne.symm hut)
    simp only [et]
    have hpc' := ret_fixed_pc (s.thr t).loc s.data r
    rw [ew]
    have := inv_move _ h1 t ht (ret true (s.thr t).loc s.data r).1 s.owner
      (by simpa [updT_other _ _ _ _ (Ne.symm hut)] using hs)
      (Or.inl ⟨rfl, by simp [updT_other _ _ _ _ (Ne.symm hut), holding, hs, hp, isHoldingPc]⟩) (localOk_idle _ _ _ _ hpc')
      (by intro _
          simp only [updT_other _ _ _ _ (Ne.symm hut)]
          by_cases e : cv = NE
          · subst e; simp [creditOn, hs, hp]
          · simp [creditOn, hs, hp, e])
      (by intro _
          simp only [updT_other _ _ _ _ (Ne.symm hut)]
          by_cases e : cv = NF
          · subst e; simp [creditOn, hs, hp]
          · simp [creditOn, hs, hp, e])
      (by intro _; simp [updT_other _ _ _ _ (Ne.symm hut), closerFor, hs, hp])
      (by intro _; simp [updT_other _ _ _ _ (Ne.symm hut), closerFor, hs, hp])
    simpa [after, hp, ret_fixed_data] using this
  | notifyAll t cv ht hs hop =>
    obtain ⟨h0, hno⟩ := inv_wakeAll s h cv
    have hta : isAsleepOn cv (s.thr t) = false := by simp [isAsleepOn, hs]
    have et : wakeAll cv s.thr t = s.thr t := wakeAll_not_asleep cv s.thr t hta
    rw [runAfter_eq]
    simp only [et]
    rcases op_notifyAll hop with ⟨rfl, hp⟩ | ⟨rfl, hp⟩
    · have := inv_move _ h0 t ht { (s.thr t).loc with pc := .closeNotifyNF } s.owner (by simpa [et] using hs)
        (Or.inl ⟨rfl, by simp [et, holding, hs, hp, isHoldingPc]⟩)
        ⟨⟨trivial, by simp, by simp, by simp, by simp⟩, by simp [holding, isHoldingPc], by simp, by simp⟩
        (by intro _; simp [et, creditOn, hs, hp]) (by intro _; simp [et, creditOn, hs, hp])
        (by intro hsa; exact absurd hsa hno) (by intro _ _; simp [closerFor])
      simpa [after, hp] using this
    · have hpc' := ret_fixed_pc (s.thr t).loc s.data .unit
      have := inv_move _ h0 t ht (ret true (s.thr t).loc s.data .unit).1 s.owner (by simpa [et] using hs)
        (Or.inl ⟨rfl, by simp [et, holding, hs, hp, isHoldingPc]⟩) (localOk_idle _ _ _ _ hpc')
        (by intro _; simp [et, creditOn, hs, hp]) (by intro _; simp [et, creditOn, hs, hp])
        (by intro _ hc
            rw [show ({ s with thr := wakeAll NF s.thr } : State Data Loc).thr t = s.thr t from et] at hc
            simp [closerFor, hs, hp, NE, NF] at hc)
        (by intro hsa; exact absurd hsa hno)
      simpa [after, hp, ret_fixed_data] using this

/-! ## every schedule -/

theorem inv_init (cap : Nat) (ps : List (List Call)) : Inv (init cap ps) := by
  refine ⟨?_, ?_, by simp [init], by simp [init], ?_, ?_, ?_, ?_⟩
  · intro t _
    exact ⟨⟨trivial, by simp [init], by simp [init], by simp [init], by simp [init]⟩, by simp [init, holding, isHoldingPc],
      by simp [init], by simp [init]⟩
  · intro t h; simp [init] at h
  · rintro ⟨t, _, h⟩; simp [init, isAsleepOn] at h
  · rintro ⟨t, _, h⟩; simp [init, isAsleepOn] at h
  · rintro _ ⟨t, _, h⟩; simp [init, isAsleepOn] at h
  · rintro _ ⟨t, _, h⟩; simp [init, isAsleepOn] at h

theorem inv_run (cap : Nat) (ps : List (List Call)) (sched : List Choice) : Inv (run (prog true) (init cap ps) sched) :=
  inv_of_tr (prog true) Inv inv_tr sched _ (inv_init cap ps)

/-- `_maxSize` and the number of threads never change -/
theorem after_cap (l : Loc) (d : Data) (late : Bool) : (after true l d late).2.cap = d.cap := by
  unfold after
  cases l.pc <;> simp only [begin_fixed_data, ret_fixed_data]
  · unfold entered
    cases l.todo with
    | nil => rfl
    | cons c rest =>
      cases c <;> simp only [putBody, takeBody] <;> (repeat' split) <;> rfl
  · unfold rewoken
    cases l.todo with
    | nil => rfl
    | cons c rest =>
      cases c <;> simp only [putBody, takeBody] <;> (repeat' split) <;> rfl
  · unfold rewoken
    cases l.todo with
    | nil => rfl
    | cons c rest =>
      cases c <;> simp only [putBody, takeBody] <;> (repeat' split) <;> rfl

theorem tr_cap_n (s s' : State Data Loc) (tr : Tr (prog true) s s') : s'.data.cap = s.data.cap ∧ s'.n = s.n := by
  cases tr <;> first | exact ⟨rfl, rfl⟩ | exact ⟨after_cap _ _ _, rfl⟩

theorem cap_n_run (cap : Nat) (ps : List (List Call)) (sched : List Choice) :
    (run (prog true) (init cap ps) sched).data.cap = cap ∧ (run (prog true) (init cap ps) sched).n = ps.length :=
  inv_of_tr (prog true) (fun s => s.data.cap = cap ∧ s.n = ps.length)
    (fun s s' h tr => by have := tr_cap_n s s' tr; exact ⟨by rw [this.1]; exact h.1, by rw [this.2]; exact h.2⟩) sched _ ⟨rfl, rfl⟩

/-! ## no lost wake-up -/

/-- in a dead-locked state that satisfies the invariant nobody holds the mutex, no wake-up is in the pipeline and nobody
is inside `close()` -/
theorem deadlocked_facts (s : State Data Loc) (h : Inv s) (hd : Deadlocked (prog true) s) :
    s.owner M = none ∧ (∀ c t, t < s.n → creditOn c (s.thr t) = false) ∧ (∀ c t, t < s.n → closerFor c (s.thr t) = false) := by
  have hown : s.owner M = none := by
    cases ho : s.owner M with
    | none => rfl
    | some u =>
      obtain ⟨hu, hh⟩ := h.own2 u ho
      have := hd u hu
      unfold holding at hh
      cases hst : (s.thr u).status with
      | ready =>
        rw [hst] at hh
        simp only [enabled, hst, prog, op] at this
        cases hp : (s.thr u).loc.pc <;> rw [hp] at hh this <;> simp [isHoldingPc] at hh this
      | asleep _ _ _ => rw [hst] at hh; cases hh
      | woken _ _ _ => rw [hst] at hh; cases hh
  refine ⟨hown, ?_, ?_⟩
  · intro c t ht
    have := hd t ht
    cases hst : (s.thr t).status with
    | asleep _ _ _ => simp [creditOn, hst]
    | woken m timed to =>
      obtain ⟨hm, _⟩ := woken_wf (h.loc t ht).wf hst
      subst hm
      simp [enabled, hst, hown] at this
    | ready =>
      simp only [enabled, hst, prog, op] at this
      simp only [creditOn, hst]
      cases hp : (s.thr t).loc.pc <;> rw [hp] at this <;> simp at this ⊢
  · intro c t ht
    have := hd t ht
    cases hst : (s.thr t).status with
    | asleep _ _ _ => simp [closerFor, hst]
    | woken m timed to => simp [closerFor, hst]
    | ready =>
      simp only [enabled, hst, prog, op] at this
      simp only [closerFor, hst]
      cases hp : (s.thr t).loc.pc <;> rw [hp] at this <;> simp at this ⊢

/-- **no lost wake-up**: if no thread can run, every sleeper's wait condition is false -/
theorem deadlocked_sleepers (s : State Data Loc) (h : Inv s) (hd : Deadlocked (prog true) s) (t : Tid) (ht : t < s.n) :
    (isAsleepOn NE (s.thr t) = true → predNE s.data = false) ∧ (isAsleepOn NF (s.thr t) = true → predNF s.data = false) := by
  obtain ⟨_, hcr, hcl⟩ := deadlocked_facts s h hd
  have hclosed : ∀ c, (c = NE ∨ c = NF) → isAsleepOn c (s.thr t) = true → s.data.closed = false := by
    intro c hc hsl
    cases hcd : s.data.closed with
    | false => rfl
    | true =>
      rcases hc with rfl | rfl
      · obtain ⟨u, hu, hx⟩ := h.closeNE hcd ⟨t, ht, hsl⟩; rw [hcl NE u hu] at hx; cases hx
      · obtain ⟨u, hu, hx⟩ := h.closeNF hcd ⟨t, ht, hsl⟩; rw [hcl NF u hu] at hx; cases hx
  constructor
  · intro hsl
    have hc := hclosed NE (Or.inl rfl) hsl
    have := h.credNE ⟨t, ht, hsl⟩ hc
    rw [cnt_zero _ _ _ (hcr NE)] at this
    have hq : s.data.q = [] := List.eq_nil_of_length_eq_zero (by omega)
    simp [predNE, hq, hc]
  · intro hsl
    have hc := hclosed NF (Or.inr rfl) hsl
    have := h.credNF ⟨t, ht, hsl⟩ hc
    rw [cnt_zero _ _ _ (hcr NF)] at this
    simp [predNF, hc]; omega

/-- once `close()` has returned (closed, and nobody inside `close()` any more) nobody sleeps -/
theorem closed_no_sleeper (s : State Data Loc) (h : Inv s) (hc : s.data.closed = true)
    (hret : ∀ u, u < s.n → closerFor NF (s.thr u) = false) (t : Tid) (ht : t < s.n) :
    isAsleepOn NE (s.thr t) = false ∧ isAsleepOn NF (s.thr t) = false := by
  have hNE : ∀ u, u < s.n → closerFor NE (s.thr u) = false := by
    intro u hu
    have := hret u hu
    unfold closerFor at *
    cases hst : (s.thr u).status <;> rw [hst] at this <;> simp at this ⊢
    exact ⟨this.1, fun e => by cases e⟩
  constructor
  · cases hsl : isAsleepOn NE (s.thr t) with
    | false => rfl
    | true => obtain ⟨u, hu, hx⟩ := h.closeNE hc ⟨t, ht, hsl⟩; rw [hNE u hu] at hx; cases hx
  · cases hsl : isAsleepOn NF (s.thr t) with
    | false => rfl
    | true => obtain ⟨u, hu, hx⟩ := h.closeNF hc ⟨t, ht, hsl⟩; rw [hret u hu] at hx; cases hx

/-! ## after close -/

theorem takeBody_puts (l : Loc) (d : Data) : (takeBody l d).2.puts = d.puts ∧ (takeBody l d).2.closed = d.closed := by
  unfold takeBody; cases d.q <;> exact ⟨rfl, rfl⟩

theorem putBody_closed (l : Loc) (d : Data) (v : Val) (hc : d.closed = true) : (putBody l d v).2 = d := by
  simp [putBody, hc]

theorem after_closed (l : Loc) (d : Data) (late : Bool) (hc : d.closed = true) :
    (after true l d late).2.puts = d.puts ∧ (after true l d late).2.closed = true := by
  have hT := takeBody_puts l d
  rw [hc] at hT
  unfold after
  cases l.pc <;> simp only [begin_fixed_data, ret_fixed_data, hc, and_self]
  · unfold entered
    cases l.todo with
    | nil => exact ⟨rfl, hc⟩
    | cons c rest =>
      cases c <;> simp only [predNF, predNE, hc, Bool.or_true, Bool.true_or, if_true, putBody_closed _ _ _ hc, and_self, hT]
  · unfold rewoken
    cases l.todo with
    | nil => exact ⟨rfl, hc⟩
    | cons c rest =>
      cases c <;> simp only [predNF, predNE, hc, Bool.or_true, Bool.true_or, if_true, putBody_closed _ _ _ hc, and_self, hT]
  · unfold rewoken
    cases l.todo with
    | nil => exact ⟨rfl, hc⟩
    | cons c rest =>
      cases c <;> simp only [predNF, predNE, hc, Bool.or_true, Bool.true_or, if_true, putBody_closed _ _ _ hc, and_self, hT]

/-- once closed: closed for ever, and no item is ever pushed again -/
theorem tr_closed (s s' : State Data Loc) (tr : Tr (prog true) s s') (hc : s.data.closed = true) :
    s'.data.puts = s.data.puts ∧ s'.data.closed = true := by
  cases tr <;> first | exact ⟨rfl, hc⟩ | exact after_closed _ _ _ hc

theorem closed_run (s : State Data Loc) (hc : s.data.closed = true) (sched : List Choice) :
    (run (prog true) s sched).data.puts = s.data.puts ∧ (run (prog true) s sched).data.closed = true :=
  inv_of_tr (prog true) (fun x => x.data.puts = s.data.puts ∧ x.data.closed = true)
    (fun a b h tr => by have := tr_closed a b tr h.2; exact ⟨by rw [this.1]; exact h.1, this.2⟩) sched s ⟨rfl, hc⟩

/-- queued items stay retrievable: a `dequeue`/`tryDequeue` that gets the mutex while the queue is non-empty takes the
oldest item, closed or not, and does not wait -/
theorem entered_takes (l : Loc) (d : Data) (x : Val) (xs : List Val) (rest : List Call) (c : Call)
    (hc : c = .dequeue ∨ c = .dequeueFor ∨ c = .tryDequeue) (ht : l.todo = c :: rest) (hq : d.q = x :: xs) :
    (entered l d).1.pc = .unlockNotify NF (.item (some x)) ∧ (entered l d).2.q = xs := by
  rcases hc with rfl | rfl | rfl <;> simp [entered, ht, predNE, takeBody, hq]

/-! ## the class as found (F01): `close()` flips `_closed` without the mutex -/

/-- a lost wake-up: nobody can run, yet a thread sleeps on `_condNotEmpty` while its condition (`closed`) holds -/
def LostWakeup (fixed : Bool) (s : State Data Loc) : Prop :=
  Deadlocked (prog fixed) s ∧ ∃ t, t < s.n ∧ isAsleepOn NE (s.thr t) = true ∧ (s.thr t).status = .asleep NE M false ∧ predNE s.data = true

/-- the consumer evaluates its predicate (false) and is pre-empted before `wait`; `close()` runs to completion — flag set,
both `notify_all` hit nobody —; the consumer goes to sleep and is never woken.  (This is the schedule DetSched replays
against the real unrepaired header.) -/
def f01Schedule : List Choice :=
  [.run 0 0, .run 0 0, .run 1 0, .run 1 0, .run 1 0, .run 0 0]

theorem buggy_close_loses_wakeup : LostWakeup false (run (prog false) (init 4 [[.dequeue], [.close]]) f01Schedule) := by
  unfold LostWakeup
  exact ⟨by decide, 0, by decide, by decide, by decide, by decide⟩

/-- with the repaired `close()` no schedule of any program ends in a lost wake-up -/
theorem fixed_no_lost_wakeup (cap : Nat) (ps : List (List Call)) (sched : List Choice) :
    ¬ LostWakeup true (run (prog true) (init cap ps) sched) := by
  rintro ⟨hd, t, ht, hsl, _, hp⟩
  have := (deadlocked_sleepers _ (inv_run cap ps sched) hd t ht).1 hsl
  rw [this] at hp; cases hp

/-! ## the pop log only grows; draining a closed queue -/

theorem takeBody_takes (l : Loc) (d : Data) : ∃ xs, (takeBody l d).2.takes = d.takes ++ xs := by
  unfold takeBody; cases d.q with
  | nil => exact ⟨[], by simp⟩
  | cons x xs => exact ⟨[(l.me, x)], rfl⟩

theorem putBody_takes (l : Loc) (d : Data) (v : Val) : (putBody l d v).2.takes = d.takes := by
  unfold putBody; split <;> rfl

theorem after_takes (l : Loc) (d : Data) (late : Bool) : ∃ xs, (after true l d late).2.takes = d.takes ++ xs := by
  have same : ∃ xs : List (Tid × Val), d.takes = d.takes ++ xs := ⟨[], by simp⟩
  have hT := takeBody_takes l d
  have hP : ∀ v, ∃ xs, (putBody l d v).2.takes = d.takes ++ xs := fun v => ⟨[], by simp [putBody_takes]⟩
  unfold after
  cases l.pc <;> simp only [begin_fixed_data, ret_fixed_data] <;> try exact same
  · unfold entered
    cases l.todo with
    | nil => exact same
    | cons c rest => cases c <;> simp only <;> (repeat' split) <;> first | exact same | exact hT | exact hP _
  · unfold rewoken
    cases l.todo with
    | nil => exact same
    | cons c rest => cases c <;> simp only <;> (repeat' split) <;> first | exact same | exact hT | exact hP _
  · unfold rewoken
    cases l.todo with
    | nil => exact same
    | cons c rest => cases c <;> simp only <;> (repeat' split) <;> first | exact same | exact hT | exact hP _

theorem tr_takes (s s' : State Data Loc) (tr : Tr (prog true) s s') : ∃ xs, s'.data.takes = s.data.takes ++ xs := by
  cases tr <;> first | exact ⟨[], (List.append_nil _).symm⟩ | exact after_takes _ _ _

theorem run_takes (s : State Data Loc) (sched : List Choice) : ∃ xs, (run (prog true) s sched).data.takes = s.data.takes ++ xs := by
  induction sched generalizing s with
  | nil => exact ⟨[], by simp [run]⟩
  | cons c cs ih =>
    rw [run_cons]
    obtain ⟨ys, hy⟩ := ih (step (prog true) s c)
    rcases step_tr (prog true) s c with e | t
    · exact ⟨ys, by rw [hy, e]⟩
    · obtain ⟨xs, hx⟩ := tr_takes s _ t
      exact ⟨xs ++ ys, by rw [hy, hx, List.append_assoc]⟩

theorem run_append (P : Prog Data Loc) (s : State Data Loc) (a b : List Choice) : run P s (a ++ b) = run P (run P s a) b := by
  simp [run, List.foldl_append]

/-- **draining a closed queue**: from a closed reachable state on, whatever the schedule, the items taken from then on are
exactly a prefix of the queue content at that moment, in order, and what remains queued is the rest -/
theorem drain_after_close (cap : Nat) (ps : List (List Call)) (sched more : List Choice)
    (hc : (run (prog true) (init cap ps) sched).data.closed = true) :
    ∃ taken, (run (prog true) (run (prog true) (init cap ps) sched) more).data.takes.map (·.2) =
        (run (prog true) (init cap ps) sched).data.takes.map (·.2) ++ taken ∧
      taken ++ (run (prog true) (run (prog true) (init cap ps) sched) more).data.q = (run (prog true) (init cap ps) sched).data.q := by
  have h1 := (inv_run cap ps sched).cons
  have h2 := (inv_run cap ps (sched ++ more)).cons
  rw [run_append] at h2
  have hp := (closed_run _ hc more).1
  obtain ⟨xs, hx⟩ := run_takes (run (prog true) (init cap ps) sched) more
  refine ⟨xs.map (·.2), by rw [hx]; simp, ?_⟩
  rw [hp, h1, hx, List.map_append, List.append_assoc] at h2
  exact (List.append_cancel_left h2).symm

/-- a take that gets the mutex on a closed EMPTY queue returns `false` without waiting -/
theorem entered_closed_empty (l : Loc) (d : Data) (rest : List Call) (c : Call)
    (hc : c = .dequeue ∨ c = .dequeueFor ∨ c = .tryDequeue) (ht : l.todo = c :: rest) (hq : d.q = []) (hcl : d.closed = true) :
    (entered l d).1.pc = .unlockRet (.item none) ∧ (entered l d).2 = d := by
  rcases hc with rfl | rfl | rfl <;> simp [entered, ht, predNE, takeBody, hq, hcl]

/-! ## in EVERY reachable state a wake-up is in the pipeline for every sleeper whose condition holds -/

theorem wakeup_pending (s : State Data Loc) (h : Inv s) (t : Tid) (ht : t < s.n) :
    (isAsleepOn NE (s.thr t) = true → predNE s.data = true →
        ∃ u, u < s.n ∧ (creditOn NE (s.thr u) = true ∨ closerFor NE (s.thr u) = true)) ∧
    (isAsleepOn NF (s.thr t) = true → predNF s.data = true →
        ∃ u, u < s.n ∧ (creditOn NF (s.thr u) = true ∨ closerFor NF (s.thr u) = true)) := by
  constructor
  · intro hsl hp
    cases hc : s.data.closed with
    | true => obtain ⟨u, hu, hx⟩ := h.closeNE hc ⟨t, ht, hsl⟩; exact ⟨u, hu, Or.inr hx⟩
    | false =>
      have hcr := h.credNE ⟨t, ht, hsl⟩ hc
      have hq : 0 < s.data.q.length := by
        simp only [predNE, hc, Bool.or_false, Bool.not_eq_true'] at hp
        cases hq : s.data.q with
        | nil => rw [hq] at hp; simp at hp
        | cons x xs => simp
      obtain ⟨u, hu, hx⟩ := exists_of_cnt_pos (creditOn NE) s.thr s.n (by omega)
      exact ⟨u, hu, Or.inl hx⟩
  · intro hsl hp
    cases hc : s.data.closed with
    | true => obtain ⟨u, hu, hx⟩ := h.closeNF hc ⟨t, ht, hsl⟩; exact ⟨u, hu, Or.inr hx⟩
    | false =>
      have hcr := h.credNF ⟨t, ht, hsl⟩ hc
      have hq : s.data.q.length < s.data.cap := by
        simpa [predNF, hc] using hp
      obtain ⟨u, hu, hx⟩ := exists_of_cnt_pos (creditOn NF) s.thr s.n (by omega)
      exact ⟨u, hu, Or.inl hx⟩

end Iora.BQ
