import IoraModel.Lemmas.AssetsRoots
/-!
C20: one lookup whose system calls see different file-system snapshots (`Snaps`).  What the environment may do in between
(`LeafOnly`), and the containment theorems of the three lookup modes for EVERY interleaving point.
-/
namespace Iora.Assets
open Iora

/-! ### file systems that answer every `get` alike answer every system call alike -/

theorem step_ext (fsA fsB : Fs) (h : ∀ l, fsA.get l = fsB.get l) (b : Nat) (cur : Loc) (todo : List Name) (fol tr : Bool) :
    walkStep fsA b cur todo fol tr = walkStep fsB b cur todo fol tr := by
  unfold walkStep
  cases todo with
  | nil => rfl
  | cons c rest => simp only [h]

theorem walk_ext (fsA fsB : Fs) (h : ∀ l, fsA.get l = fsB.get l) : ∀ (f b : Nat) (cur : Loc) (todo : List Name) (fol tr : Bool),
    walk fsA f b cur todo fol tr = walk fsB f b cur todo fol tr := by
  intro f
  induction f with
  | zero => intros; simp [walk]
  | succ f ih =>
    intro b cur todo fol tr
    rw [walk_succ, walk_succ, step_ext fsA fsB h]
    cases walkStep fsB b cur todo fol tr with
    | done r => rfl
    | next b' cur' todo' tr' => exact ih _ _ _ _ _

theorem walkFuel_enough (fs : Fs) (todo : List Name) :
    todo.length + SYMLOOP * (fs.maxTarget + 1) + 1 ≤ walkFuel fs todo := by
  simp only [walkFuel, SYMLOOP]
  have : 40 * (fs.maxTarget + 1) ≤ (40 + 1) * (fs.maxTarget + 1) := Nat.mul_le_mul_right _ (by omega)
  omega

theorem kwalk_ext (fsA fsB : Fs) (h : ∀ l, fsA.get l = fsB.get l) (hcwd : fsA.cwd = fsB.cwd) (fol : Bool) (p : Bytes) :
    kwalk fsA fol p = kwalk fsB fol p := by
  unfold kwalk
  simp only [hcwd]
  split
  · rfl
  split
  · rfl
  · generalize hcur : (if isAbs (cstr p) = true then [] else fsB.cwd) = cur
    have hA := walk_enough_fuel fsA (walkFuel fsA (comps (cstr p))) SYMLOOP cur (comps (cstr p)) fol (trailSlash (cstr p))
      (walkFuel_enough fsA _)
    have hB := walk_enough_fuel fsB (walkFuel fsB (comps (cstr p))) SYMLOOP cur (comps (cstr p)) fol (trailSlash (cstr p))
      (walkFuel_enough fsB _)
    have mA := walk_fuel_mono fsA _ (max (walkFuel fsA (comps (cstr p))) (walkFuel fsB (comps (cstr p)))) _ _ _ _ _ _ rfl hA
      (Nat.le_max_left _ _)
    have mB := walk_fuel_mono fsB _ (max (walkFuel fsA (comps (cstr p))) (walkFuel fsB (comps (cstr p)))) _ _ _ _ _ _ rfl hB
      (Nat.le_max_right _ _)
    rw [← mA, ← mB]
    exact walk_ext fsA fsB h _ _ _ _ _ _

/-! ### what the environment may do during one lookup -/

/-- the two file systems hold the same object at every location outside `S` -/
def AgreeOff (S : List Loc) (fsA fsB : Fs) : Prop := fsA.cwd = fsB.cwd ∧ ∀ l, l ∉ S → fsA.get l = fsB.get l

theorem agreeOff_refl (S : List Loc) (fs : Fs) : AgreeOff S fs fs := ⟨rfl, fun _ _ => rfl⟩

/-- the leaf of a resolved path and the leaf of its `.gz` sibling -/
def leafLocs (resolved : Bytes) : List Loc := [locOf resolved, locOf (resolved ++ Gen.Assets.gzSuffix)]

theorem get_child_none (fs : Fs) (n : Name) (up : Loc) (h : fs.get up ≠ some .dir) : fs.get (n :: up) = none := by
  cases hg : fs.get up with
  | none => simp [Fs.get, hg]
  | some e =>
    cases e with
    | dir => exact absurd hg h
    | file d => simp [Fs.get, hg]
    | link t => simp [Fs.get, hg]

theorem set_get_self_not_dir (fs : Fs) (X : Loc) (e : Entry) (h1 : fs.get X ≠ some .dir) (h2 : e ≠ .dir) :
    (fs.set X e).get X ≠ some .dir := by
  cases X with
  | nil => simp [Fs.get] at h1
  | cons m up =>
    simp only [Fs.get]
    split
    · have : (fs.set (m :: up) e).raw (m :: up) = some e := by
        simp [Fs.raw, Fs.set]
      rw [this]
      intro h; injection h with h; exact h2 h
    · simp

/-- replacing the non-directory at `X` by another non-directory changes nothing anywhere else -/
theorem set_agreeOff (fs : Fs) (X : Loc) (e : Entry) (S : List Loc) (hX : X ∈ S) (h1 : fs.get X ≠ some .dir) (h2 : e ≠ .dir) :
    AgreeOff S fs (fs.set X e) := by
  refine ⟨rfl, ?_⟩
  have key : ∀ l, l ≠ X → fs.get l = (fs.set X e).get l := by
    intro l
    induction l with
    | nil => intro _; simp [Fs.get]
    | cons n up ih =>
      intro hne
      have hraw : (fs.set X e).raw (n :: up) = fs.raw (n :: up) := by
        have h2' : ((n :: up) == X) = false := by simpa using hne
        simp only [Fs.raw, Fs.set, List.lookup_cons, h2']
        exact lookup_filter_ne _ _ _ hne
      by_cases hup : up = X
      · subst hup
        have hnew := set_get_self_not_dir fs up e h1 h2
        have hA : fs.get (n :: up) = none := get_child_none fs n up h1
        have hB : (fs.set up e).get (n :: up) = none := get_child_none _ n up hnew
        rw [hA, hB]
      · simp only [Fs.get, ← ih hup, hraw]
  intro l hl
  exact key l (fun e' => hl (e' ▸ hX))

/-! ### the result of `weakly_canonical` on a missing path is in normal form -/

theorem keepName_plain (n : Bytes) (h1 : IsName n) (h2 : n ≠ dotdot) (h3 : keepName n = true) : Plain n := by
  refine ⟨h1, ?_, h2⟩
  intro e; subst e; simp [keepName] at h3

theorem wc_missing_normal (fs : Fs) (p r : Bytes) (ha : isAbs p = true) (h0 : (0 : UInt8) ∉ p) (hdd : dotdot ∉ comps p)
    (hs : status fs p = .notFound) (hw : weaklyCanonical fs p = .ok r) :
    ∃ (N : List Bytes) (tsl : Bool), (∀ n ∈ N, Plain n ∧ (0 : UInt8) ∉ n) ∧ r = renderAbs N ++ (if tsl then [SLASH] else []) := by
  have hcs : ∀ n ∈ comps p, IsName n ∧ (0 : UInt8) ∉ n := comps_todoOK p h0
  rcases wc_missing_shape fs p r ha h0 hs hw with ⟨pre, c, post, L, e, hsplit, _, hk, hr⟩ | ⟨_, L, e, hk, hr⟩
  · have hpre : ∀ n ∈ pre, IsName n ∧ (0 : UInt8) ∉ n := fun n hn => hcs n (by rw [hsplit]; simp [hn])
    obtain ⟨_, hL, _, _⟩ := kwalk_abs_ok fs true (renderAbs pre) (renderAbs_no_nul pre (fun n hn => (hpre n hn).2))
      (isAbs_renderAbs pre) L e hk
    have hcp : ∀ n ∈ c :: post, IsName n ∧ (0 : UInt8) ∉ n ∧ n ≠ dotdot := by
      intro n hn
      have hm : n ∈ comps p := by rw [hsplit]; simp at hn ⊢; exact Or.inr hn
      exact ⟨(hcs n hm).1, (hcs n hm).2, fun e' => hdd (e' ▸ hm)⟩
    have hval := wc_caseA_value c post (trailSlash p && !(comps p).isEmpty) (fun n hn => ⟨(hcp n hn).1, (hcp n hn).2.2⟩) L hL
    refine ⟨L.reverse ++ (c :: post).filter keepName, _, ?_, hr.trans hval⟩
    intro n hn
    rcases List.mem_append.mp hn with hn | hn
    · exact hL n (List.mem_reverse.mp hn)
    · have hm := List.mem_filter.mp hn
      exact ⟨keepName_plain n (hcp n hm.1).1 (hcp n hm.1).2.2 hm.2, (hcp n hm.1).2.1⟩
  · obtain ⟨_, hL, _, _⟩ := kwalk_abs_ok fs true (renderAbs (comps p)) (renderAbs_no_nul _ (fun n hn => (hcs n hn).2))
      (isAbs_renderAbs _) L e hk
    have hLr : ∀ n ∈ L.reverse, IsName n := fun n hn => (hL n (List.mem_reverse.mp hn)).1.1
    simp only [List.foldl_cons, List.foldl_nil, renderLoc_eq] at hr
    rw [pathAppend_renderAbs_empty L.reverse hLr] at hr
    by_cases hLn : L = []
    · subst hLn
      have : lexicallyNormal [SLASH] = [SLASH] := by simp [lexicallyNormal, comps, splitSlash, isAbs, SLASH]
      simp only [List.reverse_nil, List.isEmpty_nil, ↓reduceIte, this] at hr
      exact ⟨[], false, by simp, by simp [hr, renderAbs, joinSlash]⟩
    · have hne : L.reverse ≠ [] := by simpa using hLn
      have hemp : L.reverse.isEmpty = false := by cases h : L.reverse <;> simp_all
      simp only [hemp, Bool.false_eq_true, ↓reduceIte] at hr
      have hdd' : ∀ n ∈ L.reverse, IsName n ∧ n ≠ dotdot := fun n hn => ⟨hLr n hn, (hL n (List.mem_reverse.mp hn)).1.2.2⟩
      have hn := lexicallyNormal_abs L.reverse true hdd' hne
      simp only [↓reduceIte] at hn
      have hN1 : (nfNames [] false (L.reverse ++ [[]])).1.reverse = L.reverse := by
        rw [nfNames_names]
        simp only [List.append_nil, List.reverse_reverse, List.filter_append]
        rw [filter_keep_plain L.reverse (fun n hn => ⟨hLr n hn, (hL n (List.mem_reverse.mp hn)).1.2.1⟩),
          filter_keep_tl [[]] (by simp)]
        simp
      rw [hN1] at hn
      exact ⟨L.reverse, _, fun n hn' => hL n (List.mem_reverse.mp hn'), hr.trans hn⟩

/-! ### the two branches of `weakly_canonical`, each with the open in a later snapshot -/

theorem readFile_some (fs : Fs) (p d : Bytes) (h : readFile fs p = some d) : ∃ l, kwalk fs false p = .ok (l, .file d) := by
  rw [readFile_eq] at h
  have hnf : (!Gen.Assets.openNoFollow) = false := by decide
  rw [hnf] at h
  split at h
  · rename_i l d' hk; injection h with h; subst h; exact ⟨l, hk⟩
  · cases h

theorem readFile_trail_none (fs : Fs) (r : Bytes) (h0 : (0 : UInt8) ∉ r) (ha : isAbs r = true) (ht : trailSlash r = true) :
    readFile fs r = none := by
  cases h : readFile fs r with
  | none => rfl
  | some d =>
    obtain ⟨l, hk⟩ := readFile_some fs r d h
    obtain ⟨_, _, _, hw⟩ := kwalk_abs_ok fs false r h0 ha l _ hk
    rw [ht] at hw
    exact absurd hw (walk_trail_nofile fs _ _ _ _ _ l d)

theorem wcAt_cases (fsS fsC : Fs) (p r : Bytes) (h : weaklyCanonicalAt fsS fsC p = .ok r) :
    (∃ L e, kwalk fsC true p = .ok (L, e) ∧ r = renderLoc L) ∨
    (status fsS p = .notFound ∧ weaklyCanonical fsS p = .ok r) := by
  unfold weaklyCanonicalAt at h
  split at h
  · obtain ⟨L, e, hk, hr⟩ := canonical_ok fsC p r h
    exact Or.inl ⟨L, e, hk, hr⟩
  · rename_i hnf
    rcases wc_cases fsS p r h with ⟨L, e, hk, _⟩ | hs
    · exact absurd ((status_found_iff fsS p L e).mpr hk) (hnf L e)
    · exact Or.inr ⟨hs, h⟩

theorem wcAt_const (fs : Fs) (p : Bytes) : weaklyCanonicalAt fs fs p = weaklyCanonical fs p := by
  unfold weaklyCanonicalAt
  split
  · rename_i L e hs
    simp [weaklyCanonical, hs]
  · rfl

/-- **Canonical branch.** The request existed when `realpath` ran (snapshot `fsC`); whatever later snapshot the `open` sees, as
long as the directories of `fsC` are still directories there, it reads exactly the location `realpath` named. -/
theorem canon_open (fsC : Fs) (p base : Bytes) (bn : List Name) (L : Loc) (e : Entry)
    (ha : isAbs p = true) (h0 : (0 : UInt8) ∉ p) (hk : kwalk fsC true p = .ok (L, e))
    (hb : base = renderAbs bn) (hbn : ∀ n ∈ bn, Plain n) (hc : isContained base (renderLoc L) = true) :
    LocOK L ∧ fsC.get L = some e ∧ bn <+: L.reverse ∧
    (∀ fsO d, DirsPreserved fsC fsO → readFile fsO (renderLoc L) = some d → fsO.get L = some (.file d)) ∧
    (∀ last up, L = last :: up → LocOK ((last ++ Gen.Assets.gzSuffix) :: up) ∧
      ∀ fsZ g, DirsPreserved fsC fsZ → readFile fsZ (renderLoc L ++ Gen.Assets.gzSuffix) = some g →
        fsZ.get ((last ++ Gen.Assets.gzSuffix) :: up) = some (.file g)) := by
  obtain ⟨hg, hL, _, _⟩ := kwalk_abs_ok fsC true p h0 ha L e hk
  have hpre : bn <+: L.reverse := by
    rw [hb, renderLoc_eq] at hc
    exact (isContained_canonical bn _ hbn (fun n hn' => (hL n (List.mem_reverse.mp hn')).1)).mp hc
  refine ⟨hL, hg, hpre, ?_, ?_⟩
  · intro fsO d hd hrd
    cases L with
    | nil => exact readFile_at_loc fsO [] d hL (by simp [Fs.get]) hrd
    | cons last up => exact readFile_at_loc fsO _ d hL (by simpa using hd _ (get_parent hg)) hrd
  · intro last up hLe
    subst hLe
    have hgzL : LocOK ((last ++ Gen.Assets.gzSuffix) :: up) := by
      intro n hn'
      simp at hn'
      rcases hn' with hn' | hn'
      · subst hn'; exact gz_plain last (hL last (by simp))
      · exact hL n (by simp [hn'])
    refine ⟨hgzL, ?_⟩
    intro fsZ g hd hrg
    have : renderLoc (last :: up) ++ Gen.Assets.gzSuffix = renderLoc ((last ++ Gen.Assets.gzSuffix) :: up) := by
      simp only [renderLoc, List.reverse_cons, List.cons_append, joinSlash_snoc_append]
    rw [this] at hrg
    exact readFile_at_loc fsZ _ g hgzL (by simpa using hd _ (get_parent hg)) hrg

theorem locOf_renderAbs (N : List Bytes) (h : ∀ n ∈ N, IsName n) : locOf (renderAbs N) = N.reverse := by
  unfold locOf; rw [show comps (renderAbs N) = N from comps_renderAbs N h]

/-- **Missing branch.** The request did not exist when `weakly_canonical` ran (snapshot `fsS`).  If a later snapshot differs from
`fsS` only at the leaf of the resolved path (and of its `.gz` sibling) — the leaf was created, as a file or as a link, while the
lookup ran — an `open` that returns bytes returns the bytes of a regular file AT that leaf location, inside the root. -/
theorem missing_open (fsS fsO : Fs) (p base r : Bytes) (bn : List Name)
    (ha : isAbs p = true) (h0 : (0 : UInt8) ∉ p) (hdd : dotdot ∉ comps p)
    (hs : status fsS p = .notFound) (hw : weaklyCanonical fsS p = .ok r)
    (hb : base = renderAbs bn) (hbn : ∀ n ∈ bn, Plain n) (hc : isContained base r = true)
    (hag : AgreeOff (leafLocs r) fsS fsO) (d : Bytes) (hrd : readFile fsO r = some d) :
    ∃ last up, r = renderLoc (last :: up) ∧ LocOK (last :: up) ∧ bn <+: (last :: up).reverse ∧
      fsO.get (last :: up) = some (.file d) ∧ fsS.get up = some .dir ∧
      leafLocs r = [last :: up, (last ++ Gen.Assets.gzSuffix) :: up] := by
  obtain ⟨N, tsl, hN, hr⟩ := wc_missing_normal fsS p r ha h0 hdd hs hw
  have hNn : ∀ n ∈ N, IsName n := fun n hn => (hN n hn).1.1
  have hN0 : (0 : UInt8) ∉ renderAbs N := renderAbs_no_nul N (fun n hn => (hN n hn).2)
  cases tsl with
  | true =>
    simp only [↓reduceIte] at hr
    have : readFile fsO r = none := by
      rw [hr]
      apply readFile_trail_none
      · intro hm; simp at hm; rcases hm with hm | hm
        · exact hN0 hm
        · simp [SLASH] at hm
      · exact isAbs_append _ _ (isAbs_renderAbs N)
      · simp [trailSlash]
    rw [this] at hrd; cases hrd
  | false =>
    simp only [Bool.false_eq_true, ↓reduceIte, List.append_nil] at hr
    subst hr
    have hLocOK : LocOK N.reverse := fun n hn => hN n (List.mem_reverse.mp hn)
    have hrl : renderAbs N = renderLoc N.reverse := by simp [renderLoc_eq]
    cases hNr : N.reverse with
    | nil =>
      rw [hrl, hNr] at hrd
      have := readFile_at_loc fsO [] d locOK_nil (by simp [Fs.get]) hrd
      simp [Fs.get] at this
    | cons last up =>
      have hNeq : N = up.reverse ++ [last] := by
        have := congrArg List.reverse hNr
        simpa using this
      have hX : locOf (renderAbs N) = last :: up := by rw [locOf_renderAbs N hNn, hNr]
      have hlastok := hLocOK
      rw [hNr] at hlastok
      have hgzp := gz_plain last (hlastok last (by simp))
      have hXgz : locOf (renderAbs N ++ Gen.Assets.gzSuffix) = (last ++ Gen.Assets.gzSuffix) :: up := by
        have : renderAbs N ++ Gen.Assets.gzSuffix = renderAbs (up.reverse ++ [last ++ Gen.Assets.gzSuffix]) := by
          rw [hNeq]; simp only [renderAbs, List.cons_append, joinSlash_snoc_append]
        rw [this, locOf_renderAbs]
        · simp
        · intro n hn
          rcases List.mem_append.mp hn with hn | hn
          · exact (hlastok n (by simp at hn ⊢; exact Or.inr hn)).1.1
          · simp at hn; subst hn; exact hgzp.1.1
      have hleaf : leafLocs (renderAbs N) = [last :: up, (last ++ Gen.Assets.gzSuffix) :: up] := by
        simp only [leafLocs, hX, hXgz]
      have hupne : up ∉ leafLocs (renderAbs N) := by
        rw [hleaf]
        intro hm
        simp at hm
      have hupeq : fsS.get up = fsO.get up := hag.2 up hupne
      have hpre : bn <+: (last :: up).reverse := by
        rw [hb] at hc
        have := (isContained_canonical bn N hbn (fun n hn => (hN n hn).1)).mp hc
        rw [← hNr]; simpa using this
      by_cases hpar : fsO.get up = some .dir
      · have hget : fsO.get (last :: up) = some (.file d) := by
          rw [hrl, hNr] at hrd
          exact readFile_at_loc fsO _ d hlastok (by simpa using hpar) hrd
        exact ⟨last, up, by rw [hrl, hNr], hlastok, hpre, hget, by rw [hupeq]; exact hpar, hleaf⟩
      · exfalso
        have hall : ∀ l, fsS.get l = fsO.get l := by
          intro l
          by_cases hl : l ∈ leafLocs (renderAbs N)
          · rw [hleaf] at hl
            simp at hl
            rcases hl with hl | hl <;> subst hl
            · rw [get_child_none fsS _ up (by rw [hupeq]; exact hpar), get_child_none fsO _ up hpar]
            · rw [get_child_none fsS _ up (by rw [hupeq]; exact hpar), get_child_none fsO _ up hpar]
          · exact hag.2 l hl
        obtain ⟨l, hk⟩ := readFile_some fsO _ d hrd
        rw [← kwalk_ext fsS fsO hall hag.1] at hk
        exact wcMissingNoFile fsS p _ ha h0 hdd hs hw false l d hk

theorem missing_open_gz (fsS fsZ : Fs) (r : Bytes) (last : Name) (up : Loc) (hr : r = renderLoc (last :: up))
    (hL : LocOK (last :: up)) (hup : fsS.get up = some .dir)
    (hleaf : leafLocs r = [last :: up, (last ++ Gen.Assets.gzSuffix) :: up])
    (hag : AgreeOff (leafLocs r) fsS fsZ) (g : Bytes) (hrg : readFile fsZ (r ++ Gen.Assets.gzSuffix) = some g) :
    fsZ.get ((last ++ Gen.Assets.gzSuffix) :: up) = some (.file g) ∧ LocOK ((last ++ Gen.Assets.gzSuffix) :: up) := by
  have hgzL : LocOK ((last ++ Gen.Assets.gzSuffix) :: up) := by
    intro n hn'
    simp at hn'
    rcases hn' with hn' | hn'
    · subst hn'; exact gz_plain last (hL last (by simp))
    · exact hL n (by simp [hn'])
  have hupne : up ∉ leafLocs r := by
    rw [hleaf]
    intro hm
    simp at hm
  have hupZ : fsZ.get up = some .dir := by rw [← hag.2 up hupne]; exact hup
  have : r ++ Gen.Assets.gzSuffix = renderLoc ((last ++ Gen.Assets.gzSuffix) :: up) := by
    rw [hr]; simp only [renderLoc, List.reverse_cons, List.cons_append, joinSlash_snoc_append]
  rw [this] at hrg
  exact ⟨readFile_at_loc fsZ _ g hgzL (by simpa using hupZ) hrg, hgzL⟩

/-! ### what the environment may do while one lookup runs -/

/-- **The environment during one lookup** of candidate `p` below the root `bn`:
* if the request exists when `realpath` runs, later snapshots only have to keep the directories of that snapshot directories —
  files may be replaced by links (the leaf swap), links re-targeted, files created and removed, at ANY point;
* if the request does not exist when `weakly_canonical` runs and a later `open` nevertheless returns bytes, the snapshots of the
  two opens differ from the resolution snapshot only at the leaf of the resolved path and of its `.gz` sibling (the leaf was
  created — as a file or as a link — while the lookup ran) and the root is a directory. -/
structure LeafOnly (sn : Snaps) (p : Bytes) (bn : List Name) : Prop where
  dirsO : DirsPreserved sn.c sn.o
  dirsZ : DirsPreserved sn.c sn.z
  missing : status sn.s p = .notFound → ∀ r, weaklyCanonical sn.s p = .ok r → ∀ d, readFile sn.o r = some d →
    AgreeOff (leafLocs r) sn.s sn.o ∧ AgreeOff (leafLocs r) sn.s sn.z ∧ sn.o.get bn.reverse = some .dir

/-- nothing changes: the hypothesis holds (for an absolute NUL-free candidate without `..`) -/
theorem leafOnly_const (fs : Fs) (p : Bytes) (bn : List Name) (ha : isAbs p = true) (h0 : (0 : UInt8) ∉ p)
    (hdd : dotdot ∉ comps p) : LeafOnly (Snaps.const fs) p bn := by
  refine ⟨dirsPreserved_refl fs, dirsPreserved_refl fs, ?_⟩
  intro hs r hw d hrd
  exfalso
  obtain ⟨l, hk⟩ := readFile_some fs r d hrd
  exact wcMissingNoFile fs p r ha h0 hdd hs hw false l d hk

/-- what `resolve → contain → open` delivers, by location -/
theorem resolve_phases_loc (sn : Snaps) (pre base : Bytes) (bn : List Name) (name resolved : Bytes)
    (hpa : isAbs pre = true) (hp0 : (0 : UInt8) ∉ pre) (hpd : dotdot ∉ comps pre) (hpne : pre ≠ [])
    (hb : base = renderAbs bn) (hbn : ∀ n ∈ bn, Plain n) (hn : lexicallyRejected name = false)
    (hw : weaklyCanonicalAt sn.s sn.c (pathAppend pre name) = .ok resolved)
    (hc : isContained base resolved = true) (hL : LeafOnly sn (pathAppend pre name) bn)
    (d : Bytes) (hrd : readFile sn.o resolved = some d) :
    ∃ last up, sn.o.get (last :: up) = some (.file d) ∧ bn <+: (last :: up).reverse ∧
      ((∃ e, kwalk sn.c true (pathAppend pre name) = .ok (last :: up, e) ∧ sn.c.get (last :: up) = some e) ∨
        sn.o.get bn.reverse = some .dir) ∧
      (∀ g, readFile sn.z (resolved ++ Gen.Assets.gzSuffix) = some g →
        sn.z.get ((last ++ Gen.Assets.gzSuffix) :: up) = some (.file g)) := by
  have ha := isAbs_candidate pre name hpne hn hpa
  have h0 := no_nul_candidate pre name hpne hn hp0
  have hdd := no_dotdot_candidate pre name hpne hn hpd
  rcases wcAt_cases sn.s sn.c _ _ hw with ⟨L, e, hk, hres⟩ | ⟨hs, hwm⟩
  · subst hres
    obtain ⟨hLok, hg, hpre, hmain, hgz⟩ := canon_open sn.c _ base bn L e ha h0 hk hb hbn hc
    have hget := hmain sn.o d hL.dirsO hrd
    cases L with
    | nil => simp [Fs.get] at hget
    | cons last up =>
      refine ⟨last, up, hget, hpre, Or.inl ⟨e, hk, hg⟩, ?_⟩
      intro g hrg
      exact (hgz last up rfl).2 sn.z g hL.dirsZ hrg
  · obtain ⟨hagO, hagZ, hrootdir⟩ := hL.missing hs resolved hwm d hrd
    obtain ⟨last, up, hr, hLok, hpre, hget, hup, hleaf⟩ :=
      missing_open sn.s sn.o _ base resolved bn ha h0 hdd hs hwm hb hbn hc hagO d hrd
    refine ⟨last, up, hget, hpre, Or.inr hrootdir, ?_⟩
    intro g hrg
    exact (missing_open_gz sn.s sn.z resolved last up hr hLok hup hleaf hagZ g hrg).1

/-- the same for a root that is also the candidate prefix (filesystem mode): strictly inside -/
theorem resolve_phases_inside (sn : Snaps) (root : Bytes) (bn : List Name) (hroot : RootOK root bn)
    (name resolved : Bytes) (hn : lexicallyRejected name = false)
    (hw : weaklyCanonicalAt sn.s sn.c (pathAppend root name) = .ok resolved)
    (hc : isContained root resolved = true) (hL : LeafOnly sn (pathAppend root name) bn)
    (d : Bytes) (hrd : readFile sn.o resolved = some d) :
    Inside sn.o bn d ∧ ∀ g, readFile sn.z (resolved ++ Gen.Assets.gzSuffix) = some g → Inside sn.z bn g := by
  obtain ⟨last, up, hget, hpre, hwhy, hgz⟩ :=
    resolve_phases_loc sn root root bn name resolved hroot.abs hroot.no_nul hroot.no_dotdot hroot.ne hroot.eq
      (fun n hn' => (hroot.plain n hn').1) hn hw hc hL d hrd
  have hstrict : (last :: up).reverse ≠ bn := by
    rcases hwhy with ⟨e, hk, hge⟩ | hdir
    · cases e with
      | dir =>
        intro _
        have := hL.dirsO _ hge
        rw [hget] at this; cases this
      | file d0 => exact strict_of_candidate sn.c root bn hroot name hn last up d0 hk
      | link t =>
        have ha := isAbs_candidate root name hroot.ne hn hroot.abs
        have h0 := no_nul_candidate root name hroot.ne hn hroot.no_nul
        exact absurd rfl ((kwalk_abs_ok sn.c true _ h0 ha _ _ hk).2.2.1 rfl t)
    · intro e'
      rw [← e', List.reverse_reverse, hget] at hdir
      cases hdir
  refine ⟨⟨last :: up, hget, hpre, hstrict⟩, ?_⟩
  intro g hrg
  have hp : bn <+: up.reverse := prefix_of_prefix_snoc_ne bn up.reverse last (by simpa using hpre) (by simpa using hstrict)
  refine ⟨(last ++ Gen.Assets.gzSuffix) :: up, hgz g hrg, ?_, ?_⟩
  · simp only [List.reverse_cons]
    exact List.IsPrefix.trans hp (List.prefix_append _ _)
  · intro e
    have h1 := hp.length_le
    have h2 := congrArg List.length e
    simp at h1 h2
    omega

theorem buildEntryAt_good (P : Bytes → Prop) (fsO fsG fsZ : Fs) (resolved : Bytes) (e : CacheEntry)
    (h : ∀ d, readFile fsO resolved = some d → P d ∧ ∀ g, readFile fsZ (resolved ++ Gen.Assets.gzSuffix) = some g → P g)
    (he : buildEntryAt fsO fsG fsZ resolved = some e) : EntryGood P e := by
  unfold buildEntryAt at he
  split at he
  · cases he
  · rename_i b hb
    injection he with he
    subst he
    obtain ⟨h1, h2⟩ := h b hb
    refine ⟨h1, ?_⟩
    intro g hg
    simp only at hg
    split at hg
    · exact h2 g hg
    · cases hg

/-! ### the filesystem-mode lookups, every interleaving point -/

/-- **One filesystem-mode static lookup, one snapshot per system call.** Whatever predicate `P` holds of every content that is
strictly inside the root in the snapshot of the open that read it (and of everything already cached) holds of the bytes and gzip
bytes served, and of the cache afterwards. -/
theorem getStaticFilesystemAt_good (P : Bytes → Prop) (sn : Snaps) (st : FsState) (path : Bytes)
    (bn : List Name) (hroot : RootOK st.staticsRoot bn) (hL : LeafOnly sn (pathAppend st.staticsRoot path) bn)
    (hn : lexicallyRejected path = false) (hPo : ∀ d, Inside sn.o bn d → P d) (hPz : ∀ g, Inside sn.z bn g → P g)
    (hcache : ∀ k e, (k, e) ∈ st.staticCache → EntryGood P e) :
    (∀ b, (getStaticFilesystemAt sn st path).1 = .found b → BlobGood P b) ∧
    (∀ k e, (k, e) ∈ (getStaticFilesystemAt sn st path).2.staticCache → EntryGood P e) ∧
    (getStaticFilesystemAt sn st path).2.staticsRoot = st.staticsRoot ∧
    (getStaticFilesystemAt sn st path).2.templatesRoot = st.templatesRoot ∧
    (getStaticFilesystemAt sn st path).2.templateCache = st.templateCache := by
  unfold getStaticFilesystemAt
  simp only
  split
  · exact ⟨(by intro b h; cases h), hcache, rfl, rfl, rfl⟩
  rename_i resolved hw
  split
  · exact ⟨(by intro b h; cases h), hcache, rfl, rfl, rfl⟩
  rename_i hc
  split
  · exact ⟨(by intro b h; cases h), hcache, rfl, rfl, rfl⟩
  simp only [Bool.not_eq_true] at hc
  simp only [Bool.not_eq_eq_eq_not] at hc
  have hfresh : ∀ e, buildEntryAt sn.o sn.g sn.z resolved = some e → EntryGood P e := fun e he =>
    buildEntryAt_good P sn.o sn.g sn.z resolved e (fun d hd => by
      obtain ⟨h1, h2⟩ := resolve_phases_inside sn st.staticsRoot bn hroot path resolved hn hw (by simpa using hc) hL d hd
      exact ⟨hPo d h1, fun g hg => hPz g (h2 g hg)⟩) he
  split
  · split
    · exact ⟨(by intro b h; cases h), hcache, rfl, rfl, rfl⟩
    · rename_i e he
      refine ⟨?_, hcache, rfl, rfl, rfl⟩
      intro b h; injection h with h; subst h
      exact hfresh e he
  · split
    · rename_i e he
      refine ⟨?_, hcache, rfl, rfl, rfl⟩
      intro b h; injection h with h; subst h
      exact hcache _ _ (lookup_mem _ _ _ he)
    · split
      · exact ⟨(by intro b h; cases h), hcache, rfl, rfl, rfl⟩
      · rename_i e he
        refine ⟨?_, ?_, rfl, rfl, rfl⟩
        · intro b h; injection h with h; subst h
          exact hfresh e he
        · intro k e' hm
          simp at hm
          rcases hm with ⟨rfl, rfl⟩ | hm
          · exact hfresh _ he
          · exact hcache _ _ hm

/-- **One filesystem-mode template lookup, one snapshot per system call.** -/
theorem getTemplateFilesystemAt_good (P : Bytes → Prop) (sn : Snaps) (st : FsState) (name : Bytes)
    (bn : List Name) (hroot : RootOK st.templatesRoot bn) (hL : LeafOnly sn (pathAppend st.templatesRoot name) bn)
    (hn : lexicallyRejected name = false) (hPo : ∀ d, Inside sn.o bn d → P d)
    (hcache : ∀ k d, (k, d) ∈ st.templateCache → P d) :
    (∀ d, (getTemplateFilesystemAt sn st name).1 = some d → P d) ∧
    (∀ k d, (k, d) ∈ (getTemplateFilesystemAt sn st name).2.templateCache → P d) ∧
    (getTemplateFilesystemAt sn st name).2.staticsRoot = st.staticsRoot ∧
    (getTemplateFilesystemAt sn st name).2.templatesRoot = st.templatesRoot ∧
    (getTemplateFilesystemAt sn st name).2.staticCache = st.staticCache := by
  unfold getTemplateFilesystemAt
  simp only
  split
  · exact ⟨(by intro b h; cases h), hcache, rfl, rfl, rfl⟩
  rename_i resolved hw
  split
  · exact ⟨(by intro b h; cases h), hcache, rfl, rfl, rfl⟩
  rename_i hc
  split
  · exact ⟨(by intro b h; cases h), hcache, rfl, rfl, rfl⟩
  simp only [Bool.not_eq_true] at hc
  simp only [Bool.not_eq_eq_eq_not] at hc
  have hfresh : ∀ d, readFile sn.o resolved = some d → P d := fun d hd =>
    hPo d (resolve_phases_inside sn st.templatesRoot bn hroot name resolved hn hw (by simpa using hc) hL d hd).1
  split
  · rename_i d he
    refine ⟨?_, hcache, rfl, rfl, rfl⟩
    intro b h; injection h with h; subst h
    exact hcache _ _ (lookup_mem _ _ _ he)
  · split
    · exact ⟨(by intro b h; cases h), hcache, rfl, rfl, rfl⟩
    · rename_i d he
      refine ⟨?_, ?_, rfl, rfl, rfl⟩
      · intro b h; injection h with h; subst h
        exact hfresh _ he
      · intro k d' hm
        simp at hm
        rcases hm with ⟨rfl, rfl⟩ | hm
        · exact hfresh _ he
        · exact hcache _ _ hm

/-! ### embedded mode -/

/-- bytes from the snapshot of the first open, gzip bytes from the snapshot of the second -/
def BlobInside (sn : Snaps) (bn : List Name) (b : Blob) : Prop :=
  Inside sn.o bn b.bytes ∧ ∀ g, b.gz = some g → Inside sn.z bn g

/-- **Embedded mode, static lookup, one snapshot per system call.** Bytes come from the compile-time registry entry of exactly this
path, or — for a path of the externalised set — from a regular file strictly inside EXTERNAL_DIR (an absolute, NUL-free, `..`-free
EXTERNAL_DIR that `weakly_canonical` resolves to the canonical directory `bn`, a directory when the file is opened). -/
theorem getStaticEmbeddedAt_good (sn : Snaps) (r : Registry) (path : Bytes) (b : Blob)
    (hn : lexicallyRejected path = false) (h : getStaticEmbeddedAt sn r path = .found b) :
    (∃ a ∈ r.statics, a.path = path ∧ b.bytes = a.bytes ∧ b.gz = a.gz) ∨
    (isExternalPath r path = true ∧
      ∀ bn, isAbs r.externalDir = true → (0 : UInt8) ∉ r.externalDir → dotdot ∉ comps r.externalDir →
        weaklyCanonical sn.s r.externalDir = .ok (renderAbs bn) → (∀ n ∈ bn, Plain n) →
        LeafOnly sn (pathAppend r.externalDir path) bn → sn.o.get bn.reverse = some .dir → BlobInside sn bn b) := by
  unfold getStaticEmbeddedAt at h
  split at h
  · rename_i a ha
    left
    injection h with h; subst h
    unfold findStatic at ha
    split at ha
    · rename_i a' rest hdw
      split at ha
      · rename_i hpath
        injection ha with ha; subst ha
        refine ⟨a', ?_, hpath, rfl, rfl⟩
        have : a' ∈ r.statics.dropWhile (fun a => bytesLt a.path path) := by rw [hdw]; simp
        exact (List.dropWhile_sublist _).subset this
      · cases ha
    · cases ha
  · right
    split at h
    · rename_i hext
      simp only [Bool.and_eq_true, Bool.not_eq_true', List.isEmpty_eq_false_iff] at hext
      refine ⟨hext.2, ?_⟩
      intro bn hea he0 hedd hbase hbn hL hdir
      rw [hbase] at h
      simp only at h
      split at h
      · cases h
      rename_i resolved hw
      split at h
      · cases h
      rename_i hc
      split at h
      · cases h
      simp only [Bool.not_eq_true] at hc
      simp only [Bool.not_eq_eq_eq_not] at hc
      split at h
      · cases h
      rename_i e he
      injection h with h; subst h
      have hstrict : ∀ (fs : Fs) (L : Loc) (d : Bytes), fs.get bn.reverse = some .dir → fs.get L = some (.file d) → L.reverse ≠ bn := by
        intro fs L d hdir' hL' e'
        rw [← e', List.reverse_reverse, hL'] at hdir'
        cases hdir'
      unfold buildEntryAt at he
      split at he
      · cases he
      rename_i d hd
      injection he with he; subst he
      obtain ⟨last, up, hget, hpre, _, hgz⟩ :=
        resolve_phases_loc sn r.externalDir (renderAbs bn) bn path resolved hea he0 hedd hext.1 rfl hbn hn hw (by simpa using hc) hL d hd
      have hs := hstrict sn.o _ _ hdir hget
      refine ⟨⟨_, hget, hpre, hs⟩, ?_⟩
      intro g hg
      simp only [blobOf] at hg
      split at hg
      · have hp : bn <+: up.reverse := prefix_of_prefix_snoc_ne bn up.reverse last (by simpa using hpre) (by simpa using hs)
        refine ⟨_, hgz g hg, ?_, ?_⟩
        · simp only [List.reverse_cons]
          exact List.IsPrefix.trans hp (List.prefix_append _ _)
        · intro e'
          have h1 := hp.length_le
          have h2 := congrArg List.length e'
          simp at h1 h2
          omega
      · cases hg
    · cases h

/-! ### file system at rest: the bytes are those of THE NAMED file -/

/-- in a file system at rest the resolved path is what `realpath` says the request names, and the open reads exactly that file -/
theorem resolve_named_const (fs : Fs) (root : Bytes) (bn : List Name) (hroot : RootOK root bn) (name resolved : Bytes)
    (hn : lexicallyRejected name = false) (hw : weaklyCanonicalAt fs fs (pathAppend root name) = .ok resolved)
    (hc : isContained root resolved = true) (hr : isRegularFile fs resolved = true) :
    ∃ last up d0, kwalk fs true (pathAppend root name) = .ok (last :: up, .file d0) ∧ resolved = renderLoc (last :: up) ∧
      fs.get (last :: up) = some (.file d0) ∧ bn <+: (last :: up).reverse ∧ (last :: up).reverse ≠ bn ∧
      (∀ d, readFile fs resolved = some d → d = d0) ∧
      (∀ g, readFile fs (resolved ++ Gen.Assets.gzSuffix) = some g →
        fs.get ((last ++ Gen.Assets.gzSuffix) :: up) = some (.file g)) := by
  have ha := isAbs_candidate root name hroot.ne hn hroot.abs
  have h0 := no_nul_candidate root name hroot.ne hn hroot.no_nul
  have hdd := no_dotdot_candidate root name hroot.ne hn hroot.no_dotdot
  rcases wcAt_cases fs fs _ _ hw with ⟨L, e, hk, hres⟩ | ⟨hs, hwm⟩
  · subst hres
    obtain ⟨hLok, hg, hpre, hmain, hgz⟩ :=
      canon_open fs _ root bn L e ha h0 hk hroot.eq (fun n hn' => (hroot.plain n hn').1) hc
    obtain ⟨d0, he⟩ := isRegularFile_canon fs L e hLok hg ((kwalk_abs_ok fs true _ h0 ha _ _ hk).2.2.1 rfl) hr
    subst he
    cases L with
    | nil => simp [Fs.get] at hg
    | cons last up =>
      refine ⟨last, up, d0, hk, rfl, hg, hpre, strict_of_candidate fs root bn hroot name hn last up d0 hk, ?_, ?_⟩
      · intro d hd
        have := hmain fs d (dirsPreserved_refl fs) hd
        rw [hg] at this
        injection this with this; injection this with this; exact this.symm
      · intro g hg'
        exact (hgz last up rfl).2 fs g (dirsPreserved_refl fs) hg'
  · exfalso
    obtain ⟨L, d, hk⟩ := (isRegularFile_iff fs resolved).mp hr
    exact wcMissingNoFile fs _ _ ha h0 hdd hs hwm true L d hk

end Iora.Assets
