import IoraModel.Lemmas.TpEff
/-!
# C09 — the controllers (any number of threads calling drain/stop/shutdown, one of them owning construction and destruction)

`_shutdown` is set under the mutex by exactly one thread (the *owner* of the shutdown); only the owner runs a join loop; every
other caller of `shutdown()`/`stop()` waits for `_shutdownComplete`.  `stop()` (ok), `shutdown()` and the destructor are logged
as returned only when a join loop has completed ("quiesced").
-/
namespace Iora.ThreadPool

/-- the codes of `mlog` that mean: `stop()` returned ok (4), `shutdown()` returned (7), the destructor returned (8, 9) -/
def isReturnCode (c : Nat) : Prop := c = 4 ∨ c = 7 ∨ c = 8 ∨ c = 9

/-- the shutdown number a caller on the "already shut down" path of `shutdown()` waits for -/
def pollEp : MPc → Option Nat
  | .sFlagUA e => some e
  | .sDoneZ e => some e
  | _ => none

/-- a controller at `pc` is consistent with the flags -/
structure COk (sh : Shared) (pc : MPc) : Prop where
  own : ownsPc pc = true → sh.shutdown = true
  q : qPc pc = true → sh.quiesced = true
  ctor : ctorPc pc = true → sh.shutdown = false ∧ sh.quiesced = false
  /-- the number read under `_mutex` with `_shutdown` set is that of a shutdown that has begun -/
  ep : ∀ e, pollEp pc = some e → 0 < e ∧ sh.shutdown = true

/-- the flags and the log are consistent -/
structure GOk (sh : Shared) : Prop where
  log : ∀ c, c ∈ sh.mlog → isReturnCode c → sh.quiesced = true
  cq : 0 < sh.complete → sh.quiesced = true
  qs : sh.quiesced = true → sh.shutdown = true
  se : sh.shutdown = true → 0 < sh.epoch

/-- the step does not touch the flags and the log -/
structure FlagsSame (sh sh' : Shared) : Prop where
  shutdown : sh'.shutdown = sh.shutdown
  quiesced : sh'.quiesced = sh.quiesced
  complete : sh'.complete = sh.complete
  mlog : sh'.mlog = sh.mlog
  epoch : sh'.epoch = sh.epoch

theorem FlagsSame.trans {a b c : Shared} (h1 : FlagsSame a b) (h2 : FlagsSame b c) : FlagsSame a c :=
  ⟨h2.shutdown.trans h1.shutdown, h2.quiesced.trans h1.quiesced, h2.complete.trans h1.complete, h2.mlog.trans h1.mlog, h2.epoch.trans h1.epoch⟩

theorem callStep_flags (cfg : Cfg) (sh : Shared) (n t : Nat) (c : CallSt) : FlagsSame sh (callStep cfg sh n t c).1 := by
  cases c with
  | yield_ sc =>
    cases sc with
    | nil => exact ⟨rfl, rfl, rfl, rfl, rfl⟩
    | cons a rest => simp only [callStep]; split <;> exact ⟨rfl, rfl, rfl, rfl, rfl⟩
  | inCall rest cid e =>
    cases e <;> simp only [callStep] <;> (repeat' split) <;> exact ⟨rfl, rfl, rfl, rfl, rfl⟩

theorem bodyEnd_flags (cfg : Cfg) (sh : Shared) (id : Nat) : FlagsSame sh (bodyEnd cfg sh id).1 := by
  unfold bodyEnd; split <;> exact ⟨rfl, rfl, rfl, rfl, rfl⟩

theorem afterWait_flags (cfg : Cfg) (sh : Shared) (t : Tid) (res : Bool) : FlagsSame sh (afterWait cfg sh t res).1 := by
  unfold afterWait; (repeat' split) <;> exact ⟨rfl, rfl, rfl, rfl, rfl⟩

theorem reacq_flags (cfg : Cfg) (sh : Shared) (t : Tid) (late : Bool) : FlagsSame sh (reacq cfg sh t late).1 := by
  unfold reacq
  split
  · have := afterWait_flags cfg { sh with owner := some t, waiting := sh.waiting - 1 } t (waitPred sh)
    exact ⟨this.shutdown, this.quiesced, this.complete, this.mlog, this.epoch⟩
  · split
    · have := afterWait_flags cfg { sh with owner := some t, waiting := sh.waiting - 1 } t true
      exact ⟨this.shutdown, this.quiesced, this.complete, this.mlog, this.epoch⟩
    · exact ⟨rfl, rfl, rfl, rfl, rfl⟩

theorem transW_flags (cfg : Cfg) (sh : Shared) (n t : Nat) (w : WSt) : FlagsSame sh (transW cfg sh n t w).1 := by
  cases w with
  | body id c =>
    simp only [transW]
    have h := callStep_flags cfg sh n t c
    cases hx : (callStep cfg sh n t c).2.1 with
    | more c' => exact h
    | done => exact h.trans (bodyEnd_flags cfg _ id)
  | lock =>
    simp only [transW]; split
    · have := afterWait_flags cfg { sh with owner := some t } t true
      exact ⟨this.shutdown, this.quiesced, this.complete, this.mlog, this.epoch⟩
    · exact ⟨rfl, rfl, rfl, rfl, rfl⟩
  | unlockTask id => simp only [transW, beginTask]; split <;> exact ⟨rfl, rfl, rfl, rfl, rfl⟩
  | bYield id sc =>
    simp only [transW]; split
    · exact bodyEnd_flags cfg sh id
    · exact ⟨rfl, rfl, rfl, rfl, rfl⟩
  | cfgUnlock id again => simp only [transW, taskDone]; split <;> exact ⟨rfl, rfl, rfl, rfl, rfl⟩
  | _ => simp only [transW, beginTask, taskDone] <;> exact ⟨rfl, rfl, rfl, rfl, rfl⟩

theorem transS_flags (cfg : Cfg) (sh : Shared) (n t : Nat) (x : SSt) : FlagsSame sh (transS cfg sh n t x).1 := by
  cases x with
  | run c =>
    simp only [transS]
    have h := callStep_flags cfg sh n t c
    cases hx : (callStep cfg sh n t c).2.1 <;> exact h
  | start sc => simp only [transS]; split <;> exact ⟨rfl, rfl, rfl, rfl, rfl⟩
  | done => exact ⟨rfl, rfl, rfl, rfl, rfl⟩

theorem trans_flags_nonmain (cfg : Cfg) (sh : Shared) (n t : Nat) (th : Thread) (alt : Nat) (h : isMain th = false) :
    FlagsSame sh (trans cfg sh n t th alt).1 := by
  cases th with
  | main pc r => simp [isMain] at h
  | sub x => exact transS_flags cfg sh n t x
  | worker x => exact transW_flags cfg sh n t x

theorem cok_of_flags {sh sh' : Shared} {pc : MPc} (h : COk sh pc) (hf : FlagsSame sh sh') : COk sh' pc :=
  ⟨by rw [hf.shutdown]; exact h.own, by rw [hf.quiesced]; exact h.q, by rw [hf.shutdown, hf.quiesced]; exact h.ctor,
   fun e he => ⟨(h.ep e he).1, by rw [hf.shutdown]; exact (h.ep e he).2⟩⟩

theorem gok_of_flags {sh sh' : Shared} (h : GOk sh) (hf : FlagsSame sh sh') : GOk sh' :=
  ⟨by rw [hf.mlog, hf.quiesced]; exact h.log, by rw [hf.complete, hf.quiesced]; exact h.cq, by rw [hf.quiesced, hf.shutdown]; exact h.qs,
   by rw [hf.shutdown, hf.epoch]; exact h.se⟩

/-- what one step of a controller does to the flags, the log and its own class -/
structure CStep (sh sh' : Shared) (pc pc' : MPc) : Prop where
  cok : COk sh' pc'
  gok : GOk sh'
  /-- entering the owner region happens only by setting the flag -/
  own : ownsPc pc' = true → ownsPc pc = true ∨ sh.shutdown = false
  monoS : sh.shutdown = true → sh'.shutdown = true
  monoQ : sh.quiesced = true → sh'.quiesced = true
  ctor : ctorPc pc' = true → ctorPc pc = true
  /-- the constructor's own steps leave the flags alone -/
  ctorF : ctorPc pc = true → sh'.shutdown = sh.shutdown ∧ sh'.quiesced = sh.quiesced

/-- a controller step that does not touch flags or log and moves monotonically between the classes of pcs -/
theorem cstep_move {sh sh' : Shared} {pc pc' : MPc} (h : COk sh pc) (g : GOk sh) (hf : FlagsSame sh sh')
    (h1 : ownsPc pc' = true → ownsPc pc = true) (h2 : qPc pc' = true → qPc pc = true)
    (h4 : ctorPc pc' = true → ctorPc pc = true)
    (h5 : ∀ e, pollEp pc' = some e → pollEp pc = some e := by simp [pollEp]) : CStep sh sh' pc pc' :=
  ⟨⟨by rw [hf.shutdown]; intro e; exact h.own (h1 e), by rw [hf.quiesced]; intro e; exact h.q (h2 e),
     by rw [hf.shutdown, hf.quiesced]; intro e; exact h.ctor (h4 e), fun e he => ⟨(h.ep e (h5 e he)).1, by rw [hf.shutdown]; exact (h.ep e (h5 e he)).2⟩⟩,
   gok_of_flags g hf, fun e => Or.inl (h1 e), by rw [hf.shutdown]; exact id, by rw [hf.quiesced]; exact id, h4,
   fun _ => ⟨hf.shutdown, hf.quiesced⟩⟩

theorem mem_cons_code {c a : Nat} {l : List Nat} (h : c ∈ a :: l) : c = a ∨ c ∈ l := by simpa using h

theorem log_cons_other {sh : Shared} (g : GOk sh) (x : Nat) (hx : ¬ isReturnCode x) :
    ∀ c, c ∈ x :: sh.mlog → isReturnCode c → sh.quiesced = true := by
  intro c hc hr
  rcases mem_cons_code hc with e | e
  · rw [e] at hr; exact absurd hr hx
  · exact g.log c e hr

/-- a step to a plain pc (outside owner / q / ctor classes) that may append non-return codes or, with `quiesced`, return codes -/
theorem cstep_plain {sh sh' : Shared} {pc pc' : MPc} (g : GOk sh)
    (e1 : sh'.shutdown = sh.shutdown) (e2 : sh'.quiesced = sh.quiesced) (e3 : 0 < sh'.complete → sh.quiesced = true)
    (hl : ∀ c, c ∈ sh'.mlog → isReturnCode c → sh.quiesced = true)
    (h1 : ownsPc pc' = false) (h2 : qPc pc' = false) (h3 : ctorPc pc' = false) (hnc : ctorPc pc = false)
    (h5 : pollEp pc' = none := by simp [pollEp]) (e4 : sh'.epoch = sh.epoch := by rfl) : CStep sh sh' pc pc' := by
  have f1 : ownsPc pc' = true → False := by rw [h1]; intro e; cases e
  have f2 : qPc pc' = true → False := by rw [h2]; intro e; cases e
  have f3 : ctorPc pc' = true → False := by rw [h3]; intro e; cases e
  have f4 : ctorPc pc = true → False := by rw [hnc]; intro e; cases e
  refine ⟨⟨fun e => (f1 e).elim, fun e => (f2 e).elim, fun e => (f3 e).elim, fun e he => by rw [h5] at he; cases he⟩, ⟨?_, ?_, ?_, ?_⟩,
    fun e => (f1 e).elim, ?_, ?_, fun e => (f3 e).elim, fun e => (f4 e).elim⟩
  · rw [e2]; exact hl
  · rw [e2]; exact e3
  · rw [e1, e2]; exact g.qs
  · rw [e1, e4]; exact g.se
  · rw [e1]; exact id
  · rw [e2]; exact id

theorem cstep_shutdownReturn {sh : Shared} {pc : MPc} (r : MRegs) (g : GOk sh) (hq : sh.quiesced = true) (hnc : ctorPc pc = false) :
    CStep sh (shutdownReturn sh r).1 pc (shutdownReturn sh r).2.1 := by
  unfold shutdownReturn
  split <;> exact cstep_plain g rfl rfl (fun _ => hq) (fun _ _ _ => hq) (by simp [ownsPc, seqPc, qPc]) (by simp [qPc]) (by simp [ctorPc]) hnc

theorem cstep_dtorReturn {sh : Shared} {pc : MPc} (r : MRegs) (g : GOk sh) (hq : sh.quiesced = true) (hnc : ctorPc pc = false) :
    CStep sh (dtorReturn sh r).1 pc (dtorReturn sh r).2.1 := by
  unfold dtorReturn
  exact cstep_plain g rfl rfl g.cq (fun _ _ _ => hq) (by simp [ownsPc, seqPc, qPc]) (by simp [qPc]) (by simp [ctorPc]) hnc

theorem cstep_dtorEarly {sh : Shared} {pc : MPc} (r : MRegs) (g : GOk sh) (hnc : ctorPc pc = false)
    (hq : sh.epoch ≤ sh.complete → sh.quiesced = true) :
    CStep sh (dtorEarly sh r).1 pc (dtorEarly sh r).2.1 := by
  unfold dtorEarly
  split
  · next hc => exact cstep_dtorReturn r g (hq hc) hnc
  · exact cstep_plain g rfl rfl g.cq (log_cons_other g 13 (by simp [isReturnCode])) (by simp [ownsPc, seqPc, qPc]) (by simp [qPc]) (by simp [ctorPc]) hnc

theorem cstep_drainReturn {sh : Shared} {pc : MPc} (r : MRegs) (b : Bool) (g : GOk sh) (hnc : ctorPc pc = false) :
    CStep sh (drainReturn sh r b).1 pc (drainReturn sh r b).2.1 := by
  unfold drainReturn
  split
  · split
    · exact cstep_plain g rfl rfl g.cq g.log (by simp [ownsPc, seqPc, qPc]) (by simp [qPc]) (by simp [ctorPc]) hnc
    · exact cstep_plain g rfl rfl g.cq (log_cons_other g 5 (by simp [isReturnCode])) (by simp [ownsPc, seqPc, qPc]) (by simp [qPc]) (by simp [ctorPc]) hnc
  · cases b
    · exact cstep_plain g rfl rfl g.cq (log_cons_other g 2 (by simp [isReturnCode])) (by simp [ownsPc, seqPc, qPc]) (by simp [qPc]) (by simp [ctorPc]) hnc
    · exact cstep_plain g rfl rfl g.cq (log_cons_other g 1 (by simp [isReturnCode])) (by simp [ownsPc, seqPc, qPc]) (by simp [qPc]) (by simp [ctorPc]) hnc

theorem cstep_pollExit {sh : Shared} {pc : MPc} (r : MRegs) (k : Poll) (d : Bool) (h : COk sh pc) (g : GOk sh) (hnc : ctorPc pc = false)
    (hk : k = .drain ∨ ownsPc pc = true) : CStep sh (pollExit sh r k d).1 pc (pollExit sh r k d).2.1 := by
  unfold pollExit
  cases k with
  | drain =>
    simp only []
    split
    · exact cstep_drainReturn r true g hnc
    · exact cstep_plain g rfl rfl g.cq g.log (by simp [ownsPc, seqPc, qPc]) (by simp [qPc]) (by simp [ctorPc]) hnc
  | shut =>
    have hs : ownsPc pc = true := by rcases hk with e | e; cases e; exact e
    exact cstep_move h g ⟨rfl, rfl, rfl, rfl, rfl⟩ (fun _ => hs) (by simp [qPc]) (by simp [ctorPc])
  | race =>
    have hs : ownsPc pc = true := by rcases hk with e | e; cases e; exact e
    exact cstep_move h g ⟨rfl, rfl, rfl, rfl, rfl⟩ (fun _ => hs) (by simp [qPc]) (by simp [ctorPc])
  | dtor =>
    have hs : ownsPc pc = true := by rcases hk with e | e; cases e; exact e
    simp only []
    split <;> exact cstep_move h g ⟨rfl, rfl, rfl, rfl, rfl⟩ (fun _ => hs) (by simp [qPc]) (by simp [ctorPc])

theorem cstep_pollHead {sh : Shared} {pc : MPc} (r : MRegs) (k : Poll) (h : COk sh pc) (g : GOk sh) (hnc : ctorPc pc = false)
    (hk : k = .drain ∨ ownsPc pc = true) : CStep sh (pollHead sh r k).1 pc (pollHead sh r k).2.1 := by
  unfold pollHead
  split
  · rcases hk with e | hs
    · rw [e]; exact cstep_plain g rfl rfl g.cq g.log (by simp [ownsPc, seqPc, qPc]) (by simp [qPc]) (by simp [ctorPc]) hnc
    · exact cstep_move h g ⟨rfl, rfl, rfl, rfl, rfl⟩ (fun _ => hs) (by simp [qPc]) (by simp [ctorPc])
  · exact cstep_pollExit r k false h g hnc hk

theorem cstep_stepMYield (cfg : Cfg) {sh : Shared} (r : MRegs) (g : GOk sh) :
    CStep sh (stepMYield cfg sh r).1 .mYield (stepMYield cfg sh r).2.1 ∨ restartPc (stepMYield cfg sh r).2.1 = true := by
  have plain : ∀ (pc' : MPc) (sh' : Shared), sh'.shutdown = sh.shutdown → sh'.quiesced = sh.quiesced → sh'.complete = sh.complete →
      (∀ c, c ∈ sh'.mlog → isReturnCode c → sh.quiesced = true) →
      ownsPc pc' = false → qPc pc' = false → ctorPc pc' = false → pollEp pc' = none → sh'.epoch = sh.epoch → CStep sh sh' .mYield pc' := by
    intro pc' sh' e1 e2 e3 hl h1 h2 h3 h5 e4
    exact cstep_plain g e1 e2 (by rw [e3]; exact g.cq) hl h1 h2 h3 (by simp [ctorPc]) h5 e4
  unfold stepMYield drainEnter
  (repeat' split) <;> first
    | (right; rfl)
    | (left; exact plain _ _ rfl rfl rfl g.log (by simp [ownsPc, seqPc, qPc]) (by simp [qPc]) (by simp [ctorPc]) (by simp [pollEp]) rfl)
    | (left; exact plain _ _ rfl rfl rfl (log_cons_other g 3 (by simp [isReturnCode])) (by simp [ownsPc, seqPc, qPc]) (by simp [qPc]) (by simp [ctorPc]) (by simp [pollEp]) rfl)
    | (left; exact plain _ _ rfl rfl rfl (log_cons_other g 6 (by simp [isReturnCode])) (by simp [ownsPc, seqPc, qPc]) (by simp [qPc]) (by simp [ctorPc]) (by simp [pollEp]) rfl)
    | (left; exact plain _ _ rfl rfl rfl (log_cons_other g 11 (by simp [isReturnCode])) (by simp [ownsPc, seqPc, qPc]) (by simp [qPc]) (by simp [ctorPc]) (by simp [pollEp]) rfl)

theorem transM_cstep (cfg : Cfg) (sh : Shared) (n t : Nat) (pc : MPc) (r : MRegs) (alt : Nat) (h : COk sh pc) (g : GOk sh)
    (hnr : restartPc pc = false) (hnr' : restartPc (transM cfg sh n t pc r alt).2.1.1 = false) :
    CStep sh (transM cfg sh n t pc r alt).1 pc (transM cfg sh n t pc r alt).2.1.1 := by
  have own : ∀ (o : Option Tid), FlagsSame sh { sh with owner := o } := fun _ => ⟨rfl, rfl, rfl, rfl, rfl⟩
  have gown : ∀ (o : Option Tid), GOk { sh with owner := o } := fun o => gok_of_flags g (own o)
  have hown : ∀ (o : Option Tid), COk { sh with owner := o } pc := fun o => cok_of_flags h (own o)
  have lift : ∀ (o : Option Tid) {pc' : MPc} {sh' : Shared}, CStep { sh with owner := o } sh' pc pc' → CStep sh sh' pc pc' :=
    fun o _ _ c => ⟨c.cok, c.gok, c.own, c.monoS, c.monoQ, c.ctor, c.ctorF⟩
  cases pc with
  | inCall c =>
    simp only [transM]
    have hf := callStep_flags cfg sh n t c
    cases hx : (callStep cfg sh n t c).2.1 <;>
      exact cstep_move h g hf (by simp [ownsPc, seqPc, qPc]) (by simp [qPc]) (by simp [ctorPc])
  | mYield =>
    simp only [transM] at hnr' ⊢
    rcases cstep_stepMYield cfg r g with c | c
    · exact c
    · rw [c] at hnr'; cases hnr'
  | dInfU => simp only [transM]; exact lift none (cstep_pollHead _ .drain (hown none) (gown none) (by simp [ctorPc]) (Or.inl rfl))
  | pollU k =>
    simp only [transM]
    split
    · refine lift none (cstep_pollExit r k true (hown none) (gown none) (by simp [ctorPc]) ?_)
      cases k <;> simp [ownsPc, seqPc]
    · exact cstep_move h g (own none) (by cases k <;> simp [ownsPc, seqPc, qPc]) (by simp [qPc]) (by simp [ctorPc])
  | pollZ k =>
    simp only [transM]
    refine cstep_pollHead _ k h g (by simp [ctorPc]) ?_
    cases k <;> simp [ownsPc, seqPc]
  | finU k =>
    cases k <;> simp only [transM]
    · exact lift none (cstep_drainReturn r false (gown none) (by simp [ctorPc]))
    all_goals exact cstep_move h g (own none) (by simp [ownsPc, seqPc, qPc]) (by simp [qPc]) (by simp [ctorPc])
  | sFlagL =>
    simp only [transM]
    split
    · next hs =>
      have hs' : sh.shutdown = true := by simpa using hs
      exact ⟨⟨by simp [ownsPc, seqPc, qPc], by simp [qPc], by simp [ctorPc], fun e he => by simp [pollEp] at he; rw [← he]; exact ⟨g.se hs', hs'⟩⟩,
        gown (some t), by simp [ownsPc, seqPc, qPc], id, id, by simp [ctorPc], by simp [ctorPc]⟩
    · next hs =>
      have hs' : sh.shutdown = false := by simpa using hs
      refine ⟨⟨fun _ => rfl, by simp [qPc], by simp [ctorPc], by simp [pollEp]⟩, ⟨g.log, g.cq, fun _ => rfl, fun _ => Nat.succ_pos _⟩, fun _ => Or.inr hs', fun _ => rfl, id,
        by simp [ctorPc], by simp [ctorPc]⟩
  | sFlagUA ep =>
    simp only [transM]
    split
    · exact lift none (cstep_dtorEarly r (gown none) (by simp [ctorPc])
        (fun hc => g.cq (Nat.lt_of_lt_of_le (g.se (h.ep ep rfl).2) hc)))
    · split
      · next hc => exact lift none (cstep_shutdownReturn r (gown none) (g.cq (Nat.lt_of_lt_of_le (h.ep ep rfl).1 hc)) (by simp [ctorPc]))
      · exact cstep_move h g (own none) (by simp [ownsPc, seqPc, qPc]) (by simp [qPc]) (by simp [ctorPc])
  | sDoneZ ep =>
    simp only [transM]
    split
    · next hc => exact cstep_shutdownReturn r g (g.cq (Nat.lt_of_lt_of_le (h.ep ep rfl).1 hc)) (by simp [ctorPc])
    · exact cstep_move h g ⟨rfl, rfl, rfl, rfl, rfl⟩ (by simp [ownsPc, seqPc, qPc]) (by simp [qPc]) (by simp [ctorPc])
  | sBcast =>
    simp only [transM]
    split
    · exact cstep_move h g ⟨rfl, rfl, rfl, rfl, rfl⟩ (by simp [ownsPc, seqPc, qPc]) (by simp [qPc]) (by simp [ctorPc])
    · exact cstep_pollHead _ .shut h g (by simp [ctorPc]) (Or.inr (by simp [ownsPc, seqPc]))
  | sChkU =>
    simp only [transM]
    split
    · exact lift none (cstep_pollHead _ .race (hown none) (gown none) (by simp [ctorPc]) (Or.inr (by simp [ownsPc, seqPc])))
    · exact cstep_move h g (own none) (by simp [ownsPc, seqPc, qPc]) (by simp [qPc]) (by simp [ctorPc])
  | jL =>
    simp only [transM]
    have hs := h.own (by simp [ownsPc, seqPc])
    split
    · exact ⟨⟨fun _ => hs, fun _ => rfl, by simp [ctorPc], by simp [pollEp]⟩, ⟨fun _ _ _ => rfl, fun _ => rfl, fun _ => hs, g.se⟩, fun _ => Or.inl (by simp [ownsPc, seqPc]),
        id, fun _ => rfl, by simp [ctorPc], by simp [ctorPc]⟩
    · split
      · exact cstep_move h g ⟨rfl, rfl, rfl, rfl, rfl⟩ (by simp [ownsPc, seqPc, qPc]) (by simp [qPc]) (by simp [ctorPc])
      · exact cstep_move h g ⟨rfl, rfl, rfl, rfl, rfl⟩ id id id
  | jUnone =>
    simp only [transM]
    have hq := h.q (by simp [qPc])
    split
    · exact cstep_move h g (own none) (by simp [ownsPc, seqPc, qPc]) (by simp [qPc]) (by simp [ctorPc])
    · have g' : GOk { sh with owner := none, complete := r.ep } := ⟨g.log, fun _ => hq, g.qs, g.se⟩
      have c := cstep_shutdownReturn (pc := MPc.jUnone) r g' hq (by simp [ctorPc])
      exact ⟨c.cok, c.gok, c.own, c.monoS, c.monoQ, c.ctor, c.ctorF⟩
  | p2Z =>
    simp only [transM]
    split
    · exact cstep_move h g ⟨rfl, rfl, rfl, rfl, rfl⟩ (by simp [ownsPc, seqPc, qPc]) (by simp [qPc]) (by simp [ctorPc])
    · split
      · exact cstep_move h g ⟨rfl, rfl, rfl, rfl, rfl⟩ (by simp [ownsPc, seqPc, qPc]) (by simp [qPc]) (by simp [ctorPc])
      · exact cstep_pollHead _ .dtor h g (by simp [ctorPc]) (Or.inr (by simp [ownsPc, seqPc]))
  | p2Grace => simp only [transM]; exact cstep_pollHead _ .dtor h g (by simp [ctorPc]) (Or.inr (by simp [ownsPc, seqPc]))
  | p5U => simp only [transM]; exact lift none (cstep_dtorReturn r (gown none) (h.q (by simp [qPc])) (by simp [ctorPc]))
  | pollL k =>
    simp only [transM]
    exact cstep_move h g (own (some t)) (by cases k <;> simp [ownsPc, seqPc, qPc]) (by simp [qPc]) (by simp [ctorPc])
  | finL k =>
    simp only [transM]
    exact cstep_move h g (own (some t)) (by cases k <;> simp [ownsPc, seqPc, qPc]) (by simp [qPc]) (by simp [ctorPc])
  | start =>
    simp only [transM]
    split <;> exact cstep_move h g ⟨rfl, rfl, rfl, rfl, rfl⟩ (by simp [ownsPc, seqPc, qPc]) (by simp [qPc]) (by simp [ctorPc])
  | rsL => simp [restartPc] at hnr
  | rsU => simp [restartPc] at hnr
  | stL => simp [restartPc] at hnr
  | stU => simp [restartPc] at hnr
  | kL => simp [restartPc] at hnr
  | kC => simp [restartPc] at hnr
  | kU => simp [restartPc] at hnr
  | _ =>
    simp only [transM] <;> (repeat' split) <;>
    exact cstep_move h g ⟨rfl, rfl, rfl, rfl, rfl⟩ (by simp [ownsPc, seqPc, qPc]) (by simp [qPc]) (by simp [ctorPc])

theorem trans_isMain (cfg : Cfg) (sh : Shared) (n t : Nat) (th : Thread) (alt : Nat) :
    isMain (trans cfg sh n t th alt).2.1 = isMain th := by
  cases th <;> rfl

theorem calm_not_detach (pc : MPc) (w : Tid) (h : calmPc pc = true) : pc ≠ .jDetach w := by
  intro e; rw [e] at h; simp [calmPc] at h

theorem transM_noDetach (cfg : Cfg) (hdet : cfg.detached = false) (sh : Shared) (n t : Nat) (pc : MPc) (r : MRegs) (alt : Nat) (w : Tid) :
    (transM cfg sh n t pc r alt).2.1.1 ≠ .jDetach w := by
  cases pc with
  | inCall c =>
    simp only [transM]
    cases (callStep cfg sh n t c).2.1 <;> simp
  | jU w' => simp [transM, hdet]
  | mYield => simp only [transM]; exact calm_not_detach _ w (stepMYield_calm cfg sh r)
  | dInfU => simp only [transM]; exact calm_not_detach _ w (pollHead_calm _ _ _)
  | pollZ k => simp only [transM]; exact calm_not_detach _ w (pollHead_calm _ _ _)
  | p2Grace => simp only [transM]; exact calm_not_detach _ w (pollHead_calm _ _ _)
  | p5U => simp only [transM]; exact calm_not_detach _ w (dtorReturn_calm { sh with owner := none } r)
  | pollU k =>
    simp only [transM]; split
    · exact calm_not_detach _ w (pollExit_calm _ _ _ _)
    · simp
  | finU k =>
    cases k <;> simp only [transM]
    · exact calm_not_detach _ w (drainReturn_calm { sh with owner := none } r false)
    all_goals simp
  | sFlagUA ep =>
    simp only [transM]; split
    · exact calm_not_detach _ w (dtorEarly_calm { sh with owner := none } r)
    · split
      · exact calm_not_detach _ w (shutdownReturn_calm { sh with owner := none } r)
      · simp
  | sDoneZ ep =>
    simp only [transM]; split
    · exact calm_not_detach _ w (shutdownReturn_calm sh r)
    · simp
  | sBcast =>
    simp only [transM]; split
    · simp
    · exact calm_not_detach _ w (pollHead_calm _ _ _)
  | sChkU =>
    simp only [transM]; split
    · exact calm_not_detach _ w (pollHead_calm _ _ _)
    · simp
  | jUnone =>
    simp only [transM]; split
    · simp
    · exact calm_not_detach _ w (shutdownReturn_calm _ r)
  | p2Z =>
    simp only [transM]; split
    · simp
    · split
      · simp
      · exact calm_not_detach _ w (pollHead_calm _ _ _)
  | _ => simp only [transM] <;> (repeat' split) <;> simp

theorem trans_noDetach (cfg : Cfg) (hdet : cfg.detached = false) (sh : Shared) (n t : Nat) (th : Thread) (alt : Nat) (w : Tid) (r : MRegs) :
    (trans cfg sh n t th alt).2.1 ≠ .main (.jDetach w) r := by
  cases th with
  | main pc r0 =>
    simp only [trans]
    intro e
    injection e with e1 _
    exact transM_noDetach cfg hdet sh n t pc r0 alt w e1
  | sub x => simp [trans]
  | worker x => simp [trans]

theorem enabled_join (s : St) (w : Tid) (r : MRegs) (h : enabled s (.main (.jJoin w) r) = true) :
    ∃ tj, s.thr[w]? = some tj ∧ isFinished tj = true := by
  simp only [enabled] at h
  cases hx : s.thr[w]? with
  | none => rw [hx] at h; simp at h
  | some tj => rw [hx] at h; exact ⟨tj, rfl, h⟩


theorem main_not_asleep (x y : Thread) (h : isMain x = true) (hw : WokeFrom x y) : y = x := by
  rcases hw with e | ⟨ha, _⟩
  · exact e
  · cases x with
    | main pc r => simp [isAsleep] at ha
    | sub z => simp [isMain] at h
    | worker z => simp [isMain] at h

end Iora.ThreadPool
