import IoraModel.Model.JsonFileStore
namespace Iora.Jfs
open Iora Iora.Kv

theorem saveOps_snap (fs : Fs) (data : Bytes) : (applyAll fs (saveOps data)).snap = some data := by
  simp [saveOps, applyAll, FsOp.apply, Fs.set, Fs.get]

/-- every crash image of one flush: the store file is untouched, or it is the complete new text -/
theorem crash_one (fs : Fs) (data : Bytes) (k cut : Nat) :
    loaded (crashImage fs (saveOps data) k cut) = loaded fs ∨ loaded (crashImage fs (saveOps data) k cut) = some data := by
  unfold loaded crashImage saveOps
  match k with
  | 0 => left; simp [applyAll, FsOp.apply, Fs.set, Fs.get]
  | 1 => left; simp [applyAll, FsOp.apply, Fs.set, Fs.get]
  | 2 => left; simp [applyAll, FsOp.apply, Fs.set, Fs.get]
  | n + 3 => right; simp [applyAll, FsOp.apply, Fs.set, Fs.get]

/-- the working tree has the temp-file + rename shape (fails to build if `saveToFile` rewrites in place) -/
theorem saveToFile_eq (data : Bytes) : saveToFile data = saveOps data := by
  have h : Gen.Kv.jsonSaveViaTempRename = true := by decide
  simp [saveToFile, h]

theorem flushAll_snap (fs : Fs) (datas : List Bytes) (d : Bytes) : (flushAll fs (datas ++ [d])).snap = some d := by
  simp only [flushAll, List.foldl_append, List.foldl_cons, List.foldl_nil, saveToFile_eq]
  exact saveOps_snap _ d

end Iora.Jfs
