import IoraModel.Model.Http1Spec
import IoraModel.Lemmas.HttpClient
/-
Exactness of the client framing model on rendered messages of the reference syntax (`Model/Http1Spec.lean`).
-/
namespace Iora.Http
open Iora Iora.Http.Spec

/-! ### small list facts -/

theorem findAux_byte_skip (b : UInt8) : ∀ (l r : Bytes) (i : Nat), (∀ c ∈ l, c ≠ b) →
    findAux [b] (l ++ b :: r) i = some (i + l.length) := by
  intro l
  induction l with
  | nil => intro r i _; simp [findAux]
  | cons c cs ih =>
    intro r i h
    have hc : c ≠ b := h c (by simp)
    have hne : ¬ ((b == c) = true) := by simpa using fun h => hc h.symm
    simp only [List.cons_append, findAux, List.isPrefixOf_cons₂, hne, Bool.false_and, Bool.false_eq_true, ↓reduceIte]
    rw [ih r (i + 1) (fun c hc => h c (by simp [hc]))]
    simp only [List.length_cons]
    congr 1; omega

theorem getElem?_append_cons (a : Bytes) (c : UInt8) (r : Bytes) : (a ++ c :: r)[a.length]? = some c := by
  rw [List.getElem?_append_right (Nat.le_refl _)]; simp

theorem takeWhile_append_stop (p : UInt8 → Bool) : ∀ (a b : Bytes), (∀ c ∈ a, p c = true) →
    (∀ c, b.head? = some c → p c = false) → (a ++ b).takeWhile p = a := by
  intro a
  induction a with
  | nil =>
    intro b _ hb
    cases b with
    | nil => rfl
    | cons c cs => simp [List.takeWhile, hb c rfl]
  | cons x xs ih =>
    intro b ha hb
    simp only [List.cons_append, List.takeWhile, ha x (by simp)]
    rw [ih b (fun c hc => ha c (by simp [hc])) hb]

/-! ### digit tokens -/

theorem digitVal16_hex (c : UInt8) (v : Nat) (h : digitVal 16 c = some v) : isHexDigit c = true ∧ c ≠ 10 ∧ c ≠ 13 := by
  unfold digitVal at h
  unfold isHexDigit
  simp only at h
  refine ⟨?_, ?_, ?_⟩
  · split at h <;> rename_i hv
    · split at hv
      · rename_i h1; simp [h1]
      · split at hv
        · rename_i _ h2; simp [h2]
        · split at hv
          · rename_i _ _ h3; simp [h3]
          · cases hv
    · cases h
  · intro hc; subst hc; simp at h
  · intro hc; subst hc; simp at h

theorem tokFold_ge (base : Nat) (hb : 1 ≤ base) : ∀ (tok : Bytes) (acc n : Nat), tokFold base tok acc = some n → acc ≤ n := by
  intro tok
  induction tok with
  | nil => intro acc n h; simp [tokFold] at h; omega
  | cons c cs ih =>
    intro acc n h
    simp only [tokFold] at h
    cases hd : digitVal base c with
    | none => rw [hd] at h; cases h
    | some v =>
      rw [hd] at h
      have := ih _ _ h
      have : acc ≤ acc * base := Nat.le_mul_of_pos_right acc hb
      omega

theorem parseDigits_of_tokFold (base : Nat) (hb : 1 ≤ base) : ∀ (tok : Bytes) (acc n : Nat),
    tokFold base tok acc = some n → n < 2 ^ 64 → parseDigits base tok acc = some n := by
  intro tok
  induction tok with
  | nil => intro acc n h _; simpa [tokFold, parseDigits] using h
  | cons c cs ih =>
    intro acc n h hn
    simp only [tokFold] at h
    simp only [parseDigits]
    cases hd : digitVal base c with
    | none => rw [hd] at h; cases h
    | some v =>
      rw [hd] at h
      have hge := tokFold_ge base hb _ _ _ h
      have hlt : acc * base + v < 2 ^ 64 := by omega
      simp only [hlt, ↓reduceIte]
      exact ih _ _ h hn

theorem parseFullUInt_of_tokValue (base : Nat) (hb : 1 ≤ base) (tok : Bytes) (n : Nat)
    (h : tokValue base tok = some n) (hn : n < 2 ^ 64) : parseFullUInt base tok = some n := by
  unfold tokValue at h
  unfold parseFullUInt
  split at h
  · cases h
  · rename_i hne
    simp only [hne, Bool.false_eq_true, ↓reduceIte]
    exact parseDigits_of_tokFold base hb tok 0 n h hn

theorem tokFold_digits (base : Nat) : ∀ (tok : Bytes) (acc n : Nat), tokFold base tok acc = some n →
    ∀ c ∈ tok, ∃ v, digitVal base c = some v := by
  intro tok
  induction tok with
  | nil => intro acc n _ c hc; simp at hc
  | cons x xs ih =>
    intro acc n h c hc
    simp only [tokFold] at h
    cases hd : digitVal base x with
    | none => rw [hd] at h; cases h
    | some v =>
      rw [hd] at h
      rcases List.mem_cons.mp hc with rfl | hc
      · exact ⟨v, hd⟩
      · exact ih _ _ h c hc

theorem tokValue16_facts (tok : Bytes) (n : Nat) (h : tokValue 16 tok = some n) :
    tok ≠ [] ∧ (∀ c ∈ tok, isHexDigit c = true) ∧ (∀ c ∈ tok, c ≠ 10) := by
  unfold tokValue at h
  split at h
  · cases h
  · rename_i hne
    refine ⟨by simpa using hne, ?_, ?_⟩
    · intro c hc
      obtain ⟨v, hv⟩ := tokFold_digits 16 tok 0 n h c hc
      exact (digitVal16_hex c v hv).1
    · intro c hc
      obtain ⟨v, hv⟩ := tokFold_digits 16 tok 0 n h c hc
      exact (digitVal16_hex c v hv).2.1

/-! ### chunk extensions -/

theorem isOWS_cases (c : UInt8) (h : isOWS c = true) : c = 32 ∨ c = 9 := by
  simpa [isOWS] using h

theorem ext_facts (ext : Bytes) (h : ExtOK ext) :
    (∀ c ∈ ext, c ≠ 10) ∧ (∀ c, ext.head? = some c → isHexDigit c = false) ∧
    chunkExtOk ext = true := by
  rcases h with rfl | ⟨bws, rest, rfl, hb, hr⟩
  · simp [chunkExtOk]
  · have hws : (bws ++ 59 :: rest).takeWhile isOWS = bws :=
      takeWhile_append_stop isOWS bws (59 :: rest) hb (by intro c hc; simp at hc; subst hc; decide)
    refine ⟨?_, ?_, ?_⟩
    · intro c hc
      rcases List.mem_append.mp hc with hc | hc
      · rcases isOWS_cases c (hb c hc) with rfl | rfl <;> decide
      · rcases List.mem_cons.mp hc with rfl | hc
        · decide
        · exact (hr c hc).2
    · intro c hc
      cases bws with
      | nil => simp at hc; subst hc; decide
      | cons b bs =>
        simp at hc; subst hc
        rcases isOWS_cases b (hb b (by simp)) with rfl | rfl <;> decide
    · unfold chunkExtOk; rw [hws]; simp

/-! ### the chunk-size line -/

theorem sizeLine_exact (pre tok ext rest : Bytes) (cap n : Nat) (ht : tokValue 16 tok = some n) (hn : n < 2 ^ 64)
    (hcap : n ≤ cap) (he : ExtOK ext) :
    sizeLine (pre ++ (tok ++ ext ++ crlf ++ rest)) cap pre.length = .ok n (pre.length + (tok ++ ext).length + 2) := by
  obtain ⟨htne, hthex, ht10⟩ := tokValue16_facts tok n ht
  obtain ⟨he10, hehead, hetail⟩ := ext_facts ext he
  have hdrop : (pre ++ (tok ++ ext ++ crlf ++ rest)).drop pre.length = (tok ++ ext ++ [13]) ++ 10 :: rest := by
    rw [List.drop_left']; simp [crlf]; rfl
  have hfind : findAux [10] ((tok ++ ext ++ [13]) ++ 10 :: rest) 0 = some ((tok ++ ext).length + 1) := by
    rw [findAux_byte_skip 10 (tok ++ ext ++ [13]) rest 0]
    · simp; omega
    · intro c hc
      rcases List.mem_append.mp hc with hc | hc
      · rcases List.mem_append.mp hc with hc | hc
        · exact ht10 c hc
        · exact he10 c hc
      · simp at hc; subst hc; decide
  have hidx : pre.length + ((tok ++ ext).length + 1) - 1 = (pre ++ (tok ++ ext)).length := by
    simp only [List.length_append]; omega
  have hget : (pre ++ (tok ++ ext ++ crlf ++ rest))[pre.length + ((tok ++ ext).length + 1) - 1]? = some 13 := by
    rw [hidx]
    have : pre ++ (tok ++ ext ++ crlf ++ rest) = (pre ++ (tok ++ ext)) ++ 13 :: (10 :: rest) := by simp [crlf]
    rw [this]
    exact getElem?_append_cons _ _ _
  have hline : ((tok ++ ext ++ [13]) ++ 10 :: rest).take (pre.length + ((tok ++ ext).length + 1) - 1 - pre.length) = tok ++ ext := by
    have : pre.length + ((tok ++ ext).length + 1) - 1 - pre.length = (tok ++ ext).length := by omega
    rw [this]
    have : (tok ++ ext ++ [13]) ++ 10 :: rest = (tok ++ ext) ++ (13 :: 10 :: rest) := by simp
    rw [this, List.take_left']
    rfl
  have hrun : (tok ++ ext).takeWhile isHexDigit = tok := takeWhile_append_stop isHexDigit tok ext hthex hehead
  have hparse := parseFullUInt_of_tokValue 16 (by omega) tok n ht hn
  unfold sizeLine
  rw [hdrop, hfind]
  simp only [hget, hline, hrun]
  have htne' : tok.isEmpty = false := by cases tok <;> simp_all
  simp only [ne_eq, not_true_eq_false, or_false, htne', Bool.false_eq_true, ↓reduceIte, hparse]
  have h0 : ¬ (pre.length + ((tok ++ ext).length + 1) = 0) := by omega
  have hcap' : ¬ (n > cap) := by omega
  simp only [h0, ↓reduceIte, hcap', List.drop_left']
  simp only [hetail, ↓reduceIte]
  congr 1

/-! ### one data chunk -/

theorem chunkStep_exact (pre rest : Bytes) (cap : Nat) (c : Chunk) (hc : c.WF cap) (st : ChunkState)
    (hp : st.pos = pre.length) :
    chunkStep (pre ++ (c.render ++ rest)) cap st =
      .next { pos := pre.length + c.render.length, decoded := st.decoded ++ c.data, messageEnd := st.messageEnd } := by
  have hbuf : pre ++ (c.render ++ rest) = pre ++ (c.tok ++ c.ext ++ crlf ++ (c.data ++ crlf ++ rest)) := by
    simp [Chunk.render]
  have hsl := sizeLine_exact pre c.tok c.ext (c.data ++ crlf ++ rest) cap c.data.length hc.size hc.small64 hc.small hc.ext_ok
  have hn0 : c.data.length ≠ 0 := by
    have := hc.nonempty
    cases hd : c.data with
    | nil => exact absurd hd this
    | cons a b => simp
  unfold chunkStep
  rw [hp, hbuf, hsl]
  simp only [hn0, ↓reduceIte]
  -- the buffer as prefix ++ data ++ CR LF rest
  have hP : pre ++ (c.tok ++ c.ext ++ crlf ++ (c.data ++ crlf ++ rest)) =
      (pre ++ (c.tok ++ c.ext) ++ crlf) ++ (c.data ++ (13 :: 10 :: rest)) := by simp [crlf]
  have hPl : (pre ++ (c.tok ++ c.ext) ++ crlf).length = pre.length + (c.tok ++ c.ext).length + 2 := by
    simp [crlf]; omega
  have hlen : ¬ ((pre ++ (c.tok ++ c.ext ++ crlf ++ (c.data ++ crlf ++ rest))).length < pre.length + (c.tok ++ c.ext).length + 2 ∨
      (pre ++ (c.tok ++ c.ext ++ crlf ++ (c.data ++ crlf ++ rest))).length - (pre.length + (c.tok ++ c.ext).length + 2) < c.data.length ∨
      (pre ++ (c.tok ++ c.ext ++ crlf ++ (c.data ++ crlf ++ rest))).length - (pre.length + (c.tok ++ c.ext).length + 2) - c.data.length < 2) := by
    simp [crlf]; omega
  simp only [hlen, ↓reduceIte]
  have hg1 : (pre ++ (c.tok ++ c.ext ++ crlf ++ (c.data ++ crlf ++ rest)))[pre.length + (c.tok ++ c.ext).length + 2 + c.data.length]? = some 13 := by
    have e : pre ++ (c.tok ++ c.ext ++ crlf ++ (c.data ++ crlf ++ rest)) =
        ((pre ++ (c.tok ++ c.ext) ++ crlf) ++ c.data) ++ 13 :: (10 :: rest) := by simp [crlf]
    have l : pre.length + (c.tok ++ c.ext).length + 2 + c.data.length = ((pre ++ (c.tok ++ c.ext) ++ crlf) ++ c.data).length := by
      simp [crlf]; omega
    rw [e, l]; exact getElem?_append_cons _ _ _
  have hg2 : (pre ++ (c.tok ++ c.ext ++ crlf ++ (c.data ++ crlf ++ rest)))[pre.length + (c.tok ++ c.ext).length + 2 + c.data.length + 1]? = some 10 := by
    have e : pre ++ (c.tok ++ c.ext ++ crlf ++ (c.data ++ crlf ++ rest)) =
        (((pre ++ (c.tok ++ c.ext) ++ crlf) ++ c.data) ++ [13]) ++ 10 :: rest := by simp [crlf]
    have l : pre.length + (c.tok ++ c.ext).length + 2 + c.data.length + 1 = (((pre ++ (c.tok ++ c.ext) ++ crlf) ++ c.data) ++ [13]).length := by
      simp [crlf]; omega
    rw [e, l]; exact getElem?_append_cons _ _ _
  have hd : ((pre ++ (c.tok ++ c.ext ++ crlf ++ (c.data ++ crlf ++ rest))).drop (pre.length + (c.tok ++ c.ext).length + 2)).take c.data.length = c.data := by
    rw [hP, ← hPl, List.drop_left', List.take_left']
    · rfl
    · rfl
  simp only [hg1, hg2, hd, ne_eq, not_true_eq_false, or_self, ↓reduceIte]
  congr 2
  simp [Chunk.render, crlf]; omega

/-! ### trailer section and last chunk -/

theorem trailerLoop_line (pre t rest : Bytes) (hne : t ≠ []) (ht : NoCRLF t) :
    trailerLoop (pre ++ (t ++ crlf ++ rest)) pre.length =
      trailerLoop (pre ++ (t ++ crlf ++ rest)) (pre.length + t.length + 2) := by
  have hlt : pre.length < (pre ++ (t ++ crlf ++ rest)).length := by
    cases t with
    | nil => exact absurd rfl hne
    | cons a b => simp
  have hdrop : (pre ++ (t ++ crlf ++ rest)).drop pre.length = (t ++ [13]) ++ 10 :: rest := by
    rw [List.drop_left']; simp [crlf]; rfl
  have hfind : findAux [10] ((t ++ [13]) ++ 10 :: rest) 0 = some (t.length + 1) := by
    rw [findAux_byte_skip 10 (t ++ [13]) rest 0]
    · simp
    · intro c hc
      rcases List.mem_append.mp hc with hc | hc
      · exact (ht c hc).2
      · simp at hc; subst hc; decide
  have hget : (pre ++ (t ++ crlf ++ rest))[pre.length + (t.length + 1) - 1]? = some 13 := by
    have e : pre ++ (t ++ crlf ++ rest) = (pre ++ t) ++ 13 :: (10 :: rest) := by simp [crlf]
    have l : pre.length + (t.length + 1) - 1 = (pre ++ t).length := by simp
    rw [e, l]; exact getElem?_append_cons _ _ _
  have htl : 0 < t.length := List.length_pos_iff.mpr hne
  rw [trailerLoop]
  simp only [hlt, ↓reduceDIte, hdrop, hfind, hget]
  have h1 : ¬ (pre.length + (t.length + 1) = 0 ∨ ¬ (some (13 : UInt8) = some 13)) := by simp
  have h2 : ¬ (pre.length + (t.length + 1) - 1 = pre.length) := by omega
  simp only [ne_eq, h1, ↓reduceIte, h2]
  congr 1

theorem trailerLoop_end (pre rest : Bytes) :
    trailerLoop (pre ++ (crlf ++ rest)) pre.length = .complete (pre.length + 2) := by
  have hlt : pre.length < (pre ++ (crlf ++ rest)).length := by simp [crlf]
  have hdrop : (pre ++ (crlf ++ rest)).drop pre.length = [13] ++ 10 :: rest := by
    rw [List.drop_left']; simp [crlf]; rfl
  have hfind : findAux [10] ([13] ++ 10 :: rest) 0 = some 1 := by
    rw [findAux_byte_skip 10 [13] rest 0]
    · rfl
    · intro c hc; simp at hc; subst hc; decide
  have hget : (pre ++ (crlf ++ rest))[pre.length + 1 - 1]? = some 13 := by
    have e : pre ++ (crlf ++ rest) = pre ++ 13 :: (10 :: rest) := by simp [crlf]
    have l : pre.length + 1 - 1 = pre.length := by omega
    rw [e, l]; exact getElem?_append_cons _ _ _
  rw [trailerLoop]
  simp only [hlt, ↓reduceDIte, hdrop, hfind, hget]
  have h1 : ¬ (pre.length + 1 = 0 ∨ ¬ (some (13 : UInt8) = some 13)) := by simp
  simp only [ne_eq, h1, ↓reduceIte]
  simp

theorem trailerLoop_exact : ∀ (ts : List Bytes) (pre rest : Bytes), (∀ t ∈ ts, t ≠ [] ∧ NoCRLF t) →
    trailerLoop (pre ++ ((ts.map (· ++ crlf)).flatten ++ crlf ++ rest)) pre.length =
      .complete (pre.length + ((ts.map (· ++ crlf)).flatten).length + 2) := by
  intro ts
  induction ts with
  | nil => intro pre rest _; simpa using trailerLoop_end pre rest
  | cons t ts ih =>
    intro pre rest h
    have ht := h t (by simp)
    have e : pre ++ (((t :: ts).map (· ++ crlf)).flatten ++ crlf ++ rest) =
        pre ++ (t ++ crlf ++ ((ts.map (· ++ crlf)).flatten ++ crlf ++ rest)) := by simp
    rw [e, trailerLoop_line pre t _ ht.1 ht.2]
    have e2 : pre ++ (t ++ crlf ++ ((ts.map (· ++ crlf)).flatten ++ crlf ++ rest)) =
        (pre ++ t ++ crlf) ++ ((ts.map (· ++ crlf)).flatten ++ crlf ++ rest) := by simp
    have l2 : pre.length + t.length + 2 = (pre ++ t ++ crlf).length := by simp [crlf]; omega
    rw [e2, l2, ih (pre ++ t ++ crlf) rest (fun t' ht' => h t' (by simp [ht']))]
    simp [crlf]; omega

theorem chunkStep_last (pre rest : Bytes) (cap : Nat) (l : LastChunk) (hl : l.WF) (st : ChunkState)
    (hp : st.pos = pre.length) :
    chunkStep (pre ++ (l.render ++ rest)) cap st = .complete (pre.length + l.render.length) := by
  have hbuf : pre ++ (l.render ++ rest) =
      pre ++ (l.tok ++ l.ext ++ crlf ++ ((l.trailers.map (· ++ crlf)).flatten ++ crlf ++ rest)) := by
    simp [LastChunk.render]
  have hsl := sizeLine_exact pre l.tok l.ext ((l.trailers.map (· ++ crlf)).flatten ++ crlf ++ rest) cap 0 hl.size
    (by decide) (Nat.zero_le _) hl.ext_ok
  unfold chunkStep
  rw [hp, hbuf, hsl]
  simp only [↓reduceIte]
  have e : pre ++ (l.tok ++ l.ext ++ crlf ++ ((l.trailers.map (· ++ crlf)).flatten ++ crlf ++ rest)) =
      (pre ++ (l.tok ++ l.ext) ++ crlf) ++ ((l.trailers.map (· ++ crlf)).flatten ++ crlf ++ rest) := by simp
  have ln : pre.length + (l.tok ++ l.ext).length + 2 = (pre ++ (l.tok ++ l.ext) ++ crlf).length := by simp [crlf]; omega
  rw [e, ln, trailerLoop_exact l.trailers _ rest hl.trailers_ok]
  congr 1
  simp [LastChunk.render, crlf]; omega

/-! ### the whole chunked body -/

theorem advanceChunked_exact (cap : Nat) (l : LastChunk) (hl : l.WF) (rest : Bytes) :
    ∀ (cs : List Chunk) (pre : Bytes) (st : ChunkState), (∀ c ∈ cs, c.WF cap) → st.pos = pre.length →
    advanceChunked (pre ++ (renderChunks cs ++ l.render ++ rest)) cap st =
      (.complete, { pos := pre.length + (renderChunks cs).length, decoded := st.decoded ++ chunksData cs,
                    messageEnd := pre.length + (renderChunks cs).length + l.render.length }) := by
  have hlne : 0 < l.render.length := by simp [LastChunk.render, crlf]; omega
  intro cs
  induction cs with
  | nil =>
    intro pre st _ hp
    have hlt : st.pos < (pre ++ (renderChunks [] ++ l.render ++ rest)).length := by
      simp [renderChunks]; omega
    have hs := chunkStep_last pre rest cap l hl st hp
    have e : pre ++ (renderChunks [] ++ l.render ++ rest) = pre ++ (l.render ++ rest) := by simp [renderChunks]
    rw [e] at hlt ⊢
    rw [advanceChunked_complete _ cap st _ hlt hs]
    simp [renderChunks, chunksData, hp]
  | cons c cs ih =>
    intro pre st hcs hp
    have hc := hcs c (by simp)
    have e : pre ++ (renderChunks (c :: cs) ++ l.render ++ rest) =
        pre ++ (c.render ++ (renderChunks cs ++ l.render ++ rest)) := by simp [renderChunks]
    have hlt : st.pos < (pre ++ (c.render ++ (renderChunks cs ++ l.render ++ rest))).length := by
      simp [hp]; omega
    have hs := chunkStep_exact pre (renderChunks cs ++ l.render ++ rest) cap c hc st hp
    rw [e, advanceChunked_next _ cap st _ hlt hs]
    have e2 : pre ++ (c.render ++ (renderChunks cs ++ l.render ++ rest)) =
        (pre ++ c.render) ++ (renderChunks cs ++ l.render ++ rest) := by simp
    rw [e2, ih (pre ++ c.render) _ (fun c' hc' => hcs c' (by simp [hc'])) (by simp)]
    simp [renderChunks, chunksData]
    omega

/-! ### the header section: terminator search and line splitting -/

theorem findAux_crlf2_skip : ∀ (l r : Bytes) (i : Nat), (∀ c ∈ l, c ≠ 13) →
    findAux crlf2 (l ++ r) i = findAux crlf2 r (i + l.length) := by
  intro l
  induction l with
  | nil => intro r i _; simp
  | cons c cs ih =>
    intro r i h
    have hc : c ≠ 13 := h c (by simp)
    have hne : ¬ (((13 : UInt8) == c) = true) := by simpa using fun h => hc h.symm
    simp only [List.cons_append, findAux, crlf2, List.isPrefixOf_cons₂, hne, Bool.false_and, Bool.false_eq_true, ↓reduceIte]
    have := ih r (i + 1) (fun c hc => h c (by simp [hc]))
    simp only [crlf2] at this
    rw [this]
    simp only [List.length_cons]
    congr 1; omega

theorem findAux_crlf2_sep (r : Bytes) (i : Nat) (hr : ∀ c, r.head? = some c → c ≠ 13) :
    findAux crlf2 (13 :: 10 :: r) i = findAux crlf2 r (i + 2) := by
  have h1 : crlf2.isPrefixOf (13 :: 10 :: r) = false := by
    cases r with
    | nil => rfl
    | cons c cs =>
      have : c ≠ 13 := hr c rfl
      have hne : ((13 : UInt8) == c) = false := by simpa using fun h => this h.symm
      simp [crlf2, List.isPrefixOf_cons₂, hne]
  have h2 : crlf2.isPrefixOf (10 :: r) = false := rfl
  simp only [findAux, h1, h2, Bool.false_eq_true, ↓reduceIte]

/-- a header line: non-empty, no CR -/
def LineOK (l : Bytes) : Prop := l ≠ [] ∧ ∀ c ∈ l, c ≠ 13

theorem joinCRLF_head (l : Bytes) (ls : List Bytes) (hl : LineOK l) (rest : Bytes) :
    ∀ c, (joinCRLF (l :: ls) ++ rest).head? = some c → c ≠ 13 := by
  intro c hc
  cases l with
  | nil => exact absurd rfl hl.1
  | cons a as =>
    cases ls with
    | nil => simp [joinCRLF] at hc; subst hc; exact hl.2 a (by simp)
    | cons b bs => simp [joinCRLF] at hc; subst hc; exact hl.2 a (by simp)

theorem find_header_end : ∀ (ls : List Bytes) (rest : Bytes) (i : Nat), ls ≠ [] → (∀ l ∈ ls, LineOK l) →
    findAux crlf2 (joinCRLF ls ++ crlf2 ++ rest) i = some (i + (joinCRLF ls).length) := by
  intro ls
  induction ls with
  | nil => intro rest i h; exact absurd rfl h
  | cons l ls ih =>
    intro rest i _ hall
    have hl := hall l (by simp)
    cases ls with
    | nil =>
      simp only [joinCRLF, List.append_assoc]
      rw [findAux_crlf2_skip l _ i hl.2]
      simp [findAux, crlf2]
    | cons l2 ls2 =>
      have e : joinCRLF (l :: l2 :: ls2) ++ crlf2 ++ rest = l ++ (13 :: 10 :: (joinCRLF (l2 :: ls2) ++ crlf2 ++ rest)) := by
        simp [joinCRLF, crlf]
      rw [e, findAux_crlf2_skip l _ i hl.2]
      have hl2 := hall l2 (by simp)
      rw [findAux_crlf2_sep _ _ (by
        intro c hc
        have : (joinCRLF (l2 :: ls2) ++ (crlf2 ++ rest)).head? = some c := by simpa using hc
        exact joinCRLF_head l2 ls2 hl2 _ c this)]
      rw [ih rest _ (by simp) (fun l' hl' => hall l' (by simp [hl']))]
      simp [joinCRLF, crlf]; omega

theorem splitCRLF_noCR : ∀ (l : Bytes), (∀ c ∈ l, c ≠ 13) → splitCRLF l = [l] := by
  intro l
  induction l with
  | nil => intro _; rfl
  | cons c cs ih =>
    intro h
    cases cs with
    | nil => rfl
    | cons d ds =>
      have hc : c ≠ 13 := h c (by simp)
      have := ih (fun c hc => h c (by simp [hc]))
      simp only [splitCRLF, hc, false_and, ↓reduceIte, this]

theorem splitCRLF_line : ∀ (l r : Bytes), (∀ c ∈ l, c ≠ 13) → splitCRLF (l ++ 13 :: 10 :: r) = l :: splitCRLF r := by
  intro l
  induction l with
  | nil => intro r _; simp [splitCRLF]
  | cons c cs ih =>
    intro r h
    have hc : c ≠ 13 := h c (by simp)
    have := ih r (fun c hc => h c (by simp [hc]))
    cases cs with
    | nil =>
      simp only [List.nil_append] at this
      show splitCRLF (c :: 13 :: 10 :: r) = [c] :: splitCRLF r
      rw [splitCRLF, this]
      simp [hc]
    | cons d ds =>
      simp only [List.cons_append] at this
      show splitCRLF (c :: d :: (ds ++ 13 :: 10 :: r)) = (c :: d :: ds) :: splitCRLF r
      rw [splitCRLF, this]
      simp [hc]

theorem splitCRLF_join : ∀ (ls : List Bytes), ls ≠ [] → (∀ l ∈ ls, LineOK l) → splitCRLF (joinCRLF ls) = ls := by
  intro ls
  induction ls with
  | nil => intro h; exact absurd rfl h
  | cons l ls ih =>
    intro _ hall
    have hl := hall l (by simp)
    cases ls with
    | nil => simpa [joinCRLF] using splitCRLF_noCR l hl.2
    | cons l2 ls2 =>
      have e : joinCRLF (l :: l2 :: ls2) = l ++ 13 :: 10 :: joinCRLF (l2 :: ls2) := by simp [joinCRLF, crlf]
      rw [e, splitCRLF_line l _ hl.2, ih (by simp) (fun l' hl' => hall l' (by simp [hl']))]

/-! ### searching for a delimiter byte, trimming -/

theorem indexOf_skip (p : UInt8 → Bool) : ∀ (l : Bytes) (c0 : UInt8) (r : Bytes), (∀ c ∈ l, p c = false) → p c0 = true →
    indexOf? p (l ++ c0 :: r) = some l.length := by
  intro l
  induction l with
  | nil => intro c0 r _ h0; simp [indexOf?, h0]
  | cons c cs ih =>
    intro c0 r h h0
    simp only [List.cons_append, indexOf?, h c (by simp), Bool.false_eq_true, ↓reduceIte,
      ih c0 r (fun c hc => h c (by simp [hc])) h0]
    rfl

theorem indexOf_none (p : UInt8 → Bool) : ∀ (l : Bytes), (∀ c ∈ l, p c = false) → indexOf? p l = none := by
  intro l
  induction l with
  | nil => intro _; rfl
  | cons c cs ih =>
    intro h
    simp only [indexOf?, h c (by simp), Bool.false_eq_true, ↓reduceIte, ih (fun c hc => h c (by simp [hc]))]
    rfl

theorem dropWhile_all (p : UInt8 → Bool) : ∀ (a r : Bytes), (∀ c ∈ a, p c = true) → (a ++ r).dropWhile p = r.dropWhile p := by
  intro a
  induction a with
  | nil => intro r _; rfl
  | cons x xs ih =>
    intro r h
    simp only [List.cons_append, List.dropWhile, h x (by simp)]
    exact ih r (fun c hc => h c (by simp [hc]))

theorem dropWhile_stop (p : UInt8 → Bool) (l : Bytes) (h : ∀ c, l.head? = some c → p c = false) : l.dropWhile p = l := by
  cases l with
  | nil => rfl
  | cons c cs => simp [List.dropWhile, h c rfl]

theorem trim_padded (a v b : Bytes) (ha : AllOWS a) (hb : AllOWS b) (hv : Trimmed v) : trim (a ++ v ++ b) = v := by
  unfold trim trimLeft trimRight
  rw [List.append_assoc, dropWhile_all isOWS a _ ha]
  cases v with
  | nil =>
    have : ([] ++ b).dropWhile isOWS = [] := by
      have := dropWhile_all isOWS b [] hb
      simpa using this
    rw [this]; rfl
  | cons x xs =>
    have h1 : ((x :: xs) ++ b).dropWhile isOWS = (x :: xs) ++ b :=
      dropWhile_stop isOWS _ (by intro c hc; simp at hc; rw [← hc]; exact hv.1 x rfl)
    rw [h1, List.reverse_append, dropWhile_all isOWS b.reverse _ (by intro c hc; exact hb c (List.mem_reverse.mp hc))]
    rw [dropWhile_stop isOWS _ (by
      intro c hc
      rw [List.head?_reverse] at hc
      exact hv.2 c hc)]
    simp

theorem trimmed_of_noOWS (l : Bytes) (h : ∀ c ∈ l, isOWS c = false) : Trimmed l := by
  constructor
  · intro c hc
    cases l with
    | nil => cases hc
    | cons x xs => simp at hc; rw [← hc]; exact h x (by simp)
  · intro c hc
    exact h c (List.mem_of_getLast? hc)

theorem trim_self (l : Bytes) (h : Trimmed l) : trim l = l := by
  have := trim_padded [] l [] (by intro c hc; cases hc) (by intro c hc; cases hc) h
  simpa using this

/-! ### field lines -/

/-- what one field line contributes -/
theorem fieldLine_parse (f : Field) (hf : f.WF) :
    f.line ≠ [] ∧ (∀ c, f.line.head? = some c → ¬ (c = 32 ∨ c = 9)) ∧
    indexOf? (· == 58) f.line = some f.name.length ∧
    trim (f.line.take f.name.length) = f.name ∧ trim (f.line.drop (f.name.length + 1)) = f.value := by
  have hn0 : ∀ c ∈ f.name, ((c == 58) = false) := by
    intro c hc; simpa using (hf.name_tok c hc).1
  refine ⟨?_, ?_, ?_, ?_, ?_⟩
  · unfold Field.line; cases hnm : f.name with
    | nil => exact absurd hnm hf.name_ne
    | cons a b => simp
  · intro c hc
    unfold Field.line at hc
    cases hnm : f.name with
    | nil => exact absurd hnm hf.name_ne
    | cons a b =>
      rw [hnm] at hc
      simp at hc; subst hc
      have := (hf.name_tok a (by rw [hnm]; simp)).2.2.2
      intro h
      rcases h with h | h <;> (subst h; simp [isOWS] at this)
  · unfold Field.line
    exact indexOf_skip _ f.name 58 _ hn0 (by decide)
  · unfold Field.line
    rw [List.take_left']
    · exact trim_self f.name (trimmed_of_noOWS _ (fun c hc => (hf.name_tok c hc).2.2.2))
    · rfl
  · unfold Field.line
    have : (f.name ++ 58 :: (f.ows1 ++ f.value ++ f.ows2)).drop (f.name.length + 1) = f.ows1 ++ f.value ++ f.ows2 := by
      have e : f.name ++ 58 :: (f.ows1 ++ f.value ++ f.ows2) = (f.name ++ [58]) ++ (f.ows1 ++ f.value ++ f.ows2) := by simp
      rw [e, List.drop_left']
      simp
    rw [this]
    exact trim_padded _ _ _ hf.ows1_ok hf.ows2_ok hf.value_trim

/-- Content-Length lines seen so far agree with those to come -/
def CLcons (cl : Option Bytes) (fs : List Field) : Prop :=
  ∃ v, (cl = none ∨ cl = some v) ∧ ∀ f ∈ fs, ciEq f.name clName = true → f.value = v

theorem parseFieldLines_exact : ∀ (fs : List Field) (cl : Option Bytes) (h : Headers), (∀ f ∈ fs, f.WF) → CLcons cl fs →
    parseFieldLines (fs.map Field.line) cl h = .ok (fs.foldl (fun h f => hdrAdd h f.name f.value) h) := by
  intro fs
  induction fs with
  | nil => intro cl h _ _; rfl
  | cons f fs ih =>
    intro cl h hwf hcl
    obtain ⟨hne, hhead, hidx, hname, hval⟩ := fieldLine_parse f (hwf f (by simp))
    obtain ⟨v, hv, hall⟩ := hcl
    simp only [List.map_cons, List.foldl_cons]
    cases hl : f.line with
    | nil => exact absurd hl hne
    | cons c0 tl =>
      rw [hl] at hidx hname hval
      have h0 : ¬ (c0 = 32 ∨ c0 = 9) := hhead c0 (by rw [hl]; rfl)
      unfold parseFieldLines
      simp only [h0, ↓reduceIte, hidx, hname, hval]
      by_cases hci : ciEq f.name (ascii "Content-Length") = true
      · have hfv : f.value = v := hall f (by simp) hci
        simp only [hci, ↓reduceIte]
        rcases hv with hv | hv
        · subst hv
          simp only
          exact ih _ _ (fun g hg => hwf g (by simp [hg])) ⟨v, Or.inr (by rw [hfv]), fun g hg => hall g (by simp [hg])⟩
        · subst hv
          simp only [hfv, ne_eq, not_true_eq_false, ↓reduceIte]
          have := ih (some v) (hdrAdd h f.name v) (fun g hg => hwf g (by simp [hg])) ⟨v, Or.inr rfl, fun g hg => hall g (by simp [hg])⟩
          exact this
      · simp only [hci, Bool.false_eq_true, ↓reduceIte]
        exact ih _ _ (fun g hg => hwf g (by simp [hg])) ⟨v, hv, fun g hg => hall g (by simp [hg])⟩

/-! ### the status line -/

theorem digit_byte (d : Nat) (hd : d < 10) :
    digitVal 10 (b8 (48 + d)) = some d ∧ ((b8 (48 + d) == 32) = false) ∧ b8 (48 + d) ≠ 13 ∧ b8 (48 + d) ≠ 10 := by
  have ht : (b8 (48 + d)).toNat = 48 + d := by simp [b8_toNat]; omega
  refine ⟨?_, ?_, ?_, ?_⟩
  · unfold digitVal
    simp only [ht]
    have h1 : 48 ≤ 48 + d ∧ 48 + d ≤ 57 := by omega
    simp only [h1, and_self, ↓reduceIte, Nat.add_sub_cancel_left, hd]
  · simp only [beq_eq_false_iff_ne, ne_eq]
    intro h
    have := congrArg UInt8.toNat h
    rw [ht] at this; simp at this; omega
  · intro h
    have := congrArg UInt8.toNat h
    rw [ht] at this; simp at this; omega
  · intro h
    have := congrArg UInt8.toNat h
    rw [ht] at this; simp at this; omega

theorem parse_digits3 (s : Nat) (hs : s < 1000) : parseFullUInt 10 (digits3 s) = some s := by
  have a := (digit_byte (s / 100 % 10) (Nat.mod_lt _ (by decide))).1
  have b := (digit_byte (s / 10 % 10) (Nat.mod_lt _ (by decide))).1
  have c := (digit_byte (s % 10) (Nat.mod_lt _ (by decide))).1
  unfold parseFullUInt digits3
  simp only [List.isEmpty_cons, Bool.false_eq_true, ↓reduceIte, parseDigits, a, b, c]
  have h1 : 0 * 10 + s / 100 % 10 < 2 ^ 64 := by omega
  have h2 : (0 * 10 + s / 100 % 10) * 10 + s / 10 % 10 < 2 ^ 64 := by omega
  have h3 : ((0 * 10 + s / 100 % 10) * 10 + s / 10 % 10) * 10 + s % 10 < 2 ^ 64 := by omega
  simp only [h1, h2, h3, ↓reduceIte, Option.some.injEq]
  omega

theorem digits3_noSpace (s : Nat) : ∀ c ∈ digits3 s, (c == 32) = false := by
  intro c hc
  simp only [digits3, List.mem_cons, List.not_mem_nil, or_false] at hc
  rcases hc with rfl | rfl | rfl
  · exact (digit_byte _ (Nat.mod_lt _ (by decide))).2.1
  · exact (digit_byte _ (Nat.mod_lt _ (by decide))).2.1
  · exact (digit_byte _ (Nat.mod_lt _ (by decide))).2.1

theorem httpSlash : ascii "HTTP/" = [72, 84, 84, 80, 47] := by decide

theorem parseStatusLine_exact (sl : StatusLine) (h : sl.WF) :
    parseStatusLine sl.render = .ok (sl.version, sl.status, sl.reason.getD []) := by
  have hv : sl.version = [49, 46, 48] ∨ sl.version = [49, 46, 49] := by
    unfold StatusLine.version
    have := h.minor_ok
    rcases Nat.lt_or_ge sl.minor 1 with h0 | h1
    · have : sl.minor = 0 := by omega
      left; rw [this]; rfl
    · have : sl.minor = 1 := by omega
      right; rw [this]; rfl
  have hcode := parse_digits3 sl.status h.status_ok
  have hsp := digits3_noSpace sl.status
  have hlen : (digits3 sl.status).length = 3 := rfl
  unfold parseStatusLine StatusLine.render
  rw [httpSlash]
  rcases hv with hv | hv <;> rw [hv]
  all_goals
    simp only [List.cons_append, List.nil_append, List.isPrefixOf_cons₂, beq_self_eq_true, Bool.true_and,
      List.isPrefixOf_nil_left, not_true_eq_false, ↓reduceIte]
    simp only [indexOf?]
    simp (config := { decide := true }) only [↓reduceIte, Option.map_some, Nat.reduceAdd, Nat.reduceLeDiff,
      List.take, List.drop, beq_iff_eq]
    cases hr : sl.reason with
    | none =>
      simp only [List.append_nil, indexOf_none _ _ hsp, hcode]
      simp (config := { decide := true }) [Gen.Http.clientVersions, Gen.Http.clientMaxStatusCode, h.status_ok]
      have := h.status_ok; omega
    | some r =>
      simp only [indexOf_skip _ (digits3 sl.status) 32 r hsp (by decide), hlen]
      have e1 : (digits3 sl.status ++ 32 :: r).take 3 = digits3 sl.status := by
        rw [← hlen, List.take_left']; rfl
      have e2 : (digits3 sl.status ++ 32 :: r).drop (3 + 1) = r := by
        have : digits3 sl.status ++ 32 :: r = (digits3 sl.status ++ [32]) ++ r := by simp
        rw [this, List.drop_left']; simp [hlen]
      simp only [e1, e2, hcode]
      simp (config := { decide := true }) [Gen.Http.clientVersions, Gen.Http.clientMaxStatusCode]
      have := h.status_ok; omega

/-! ### the header block -/

theorem statusLine_lineOK (sl : StatusLine) (h : sl.WF) : LineOK sl.render := by
  constructor
  · simp [StatusLine.render]
  · intro c hc
    simp only [StatusLine.render, StatusLine.version, List.cons_append, List.nil_append, List.mem_cons,
      List.mem_append] at hc
    have hm : b8 (48 + sl.minor) ≠ 13 := by
      have := h.minor_ok
      exact (digit_byte sl.minor (by omega)).2.2.1
    rcases hc with rfl | rfl | rfl | rfl | rfl | rfl | rfl | rfl | rfl | hc
    any_goals decide
    · exact hm
    · rcases hc with hc | hc
      · simp only [digits3, List.mem_cons, List.not_mem_nil, or_false] at hc
        rcases hc with rfl | rfl | rfl
        · exact (digit_byte _ (Nat.mod_lt _ (by decide))).2.2.1
        · exact (digit_byte _ (Nat.mod_lt _ (by decide))).2.2.1
        · exact (digit_byte _ (Nat.mod_lt _ (by decide))).2.2.1
      · cases hr : sl.reason with
        | none => rw [hr] at hc; cases hc
        | some r =>
          rw [hr] at hc
          rcases List.mem_cons.mp hc with rfl | hc
          · decide
          · exact (h.reason_ok r hr c hc).1

theorem fieldLine_lineOK (f : Field) (hf : f.WF) : LineOK f.line := by
  constructor
  · exact (fieldLine_parse f hf).1
  · intro c hc
    simp only [Field.line, List.mem_append, List.mem_cons] at hc
    rcases hc with hc | rfl | (hc | hc) | hc
    · exact (hf.name_tok c hc).2.1
    · decide
    · rcases isOWS_cases c (hf.ows1_ok c hc) with rfl | rfl <;> decide
    · exact (hf.value_ok c hc).1
    · rcases isOWS_cases c (hf.ows2_ok c hc) with rfl | rfl <;> decide

theorem headLines_ok (sl : StatusLine) (hsl : sl.WF) (fs : List Field) (hfs : ∀ f ∈ fs, f.WF) :
    ∀ l ∈ sl.render :: fs.map Field.line, LineOK l := by
  intro l hl
  rcases List.mem_cons.mp hl with rfl | hl
  · exact statusLine_lineOK sl hsl
  · obtain ⟨f, hf, rfl⟩ := List.mem_map.mp hl
    exact fieldLine_lineOK f (hfs f hf)

theorem parseHeaderBlock_exact (sl : StatusLine) (hsl : sl.WF) (fs : List Field) (hfs : ∀ f ∈ fs, f.WF)
    (hcl : CLcons none fs) :
    parseHeaderBlock (joinCRLF (sl.render :: fs.map Field.line)) =
      .ok { status := sl.status, text := sl.reason.getD [], version := sl.version, headers := headerMap fs, body := [] } := by
  unfold parseHeaderBlock
  rw [splitCRLF_join _ (by simp) (headLines_ok sl hsl fs hfs)]
  simp only [parseStatusLine_exact sl hsl, parseFieldLines_exact fs none [] hfs hcl]
  rfl

/-! ### header map lookups -/

theorem ciEq_comm (a b : Bytes) : ciEq a b = ciEq b a := by
  unfold ciEq
  rw [Bool.eq_iff_iff]
  simp only [beq_iff_eq]
  exact eq_comm

theorem ciEq_trans_left {a b c : Bytes} (h : ciEq a b = true) : ciEq a c = ciEq b c := by
  unfold ciEq at *
  have : lower a = lower b := by simpa using h
  rw [this]

theorem hdrFind_hdrSet : ∀ (h : Headers) (k v k' : Bytes),
    hdrFind (hdrSet h k v) k' = if ciEq k k' then some v else hdrFind h k' := by
  intro h
  induction h with
  | nil => intro k v k'; simp [hdrSet, hdrFind]
  | cons kv t ih =>
    intro k v k'
    obtain ⟨k0, v0⟩ := kv
    simp only [hdrSet]
    by_cases h0 : ciEq k0 k = true
    · simp only [h0, ↓reduceIte, hdrFind]
      rw [ciEq_trans_left h0]
      by_cases h1 : ciEq k k' = true
      · simp [h1]
      · simp [h1]
    · simp only [h0, Bool.false_eq_true, ↓reduceIte, hdrFind, ih]
      by_cases h2 : ciEq k0 k' = true
      · have : ciEq k k' = false := by
          cases h3 : ciEq k k' with
          | false => rfl
          | true =>
            have h4 : ciEq k' k = true := by rw [ciEq_comm]; exact h3
            have h5 : ciEq k0 k = ciEq k' k := ciEq_trans_left (by rw [ciEq_trans_left h2]; unfold ciEq; simp)
            rw [h5, h4] at h0; exact absurd rfl h0
        simp [h2, this]
      · simp [h2]

/-- looking up a name other than `Connection`: `hdrAdd` behaves like `headers[name] = value` -/
theorem hdrFind_hdrAdd (h : Headers) (k v k' : Bytes) (hk' : ciEq (ascii "Connection") k' = false) :
    hdrFind (hdrAdd h k v) k' = if ciEq k k' then some v else hdrFind h k' := by
  unfold hdrAdd
  by_cases hc : ciEq k (ascii "Connection") = true
  · have hkk : ciEq k k' = false := by rw [ciEq_trans_left hc]; exact hk'
    simp only [hc, ↓reduceIte, hkk, Bool.false_eq_true]
    cases hdrFind h k with
    | none => simp only [hdrFind_hdrSet, hkk, Bool.false_eq_true, ↓reduceIte]
    | some old => simp only [hdrFind_hdrSet, hkk, Bool.false_eq_true, ↓reduceIte]
  · simp only [hc, Bool.false_eq_true, ↓reduceIte, hdrFind_hdrSet]

theorem hdrFind_foldl_none : ∀ (fs : List Field) (h : Headers) (k : Bytes), ciEq (ascii "Connection") k = false →
    (∀ f ∈ fs, ciEq f.name k = false) →
    hdrFind (fs.foldl (fun h f => hdrAdd h f.name f.value) h) k = hdrFind h k := by
  intro fs
  induction fs with
  | nil => intro h k _ _; rfl
  | cons f fs ih =>
    intro h k hk hall
    simp only [List.foldl_cons]
    rw [ih _ k hk (fun g hg => hall g (by simp [hg])), hdrFind_hdrAdd _ _ _ _ hk, hall f (by simp)]
    simp

theorem hdrFind_fields (before after : List Field) (f : Field) (k : Bytes) (hk : ciEq (ascii "Connection") k = false)
    (hb : ∀ g ∈ before, ciEq g.name k = false) (ha : ∀ g ∈ after, ciEq g.name k = false) (hf : ciEq f.name k = true) :
    hdrFind (headerMap (before ++ [f] ++ after)) k = some f.value := by
  unfold headerMap
  rw [List.foldl_append, List.foldl_append, hdrFind_foldl_none after _ k hk ha]
  simp only [List.foldl_cons, List.foldl_nil]
  rw [hdrFind_hdrAdd _ _ _ _ hk, hf]
  simp

theorem conn_ne_framing : ciEq (ascii "Connection") (ascii "Content-Length") = false ∧
    ciEq (ascii "Connection") (ascii "Transfer-Encoding") = false := by decide

/-! ### well-formed responses and the framing decision -/

/-- a body follows the header section (RFC 9112 §6.3 rule 1 does not apply) -/
def HasBody (method : Bytes) (status : Nat) : Prop := method ≠ ascii "HEAD" ∧ status ≠ 204 ∧ status ≠ 304
instance (method : Bytes) (status : Nat) : Decidable (HasBody method status) :=
  inferInstanceAs (Decidable (method ≠ ascii "HEAD" ∧ status ≠ 204 ∧ status ≠ 304))

structure RespWF (method : Bytes) (cap : Nat) (m : Response) : Prop where
  sl_ok : m.sl.WF
  final : isInterim m.sl.status = false
  before_ok : ∀ f ∈ m.before, PlainField f
  after_ok : ∀ f ∈ m.after, PlainField f
  not_connect : method ≠ ascii "CONNECT"
  body_ok :
    match m.body with
    | .empty => method = ascii "HEAD" ∨ m.sl.status = 204 ∨ m.sl.status = 304
    | .sized tok b => HasBody method m.sl.status ∧ tokValue 10 tok = some b.length ∧ b.length ≤ cap ∧ b.length < 2 ^ 64
    | .chunked te cs l =>
      HasBody method m.sl.status ∧ transferEncodingFinalIsChunked te = true ∧ NoCRLF te ∧ Trimmed te ∧
        (∀ c ∈ cs, c.WF cap) ∧ l.WF
    | .untilClose _ => HasBody method m.sl.status

theorem digitVal10_facts (c : UInt8) (v : Nat) (h : digitVal 10 c = some v) :
    c ≠ 13 ∧ c ≠ 10 ∧ isOWS c = false ∧ c ≠ 44 := by
  unfold digitVal at h
  simp only at h
  have hr : 48 ≤ c.toNat ∧ c.toNat ≤ 57 := by
    split at h <;> rename_i hv
    · split at hv
      · rename_i h1; exact h1
      · split at hv
        · rename_i _ h2
          split at h
          · cases hv; omega
          · cases h
        · split at hv
          · rename_i _ _ h3
            split at h
            · cases hv; omega
            · cases h
          · cases hv
    · cases h
  refine ⟨?_, ?_, ?_, ?_⟩
  · intro hc; subst hc; simp at hr
  · intro hc; subst hc; simp at hr
  · unfold isOWS
    have h1 : c ≠ 32 := by intro hc; subst hc; simp at hr
    have h2 : c ≠ 9 := by intro hc; subst hc; simp at hr
    simp [h1, h2]
  · intro hc; subst hc; simp at hr

theorem decTok_facts (tok : Bytes) (n : Nat) (h : tokValue 10 tok = some n) :
    tok ≠ [] ∧ NoCRLF tok ∧ Trimmed tok ∧ (∀ c ∈ tok, c ≠ 44) := by
  unfold tokValue at h
  split at h
  · cases h
  · rename_i hne
    have hd := tokFold_digits 10 tok 0 n h
    refine ⟨by simpa using hne, ?_, ?_, ?_⟩
    · intro c hc
      obtain ⟨v, hv⟩ := hd c hc
      exact ⟨(digitVal10_facts c v hv).1, (digitVal10_facts c v hv).2.1⟩
    · apply trimmed_of_noOWS
      intro c hc
      obtain ⟨v, hv⟩ := hd c hc
      exact (digitVal10_facts c v hv).2.2.1
    · intro c hc
      obtain ⟨v, hv⟩ := hd c hc
      exact (digitVal10_facts c v hv).2.2.2

theorem splitOn_none (sep : UInt8) : ∀ (l : Bytes), (∀ c ∈ l, c ≠ sep) → splitOn sep l = [l] := by
  intro l
  induction l with
  | nil => intro _; rfl
  | cons c cs ih =>
    intro h
    simp only [splitOn, h c (by simp), ↓reduceIte, ih (fun c hc => h c (by simp [hc]))]

theorem parseContentLength_tok (tok : Bytes) (n : Nat) (h : tokValue 10 tok = some n) (hn : n < 2 ^ 64) :
    parseContentLength tok = .ok n := by
  obtain ⟨_, _, htrim, hcomma⟩ := decTok_facts tok n h
  unfold parseContentLength
  rw [splitOn_none 44 tok hcomma]
  simp only [parseCLElems, trim_self tok htrim, parseFullUInt_of_tokValue 10 (by omega) tok n h hn]

theorem clName_tok : clName ≠ [] ∧ ∀ c ∈ clName, c ≠ 58 ∧ c ≠ 13 ∧ c ≠ 10 ∧ isOWS c = false := by decide
theorem teName_tok : teName ≠ [] ∧ ∀ c ∈ teName, c ≠ 58 ∧ c ≠ 13 ∧ c ≠ 10 ∧ isOWS c = false := by decide
theorem sp_ows : AllOWS [32] := by intro c hc; simp at hc; subst hc; rfl

theorem clName_wf (tok : Bytes) (n : Nat) (h : tokValue 10 tok = some n) :
    ({ name := clName, value := tok } : Field).WF := by
  obtain ⟨_, hcr, htrim, _⟩ := decTok_facts tok n h
  exact { name_ne := clName_tok.1, name_tok := clName_tok.2, value_ok := hcr, value_trim := htrim,
          ows1_ok := sp_ows, ows2_ok := by intro c hc; cases hc }

theorem teName_wf (te : Bytes) (h1 : NoCRLF te) (h2 : Trimmed te) : ({ name := teName, value := te } : Field).WF :=
  { name_ne := teName_tok.1, name_tok := teName_tok.2, value_ok := h1, value_trim := h2,
    ows1_ok := sp_ows, ows2_ok := by intro c hc; cases hc }

theorem cl_te_distinct : ciEq clName teName = false ∧ ciEq teName clName = false ∧
    ciEq clName clName = true ∧ ciEq teName teName = true := by decide

/-- the parsed header block of `m` -/
def resp0 (m : Response) : Resp :=
  { status := m.sl.status, text := m.sl.reason.getD [], version := m.sl.version, headers := headerMap m.fields, body := [] }

theorem fields_facts (method : Bytes) (cap : Nat) (m : Response) (hm : RespWF method cap m) :
    (∀ f ∈ m.fields, f.WF) ∧ CLcons none m.fields := by
  have hb := hm.before_ok
  have ha := hm.after_ok
  have hbody := hm.body_ok
  unfold Response.fields
  cases hbd : m.body with
  | empty =>
    simp only [Body.field, List.append_nil]
    refine ⟨?_, ⟨[], Or.inl rfl, ?_⟩⟩
    · intro f hf; rcases List.mem_append.mp hf with hf | hf
      · exact (hb f hf).1
      · exact (ha f hf).1
    · intro f hf hci; rcases List.mem_append.mp hf with hf | hf
      · have := (hb f hf).2.1; rw [hci] at this; cases this
      · have := (ha f hf).2.1; rw [hci] at this; cases this
  | untilClose b =>
    simp only [Body.field, List.append_nil]
    refine ⟨?_, ⟨[], Or.inl rfl, ?_⟩⟩
    · intro f hf; rcases List.mem_append.mp hf with hf | hf
      · exact (hb f hf).1
      · exact (ha f hf).1
    · intro f hf hci; rcases List.mem_append.mp hf with hf | hf
      · have := (hb f hf).2.1; rw [hci] at this; cases this
      · have := (ha f hf).2.1; rw [hci] at this; cases this
  | sized tok b =>
    rw [hbd] at hbody
    simp only at hbody
    simp only [Body.field]
    refine ⟨?_, ⟨tok, Or.inl rfl, ?_⟩⟩
    · intro f hf
      rcases List.mem_append.mp hf with hf | hf
      · rcases List.mem_append.mp hf with hf | hf
        · exact (hb f hf).1
        · simp at hf; subst hf; exact clName_wf tok _ hbody.2.1
      · exact (ha f hf).1
    · intro f hf hci
      rcases List.mem_append.mp hf with hf | hf
      · rcases List.mem_append.mp hf with hf | hf
        · have := (hb f hf).2.1; rw [hci] at this; cases this
        · simp at hf; subst hf; rfl
      · have := (ha f hf).2.1; rw [hci] at this; cases this
  | chunked te cs l =>
    rw [hbd] at hbody
    simp only at hbody
    simp only [Body.field]
    refine ⟨?_, ⟨[], Or.inl rfl, ?_⟩⟩
    · intro f hf
      rcases List.mem_append.mp hf with hf | hf
      · rcases List.mem_append.mp hf with hf | hf
        · exact (hb f hf).1
        · simp at hf; subst hf; exact teName_wf te hbody.2.2.1 hbody.2.2.2.1
      · exact (ha f hf).1
    · intro f hf hci
      rcases List.mem_append.mp hf with hf | hf
      · rcases List.mem_append.mp hf with hf | hf
        · have := (hb f hf).2.1; rw [hci] at this; cases this
        · simp at hf; subst hf
          have := cl_te_distinct.2.1
          rw [hci] at this; cases this
      · have := (ha f hf).2.1; rw [hci] at this; cases this

/-- the framing mode the spec assigns to a body -/
def bodyFraming : Body → Framing
  | .empty => { mode := .noBody, contentLength := 0 }
  | .sized _ b => { mode := .contentLength, contentLength := b.length }
  | .chunked _ _ _ => { mode := .chunked, contentLength := 0 }
  | .untilClose _ => { mode := .closeDelimited, contentLength := 0 }

theorem noBody_iff (method : Bytes) (status : Nat) (hni : isInterim status = false) :
    (method = ascii "HEAD" ∨ Gen.Http.clientNoBodyStatuses.contains status = true ∨ isInterim status = true) ↔
    (method = ascii "HEAD" ∨ status = 204 ∨ status = 304) := by
  simp [Gen.Http.clientNoBodyStatuses, hni]

theorem determineFraming_exact (method : Bytes) (cap : Nat) (m : Response) (hm : RespWF method cap m) :
    determineFraming method (resp0 m) cap = .ok (bodyFraming m.body) := by
  have hb := hm.before_ok
  have ha := hm.after_ok
  have hbody := hm.body_ok
  have hnb := noBody_iff method m.sl.status hm.final
  have hbte : ∀ g ∈ m.before, ciEq g.name teName = false := fun g hg => (hb g hg).2.2
  have hate : ∀ g ∈ m.after, ciEq g.name teName = false := fun g hg => (ha g hg).2.2
  have hbcl : ∀ g ∈ m.before, ciEq g.name clName = false := fun g hg => (hb g hg).2.1
  have hacl : ∀ g ∈ m.after, ciEq g.name clName = false := fun g hg => (ha g hg).2.1
  unfold determineFraming
  simp only [hm.not_connect, ↓reduceIte, resp0]
  cases hbd : m.body with
  | empty =>
    rw [hbd] at hbody
    simp only at hbody
    simp only [hnb.mpr hbody, ↓reduceIte]
    rfl
  | untilClose b =>
    rw [hbd] at hbody
    simp only at hbody
    have hno : ¬ (method = ascii "HEAD" ∨ m.sl.status = 204 ∨ m.sl.status = 304) := by
      intro h; rcases h with h | h | h
      · exact hbody.1 h
      · exact hbody.2.1 h
      · exact hbody.2.2 h
    have hno' : ¬ (method = ascii "HEAD" ∨ Gen.Http.clientNoBodyStatuses.contains m.sl.status = true ∨ isInterim m.sl.status = true) := fun h => hno (hnb.mp h)
    simp only [hno', ↓reduceIte]
    have hf : m.fields = m.before ++ m.after := by simp [Response.fields, hbd, Body.field]
    have h1 : hdrFind (headerMap m.fields) (ascii "Transfer-Encoding") = none := by
      rw [hf]; unfold headerMap
      rw [hdrFind_foldl_none _ _ _ conn_ne_framing.2 (by intro g hg; rcases List.mem_append.mp hg with hg | hg; exact hbte g hg; exact hate g hg)]
      rfl
    have h2 : hdrFind (headerMap m.fields) (ascii "Content-Length") = none := by
      rw [hf]; unfold headerMap
      rw [hdrFind_foldl_none _ _ _ conn_ne_framing.1 (by intro g hg; rcases List.mem_append.mp hg with hg | hg; exact hbcl g hg; exact hacl g hg)]
      rfl
    simp only [h1, h2]
    rfl
  | sized tok b =>
    rw [hbd] at hbody
    simp only at hbody
    have hno : ¬ (method = ascii "HEAD" ∨ m.sl.status = 204 ∨ m.sl.status = 304) := by
      intro h; rcases h with h | h | h
      · exact hbody.1.1 h
      · exact hbody.1.2.1 h
      · exact hbody.1.2.2 h
    have hno' : ¬ (method = ascii "HEAD" ∨ Gen.Http.clientNoBodyStatuses.contains m.sl.status = true ∨ isInterim m.sl.status = true) := fun h => hno (hnb.mp h)
    simp only [hno', ↓reduceIte]
    have hf : m.fields = m.before ++ [{ name := clName, value := tok }] ++ m.after := by
      simp [Response.fields, hbd, Body.field]
    have h1 : hdrFind (headerMap m.fields) (ascii "Transfer-Encoding") = none := by
      rw [hf]; unfold headerMap
      rw [hdrFind_foldl_none _ _ _ conn_ne_framing.2 (by
        intro g hg
        rcases List.mem_append.mp hg with hg | hg
        · rcases List.mem_append.mp hg with hg | hg
          · exact hbte g hg
          · simp at hg; subst hg; exact cl_te_distinct.1
        · exact hate g hg)]
      rfl
    have h2 : hdrFind (headerMap m.fields) (ascii "Content-Length") = some tok := by
      rw [hf]
      exact hdrFind_fields m.before m.after _ clName conn_ne_framing.1 hbcl hacl cl_te_distinct.2.2.1
    simp only [h1, h2, parseContentLength_tok tok b.length hbody.2.1 hbody.2.2.2]
    have : ¬ (b.length > cap) := by omega
    simp only [this, ↓reduceIte]
    rfl
  | chunked te cs l =>
    rw [hbd] at hbody
    simp only at hbody
    have hno : ¬ (method = ascii "HEAD" ∨ m.sl.status = 204 ∨ m.sl.status = 304) := by
      intro h; rcases h with h | h | h
      · exact hbody.1.1 h
      · exact hbody.1.2.1 h
      · exact hbody.1.2.2 h
    have hno' : ¬ (method = ascii "HEAD" ∨ Gen.Http.clientNoBodyStatuses.contains m.sl.status = true ∨ isInterim m.sl.status = true) := fun h => hno (hnb.mp h)
    simp only [hno', ↓reduceIte]
    have hf : m.fields = m.before ++ [{ name := teName, value := te }] ++ m.after := by
      simp [Response.fields, hbd, Body.field]
    have h1 : hdrFind (headerMap m.fields) (ascii "Transfer-Encoding") = some te := by
      rw [hf]
      exact hdrFind_fields m.before m.after _ teName conn_ne_framing.2 hbte hate cl_te_distinct.2.2.2
    have h2 : hdrFind (headerMap m.fields) (ascii "Content-Length") = none := by
      rw [hf]; unfold headerMap
      rw [hdrFind_foldl_none _ _ _ conn_ne_framing.1 (by
        intro g hg
        rcases List.mem_append.mp hg with hg | hg
        · rcases List.mem_append.mp hg with hg | hg
          · exact hbcl g hg
          · simp at hg; subst hg; exact cl_te_distinct.2.1
        · exact hacl g hg)]
      rfl
    simp only [h1, h2, hbody.2.1, ↓reduceIte]
    rfl

/-! ### frameResponse on a rendered response -/

theorem head_found (sl : StatusLine) (hsl : sl.WF) (fs : List Field) (hfs : ∀ f ∈ fs, f.WF) (rest : Bytes) :
    let hd := joinCRLF (sl.render :: fs.map Field.line)
    find crlf2 (hd ++ crlf2 ++ rest) 0 = some hd.length ∧ (hd ++ crlf2 ++ rest).take hd.length = hd ∧
    (hd ++ crlf2 ++ rest).drop (hd.length + 4) = rest ∧ (hd ++ crlf2 ++ rest).length ≠ 0 := by
  intro hd
  refine ⟨?_, ?_, ?_, ?_⟩
  · have := find_header_end (sl.render :: fs.map Field.line) rest 0 (by simp) (headLines_ok sl hsl fs hfs)
    simpa [find] using this
  · rw [List.append_assoc, List.take_left']; rfl
  · have : hd ++ crlf2 ++ rest = (hd ++ crlf2) ++ rest := rfl
    rw [this, List.drop_left']; simp [crlf2]
  · simp [crlf2]

/-- the state `frameResponse` enters the body phase with -/
def bodySt (st : St) (m : Response) : St :=
  { st with headersDone := true, bodyStart := m.head.length + 4, resp := resp0 m, framing := bodyFraming m.body,
            chunk := { pos := m.head.length + 4, decoded := [], messageEnd := 0 } }

theorem FR_header (method : Bytes) (cap : Nat) (m : Response) (hm : RespWF method cap m) (rest : Bytes) (st : St)
    (hd : st.headersDone = false) (hs : st.headerScanPos = 0) (hdat : st.data = m.head ++ crlf2 ++ rest) :
    frameResponse method cap st = bodyPhase cap (bodySt st m) := by
  obtain ⟨hwf, hcl⟩ := fields_facts method cap m hm
  obtain ⟨hf, ht, _, hl⟩ := head_found m.sl hm.sl_ok m.fields hwf rest
  have hp := parseHeaderBlock_exact m.sl hm.sl_ok m.fields hwf hcl
  have hdf := determineFraming_exact method cap m hm
  have hf' : find crlf2 st.data st.headerScanPos = some m.head.length := by rw [hdat, hs]; exact hf
  have hp' : parseHeaderBlock (st.data.take m.head.length) = .ok (resp0 m) := by rw [hdat]; unfold Response.head; rw [ht]; exact hp
  rw [FR_final method cap st m.head.length (resp0 m) (bodyFraming m.body) hd (by rw [hdat]; exact hl) hf' hp' hm.final hdf]
  rfl

structure InterimWF (i : Interim) : Prop where
  sl_ok : i.sl.WF
  interim : isInterim i.sl.status = true
  fields_ok : ∀ f ∈ i.fields, PlainField f

theorem FR_skip_interim (method : Bytes) (cap : Nat) (i : Interim) (hi : InterimWF i) (rest : Bytes) (st : St)
    (hd : st.headersDone = false) (hs : st.headerScanPos = 0) (hdat : st.data = i.render ++ rest) :
    ∃ r, frameResponse method cap st = frameResponse method cap { st with data := rest, headerScanPos := 0, resp := r } := by
  have hwf : ∀ f ∈ i.fields, f.WF := fun f hf => (hi.fields_ok f hf).1
  have hcl : CLcons none i.fields := ⟨[], Or.inl rfl, by
    intro f hf hci; have := (hi.fields_ok f hf).2.1; rw [hci] at this; cases this⟩
  have hdat' : st.data = joinCRLF (i.sl.render :: i.fields.map Field.line) ++ crlf2 ++ rest := by
    rw [hdat]; rfl
  obtain ⟨hf, ht, hdr, hl⟩ := head_found i.sl hi.sl_ok i.fields hwf rest
  have hp := parseHeaderBlock_exact i.sl hi.sl_ok i.fields hwf hcl
  refine ⟨{ status := i.sl.status, text := i.sl.reason.getD [], version := i.sl.version, headers := headerMap i.fields, body := [] }, ?_⟩
  rw [FR_interim method cap st _ _ hd (by rw [hdat']; exact hl) (by rw [hdat', hs]; exact hf)
    (by rw [hdat', ht]; exact hp) hi.interim]
  rw [hdat', hdr]

theorem FR_skip_interims (method : Bytes) (cap : Nat) : ∀ (is : List Interim), (∀ i ∈ is, InterimWF i) →
    ∀ (rest : Bytes) (st : St), st.headersDone = false → st.headerScanPos = 0 → st.data = renderInterims is ++ rest →
    ∃ r, frameResponse method cap st = frameResponse method cap { st with data := rest, headerScanPos := 0, resp := r } := by
  intro is
  induction is with
  | nil =>
    intro _ rest st hd hs hdat
    refine ⟨st.resp, ?_⟩
    have : st = { st with data := rest, headerScanPos := 0, resp := st.resp } := by
      cases st; simp only [renderInterims, List.map_nil, List.flatten_nil, List.nil_append] at hdat hs ⊢
      subst hdat; subst hs; rfl
    rw [← this]
  | cons i is ih =>
    intro hall rest st hd hs hdat
    have hdat' : st.data = i.render ++ (renderInterims is ++ rest) := by
      rw [hdat]; simp [renderInterims]
    obtain ⟨r1, h1⟩ := FR_skip_interim method cap i (hall i (by simp)) _ st hd hs hdat'
    obtain ⟨r2, h2⟩ := ih (fun j hj => hall j (by simp [hj])) rest
      { st with data := renderInterims is ++ rest, headerScanPos := 0, resp := r1 } hd rfl rfl
    exact ⟨r2, by rw [h1, h2]⟩

theorem decide_ne_nil (x : Bytes) (n : Nat) : decide (n + x.length > n) = decide (x ≠ []) := by
  cases x with
  | nil => simp
  | cons a b => simp

/-- **exactness of `frameResponse`** on `render m ++ x` (self-delimiting bodies) -/
theorem FR_exact (method : Bytes) (cap : Nat) (m : Response) (hm : RespWF method cap m) (x : Bytes) (st : St)
    (hd : st.headersDone = false) (hs : st.headerScanPos = 0) (hfe : st.forceEvict = false)
    (hdat : st.data = m.render ++ x) (hnc : ∀ b, m.body ≠ .untilClose b) :
    ∃ st', frameResponse method cap st = (st', .complete) ∧
      st'.resp = { resp0 m with body := m.body.content } ∧ st'.forceEvict = decide (x ≠ []) := by
  have hdat' : st.data = m.head ++ crlf2 ++ (m.body.wire ++ x) := by rw [hdat]; simp [Response.render]
  rw [FR_header method cap m hm _ st hd hs hdat']
  have hbody := hm.body_ok
  have hlen : st.data.length = m.head.length + 4 + (m.body.wire ++ x).length := by rw [hdat']; simp [crlf2]; omega
  unfold bodyPhase
  cases hbd : m.body with
  | untilClose b => exact absurd hbd (hnc b)
  | empty =>
    refine ⟨_, by simp only [bodySt, bodyFraming, hbd]; rfl, by simp [bodySt, Body.content, resp0], ?_⟩
    simp only [bodySt, hfe, Bool.false_or, hlen, hbd, Body.wire, List.nil_append]
    exact decide_ne_nil x _
  | sized tok b =>
    rw [hbd] at hbody; simp only at hbody
    have hnot : ¬ (st.data.length - (m.head.length + 4) < b.length) := by
      rw [hlen, hbd]; simp [Body.wire]
    have htake : (st.data.drop (m.head.length + 4)).take b.length = b := by
      have e : st.data = (m.head ++ crlf2) ++ (b ++ x) := by rw [hdat', hbd]; simp [Body.wire]
      have l : m.head.length + 4 = (m.head ++ crlf2).length := by simp [crlf2]
      rw [e, l, List.drop_left', List.take_left'] <;> rfl
    refine ⟨_, by simp only [bodySt, bodyFraming, hbd, hnot, ↓reduceIte]; rfl, ?_, ?_⟩
    · simp [bodySt, Body.content, resp0, htake]
    · simp only [bodySt, hfe, Bool.false_or, hlen, hbd, Body.wire, List.length_append]
      have : m.head.length + 4 + (b.length + x.length) = (m.head.length + 4 + b.length) + x.length := by omega
      rw [this]
      exact decide_ne_nil x _
  | chunked te cs l =>
    rw [hbd] at hbody; simp only at hbody
    have e : st.data = (m.head ++ crlf2) ++ (renderChunks cs ++ l.render ++ x) := by rw [hdat', hbd]; simp [Body.wire]
    have l4 : m.head.length + 4 = (m.head ++ crlf2).length := by simp [crlf2]
    have hadv := advanceChunked_exact cap l hbody.2.2.2.2.2 x cs (m.head ++ crlf2)
      { pos := m.head.length + 4, decoded := [], messageEnd := 0 } hbody.2.2.2.2.1 l4
    rw [← e] at hadv
    refine ⟨_, by simp only [bodySt, bodyFraming, hbd, hadv]; rfl, ?_, ?_⟩
    · simp [bodySt, Body.content, resp0]
    · simp only [bodySt, hfe, Bool.false_or, e]
      have : ((m.head ++ crlf2) ++ (renderChunks cs ++ l.render ++ x)).length =
          ((m.head ++ crlf2).length + (renderChunks cs).length + l.render.length) + x.length := by
        simp only [List.length_append]; omega
      rw [this]
      exact decide_ne_nil x _

/-- … and for a close-delimited body: "need more" until the peer closes, with the header parsed -/
theorem FR_exact_close (method : Bytes) (cap : Nat) (m : Response) (hm : RespWF method cap m) (b x : Bytes) (st : St)
    (hd : st.headersDone = false) (hs : st.headerScanPos = 0)
    (hdat : st.data = m.render ++ x) (hb : m.body = .untilClose b) :
    frameResponse method cap st = (bodySt st m, .needMore) ∧ (bodySt st m).framing.mode = .closeDelimited := by
  have hdat' : st.data = m.head ++ crlf2 ++ (m.body.wire ++ x) := by rw [hdat]; simp [Response.render]
  rw [FR_header method cap m hm _ st hd hs hdat']
  unfold bodyPhase
  simp [bodySt, bodyFraming, hb]

/-! ### the receive loop on a rendered stream -/

theorem render_ne (m : Response) : 0 < m.render.length := by
  simp [Response.render, crlf2]; omega

theorem recv_exact (method : Bytes) (cap : Nat) (is : List Interim) (m : Response) (x : Bytes)
    (his : ∀ i ∈ is, InterimWF i) (hm : RespWF method cap m) (hnc : ∀ b, m.body ≠ .untilClose b)
    (hcap : (renderInterims is ++ m.render ++ x).length ≤ cap) :
    (recvStep method cap {} (.data (renderInterims is ++ m.render ++ x))).2 =
      .response { resp0 m with body := m.body.content } (decide (x ≠ [])) := by
  have hne : (renderInterims is ++ m.render ++ x).isEmpty = false := by
    have h0 := render_ne m
    have hl : m.render.length ≤ (renderInterims is ++ m.render ++ x).length := by
      simp only [List.length_append]; omega
    cases h : renderInterims is ++ m.render ++ x with
    | nil => rw [h] at hl; simp only [List.length_nil] at hl; omega
    | cons a b => rfl
  have hcap' : ¬ (([] ++ (renderInterims is ++ m.render ++ x)).length > cap) := by simpa using hcap
  simp only [recvStep, hne, Bool.false_eq_true, ↓reduceIte]
  rw [if_neg hcap']
  obtain ⟨r, hr⟩ := FR_skip_interims method cap is his (m.render ++ x)
    { data := [] ++ (renderInterims is ++ m.render ++ x) } rfl rfl (by simp)
  obtain ⟨st', hst, hresp, hfe⟩ := FR_exact method cap m hm x
    { data := m.render ++ x, headerScanPos := 0, resp := r } rfl rfl rfl rfl hnc
  simp only [hr]
  rw [hst]
  simp only [hresp, hfe]

theorem recv_exact_close (method : Bytes) (cap : Nat) (is : List Interim) (m : Response) (b x : Bytes)
    (his : ∀ i ∈ is, InterimWF i) (hm : RespWF method cap m) (hb : m.body = .untilClose b)
    (hcap : (renderInterims is ++ m.render ++ x).length ≤ cap) :
    (runLoop method cap {} [.data (renderInterims is ++ m.render ++ x), .peerClosed]).2 =
      .response { resp0 m with body := b ++ x } true := by
  have hne : (renderInterims is ++ m.render ++ x).isEmpty = false := by
    have h0 := render_ne m
    have hl : m.render.length ≤ (renderInterims is ++ m.render ++ x).length := by
      simp only [List.length_append]; omega
    cases h : renderInterims is ++ m.render ++ x with
    | nil => rw [h] at hl; simp only [List.length_nil] at hl; omega
    | cons a b => rfl
  have hcap' : ¬ (([] ++ (renderInterims is ++ m.render ++ x)).length > cap) := by simpa using hcap
  obtain ⟨r, hr⟩ := FR_skip_interims method cap is his (m.render ++ x)
    { data := [] ++ (renderInterims is ++ m.render ++ x) } rfl rfl (by simp)
  obtain ⟨hst, hmode⟩ := FR_exact_close method cap m hm b x
    { data := m.render ++ x, headerScanPos := 0, resp := r } rfl rfl rfl hb
  simp only [runLoop, recvStep, hne, Bool.false_eq_true, ↓reduceIte]
  rw [if_neg hcap']
  simp only [hr]
  rw [hst]
  simp only [bodySt, bodyFraming, hb, and_self, ↓reduceIte]
  have : (m.render ++ x).drop (m.head.length + 4) = b ++ x := by
    have e : m.render ++ x = (m.head ++ crlf2) ++ (b ++ x) := by simp [Response.render, hb, Body.wire]
    have l : m.head.length + 4 = (m.head ++ crlf2).length := by simp [crlf2]
    rw [e, l, List.drop_left']; rfl
  simp [this]

/-! ### responses that never have a body (HEAD / 204 / 304): ANY field list, incl. Content-Length / Transfer-Encoding -/

theorem recv_exact_nobody (method : Bytes) (cap : Nat) (is : List Interim) (sl : StatusLine) (fs : List Field) (x : Bytes)
    (his : ∀ i ∈ is, InterimWF i) (hsl : sl.WF) (hfin : isInterim sl.status = false) (hfs : ∀ f ∈ fs, f.WF)
    (hcl : CLcons none fs) (hm : method ≠ ascii "CONNECT")
    (hnb : method = ascii "HEAD" ∨ sl.status = 204 ∨ sl.status = 304)
    (hcap : (renderInterims is ++ (joinCRLF (sl.render :: fs.map Field.line) ++ crlf2) ++ x).length ≤ cap) :
    (recvStep method cap {} (.data (renderInterims is ++ (joinCRLF (sl.render :: fs.map Field.line) ++ crlf2) ++ x))).2 =
      .response { status := sl.status, text := sl.reason.getD [], version := sl.version, headers := headerMap fs, body := [] }
        (decide (x ≠ [])) := by
  have hne : (renderInterims is ++ (joinCRLF (sl.render :: fs.map Field.line) ++ crlf2) ++ x).isEmpty = false := by
    cases h : renderInterims is ++ (joinCRLF (sl.render :: fs.map Field.line) ++ crlf2) ++ x with
    | nil => have := congrArg List.length h; simp [crlf2] at this
    | cons a b => rfl
  have hcap' : ¬ (([] ++ (renderInterims is ++ (joinCRLF (sl.render :: fs.map Field.line) ++ crlf2) ++ x)).length > cap) := by
    simpa using hcap
  simp only [recvStep, hne, Bool.false_eq_true, ↓reduceIte]
  rw [if_neg hcap']
  obtain ⟨r, hr⟩ := FR_skip_interims method cap is his (joinCRLF (sl.render :: fs.map Field.line) ++ crlf2 ++ x)
    { data := [] ++ (renderInterims is ++ (joinCRLF (sl.render :: fs.map Field.line) ++ crlf2) ++ x) } rfl rfl (by simp)
  simp only [hr]
  obtain ⟨hf, ht, _, hl⟩ := head_found sl hsl fs hfs x
  have hp := parseHeaderBlock_exact sl hsl fs hfs hcl
  have hdf : determineFraming method
      { status := sl.status, text := sl.reason.getD [], version := sl.version, headers := headerMap fs, body := [] } cap =
      .ok { mode := .noBody, contentLength := 0 } := by
    unfold determineFraming
    simp only [hm, ↓reduceIte, (noBody_iff method sl.status hfin).mpr hnb]
  rw [FR_final method cap _ (joinCRLF (sl.render :: fs.map Field.line)).length _ _ rfl hl hf (by rw [ht]; exact hp) hfin hdf]
  simp only [bodyPhase, Bool.false_or]
  congr 1
  have : (joinCRLF (sl.render :: fs.map Field.line) ++ crlf2 ++ x).length =
      ((joinCRLF (sl.render :: fs.map Field.line)).length + 4) + x.length := by simp [crlf2]; omega
  rw [this]
  exact decide_ne_nil x _

end Iora.Http
