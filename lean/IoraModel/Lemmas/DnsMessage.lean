import IoraModel.Lemmas.DnsRecords
import IoraModel.Lemmas.DnsSafe
/-! N2 for C19 at message level: a response laid out per RFC 1035 §4.1 — every name compressed in any way — parses to exactly
its questions and resource records. -/
namespace Iora.Dns
open Iora

theorem b8_congr {a b : Nat} (h : a % 256 = b % 256) : b8 a = b8 b := by
  apply UInt8.toNat_inj.mp
  rw [b8_toNat, b8_toNat, h]

theorem be32_split (v : Nat) : be32 v = be16 (v / 65536) ++ be16 (v % 65536) := by
  simp only [be32, be16, List.cons_append, List.nil_append]
  have h1 : b8 (v / 2 ^ 24) = b8 (v / 65536 / 256) := b8_congr (by omega)
  have h2 : b8 (v / 2 ^ 16) = b8 (v / 65536) := b8_congr (by omega)
  have h3 : b8 (v / 2 ^ 8) = b8 (v % 65536 / 256) := b8_congr (by omega)
  have h4 : b8 v = b8 (v % 65536) := b8_congr (by omega)
  rw [h1, h2, h3, h4]

theorem rd32_mid (pre post : Bytes) (v : Nat) (hv : v < 4294967296) : rd32 (pre ++ be32 v ++ post) pre.length = .ok v := by
  unfold rd32
  rw [be32_split]
  have e1 : pre ++ (be16 (v / 65536) ++ be16 (v % 65536)) ++ post = pre ++ be16 (v / 65536) ++ (be16 (v % 65536) ++ post) := by
    simp [List.append_assoc]
  have e2 : pre ++ (be16 (v / 65536) ++ be16 (v % 65536)) ++ post = (pre ++ be16 (v / 65536)) ++ be16 (v % 65536) ++ post := by
    simp [List.append_assoc]
  have r1 : rd16 (pre ++ (be16 (v / 65536) ++ be16 (v % 65536)) ++ post) pre.length = .ok (v / 65536) := by
    rw [e1]; exact rd16_mid _ _ _ (by omega)
  have r2 : rd16 (pre ++ (be16 (v / 65536) ++ be16 (v % 65536)) ++ post) (pre.length + 2) = .ok (v % 65536) := by
    rw [e2]
    have := rd16_mid (pre ++ be16 (v / 65536)) post (v % 65536) (by omega)
    simpa using this
  rw [r1, r2]
  simp only [bind, Except.bind, pure, Except.pure]
  congr 1
  omega

/-- a question stands at `off`: a name (any compression) followed by QTYPE and QCLASS -/
def QuestionAt (m : Bytes) (off : Nat) (q : Question) (next : Nat) : Prop :=
  ∃ (ls : List Bytes) (pre post : Bytes), WellFormedName m off ls pre.length ∧ q.qname = dottedName ls ∧
    m = pre ++ (be16 q.qtype ++ be16 q.qclass) ++ post ∧ q.qtype < 65536 ∧ q.qclass < 65536 ∧ next = pre.length + 4

/-- a resource record stands at `off`: owner name (any compression), TYPE, CLASS, TTL, RDLENGTH, RDATA -/
def RecordAt (m : Bytes) (off : Nat) (rr : RR) (rdOff next : Nat) : Prop :=
  ∃ (ls : List Bytes) (pre post : Bytes), WellFormedName m off ls pre.length ∧ rr.name = dottedName ls ∧
    m = pre ++ (be16 rr.type ++ be16 rr.cls ++ be32 rr.ttl ++ be16 rr.rdlength ++ rr.rdata) ++ post ∧
    rr.type < 65536 ∧ rr.cls < 65536 ∧ rr.ttl < 4294967296 ∧ rr.rdlength = rr.rdata.length ∧ rr.rdata.length < 65536 ∧
    rdOff = pre.length + 10 ∧ next = pre.length + 10 + rr.rdata.length

inductive QuestionsAt (m : Bytes) : Nat → List Question → Nat → Prop
  | nil (off : Nat) : QuestionsAt m off [] off
  | cons {off nx next : Nat} {q : Question} {qs : List Question} :
      QuestionAt m off q nx → QuestionsAt m nx qs next → QuestionsAt m off (q :: qs) next

inductive RecordsAt (m : Bytes) : Nat → List (RR × Nat) → Nat → Prop
  | nil (off : Nat) : RecordsAt m off [] off
  | cons {off nx next rdOff : Nat} {rr : RR} {rs : List (RR × Nat)} :
      RecordAt m off rr rdOff nx → RecordsAt m nx rs next → RecordsAt m off ((rr, rdOff) :: rs) next

theorem parseQuestion_exact {m : Bytes} {off : Nat} {q : Question} {next : Nat} (h : QuestionAt m off q next) :
    parseQuestion m off = .ok (q, next) := by
  obtain ⟨ls, pre, post, hd, hn, hm, ht, hc, hnx⟩ := h
  have hdec := decodeName_sound m off ls pre.length hd
  have e1 : m = pre ++ be16 q.qtype ++ (be16 q.qclass ++ post) := by rw [hm]; simp [List.append_assoc]
  have e2 : m = (pre ++ be16 q.qtype) ++ be16 q.qclass ++ post := by rw [hm]; simp [List.append_assoc]
  have r1 : rd16 m pre.length = .ok q.qtype := by
    rw [e1]; exact rd16_mid _ _ _ ht
  have r2 : rd16 m (pre.length + 2) = .ok q.qclass := by
    rw [e2]
    have := rd16_mid (pre ++ be16 q.qtype) post q.qclass hc
    simpa using this
  have hlen : m.length = pre.length + 4 + post.length := by rw [hm]; simp; omega
  unfold parseQuestion
  rw [hdec]
  simp only [bind, Except.bind, checkBounds, hlen, r1, r2, pure, Except.pure,
    show ¬ pre.length + 2 > pre.length + 4 + post.length by omega,
    show ¬ pre.length + 2 + 2 > pre.length + 4 + post.length by omega, ↓reduceIte]
  rw [hnx, ← hn]

theorem parseRR_exact {m : Bytes} {off : Nat} {rr : RR} {rdOff next : Nat} (h : RecordAt m off rr rdOff next)
    (hval : validateRdata rr = .ok ()) : parseRR m off = .ok (rr, rdOff, next) := by
  obtain ⟨ls, pre, post, hd, hn, hm, ht, hc, httl, hrl, hrlen, hrd, hnx⟩ := h
  have hdec := decodeName_sound m off ls pre.length hd
  have e1 : m = pre ++ be16 rr.type ++ (be16 rr.cls ++ be32 rr.ttl ++ be16 rr.rdlength ++ rr.rdata ++ post) := by
    rw [hm]; simp [List.append_assoc]
  have e2 : m = (pre ++ be16 rr.type) ++ be16 rr.cls ++ (be32 rr.ttl ++ be16 rr.rdlength ++ rr.rdata ++ post) := by
    rw [hm]; simp [List.append_assoc]
  have e3 : m = (pre ++ be16 rr.type ++ be16 rr.cls) ++ be32 rr.ttl ++ (be16 rr.rdlength ++ rr.rdata ++ post) := by
    rw [hm]; simp [List.append_assoc]
  have e4 : m = (pre ++ be16 rr.type ++ be16 rr.cls ++ be32 rr.ttl) ++ be16 rr.rdlength ++ (rr.rdata ++ post) := by
    rw [hm]; simp [List.append_assoc]
  have e5 : m = (pre ++ be16 rr.type ++ be16 rr.cls ++ be32 rr.ttl ++ be16 rr.rdlength) ++ rr.rdata ++ post := by
    rw [hm]; simp [List.append_assoc]
  have r1 : rd16 m pre.length = .ok rr.type := by rw [e1]; exact rd16_mid _ _ _ ht
  have r2 : rd16 m (pre.length + 2) = .ok rr.cls := by
    rw [e2]; have := rd16_mid (pre ++ be16 rr.type) (be32 rr.ttl ++ be16 rr.rdlength ++ rr.rdata ++ post) rr.cls hc
    simpa using this
  have r3 : rd32 m (pre.length + 4) = .ok rr.ttl := by
    rw [e3]; have := rd32_mid (pre ++ be16 rr.type ++ be16 rr.cls) (be16 rr.rdlength ++ rr.rdata ++ post) rr.ttl httl
    simpa [Nat.add_assoc] using this
  have r4 : rd16 m (pre.length + 8) = .ok rr.rdlength := by
    rw [e4]; have := rd16_mid (pre ++ be16 rr.type ++ be16 rr.cls ++ be32 rr.ttl) (rr.rdata ++ post) rr.rdlength (by omega)
    simpa [Nat.add_assoc] using this
  have hsl : slice m (pre.length + 10) rr.rdlength = rr.rdata := by
    rw [hrl, e5]
    have hl : (pre ++ be16 rr.type ++ be16 rr.cls ++ be32 rr.ttl ++ be16 rr.rdlength).length = pre.length + 10 := by simp
    rw [← hl]; exact slice_mid _ _ _
  have hlen : m.length = pre.length + 10 + rr.rdata.length + post.length := by rw [hm]; simp; omega
  have hcp : copy m (pre.length + 10) rr.rdlength = .ok rr.rdata := by
    rw [copy_ok (by rw [hlen, hrl]; omega), hsl]
  unfold parseRR
  rw [hdec]
  simp only [bind, Except.bind, checkBounds, hlen, r1, r2, r3, r4, pure, Except.pure, hcp,
    show ¬ pre.length + 2 > pre.length + 10 + rr.rdata.length + post.length by omega,
    show ¬ pre.length + 2 + 2 > pre.length + 10 + rr.rdata.length + post.length by omega,
    show ¬ pre.length + 4 + 4 > pre.length + 10 + rr.rdata.length + post.length by omega,
    show ¬ pre.length + 8 + 2 > pre.length + 10 + rr.rdata.length + post.length by omega,
    show ¬ pre.length + 10 + rr.rdlength > pre.length + 10 + rr.rdata.length + post.length by omega, ↓reduceIte]
  have hrr : ({ name := dottedName ls, type := rr.type, cls := rr.cls, ttl := rr.ttl, rdlength := rr.rdlength, rdata := rr.rdata } : RR) = rr := by
    rw [← hn]
  rw [hrr, hval]
  simp only [hrd, hnx, hrl]

/-- what `parseTypedRecord` yields for a record (it cannot fail: N3) -/
def typedSpec (m : Bytes) (p : RR × Nat) : Option Typed :=
  match parseTypedRecord p.1 m p.2 with
  | .ok t => t
  | .error _ => none

theorem parseTypedRecord_eq (rr : RR) (m : Bytes) (rdOff : Nat) : parseTypedRecord rr m rdOff = .ok (typedSpec m (rr, rdOff)) := by
  unfold typedSpec
  cases h : parseTypedRecord rr m rdOff with
  | ok t => rfl
  | error e =>
    exfalso
    unfold parseTypedRecord at h
    split at h <;> first | cases h | skip
    · have := (typedOf_safe rr m rdOff).1; rename_i he; exact this he
    · have := (typedOf_safe rr m rdOff).2; rename_i he; exact this he

theorem parseQuestions_exact {m : Bytes} {off : Nat} {qs : List Question} {next : Nat} (h : QuestionsAt m off qs next) :
    ∀ acc, parseQuestions m qs.length off acc = .ok (acc ++ qs, next) := by
  induction h with
  | nil off => intro acc; simp [parseQuestions]
  | cons hq _ ih =>
    intro acc
    simp only [List.length_cons, parseQuestions, parseQuestion_exact hq]
    rw [ih]
    simp [List.append_assoc]

theorem parseSection_exact {m : Bytes} {off : Nat} {rs : List (RR × Nat)} {next : Nat} (h : RecordsAt m off rs next)
    (hval : ∀ p ∈ rs, validateRdata p.1 = .ok ()) :
    ∀ (acc : List RR) (tacc : List Typed),
      parseSection m rs.length off acc tacc = .ok (acc ++ rs.map (·.1), tacc ++ rs.filterMap (typedSpec m), next) := by
  induction h with
  | nil off => intro acc tacc; simp [parseSection]
  | @cons off nx next rdOff rr rs hr _ ih =>
    intro acc tacc
    have hv := hval (rr, rdOff) (by simp)
    simp only [List.length_cons, parseSection, parseRR_exact hr hv, parseTypedRecord_eq]
    rw [ih (fun p hp => hval p (by simp [hp]))]
    cases ht : typedSpec m (rr, rdOff) <;> simp [ht, List.append_assoc]

end Iora.Dns
