import IoraModel.Spec.DnsWire
import IoraModel.Lemmas.Dns
/-! N1 for C19: `decodeName` is sound and complete for the RFC 1035 relation `Denotes`. -/
namespace Iora.Dns
open Iora

/-- `Denotes` with the number of decoding steps (labels + pointer hops) made explicit -/
inductive DenotesN (m : Bytes) : Nat → List Bytes → Nat → Nat → Prop
  | root {off : Nat} : m[off]? = some 0 → DenotesN m off [] (off + 1) 0
  | label {off : Nat} {b : UInt8} {ls : List Bytes} {next k : Nat} :
      m[off]? = some b → 1 ≤ b.toNat → b.toNat ≤ 63 → off + 1 + b.toNat ≤ m.length →
      DenotesN m (off + (b.toNat + 1)) ls next k →
      DenotesN m off (slice m (off + 1) b.toNat :: ls) next (k + 1)
  | ptr {off : Nat} {b b2 : UInt8} {ls : List Bytes} {nx k : Nat} :
      m[off]? = some b → 192 ≤ b.toNat → m[off + 1]? = some b2 →
      DenotesN m ((b.toNat % 64) * 256 + b2.toNat) ls nx k →
      DenotesN m off ls (off + 2) (k + 1)

theorem Denotes.toN {m : Bytes} {off : Nat} {ls : List Bytes} {nx : Nat} (h : Denotes m off ls nx) :
    ∃ k, DenotesN m off ls nx k := by
  induction h with
  | root h0 => exact ⟨0, .root h0⟩
  | label hb h1 h63 hlen _ ih => obtain ⟨k, hk⟩ := ih; exact ⟨k + 1, .label hb h1 h63 hlen hk⟩
  | ptr hb h192 hb2 _ ih => obtain ⟨k, hk⟩ := ih; exact ⟨k + 1, .ptr hb h192 hb2 hk⟩

theorem DenotesN.toDenotes {m : Bytes} {off : Nat} {ls : List Bytes} {nx k : Nat} (h : DenotesN m off ls nx k) :
    Denotes m off ls nx := by
  induction h with
  | root h0 => exact .root h0
  | label hb h1 h63 hlen _ ih => exact .label hb h1 h63 hlen ih
  | ptr hb h192 hb2 _ ih => exact .ptr hb h192 hb2 ih

/-- the walk from an offset is deterministic: same labels, same continuation, same number of steps -/
theorem DenotesN.det {m : Bytes} {off : Nat} {ls : List Bytes} {nx k : Nat} (h : DenotesN m off ls nx k) :
    ∀ {ls' : List Bytes} {nx' k' : Nat}, DenotesN m off ls' nx' k' → ls = ls' ∧ nx = nx' ∧ k = k' := by
  induction h with
  | root h0 =>
    intro ls' nx' k' h'
    cases h' with
    | root _ => exact ⟨rfl, rfl, rfl⟩
    | label hb h1 _ _ _ => rw [h0] at hb; cases hb; simp at h1
    | ptr hb h192 _ _ => rw [h0] at hb; cases hb; simp at h192
  | label hb h1 h63 hlen _ ih =>
    intro ls' nx' k' h'
    cases h' with
    | root h0 => rw [hb] at h0; cases h0; simp at h1
    | label hb' _ _ _ hrest =>
      rw [hb] at hb'; cases hb'
      obtain ⟨e1, e2, e3⟩ := ih hrest
      exact ⟨by rw [e1], e2, by rw [e3]⟩
    | ptr hb' h192 _ _ => rw [hb] at hb'; cases hb'; omega
  | ptr hb h192 hb2 _ ih =>
    intro ls' nx' k' h'
    cases h' with
    | root h0 => rw [hb] at h0; cases h0; simp at h192
    | label hb' _ h63 _ _ => rw [hb] at hb'; cases hb'; omega
    | ptr hb' _ hb2' hrest =>
      rw [hb] at hb'; cases hb'
      rw [hb2] at hb2'; cases hb2'
      obtain ⟨e1, _, e3⟩ := ih hrest
      exact ⟨e1, rfl, by rw [e3]⟩

theorem isPtr_iff (b : UInt8) : isPtr b = true ↔ 192 ≤ b.toNat := by
  unfold isPtr
  simp only [Gen.Dns.compressionMask]
  exact decide_eq_true_iff

theorem ptr_value (b b2 : UInt8) (_h : 192 ≤ b.toNat) :
    (b.toNat * 256 + b2.toNat) % (Gen.Dns.pointerMask + 1) = (b.toNat % 64) * 256 + b2.toNat := by
  have := b.toNat_lt
  have := b2.toNat_lt
  simp only [Gen.Dns.pointerMask]
  omega

theorem joinFrom_cons (name l : Bytes) (ls : List Bytes) : joinFrom name (l :: ls) = joinFrom (appendLabel name l) ls := rfl

/-- soundness of the loop from any reachable state -/
theorem decodeGo_sound (m : Bytes) {off : Nat} {ls : List Bytes} {nx k : Nat} (h : DenotesN m off ls nx k) :
    ∀ (s : NSt), s.off = off →
      (∀ v ∈ s.visited, ∀ ls' nx' k', DenotesN m v ls' nx' k' → k ≤ k') →
      s.total + wire ls ≤ 253 →
      ∀ f, k + 1 ≤ f → decodeGo m f s = .ok (joinFrom s.name ls, if s.jumped then s.orig else nx) := by
  induction h with
  | @root off h0 =>
    intro s hs _ _ f hf
    obtain ⟨f, rfl⟩ : ∃ g, f = g + 1 := ⟨f - 1, by omega⟩
    have hlt : s.off < m.length := by
      rw [hs]; exact (List.getElem?_eq_some_iff.mp h0).1
    simp only [decodeGo, hlt, ↓reduceIte]
    have : rd m s.off = .ok 0 := by rw [hs]; exact rd_ok_iff.mpr h0
    rw [this]
    simp [isPtr, Gen.Dns.compressionMask, joinFrom, hs]
  | @label off b ls next k hb h1 h63 hlen _ ih =>
    intro s hs hv ht f hf
    obtain ⟨f, rfl⟩ : ∃ g, f = g + 1 := ⟨f - 1, by omega⟩
    have hlt : s.off < m.length := by
      rw [hs]; exact (List.getElem?_eq_some_iff.mp hb).1
    simp only [decodeGo, hlt, ↓reduceIte]
    have : rd m s.off = .ok b := by rw [hs]; exact rd_ok_iff.mpr hb
    rw [this]
    have hnp : isPtr b = false := by
      cases hp : isPtr b with
      | false => rfl
      | true => have := (isPtr_iff b).mp hp; omega
    have hsl : (slice m (off + 1) b.toNat).length = b.toNat := by
      simp [slice, List.length_take, List.length_drop]; omega
    simp only [wire, hsl] at ht
    simp only [hnp, Bool.false_eq_true, ↓reduceIte, Gen.Dns.maxLabel, Gen.Dns.maxName,
      show ¬ b.toNat = 0 by omega, show ¬ b.toNat > 63 by omega,
      show ¬ s.off + 1 + b.toNat > m.length by omega, show ¬ s.total + (b.toNat + 1) > 253 by omega]
    rw [ih { s with off := s.off + (b.toNat + 1), total := s.total + (b.toNat + 1),
                    name := appendLabel s.name (slice m (s.off + 1) b.toNat) }
          (by simp [hs]) (fun v hv' ls' nx' k' hd => by have := hv v hv' ls' nx' k' hd; omega)
          (by simp only []; omega) f (by omega)]
    simp [joinFrom_cons, hs]
  | @ptr off b b2 ls nx k hb h192 hb2 hrest ih =>
    intro s hs hv ht f hf
    obtain ⟨f, rfl⟩ : ∃ g, f = g + 1 := ⟨f - 1, by omega⟩
    have hlt : s.off < m.length := by
      rw [hs]; exact (List.getElem?_eq_some_iff.mp hb).1
    have hlt2 : s.off + 1 < m.length := by
      rw [hs]; exact (List.getElem?_eq_some_iff.mp hb2).1
    simp only [decodeGo, hlt, ↓reduceIte]
    have : rd m s.off = .ok b := by rw [hs]; exact rd_ok_iff.mpr hb
    rw [this]
    have hp : isPtr b = true := (isPtr_iff b).mpr h192
    have h16 : rd16 m s.off = .ok (b.toNat * 256 + b2.toNat) := by
      rw [rd16_ok hlt2]
      have e1 : m[s.off] = b := by
        have := List.getElem?_eq_some_iff.mp (hs ▸ hb); exact this.2
      have e2 : m[s.off + 1] = b2 := by
        have := List.getElem?_eq_some_iff.mp (hs ▸ hb2); exact this.2
      rw [e1, e2]
    simp only [hp, ↓reduceIte, show ¬ s.off + 2 > m.length by omega, h16, ptr_value b b2 h192]
    -- the target starts a derivation, so it is inside the message
    have htl : (b.toNat % 64) * 256 + b2.toNat < m.length := by
      cases hrest with
      | root h0 => exact (List.getElem?_eq_some_iff.mp h0).1
      | label hb' _ _ _ _ => exact (List.getElem?_eq_some_iff.mp hb').1
      | ptr hb' _ _ _ => exact (List.getElem?_eq_some_iff.mp hb').1
    -- and it has not been visited: every visited target needs at least k+1 steps, this one needs k
    have hnv : s.visited.contains ((b.toNat % 64) * 256 + b2.toNat) = false := by
      cases hc : s.visited.contains ((b.toNat % 64) * 256 + b2.toNat) with
      | false => rfl
      | true =>
        have hmem : (b.toNat % 64) * 256 + b2.toNat ∈ s.visited := by simpa using hc
        have := hv _ hmem _ _ _ hrest
        omega
    simp only [show ¬ (b.toNat % 64) * 256 + b2.toNat ≥ m.length by omega, hnv, Bool.false_eq_true, ↓reduceIte]
    rw [ih { s with off := (b.toNat % 64) * 256 + b2.toNat, visited := ((b.toNat % 64) * 256 + b2.toNat) :: s.visited,
                    jumped := true, orig := if s.jumped then s.orig else s.off + 2 }
          rfl
          (fun v hv' ls' nx' k' hd => by
            cases hv' with
            | head => have := (hrest.det hd).2.2; omega
            | tail _ hm => have := hv v hm ls' nx' k' hd; omega)
          ht f (by omega)]
    cases s.jumped <;> simp [hs]

/-- more fuel never changes an answer that is not "out of fuel" -/
theorem decodeGo_mono (m : Bytes) : ∀ (f : Nat) (s : NSt) (r : R (Bytes × Nat)),
    decodeGo m f s = r → r ≠ .error .fuel → decodeGo m (f + 1) s = r := by
  intro f
  induction f with
  | zero => intro s r h hr; simp only [decodeGo] at h; exact absurd h.symm hr
  | succ f ih =>
    intro s r h hr
    unfold decodeGo at h ⊢
    dsimp only at h ⊢
    generalize (if s.jumped = true then s.orig else s.off + 2) = orig at h ⊢
    split
    · rename_i hlt
      simp only [hlt, ↓reduceIte] at h
      split
      · rename_i e he
        simp only [he] at h; exact h
      · rename_i b hb
        simp only [hb] at h
        split
        · rename_i hp
          simp only [hp, ↓reduceIte] at h
          split
          · rename_i hb2
            simp only [hb2, ↓reduceIte] at h; exact h
          · rename_i hb2
            simp only [hb2, ↓reduceIte] at h
            split
            · rename_i e he
              simp only [he] at h; exact h
            · rename_i w hw
              simp only [hw] at h
              split
              · rename_i hge
                simp only [hge, ↓reduceIte] at h; exact h
              · rename_i hge
                simp only [hge, ↓reduceIte] at h
                split
                · rename_i hv
                  simp only [hv, ↓reduceIte] at h; exact h
                · rename_i hv
                  simp only [hv, Bool.false_eq_true, ↓reduceIte] at h
                  exact ih _ _ h hr
        · rename_i hp
          simp only [hp, Bool.false_eq_true, ↓reduceIte] at h
          split
          · rename_i h0
            simp only [h0, ↓reduceIte] at h; exact h
          · rename_i h0
            simp only [h0, ↓reduceIte] at h
            split
            · rename_i h1
              simp only [h1, ↓reduceIte] at h; exact h
            · rename_i h1
              simp only [h1, ↓reduceIte] at h
              split
              · rename_i h2
                simp only [h2, ↓reduceIte] at h; exact h
              · rename_i h2
                simp only [h2, ↓reduceIte] at h
                split
                · rename_i h3
                  simp only [h3, ↓reduceIte] at h; exact h
                · rename_i h3
                  simp only [h3, ↓reduceIte] at h
                  exact ih _ _ h hr
    · rename_i hlt
      simp only [hlt, ↓reduceIte] at h
      exact h

theorem decodeGo_mono' (m : Bytes) (f : Nat) (s : NSt) (r : R (Bytes × Nat)) (h : decodeGo m f s = r)
    (hr : r ≠ .error .fuel) : ∀ d, decodeGo m (f + d) s = r := by
  intro d
  induction d with
  | zero => exact h
  | succ d ih => exact decodeGo_mono m (f + d) s r ih hr

/-- **N1 (soundness).** Whatever the layout of compression pointers: if the bytes at `off` denote the labels `ls`
(RFC 1035 relation) and the name is within the decoder's length limit, `decodeName` returns exactly those labels in
presentation form and the continuation offset. -/
theorem decodeName_sound (m : Bytes) (off : Nat) (ls : List Bytes) (nx : Nat) (h : Denotes m off ls nx)
    (hw : wire ls ≤ 253) : decodeName m off = .ok (dottedName ls, nx) := by
  obtain ⟨k, hk⟩ := h.toN
  have key := decodeGo_sound m hk { off := off, orig := off } rfl (by intro v hv; cases hv) (by simpa using hw)
  unfold decodeName
  by_cases hf : k + 1 ≤ nameFuel m
  · have := key (nameFuel m) hf
    simpa [dottedName] using this
  · -- the fixed fuel is never exhausted (N4), so its answer is the answer for every larger fuel
    have hnf := decodeName_no_fuel m off
    unfold decodeName at hnf
    have := decodeGo_mono' m (nameFuel m) _ _ rfl hnf (k + 1 - nameFuel m)
    rw [show nameFuel m + (k + 1 - nameFuel m) = k + 1 by omega] at this
    rw [← this, key (k + 1) (Nat.le_refl _)]
    simp [dottedName]

/-- completeness of the loop: an accepted name is denoted by the bytes (needs the repaired epilogue: a name that
runs off the end of the message is an error) -/
theorem decodeGo_complete (m : Bytes) : ∀ (f : Nat) (s : NSt) (n : Bytes) (nx : Nat),
    s.total ≤ 253 → decodeGo m f s = .ok (n, nx) →
    ∃ ls nx', Denotes m s.off ls nx' ∧ n = joinFrom s.name ls ∧ nx = (if s.jumped then s.orig else nx') ∧
      s.total + wire ls ≤ 253 := by
  intro f
  induction f with
  | zero => intro s n nx _ h; simp [decodeGo] at h
  | succ f ih =>
    intro s n nx hs h
    unfold decodeGo at h
    dsimp only at h
    split at h
    · rename_i hlt
      split at h
      · cases h
      · rename_i b hb
        have hb' := rd_ok_iff.mp hb
        split at h
        · rename_i hp
          have h192 := (isPtr_iff b).mp hp
          split at h
          · cases h
          · split at h
            · cases h
            · rename_i w hw
              obtain ⟨c, c2, hc, hc2, hweq⟩ := rd16_ok_inv hw
              rw [hb'] at hc; cases hc
              split at h
              · cases h
              · split at h
                · cases h
                · obtain ⟨ls, nx', hd, hn, hnx, ht⟩ := ih _ _ _ (by exact hs) h
                  dsimp only at hd hn hnx ht
                  rw [hweq, ptr_value b c2 h192] at hd
                  refine ⟨ls, s.off + 2, .ptr hb' h192 hc2 hd, hn, ?_, ht⟩
                  simpa using hnx
        · rename_i hp
          have hlt192 : b.toNat < 192 := by
            have : ¬ 192 ≤ b.toNat := fun h' => by
              have := (isPtr_iff b).mpr h'
              exact hp this
            omega
          split at h
          · rename_i h0
            cases h
            have hb0 : b = 0 := by
              apply UInt8.toNat_inj.mp; simpa using h0
            rw [hb0] at hb'
            exact ⟨[], s.off + 1, .root hb', rfl, rfl, by simp only [wire]; omega⟩
          · split at h
            · cases h
            · split at h
              · cases h
              · split at h
                · cases h
                · rename_i h0 h63 hbd htot
                  simp only [Gen.Dns.maxLabel] at h63
                  simp only [Gen.Dns.maxName] at htot
                  obtain ⟨ls, nx', hd, hn, hnx, ht⟩ := ih _ _ _ (by dsimp only; omega) h
                  dsimp only at hd hn hnx ht
                  have hsl : (slice m (s.off + 1) b.toNat).length = b.toNat := by
                    simp [slice, List.length_take, List.length_drop]; omega
                  refine ⟨slice m (s.off + 1) b.toNat :: ls, nx', .label hb' (by omega) (by omega) (by omega) hd, ?_, hnx, ?_⟩
                  · rw [joinFrom_cons]; exact hn
                  · simp only [wire, hsl]; omega
    · cases h

/-- **N1 (completeness).** `decodeName` accepts only what the bytes denote: an `ok` answer is a name for which the RFC 1035
relation holds, with exactly the returned presentation form and continuation offset (so: no accepted loop, no accepted
out-of-range pointer, no accepted truncated name). -/
theorem decodeName_complete (m : Bytes) (off : Nat) (n : Bytes) (nx : Nat)
    (h : decodeName m off = .ok (n, nx)) :
    ∃ ls, Denotes m off ls nx ∧ n = dottedName ls ∧ wire ls ≤ 253 := by
  unfold decodeName at h
  obtain ⟨ls, nx', hd, hn, hnx, ht⟩ := decodeGo_complete m _ _ _ _ (by simp) h
  refine ⟨ls, ?_, hn, by simpa using ht⟩
  simp at hnx
  rw [hnx]; exact hd

end Iora.Dns
