import IoraModel.Spec.DnsWire
import IoraModel.Lemmas.Dns
/-! N1 for C19: `decodeName` is sound and complete for the RFC 1035 relation `Denotes`. -/
namespace Iora.Dns
open Iora

/-- `Denotes` with the number of decoding steps `k` (labels + pointer hops) and of pointer hops `h` made explicit -/
inductive DenotesN (m : Bytes) : Nat → List Bytes → Nat → Nat → Nat → Prop
  | root {off : Nat} : m[off]? = some 0 → DenotesN m off [] (off + 1) 0 0
  | label {off : Nat} {b : UInt8} {ls : List Bytes} {next k h : Nat} :
      m[off]? = some b → 1 ≤ b.toNat → b.toNat ≤ 63 → off + 1 + b.toNat ≤ m.length →
      DenotesN m (off + (b.toNat + 1)) ls next k h →
      DenotesN m off (slice m (off + 1) b.toNat :: ls) next (k + 1) h
  | ptr {off : Nat} {b b2 : UInt8} {ls : List Bytes} {nx k h : Nat} :
      m[off]? = some b → 192 ≤ b.toNat → m[off + 1]? = some b2 →
      DenotesN m ((b.toNat % 64) * 256 + b2.toNat) ls nx k h →
      DenotesN m off ls (off + 2) (k + 1) (h + 1)

theorem DenotesH.toN {m : Bytes} {off : Nat} {ls : List Bytes} {nx h : Nat} (hd : DenotesH m off ls nx h) :
    ∃ k, DenotesN m off ls nx k h := by
  induction hd with
  | root h0 => exact ⟨0, .root h0⟩
  | label hb h1 h63 hlen _ ih => obtain ⟨k, hk⟩ := ih; exact ⟨k + 1, .label hb h1 h63 hlen hk⟩
  | ptr hb h192 hb2 _ ih => obtain ⟨k, hk⟩ := ih; exact ⟨k + 1, .ptr hb h192 hb2 hk⟩

theorem Denotes.toH {m : Bytes} {off : Nat} {ls : List Bytes} {nx : Nat} (hd : Denotes m off ls nx) :
    ∃ h, DenotesH m off ls nx h := by
  induction hd with
  | root h0 => exact ⟨0, .root h0⟩
  | label hb h1 h63 hlen _ ih => obtain ⟨h, hh⟩ := ih; exact ⟨h, .label hb h1 h63 hlen hh⟩
  | ptr hb h192 hb2 _ ih => obtain ⟨h, hh⟩ := ih; exact ⟨h + 1, .ptr hb h192 hb2 hh⟩

theorem DenotesH.toDenotes {m : Bytes} {off : Nat} {ls : List Bytes} {nx h : Nat} (hd : DenotesH m off ls nx h) :
    Denotes m off ls nx := by
  induction hd with
  | root h0 => exact .root h0
  | label hb h1 h63 hlen _ ih => exact .label hb h1 h63 hlen ih
  | ptr hb h192 hb2 _ ih => exact .ptr hb h192 hb2 ih

theorem Denotes.toN {m : Bytes} {off : Nat} {ls : List Bytes} {nx : Nat} (hd : Denotes m off ls nx) :
    ∃ k h, DenotesN m off ls nx k h := by
  obtain ⟨h, hh⟩ := hd.toH
  obtain ⟨k, hk⟩ := hh.toN
  exact ⟨k, h, hk⟩

theorem DenotesN.toH {m : Bytes} {off : Nat} {ls : List Bytes} {nx k h : Nat} (hd : DenotesN m off ls nx k h) :
    DenotesH m off ls nx h := by
  induction hd with
  | root h0 => exact .root h0
  | label hb h1 h63 hlen _ ih => exact .label hb h1 h63 hlen ih
  | ptr hb h192 hb2 _ ih => exact .ptr hb h192 hb2 ih

theorem DenotesN.toDenotes {m : Bytes} {off : Nat} {ls : List Bytes} {nx k h : Nat} (hd : DenotesN m off ls nx k h) :
    Denotes m off ls nx := hd.toH.toDenotes

/-- the walk from an offset is deterministic: same labels, same continuation, same number of steps -/
theorem DenotesN.det {m : Bytes} {off : Nat} {ls : List Bytes} {nx k hh : Nat} (h : DenotesN m off ls nx k hh) :
    ∀ {ls' : List Bytes} {nx' k' hh' : Nat}, DenotesN m off ls' nx' k' hh' → ls = ls' ∧ nx = nx' ∧ k = k' := by
  induction h with
  | root h0 =>
    intro ls' nx' k' hh' h'
    cases h' with
    | root _ => exact ⟨rfl, rfl, rfl⟩
    | label hb h1 _ _ _ => rw [h0] at hb; cases hb; simp at h1
    | ptr hb h192 _ _ => rw [h0] at hb; cases hb; simp at h192
  | label hb h1 h63 hlen _ ih =>
    intro ls' nx' k' hh' h'
    cases h' with
    | root h0 => rw [hb] at h0; cases h0; simp at h1
    | label hb' _ _ _ hrest =>
      rw [hb] at hb'; cases hb'
      obtain ⟨e1, e2, e3⟩ := ih hrest
      exact ⟨by rw [e1], e2, by rw [e3]⟩
    | ptr hb' h192 _ _ => rw [hb] at hb'; cases hb'; omega
  | ptr hb h192 hb2 _ ih =>
    intro ls' nx' k' hh' h'
    cases h' with
    | root h0 => rw [hb] at h0; cases h0; simp at h192
    | label hb' _ h63 _ _ => rw [hb] at hb'; cases hb'; omega
    | ptr hb' _ hb2' hrest =>
      rw [hb] at hb'; cases hb'
      rw [hb2] at hb2'; cases hb2'
      obtain ⟨e1, _, e3⟩ := ih hrest
      exact ⟨e1, rfl, by rw [e3]⟩

theorem isPtr_iff (b : UInt8) : isPtr b = true ↔ 192 ≤ b.toNat := by
  unfold isPtr
  simp only [Gen.Dns.compressionMask]
  exact decide_eq_true_iff

theorem ptr_value (b b2 : UInt8) (_h : 192 ≤ b.toNat) :
    (b.toNat * 256 + b2.toNat) % (Gen.Dns.pointerMask + 1) = (b.toNat % 64) * 256 + b2.toNat := by
  have := b.toNat_lt
  have := b2.toNat_lt
  simp only [Gen.Dns.pointerMask]
  omega

theorem joinFrom_cons (name l : Bytes) (ls : List Bytes) : joinFrom name (l :: ls) = joinFrom (appendLabel name l) ls := rfl

/-- soundness of the loop from any reachable state -/
theorem decodeGo_sound (m : Bytes) {off : Nat} {ls : List Bytes} {nx k hops : Nat} (h : DenotesN m off ls nx k hops) :
    ∀ (s : NSt), s.off = off →
      (∀ v ∈ s.visited, ∀ ls' nx' k' h', DenotesN m v ls' nx' k' h' → k ≤ k') →
      s.total + wire ls + 1 ≤ 255 → s.jumps + hops ≤ Gen.Dns.maxJumps →
      ∀ f, k + 1 ≤ f → decodeGo m f s = .ok (joinFrom s.name ls, if s.jumped then s.orig else nx) := by
  induction h with
  | @root off h0 =>
    intro s hs _ _ _ f hf
    obtain ⟨f, rfl⟩ : ∃ g, f = g + 1 := ⟨f - 1, by omega⟩
    have hlt : s.off < m.length := by
      rw [hs]; exact (List.getElem?_eq_some_iff.mp h0).1
    simp only [decodeGo, hlt, ↓reduceIte]
    have : rd m s.off = .ok 0 := by rw [hs]; exact rd_ok_iff.mpr h0
    rw [this]
    simp [isPtr, Gen.Dns.compressionMask, joinFrom, hs]
  | @label off b ls next k hops hb h1 h63 hlen _ ih =>
    intro s hs hv ht hj f hf
    obtain ⟨f, rfl⟩ : ∃ g, f = g + 1 := ⟨f - 1, by omega⟩
    have hlt : s.off < m.length := by
      rw [hs]; exact (List.getElem?_eq_some_iff.mp hb).1
    simp only [decodeGo, hlt, ↓reduceIte]
    have : rd m s.off = .ok b := by rw [hs]; exact rd_ok_iff.mpr hb
    rw [this]
    have hnp : isPtr b = false := by
      cases hp : isPtr b with
      | false => rfl
      | true => have := (isPtr_iff b).mp hp; omega
    have hsl : (slice m (off + 1) b.toNat).length = b.toNat := by
      simp [slice, List.length_take, List.length_drop]; omega
    simp only [wire, hsl] at ht
    have hroot : rootOctet = 1 := rfl
    simp only [hnp, Bool.false_eq_true, ↓reduceIte, Gen.Dns.maxLabel, Gen.Dns.maxName, hroot,
      show ¬ b.toNat = 0 by omega, show ¬ b.toNat > 63 by omega,
      show ¬ s.off + 1 + b.toNat > m.length by omega, copy_ok (show s.off + 1 + b.toNat ≤ m.length by omega),
      show ¬ s.total + (b.toNat + 1) + 1 > 255 by omega]
    rw [ih { s with off := s.off + (b.toNat + 1), total := s.total + (b.toNat + 1),
                    name := appendLabel s.name (slice m (s.off + 1) b.toNat) }
          (by simp [hs]) (fun v hv' ls' nx' k' h' hd => by have := hv v hv' ls' nx' k' h' hd; omega)
          (by simp only []; omega) hj f (by omega)]
    simp [joinFrom_cons, hs]
  | @ptr off b b2 ls nx k hops hb h192 hb2 hrest ih =>
    intro s hs hv ht hj f hf
    obtain ⟨f, rfl⟩ : ∃ g, f = g + 1 := ⟨f - 1, by omega⟩
    have hlt : s.off < m.length := by
      rw [hs]; exact (List.getElem?_eq_some_iff.mp hb).1
    have hlt2 : s.off + 1 < m.length := by
      rw [hs]; exact (List.getElem?_eq_some_iff.mp hb2).1
    simp only [decodeGo, hlt, ↓reduceIte]
    have : rd m s.off = .ok b := by rw [hs]; exact rd_ok_iff.mpr hb
    rw [this]
    have hp : isPtr b = true := (isPtr_iff b).mpr h192
    have h16 : rd16 m s.off = .ok (b.toNat * 256 + b2.toNat) := by
      rw [rd16_ok hlt2]
      have e1 : m[s.off] = b := by
        have := List.getElem?_eq_some_iff.mp (hs ▸ hb); exact this.2
      have e2 : m[s.off + 1] = b2 := by
        have := List.getElem?_eq_some_iff.mp (hs ▸ hb2); exact this.2
      rw [e1, e2]
    simp only [hp, ↓reduceIte, show ¬ s.off + 2 > m.length by omega, h16, ptr_value b b2 h192]
    -- the target starts a derivation, so it is inside the message
    have htl : (b.toNat % 64) * 256 + b2.toNat < m.length := by
      cases hrest with
      | root h0 => exact (List.getElem?_eq_some_iff.mp h0).1
      | label hb' _ _ _ _ => exact (List.getElem?_eq_some_iff.mp hb').1
      | ptr hb' _ _ _ => exact (List.getElem?_eq_some_iff.mp hb').1
    -- and it has not been visited: every visited target needs at least k+1 steps, this one needs k
    have hnv : s.visited.contains ((b.toNat % 64) * 256 + b2.toNat) = false := by
      cases hc : s.visited.contains ((b.toNat % 64) * 256 + b2.toNat) with
      | false => rfl
      | true =>
        have hmem : (b.toNat % 64) * 256 + b2.toNat ∈ s.visited := by simpa using hc
        have := hv _ hmem _ _ _ _ hrest
        omega
    -- and the bound on compression pointers is not reached
    have hcap : (Gen.Dns.hasJumpCap && decide (s.jumps + 1 > Gen.Dns.maxJumps)) = false := by
      simp only [Gen.Dns.hasJumpCap, Bool.true_and, decide_eq_false_iff_not]; omega
    simp only [show ¬ (b.toNat % 64) * 256 + b2.toNat ≥ m.length by omega, hnv, hcap, Bool.false_eq_true, ↓reduceIte]
    rw [ih { s with off := (b.toNat % 64) * 256 + b2.toNat, visited := ((b.toNat % 64) * 256 + b2.toNat) :: s.visited,
                    jumped := true, orig := if s.jumped then s.orig else s.off + 2, jumps := s.jumps + 1 }
          rfl
          (fun v hv' ls' nx' k' h' hd => by
            cases hv' with
            | head => have := (hrest.det hd).2.2; omega
            | tail _ hm => have := hv v hm ls' nx' k' h' hd; omega)
          ht (by show s.jumps + 1 + hops ≤ Gen.Dns.maxJumps; omega) f (by omega)]
    cases s.jumped <;> simp [hs]

/-- more fuel never changes an answer that is not "out of fuel" -/
theorem decodeGo_mono (m : Bytes) : ∀ (f : Nat) (s : NSt) (r : R (Bytes × Nat)),
    decodeGo m f s = r → r ≠ .error .fuel → decodeGo m (f + 1) s = r := by
  intro f
  induction f with
  | zero => intro s r h hr; simp only [decodeGo] at h; exact absurd h.symm hr
  | succ f ih =>
    intro s r h hr
    unfold decodeGo at h ⊢
    dsimp only at h ⊢
    generalize (if s.jumped = true then s.orig else s.off + 2) = orig at h ⊢
    split
    · rename_i hlt
      simp only [hlt, ↓reduceIte] at h
      split
      · rename_i e he
        simp only [he] at h; exact h
      · rename_i b hb
        simp only [hb] at h
        split
        · rename_i hp
          simp only [hp, ↓reduceIte] at h
          split
          · rename_i hb2
            simp only [hb2, ↓reduceIte] at h; exact h
          · rename_i hb2
            simp only [hb2, ↓reduceIte] at h
            split
            · rename_i e he
              simp only [he] at h; exact h
            · rename_i w hw
              simp only [hw] at h
              split
              · rename_i hge
                simp only [hge, ↓reduceIte] at h; exact h
              · rename_i hge
                simp only [hge, ↓reduceIte] at h
                split
                · rename_i hv
                  simp only [hv, ↓reduceIte] at h; exact h
                · rename_i hv
                  simp only [hv, Bool.false_eq_true, ↓reduceIte] at h
                  split
                  · rename_i hc
                    simp only [hc, ↓reduceIte] at h; exact h
                  · rename_i hc
                    simp only [hc, Bool.false_eq_true, ↓reduceIte] at h
                    exact ih _ _ h hr
        · rename_i hp
          simp only [hp, Bool.false_eq_true, ↓reduceIte] at h
          split
          · rename_i h0
            simp only [h0, ↓reduceIte] at h; exact h
          · rename_i h0
            simp only [h0, ↓reduceIte] at h
            split
            · rename_i h1
              simp only [h1, ↓reduceIte] at h; exact h
            · rename_i h1
              simp only [h1, ↓reduceIte] at h
              split
              · rename_i h2
                simp only [h2, ↓reduceIte] at h; exact h
              · rename_i h2
                simp only [h2, ↓reduceIte] at h
                split
                · rename_i e he
                  simp only [he] at h; exact h
                · rename_i lbl hl
                  simp only [hl] at h
                  split
                  · rename_i h3
                    simp only [h3, ↓reduceIte] at h; exact h
                  · rename_i h3
                    simp only [h3, ↓reduceIte] at h
                    exact ih _ _ h hr
    · rename_i hlt
      simp only [hlt, ↓reduceIte] at h
      exact h

theorem decodeGo_mono' (m : Bytes) (f : Nat) (s : NSt) (r : R (Bytes × Nat)) (h : decodeGo m f s = r)
    (hr : r ≠ .error .fuel) : ∀ d, decodeGo m (f + d) s = r := by
  intro d
  induction d with
  | zero => exact h
  | succ d ih => exact decodeGo_mono m (f + d) s r ih hr

/-- **N1 (soundness).** Whatever the layout of compression pointers: if the bytes at `off` are a well-formed name with
labels `ls` (RFC 1035 relation, RFC length limit, at most `maxJumps` pointers followed), `decodeName` returns exactly those
labels in presentation form and the continuation offset. -/
theorem decodeName_sound (m : Bytes) (off : Nat) (ls : List Bytes) (nx : Nat) (h : WellFormedName m off ls nx) :
    decodeName m off = .ok (dottedName ls, nx) := by
  obtain ⟨hops, hh, hj, hw⟩ := h
  obtain ⟨k, hk⟩ := hh.toN
  have key := decodeGo_sound m hk { off := off, orig := off } rfl (by intro v hv; cases hv) (by simpa using hw) (by simpa using hj)
  unfold decodeName
  by_cases hf : k + 1 ≤ nameFuel m
  · have := key (nameFuel m) hf
    simpa [dottedName] using this
  · -- the fixed fuel is never exhausted (N4), so its answer is the answer for every larger fuel
    have hnf := decodeName_no_fuel m off
    unfold decodeName at hnf
    have := decodeGo_mono' m (nameFuel m) _ _ rfl hnf (k + 1 - nameFuel m)
    rw [show nameFuel m + (k + 1 - nameFuel m) = k + 1 by omega] at this
    rw [← this, key (k + 1) (Nat.le_refl _)]
    simp [dottedName]

/-- completeness of the loop: an accepted name is denoted by the bytes, within the limits -/
theorem decodeGo_complete (m : Bytes) : ∀ (f : Nat) (s : NSt) (n : Bytes) (nx : Nat),
    s.total + 1 ≤ 255 → s.jumps ≤ Gen.Dns.maxJumps → decodeGo m f s = .ok (n, nx) →
    ∃ ls nx' hops, DenotesH m s.off ls nx' hops ∧ n = joinFrom s.name ls ∧ nx = (if s.jumped then s.orig else nx') ∧
      s.total + wire ls + 1 ≤ 255 ∧ s.jumps + hops ≤ Gen.Dns.maxJumps := by
  intro f
  induction f with
  | zero => intro s n nx _ _ h; simp [decodeGo] at h
  | succ f ih =>
    intro s n nx hs hjs h
    unfold decodeGo at h
    dsimp only at h
    split at h
    · rename_i hlt
      split at h
      · cases h
      · rename_i b hb
        have hb' := rd_ok_iff.mp hb
        split at h
        · rename_i hp
          have h192 := (isPtr_iff b).mp hp
          split at h
          · cases h
          · split at h
            · cases h
            · rename_i w hw
              obtain ⟨c, c2, hc, hc2, hweq⟩ := rd16_ok_inv hw
              rw [hb'] at hc; cases hc
              split at h
              · cases h
              · split at h
                · cases h
                · split at h
                  · cases h
                  · rename_i hcap
                    simp only [Gen.Dns.hasJumpCap, Bool.true_and, decide_eq_true_eq] at hcap
                    obtain ⟨ls, nx', hops, hd, hn, hnx, ht, hj⟩ := ih _ _ _ (by exact hs) (by show s.jumps + 1 ≤ Gen.Dns.maxJumps; omega) h
                    dsimp only at hd hn hnx ht hj
                    rw [hweq, ptr_value b c2 h192] at hd
                    refine ⟨ls, s.off + 2, hops + 1, .ptr hb' h192 hc2 hd, hn, ?_, ht, by omega⟩
                    simpa using hnx
        · rename_i hp
          have hlt192 : b.toNat < 192 := by
            have : ¬ 192 ≤ b.toNat := fun h' => by
              have := (isPtr_iff b).mpr h'
              exact hp this
            omega
          split at h
          · rename_i h0
            cases h
            have hb0 : b = 0 := by
              apply UInt8.toNat_inj.mp; simpa using h0
            rw [hb0] at hb'
            exact ⟨[], s.off + 1, 0, .root hb', rfl, rfl, by simp only [wire]; omega, by omega⟩
          · split at h
            · cases h
            · split at h
              · cases h
              · split at h
                · cases h
                · rename_i lbl hl
                  obtain ⟨hlbl, _⟩ := copy_ok_inv hl
                  subst hlbl
                  split at h
                  · cases h
                  · rename_i h0 h63 hbd _ _ htot
                    simp only [Gen.Dns.maxLabel] at h63
                    have hroot : rootOctet = 1 := rfl
                    simp only [Gen.Dns.maxName, hroot] at htot
                    obtain ⟨ls, nx', hops, hd, hn, hnx, ht, hj⟩ := ih _ _ _ (by dsimp only; omega) (by exact hjs) h
                    dsimp only at hd hn hnx ht hj
                    have hsl : (slice m (s.off + 1) b.toNat).length = b.toNat := by
                      simp [slice, List.length_take, List.length_drop]; omega
                    refine ⟨slice m (s.off + 1) b.toNat :: ls, nx', hops, .label hb' (by omega) (by omega) (by omega) hd, ?_, hnx, ?_, hj⟩
                    · rw [joinFrom_cons]; exact hn
                    · simp only [wire, hsl]; omega
    · cases h

/-- **N1 (completeness).** `decodeName` accepts only well-formed names: an `ok` answer is a name for which the RFC 1035 relation
holds within the limits, with exactly the returned presentation form and continuation offset (so: no accepted loop, no
accepted out-of-range pointer, no accepted truncated name). -/
theorem decodeName_complete (m : Bytes) (off : Nat) (n : Bytes) (nx : Nat)
    (h : decodeName m off = .ok (n, nx)) :
    ∃ ls, WellFormedName m off ls nx ∧ n = dottedName ls := by
  unfold decodeName at h
  obtain ⟨ls, nx', hops, hd, hn, hnx, ht, hj⟩ := decodeGo_complete m _ _ _ _ (by simp) (by simp) h
  simp at hnx
  subst hnx
  exact ⟨ls, ⟨hops, hd, by simpa using hj, by simpa using ht⟩, hn⟩

/-- **N1 (exactly).** `decodeName` answers `ok (n, next)` if and only if the bytes at `off` are a well-formed name whose
presentation form is `n` and behind which the enclosing structure continues at `next`. -/
theorem decodeName_exact (m : Bytes) (off : Nat) (n : Bytes) (nx : Nat) :
    decodeName m off = .ok (n, nx) ↔ ∃ ls, WellFormedName m off ls nx ∧ n = dottedName ls := by
  constructor
  · exact decodeName_complete m off n nx
  · rintro ⟨ls, hw, rfl⟩
    exact decodeName_sound m off ls nx hw

end Iora.Dns
