import IoraModel.Lemmas.AssetsPhases
/-!
C20: histories.  Lookups, reloads and arbitrary changes of the file system by the environment, in any order; every lookup sees
one snapshot per system call (`Snaps`), constrained only by `LeafOnly` (see `Lemmas/AssetsPhases.lean`).
-/
namespace Iora.Assets
open Iora

/-- one step of a history -/
inductive Op where
  /-- `getStatic(name)`; `sn` are the snapshots its system calls see; afterwards the file system is `sn.z` -/
  | static (name : Bytes) (sn : Snaps)
  /-- `getTemplate(name)` -/
  | template (name : Bytes) (sn : Snaps)
  | reload
  /-- the environment replaces the file system by an arbitrary other one (between lookups) -/
  | env (fs' : Fs)

inductive Out where
  | static (r : Res)
  | template (r : Option Bytes)
  | none

/-- current file system, the `Assets` value, and every file system that was current at an open of some lookup so far -/
structure HState where
  fs : Fs
  a : Assets
  seen : List Fs

def hstep (s : HState) : Op → HState × Out
  | .static n sn => let (r, a') := getStaticAt sn s.a n; ({ fs := sn.z, a := a', seen := sn.o :: sn.z :: s.seen }, .static r)
  | .template n sn => let (r, a') := getTemplateAt sn s.a n; ({ fs := sn.z, a := a', seen := sn.o :: sn.z :: s.seen }, .template r)
  | .reload => ({ s with a := reload s.a }, .none)
  | .env fs' => ({ s with fs := fs' }, .none)

/-- outputs of a history, each with the file systems seen up to and including that step -/
def hrun : HState → List Op → List (Out × List Fs)
  | _, [] => []
  | s, op :: ops => ((hstep s op).2, (hstep s op).1.seen) :: hrun (hstep s op).1 ops

/-- the only constraint on the environment: what it does WHILE a lookup runs is `LeafOnly` (for the roots `bnS`, `bnT`) -/
def OpOK (bnS bnT : List Name) : Op → Prop
  | .static n sn => LeafOnly sn (pathAppend (renderAbs bnS) n) bnS
  | .template n sn => LeafOnly sn (pathAppend (renderAbs bnT) n) bnT
  | _ => True

def Valid (bnS bnT : List Name) (ops : List Op) : Prop := ∀ op ∈ ops, OpOK bnS bnT op

/-- `d` was, at the open of some lookup of this history, the content of a regular file strictly inside the root -/
def EverInside (seen : List Fs) (bn : List Name) (d : Bytes) : Prop := ∃ fs ∈ seen, Inside fs bn d

theorem EverInside.mono {seen : List Fs} {bn d} (fs : Fs) (h : EverInside seen bn d) : EverInside (fs :: seen) bn d := by
  obtain ⟨f, hf, hi⟩ := h
  exact ⟨f, List.mem_cons_of_mem _ hf, hi⟩

/-- the invariant of filesystem mode: canonical roots, and only once-inside bytes in the two caches -/
def FsInv (bnS bnT : List Name) (s : HState) : Prop :=
  ∃ st, s.a = .filesystem st ∧ RootOK st.staticsRoot bnS ∧ RootOK st.templatesRoot bnT ∧
    (∀ k e, (k, e) ∈ st.staticCache → EntryGood (EverInside s.seen bnS) e) ∧
    (∀ k d, (k, d) ∈ st.templateCache → EverInside s.seen bnT d)

def OutGood (bnS bnT : List Name) : Out × List Fs → Prop
  | (.static (.found b), seen) => BlobGood (EverInside seen bnS) b
  | (.template (some d), seen) => EverInside seen bnT d
  | _ => True

theorem hstep_inv (bnS bnT : List Name) (s : HState) (op : Op) (hinv : FsInv bnS bnT s) (hv : OpOK bnS bnT op) :
    FsInv bnS bnT (hstep s op).1 ∧ OutGood bnS bnT ((hstep s op).2, (hstep s op).1.seen) := by
  obtain ⟨st, ha, hrS, hrT, hcS, hcT⟩ := hinv
  cases op with
  | reload =>
    refine ⟨⟨{ st with staticCache := [], templateCache := [] }, ?_, hrS, hrT, ?_, ?_⟩, ?_⟩
    · simp [hstep, ha, reload]
    · intro k e h; simp at h
    · intro k d h; simp at h
    · simp [hstep, OutGood]
  | env fs' =>
    exact ⟨⟨st, by simp [hstep, ha], hrS, hrT, by simpa [hstep] using hcS, by simpa [hstep] using hcT⟩, by simp [hstep, OutGood]⟩
  | static n sn =>
    simp only [OpOK] at hv
    simp only [hstep, getStaticAt, ha]
    have hmono : ∀ {bn d}, EverInside s.seen bn d → EverInside (sn.o :: sn.z :: s.seen) bn d :=
      fun h => (h.mono sn.z).mono sn.o
    by_cases hn : lexicallyRejected n = true
    · simp only [hn, ↓reduceIte]
      refine ⟨⟨st, rfl, hrS, hrT, ?_, ?_⟩, by simp [OutGood]⟩
      · intro k e h; obtain ⟨h1, h2⟩ := hcS k e h
        exact ⟨hmono h1, fun g hg => hmono (h2 g hg)⟩
      · intro k d h; exact hmono (hcT k d h)
    · simp only [hn, Bool.false_eq_true, ↓reduceIte]
      have hn' : lexicallyRejected n = false := by simpa using hn
      rw [← hrS.eq] at hv
      have hgood := getStaticFilesystemAt_good (EverInside (sn.o :: sn.z :: s.seen) bnS) sn st n bnS hrS hv hn'
        (fun d hd => ⟨sn.o, by simp, hd⟩) (fun g hg => ⟨sn.z, by simp, hg⟩)
        (fun k e h => ⟨hmono (hcS k e h).1, fun g hg => hmono ((hcS k e h).2 g hg)⟩)
      obtain ⟨h1, h2, h3, h4, h5⟩ := hgood
      refine ⟨⟨(getStaticFilesystemAt sn st n).2, rfl, by rw [h3]; exact hrS, by rw [h4]; exact hrT, h2, ?_⟩, ?_⟩
      · rw [h5]; intro k d h; exact hmono (hcT k d h)
      · cases hr : (getStaticFilesystemAt sn st n).1 with
        | found b => simp only [OutGood]; exact h1 b hr
        | notFound => simp [OutGood]
        | rejected => simp [OutGood]
  | template n sn =>
    simp only [OpOK] at hv
    simp only [hstep, getTemplateAt, ha]
    have hmono : ∀ {bn d}, EverInside s.seen bn d → EverInside (sn.o :: sn.z :: s.seen) bn d :=
      fun h => (h.mono sn.z).mono sn.o
    by_cases hn : lexicallyRejected n = true
    · simp only [hn, ↓reduceIte]
      refine ⟨⟨st, rfl, hrS, hrT, ?_, ?_⟩, by simp [OutGood]⟩
      · intro k e h; obtain ⟨h1, h2⟩ := hcS k e h
        exact ⟨hmono h1, fun g hg => hmono (h2 g hg)⟩
      · intro k d h; exact hmono (hcT k d h)
    · simp only [hn, Bool.false_eq_true, ↓reduceIte]
      have hn' : lexicallyRejected n = false := by simpa using hn
      rw [← hrT.eq] at hv
      have hgood := getTemplateFilesystemAt_good (EverInside (sn.o :: sn.z :: s.seen) bnT) sn st n bnT hrT hv hn'
        (fun d hd => ⟨sn.o, by simp, hd⟩) (fun k d h => hmono (hcT k d h))
      obtain ⟨h1, h2, h3, h4, h5⟩ := hgood
      refine ⟨⟨(getTemplateFilesystemAt sn st n).2, rfl, by rw [h3]; exact hrS, by rw [h4]; exact hrT, ?_, h2⟩, ?_⟩
      · rw [h5]; intro k e h
        exact ⟨hmono (hcS k e h).1, fun g hg => hmono ((hcS k e h).2 g hg)⟩
      · cases hr : (getTemplateFilesystemAt sn st n).1 with
        | some d => simp only [OutGood]; exact h1 d hr
        | none => simp [OutGood]

/-- **Every history.** From a filesystem-mode instance with canonical roots and clean caches, for EVERY sequence of lookups,
reloads and environment changes (arbitrary between lookups; `LeafOnly` while a lookup runs, one snapshot per system call), every
static blob and every template ever returned consists of bytes that were, at an open of some lookup of the history, the content
of a regular file strictly inside the static (resp. template) root. -/
theorem history_good (bnS bnT : List Name) : ∀ (ops : List Op) (s : HState), FsInv bnS bnT s → Valid bnS bnT ops →
    ∀ o ∈ hrun s ops, OutGood bnS bnT o := by
  intro ops
  induction ops with
  | nil => intro s _ _ o ho; simp [hrun] at ho
  | cons op ops ih =>
    intro s hinv hv o ho
    obtain ⟨hinv', hout⟩ := hstep_inv bnS bnT s op hinv (hv op (by simp))
    simp only [hrun, List.mem_cons] at ho
    rcases ho with ho | ho
    · subst ho; exact hout
    · exact ih _ hinv' (fun op' h' => hv op' (by simp [h'])) o ho

end Iora.Assets
