import IoraModel.Lemmas.AssetsWc
/-!
C20: histories.  Lookups, reloads and arbitrary changes of the file system by the environment, in any order; between the
resolution and the open of ONE lookup the environment may additionally change anything except turn a directory into
something else (`DirsPreserved`: this is the leaf swap — files become links, links are re-targeted, files appear/vanish).
-/
namespace Iora.Assets
open Iora

/-- one step of a history -/
inductive Op where
  /-- `getStatic(name)`; `fsO` is the file system at the time of the `open` calls (and from then on) -/
  | static (name : Bytes) (fsO : Fs)
  /-- `getTemplate(name)` -/
  | template (name : Bytes) (fsO : Fs)
  | reload
  /-- the environment replaces the file system by an arbitrary other one (between lookups) -/
  | env (fs' : Fs)

inductive Out where
  | static (r : Res)
  | template (r : Option Bytes)
  | none

/-- current file system, the `Assets` value, and every file system that was current at the open of some lookup so far -/
structure HState where
  fs : Fs
  a : Assets
  seen : List Fs

def hstep (s : HState) : Op → HState × Out
  | .static n fsO => let (r, a') := getStaticAt s.fs fsO s.a n; ({ fs := fsO, a := a', seen := fsO :: s.seen }, .static r)
  | .template n fsO => let (r, a') := getTemplateAt s.fs fsO s.a n; ({ fs := fsO, a := a', seen := fsO :: s.seen }, .template r)
  | .reload => ({ s with a := reload s.a }, .none)
  | .env fs' => ({ s with fs := fs' }, .none)

/-- outputs of a history, each with the file systems seen up to and including that step -/
def hrun : HState → List Op → List (Out × List Fs)
  | _, [] => []
  | s, op :: ops => ((hstep s op).2, (hstep s op).1.seen) :: hrun (hstep s op).1 ops

/-- the only constraint on the environment: during one lookup directories stay directories -/
def Valid : HState → List Op → Prop
  | _, [] => True
  | s, op :: ops =>
    (match op with
      | .static _ fsO => DirsPreserved s.fs fsO
      | .template _ fsO => DirsPreserved s.fs fsO
      | _ => True) ∧ Valid (hstep s op).1 ops

/-- `d` was, at the open of some lookup of this history, the content of a regular file strictly inside the root -/
def EverInside (seen : List Fs) (bn : List Name) (d : Bytes) : Prop := ∃ fs ∈ seen, Inside fs bn d

theorem EverInside.mono {seen : List Fs} {bn d} (fs : Fs) (h : EverInside seen bn d) : EverInside (fs :: seen) bn d := by
  obtain ⟨f, hf, hi⟩ := h
  exact ⟨f, List.mem_cons_of_mem _ hf, hi⟩

/-- the invariant of filesystem mode: canonical roots, and only once-inside bytes in the two caches -/
def FsInv (bnS bnT : List Name) (s : HState) : Prop :=
  ∃ st, s.a = .filesystem st ∧ RootOK st.staticsRoot bnS ∧ RootOK st.templatesRoot bnT ∧
    (∀ k e, (k, e) ∈ st.staticCache → EntryGood (EverInside s.seen bnS) e) ∧
    (∀ k d, (k, d) ∈ st.templateCache → EverInside s.seen bnT d)

def OutGood (bnS bnT : List Name) : Out × List Fs → Prop
  | (.static (.found b), seen) => BlobGood (EverInside seen bnS) b
  | (.template (some d), seen) => EverInside seen bnT d
  | _ => True

theorem hstep_inv (bnS bnT : List Name) (s : HState) (op : Op) (hinv : FsInv bnS bnT s)
    (hv : match op with
      | .static _ fsO => DirsPreserved s.fs fsO
      | .template _ fsO => DirsPreserved s.fs fsO
      | _ => True) :
    FsInv bnS bnT (hstep s op).1 ∧ OutGood bnS bnT ((hstep s op).2, (hstep s op).1.seen) := by
  obtain ⟨st, ha, hrS, hrT, hcS, hcT⟩ := hinv
  cases op with
  | reload =>
    refine ⟨⟨{ st with staticCache := [], templateCache := [] }, ?_, hrS, hrT, ?_, ?_⟩, ?_⟩
    · simp [hstep, ha, reload]
    · intro k e h; simp at h
    · intro k d h; simp at h
    · simp [hstep, OutGood]
  | env fs' =>
    exact ⟨⟨st, by simp [hstep, ha], hrS, hrT, by simpa [hstep] using hcS, by simpa [hstep] using hcT⟩, by simp [hstep, OutGood]⟩
  | static n fsO =>
    simp only at hv
    simp only [hstep, getStaticAt, ha]
    by_cases hn : lexicallyRejected n = true
    · simp only [hn, ↓reduceIte]
      refine ⟨⟨st, rfl, hrS, hrT, ?_, ?_⟩, by simp [OutGood]⟩
      · intro k e h; obtain ⟨h1, h2⟩ := hcS k e h
        exact ⟨h1.mono fsO, fun g hg => (h2 g hg).mono fsO⟩
      · intro k d h; exact (hcT k d h).mono fsO
    · simp only [hn, Bool.false_eq_true, ↓reduceIte]
      have hn' : lexicallyRejected n = false := by simpa using hn
      have hgood := getStaticFilesystemAt_good wcMissingNoFile (EverInside (fsO :: s.seen) bnS) s.fs fsO st n bnS hrS hv hn'
        (fun d hd => ⟨fsO, by simp, hd⟩)
        (fun k e h => ⟨(hcS k e h).1.mono fsO, fun g hg => ((hcS k e h).2 g hg).mono fsO⟩)
      obtain ⟨h1, h2, h3, h4, h5⟩ := hgood
      refine ⟨⟨(getStaticFilesystemAt s.fs fsO st n).2, rfl, by rw [h3]; exact hrS, by rw [h4]; exact hrT, h2, ?_⟩, ?_⟩
      · rw [h5]; intro k d h; exact (hcT k d h).mono fsO
      · cases hr : (getStaticFilesystemAt s.fs fsO st n).1 with
        | found b => simp only [OutGood]; exact (h1 b hr).1
        | notFound => simp [OutGood]
        | rejected => simp [OutGood]
  | template n fsO =>
    simp only at hv
    simp only [hstep, getTemplateAt, ha]
    by_cases hn : lexicallyRejected n = true
    · simp only [hn, ↓reduceIte]
      refine ⟨⟨st, rfl, hrS, hrT, ?_, ?_⟩, by simp [OutGood]⟩
      · intro k e h; obtain ⟨h1, h2⟩ := hcS k e h
        exact ⟨h1.mono fsO, fun g hg => (h2 g hg).mono fsO⟩
      · intro k d h; exact (hcT k d h).mono fsO
    · simp only [hn, Bool.false_eq_true, ↓reduceIte]
      have hn' : lexicallyRejected n = false := by simpa using hn
      have hgood := getTemplateFilesystemAt_good wcMissingNoFile (EverInside (fsO :: s.seen) bnT) s.fs fsO st n bnT hrT hv hn'
        (fun d hd => ⟨fsO, by simp, hd⟩) (fun k d h => (hcT k d h).mono fsO)
      obtain ⟨h1, h2, h3, h4, h5⟩ := hgood
      refine ⟨⟨(getTemplateFilesystemAt s.fs fsO st n).2, rfl, by rw [h3]; exact hrS, by rw [h4]; exact hrT, ?_, h2⟩, ?_⟩
      · rw [h5]; intro k e h
        exact ⟨(hcS k e h).1.mono fsO, fun g hg => ((hcS k e h).2 g hg).mono fsO⟩
      · cases hr : (getTemplateFilesystemAt s.fs fsO st n).1 with
        | some d => simp only [OutGood]; exact (h1 d hr).1
        | none => simp [OutGood]

/-- **Every history.** From a filesystem-mode instance with canonical roots and clean caches, for EVERY sequence of lookups,
reloads and environment changes (arbitrary between lookups; directory-preserving between the resolution and the open of a
lookup), every static blob and every template ever returned consists of bytes that were, at the open of some lookup of the
history, the content of a regular file strictly inside the static (resp. template) root. -/
theorem history_good (bnS bnT : List Name) : ∀ (ops : List Op) (s : HState), FsInv bnS bnT s → Valid s ops →
    ∀ o ∈ hrun s ops, OutGood bnS bnT o := by
  intro ops
  induction ops with
  | nil => intro s _ _ o ho; simp [hrun] at ho
  | cons op ops ih =>
    intro s hinv hv o ho
    obtain ⟨hv1, hv2⟩ := hv
    obtain ⟨hinv', hout⟩ := hstep_inv bnS bnT s op hinv hv1
    simp only [hrun, List.mem_cons] at ho
    rcases ho with ho | ho
    · subst ho; exact hout
    · exact ih _ hinv' hv2 o ho

end Iora.Assets
