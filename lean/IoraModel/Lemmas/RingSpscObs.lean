import IoraModel.Lemmas.RingSpsc
/-!
# Observers of the SPSC ring under concurrency: `size()/empty()/full()` (two relaxed loads) and the value `peek` returns

`size()` loads `_head`, then `_tail` (both relaxed: any value between the newest one the caller has already seen and the
latest one — the same stale-read rule as `pLoad`/`qLoad` in `Model/RingSpsc.lean`), and returns `head - tail` in
`std::size_t`.  A call by the PRODUCER reads its own `_head` exactly (nobody else writes it; the producer itself is inside
`size()`, so `_head` does not move until the call returns) and a possibly stale `_tail`; a call by the CONSUMER reads a
possibly stale `_head` and its own `_tail` exactly.  A THIRD thread reads both counters stale, at two different moments.
-/
namespace Iora.Spsc

/-- value `size()` returns from the two loaded counter values (`std::size_t` subtraction: wraps when `tail > head`) -/
def sizeRet (h t : Nat) : Nat := (h + 2 ^ 64 - t) % 2 ^ 64

/-- what a `size()` call by the producer can return in state `s` (the state at its `_tail` load; `_head` is its own) -/
def ProducerSizeRet (s : S) (ret : Nat) : Prop := ∃ t, s.pSeen ≤ t ∧ t ≤ s.tail ∧ ret = sizeRet s.head t

/-- what a `size()` call by the consumer can return in state `s` (the state at its `_head` load; `_tail` is its own) -/
def ConsumerSizeRet (s : S) (ret : Nat) : Prop := ∃ h, s.qSeen ≤ h ∧ h ≤ s.head ∧ ret = sizeRet h s.tail

theorem sizeRet_of_le {h t : Nat} (hle : t ≤ h) (hb : h < 2 ^ 64) : sizeRet h t = h - t := by
  unfold sizeRet
  have : h + 2 ^ 64 - t = (h - t) + 2 ^ 64 := by omega
  rw [this, Nat.add_mod_right]
  exact Nat.mod_eq_of_lt (by omega)

/-- same-side callers never see more than `C` items, never less than what is really there from their side's point of
view: the producer's answer is between the true count and `C` (it may over-estimate: a stale `_tail`), the consumer's
between 0 and the true count (it may under-estimate: a stale `_head`) -/
theorem size_same_side (c : Cfg) (s : S) (h : Inv c s) (hb : s.head < 2 ^ 64) :
    (∀ ret, ProducerSizeRet s ret → s.head - s.tail ≤ ret ∧ ret ≤ c.C) ∧
    (∀ ret, ConsumerSizeRet s ret → ret ≤ s.head - s.tail ∧ ret ≤ c.C) := by
  have h1 := h.ht; have h2 := h.ps; have h3 := h.qs; have h4 := h.tq; have h5 := h.cap2
  constructor
  · rintro ret ⟨t, ht1, ht2, rfl⟩
    rw [sizeRet_of_le (by omega) hb]
    omega
  · rintro ret ⟨hh, hh1, hh2, rfl⟩
    rw [sizeRet_of_le (by omega) (by omega)]
    omega

/-- hence `full()` answered `true` to the consumer is genuine, `empty()` answered `true` to the producer is genuine -/
theorem full_empty_same_side (c : Cfg) (s : S) (h : Inv c s) (hb : s.head < 2 ^ 64) :
    (∀ ret, ConsumerSizeRet s ret → ret ≥ c.C → s.head - s.tail = c.C) ∧
    (∀ ret, ProducerSizeRet s ret → ret = 0 → s.head = s.tail) := by
  obtain ⟨hp, hq⟩ := size_same_side c s h hb
  have h1 := h.ht
  constructor
  · intro ret hr hge
    have := hq ret hr
    have := (fifo_of_inv c s h).2.2
    omega
  · intro ret hr h0
    have := hp ret hr
    omega

/-- the value a completing `peek` returns is the oldest item in flight (or nothing), and `peek` consumes nothing -/
theorem peek_returns_oldest (c : Cfg) (s : S) (h : Inv c s) (hs n : Nat) (got : List Val) (rest : List QOp)
    (hpc : s.qPc = .reading hs n got) (htodo : s.qTodo = .peek :: rest) (hlen : got.length = n) :
    (step c s .qStore).qRets = s.qRets ++ [(inflight s).take n] ∧ (step c s .qStore).recv = s.recv ∧
    (step c s .qStore).tail = s.tail ∧ n ≤ (inflight s).length := by
  obtain ⟨_, _, hle, hgot⟩ := h.qr hs n got hpc
  have hqs := h.qs
  have hhl := h.hl
  have hinf : (inflight s).take n = got := by
    rw [hgot, hlen, inflight, List.drop_take, List.take_take]
    congr 1
    omega
  have hn : n ≤ (inflight s).length := by
    rw [(fifo_of_inv c s h).2.1]; omega
  simp only [step, hpc, htodo, hlen, if_true, hinf]
  simp [hn]

/-- a third thread that loads `_head` in one state and `_tail` in a later one can see `tail > head`: its `size()` wraps -/
theorem third_thread_size_wraps :
    let c : Cfg := { C := 1, pAcq := true, qAcq := true, pRel := true, qRel := true }
    let s1 := init [.push 1] [.pop]
    let s2 := run c s1 [.pLoad 0, .pWrite, .pStore, .qLoad 1, .qRead, .qStore]
    s1.head < s2.tail ∧ sizeRet s1.head s2.tail = 2 ^ 64 - 1 := by
  decide

end Iora.Spsc
