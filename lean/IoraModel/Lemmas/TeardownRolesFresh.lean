import IoraModel.Lemmas.TeardownRoles
namespace Iora.TeardownRoles

/-! ### session ids are never reused (a stale timer of a previous epoch cannot name a session of a later one) -/

def connectSids : List Cmd → List Nat
  | [] => []
  | .connect sid _ :: r => sid :: connectSids r
  | _ :: r => connectSids r

/-- ids handed out and still alive: open sessions and queued Connect commands -/
def ids (s : State) : List Nat := s.sessions.map (·.sid) ++ connectSids s.q

def Fresh (s : State) : Prop := (ids s).Nodup ∧ ∀ i ∈ ids s, i < s.nextSid

theorem connectSids_append (a b : List Cmd) : connectSids (a ++ b) = connectSids a ++ connectSids b := by
  induction a with
  | nil => rfl
  | cons c r ih => cases c <;> simp [connectSids, ih]

theorem fresh_sub (s s' : State) (h : Fresh s) (hsub : (ids s').Sublist (ids s)) (hn : s.nextSid ≤ s'.nextSid) : Fresh s' :=
  ⟨h.1.sublist hsub, fun i hi => Nat.lt_of_lt_of_le (h.2 i (hsub.subset hi)) hn⟩

theorem setSess_sids (s : State) (x' : Sess) : (setSess s x').map (·.sid) = s.sessions.map (·.sid) := by
  unfold setSess
  induction s.sessions with
  | nil => rfl
  | cons y r ih =>
    simp only [List.map_cons, ih]
    by_cases h : y.sid == x'.sid
    · simp [h]; exact (beq_iff_eq.mp h).symm
    · simp [h]

theorem dropSess_sub (s : State) (sid : Nat) : ((dropSess s sid).map (·.sid)).Sublist (s.sessions.map (·.sid)) :=
  (List.filter_sublist).map _

theorem enqueue_parts (cfg : Cfg) (s : State) (r : Role) (c : Cmd) (oom : Bool) :
    (enqueue cfg s r c oom).1.sessions = s.sessions ∧ (enqueue cfg s r c oom).1.nextSid = s.nextSid ∧
    ((enqueue cfg s r c oom).1.q = s.q ∨ (enqueue cfg s r c oom).1.q = s.q ++ [c]) := by
  unfold enqueue
  split
  · simp
  · split
    · split <;> simp [cb]
    · simp

theorem enqueue_ids_other (cfg : Cfg) (s : State) (r : Role) (c : Cmd) (oom : Bool) (hc : connectSids [c] = []) :
    ids (enqueue cfg s r c oom).1 = ids s ∧ (enqueue cfg s r c oom).1.nextSid = s.nextSid := by
  obtain ⟨h1, h2, h3⟩ := enqueue_parts cfg s r c oom
  refine ⟨?_, h2⟩
  unfold ids
  rw [h1]
  rcases h3 with h | h
  · rw [h]
  · rw [h, connectSids_append, hc, List.append_nil]

theorem fresh_eq (s s' : State) (h : Fresh s) (hi : ids s' = ids s) (hn : s'.nextSid = s.nextSid) : Fresh s' :=
  fresh_sub s s' h (by rw [hi]; exact List.Sublist.refl _) (by rw [hn]; exact Nat.le_refl _)

theorem closeNow_sub (s : State) (sid : Nat) : (ids (closeNow s sid)).Sublist (ids s) := by
  unfold ids closeNow cb
  exact (dropSess_sub s sid).append (List.Sublist.refl _)

theorem dispatch_fresh (s : State) (c : Cmd) (rest : List Cmd) (arm : Bool) (hq : s.q = c :: rest) (h : Fresh s) :
    Fresh (dispatch { s with q := rest } c arm) := by
  cases c with
  | connect sid tls =>
    refine fresh_eq s _ h ?_ rfl
    simp [dispatch, ids, hq, connectSids]
  | send sid =>
    have hsub : (ids { s with q := rest }).Sublist (ids s) := by simp [ids, hq, connectSids]
    simp only [dispatch]
    split
    · split
      · refine fresh_sub s _ h ?_ (Nat.le_refl _)
        simp only [ids, setSess_sids]; exact hsub
      · exact fresh_sub s _ h hsub (Nat.le_refl _)
    · exact fresh_sub s _ h hsub (Nat.le_refl _)
  | close sid origin =>
    have hsub : (ids { s with q := rest }).Sublist (ids s) := by simp [ids, hq, connectSids]
    simp only [dispatch]
    split
    · split
      · exact fresh_sub s _ h hsub (Nat.le_refl _)
      · exact fresh_sub s _ h ((closeNow_sub _ sid).trans hsub) (Nat.le_refl _)
    · exact fresh_sub s _ h hsub (Nat.le_refl _)
  | shutdown =>
    refine fresh_sub s _ h ?_ (Nat.le_refl _)
    simp [dispatch, ids, hq, connectSids]

theorem doIoEvent_fresh (s : State) (sid : Nat) (ev : IoEv) (arm : Bool) (h : Fresh s) : Fresh (doIoEvent s sid ev arm) := by
  unfold doIoEvent
  split
  · exact h
  · cases ev <;> simp only <;> (repeat' split) <;>
      first
      | exact h
      | exact fresh_sub s _ h (closeNow_sub s sid) (Nat.le_refl _)
      | (refine fresh_eq s _ h ?_ rfl; simp [ids, cb, setSess_sids])

theorem fresh_step (cfg : Cfg) (s : State) (st : Step) (h : Fresh s) : Fresh (step cfg s st) := by
  cases st with
  | apiStart fail =>
    simp only [step]
    split
    · exact h
    · split <;> exact fresh_eq s _ h rfl rfl
  | apiConnect tls oom =>
    simp only [step]
    obtain ⟨h1, h2, h3⟩ := enqueue_parts cfg { s with nextSid := s.nextSid + 1 } .api (.connect s.nextSid tls) oom
    rcases h3 with hq | hq
    · refine fresh_sub s _ h ?_ (by rw [h2]; exact Nat.le_succ _)
      unfold ids; rw [h1, hq]; exact List.Sublist.refl _
    · constructor
      · unfold ids; rw [h1, hq, connectSids_append]
        simp only [connectSids, ← List.append_assoc]
        rw [List.nodup_append]
        refine ⟨h.1, by simp, ?_⟩
        intro a ha b hb
        simp only [List.mem_singleton] at hb
        subst hb
        exact Nat.ne_of_lt (h.2 a ha)
      · intro i hi
        rw [h2]
        unfold ids at hi; rw [h1, hq, connectSids_append] at hi
        simp only [connectSids, ← List.append_assoc, List.mem_append, List.mem_singleton] at hi
        rcases hi with hi | rfl
        · exact Nat.lt_succ_of_lt (h.2 i (by simpa [ids] using hi))
        · exact Nat.lt_succ_self _
  | apiSend sid oom =>
    obtain ⟨a, b⟩ := enqueue_ids_other cfg s .api (.send sid) oom rfl
    exact fresh_eq s _ h a b
  | apiClose sid oom =>
    obtain ⟨a, b⟩ := enqueue_ids_other cfg s .api (.close sid none) oom rfl
    exact fresh_eq s _ h a b
  | apiStop oom =>
    simp only [step]
    split
    · exact h
    · split
      · obtain ⟨a, b⟩ := enqueue_ids_other cfg { s with running := false } .api .shutdown oom rfl
        exact fresh_eq s _ h a b
      · split
        · exact h
        · exact fresh_eq s _ h rfl rfl
  | apiStopJoin =>
    simp only [step]
    split
    · exact fresh_eq s _ h rfl rfl
    · exact h
  | ioProcess arm =>
    simp only [step]
    split
    · split
      · exact h
      · rename_i c rest hq
        exact dispatch_fresh s c rest arm hq h
    · exact h
  | ioEvent sid ev arm =>
    simp only [step]
    split
    · exact doIoEvent_fresh s sid ev arm h
    · exact h
  | ioDrainClose sid =>
    simp only [step]
    split
    · split
      · refine fresh_sub s _ h ?_ (Nat.le_refl _)
        unfold ids cb
        exact (dropSess_sub s sid).append (List.Sublist.refl _)
      · exact h
    · exact h
  | ioDrainFinish =>
    simp only [step]
    split
    · refine fresh_sub s _ h ?_ (Nat.le_refl _)
      simp [ids, connectSids]
    · exact h
  | timerFire k oom =>
    simp only [step]
    split
    · exact h
    · rename_i sid kind hk
      obtain ⟨a, b⟩ := enqueue_ids_other cfg { s with timers := s.timers.eraseIdx k } .timer (.close sid (some kind)) oom rfl
      split
      · exact fresh_eq s _ h a b
      · exact fresh_eq s _ h a b

theorem fresh_reach (cfg : Cfg) (s : State) (h : Reach cfg s) : Fresh s := by
  obtain ⟨steps, rfl⟩ := h
  have : ∀ (l : List Step) (s0 : State), Fresh s0 → Fresh (run cfg s0 l) := by
    intro l
    induction l with
    | nil => intro s0 h0; exact h0
    | cons st rest ih => intro s0 h0; exact ih _ (fresh_step cfg s0 st h0)
  exact this steps {} ⟨by simp [ids, connectSids], by simp [ids, connectSids]⟩

end Iora.TeardownRoles
