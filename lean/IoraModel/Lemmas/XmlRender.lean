import IoraModel.Lemmas.Xml
import IoraModel.Lemmas.XmlEntities
set_option linter.unusedSimpArgs false
set_option linter.unusedVariables false
/-! Faithfulness on rendered documents (X7, element/attribute skeleton): exact evaluation of the readers on rendered pieces. -/
namespace Iora.Xml
open Iora

/-! ### vocabulary of rendered documents -/

/-- only white space -/
def AllSpace (w : Bytes) : Prop := ∀ x ∈ w, isSpace x = true

/-- a name the tokenizer can read: a name-start byte followed by name bytes -/
def ValidName (n : Bytes) : Prop := ∃ h t, n = h :: t ∧ isNameStart h = true ∧ ∀ x ∈ t, isNameChar x = true

/-- `r` is empty or starts with a byte that fails `p` -/
def StartsNon (p : UInt8 → Bool) (r : Bytes) : Prop := ∀ x r', r = x :: r' → p x = false

theorem advR_ok {k : Nat} {c : Cur} (hk : k ≤ c.rest.length) :
    ∃ c', advR k c = .ok () c' ∧ c'.pos = c.pos + k ∧ c'.rest = c.rest.drop k ∧ c.Reach c' := by
  have := advR_sat hk
  cases h : advR k c with
  | ok a c' => rw [h] at this; exact ⟨c', rfl, this.2.1, this.2.2, this.1⟩
  | fail e c' => unfold advR at h; split at h <;> cases h
  | bad b => rw [h] at this; exact this.elim

theorem spanLen_append (p : UInt8 → Bool) : ∀ (w r : Bytes), (∀ x ∈ w, p x = true) → StartsNon p r →
    spanLen p (w ++ r) = w.length := by
  intro w
  induction w with
  | nil =>
    intro r _ hr
    cases r with
    | nil => simp [spanLen]
    | cons x r' => simp [spanLen, hr x r' rfl]
  | cons x w ih =>
    intro r hw hr
    simp only [List.cons_append, spanLen]
    rw [if_pos (hw x (by simp)), ih r (fun y hy => hw y (by simp [hy])) hr]
    simp

/-- `skipSpaces` over exactly the white space `w` -/
theorem skipSpaces_eval {c : Cur} {w r : Bytes} (hrest : c.rest = w ++ r) (hw : AllSpace w) (hr : StartsNon isSpace r) :
    ∃ c', skipSpacesC c = .ok () c' ∧ c'.pos = c.pos + w.length ∧ c'.rest = r ∧ c.Reach c' := by
  unfold skipSpacesC
  rw [hrest, spanLen_append isSpace w r hw hr]
  obtain ⟨c', h1, h2, h3, h4⟩ := advR_ok (k := w.length) (c := c) (by rw [hrest]; simp)
  refine ⟨c', h1, h2, ?_, h4⟩
  rw [h3, hrest]; simp

/-- `skipWhitespaceOutsideText` consumes white space that is followed by `<` -/
theorem skipWs_eval_lt {c : Cur} {w r : Bytes} (hrest : c.rest = w ++ 0x3C :: r) (hw : AllSpace w) :
    ∃ c', skipWhitespaceOutsideTextC c = .ok () c' ∧ c'.pos = c.pos + w.length ∧ c'.rest = 0x3C :: r ∧ c.Reach c' := by
  unfold skipWhitespaceOutsideTextC
  have hsp : spanLen isSpace (w ++ 0x3C :: r) = w.length :=
    spanLen_append isSpace w _ hw (by intro x r' h; cases h; decide)
  simp only [hrest, hsp]
  have hget : (w ++ 0x3C :: r)[w.length]? = some 0x3C := by simp
  rw [hget]
  simp only [ne_eq, not_true_eq_false, ↓reduceIte]
  obtain ⟨c', h1, h2, h3, h4⟩ := advR_ok (k := w.length) (c := c) (by rw [hrest]; simp)
  refine ⟨c', h1, h2, ?_, h4⟩
  rw [h3, hrest]; simp

/-- `skipWhitespaceOutsideText` consumes white space that ends the input -/
theorem skipWs_eval_eof {c : Cur} {w : Bytes} (hrest : c.rest = w) (hw : AllSpace w) :
    ∃ c', skipWhitespaceOutsideTextC c = .ok () c' ∧ c'.rest = [] ∧ c.Reach c' := by
  unfold skipWhitespaceOutsideTextC
  have hsp : spanLen isSpace w = w.length := by
    have := spanLen_append isSpace w [] hw (by intro x r' h; cases h)
    simpa using this
  simp only [hrest, hsp]
  have hget : w[w.length]? = none := by simp
  rw [hget]
  obtain ⟨c', h1, h2, h3, h4⟩ := advR_ok (k := w.length) (c := c) (by rw [hrest]; simp)
  refine ⟨c', h1, ?_, h4⟩
  rw [h3, hrest]; simp

/-- **F29 as repaired**: white space followed by text is not consumed -/
theorem skipWs_eval_text {c : Cur} {w r : Bytes} {x : UInt8} (hrest : c.rest = w ++ x :: r) (hw : AllSpace w)
    (hx : isSpace x = false) (hlt : x ≠ 0x3C) : skipWhitespaceOutsideTextC c = .ok () c := by
  unfold skipWhitespaceOutsideTextC
  have hsp : spanLen isSpace (w ++ x :: r) = w.length :=
    spanLen_append isSpace w _ hw (by intro y r' h; cases h; exact hx)
  simp only [hrest, hsp]
  have hget : (w ++ x :: r)[w.length]? = some x := by simp
  rw [hget]
  simp [hlt]

/-- `readName` over exactly the name `n` -/
theorem readName_eval {o : Options} {c : Cur} {n r : Bytes} (hrest : c.rest = n ++ r) (hn : ValidName n)
    (hr : StartsNon isNameChar r) (hlen : n.length ≤ o.maxName) :
    ∃ c', readNameC o c = .ok (some ⟨c.pos, n.length⟩) c' ∧ c'.pos = c.pos + n.length ∧ c'.rest = r ∧ c.Reach c' := by
  obtain ⟨h, t, rfl, hh, ht⟩ := hn
  unfold readNameC
  simp only [hrest, List.cons_append]
  simp only [hh, Bool.not_true, Bool.false_eq_true, ↓reduceIte]
  have hsp : spanLen isNameChar (t ++ r) = t.length := spanLen_append isNameChar t r ht hr
  rw [hsp]
  obtain ⟨c', h1, h2, h3, h4⟩ := advR_ok (k := 1 + t.length) (c := c) (by rw [hrest]; simp; omega)
  rw [h1]
  simp only [Res.bind]
  have hl : c'.pos - c.pos = (h :: t).length := by simp; omega
  rw [hl]
  have : ¬ ((h :: t).length > o.maxName) := by omega
  simp only [this, ↓reduceIte]
  refine ⟨c', rfl, by simp; omega, ?_, h4⟩
  rw [h3, hrest]
  simp [Nat.add_comm 1]

/-- `readQuotedValue` over exactly `q value q` -/
theorem readQuotedValue_eval {o : Options} {c : Cur} {q : UInt8} {v r : Bytes} (hrest : c.rest = q :: v ++ q :: r)
    (hq : q = 0x22 ∨ q = 0x27) (hv : q ∉ v) (hlen : v.length ≤ o.maxText) :
    ∃ c', readQuotedValueC o c = .ok ⟨c.pos + 1, v.length⟩ c' ∧ c'.pos = c.pos + v.length + 2 ∧ c'.rest = r ∧
      c.Reach c' := by
  unfold readQuotedValueC
  simp only [hrest, List.cons_append]
  have hq' : ¬ ((q ≠ 0x22 && q ≠ 0x27) = true) := by rcases hq with h | h <;> subst h <;> decide
  simp only [hq', ↓reduceIte]
  obtain ⟨c0, h01, h02, h03, h04⟩ := advR_ok (k := 1) (c := c) (by rw [hrest]; simp)
  rw [h01]
  simp only [Res.bind]
  have hc0 : c0.rest = v ++ q :: r := by rw [h03, hrest]; simp
  have hsp : spanLen (fun x => x ≠ q) c0.rest = v.length := by
    rw [hc0]
    apply spanLen_append
    · intro x hx; simp; intro h; subst h; exact hv hx
    · intro x r' h; cases h; simp
  rw [hsp]
  obtain ⟨c1, h11, h12, h13, h14⟩ := advR_ok (k := v.length) (c := c0) (by rw [hc0]; simp)
  rw [h11]
  simp only
  have hc1 : c1.rest = q :: r := by rw [h13, hc0]; simp
  have : c1.eof = false := by simp [Cur.eof, hc1]
  simp only [this, Bool.false_eq_true, ↓reduceIte]
  obtain ⟨c2, h21, h22, h23, h24⟩ := advR_ok (k := 1) (c := c1) (by rw [hc1]; simp)
  rw [h21]
  simp only
  have hl : c1.pos - c0.pos = v.length := by omega
  rw [hl, h02]
  have : ¬ (v.length > o.maxText) := by omega
  simp only [this, ↓reduceIte]
  refine ⟨c2, rfl, by omega, ?_, h04.trans (h14.trans h24)⟩
  rw [h23, hc1]; simp

/-! ### attributes -/

/-- one attribute as written: white space, name, white space, `=`, white space, a quote, the raw value, the same quote -/
structure FAttr where
  pre : Bytes
  name : Bytes
  ws1 : Bytes
  ws2 : Bytes
  quote : UInt8
  value : Bytes

def FAttr.render (a : FAttr) : Bytes :=
  a.pre ++ (a.name ++ (a.ws1 ++ 0x3D :: (a.ws2 ++ a.quote :: (a.value ++ [a.quote]))))

/-- every formatting choice the supported subset allows -/
structure FAttr.WF (o : Options) (a : FAttr) : Prop where
  pre : AllSpace a.pre
  preNe : a.pre ≠ []
  name : ValidName a.name
  nameLen : a.name.length ≤ o.maxName
  ws1 : AllSpace a.ws1
  ws2 : AllSpace a.ws2
  quote : a.quote = 0x22 ∨ a.quote = 0x27
  value : a.quote ∉ a.value
  valueLen : a.value.length ≤ o.maxText

def renderAttrs : List FAttr → Bytes
  | [] => []
  | a :: r => a.render ++ renderAttrs r

/-- what an attribute slice pair denotes -/
def Attr.view (bs : Bytes) (a : Attr) : Bytes × Bytes := (a.name.bytes bs, a.value.bytes bs)

theorem validName_head_not_space {n : Bytes} (h : ValidName n) (r : Bytes) : StartsNon isSpace (n ++ r) := by
  obtain ⟨x, t, rfl, hx, _⟩ := h
  intro y r' hy
  simp only [List.cons_append, List.cons.injEq] at hy
  obtain ⟨rfl, _⟩ := hy
  revert hx
  simp only [isNameStart, isSpace]
  intro hx
  have : ∀ z : UInt8, (z = 0x3A || z = 0x5F || (0x41 ≤ z && z ≤ 0x5A) || (0x61 ≤ z && z ≤ 0x7A)) = true →
      (z = 0x20 || z = 0x09 || z = 0x0D || z = 0x0A) = false := forall_u8 (by decide +kernel)
  exact this x hx

theorem space_not_nameChar : ∀ z : UInt8, isSpace z = true → isNameChar z = false := forall_u8 (by decide +kernel)
theorem nameStart_not_special : ∀ z : UInt8, isNameStart z = true →
    z ≠ 0x2F ∧ z ≠ 0x3E ∧ z ≠ 0x3F ∧ z ≠ 0x21 ∧ z ≠ 0x3C := forall_u8 (by decide +kernel)

theorem startsNon_space_or {w r : Bytes} {x : UInt8} (hw : AllSpace w) (hx : isNameChar x = false) :
    StartsNon isNameChar (w ++ x :: r) := by
  intro y r' hy
  cases w with
  | nil => simp at hy; rw [← hy.1]; exact hx
  | cons z w' =>
    simp only [List.cons_append, List.cons.injEq] at hy
    rw [← hy.1]
    exact space_not_nameChar z (hw z (by simp))

/-- `readAttributes` over exactly the rendered attributes, then the white space before `/` or `>` -/
theorem readAttributes_eval (o : Options) (bs : Bytes) : ∀ (attrs : List FAttr) (fuel : Nat) (acc : List Attr) (c : Cur)
    (ws r : Bytes) (t : UInt8), c.At bs → (∀ a ∈ attrs, a.WF o) → AllSpace ws → (t = 0x2F ∨ t = 0x3E) →
    c.rest = renderAttrs attrs ++ (ws ++ t :: r) → attrs.length < fuel → acc.length + attrs.length ≤ o.maxAttrs →
    ∃ as c', readAttributesC o fuel acc c = .ok as c' ∧ c'.rest = t :: r ∧ c.Reach c' ∧
      as.map (Attr.view bs) = acc.map (Attr.view bs) ++ attrs.map (fun a => (a.name, a.value)) := by
  intro attrs
  induction attrs with
  | nil =>
    intro fuel acc c ws r t hat _ hws ht hrest hfuel _
    cases fuel with
    | zero => omega
    | succ fuel =>
      simp only [renderAttrs, List.nil_append] at hrest
      have hns : StartsNon isSpace (t :: r) := by
        intro x r' h; cases h; rcases ht with h | h <;> subst h <;> decide
      obtain ⟨c1, h11, h12, h13, h14⟩ := skipSpaces_eval hrest hws hns
      simp only [readAttributesC, h11, Res.bind, h13]
      have : (t = 0x2F || t = 0x3E) = true := by rcases ht with h | h <;> subst h <;> decide
      simp only [this, ↓reduceIte]
      exact ⟨acc, c1, rfl, h13, h14, by simp⟩
  | cons a attrs ih =>
    intro fuel acc c ws r t hat hwf hws ht hrest hfuel hmax
    cases fuel with
    | zero => omega
    | succ fuel =>
      have hwa := hwf a (by simp)
      have hrest' : c.rest = a.pre ++ (a.name ++ (a.ws1 ++ 0x3D :: (a.ws2 ++ a.quote :: (a.value ++ a.quote ::
          (renderAttrs attrs ++ (ws ++ t :: r))))))  := by
        rw [hrest]; simp [renderAttrs, FAttr.render]
      obtain ⟨c1, h11, h12, h13, h14⟩ := skipSpaces_eval hrest' hwa.pre (validName_head_not_space hwa.name _)
      obtain ⟨x, tl, hname, hx, htl⟩ := hwa.name
      have hx' := nameStart_not_special x hx
      simp only [readAttributesC, h11, Res.bind]
      rw [h13, hname]
      simp only [List.cons_append]
      have : (x = 0x2F || x = 0x3E) = false := by simp [hx'.1, hx'.2.1]
      simp only [this, Bool.false_eq_true, ↓reduceIte]
      have h13' : c1.rest = a.name ++ (a.ws1 ++ 0x3D :: (a.ws2 ++ a.quote :: (a.value ++ a.quote ::
          (renderAttrs attrs ++ (ws ++ t :: r))))) := h13
      obtain ⟨c2, h21, h22, h23, h24⟩ := readName_eval (o := o) h13' hwa.name
        (startsNon_space_or hwa.ws1 (by decide)) hwa.nameLen
      rw [h21]
      simp only
      have hns2 : StartsNon isSpace (0x3D :: (a.ws2 ++ a.quote :: (a.value ++ a.quote ::
          (renderAttrs attrs ++ (ws ++ t :: r))))) := by intro y r' h; cases h; decide
      obtain ⟨c3, h31, h32, h33, h34⟩ := skipSpaces_eval h23 hwa.ws1 hns2
      rw [h31]
      simp only [h33]
      simp only [ne_eq, not_true_eq_false, ↓reduceIte]
      obtain ⟨c4, h41, h42, h43, h44⟩ := advR_ok (k := 1) (c := c3) (by rw [h33]; simp)
      rw [h41]
      simp only
      have hc4 : c4.rest = a.ws2 ++ a.quote :: (a.value ++ a.quote :: (renderAttrs attrs ++ (ws ++ t :: r))) := by
        rw [h43, h33]; simp
      have hns4 : StartsNon isSpace (a.quote :: (a.value ++ a.quote :: (renderAttrs attrs ++ (ws ++ t :: r)))) := by
        intro y r' h; cases h; rcases hwa.quote with h | h <;> rw [h] <;> decide
      obtain ⟨c5, h51, h52, h53, h54⟩ := skipSpaces_eval hc4 hwa.ws2 hns4
      rw [h51]
      simp only
      have hc5 : c5.rest = a.quote :: a.value ++ a.quote :: (renderAttrs attrs ++ (ws ++ t :: r)) := by
        rw [h53]; simp
      obtain ⟨c6, h61, h62, h63, h64⟩ := readQuotedValue_eval (o := o) hc5 hwa.quote hwa.value hwa.valueLen
      rw [h61]
      simp only
      have hlen : ¬ ((acc ++ [(⟨⟨c1.pos, a.name.length⟩, ⟨c5.pos + 1, a.value.length⟩⟩ : Attr)]).length > o.maxAttrs) := by
        simp; simp at hmax; omega
      simp only [hlen, ↓reduceIte]
      have hreach : c.Reach c6 := h14.trans (h24.trans (h34.trans (h44.trans (h54.trans h64))))
      have hat6 := Cur.Reach.at hat hreach
      obtain ⟨as, c', hr1, hr2, hr3, hr4⟩ := ih fuel (acc ++ [⟨⟨c1.pos, a.name.length⟩, ⟨c5.pos + 1, a.value.length⟩⟩]) c6 ws r t
        hat6 (fun b hb => hwf b (by simp [hb])) hws ht h63 (by simp at hfuel; omega) (by simp; simp at hmax; omega)
      refine ⟨as, c', hr1, hr2, hreach.trans hr3, ?_⟩
      rw [hr4]
      simp only [List.map_append, List.map_cons, List.map_nil, List.append_assoc, List.cons_append, List.nil_append]
      congr 1
      congr 1
      -- the two slices denote the name and the value
      have hat1 := Cur.Reach.at hat h14
      have hat5 := Cur.Reach.at hat (h14.trans (h24.trans (h34.trans (h44.trans h54))))
      have hnm : (⟨c1.pos, a.name.length⟩ : Slice).bytes bs = a.name := by
        rw [hat1.slice, h13']; simp
      have hat50 : (⟨c5.pos + 1, a.value.length⟩ : Slice).bytes bs = a.value := by
        simp only [Slice.bytes]
        rw [← List.drop_drop, ← hat5.2, hc5]
        simp
      simp only [Attr.view, hnm, hat50]

/-! ### tags -/

/-- one tag as written -/
inductive Item where
  | start (name : Bytes) (attrs : List FAttr) (ws : Bytes)     -- `<name attrs ws>`
  | empty (name : Bytes) (attrs : List FAttr) (ws : Bytes)     -- `<name attrs ws/>`
  | close (name : Bytes) (ws : Bytes)                          -- `</name ws>`

def Item.render : Item → Bytes
  | .start n as ws => 0x3C :: (n ++ (renderAttrs as ++ (ws ++ 0x3E :: [])))
  | .empty n as ws => 0x3C :: (n ++ (renderAttrs as ++ (ws ++ 0x2F :: 0x3E :: [])))
  | .close n ws => 0x3C :: 0x2F :: (n ++ (ws ++ 0x3E :: []))

/-- a tag with the white space written before it -/
structure Piece where
  lead : Bytes
  item : Item

def Item.WF (o : Options) : Item → Prop
  | .start n as ws => ValidName n ∧ n.length ≤ o.maxName ∧ (∀ a ∈ as, a.WF o) ∧ as.length ≤ o.maxAttrs ∧ AllSpace ws
  | .empty n as ws => ValidName n ∧ n.length ≤ o.maxName ∧ (∀ a ∈ as, a.WF o) ∧ as.length ≤ o.maxAttrs ∧ AllSpace ws
  | .close n ws => ValidName n ∧ n.length ≤ o.maxName ∧ AllSpace ws

def Piece.WF (o : Options) (p : Piece) : Prop := AllSpace p.lead ∧ p.item.WF o

def renderPieces : List Piece → Bytes
  | [] => []
  | p :: r => p.lead ++ (p.item.render ++ renderPieces r)

/-- what a token says, with every slice replaced by the bytes it denotes -/
structure View where
  kind : Kind
  name : Bytes
  attrs : List (Bytes × Bytes)
  depth : Nat
  deriving DecidableEq, Repr

def Token.view (bs : Bytes) (t : Token) : View :=
  ⟨t.kind, t.name.bytes bs, t.attrs.map (Attr.view bs), t.depth⟩

/-- the events a sequence of tags stands for (independent of the parser): `none` when a close tag does not match the innermost
open element or the nesting exceeds `maxDepth`; otherwise the events and the names left open -/
def specRun (o : Options) : List Bytes → List Piece → Option (List View × List Bytes)
  | st, [] => some ([], st)
  | st, p :: r =>
    match p.item with
    | .start n as _ =>
      if st.length + 1 ≤ o.maxDepth then
        match specRun o (n :: st) r with
        | some (vs, fin) => some (⟨.startElement, n, as.map (fun a => (a.name, a.value)), st.length + 1⟩ :: vs, fin)
        | none => none
      else none
    | .empty n as _ =>
      if st.length + 1 ≤ o.maxDepth then
        match specRun o st r with
        | some (vs, fin) => some (⟨.emptyElement, n, as.map (fun a => (a.name, a.value)), st.length + 1⟩ :: vs, fin)
        | none => none
      else none
    | .close n _ =>
      match st with
      | top :: below =>
        if top = n then
          match specRun o below r with
          | some (vs, fin) => some (⟨.endElement, n, [], st.length⟩ :: vs, fin)
          | none => none
        else none
      | [] => none

theorem renderAttrs_length : ∀ as : List FAttr, as.length ≤ (renderAttrs as).length := by
  intro as
  induction as with
  | nil => simp
  | cons a r ih => simp [renderAttrs, FAttr.render]; omega

/-- the state before a call of `next()` that the skeleton theorem maintains -/
structure SkInv (bs : Bytes) (o : Options) (s : St) : Prop where
  cur : s.cur.At bs
  depth : s.depth = s.stack.length

/-- one start tag or empty-element tag -/
theorem next_open (bs : Bytes) (o : Options) (s : St) (lead n ws rest : Bytes) (as : List FAttr) (sc : Bool)
    (hi : SkInv bs o s) (hlead : AllSpace lead) (hn : ValidName n) (hnl : n.length ≤ o.maxName)
    (has : ∀ a ∈ as, a.WF o) (hasl : as.length ≤ o.maxAttrs) (hws : AllSpace ws)
    (hrest : s.cur.rest = lead ++ (0x3C :: (n ++ (renderAttrs as ++ (ws ++ (if sc then 0x2F :: 0x3E :: rest else 0x3E :: rest))))))
    (hbud : o.maxTokens = 0 ∨ s.produced < o.maxTokens) (hdepth : s.stack.length + 1 ≤ o.maxDepth) :
    ∃ t s', nextC o s = .tok t s' ∧ s'.cur.rest = rest ∧ SkInv bs o s' ∧ s'.produced = s.produced + 1 ∧
      t.view bs = ⟨if sc then .emptyElement else .startElement, n, as.map (fun a => (a.name, a.value)), s.stack.length + 1⟩ ∧
      s'.stack = if sc then s.stack else n :: s.stack := by
  unfold nextC
  have hb : ¬ ((o.maxTokens ≠ 0 && decide (s.produced ≥ o.maxTokens)) = true) := by
    rcases hbud with h | h
    · simp [h]
    · simp; intro _; omega
  simp only [hb, ↓reduceIte]
  obtain ⟨c, h1, h2, h3, h4⟩ := skipWs_eval_lt hrest hlead
  simp only [h1, Res.toStep, h3, ↓reduceIte]
  obtain ⟨c1, h11, h12, h13, h14⟩ := advR_ok (k := 1) (c := c) (by rw [h3]; simp)
  simp only [h11]
  obtain ⟨x, tl, hname, hx, htl⟩ := hn
  have hx' := nameStart_not_special x hx
  have hc1 : c1.rest = n ++ (renderAttrs as ++ (ws ++ (if sc then 0x2F :: 0x3E :: rest else 0x3E :: rest))) := by
    rw [h13, h3]; simp
  have hc1' := hc1
  rw [hname] at hc1'
  simp only [List.cons_append] at hc1'
  rw [hc1']
  simp only [hx'.2.2.1, hx'.2.2.2.1, hx'.1, ↓reduceIte]
  -- readStartOrEmptyTagC
  unfold readStartOrEmptyTagC
  have hnc : StartsNon isNameChar (renderAttrs as ++ (ws ++ (if sc then 0x2F :: 0x3E :: rest else 0x3E :: rest))) := by
    cases as with
    | nil =>
      simp only [renderAttrs, List.nil_append]
      cases sc
      · exact startsNon_space_or hws (by decide)
      · exact startsNon_space_or hws (by decide)
    | cons a as' =>
      have hwa := has a (by simp)
      intro y r' hy
      simp only [renderAttrs, FAttr.render] at hy
      cases hp : a.pre with
      | nil => exact (hwa.preNe hp).elim
      | cons z w' =>
        rw [hp] at hy
        simp only [List.cons_append, List.append_assoc, List.cons.injEq] at hy
        rw [← hy.1]
        exact space_not_nameChar z (hwa.pre z (by rw [hp]; simp))
  obtain ⟨c2, h21, h22, h23, h24⟩ := readName_eval (o := o) hc1 ⟨x, tl, hname, hx, htl⟩ hnc hnl
  simp only [h21, Res.toStep]
  have hat1 : c1.At bs := Cur.Reach.at hi.cur (h4.trans h14)
  have hat2 : c2.At bs := Cur.Reach.at hat1 h24
  cases sc with
  | false =>
    simp only [Bool.false_eq_true, ↓reduceIte] at h23 ⊢
    obtain ⟨atts, c3, h31, h32, h33, h34⟩ := readAttributes_eval o bs as (c2.rest.length + 1) [] c2 ws rest 0x3E hat2 has hws
      (Or.inr rfl) h23 (by rw [h23]; have := renderAttrs_length as; simp; omega) (by simpa using hasl)
    simp only [Res.toStep, h31, h32]
    have : ¬ ((0x3E : UInt8) = 0x2F) := by decide
    simp only [this, ↓reduceIte, h32, ne_eq, not_true_eq_false, Res.toStep]
    obtain ⟨c4, h41, h42, h43, h44⟩ := advR_ok (k := 1) (c := c3) (by rw [h32]; simp)
    simp only [h41, Res.toStep]
    have hd : ¬ (s.depth + 1 > o.maxDepth) := by rw [hi.depth]; omega
    simp only [hd, ↓reduceIte, decide_false, Bool.false_eq_true]
    have hnm : (⟨c1.pos, n.length⟩ : Slice).bytes bs = n := by rw [hat1.slice, hc1]; simp
    refine ⟨_, _, rfl, ?_, ⟨?_, ?_⟩, rfl, ?_, ?_⟩
    · simp only; rw [h43, h32]; simp
    · exact Cur.Reach.at hat2 (h33.trans h44)
    · simp only [List.length_cons]; rw [hi.depth]
    · simp only [Token.view, hnm, h34, List.map_nil, List.nil_append, hi.depth]
    · simp only; rw [hc1]; simp
  | true =>
    simp only [↓reduceIte] at h23 ⊢
    obtain ⟨atts, c3, h31, h32, h33, h34⟩ := readAttributes_eval o bs as (c2.rest.length + 1) [] c2 ws (0x3E :: rest) 0x2F hat2 has hws
      (Or.inl rfl) h23 (by rw [h23]; have := renderAttrs_length as; simp; omega) (by simpa using hasl)
    simp only [Res.toStep, h31, h32, ↓reduceIte]
    obtain ⟨c3', h3a, h3b, h3c, h3d⟩ := advR_ok (k := 1) (c := c3) (by rw [h32]; simp)
    simp only [h3a, Res.toStep]
    have hc3' : c3'.rest = 0x3E :: rest := by rw [h3c, h32]; simp
    simp only [hc3', ne_eq, not_true_eq_false, ↓reduceIte]
    obtain ⟨c4, h41, h42, h43, h44⟩ := advR_ok (k := 1) (c := c3') (by rw [hc3']; simp)
    simp only [h41, Res.toStep]
    have hd : ¬ (s.depth + 1 > o.maxDepth) := by rw [hi.depth]; omega
    simp only [hd, ↓reduceIte, decide_true]
    have hnm : (⟨c1.pos, n.length⟩ : Slice).bytes bs = n := by rw [hat1.slice, hc1]; simp
    refine ⟨_, _, rfl, ?_, ⟨?_, ?_⟩, rfl, ?_, ?_⟩
    · simp only; rw [h43, hc3']; simp
    · exact Cur.Reach.at hat2 (h33.trans (h3d.trans h44))
    · exact hi.depth
    · simp only [Token.view, hnm, h34, List.map_nil, List.nil_append, hi.depth]
    · rfl

/-- one end tag that names the innermost open element -/
theorem next_close (bs : Bytes) (o : Options) (s : St) (lead n ws rest : Bytes) (below : List Bytes)
    (hi : SkInv bs o s) (hlead : AllSpace lead) (hn : ValidName n) (hnl : n.length ≤ o.maxName) (hws : AllSpace ws)
    (hrest : s.cur.rest = lead ++ (0x3C :: 0x2F :: (n ++ (ws ++ 0x3E :: rest))))
    (hbud : o.maxTokens = 0 ∨ s.produced < o.maxTokens) (hstack : s.stack = n :: below) :
    ∃ t s', nextC o s = .tok t s' ∧ s'.cur.rest = rest ∧ SkInv bs o s' ∧ s'.produced = s.produced + 1 ∧
      t.view bs = ⟨.endElement, n, [], s.stack.length⟩ ∧ s'.stack = below := by
  unfold nextC
  have hb : ¬ ((o.maxTokens ≠ 0 && decide (s.produced ≥ o.maxTokens)) = true) := by
    rcases hbud with h | h
    · simp [h]
    · simp; intro _; omega
  simp only [hb, ↓reduceIte]
  obtain ⟨c, h1, h2, h3, h4⟩ := skipWs_eval_lt hrest hlead
  simp only [h1, Res.toStep, h3, ↓reduceIte]
  obtain ⟨c1, h11, h12, h13, h14⟩ := advR_ok (k := 1) (c := c) (by rw [h3]; simp)
  simp only [h11]
  have hc1 : c1.rest = 0x2F :: (n ++ (ws ++ 0x3E :: rest)) := by rw [h13, h3]; simp
  rw [hc1]
  have e1 : ¬ ((0x2F : UInt8) = 0x3F) := by decide
  have e2 : ¬ ((0x2F : UInt8) = 0x21) := by decide
  simp only [e1, e2, ↓reduceIte]
  obtain ⟨c2, h21, h22, h23, h24⟩ := advR_ok (k := 1) (c := c1) (by rw [hc1]; simp)
  simp only [h21]
  have hc2 : c2.rest = n ++ (ws ++ 0x3E :: rest) := by rw [h23, hc1]; simp
  unfold readEndTagC
  obtain ⟨c3, h31, h32, h33, h34⟩ := readName_eval (o := o) hc2 hn (startsNon_space_or hws (by decide)) hnl
  simp only [h31, Res.toStep]
  have hns : StartsNon isSpace (0x3E :: rest) := by intro y r' h; cases h; decide
  obtain ⟨c4, h41, h42, h43, h44⟩ := skipSpaces_eval h33 hws hns
  simp only [h41, h43, ne_eq, not_true_eq_false, ↓reduceIte]
  obtain ⟨c5, h51, h52, h53, h54⟩ := advR_ok (k := 1) (c := c4) (by rw [h43]; simp)
  simp only [h51, hstack]
  have htake : List.take n.length c2.rest = n := by rw [hc2]; simp
  simp only [htake, ne_eq, not_true_eq_false, ↓reduceIte]
  have hat2 : c2.At bs := Cur.Reach.at hi.cur (h4.trans (h14.trans h24))
  have hnm : (⟨c2.pos, n.length⟩ : Slice).bytes bs = n := by rw [hat2.slice, hc2]; simp
  have hd := hi.depth
  rw [hstack] at hd
  simp only [List.length_cons] at hd
  refine ⟨_, _, rfl, ?_, ⟨?_, ?_⟩, rfl, ?_, rfl⟩
  · simp only; rw [h53, h43]; simp
  · exact Cur.Reach.at hat2 (h34.trans (h44.trans h54))
  · simp only; omega
  · simp only [Token.view, hnm, List.map_nil, List.length_cons]
    congr 1
    omega

/-- the end of the document: trailing white space, then Eof with an empty stack -/
theorem next_eof (o : Options) (s : St) (trail : Bytes) (htrail : AllSpace trail) (hrest : s.cur.rest = trail)
    (hbud : o.maxTokens = 0 ∨ s.produced < o.maxTokens) (hstack : s.stack = []) :
    ∃ t s', nextC o s = .eof t s' := by
  unfold nextC
  have hb : ¬ ((o.maxTokens ≠ 0 && decide (s.produced ≥ o.maxTokens)) = true) := by
    rcases hbud with h | h
    · simp [h]
    · simp; intro _; omega
  simp only [hb, ↓reduceIte]
  obtain ⟨c, h1, h2, h3⟩ := skipWs_eval_eof hrest htrail
  simp only [h1, Res.toStep, h2, emitEof, hstack]
  exact ⟨_, _, rfl⟩

/-- **skeleton faithfulness, run level**: from a state standing before the rendered pieces, the run reports exactly the events the
pieces stand for, and accepts when they close everything -/
theorem run_pieces (bs : Bytes) (o : Options) : ∀ (ps : List Piece) (fuel : Nat) (s : St) (trail : Bytes)
    (vs : List View) (fin : List Bytes), SkInv bs o s → (∀ p ∈ ps, p.WF o) → AllSpace trail →
    s.cur.rest = renderPieces ps ++ trail → ps.length < fuel → (o.maxTokens = 0 ∨ s.produced + ps.length < o.maxTokens) →
    specRun o s.stack ps = some (vs, fin) →
    (runC o fuel s).1.map (Token.view bs) = vs ∧ (fin = [] → ∃ t s', (runC o fuel s).2 = .accepted t s') := by
  intro ps
  induction ps with
  | nil =>
    intro fuel s trail vs fin hi _ htrail hrest hfuel hbud hspec
    simp only [specRun, Option.some.injEq, Prod.mk.injEq] at hspec
    obtain ⟨rfl, rfl⟩ := hspec
    cases fuel with
    | zero => simp at hfuel
    | succ fuel =>
      simp only [renderPieces, List.nil_append] at hrest
      refine ⟨?_, ?_⟩
      · simp only [runC]
        cases hn : nextC o s with
        | tok t s' =>
          -- impossible: only white space is left
          exfalso
          have hsat := next_sat bs o s hi.cur
          rw [hn] at hsat
          obtain ⟨hr, hlt, _⟩ := hsat
          -- a token needs a non-space byte; derive the contradiction from the evaluation at Eof
          by_cases hst : s.stack = []
          · obtain ⟨t', s'', he⟩ := next_eof o s trail htrail hrest (by rcases hbud with h | h; exact Or.inl h; exact Or.inr (by simpa using h)) hst
            rw [he] at hn; cases hn
          · -- with a non-empty stack `next` fails at Eof
            unfold nextC at hn
            have hb : ¬ ((o.maxTokens ≠ 0 && decide (s.produced ≥ o.maxTokens)) = true) := by
              rcases hbud with h | h
              · simp [h]
              · simp; intro _; simp at h; omega
            simp only [hb, ↓reduceIte] at hn
            obtain ⟨c, h1, h2, h3⟩ := skipWs_eval_eof hrest htrail
            have hne : (!s.stack.isEmpty) = true := by
              cases hs : s.stack with
              | nil => exact (hst hs).elim
              | cons _ _ => rfl
            simp only [h1, Res.toStep, h2, emitEof, hne, ↓reduceIte] at hn
            cases hn
        | eof t s' => simp
        | err e c => simp
        | bad b => simp
      · intro hfin
        obtain ⟨t, s', he⟩ := next_eof o s trail htrail hrest
          (by rcases hbud with h | h; exact Or.inl h; exact Or.inr (by simpa using h)) hfin
        simp only [runC, he]
        exact ⟨t, s', rfl⟩
  | cons p ps ih =>
    intro fuel s trail vs fin hi hwf htrail hrest hfuel hbud hspec
    cases fuel with
    | zero => simp at hfuel
    | succ fuel =>
      have hp := hwf p (by simp)
      have hbud1 : o.maxTokens = 0 ∨ s.produced < o.maxTokens := by
        rcases hbud with h | h
        · exact Or.inl h
        · right; simp at h; omega
      have hbud' : ∀ s' : St, s'.produced = s.produced + 1 → (o.maxTokens = 0 ∨ s'.produced + ps.length < o.maxTokens) := by
        intro s' hs'
        rcases hbud with h | h
        · exact Or.inl h
        · right; simp at h; omega
      simp only [renderPieces, List.append_assoc] at hrest
      simp only [specRun] at hspec
      obtain ⟨lead, item⟩ := p
      obtain ⟨hlead, hitem⟩ := hp
      simp only at hlead hitem hrest hspec
      cases item with
      | start n as ws =>
        simp only [Item.WF] at hitem
        obtain ⟨hn, hnl, has, hasl, hws⟩ := hitem
        simp only at hspec
        split at hspec
        · rename_i hdepth
          split at hspec
          · rename_i vs' fin' hsp
            simp only [Option.some.injEq, Prod.mk.injEq] at hspec
            obtain ⟨rfl, rfl⟩ := hspec
            have hrest' : s.cur.rest = lead ++ (0x3C :: (n ++ (renderAttrs as ++ (ws ++
                (if false then 0x2F :: 0x3E :: (renderPieces ps ++ trail) else 0x3E :: (renderPieces ps ++ trail)))))) := by
              rw [hrest]; simp [Item.render]
            obtain ⟨t, s', hnx, hr', hi', hp', hv, hst⟩ := next_open bs o s lead n ws (renderPieces ps ++ trail) as false hi hlead hn hnl
              has hasl hws hrest' hbud1 hdepth
            simp only [Bool.false_eq_true, ↓reduceIte] at hv hst
            have := ih fuel s' trail vs' fin' hi' (fun q hq => hwf q (by simp [hq])) htrail hr' (by simp at hfuel; omega)
              (hbud' s' hp') (by rw [hst]; exact hsp)
            simp only [runC, hnx]
            exact ⟨by simp [hv, this.1], this.2⟩
          · cases hspec
        · cases hspec
      | empty n as ws =>
        simp only [Item.WF] at hitem
        obtain ⟨hn, hnl, has, hasl, hws⟩ := hitem
        simp only at hspec
        split at hspec
        · rename_i hdepth
          split at hspec
          · rename_i vs' fin' hsp
            simp only [Option.some.injEq, Prod.mk.injEq] at hspec
            obtain ⟨rfl, rfl⟩ := hspec
            have hrest' : s.cur.rest = lead ++ (0x3C :: (n ++ (renderAttrs as ++ (ws ++
                (if true then 0x2F :: 0x3E :: (renderPieces ps ++ trail) else 0x3E :: (renderPieces ps ++ trail)))))) := by
              rw [hrest]; simp [Item.render]
            obtain ⟨t, s', hnx, hr', hi', hp', hv, hst⟩ := next_open bs o s lead n ws (renderPieces ps ++ trail) as true hi hlead hn hnl
              has hasl hws hrest' hbud1 hdepth
            simp only [↓reduceIte] at hv hst
            have := ih fuel s' trail vs' fin' hi' (fun q hq => hwf q (by simp [hq])) htrail hr' (by simp at hfuel; omega)
              (hbud' s' hp') (by rw [hst]; exact hsp)
            simp only [runC, hnx]
            exact ⟨by simp [hv, this.1], this.2⟩
          · cases hspec
        · cases hspec
      | close n ws =>
        simp only [Item.WF] at hitem
        obtain ⟨hn, hnl, hws⟩ := hitem
        simp only at hspec
        split at hspec
        · rename_i top below hstack
          split at hspec
          · rename_i htop
            subst htop
            split at hspec
            · rename_i vs' fin' hsp
              simp only [Option.some.injEq, Prod.mk.injEq] at hspec
              obtain ⟨rfl, rfl⟩ := hspec
              have hrest' : s.cur.rest = lead ++ (0x3C :: 0x2F :: (top ++ (ws ++ 0x3E :: (renderPieces ps ++ trail)))) := by
                rw [hrest]; simp [Item.render]
              obtain ⟨t, s', hnx, hr', hi', hp', hv, hst⟩ := next_close bs o s lead top ws (renderPieces ps ++ trail) below hi hlead hn hnl
                hws hrest' hbud1 hstack
              have := ih fuel s' trail vs' fin' hi' (fun q hq => hwf q (by simp [hq])) htrail hr' (by simp at hfuel; omega)
                (hbud' s' hp') (by rw [hst]; exact hsp)
              simp only [runC, hnx]
              exact ⟨by simp [hv, this.1, hstack], this.2⟩
            · cases hspec
          · cases hspec
        · cases hspec

theorem renderPieces_length : ∀ ps : List Piece, ps.length ≤ (renderPieces ps).length := by
  intro ps
  induction ps with
  | nil => simp
  | cons p r ih =>
    have : 1 ≤ p.item.render.length := by cases p.item <;> simp [Item.render]
    simp [renderPieces]; omega

/-- skeleton faithfulness for whole documents -/
theorem skeleton_faithful (o : Options) (ps : List Piece) (trail : Bytes) (vs : List View)
    (hwf : ∀ p ∈ ps, p.WF o) (htrail : AllSpace trail) (hbud : o.maxTokens = 0 ∨ ps.length < o.maxTokens)
    (hspec : specRun o [] ps = some (vs, [])) :
    (tokensC o (renderPieces ps ++ trail)).1.map (Token.view (renderPieces ps ++ trail)) = vs ∧
    ∃ t s, (tokensC o (renderPieces ps ++ trail)).2 = .accepted t s := by
  have := run_pieces (renderPieces ps ++ trail) o ps ((renderPieces ps ++ trail).length + 2) (St.init _) trail vs []
    ⟨Cur.init_at _, rfl⟩ hwf htrail rfl (by have := renderPieces_length ps; simp; omega)
    (by simpa [St.init] using hbud) hspec
  exact ⟨this.1, this.2 rfl⟩

/-- **F29 as repaired, at the level of `next()`**: when the bytes after the previous markup are white space followed by a
non-space byte other than `<`, the Text token starts at the white space and runs up to the next `<` -/
theorem next_text_keeps_leading_space (o : Options) (s : St) (w r : Bytes) (x : UInt8) (hw : AllSpace w)
    (hx : isSpace x = false) (hlt : x ≠ 0x3C) (hrest : s.cur.rest = w ++ x :: r)
    (hbud : o.maxTokens = 0 ∨ s.produced < o.maxTokens) (hlen : spanLen notLt (w ++ x :: r) ≤ o.maxText) :
    ∃ t s', nextC o s = .tok t s' ∧ t.kind = .text ∧ t.text = ⟨s.cur.pos, spanLen notLt (w ++ x :: r)⟩ ∧
      t.offset = s.cur.pos ∧ s'.cur.pos = s.cur.pos + spanLen notLt (w ++ x :: r) := by
  unfold nextC
  have hb : ¬ ((o.maxTokens ≠ 0 && decide (s.produced ≥ o.maxTokens)) = true) := by
    rcases hbud with h | h
    · simp [h]
    · simp; intro _; omega
  simp only [hb, ↓reduceIte]
  rw [skipWs_eval_text hrest hw hx hlt]
  simp only [Res.toStep]
  have hsp : ∀ z : UInt8, isSpace z = true → z ≠ 0x3C := forall_u8 (by decide +kernel)
  cases hwr : w ++ x :: r with
  | nil => cases w <;> simp at hwr
  | cons ch r0 =>
    rw [hwr] at hrest hlen
    have hch : ch ≠ 0x3C := by
      cases w with
      | nil => simp at hwr; rw [← hwr.1]; exact hlt
      | cons z w' => simp at hwr; rw [← hwr.1]; exact hsp z (hw z (by simp))
    simp only [hrest, hch, ↓reduceIte]
    unfold readTextC
    have hk : spanLen notLt (ch :: r0) = 1 + spanLen notLt r0 := by
      simp only [spanLen]
      have : notLt ch = true := by simp [notLt, hch]
      simp only [this, ↓reduceIte]; omega
    rw [hk] at hlen
    have : ¬ (1 + spanLen notLt r0 > o.maxText) := by omega
    simp only [this, ↓reduceIte]
    obtain ⟨c1, h1, h2, h3, h4⟩ := advR_ok (k := 1 + spanLen notLt r0) (c := s.cur)
      (by rw [hrest]; have := spanLen_le notLt r0; simp; omega)
    simp only [h1, Res.toStep, emit]
    refine ⟨_, _, rfl, rfl, ?_, rfl, ?_⟩
    · simp only [hk, h2]; congr 1; omega
    · simp only [hk, h2]

/-! ### element trees -/

/-- an element tree together with every formatting choice made when writing it -/
inductive FElem where
  | node (lead name : Bytes) (attrs : List FAttr) (ws : Bytes) (children : List FElem) (leadEnd wsEnd : Bytes)
  | leaf (lead name : Bytes) (attrs : List FAttr) (ws : Bytes)

def attrsView (as : List FAttr) : List (Bytes × Bytes) := as.map fun a => (a.name, a.value)

mutual
  /-- the tags of an element in document order: `<name …>` children `</name>`, or `<name …/>` -/
  def FElem.pieces : FElem → List Piece
    | .node lead n as ws ch le we => ⟨lead, .start n as ws⟩ :: (piecesList ch ++ [⟨le, .close n we⟩])
    | .leaf lead n as ws => [⟨lead, .empty n as ws⟩]
  def piecesList : List FElem → List Piece
    | [] => []
    | e :: r => e.pieces ++ piecesList r
end

mutual
  /-- the events an element at depth `d` stands for -/
  def FElem.events (d : Nat) : FElem → List View
    | .node _ n as _ ch _ _ => ⟨.startElement, n, attrsView as, d⟩ :: (eventsList (d + 1) ch ++ [⟨.endElement, n, [], d⟩])
    | .leaf _ n as _ => [⟨.emptyElement, n, attrsView as, d⟩]
  def eventsList (d : Nat) : List FElem → List View
    | [] => []
    | e :: r => e.events d ++ eventsList d r
end

mutual
  def FElem.height : FElem → Nat
    | .node _ _ _ _ ch _ _ => 1 + heightList ch
    | .leaf _ _ _ _ => 1
  def heightList : List FElem → Nat
    | [] => 0
    | e :: r => max e.height (heightList r)
end

/-- prepend events to a `specRun` result -/
def pre (vs : List View) (r : Option (List View × List Bytes)) : Option (List View × List Bytes) :=
  match r with
  | some (ws, fin) => some (vs ++ ws, fin)
  | none => none

theorem pre_pre (a b : List View) (r) : pre a (pre b r) = pre (a ++ b) r := by
  cases r with
  | none => rfl
  | some p => obtain ⟨ws, fin⟩ := p; simp [pre]

theorem pre_nil (r) : pre [] r = r := by
  cases r with
  | none => rfl
  | some p => obtain ⟨ws, fin⟩ := p; simp [pre]

mutual
  theorem spec_elem (o : Options) : ∀ (e : FElem) (st : List Bytes) (rest : List Piece), st.length + e.height ≤ o.maxDepth →
      specRun o st (e.pieces ++ rest) = pre (e.events (st.length + 1)) (specRun o st rest)
    | .node lead n as ws ch le we, st, rest, h => by
      simp only [FElem.height] at h
      simp only [FElem.pieces, List.cons_append, List.append_assoc, specRun]
      have hd : st.length + 1 ≤ o.maxDepth := by omega
      simp only [hd, ↓reduceIte]
      rw [spec_list o ch (n :: st) _ (by simp; omega)]
      simp only [List.nil_append, specRun, ↓reduceIte, List.length_cons]
      cases hr : specRun o st rest with
      | none => simp [pre]
      | some p => obtain ⟨ws', fin⟩ := p; simp [pre, FElem.events, attrsView]
    | .leaf lead n as ws, st, rest, h => by
      simp only [FElem.height] at h
      simp only [FElem.pieces, List.cons_append, List.nil_append, specRun]
      have hd : st.length + 1 ≤ o.maxDepth := by omega
      simp only [hd, ↓reduceIte]
      cases hr : specRun o st rest with
      | none => simp [pre]
      | some p => obtain ⟨ws', fin⟩ := p; simp [pre, FElem.events, attrsView]
  theorem spec_list (o : Options) : ∀ (es : List FElem) (st : List Bytes) (rest : List Piece), st.length + heightList es ≤ o.maxDepth →
      specRun o st (piecesList es ++ rest) = pre (eventsList (st.length + 1) es) (specRun o st rest)
    | [], st, rest, _ => by simp [piecesList, eventsList, pre_nil]
    | e :: r, st, rest, h => by
      simp only [heightList] at h
      simp only [piecesList, List.append_assoc, eventsList]
      rw [spec_elem o e st _ (by omega), spec_list o r st rest (by omega), pre_pre]
end


mutual
  /-- every formatting choice of every tag of the tree is within the supported subset and the limits -/
  def FElem.WF (o : Options) : FElem → Prop
    | .node lead n as ws ch le we =>
      AllSpace lead ∧ ValidName n ∧ n.length ≤ o.maxName ∧ (∀ a ∈ as, a.WF o) ∧ as.length ≤ o.maxAttrs ∧ AllSpace ws ∧
      WFList o ch ∧ AllSpace le ∧ AllSpace we
    | .leaf lead n as ws =>
      AllSpace lead ∧ ValidName n ∧ n.length ≤ o.maxName ∧ (∀ a ∈ as, a.WF o) ∧ as.length ≤ o.maxAttrs ∧ AllSpace ws
  def WFList (o : Options) : List FElem → Prop
    | [] => True
    | e :: r => e.WF o ∧ WFList o r
end

mutual
  theorem pieces_wf (o : Options) : ∀ (e : FElem), e.WF o → ∀ p ∈ e.pieces, p.WF o
    | .node lead n as ws ch le we, h, p, hp => by
      simp only [FElem.WF] at h
      obtain ⟨h1, h2, h3, h4, h5, h6, h7, h8, h9⟩ := h
      simp only [FElem.pieces, List.mem_cons, List.mem_append, List.mem_nil_iff, or_false] at hp
      rcases hp with rfl | hp | rfl
      · exact ⟨h1, h2, h3, h4, h5, h6⟩
      · exact piecesList_wf o ch h7 p hp
      · exact ⟨h8, h2, h3, h9⟩
    | .leaf lead n as ws, h, p, hp => by
      simp only [FElem.WF] at h
      simp only [FElem.pieces, List.mem_cons, List.mem_nil_iff, or_false] at hp
      subst hp
      exact ⟨h.1, h.2.1, h.2.2.1, h.2.2.2.1, h.2.2.2.2.1, h.2.2.2.2.2⟩
  theorem piecesList_wf (o : Options) : ∀ (es : List FElem), WFList o es → ∀ p ∈ piecesList es, p.WF o
    | [], _, p, hp => by simp [piecesList] at hp
    | e :: r, h, p, hp => by
      simp only [WFList] at h
      simp only [piecesList, List.mem_append] at hp
      rcases hp with hp | hp
      · exact pieces_wf o e h.1 p hp
      · exact piecesList_wf o r h.2 p hp
end

/-- the document a forest of element trees is written as -/
def renderForest (es : List FElem) (trail : Bytes) : Bytes := renderPieces (piecesList es) ++ trail

/-- faithfulness for element trees: the rendered forest is accepted and reported as its pre-order events -/
theorem forest_faithful (o : Options) (es : List FElem) (trail : Bytes) (hwf : WFList o es) (htrail : AllSpace trail)
    (hh : heightList es ≤ o.maxDepth) (hbud : o.maxTokens = 0 ∨ (piecesList es).length < o.maxTokens) :
    (tokensC o (renderForest es trail)).1.map (Token.view (renderForest es trail)) = eventsList 1 es ∧
    ∃ t s, (tokensC o (renderForest es trail)).2 = .accepted t s := by
  have hspec : specRun o [] (piecesList es) = some (eventsList 1 es, []) := by
    have := spec_list o es [] [] (by simpa using hh)
    simpa [specRun, pre] using this
  exact skeleton_faithful o (piecesList es) trail _ (piecesList_wf o es hwf) htrail hbud hspec

end Iora.Xml
