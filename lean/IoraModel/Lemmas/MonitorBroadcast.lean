import IoraModel.Model.Monitor
/-!
# The broadcast discipline, proved once for every monitor program (DESIGN §6.3)

For ANY program in the vocabulary of `Model/Monitor.lean` that uses one mutex `m` and satisfies the classical discipline

* a thread calls `wait cv` only while holding `m`, in the same atomic step in which it found `pred cv` false;
* the shared data changes only in steps of the thread that holds `m`;
* a step that turns `pred cv` from false to true leaves its thread *owing* a `notifyAll cv`, and a thread that owes one
  keeps owing it until it executes it, and neither sleeps nor finishes meanwhile;

the following holds in every state reachable under every schedule (time-outs and spurious wake-ups included):
every thread asleep on `cv` has a false predicate, or some ready thread still owes the `notifyAll cv`; in particular
in a dead-locked state every sleeper's predicate is false — **no lost wake-up**.

This is the flag-style case (`closed`, `stopped`, `done` … announced by `notify_all`).  Wake-ups by `notify_one` are NOT
covered: their soundness is a counting argument over a class-specific resource (for the blocking queue: items resp. free
slots against wake-ups in the pipeline — `Lemmas/BlockingQueue.lean`, `InvK.credNE/credNF`), which has no formulation
that is independent of what the data means.
-/
namespace Iora.Monitor

variable {D L : Type}

/-- does the thread hold `m` once the pending operation of local state `l` has taken effect? -/
def holdsAfterOp (P : Prog D L) (holds : L → Bool) (l : L) : Bool :=
  match P.op l with
  | .lock _ => true
  | .wait _ _ _ => true
  | .unlock _ => false
  | _ => holds l

/-- the broadcast discipline of a program `P` over the single mutex `m`; `wfL` = the local states that can occur -/
structure Broadcast (P : Prog D L) (m : MutexId) where
  pred : CvId → D → Bool
  /-- a ready thread in this local state holds `m` -/
  holds : L → Bool
  /-- a thread in this local state owes a `notifyAll cv` -/
  owes : CvId → L → Bool
  wfL : L → Prop
  wf_after : ∀ l d late, wfL l → wfL (P.after l d late).1
  lock_m : ∀ l m', wfL l → P.op l = .lock m' → m' = m ∧ holds l = false
  unlock_m : ∀ l m', wfL l → P.op l = .unlock m' → m' = m ∧ holds l = true
  wait_m : ∀ l cv m' timed, wfL l → P.op l = .wait cv m' timed → m' = m ∧ holds l = true
  done_free : ∀ l, wfL l → P.op l = .done → holds l = false
  holds_after : ∀ l d late, wfL l → holds (P.after l d late).1 = holdsAfterOp P holds l
  /-- data changes only in steps of the holder -/
  frame : ∀ l d late, wfL l → holdsAfterOp P holds l = false → (P.after l d late).2 = d
  /-- the decision to wait is taken in the step that found the predicate false -/
  wait_pred : ∀ l d late cv m' timed, wfL l → P.op (P.after l d late).1 = .wait cv m' timed → pred cv (P.after l d late).2 = false
  /-- whoever makes a predicate true owes the broadcast -/
  owe_new : ∀ l d late cv, wfL l → pred cv d = false → pred cv (P.after l d late).2 = true → owes cv (P.after l d late).1 = true
  owe_keep : ∀ l d late cv, wfL l → owes cv l = true → P.op l ≠ .notifyAll cv → owes cv (P.after l d late).1 = true
  owe_active : ∀ l cv, wfL l → owes cv l = true → (∀ c m' t, P.op l ≠ .wait c m' t) ∧ P.op l ≠ .done

namespace Broadcast
variable {P : Prog D L} {m : MutexId} (B : Broadcast P m)

def holdingT (ts : TState L) : Bool :=
  match ts.status with
  | .ready => B.holds ts.loc
  | _ => false

/-- status and local state fit together -/
def wfT (ts : TState L) : Prop :=
  B.wfL ts.loc ∧
  match ts.status with
  | .ready => True
  | .asleep cv m' _ => m' = m ∧ ∃ timed, P.op ts.loc = .wait cv m timed
  | .woken m' _ _ => m' = m ∧ ∃ cv timed, P.op ts.loc = .wait cv m timed

structure Inv (s : State D L) : Prop where
  wf : ∀ t, t < s.n → B.wfT (s.thr t)
  own1 : ∀ t, t < s.n → B.holdingT (s.thr t) = true → s.owner m = some t
  own2 : ∀ t, s.owner m = some t → t < s.n ∧ B.holdingT (s.thr t) = true
  about : ∀ t cv m' timed, t < s.n → (s.thr t).status = .ready → P.op (s.thr t).loc = .wait cv m' timed → B.pred cv s.data = false
  main : ∀ t cv, t < s.n → isAsleepOn cv (s.thr t) = true →
          B.pred cv s.data = false ∨ ∃ u, u < s.n ∧ (s.thr u).status = .ready ∧ B.owes cv (s.thr u).loc = true

theorem updT_same' {α : Type} (f : Nat → α) (k : Nat) (x : α) : updT f k x k = x := by simp [updT]
theorem updT_other' {α : Type} (f : Nat → α) (k : Nat) (x : α) (i : Nat) (h : i ≠ k) : updT f k x i = f i := by simp [updT, h]

theorem not_holding_of_free {s : State D L} (h : B.Inv s) (hfree : s.owner m = none) (u : Tid) (hu : u < s.n) :
    B.holdingT (s.thr u) = false := by
  cases hh : B.holdingT (s.thr u) with
  | false => rfl
  | true => have := h.own1 u hu hh; rw [hfree] at this; cases this

theorem not_holding_of_other {s : State D L} (h : B.Inv s) {t : Tid} (ho : s.owner m = some t) (u : Tid) (hu : u < s.n) (hne : u ≠ t) :
    B.holdingT (s.thr u) = false := by
  cases hh : B.holdingT (s.thr u) with
  | false => rfl
  | true => have := h.own1 u hu hh; rw [ho] at this; cases this; exact absurd rfl hne

/-- a ready thread whose pending operation is a wait holds the mutex -/
theorem waiter_holds {s : State D L} (h : B.Inv s) (u : Tid) (hu : u < s.n) (hs : (s.thr u).status = .ready)
    {cv : CvId} {m' : MutexId} {timed : Bool} (hop : P.op (s.thr u).loc = .wait cv m' timed) : B.holdingT (s.thr u) = true := by
  have := (B.wait_m _ cv m' timed (h.wf u hu).1 hop).2
  simp [holdingT, hs, this]

/-- The generic step: thread `t` runs its user code `after`; before that the effect of its pending operation has been
applied: the owner of `m` is now `o0 m`, and `thr0` is `s.thr` with some sleepers woken. -/
theorem core (s : State D L) (h : B.Inv s) (t : Tid) (late : Bool) (ht : t < s.n)
    (o0 : MutexId → Option Tid) (thr0 : Tid → TState L)
    (hloc : ∀ u, (thr0 u).loc = (s.thr u).loc)
    (hst : ∀ u, u ≠ t → (thr0 u).status = (s.thr u).status ∨
        (∃ cv m' timed to, (s.thr u).status = .asleep cv m' timed ∧ (thr0 u).status = .woken m' timed to))
    (hC1 : holdsAfterOp P B.holds (s.thr t).loc = true → o0 m = some t ∧ ∀ u, u < s.n → u ≠ t → B.holdingT (s.thr u) = false)
    (hC1' : holdsAfterOp P B.holds (s.thr t).loc = false →
        (o0 m = s.owner m ∧ B.holdingT (s.thr t) = false) ∨ (s.owner m = some t ∧ o0 m = none))
    (hC2 : ∀ cv, P.op (s.thr t).loc = .notifyAll cv → ∀ u, u < s.n → u ≠ t → isAsleepOn cv (thr0 u) = false) :
    B.Inv { s with data := (P.after (s.thr t).loc s.data late).2, owner := o0,
                   thr := updT thr0 t { status := .ready, loc := (P.after (s.thr t).loc s.data late).1 } } := by
  have hwft := (h.wf t ht).1
  have hH := B.holds_after (s.thr t).loc s.data late hwft
  -- a thread other than t that is ready (or asleep) after the effect had the same status before
  have ready_same : ∀ u, u ≠ t → (thr0 u).status = .ready → (s.thr u).status = .ready := by
    intro u hu hr
    rcases hst u hu with e | ⟨cv, m', timed, to, _, e⟩
    · rw [← e]; exact hr
    · rw [e] at hr; cases hr
  have asleep_same : ∀ u cv, u ≠ t → isAsleepOn cv (thr0 u) = true → isAsleepOn cv (s.thr u) = true := by
    intro u cv hu ha
    rcases hst u hu with e | ⟨cv', m', timed, to, _, e⟩
    · simpa [isAsleepOn, e] using ha
    · simp [isAsleepOn, e] at ha
  have hold_same : ∀ u, u ≠ t → B.holdingT (thr0 u) = true → B.holdingT (s.thr u) = true := by
    intro u hu hh
    unfold holdingT at hh ⊢
    cases hs0 : (thr0 u).status with
    | ready => rw [hs0] at hh; rw [ready_same u hu hs0]; simpa [hloc u] using hh
    | asleep _ _ _ => rw [hs0] at hh; cases hh
    | woken _ _ _ => rw [hs0] at hh; cases hh
  refine ⟨?_, ?_, ?_, ?_, ?_⟩
  · intro u hu
    by_cases e : u = t
    · subst e; simp only [updT_same']; exact ⟨B.wf_after _ _ _ hwft, trivial⟩
    · simp only [updT_other' _ _ _ _ e]
      have hw := h.wf u hu
      refine ⟨by rw [hloc u]; exact hw.1, ?_⟩
      rcases hst u e with e1 | ⟨cv, m', timed, to, e1, e2⟩
      · rw [e1, hloc u]; exact hw.2
      · rw [e2]
        have := hw.2; rw [e1] at this
        exact ⟨this.1, cv, by rw [hloc u]; exact this.2⟩
  · intro u hu hh
    by_cases e : u = t
    · subst e
      simp only [updT_same', holdingT] at hh
      rw [hH] at hh
      exact (hC1 hh).1
    · simp only [updT_other' _ _ _ _ e] at hh
      have hh' := hold_same u e hh
      cases hHc : holdsAfterOp P B.holds (s.thr t).loc with
      | true => have := (hC1 hHc).2 u hu e; rw [this] at hh'; cases hh'
      | false =>
        have ho := h.own1 u hu hh'
        rcases hC1' hHc with ⟨e1, _⟩ | ⟨e1, _⟩
        · show o0 m = some u; rw [e1]; exact ho
        · rw [e1] at ho; cases ho; exact absurd rfl e
  · intro u hu
    have hu' : o0 m = some u := hu
    cases hHc : holdsAfterOp P B.holds (s.thr t).loc with
    | true =>
      have := (hC1 hHc).1; rw [this] at hu'; cases hu'
      exact ⟨ht, by simp only [updT_same', holdingT]; rw [hH, hHc]⟩
    | false =>
      rcases hC1' hHc with ⟨e1, hnt⟩ | ⟨_, e1⟩
      · rw [e1] at hu'
        obtain ⟨hun, hhu⟩ := h.own2 u hu'
        have e : u ≠ t := by rintro rfl; rw [hnt] at hhu; cases hhu
        refine ⟨hun, ?_⟩
        simp only [updT_other' _ _ _ _ e]
        unfold holdingT at hhu ⊢
        cases hs : (s.thr u).status with
        | ready =>
          rw [hs] at hhu
          rcases hst u e with e2 | ⟨cv, m', timed, to, e2, _⟩
          · rw [e2, hs]; simpa [hloc u] using hhu
          · rw [hs] at e2; cases e2
        | asleep _ _ _ => rw [hs] at hhu; cases hhu
        | woken _ _ _ => rw [hs] at hhu; cases hhu
      · rw [e1] at hu'; cases hu'
  · intro u cv m' timed hu hs hop
    by_cases e : u = t
    · subst e
      simp only [updT_same'] at hop
      exact B.wait_pred _ _ _ cv m' timed hwft hop
    · simp only [updT_other' _ _ _ _ e] at hs hop
      have hs' := ready_same u e hs
      rw [hloc u] at hop
      have hp := h.about u cv m' timed hu hs' hop
      cases hHc : holdsAfterOp P B.holds (s.thr t).loc with
      | true =>
        have := (hC1 hHc).2 u hu e
        rw [B.waiter_holds h u hu hs' hop] at this; cases this
      | false => show B.pred cv (P.after _ _ _).2 = false; rw [B.frame _ _ _ hwft hHc]; exact hp
  · intro v cv hv ha
    have e : v ≠ t := by rintro rfl; simp [updT_same', isAsleepOn] at ha
    simp only [updT_other' _ _ _ _ e] at ha
    have ha' := asleep_same v cv e ha
    rcases h.main v cv hv ha' with hp | ⟨u, hu, hus, huo⟩
    · cases hp' : B.pred cv (P.after (s.thr t).loc s.data late).2 with
      | false => exact Or.inl rfl
      | true =>
        refine Or.inr ⟨t, ht, by simp [updT_same'], ?_⟩
        simp only [updT_same']
        exact B.owe_new _ _ _ cv hwft hp hp'
    · by_cases eu : u = t
      · subst eu
        by_cases hna : P.op (s.thr u).loc = .notifyAll cv
        · have := hC2 cv hna v hv e; rw [this] at ha; cases ha
        · exact Or.inr ⟨u, hu, by simp [updT_same'], by simp only [updT_same']; exact B.owe_keep _ _ _ cv hwft huo hna⟩
      · refine Or.inr ⟨u, hu, ?_, ?_⟩
        · simp only [updT_other' _ _ _ _ eu]
          rcases hst u eu with e2 | ⟨cv', m', timed, to, e2, _⟩
          · rw [e2]; exact hus
          · rw [hus] at e2; cases e2
        · simp only [updT_other' _ _ _ _ eu, hloc u]; exact huo

theorem asleep_status' {cv : CvId} {ts : TState L} (h : isAsleepOn cv ts = true) : ∃ m' timed, ts.status = .asleep cv m' timed := by
  unfold isAsleepOn at h
  split at h
  · rename_i c m' timed hs
    have : c = cv := by simpa using h
    subst this; exact ⟨m', timed, hs⟩
  · cases h

theorem wakeT_loc' (ts : TState L) (to : Bool) : (wakeT ts to).loc = ts.loc := by
  unfold wakeT; split <;> rfl

/-- conditions of `core` when the step does not touch the owner map (`start`, `yield`, `notifyOne`, `notifyAll`) -/
theorem same_owner {s : State D L} (h : B.Inv s) (t : Tid) (ht : t < s.n) (hs : (s.thr t).status = .ready)
    (hH : holdsAfterOp P B.holds (s.thr t).loc = B.holds (s.thr t).loc) :
    (holdsAfterOp P B.holds (s.thr t).loc = true → s.owner m = some t ∧ ∀ u, u < s.n → u ≠ t → B.holdingT (s.thr u) = false) ∧
    (holdsAfterOp P B.holds (s.thr t).loc = false →
        (s.owner m = s.owner m ∧ B.holdingT (s.thr t) = false) ∨ (s.owner m = some t ∧ s.owner m = none)) := by
  constructor
  · intro hh
    rw [hH] at hh
    have ho := h.own1 t ht (by simp [holdingT, hs, hh])
    exact ⟨ho, fun u hu hne => B.not_holding_of_other h ho u hu hne⟩
  · intro hh
    rw [hH] at hh
    exact Or.inl ⟨rfl, by simp [holdingT, hs, hh]⟩

/-- every transition preserves the invariant -/
theorem inv_tr (s s' : State D L) (h : B.Inv s) (tr : Tr P s s') : B.Inv s' := by
  cases tr with
  | wake t cv m' timed to ht hs =>
    have hnh : B.holdingT (s.thr t) = false := by simp [holdingT, hs]
    refine ⟨?_, ?_, ?_, ?_, ?_⟩
    · intro u hu
      by_cases e : u = t
      · subst e
        simp only [updT_same']
        have hw := h.wf u hu
        have h2 := hw.2; rw [hs] at h2
        exact ⟨hw.1, h2.1, cv, h2.2⟩
      · simpa [updT_other' _ _ _ _ e] using h.wf u hu
    · intro u hu hh
      by_cases e : u = t
      · subst e; simp [updT_same', holdingT] at hh
      · simp only [updT_other' _ _ _ _ e] at hh; exact h.own1 u hu hh
    · intro u hu
      obtain ⟨hun, hh⟩ := h.own2 u hu
      have e : u ≠ t := by rintro rfl; rw [hnh] at hh; cases hh
      exact ⟨hun, by simpa [updT_other' _ _ _ _ e] using hh⟩
    · intro u cv' m'' timed' hu hsu hop
      by_cases e : u = t
      · subst e; simp [updT_same'] at hsu
      · simp only [updT_other' _ _ _ _ e] at hsu hop; exact h.about u cv' m'' timed' hu hsu hop
    · intro v cv' hv ha
      have e : v ≠ t := by rintro rfl; simp [updT_same', isAsleepOn] at ha
      simp only [updT_other' _ _ _ _ e] at ha
      rcases h.main v cv' hv ha with hp | ⟨u, hu, hus, huo⟩
      · exact Or.inl hp
      · have eu : u ≠ t := by rintro rfl; rw [hs] at hus; cases hus
        exact Or.inr ⟨u, hu, by simpa [updT_other' _ _ _ _ eu] using hus, by simpa [updT_other' _ _ _ _ eu] using huo⟩
  | sleep t cv m' timed ht hs hop =>
    have hw := h.wf t ht
    obtain ⟨hm, hholds⟩ := B.wait_m _ cv m' timed hw.1 hop
    subst hm
    have hht : B.holdingT (s.thr t) = true := by simp [holdingT, hs, hholds]
    have ho := h.own1 t ht hht
    refine ⟨?_, ?_, ?_, ?_, ?_⟩
    · intro u hu
      by_cases e : u = t
      · subst e; simp only [updT_same']; exact ⟨hw.1, rfl, timed, hop⟩
      · simpa [updT_other' _ _ _ _ e] using h.wf u hu
    · intro u hu hh
      by_cases e : u = t
      · subst e; simp [updT_same', holdingT] at hh
      · simp only [updT_other' _ _ _ _ e] at hh
        have := B.not_holding_of_other h ho u hu e
        rw [this] at hh; cases hh
    · intro u hu; simp [updT_same'] at hu
    · intro u cv' m'' timed' hu hsu hop'
      by_cases e : u = t
      · subst e; simp [updT_same'] at hsu
      · simp only [updT_other' _ _ _ _ e] at hsu hop'; exact h.about u cv' m'' timed' hu hsu hop'
    · intro v cv' hv ha
      by_cases e : v = t
      · subst e
        simp only [updT_same', isAsleepOn, beq_iff_eq] at ha
        subst ha
        exact Or.inl (h.about v cv m' timed hv hs hop)
      · simp only [updT_other' _ _ _ _ e] at ha
        rcases h.main v cv' hv ha with hp | ⟨u, hu, hus, huo⟩
        · exact Or.inl hp
        · have eu : u ≠ t := by
            rintro rfl
            exact (B.owe_active _ cv' hw.1 huo).1 cv m' timed hop
          exact Or.inr ⟨u, hu, by simpa [updT_other' _ _ _ _ eu] using hus, by simpa [updT_other' _ _ _ _ eu] using huo⟩
  | reacquire t m' timed to late ht hs hfree =>
    have hw := h.wf t ht
    have h2 := hw.2; rw [hs] at h2
    obtain ⟨hm, cv, timed', hop⟩ := h2
    subst hm
    have hH : holdsAfterOp P B.holds (s.thr t).loc = true := by simp [holdsAfterOp, hop]
    exact B.core s h t late ht (updT s.owner m' (some t)) s.thr (fun _ => rfl) (fun _ _ => Or.inl rfl)
      (fun _ => ⟨by simp [updT_same'], fun u hu _ => B.not_holding_of_free h hfree u hu⟩)
      (fun hf => by rw [hH] at hf; cases hf)
      (fun cv' hna => by rw [hop] at hna; cases hna)
  | lock t m' ht hs hop hfree =>
    have hw := h.wf t ht
    obtain ⟨hm, _⟩ := B.lock_m _ m' hw.1 hop
    subst hm
    have hH : holdsAfterOp P B.holds (s.thr t).loc = true := by simp [holdsAfterOp, hop]
    exact B.core s h t false ht (updT s.owner m' (some t)) s.thr (fun _ => rfl) (fun _ _ => Or.inl rfl)
      (fun _ => ⟨by simp [updT_same'], fun u hu _ => B.not_holding_of_free h hfree u hu⟩)
      (fun hf => by rw [hH] at hf; cases hf)
      (fun cv' hna => by rw [hop] at hna; cases hna)
  | unlock t m' ht hs hop =>
    have hw := h.wf t ht
    obtain ⟨hm, hholds⟩ := B.unlock_m _ m' hw.1 hop
    subst hm
    have hH : holdsAfterOp P B.holds (s.thr t).loc = false := by simp [holdsAfterOp, hop]
    have ho := h.own1 t ht (by simp [holdingT, hs, hholds])
    exact B.core s h t false ht (updT s.owner m' none) s.thr (fun _ => rfl) (fun _ _ => Or.inl rfl)
      (fun hf => by rw [hH] at hf; cases hf)
      (fun _ => Or.inr ⟨ho, by simp [updT_same']⟩)
      (fun cv' hna => by rw [hop] at hna; cases hna)
  | plain t ht hs hop =>
    have hH : holdsAfterOp P B.holds (s.thr t).loc = B.holds (s.thr t).loc := by
      rcases hop with e | e <;> simp [holdsAfterOp, e]
    obtain ⟨c1, c2⟩ := B.same_owner h t ht hs hH
    exact B.core s h t false ht s.owner s.thr (fun _ => rfl) (fun _ _ => Or.inl rfl) c1 c2
      (fun cv' hna => by rcases hop with e | e <;> rw [e] at hna <;> cases hna)
  | notifyNone t cv ht hs hop hno =>
    have hH : holdsAfterOp P B.holds (s.thr t).loc = B.holds (s.thr t).loc := by simp [holdsAfterOp, hop]
    obtain ⟨c1, c2⟩ := B.same_owner h t ht hs hH
    exact B.core s h t false ht s.owner s.thr (fun _ => rfl) (fun _ _ => Or.inl rfl) c1 c2
      (fun cv' hna => by rw [hop] at hna; cases hna)
  | notifyWake t cv u ht hs hop hu hsl =>
    have hH : holdsAfterOp P B.holds (s.thr t).loc = B.holds (s.thr t).loc := by simp [holdsAfterOp, hop]
    obtain ⟨c1, c2⟩ := B.same_owner h t ht hs hH
    obtain ⟨m', timed, hsu⟩ := asleep_status' hsl
    have hut : u ≠ t := by rintro rfl; rw [hs] at hsu; cases hsu
    have hcore := B.core s h t false ht s.owner (updT s.thr u (wakeT (s.thr u) false))
      (fun w => by
        by_cases e : w = u
        · subst e; simp [updT_same', wakeT_loc']
        · simp [updT_other' _ _ _ _ e])
      (fun w _ => by
        by_cases e : w = u
        · subst e
          exact Or.inr ⟨cv, m', timed, false, hsu, by simp [updT_same', wakeT, hsu]⟩
        · exact Or.inl (by simp [updT_other' _ _ _ _ e]))
      c1 c2 (fun cv' hna => by rw [hop] at hna; cases hna)
    have et : updT s.thr u (wakeT (s.thr u) false) t = s.thr t := updT_other' _ _ _ _ (Ne.symm hut)
    show B.Inv (runAfter P _ t false)
    unfold runAfter
    simp only [et]
    exact hcore
  | notifyAll t cv ht hs hop =>
    have hH : holdsAfterOp P B.holds (s.thr t).loc = B.holds (s.thr t).loc := by simp [holdsAfterOp, hop]
    obtain ⟨c1, c2⟩ := B.same_owner h t ht hs hH
    have hta : isAsleepOn cv (s.thr t) = false := by simp [isAsleepOn, hs]
    have et : wakeAll cv s.thr t = s.thr t := by simp [wakeAll, hta]
    have hcore := B.core s h t false ht s.owner (wakeAll cv s.thr)
      (fun w => by unfold wakeAll; split <;> simp [wakeT_loc'])
      (fun w _ => by
        cases ha : isAsleepOn cv (s.thr w) with
        | false => exact Or.inl (by simp [wakeAll, ha])
        | true =>
          obtain ⟨m', timed, hsw⟩ := asleep_status' ha
          exact Or.inr ⟨cv, m', timed, false, hsw, by simp [wakeAll, ha, wakeT, hsw]⟩)
      c1 c2
      (fun cv' hna w hw _ => by
        rw [hop] at hna
        cases hna
        cases ha : isAsleepOn cv (s.thr w) with
        | false => simp [wakeAll, ha]
        | true =>
          obtain ⟨m', timed, hsw⟩ := asleep_status' ha
          simp [wakeAll, ha, wakeT, hsw, isAsleepOn])
    show B.Inv (runAfter P _ t false)
    unfold runAfter
    simp only [et]
    exact hcore

/-- **The broadcast-discipline theorem.**  From any state that satisfies the invariant (in particular an initial state in
which nobody holds the mutex and nobody sleeps), after EVERY schedule: every sleeper's predicate is false or some ready
thread still owes the broadcast. -/
theorem inv_run (s : State D L) (h : B.Inv s) (sched : List Choice) : B.Inv (run P s sched) :=
  inv_of_tr P B.Inv B.inv_tr sched s h

/-- an initial state: everybody ready, nobody holds the mutex -/
theorem inv_init (s : State D L) (hr : ∀ t, t < s.n → (s.thr t).status = .ready ∧ B.wfL (s.thr t).loc ∧ B.holds (s.thr t).loc = false)
    (hw : ∀ t cv m' timed, t < s.n → P.op (s.thr t).loc ≠ .wait cv m' timed) (ho : s.owner m = none) : B.Inv s := by
  refine ⟨?_, ?_, ?_, ?_, ?_⟩
  · intro t ht; obtain ⟨h1, h2, _⟩ := hr t ht; exact ⟨h2, by rw [h1]; trivial⟩
  · intro t ht hh; obtain ⟨h1, _, h3⟩ := hr t ht; simp [holdingT, h1, h3] at hh
  · intro t h1; rw [ho] at h1; cases h1
  · intro t cv m' timed ht _ hop; exact absurd hop (hw t cv m' timed ht)
  · intro t cv ht ha; obtain ⟨h1, _, _⟩ := hr t ht; simp [isAsleepOn, h1] at ha

/-- **No lost wake-up, generically**: in a dead-locked reachable state every sleeper's wait predicate is false. -/
theorem deadlocked_sleepers (s : State D L) (h : B.Inv s) (hd : Deadlocked P s) (t : Tid) (cv : CvId) (ht : t < s.n)
    (ha : isAsleepOn cv (s.thr t) = true) : B.pred cv s.data = false := by
  have hfree : s.owner m = none := by
    cases ho : s.owner m with
    | none => rfl
    | some u =>
      obtain ⟨hu, hh⟩ := h.own2 u ho
      have hdu := hd u hu
      unfold holdingT at hh
      cases hst : (s.thr u).status with
      | ready =>
        rw [hst] at hh
        have hw := (h.wf u hu).1
        simp only [enabled, hst] at hdu
        cases hop : P.op (s.thr u).loc with
        | lock m' => have := (B.lock_m _ m' hw hop).2; rw [this] at hh; cases hh
        | done => have := B.done_free _ hw hop; rw [this] at hh; cases hh
        | start => rw [hop] at hdu; cases hdu
        | unlock _ => rw [hop] at hdu; cases hdu
        | wait _ _ _ => rw [hop] at hdu; cases hdu
        | notifyOne _ => rw [hop] at hdu; cases hdu
        | notifyAll _ => rw [hop] at hdu; cases hdu
        | yield => rw [hop] at hdu; cases hdu
      | asleep _ _ _ => rw [hst] at hh; cases hh
      | woken _ _ _ => rw [hst] at hh; cases hh
  rcases h.main t cv ht ha with hp | ⟨u, hu, hus, huo⟩
  · exact hp
  · exfalso
    have hdu := hd u hu
    have hw := (h.wf u hu).1
    obtain ⟨nw, nd⟩ := B.owe_active _ cv hw huo
    simp only [enabled, hus] at hdu
    cases hop : P.op (s.thr u).loc with
    | lock m' =>
      rw [hop] at hdu
      have := (B.lock_m _ m' hw hop).1
      subst this
      simp [hfree] at hdu
    | done => exact nd hop
    | wait c m' timed => exact nw c m' timed hop
    | start => rw [hop] at hdu; cases hdu
    | unlock _ => rw [hop] at hdu; cases hdu
    | notifyOne _ => rw [hop] at hdu; cases hdu
    | notifyAll _ => rw [hop] at hdu; cases hdu
    | yield => rw [hop] at hdu; cases hdu

end Broadcast
end Iora.Monitor
