import IoraModel.Model.RingThrow
import IoraModel.Lemmas.RingBuffer
/-!
# What the rings do when an element assignment throws (Model/RingThrow.lean)
-/
namespace Iora.RingT
open Iora.Ring

theorem throwsAt_zero (n : Nat) : throwsAt 0 n = none := by simp [throwsAt]

/-- operations as data (the `arm` of each call travels with it) -/
inductive TOp
  | push (x : Cell) | pop | peek | pushBatch (xs : List Cell) | popBatch (n : Nat) | resize (n : UInt64)
  deriving Repr

def stepT (r : Ring Cell) (arm : Nat) : TOp → Ring Cell × Res
  | .push x => tryPush r arm x
  | .pop => tryPop r arm
  | .peek => peek r arm
  | .pushBatch xs => tryPushBatch r arm xs
  | .popBatch n => tryPopBatch r arm n
  | .resize n => resize r arm n

def isThrow : Res → Bool
  | .threw _ _ => true
  | .ok _ => false

/-- **count stays consistent**: a call that throws leaves `_head`, `_tail`, `_capacity` and `_mask` exactly as they were
(the store after the copy loop is not reached and nothing else writes them) -/
theorem throw_keeps_counters (r : Ring Cell) (arm : Nat) (o : TOp) (h : isThrow (stepT r arm o).2 = true) :
    (stepT r arm o).1.head = r.head ∧ (stepT r arm o).1.tail = r.tail ∧
    (stepT r arm o).1.cap = r.cap ∧ (stepT r arm o).1.mask = r.mask := by
  cases o <;> simp only [stepT, tryPush, tryPop, RingT.peek, tryPushBatch, tryPopBatch, resize] at h ⊢ <;>
    (repeat' split) <;> simp_all [isThrow]

/-- **single-element calls are strongly exception safe**: a throwing `tryPush` / `tryPop` / `peek` changes nothing at all -/
theorem single_item_throw_unchanged (r : Ring Cell) (arm : Nat) (x : Cell) :
    (isThrow (tryPush r arm x).2 = true → (tryPush r arm x).1 = r) ∧
    (isThrow (tryPop r arm).2 = true → (tryPop r arm).1 = r) ∧
    (isThrow (RingT.peek r arm).2 = true → (RingT.peek r arm).1 = r) := by
  refine ⟨?_, ?_, ?_⟩
  · intro h
    simp only [tryPush] at h ⊢
    split
    · rfl
    · split
      · rfl
      · rename_i h1 _ h2; simp [h1, h2, isThrow] at h
  · intro h
    simp only [tryPop] at h ⊢
    split
    · rfl
    · split
      · rfl
      · rename_i h1 _ h2; simp [h1, h2, isThrow] at h
  · intro h
    simp only [RingT.peek] at h ⊢
    split
    · rfl
    · split
      · rfl
      · rfl

/-- **a throwing `tryPushBatch` publishes nothing**: the items already copied sit beyond `_head`; the FIFO content the
ring stands for is unchanged -/
theorem pushBatch_throw_content (r : Ring Cell) (h : WF r) (arm : Nat) (xs : List Cell)
    (ho : r.head.toNat + xs.length < 2 ^ 64) (ht : isThrow (tryPushBatch r arm xs).2 = true) :
    abs (tryPushBatch r arm xs).1 = abs r := by
  simp only [tryPushBatch] at ht ⊢
  have hle := h.le
  have hb := h.bound
  have hav := avail_toNat h
  generalize htp : (if xs.length < (r.cap - (r.head - r.tail)).toNat then xs.length else (r.cap - (r.head - r.tail)).toNat) = toPush at *
  have htp1 : toPush ≤ xs.length ∧ toPush ≤ r.cap.toNat - (r.head.toNat - r.tail.toNat) := by
    rw [← htp, hav]; split <;> omega
  by_cases harm : 0 < arm ∧ arm ≤ toPush
  · have hk : throwsAt arm toPush = some (arm - 1) := by simp [throwsAt, harm]
    simp only [hk]
    have hw : WF ({ r with buf := writeFrom r r.buf 0 (xs.take (arm - 1)) } : Ring Cell) := ⟨h.pow, h.mask, h.le, h.bound⟩
    rw [abs_eq hw, abs_eq h]
    show Fifo.mk _ (contentOf (writeFrom r r.buf 0 (xs.take (arm - 1))) _ _ _) = _
    congr 1
    have hlen : (xs.take (arm - 1)).length = arm - 1 := by
      rw [List.length_take]; omega
    have hroom : (r.head.toNat - r.tail.toNat) + 0 + (xs.take (arm - 1)).length ≤ r.cap.toNat := by
      rw [hlen]; omega
    have e := contentOf_writeFrom h r.tail.toNat (r.head.toNat - r.tail.toNat) (by omega) (xs.take (arm - 1)) r.buf 0 hroom
      (by rw [hlen]; omega)
    have e2 := congrArg (List.take (r.head.toNat - r.tail.toNat)) e
    rw [Nat.add_zero, contentOf_take _ _ _ _ _ (by omega), List.take_left' (contentOf_length _ _ _ _)] at e2
    exact e2
  · have hk : throwsAt arm toPush = none := by simp [throwsAt, harm]
    simp [hk, isThrow] at ht

/-- the strong guarantee one would like for the batch consumer and for `resize`: after an exception the ring still
stands for the same FIFO content -/
def strong_guarantee_statement : Prop :=
  ∀ (r : Ring Cell) (arm : Nat) (o : TOp), WF r → isThrow (stepT r arm o).2 = true → abs (stepT r arm o).1 = abs r

/-- a 4-slot ring holding 1,2,3,4 -/
def four : Ring Cell := (Ring.tryPushBatch (mkStatic none 4) [some 1, some 2, some 3, some 4]).2

theorem four_wf : WF four := ⟨⟨2, by decide, by decide⟩, by decide, by decide, by decide⟩

/-- **what the code does instead** (`tryPopBatch`): the third move throws - items 1 and 2 are in the caller's array, their
slots are husks, `_tail` still counts them: the next two `tryPop`s return moved-from elements -/
theorem popBatch_throw_witness :
    let r1 := (tryPopBatch four 3 4).1
    (tryPopBatch four 3 4).2 = .threw 2 [some 1, some 2] ∧
    (abs r1).items = [none, none, some 3, some 4] ∧
    (tryPop r1 0).2 = .ok (.item (some none)) := by
  decide

/-- (`resize`): the third move throws - items 1 and 2 went into the abandoned new buffer and are LOST, two husks are
still counted as items -/
theorem resize_throw_witness :
    let r1 := (resize four 3 8).1
    (resize four 3 8).2 = .threw 2 [] ∧ r1.cap = 4 ∧ (abs r1).items = [none, none, some 3, some 4] := by
  decide

theorem strong_guarantee_refuted : ¬ strong_guarantee_statement := by
  intro h
  have := h four 3 (.popBatch 4) four_wf (by decide)
  have e : (abs (stepT four 3 (.popBatch 4)).1).items = (abs four).items := by rw [this]
  revert e
  decide

/-- with nothing armed the calls are the plain ring calls (same answers, same counters; `tryPop`/`tryPopBatch`
additionally leave husks in the slots they have released) -/
theorem unarmed_agrees (r : Ring Cell) (x : Cell) (xs : List Cell) (n : Nat) (m : UInt64) :
    tryPush r 0 x = ((Ring.tryPush r x).2, .ok (.bool (Ring.tryPush r x).1)) ∧
    tryPushBatch r 0 xs = ((Ring.tryPushBatch r xs).2, .ok (.count (Ring.tryPushBatch r xs).1)) ∧
    (tryPopBatch r 0 n).2 = .ok (.items (Ring.tryPopBatch r n).1) ∧
    (tryPopBatch r 0 n).1.tail = (Ring.tryPopBatch r n).2.tail ∧
    (tryPop r 0).2 = .ok (.item (Ring.tryPop r).1) ∧ (tryPop r 0).1.tail = (Ring.tryPop r).2.tail ∧
    resize r 0 m = ((Ring.resize r m).2, .ok (.count (Ring.resize r m).1.toNat)) := by
  refine ⟨?_, ?_, ?_, ?_, ?_, ?_, ?_⟩
  · simp only [tryPush, Ring.tryPush, throwsAt_zero]; split <;> rfl
  · simp only [tryPushBatch, Ring.tryPushBatch, throwsAt_zero]
  · simp only [tryPopBatch, Ring.tryPopBatch, throwsAt_zero]
  · simp only [tryPopBatch, Ring.tryPopBatch, throwsAt_zero]
  · simp only [tryPop, Ring.tryPop, throwsAt_zero]; split <;> rfl
  · simp only [tryPop, Ring.tryPop, throwsAt_zero]; split <;> rfl
  · simp only [resize, throwsAt_zero]

end Iora.RingT
