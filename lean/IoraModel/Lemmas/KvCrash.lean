import IoraModel.Lemmas.KvFiles
/-! Crash images of the store's directory (D3) and recovery from them (D4). -/
namespace Iora.Kv
open Iora

/-! ## directories a crash can leave -/

/-- complete snapshot (or none), complete records, then possibly a strict prefix of one more record; `<path>.tmp` arbitrary -/
structure TornDurable (cfg : Cfg) (img : Fs) (ents : List (Key × Val × Option Int)) (rs : List Rec) (p : Bytes) : Prop where
  snap : (img.snap = none ∧ ents = []) ∨ img.snap = some (encodeSnap cfg.lim ents)
  entsWF : ∀ x ∈ ents, EntWF cfg.lim x
  count : ents.length ≤ cfg.lim.snapCountMax
  log : img.log = some (rs.flatMap (encode cfg.crc) ++ p)
  recsWF : ∀ r ∈ rs, r.WF cfg.lim
  torn : p = [] ∨ ∃ r q, r.WF cfg.lim ∧ p ++ q = encode cfg.crc r ∧ q ≠ []

theorem Durable.torn (cfg : Cfg) (fs : Fs) (ents : List (Key × Val × Option Int)) (rs : List Rec) (h : Durable cfg fs ents rs) :
    TornDurable cfg fs ents rs [] :=
  ⟨h.snap, h.entsWF, h.count, by simp [h.log], h.recsWF, .inl rfl⟩

/-- `tmp` is never read -/
theorem TornDurable.setTmp (cfg : Cfg) (img : Fs) (ents : List (Key × Val × Option Int)) (rs : List Rec) (p : Bytes)
    (h : TornDurable cfg img ents rs p) (d : Option Bytes) : TornDurable cfg (img.set .tmp d) ents rs p :=
  ⟨h.snap, h.entsWF, h.count, h.log, h.recsWF, h.torn⟩

theorem openStore_torn (cfg : Cfg) (hl : cfg.lim.OK) (img : Fs) (ents : List (Key × Val × Option Int)) (rs : List Rec) (p : Bytes)
    (hd : TornDurable cfg img ents rs p) (now : Int) :
    openStore cfg.lim cfg.crc img now
      = .ok (sweep now (rep cfg.lim ents rs), if p = [] then [] else [.trunc .log (rs.flatMap (encode cfg.crc)).length]) := by
  unfold openStore
  have hsnap : loadSnapOpt cfg.lim img.snap = .ok (snapState ents) := by
    rcases hd.snap with ⟨h1, h2⟩ | h1
    · rw [h1, h2]; rfl
    · rw [h1]; exact loadSnap_ok cfg.lim hl ents hd.entsWF hd.count
  rw [hsnap, hd.log]
  simp only
  by_cases hp : p = []
  · subst hp
    rw [List.append_nil, replayLoop_records_all cfg.lim hl cfg.crc rs hd.recsWF]
    simp [rep]
  · rcases hd.torn with h | ⟨r, q, hr, hpq, hq⟩
    · exact absurd h hp
    · rw [replayLoop_records_torn cfg.lim hl cfg.crc rs hd.recsWF r hr p q hpq hq]
      have hlen : 0 < p.length := by
        cases p with
        | nil => exact absurd rfl hp
        | cons a b => simp
      simp [rep, hp]

end Iora.Kv

namespace Iora.Kv
open Iora

/-- **recovery (D4 core).** A new process on any such directory: the constructor succeeds, cuts the torn tail, and the new
store satisfies the full invariant again — so everything proved about histories (refinement, restart, crash safety) applies
to what follows, for any number of crash/recovery generations.  Its memory is the swept replay of the complete part. -/
theorem open_torn (cfg : Cfg) (hl : cfg.lim.OK) (img : Fs) (ents : List (Key × Val × Option Int)) (rs : List Rec) (p : Bytes)
    (hd : TornDurable cfg img ents rs p) (t : Int) (ht : 0 < t) (m0 : Mem) :
    (opOpen cfg { mem := m0, fs := img, tr := [], now := t }).2 = .ok ∧
    Inv cfg (opOpen cfg { mem := m0, fs := img, tr := [], now := t }).1 ∧
    (opOpen cfg { mem := m0, fs := img, tr := [], now := t }).1.now = t ∧
    (∀ k, (opOpen cfg { mem := m0, fs := img, tr := [], now := t }).1.mem.look k = (sweep t (rep cfg.lim ents rs)).look k) := by
  unfold opOpen
  rw [openStore_torn cfg hl img ents rs p hd t]
  simp only
  have hli : LInv (sweep t (rep cfg.lim ents rs)) :=
    LInv.sweep _ _ (LInv.foldl cfg.lim rs hd.recsWF _ (LInv.snapState cfg.lim ents hd.entsWF))
  have hlo : LOK cfg.lim (sweep t (rep cfg.lim ents rs)) :=
    LOK.sweep _ _ _ (LOK.foldl cfg.lim hl rs hd.recsWF _ (LOK.snapState cfg.lim hl ents hd.entsWF))
  -- the directory after the constructor
  have hfs : Durable cfg ((if p = [] then [] else [FsOp.trunc .log (rs.flatMap (encode cfg.crc)).length]).foldl W.emit
      ({ mem := m0, fs := img, tr := [], now := t } : W)).fs ents rs := by
    by_cases hp : p = []
    · subst hp
      simp only [↓reduceIte, List.foldl_nil]
      exact ⟨hd.snap, hd.entsWF, hd.count, by simpa using hd.log, hd.recsWF⟩
    · simp only [hp, ↓reduceIte, List.foldl_cons, List.foldl_nil, W.emit, FsOp.apply, Fs.get, hd.log, Option.getD_some]
      refine ⟨by simpa [Fs.set] using hd.snap, hd.entsWF, hd.count, ?_, hd.recsWF⟩
      simp [Fs.set, List.take_left']
  have hnow : ((if p = [] then [] else [FsOp.trunc .log (rs.flatMap (encode cfg.crc)).length]).foldl W.emit
      ({ mem := m0, fs := img, tr := [], now := t } : W)).now = t := by
    by_cases hp : p = [] <;> simp [hp, W.emit]
  refine ⟨trivial, ⟨MemInv.memOfLoad _ _ hli, ⟨by rw [hnow]; exact ht, hlo.valid, ?_, hli.nodupKv, ?_⟩, fun _ => rfl⟩, hnow, ?_⟩
  · intro k e hg; exact hlo.plaus k e.at_ (memOfLoad_exp _ _ k e hg)
  · refine ⟨ents, rs, hfs, ?_⟩
    intro k
    show Eqv _ _ ((memOfLoad _ _).look k)
    rw [look_memOfLoad, hnow]
    exact (sweep_eqv t (rep cfg.lim ents rs) k).symm
  · intro k
    show (memOfLoad _ _).look k = _
    rw [look_memOfLoad]

end Iora.Kv

namespace Iora.Kv
open Iora

/-! ## crash images, compositionally -/

theorem applyAll_append (fs : Fs) (a b : List FsOp) : applyAll fs (a ++ b) = applyAll (applyAll fs a) b := by
  simp [applyAll, List.foldl_append]

theorem isCrashImage_nil (fs img : Fs) (h : IsCrashImage fs [] img) : img = fs := by
  obtain ⟨pre, post, he, h⟩ := h
  have hh := List.append_eq_nil_iff.mp he.symm
  obtain ⟨h1, h2⟩ := hh
  subst h1 h2
  rcases h with h | ⟨f, bs, rest, p, q, hp, _, _⟩
  · simpa [applyAll] using h
  · cases hp

theorem isCrashImage_append (fs : Fs) (a b : List FsOp) (img : Fs) (h : IsCrashImage fs (a ++ b) img) :
    IsCrashImage fs a img ∨ IsCrashImage (applyAll fs a) b img := by
  obtain ⟨pre, post, he, h⟩ := h
  rcases List.append_eq_append_iff.mp he with ⟨a', h1, h2⟩ | ⟨c', h1, h2⟩
  · -- pre = a ++ a', b = a' ++ post: the crash is inside `b`
    right
    refine ⟨a', post, h2, ?_⟩
    rw [h1, applyAll_append] at h
    exact h
  · -- a = pre ++ c', post = c' ++ b
    cases c' with
    | nil =>
      right
      simp only [List.append_nil] at h1
      simp only [List.nil_append] at h2
      subst h1 h2
      exact ⟨[], post, rfl, by simpa [applyAll] using h⟩
    | cons o c' =>
      left
      refine ⟨pre, o :: c', h1, ?_⟩
      rcases h with h | ⟨f, bs, rest, p, q, hp, hb, hi⟩
      · exact .inl h
      · right
        rw [h2] at hp
        simp only [List.cons_append, List.cons.injEq] at hp
        exact ⟨f, bs, c', p, q, by rw [hp.1], hb, hi⟩

/-- the images of a single operation: not started, done, or (for a write) cut at a byte -/
theorem isCrashImage_single (fs : Fs) (o : FsOp) (img : Fs) (h : IsCrashImage fs [o] img) :
    img = fs ∨ img = o.apply fs ∨ ∃ f bs p q, o = .append f bs ∧ bs = p ++ q ∧ img = (FsOp.append f p).apply fs := by
  obtain ⟨pre, post, he, h⟩ := h
  cases pre with
  | nil =>
    simp only [List.nil_append] at he
    subst he
    rcases h with h | ⟨f, bs, rest, p, q, hp, hb, hi⟩
    · left; simpa [applyAll] using h
    · right; right
      simp only [List.cons.injEq] at hp
      exact ⟨f, bs, p, q, hp.1, hb, by simpa [applyAll] using hi⟩
  | cons x pre =>
    have h1 : pre = [] ∧ post = [] := by
      have hlen := congrArg List.length he
      simp only [List.length_cons, List.length_nil, List.length_append] at hlen
      constructor
      · apply List.eq_nil_of_length_eq_zero; omega
      · apply List.eq_nil_of_length_eq_zero; omega
    obtain ⟨hp1, hp2⟩ := h1
    subst hp1 hp2
    simp only [List.append_nil, List.cons.injEq, and_true] at he
    subst he
    rcases h with h | ⟨f, bs, rest, p, q, hp, _, _⟩
    · right; left; simpa [applyAll] using h
    · cases hp

/-- the executable enumeration of the driver produces crash images -/
theorem crashImage_is (fs : Fs) (ops : List FsOp) (k cut : Nat) : IsCrashImage fs ops (crashImage fs ops k cut) := by
  unfold crashImage
  refine ⟨ops.take k, ops.drop k, (List.take_append_drop k ops).symm, ?_⟩
  cases hd : ops.drop k with
  | nil => exact .inl rfl
  | cons o rest =>
    cases o with
    | append f bs =>
      right
      exact ⟨f, bs, rest, bs.take cut, bs.drop cut, rfl, (List.take_append_drop cut bs).symm, rfl⟩
    | trunc f n => exact .inl rfl
    | rename a b => exact .inl rfl

/-! ## admissible crash images -/

/-- every crash image of `tr` issued on `fs` is a directory the constructor recovers from, and what it replays to shows,
for every key, `old` or `new` (to every reader from `now` on) -/
def CrashAdm (cfg : Cfg) (now : Int) (fs : Fs) (tr : List FsOp) (old new : Key → Option Ent) : Prop :=
  ∀ img, IsCrashImage fs tr img → ∃ ents rs p, TornDurable cfg img ents rs p ∧
    ∀ k, Eqv now ((rep cfg.lim ents rs).look k) (old k) ∨ Eqv now ((rep cfg.lim ents rs).look k) (new k)

theorem CrashAdm.nil (cfg : Cfg) (now : Int) (fs : Fs) (ents : List (Key × Val × Option Int)) (rs : List Rec)
    (hd : Durable cfg fs ents rs) (old new : Key → Option Ent)
    (h : ∀ k, Eqv now ((rep cfg.lim ents rs).look k) (old k) ∨ Eqv now ((rep cfg.lim ents rs).look k) (new k)) :
    CrashAdm cfg now fs [] old new := by
  intro img hi
  rw [isCrashImage_nil fs img hi]
  exact ⟨ents, rs, [], hd.torn, h⟩

theorem CrashAdm.append (cfg : Cfg) (now : Int) (fs : Fs) (a b : List FsOp) (old new : Key → Option Ent)
    (h1 : CrashAdm cfg now fs a old new) (h2 : CrashAdm cfg now (applyAll fs a) b old new) :
    CrashAdm cfg now fs (a ++ b) old new := by
  intro img hi
  rcases isCrashImage_append fs a b img hi with h | h
  · exact h1 img h
  · exact h2 img h

theorem CrashAdm.mono (cfg : Cfg) (now : Int) (fs : Fs) (tr : List FsOp) (old new old' new' : Key → Option Ent)
    (h : CrashAdm cfg now fs tr old' new')
    (ho : ∀ k, Eqv now (old' k) (old k) ∨ Eqv now (old' k) (new k))
    (hn : ∀ k, Eqv now (new' k) (old k) ∨ Eqv now (new' k) (new k)) : CrashAdm cfg now fs tr old new := by
  intro img hi
  obtain ⟨ents, rs, p, hd, hk⟩ := h img hi
  refine ⟨ents, rs, p, hd, fun k => ?_⟩
  rcases hk k with h1 | h1
  · rcases ho k with h2 | h2
    · exact .inl (h1.trans h2)
    · exact .inr (h1.trans h2)
  · rcases hn k with h2 | h2
    · exact .inl (h1.trans h2)
    · exact .inr (h1.trans h2)

end Iora.Kv

namespace Iora.Kv
open Iora

/-! ## the two units of I/O: one log record, one compaction -/

/-- a crash while one record is being appended: the old directory (with a torn tail) or the new one -/
theorem CrashAdm.rec (cfg : Cfg) (now : Int) (fs : Fs) (ents : List (Key × Val × Option Int)) (rs : List Rec)
    (hd : Durable cfg fs ents rs) (r : Rec) (hr : r.WF cfg.lim) (old new : Key → Option Ent)
    (hold : ∀ k, Eqv now ((rep cfg.lim ents rs).look k) (old k))
    (hnew : ∀ k, Eqv now ((rep cfg.lim ents (rs ++ [r])).look k) (new k)) :
    CrashAdm cfg now fs [.append .log (encode cfg.crc r)] old new := by
  intro img hi
  rcases isCrashImage_single fs _ img hi with h | h | ⟨f, bs, p, q, ho, hb, h⟩
  · subst h; exact ⟨ents, rs, [], hd.torn, fun k => .inl (hold k)⟩
  · subst h
    exact ⟨ents, rs ++ [r], [], (Durable.append cfg fs ents rs hd r hr).torn, fun k => .inr (hnew k)⟩
  · simp only [FsOp.append.injEq] at ho
    obtain ⟨hf, hbs⟩ := ho
    subst hf
    by_cases hq : q = []
    · subst hq
      simp only [List.append_nil] at hb
      subst hb
      rw [← hbs] at h
      subst h
      exact ⟨ents, rs ++ [r], [], (Durable.append cfg fs ents rs hd r hr).torn, fun k => .inr (hnew k)⟩
    · subst h
      refine ⟨ents, rs, p, ⟨by simpa [FsOp.apply, Fs.set] using hd.snap, hd.entsWF, hd.count, ?_, hd.recsWF,
        .inr ⟨r, q, hr, by rw [← hb, hbs], hq⟩⟩, fun k => .inl (hold k)⟩
      simp [FsOp.apply, Fs.set, Fs.get, hd.log]

/-- the file operations of `compactLocked` -/
def compOps (cfg : Cfg) (w : W) : List FsOp :=
  [.trunc .tmp 0, .append .tmp (encodeSnap cfg.lim (survivors w.mem w.now)), .rename .tmp .snap, .trunc .log 0]

theorem compactLocked_tr (cfg : Cfg) (w : W) : (compactLocked cfg w).tr = w.tr ++ compOps cfg w := by
  simp [compactLocked, W.emit, compOps]

theorem compact_look_eq_live (cfg : Cfg) (w : W) (k : Key) :
    (compactLocked cfg w).mem.look k = live w.now (w.mem.look k) := by
  rw [look_compact, live_look_eq]
  cases hx : w.mem.expired w.now k with
  | true => simp
  | false =>
    simp only [Bool.false_eq_true, ↓reduceIte, Bool.not_false, Bool.and_true]
    cases hh : w.mem.kv.has k with
    | true => rfl
    | false => simp [look_none_of_not_has _ _ hh]

/-- a crash anywhere inside a compaction — temp file partly or fully written, renamed over the snapshot but the log not
yet reset (the old log is then replayed over the new snapshot: idempotent), or after the reset — loses and resurrects nothing -/
theorem CrashAdm.comp (cfg : Cfg) (w : W) (hf : FInv cfg w) (hc : w.mem.kv.length ≤ cfg.lim.snapCountMax) :
    CrashAdm cfg w.now w.fs (compOps cfg w) w.mem.look w.mem.look := by
  obtain ⟨ents, rs, hd, he⟩ := hf.file
  have hsw := survivors_wf cfg w hf
  have hsl : (survivors w.mem w.now).length ≤ cfg.lim.snapCountMax := by
    have := survivors_length w.mem w.now; omega
  -- what the new snapshot replays to, alone and under the old log
  have hnew0 : ∀ k, (snapState (survivors w.mem w.now)).look k = live w.now (w.mem.look k) := by
    intro k; rw [look_snapState_survivors cfg w hf.nodup k, compact_look_eq_live]
  have hnew1 : ∀ k, Eqv w.now ((rep cfg.lim (survivors w.mem w.now) rs).look k) (w.mem.look k) := by
    intro k
    have h1 : (rep cfg.lim (survivors w.mem w.now) rs).look k
        = foldKey cfg.lim k rs (live w.now (foldKey cfg.lim k rs ((snapState ents).look k))) := by
      simp only [rep]
      rw [look_foldl_applyRec, hnew0 k]
      have h2 := (Eqv_iff _ _ _).mp (he k)
      simp only [rep] at h2
      rw [look_foldl_applyRec] at h2
      rw [h2]
    rw [h1]
    have h3 := he k
    simp only [rep] at h3
    rw [look_foldl_applyRec] at h3
    exact (foldKey_idem cfg.lim k rs hd.recsWF w.now _).trans h3
  have told : ∀ (t : Option Bytes), ∃ ents' rs' p, TornDurable cfg (w.fs.set .tmp t) ents' rs' p ∧
      ∀ k, Eqv w.now ((rep cfg.lim ents' rs').look k) (w.mem.look k) ∨ Eqv w.now ((rep cfg.lim ents' rs').look k) (w.mem.look k) :=
    fun t => ⟨ents, rs, [], (hd.torn).setTmp _ _ _ _ _ t, fun k => .inl (he k)⟩
  intro img hi
  unfold compOps at hi
  have hsplit : ([FsOp.trunc .tmp 0, .append .tmp (encodeSnap cfg.lim (survivors w.mem w.now)), .rename .tmp .snap, .trunc .log 0] : List FsOp)
      = [FsOp.trunc .tmp 0] ++ ([FsOp.append .tmp (encodeSnap cfg.lim (survivors w.mem w.now))] ++ ([FsOp.rename .tmp .snap] ++ [FsOp.trunc .log 0])) := rfl
  rw [hsplit] at hi
  rcases isCrashImage_append _ _ _ _ hi with h | hi
  · -- before / after `open(tmp, O_TRUNC)`
    rcases isCrashImage_single _ _ _ h with h | h | ⟨f, bs, p, q, ho, _, _⟩
    · subst h
      exact ⟨ents, rs, [], hd.torn, fun k => .inl (he k)⟩
    · subst h; exact told _
    · cases ho
  · rcases isCrashImage_append _ _ _ _ hi with h | hi
    · -- the snapshot is being written into the temp file
      rcases isCrashImage_single _ _ _ h with h | h | ⟨f, bs, p, q, ho, _, h⟩
      · subst h; exact told _
      · subst h
        have : (FsOp.append .tmp (encodeSnap cfg.lim (survivors w.mem w.now))).apply (applyAll w.fs [FsOp.trunc .tmp 0])
            = w.fs.set .tmp (some (encodeSnap cfg.lim (survivors w.mem w.now))) := by
          simp [applyAll, FsOp.apply, Fs.set, Fs.get]
        rw [this]; exact told _
      · simp only [FsOp.append.injEq] at ho
        obtain ⟨hf', _⟩ := ho
        subst hf' h
        have : (FsOp.append .tmp p).apply (applyAll w.fs [FsOp.trunc .tmp 0]) = w.fs.set .tmp (some p) := by
          simp [applyAll, FsOp.apply, Fs.set, Fs.get]
        rw [this]; exact told _
    · have hfs2 : applyAll (applyAll w.fs [FsOp.trunc .tmp 0]) [FsOp.append .tmp (encodeSnap cfg.lim (survivors w.mem w.now))]
          = w.fs.set .tmp (some (encodeSnap cfg.lim (survivors w.mem w.now))) := by
        simp [applyAll, FsOp.apply, Fs.set, Fs.get]
      rw [hfs2] at hi
      have hren : (FsOp.rename .tmp .snap).apply (w.fs.set .tmp (some (encodeSnap cfg.lim (survivors w.mem w.now))))
          = { snap := some (encodeSnap cfg.lim (survivors w.mem w.now)), log := w.fs.log, tmp := none } := by
        simp [FsOp.apply, Fs.set, Fs.get]
      -- renamed, log not yet reset: new snapshot + old log
      have tren : ∃ ents' rs' p, TornDurable cfg { snap := some (encodeSnap cfg.lim (survivors w.mem w.now)), log := w.fs.log, tmp := none } ents' rs' p ∧
          ∀ k, Eqv w.now ((rep cfg.lim ents' rs').look k) (w.mem.look k) ∨ Eqv w.now ((rep cfg.lim ents' rs').look k) (w.mem.look k) :=
        ⟨survivors w.mem w.now, rs, [], ⟨.inr rfl, hsw, hsl, by simp [hd.log], hd.recsWF, .inl rfl⟩, fun k => .inl (hnew1 k)⟩
      rcases isCrashImage_append _ _ _ _ hi with h | hi
      · rcases isCrashImage_single _ _ _ h with h | h | ⟨f, bs, p, q, ho, _, _⟩
        · subst h; exact told _
        · subst h; rw [hren]; exact tren
        · cases ho
      · have : applyAll (w.fs.set .tmp (some (encodeSnap cfg.lim (survivors w.mem w.now)))) [FsOp.rename .tmp .snap]
            = { snap := some (encodeSnap cfg.lim (survivors w.mem w.now)), log := w.fs.log, tmp := none } := by
          simp only [applyAll, List.foldl_cons, List.foldl_nil]; exact hren
        rw [this] at hi
        rcases isCrashImage_single _ _ _ hi with h | h | ⟨f, bs, p, q, ho, _, _⟩
        · subst h; exact tren
        · subst h
          refine ⟨survivors w.mem w.now, [], [], ⟨.inr ?_, hsw, hsl, ?_, by simp, .inl rfl⟩, fun k => .inl ?_⟩
          · simp [FsOp.apply, Fs.set]
          · simp [FsOp.apply, Fs.set, Fs.get]
          · simp only [rep, List.foldl_nil]
            rw [hnew0 k]
            exact Eqv.live_left w.now _
        · cases ho

end Iora.Kv

namespace Iora.Kv
open Iora

/-! ## traces of the primitives -/

@[simp] theorem writeLog_tr (cfg : Cfg) (w : W) (r : Rec) :
    (writeLog cfg w r).tr = w.tr ++ [.append .log (encode cfg.crc r)] := rfl
@[simp] theorem writeLog_fs (cfg : Cfg) (w : W) (r : Rec) :
    (writeLog cfg w r).fs = (FsOp.append .log (encode cfg.crc r)).apply w.fs := rfl

theorem maybeCompact_tr (cfg : Cfg) (w : W) :
    (maybeCompact cfg w).tr = w.tr ++ (if (cfg.inlineCompact && shouldCompact cfg w) = true then compOps cfg w else []) := by
  unfold maybeCompact
  split
  · rw [compactLocked_tr]
  · simp

theorem applyAll_single (fs : Fs) (o : FsOp) : applyAll fs [o] = o.apply fs := rfl

theorem maybeCompact_look_eqv (cfg : Cfg) (w : W) (k : Key) :
    Eqv w.now ((maybeCompact cfg w).mem.look k) (w.mem.look k) := by
  rcases shouldCompact_or cfg w with h | h
  · rw [h]; exact Eqv.refl _ _
  · rw [h, compact_look_eq_live]; exact Eqv.live_left _ _

/-- what the directory replays to after one more record, against the memory the same critical section leaves -/
theorem eqv_after_write (cfg : Cfg) (w : W) (ents : List (Key × Val × Option Int)) (rs : List Rec)
    (he : ∀ k, Eqv w.now ((rep cfg.lim ents rs).look k) (w.mem.look k)) (m1 : Mem) (r : Rec)
    (hother : ∀ k', r.key ≠ k' → m1.look k' = w.mem.look k')
    (hkey : ∀ x, Eqv w.now x (w.mem.look r.key) → Eqv w.now (applyKey cfg.lim r x) (m1.look r.key)) (k : Key) :
    Eqv w.now ((rep cfg.lim ents (rs ++ [r])).look k) (m1.look k) := by
  rw [rep_append, look_applyRec]
  by_cases hk : r.key = k
  · subst hk
    simp only [↓reduceIte]
    exact hkey _ (he r.key)
  · simp only [hk, ↓reduceIte]
    rw [hother k hk]
    exact he k

/-- **one record, then `maybeCompact`**: the shape of `set`, `set`+TTL and `remove` -/
theorem crash_write_compact (cfg : Cfg) (w : W) (hf : FInv cfg w) (htr : w.tr = []) (m1 : Mem) (r : Rec) (hr : r.WF cfg.lim)
    (hother : ∀ k', r.key ≠ k' → m1.look k' = w.mem.look k')
    (hkey : ∀ x, Eqv w.now x (w.mem.look r.key) → Eqv w.now (applyKey cfg.lim r x) (m1.look r.key))
    (hvalid : ∀ k v, m1.kv.get? k = some v → 1 ≤ k.length ∧ k.length ≤ cfg.lim.maxKey ∧ v.length ≤ cfg.lim.maxVal)
    (hplaus : ∀ k e, m1.expiry.get? k = some e → e.at_ ≤ cfg.lim.maxPlausible)
    (hnodup : (Map.keys m1.kv).Nodup) (hc : m1.kv.length ≤ cfg.lim.snapCountMax) :
    CrashAdm cfg w.now w.fs (maybeCompact cfg (writeLog cfg { w with mem := m1 } r)).tr w.mem.look
      (maybeCompact cfg (writeLog cfg { w with mem := m1 } r)).mem.look := by
  apply CrashAdm.mono cfg w.now _ _ _ _ w.mem.look m1.look ?_ (fun _ => .inl (Eqv.refl _ _))
    (fun k' => .inr (maybeCompact_look_eqv cfg (writeLog cfg { w with mem := m1 } r) k').symm)
  have hf1 : FInv cfg (writeLog cfg { w with mem := m1 } r) := FInv.write cfg w hf m1 r hr hother hkey hvalid hplaus hnodup
  obtain ⟨ents, rs, hd, he⟩ := hf.file
  rw [maybeCompact_tr, writeLog_tr]
  simp only [htr, List.nil_append]
  apply CrashAdm.append
  · exact CrashAdm.rec cfg w.now w.fs ents rs hd r hr _ _ he (eqv_after_write cfg w ents rs he m1 r hother hkey)
  · rw [applyAll_single]
    split
    · have := CrashAdm.comp cfg (writeLog cfg { w with mem := m1 } r) hf1 hc
      exact CrashAdm.mono cfg w.now _ _ _ _ _ _ this (fun k => .inr (Eqv.refl _ _)) (fun k => .inr (Eqv.refl _ _))
    · obtain ⟨ents1, rs1, hd1, he1⟩ := hf1.file
      exact CrashAdm.nil cfg w.now _ ents1 rs1 hd1 _ _ (fun k => .inr (he1 k))

/-- **one record, no compaction**: the shape of `expireAt`, `persist` and the eviction callback -/
theorem crash_write (cfg : Cfg) (w : W) (hf : FInv cfg w) (htr : w.tr = []) (m1 : Mem) (r : Rec) (hr : r.WF cfg.lim)
    (hother : ∀ k', r.key ≠ k' → m1.look k' = w.mem.look k')
    (hkey : ∀ x, Eqv w.now x (w.mem.look r.key) → Eqv w.now (applyKey cfg.lim r x) (m1.look r.key)) :
    CrashAdm cfg w.now w.fs (writeLog cfg { w with mem := m1 } r).tr w.mem.look m1.look := by
  obtain ⟨ents, rs, hd, he⟩ := hf.file
  rw [writeLog_tr]
  simp only [htr, List.nil_append]
  exact CrashAdm.rec cfg w.now w.fs ents rs hd r hr _ _ he (eqv_after_write cfg w ents rs he m1 r hother hkey)

/-- no I/O at all -/
theorem crash_none (cfg : Cfg) (w : W) (hf : FInv cfg w) (new : Key → Option Ent) :
    CrashAdm cfg w.now w.fs [] w.mem.look new := by
  obtain ⟨ents, rs, hd, he⟩ := hf.file
  exact CrashAdm.nil cfg w.now w.fs ents rs hd _ _ (fun k => .inl (he k))

end Iora.Kv

namespace Iora.Kv
open Iora

/-! ## every operation, crashed anywhere -/

theorem crash_set (cfg : Cfg) (w : W) (hf : FInv cfg w) (htr : w.tr = []) (k : Key) (v : Val)
    (hc : w.mem.kv.length + 1 ≤ cfg.lim.snapCountMax) :
    CrashAdm cfg w.now w.fs (opSet cfg w k v).1.tr w.mem.look (opSet cfg w k v).1.mem.look := by
  unfold opSet
  cases hv : validate cfg.lim k v with
  | some e => simp only [htr]; exact crash_none cfg w hf _
  | none =>
    have hk := validate_none' hv
    simp only
    have hlen : (updateCache cfg { w.mem with expiry := w.mem.expiry.erase k, kv := w.mem.kv.put k v } k v none).kv.length
        ≤ cfg.lim.snapCountMax := by
      simp only [updateCache_kv]
      have := length_put_le w.mem.kv k v
      omega
    have := crash_write_compact cfg w hf htr _ (.set k v) ⟨hk.1, hk.2.1, hk.2.2⟩
      (fun k' hne => by rw [look_updateCache, look_set]; simp only [Rec.key] at hne; simp [hne])
      (fun x _ => by rw [look_updateCache, look_set]; simp [Rec.key, applyKey]; exact Eqv.refl _ _)
      (valid_put cfg w.mem k v hf.valid hk) (plaus_erase cfg w.mem k hf.plaus) (Map.nodup_put _ _ _ hf.nodup) hlen
    exact this

theorem crash_setTtl (cfg : Cfg) (hl : cfg.lim.OK) (w : W) (hf : FInv cfg w) (htr : w.tr = []) (k : Key) (v : Val) (ttl : Int)
    (hc : w.mem.kv.length + 1 ≤ cfg.lim.snapCountMax) :
    CrashAdm cfg w.now w.fs (opSetTtl cfg w k v ttl).1.tr w.mem.look (opSetTtl cfg w k v ttl).1.mem.look := by
  unfold opSetTtl
  by_cases h0 : ttl ≤ 0
  · simp only [h0, ↓reduceIte, htr]; exact crash_none cfg w hf _
  · simp only [h0, ↓reduceIte]
    cases hv : validate cfg.lim k v with
    | some e => simp only [htr]; exact crash_none cfg w hf _
    | none =>
      have hk := validate_none' hv
      obtain ⟨hpl, hle⟩ := deadlineAfter_plausible cfg.lim hl w.now ttl hf.pos h0
      simp only [armTimer]
      have hlen : (updateCache cfg { w.mem with kv := w.mem.kv.put k v, expiry := w.mem.expiry.put k ⟨deadlineAfter cfg.lim w.now ttl, w.mem.nextTimer, false⟩, nextTimer := w.mem.nextTimer + 1 } k v (some (deadlineAfter cfg.lim w.now ttl))).kv.length
          ≤ cfg.lim.snapCountMax := by
        simp only [updateCache_kv]
        have := length_put_le w.mem.kv k v
        omega
      have := crash_write_compact cfg w hf htr _ (.setE k v (deadlineAfter cfg.lim w.now ttl)) ⟨hk.1, hk.2.1, hk.2.2, hpl⟩
        (fun k' hne => by rw [look_updateCache, look_setE]; simp only [Rec.key] at hne; simp [hne])
        (fun x _ => by rw [look_updateCache, look_setE]; simp [Rec.key, applyKey]; exact Eqv.refl _ _)
        (valid_put cfg w.mem k v hf.valid hk) (plaus_put cfg w.mem k _ hf.plaus hle) (Map.nodup_put _ _ _ hf.nodup) hlen
      exact this

theorem crash_remove (cfg : Cfg) (w : W) (hf : FInv cfg w) (htr : w.tr = []) (k : Key)
    (hc : w.mem.kv.length ≤ cfg.lim.snapCountMax) :
    CrashAdm cfg w.now w.fs (opRemove cfg w k).tr w.mem.look (opRemove cfg w k).mem.look := by
  unfold opRemove
  split
  · simp only [htr]; exact crash_none cfg w hf _
  · simp only
    cases hh : w.mem.kv.has k with
    | false => simp only [Bool.false_eq_true, ↓reduceIte, htr]; exact crash_none cfg w hf _
    | true =>
      obtain ⟨v, hv⟩ := (Map.has_iff _ _).mp hh
      have hk := hf.valid k v hv
      simp only [↓reduceIte]
      have hlen : ({ w.mem with kv := w.mem.kv.erase k, expiry := w.mem.expiry.erase k, cache := w.mem.cache.erase k } : Mem).kv.length
          ≤ cfg.lim.snapCountMax := by
        have := length_erase_le w.mem.kv k
        simp only; omega
      have := crash_write_compact cfg w hf htr _ (.del k) ⟨hk.1, hk.2.1⟩
        (fun k' hne => by rw [look_del]; simp only [Rec.key] at hne; simp [hne])
        (fun x _ => by rw [look_del]; simp [Rec.key, applyKey]; exact Eqv.refl _ _)
        (valid_erase cfg w.mem k hf.valid) (plaus_erase cfg w.mem k hf.plaus) (Map.nodup_erase _ _ hf.nodup) hlen
      exact this

end Iora.Kv

namespace Iora.Kv
open Iora

theorem crash_expireAt (cfg : Cfg) (hl : cfg.lim.OK) (w : W) (hf : FInv cfg w) (htr : w.tr = []) (k : Key) (t : Int)
    (ht : t ≤ cfg.lim.maxPlausible) :
    CrashAdm cfg w.now w.fs (opExpireAt cfg w k t).tr w.mem.look (opExpireAt cfg w k t).mem.look := by
  unfold opExpireAt
  split
  · simp only [htr]; exact crash_none cfg w hf _
  · simp only
    cases hb : (!w.mem.kv.has k || w.mem.expired w.now k) with
    | true => simp only [↓reduceIte, htr]; exact crash_none cfg w hf _
    | false =>
      have h1 : w.mem.kv.has k = true := by
        cases h : w.mem.kv.has k <;> simp [h] at hb ⊢
      have h2 : w.mem.expired w.now k = false := by
        cases h : w.mem.expired w.now k <;> simp [h, h1] at hb ⊢
      obtain ⟨v, hv⟩ := (Map.has_iff _ _).mp h1
      have hk := hf.valid k v hv
      have hpos := hf.pos
      have hlook : w.mem.look k = some (v, w.mem.expOf k) := by simp [Mem.look, hv]
      have hvis : live w.now (w.mem.look k) = w.mem.look k := by
        have := live_look_eq w.mem w.now k
        simpa [h1, h2] using this
      simp only [Bool.false_eq_true, ↓reduceIte, armTimer]
      have hpl : plausible cfg.lim (max t 1) = true := by
        unfold plausible sentinel
        simp only [Bool.and_eq_true, bne_iff_ne, ne_eq, decide_eq_true_eq]
        have := hl.plaus
        have := hl.plausPos
        omega
      have hlk : ∀ k', (invalidateCache { w.mem with expiry := w.mem.expiry.put k ⟨t, w.mem.nextTimer, decide (t ≤ w.now)⟩, nextTimer := w.mem.nextTimer + 1 } k).look k'
          = if k = k' then (w.mem.look k).map (fun x => (x.1, some t)) else w.mem.look k' := by
        intro k'
        have : (invalidateCache { w.mem with expiry := w.mem.expiry.put k ⟨t, w.mem.nextTimer, decide (t ≤ w.now)⟩, nextTimer := w.mem.nextTimer + 1 } k).look
            = Mem.look { w.mem with expiry := w.mem.expiry.put k ⟨t, w.mem.nextTimer, decide (t ≤ w.now)⟩, nextTimer := w.mem.nextTimer + 1 } :=
          look_congr rfl rfl
        rw [this, look_expPut]
      apply crash_write cfg w hf htr _ (.exp k (max t 1)) ⟨hk.1, hk.2.1, .inr hpl⟩
      · intro k' hne; rw [hlk]; simp only [Rec.key] at hne; simp [hne]
      · intro x hx
        simp only [Rec.key] at hx ⊢
        rw [hlk]
        simp only [↓reduceIte, hlook, Option.map_some]
        rw [hlook] at hx hvis
        obtain ⟨eo', rfl⟩ := present_of_eqv_visible hx hvis
        have hs : max t 1 ≠ sentinel := by unfold sentinel; omega
        simp only [applyKey, hs, ↓reduceIte, hpl]
        by_cases h1t : 1 ≤ t
        · have : max t 1 = t := by omega
          rw [this]; exact Eqv.refl _ _
        · have hm : max t 1 = 1 := by omega
          rw [hm]
          exact (Eqv.expired w.now v 1 (by omega)).trans (Eqv.expired w.now v t (by omega)).symm

theorem crash_persist (cfg : Cfg) (w : W) (hf : FInv cfg w) (htr : w.tr = []) (k : Key) :
    CrashAdm cfg w.now w.fs (opPersist cfg w k).tr w.mem.look (opPersist cfg w k).mem.look := by
  unfold opPersist
  split
  · simp only [htr]; exact crash_none cfg w hf _
  · simp only
    cases h1 : w.mem.kv.has k with
    | false => simp only [Bool.not_false, ↓reduceIte, htr]; exact crash_none cfg w hf _
    | true =>
      simp only [Bool.not_true, Bool.false_eq_true, ↓reduceIte]
      cases h2 : w.mem.expiry.has k with
      | false => simp only [Bool.not_false, ↓reduceIte, htr]; exact crash_none cfg w hf _
      | true =>
        simp only [Bool.not_true, Bool.false_eq_true, ↓reduceIte]
        cases h3 : w.mem.expired w.now k with
        | true => simp only [↓reduceIte, htr]; exact crash_none cfg w hf _
        | false =>
          simp only [Bool.false_eq_true, ↓reduceIte]
          obtain ⟨v, hv⟩ := (Map.has_iff _ _).mp h1
          have hk := hf.valid k v hv
          have hlook : w.mem.look k = some (v, w.mem.expOf k) := by simp [Mem.look, hv]
          have hvis : live w.now (w.mem.look k) = w.mem.look k := by
            have := live_look_eq w.mem w.now k
            simpa [h1, h3] using this
          have hlk : ∀ k', (invalidateCache { w.mem with expiry := w.mem.expiry.erase k } k).look k'
              = if k = k' then (w.mem.look k).map (fun x => (x.1, none)) else w.mem.look k' := by
            intro k'
            have : (invalidateCache { w.mem with expiry := w.mem.expiry.erase k } k).look
                = Mem.look { w.mem with expiry := w.mem.expiry.erase k } := look_congr rfl rfl
            rw [this, look_expErase]
          apply crash_write cfg w hf htr _ (.exp k sentinel) ⟨hk.1, hk.2.1, .inl rfl⟩
          · intro k' hne; rw [hlk]; simp only [Rec.key] at hne; simp [hne]
          · intro x hx
            simp only [Rec.key] at hx ⊢
            rw [hlk]
            simp only [↓reduceIte, hlook, Option.map_some]
            rw [hlook] at hx hvis
            obtain ⟨eo', rfl⟩ := present_of_eqv_visible hx hvis
            simp only [applyKey, ↓reduceIte]
            exact Eqv.refl _ _

theorem crash_evictFire (cfg : Cfg) (w : W) (hf : FInv cfg w) (htr : w.tr = [])
    (hsub : ∀ k, (w.mem.expiry.get? k).isSome = true → (w.mem.kv.get? k).isSome = true) (k : Key) (gen : Nat) :
    CrashAdm cfg w.now w.fs (opEvictFire cfg w k gen).tr w.mem.look (opEvictFire cfg w k gen).mem.look := by
  unfold opEvictFire
  simp only
  cases he : w.mem.expiry.get? k with
  | none => simp only [htr]; exact crash_none cfg w hf _
  | some e =>
    simp only
    by_cases hg : gen = 0 ∨ e.timer ≠ gen
    · rw [if_pos hg]; simp only [htr]; exact crash_none cfg w hf _
    · rw [if_neg hg]
      simp only [armTimer]
      by_cases hlt : e.at_ > w.now
      · rw [if_pos hlt]; simp only [htr]; exact crash_none cfg w hf _
      · rw [if_neg hlt]
        have hh : w.mem.kv.has k = true := hsub k (by rw [he]; rfl)
        obtain ⟨v, hv⟩ := (Map.has_iff _ _).mp hh
        have hk := hf.valid k v hv
        apply crash_write cfg w hf htr _ (.del k) ⟨hk.1, hk.2.1⟩
        · intro k' hne; rw [look_del]; simp only [Rec.key] at hne; simp [hne]
        · intro x _; rw [look_del]; simp [Rec.key, applyKey]; exact Eqv.refl _ _

theorem crash_get (cfg : Cfg) (w : W) (hf : FInv cfg w) (htr : w.tr = []) (k : Key) :
    CrashAdm cfg w.now w.fs (opGet cfg w k).1.tr w.mem.look (opGet cfg w k).1.mem.look := by
  have : (opGet cfg w k).1.tr = [] := by
    unfold opGet
    split
    · exact htr
    · simp only
      split
      · exact htr
      · split
        · exact htr
        · split
          · exact htr
          · exact htr
  rw [this]; exact crash_none cfg w hf _

theorem crash_compact (cfg : Cfg) (w : W) (hf : FInv cfg w) (htr : w.tr = []) (hc : w.mem.kv.length ≤ cfg.lim.snapCountMax) :
    CrashAdm cfg w.now w.fs (compactLocked cfg w).tr w.mem.look (compactLocked cfg w).mem.look := by
  rw [compactLocked_tr, htr, List.nil_append]
  exact CrashAdm.mono cfg w.now _ _ _ _ _ _ (CrashAdm.comp cfg w hf hc) (fun _ => .inl (Eqv.refl _ _)) (fun _ => .inl (Eqv.refl _ _))

end Iora.Kv

namespace Iora.Kv
open Iora

/-! ## several records in one critical section (batches, `clear`) -/

theorem foldl_writeLog_tr (cfg : Cfg) {α : Type} (g : α → Rec) (l : List α) :
    ∀ (w0 : W), (l.foldl (fun w x => writeLog cfg w (g x)) w0).tr
        = w0.tr ++ l.map (fun x => FsOp.append .log (encode cfg.crc (g x))) ∧
      (l.foldl (fun w x => writeLog cfg w (g x)) w0).fs
        = applyAll w0.fs (l.map (fun x => FsOp.append .log (encode cfg.crc (g x)))) := by
  induction l with
  | nil => intro w0; exact ⟨by simp, rfl⟩
  | cons x r ih =>
    intro w0
    simp only [List.foldl_cons, List.map_cons]
    obtain ⟨h1, h2⟩ := ih (writeLog cfg w0 (g x))
    rw [h1, h2]
    exact ⟨by simp, rfl⟩

/-- a crash while a list of records is being appended: some prefix of them made it -/
theorem CrashAdm.recs (cfg : Cfg) (now : Int) (ents : List (Key × Val × Option Int)) (old new : Key → Option Ent)
    (recs : List Rec) (hwf : ∀ r ∈ recs, r.WF cfg.lim) :
    ∀ (fs : Fs) (rs : List Rec), Durable cfg fs ents rs →
      (∀ j k, Eqv now ((rep cfg.lim ents (rs ++ recs.take j)).look k) (old k)
            ∨ Eqv now ((rep cfg.lim ents (rs ++ recs.take j)).look k) (new k)) →
      CrashAdm cfg now fs (recs.map (fun r => FsOp.append .log (encode cfg.crc r))) old new := by
  induction recs with
  | nil =>
    intro fs rs hd hadm
    exact CrashAdm.nil cfg now fs ents rs hd old new (fun k => by simpa using hadm 0 k)
  | cons r rest ih =>
    intro fs rs hd hadm
    simp only [List.map_cons]
    have hsplit : (FsOp.append .log (encode cfg.crc r) :: rest.map (fun r => FsOp.append .log (encode cfg.crc r)))
        = [FsOp.append .log (encode cfg.crc r)] ++ rest.map (fun r => FsOp.append .log (encode cfg.crc r)) := rfl
    rw [hsplit]
    apply CrashAdm.append
    · have h0 := CrashAdm.rec cfg now fs ents rs hd r (hwf r (by simp))
        (fun k => (rep cfg.lim ents rs).look k) (fun k => (rep cfg.lim ents (rs ++ [r])).look k)
        (fun k => Eqv.refl _ _) (fun k => Eqv.refl _ _)
      exact CrashAdm.mono cfg now _ _ _ _ _ _ h0 (fun k => by simpa using hadm 0 k) (fun k => by simpa using hadm 1 k)
    · rw [applyAll_single]
      apply ih (fun x hx => hwf x (by simp [hx])) _ (rs ++ [r]) (Durable.append cfg fs ents rs hd r (hwf r (by simp)))
      intro j k
      have := hadm (j + 1) k
      simpa [List.append_assoc] using this

theorem foldKey_none_of_absent (l : Lim) (k : Key) (rs : List Rec) (h : ∀ r ∈ rs, r.key ≠ k) (x : Option Ent) :
    foldKey l k rs x = x := by
  induction rs generalizing x with
  | nil => rfl
  | cons r rest ih =>
    have : foldKey l k (r :: rest) x = foldKey l k rest (if r.key = k then applyKey l r x else x) := rfl
    rw [this]
    simp only [h r (by simp), ↓reduceIte]
    exact ih (fun y hy => h y (by simp [hy])) x

/-- records for pairwise different keys: after any prefix of them every key shows its old entry or its final one -/
theorem foldKey_take (l : Lim) (k : Key) (recs : List Rec) (hd : recs.Pairwise (fun a b => a.key ≠ b.key)) :
    ∀ (j : Nat) (x : Option Ent), foldKey l k (recs.take j) x = x ∨ foldKey l k (recs.take j) x = foldKey l k recs x := by
  induction recs with
  | nil => intro j x; left; simp [foldKey]
  | cons r rest ih =>
    intro j x
    cases j with
    | zero => left; rfl
    | succ j =>
      have hp := List.pairwise_cons.mp hd
      have e1 : foldKey l k ((r :: rest).take (j + 1)) x = foldKey l k (rest.take j) (if r.key = k then applyKey l r x else x) := rfl
      have e2 : foldKey l k (r :: rest) x = foldKey l k rest (if r.key = k then applyKey l r x else x) := rfl
      rw [e1, e2]
      by_cases hk : r.key = k
      · simp only [hk, ↓reduceIte]
        right
        have habs : ∀ y ∈ rest, y.key ≠ k := fun y hy => by rw [← hk]; exact fun e => hp.1 y hy e.symm
        rw [foldKey_none_of_absent l k rest habs]
        exact foldKey_none_of_absent l k (rest.take j) (fun y hy => habs y (List.mem_of_mem_take hy)) _
      · simp only [hk, ↓reduceIte]
        exact ih hp.2 j x

/-- **records for distinct keys, then `maybeCompact`**: the shape of the batches and of `clear` -/
theorem crash_records_compact (cfg : Cfg) (w : W) (hf : FInv cfg w) (htr : w.tr = []) (mF : Mem) (recs : List Rec)
    (hwf : ∀ r ∈ recs, r.WF cfg.lim) (hdist : recs.Pairwise (fun a b => a.key ≠ b.key))
    (hfinal : ∀ ents rs, (∀ k, Eqv w.now ((rep cfg.lim ents rs).look k) (w.mem.look k)) →
      ∀ k, Eqv w.now (foldKey cfg.lim k recs ((rep cfg.lim ents rs).look k)) (mF.look k))
    (hf1 : FInv cfg (recs.foldl (fun w r => writeLog cfg w r) { w with mem := mF }))
    (hc : mF.kv.length ≤ cfg.lim.snapCountMax) :
    CrashAdm cfg w.now w.fs (maybeCompact cfg (recs.foldl (fun w r => writeLog cfg w r) { w with mem := mF })).tr w.mem.look
      (maybeCompact cfg (recs.foldl (fun w r => writeLog cfg w r) { w with mem := mF })).mem.look := by
  obtain ⟨hmem, hnow⟩ := foldl_writeLog_mem cfg (fun r : Rec => r) recs { w with mem := mF }
  obtain ⟨htr1, hfs1⟩ := foldl_writeLog_tr cfg (fun r : Rec => r) recs { w with mem := mF }
  have hnow' : (recs.foldl (fun w r => writeLog cfg w r) ({ w with mem := mF } : W)).now = w.now := hnow
  have hmem' : (recs.foldl (fun w r => writeLog cfg w r) ({ w with mem := mF } : W)).mem = mF := hmem
  apply CrashAdm.mono cfg w.now _ _ _ _ w.mem.look mF.look ?_ (fun _ => .inl (Eqv.refl _ _))
    (fun k' => .inr (by
      have := (maybeCompact_look_eqv cfg (recs.foldl (fun w r => writeLog cfg w r) { w with mem := mF }) k').symm
      rw [hnow', hmem'] at this
      exact this))
  obtain ⟨ents, rs, hd, he⟩ := hf.file
  rw [maybeCompact_tr, htr1]
  simp only [htr, List.nil_append]
  apply CrashAdm.append
  · apply CrashAdm.recs cfg w.now ents _ _ recs hwf w.fs rs hd
    intro j k
    rw [rep_append_list]
    rcases foldKey_take cfg.lim k recs hdist j ((rep cfg.lim ents rs).look k) with h | h
    · rw [h]; exact .inl (he k)
    · rw [h]; exact .inr (hfinal ents rs he k)
  · rw [← hfs1]
    split
    · have := CrashAdm.comp cfg _ hf1 (by rw [hmem']; exact hc)
      rw [hnow', hmem'] at this
      simp only [htr] at this ⊢
      exact CrashAdm.mono cfg w.now _ _ _ _ _ _ this (fun k => .inr (Eqv.refl _ _)) (fun k => .inr (Eqv.refl _ _))
    · obtain ⟨ents1, rs1, hd1, he1⟩ := hf1.file
      rw [hnow', hmem'] at he1
      simp only [htr] at hd1 ⊢
      exact CrashAdm.nil cfg w.now _ ents1 rs1 hd1 _ _ (fun k => .inr (he1 k))

end Iora.Kv

namespace Iora.Kv
open Iora

theorem foldl_writeLog_map (cfg : Cfg) {α : Type} (g : α → Rec) (l : List α) (w0 : W) :
    l.foldl (fun w x => writeLog cfg w (g x)) w0 = (l.map g).foldl (fun w r => writeLog cfg w r) w0 := by
  rw [List.foldl_map]

theorem foldl_writeLog_setMem (cfg : Cfg) {α : Type} (g : α → Rec) (l : List α) (m : Mem) :
    ∀ w0 : W, ({ (l.foldl (fun w x => writeLog cfg w (g x)) w0) with mem := m } : W)
      = l.foldl (fun w x => writeLog cfg w (g x)) { w0 with mem := m } := by
  induction l with
  | nil => intro w0; rfl
  | cons x r ih => intro w0; simp only [List.foldl_cons]; rw [ih]; rfl

/-- the state of `setBatch` just before `maybeCompact` satisfies the file-side invariant -/
theorem FInv.setBatch_pre (cfg : Cfg) (w : W) (hf : FInv cfg w) (hi : MemInv w.mem) (hz : CacheOff cfg w.mem) (kvs : List (Key × Val))
    (hb : batchBad cfg.lim kvs = false) :
    FInv cfg (kvs.foldl (fun w x => writeLog cfg w (.set x.1 x.2)) { w with mem := kvs.foldl (fun (m : Mem) x =>
      updateCache cfg { m with expiry := m.expiry.erase x.1, kv := m.kv.put x.1 x.2 } x.1 x.2 none) w.mem }) := by
  obtain ⟨_, hlook⟩ := setBatch_mem cfg kvs hb w.mem hi hz
  obtain ⟨hok, hlen⟩ := setBatch_memOK cfg kvs hb w.mem (hf.memOK)
  obtain ⟨hm, hn⟩ := foldl_writeLog_mem cfg (fun x : Key × Val => Rec.set x.1 x.2) kvs
    { w with mem := kvs.foldl (fun (m : Mem) x =>
      updateCache cfg { m with expiry := m.expiry.erase x.1, kv := m.kv.put x.1 x.2 } x.1 x.2 none) w.mem }
  have hall := batchBad_all cfg.lim kvs hb
  refine ⟨by rw [hn]; exact hf.pos, by rw [hm]; exact hok.valid, by rw [hm]; exact hok.plaus, by rw [hm]; exact hok.nodup, ?_⟩
  obtain ⟨ents, rs, hd, he⟩ := hf.file
  refine ⟨ents, rs ++ kvs.map (fun x => Rec.set x.1 x.2),
    foldl_writeLog_fs cfg (fun x : Key × Val => Rec.set x.1 x.2) kvs (fun x hx => hall x hx) ents _ rs hd, ?_⟩
  intro k
  rw [rep_append_list, hn, hm, hlook]
  exact eqv_fold_set cfg.lim w.now k kvs _ _ (he k)

theorem FInv.setBatchTtl_pre (cfg : Cfg) (w : W) (hf : FInv cfg w) (hi : MemInv w.mem) (hz : CacheOff cfg w.mem) (kvs : List (Key × Val)) (e : Int)
    (hb : batchBad cfg.lim kvs = false) (hpl : plausible cfg.lim e = true) (he' : e ≤ cfg.lim.maxPlausible) :
    FInv cfg (kvs.foldl (fun w x => writeLog cfg w (.setE x.1 x.2 e)) { w with mem := kvs.foldl (fun (m : Mem) x =>
      let (id, m) := armTimer m
      updateCache cfg { m with kv := m.kv.put x.1 x.2, expiry := m.expiry.put x.1 ⟨e, id, false⟩ } x.1 x.2 (some e)) w.mem }) := by
  obtain ⟨_, hlook⟩ := setBatchTtl_mem cfg e kvs hb w.mem hi hz
  obtain ⟨hok, hlen⟩ := setBatchTtl_memOK cfg e he' kvs hb w.mem (hf.memOK)
  obtain ⟨hm, hn⟩ := foldl_writeLog_mem cfg (fun x : Key × Val => Rec.setE x.1 x.2 e) kvs
    { w with mem := kvs.foldl (fun (m : Mem) x =>
      let (id, m) := armTimer m
      updateCache cfg { m with kv := m.kv.put x.1 x.2, expiry := m.expiry.put x.1 ⟨e, id, false⟩ } x.1 x.2 (some e)) w.mem }
  have hall := batchBad_all cfg.lim kvs hb
  refine ⟨by rw [hn]; exact hf.pos, by rw [hm]; exact hok.valid, by rw [hm]; exact hok.plaus, by rw [hm]; exact hok.nodup, ?_⟩
  obtain ⟨ents, rs, hd, he⟩ := hf.file
  refine ⟨ents, rs ++ kvs.map (fun x => Rec.setE x.1 x.2 e),
    foldl_writeLog_fs cfg (fun x : Key × Val => Rec.setE x.1 x.2 e) kvs
      (fun x hx => ⟨(hall x hx).1, (hall x hx).2.1, (hall x hx).2.2, hpl⟩) ents _ rs hd, ?_⟩
  intro k
  rw [rep_append_list, hn, hm, hlook]
  exact eqv_fold_setE cfg.lim w.now k e kvs _ _ (he k)

theorem pairwise_keys_map {α : Type} (g : α → Rec) (f : α → Key) (hg : ∀ x, (g x).key = f x) (l : List α)
    (h : (l.map f).Nodup) : (l.map g).Pairwise (fun a b => a.key ≠ b.key) := by
  rw [List.pairwise_map]
  have h' := List.pairwise_map.mp h
  exact h'.imp (fun hab => by rw [hg, hg]; exact hab)

/-- `setBatch(batch)`: the keys of a batch are distinct (it is a map) -/
theorem crash_setBatch (cfg : Cfg) (w : W) (hf : FInv cfg w) (hi : MemInv w.mem) (hz : CacheOff cfg w.mem) (htr : w.tr = []) (kvs : List (Key × Val))
    (hdist : (kvs.map (·.1)).Nodup) (hc : w.mem.kv.length + kvs.length ≤ cfg.lim.snapCountMax) :
    CrashAdm cfg w.now w.fs (opSetBatch cfg w kvs).1.tr w.mem.look (opSetBatch cfg w kvs).1.mem.look := by
  unfold opSetBatch
  split
  · simp only [htr]; exact crash_none cfg w hf _
  · cases hb : batchBad cfg.lim kvs with
    | true => simp only [↓reduceIte, htr]; exact crash_none cfg w hf _
    | false =>
      simp only [Bool.false_eq_true, ↓reduceIte]
      obtain ⟨_, hlook⟩ := setBatch_mem cfg kvs hb w.mem hi hz
      obtain ⟨_, hlen⟩ := setBatch_memOK cfg kvs hb w.mem (hf.memOK)
      have hpre := FInv.setBatch_pre cfg w hf hi hz kvs hb
      rw [foldl_writeLog_map] at hpre ⊢
      apply crash_records_compact cfg w hf htr _ _
        (fun r hr => by
          obtain ⟨x, hx, rfl⟩ := List.mem_map.mp hr
          exact batchBad_all cfg.lim kvs hb x hx)
        (pairwise_keys_map (fun x : Key × Val => Rec.set x.1 x.2) (·.1) (fun _ => rfl) kvs hdist)
        (fun ents rs he k => by rw [hlook]; exact eqv_fold_set cfg.lim w.now k kvs _ _ (he k))
        hpre (by omega)

theorem crash_setBatchTtl (cfg : Cfg) (hl : cfg.lim.OK) (w : W) (hf : FInv cfg w) (hi : MemInv w.mem) (hz : CacheOff cfg w.mem)
    (htr : w.tr = []) (kvs : List (Key × Val))
    (ttl : Int) (hdist : (kvs.map (·.1)).Nodup) (hc : w.mem.kv.length + kvs.length ≤ cfg.lim.snapCountMax) :
    CrashAdm cfg w.now w.fs (opSetBatchTtl cfg w kvs ttl).1.tr w.mem.look (opSetBatchTtl cfg w kvs ttl).1.mem.look := by
  unfold opSetBatchTtl
  by_cases h0 : ttl ≤ 0
  · simp only [h0, ↓reduceIte, htr]; exact crash_none cfg w hf _
  · simp only [h0, ↓reduceIte]
    split
    · simp only [htr]; exact crash_none cfg w hf _
    · cases hb : batchBad cfg.lim kvs with
      | true => simp only [↓reduceIte, htr]; exact crash_none cfg w hf _
      | false =>
        simp only [Bool.false_eq_true, ↓reduceIte]
        obtain ⟨hpl, hle⟩ := deadlineAfter_plausible cfg.lim hl w.now ttl hf.pos h0
        obtain ⟨_, hlook⟩ := setBatchTtl_mem cfg (deadlineAfter cfg.lim w.now ttl) kvs hb w.mem hi hz
        obtain ⟨_, hlen⟩ := setBatchTtl_memOK cfg (deadlineAfter cfg.lim w.now ttl) hle kvs hb w.mem (hf.memOK)
        have hpre := FInv.setBatchTtl_pre cfg w hf hi hz kvs (deadlineAfter cfg.lim w.now ttl) hb hpl hle
        rw [foldl_writeLog_map] at hpre ⊢
        apply crash_records_compact cfg w hf htr _ _
          (fun r hr => by
            obtain ⟨x, hx, rfl⟩ := List.mem_map.mp hr
            have := batchBad_all cfg.lim kvs hb x hx
            exact ⟨this.1, this.2.1, this.2.2, hpl⟩)
          (pairwise_keys_map (fun x : Key × Val => Rec.setE x.1 x.2 (deadlineAfter cfg.lim w.now ttl)) (·.1) (fun _ => rfl) kvs hdist)
          (fun ents rs he k => by rw [hlook]; exact eqv_fold_setE cfg.lim w.now k (deadlineAfter cfg.lim w.now ttl) kvs _ _ (he k))
          hpre (Nat.le_trans hlen hc)

end Iora.Kv

namespace Iora.Kv
open Iora

/-- memory after `clear` -/
def clearedMem (m : Mem) : Mem := { kv := [], expiry := [], cache := [], nextTimer := m.nextTimer, choices := m.choices }

theorem opClear_eq (cfg : Cfg) (w : W) :
    opClear cfg w = maybeCompact cfg ((w.mem.kv.map (fun x => Rec.del x.1)).foldl (fun w r => writeLog cfg w r)
      { w with mem := clearedMem w.mem }) := by
  unfold opClear
  obtain ⟨hm, _⟩ := foldl_writeLog_mem cfg (fun x : Key × Val => Rec.del x.1) w.mem.kv w
  have e := foldl_writeLog_setMem cfg (fun x : Key × Val => Rec.del x.1) w.mem.kv (clearedMem w.mem) w
  rw [← foldl_writeLog_map, ← e]
  simp only [clearedMem, hm]

theorem crash_clear (cfg : Cfg) (w : W) (hf : FInv cfg w) (htr : w.tr = []) :
    CrashAdm cfg w.now w.fs (opClear cfg w).tr w.mem.look (opClear cfg w).mem.look := by
  rw [opClear_eq]
  have hwf : ∀ r ∈ w.mem.kv.map (fun x => Rec.del x.1), r.WF cfg.lim := by
    intro r hr
    obtain ⟨x, hx, rfl⟩ := List.mem_map.mp hr
    have := hf.valid x.1 x.2 (Map.get?_of_mem_nodup _ hf.nodup x.1 x.2 hx)
    exact ⟨this.1, this.2.1⟩
  have hkeys : w.mem.kv.map (fun x => Rec.del x.1) = (Map.keys w.mem.kv).map Rec.del := by
    simp [Map.keys, List.map_map]
  have hfinal : ∀ ents rs, (∀ k, Eqv w.now ((rep cfg.lim ents rs).look k) (w.mem.look k)) →
      ∀ k, Eqv w.now (foldKey cfg.lim k (w.mem.kv.map (fun x => Rec.del x.1)) ((rep cfg.lim ents rs).look k)) ((clearedMem w.mem).look k) := by
    intro ents rs he k
    rw [hkeys, foldKey_dels]
    have hnone : (clearedMem w.mem).look k = none := rfl
    rw [hnone]
    by_cases hk : k ∈ Map.keys w.mem.kv
    · simp only [hk, ↓reduceIte]; exact Eqv.refl _ _
    · simp only [hk, ↓reduceIte]
      have : w.mem.look k = none := by
        unfold Mem.look
        cases hg : w.mem.kv.get? k with
        | none => rfl
        | some v => exact absurd ((Map.mem_keys_iff _ _).mpr ⟨v, hg⟩) hk
      have h2 := he k
      rw [this] at h2
      exact h2
  have hpre : FInv cfg ((w.mem.kv.map (fun x => Rec.del x.1)).foldl (fun w r => writeLog cfg w r) { w with mem := clearedMem w.mem }) := by
    obtain ⟨hm, hn⟩ := foldl_writeLog_mem cfg (fun r : Rec => r) (w.mem.kv.map (fun x => Rec.del x.1)) { w with mem := clearedMem w.mem }
    refine ⟨by rw [hn]; exact hf.pos, by rw [hm]; intro k v h; simp [clearedMem] at h, by rw [hm]; intro k e h; simp [clearedMem] at h,
      by rw [hm]; simp [clearedMem, Map.keys], ?_⟩
    obtain ⟨ents, rs, hd, he⟩ := hf.file
    refine ⟨ents, rs ++ (w.mem.kv.map (fun x => Rec.del x.1)).map (fun r => r),
      foldl_writeLog_fs cfg (fun r : Rec => r) _ hwf ents _ rs hd, ?_⟩
    intro k
    rw [List.map_id', rep_append_list, hn, hm]
    exact hfinal ents rs he k
  exact crash_records_compact cfg w hf htr (clearedMem w.mem) _ hwf
    (pairwise_keys_map (fun x : Key × Val => Rec.del x.1) (·.1) (fun _ => rfl) w.mem.kv hf.nodup)
    hfinal hpre (Nat.zero_le _)

end Iora.Kv

namespace Iora.Kv
open Iora

/-! ## operations made of several critical sections (`removeWithPrefix`, close + reopen) -/

/-- the trace is a pure log: running a section with a non-empty trace only prepends it -/
theorem maybeCompact_loc (cfg : Cfg) (w : W) :
    maybeCompact cfg w = { maybeCompact cfg { w with tr := [] } with tr := w.tr ++ (maybeCompact cfg { w with tr := [] }).tr } := by
  unfold maybeCompact shouldCompact
  simp only
  split
  · simp [compactLocked, W.emit]
  · simp

theorem opRemove_loc (cfg : Cfg) (w : W) (k : Key) :
    opRemove cfg w k = { opRemove cfg { w with tr := [] } k with tr := w.tr ++ (opRemove cfg { w with tr := [] } k).tr } := by
  unfold opRemove
  split
  · simp
  · simp only
    split
    · rw [maybeCompact_loc]
      conv => rhs; rw [maybeCompact_loc]
      simp [writeLog, W.emit]
    · simp

theorem opEvictFire_loc (cfg : Cfg) (w : W) (k : Key) (g : Nat) :
    opEvictFire cfg w k g = { opEvictFire cfg { w with tr := [] } k g with tr := w.tr ++ (opEvictFire cfg { w with tr := [] } k g).tr } := by
  unfold opEvictFire
  simp only
  split
  · simp
  · split
    · simp
    · split
      · simp [armTimer]
      · simp [writeLog, W.emit]

end Iora.Kv

namespace Iora.Kv
open Iora

theorem foldl_loc {α : Type} (f : W → α → W)
    (hloc : ∀ w x, f w x = { f { w with tr := [] } x with tr := w.tr ++ (f { w with tr := [] } x).tr }) (xs : List α) :
    ∀ w : W, xs.foldl f w = { xs.foldl f { w with tr := [] } with tr := w.tr ++ (xs.foldl f { w with tr := [] }).tr } := by
  induction xs with
  | nil => intro w; simp
  | cons x rest ih =>
    intro w
    simp only [List.foldl_cons]
    rw [ih (f w x), ih (f { w with tr := [] } x)]
    have h := hloc w x
    have e1 : ({ f w x with tr := [] } : W) = { f { w with tr := [] } x with tr := [] } := by rw [h]
    have e2 : (f w x).tr = w.tr ++ (f { w with tr := [] } x).tr := by rw [h]
    rw [e1, e2]
    simp [List.append_assoc]

/-- a sequence of critical sections, crashed anywhere: generic induction.  `Q` is the invariant between sections (it does
not mention the trace); every state along the way shows, per key, `old` or `new`. -/
theorem crash_fold {α : Type} (cfg : Cfg) (f : W → α → W)
    (hloc : ∀ w x, f w x = { f { w with tr := [] } x with tr := w.tr ++ (f { w with tr := [] } x).tr })
    (P : W → α → Prop) (Q : W → Prop) (hQtr : ∀ w tr, Q w → Q { w with tr := tr }) (hQ : ∀ w, Q w → FInv cfg w)
    (hstep : ∀ w x, Q w → P w x → w.tr = [] →
      Q (f w x) ∧ (f w x).now = w.now ∧ (f w x).fs = applyAll w.fs (f w x).tr ∧
      CrashAdm cfg w.now w.fs (f w x).tr w.mem.look (f w x).mem.look)
    (old new : Key → Option Ent) (xs : List α) :
    ∀ w : W, Q w → w.tr = [] →
      (∀ pre x post, xs = pre ++ x :: post → P { pre.foldl f w with tr := [] } x) →
      (∀ pre post, xs = pre ++ post → ∀ k, Eqv w.now ((pre.foldl f w).mem.look k) (old k) ∨ Eqv w.now ((pre.foldl f w).mem.look k) (new k)) →
      CrashAdm cfg w.now w.fs (xs.foldl f w).tr old new ∧ Q (xs.foldl f w) ∧ (xs.foldl f w).now = w.now
        ∧ (xs.foldl f w).fs = applyAll w.fs (xs.foldl f w).tr := by
  induction xs with
  | nil =>
    intro w hq htr _ hmid
    show CrashAdm cfg w.now w.fs w.tr old new ∧ Q w ∧ w.now = w.now ∧ w.fs = applyAll w.fs w.tr
    refine ⟨?_, hq, rfl, by rw [htr]; rfl⟩
    rw [htr]
    exact CrashAdm.mono cfg w.now _ _ _ _ _ _ (crash_none cfg w (hQ w hq) w.mem.look) (hmid [] [] rfl) (hmid [] [] rfl)
  | cons x rest ih =>
    intro w hq htr hP hmid
    simp only [List.foldl_cons]
    have hPx : P w x := by
      have := hP [] x rest rfl
      simp only [List.foldl_nil] at this
      have hw : ({ w with tr := [] } : W) = w := by
        cases w with
        | mk m fs tr n => simp only at htr; subst htr; rfl
      rw [hw] at this; exact this
    obtain ⟨hq1, hn1, hfs1, hc1⟩ := hstep w x hq hPx htr
    -- the rest runs from `f w x` with its trace set aside
    have hfl := foldl_loc f hloc rest (f w x)
    have hn1' : ({ f w x with tr := [] } : W).now = w.now := hn1
    obtain ⟨ih1, ih2, ih3, ih4⟩ := ih { f w x with tr := [] } (hQtr _ [] hq1) rfl
      (fun pre y post he => by
        have := hP (x :: pre) y post (by rw [he]; rfl)
        simp only [List.foldl_cons] at this
        rw [foldl_loc f hloc pre (f w x)] at this
        exact this)
      (fun pre post he k => by
        have := hmid (x :: pre) post (by rw [he]; rfl) k
        simp only [List.foldl_cons] at this
        rw [foldl_loc f hloc pre (f w x)] at this
        rw [hn1']
        exact this)
    rw [hfl]
    refine ⟨?_, ?_, ?_, ?_⟩
    · simp only
      apply CrashAdm.append
      · exact CrashAdm.mono cfg w.now _ _ _ _ _ _ hc1 (hmid [] (x :: rest) rfl)
          (by have := hmid [x] rest rfl; simpa using this)
      · rw [← hfs1]
        rw [hn1'] at ih1
        exact ih1
    · exact hQtr _ _ ih2
    · simp only; rw [ih3]; exact hn1
    · simp only
      rw [ih4, applyAll_append, ← hfs1]

end Iora.Kv

namespace Iora.Kv
open Iora

theorem maybeCompact_fs (cfg : Cfg) (w : W) :
    (maybeCompact cfg w).fs = applyAll w.fs (if (cfg.inlineCompact && shouldCompact cfg w) = true then compOps cfg w else []) := by
  unfold maybeCompact
  split
  · simp [compactLocked, W.emit, compOps, applyAll]
  · simp [applyAll]

theorem opRemove_faithful (cfg : Cfg) (w : W) (htr : w.tr = []) (k : Key) :
    (opRemove cfg w k).fs = applyAll w.fs (opRemove cfg w k).tr := by
  unfold opRemove
  split
  · rw [htr]; rfl
  · simp only
    split
    · rw [maybeCompact_fs, maybeCompact_tr, writeLog_tr, writeLog_fs]
      simp only [htr, List.nil_append]
      rw [applyAll_append, applyAll_single]
    · rw [htr]; rfl

theorem opEvictFire_faithful (cfg : Cfg) (w : W) (htr : w.tr = []) (k : Key) (g : Nat) :
    (opEvictFire cfg w k g).fs = applyAll w.fs (opEvictFire cfg w k g).tr := by
  unfold opEvictFire
  simp only
  split
  · rw [htr]; rfl
  · split
    · rw [htr]; rfl
    · split
      · simp only [armTimer]; rw [htr]; rfl
      · rw [writeLog_tr, writeLog_fs]; simp only [htr, List.nil_append]; rfl

theorem opRemove_now (cfg : Cfg) (w : W) (k : Key) : (opRemove cfg w k).now = w.now := by
  unfold opRemove
  split
  · rfl
  · simp only
    split
    · rw [maybeCompact_now]; rfl
    · rfl

theorem opEvictFire_now (cfg : Cfg) (w : W) (k : Key) (g : Nat) : (opEvictFire cfg w k g).now = w.now := by
  unfold opEvictFire
  simp only
  split
  · rfl
  · split
    · rfl
    · split
      · rfl
      · rfl

/-- `removeWithPrefix` (a `remove` per key, each possibly followed by an inline compaction), crashed anywhere -/
theorem crash_removeWithPrefix (cfg : Cfg) (w : W) (hi : MemInv w.mem) (hf : FInv cfg w) (htr : w.tr = []) (p : Bytes) (ord : List Key)
    (hc : w.mem.kv.length ≤ cfg.lim.snapCountMax) :
    CrashAdm cfg w.now w.fs (opRemoveWithPrefix cfg w p ord).1.tr w.mem.look (opRemoveWithPrefix cfg w p ord).1.mem.look := by
  unfold opRemoveWithPrefix
  simp only
  have h := crash_fold cfg (opRemove cfg) (opRemove_loc cfg) (fun _ _ => True)
    (fun w => MemInv w.mem ∧ FInv cfg w ∧ w.mem.kv.length ≤ cfg.lim.snapCountMax)
    (fun w tr hq => ⟨hq.1, ⟨hq.2.1.pos, hq.2.1.valid, hq.2.1.plaus, hq.2.1.nodup, hq.2.1.file⟩, hq.2.2⟩)
    (fun w hq => hq.2.1)
    (fun w x hq _ htr' => ⟨⟨(remove_ok cfg w hq.1 x).1, FInv.remove cfg w hq.2.1 x hq.2.2,
        Nat.le_trans (opRemove_kv_length cfg w x) hq.2.2⟩, opRemove_now cfg w x, opRemove_faithful cfg w htr' x,
        crash_remove cfg w hq.2.1 htr' x hq.2.2⟩)
    w.mem.look ((prefixOrder w.mem w.now p ord).foldl (opRemove cfg) w).mem.look (prefixOrder w.mem w.now p ord)
    w ⟨hi, hf, hc⟩ htr (fun _ _ _ _ => trivial)
  refine (h ?_).1
  -- along the way every key shows its old entry or its final one
  intro pre post he k
  obtain ⟨_, habs1⟩ := removeFold_ok cfg pre w hi
  obtain ⟨_, habs2⟩ := removeFold_ok cfg (prefixOrder w.mem w.now p ord) w hi
  have e1 := congrArg (fun s => s.m k) habs1
  have e2 := congrArg (fun s => s.m k) habs2
  have n1 := congrArg (fun s => s.now) habs1
  have n2 := congrArg (fun s => s.now) habs2
  simp only [W.abs] at e1 e2 n1 n2
  by_cases hk : k ∈ pre
  · right
    have hk2 : k ∈ prefixOrder w.mem w.now p ord := by rw [he]; exact List.mem_append_left _ hk
    rw [Eqv_iff]
    rw [n1] at e1
    rw [n2] at e2
    rw [e1, e2]
    simp [hk, hk2]
  · left
    rw [Eqv_iff]
    rw [n1] at e1
    rw [e1]
    simp [hk]

end Iora.Kv

namespace Iora.Kv
open Iora

theorem opOpen_tr_durable (cfg : Cfg) (hl : cfg.lim.OK) (w : W) (hf : FInv cfg w) : (opOpen cfg w).1.tr = w.tr := by
  obtain ⟨ents, rs, hd, _⟩ := hf.file
  unfold opOpen
  rw [openStore_durable cfg hl w.fs ents rs hd w.now]
  rfl

/-- clean close (the drain runs eviction callbacks, each appending a 'D') + reopen, crashed anywhere -/
theorem crash_reopen (cfg : Cfg) (hl : cfg.lim.OK) (w : W) (hi : MemInv w.mem) (hf : FInv cfg w) (htr : w.tr = []) :
    CrashAdm cfg w.now w.fs (opReopen cfg w).1.tr w.mem.look (opReopen cfg w).1.mem.look := by
  unfold opReopen opShutdown
  obtain ⟨_, hf2, _⟩ := shutdown_ok cfg (drainFires w.mem) w hi hf
  rw [opOpen_tr_durable cfg hl _ hf2]
  have h := crash_fold cfg (fun w (x : Key × Nat) => opEvictFire cfg w x.1 x.2) (fun w x => opEvictFire_loc cfg w x.1 x.2)
    (fun _ _ => True) (fun w => MemInv w.mem ∧ FInv cfg w)
    (fun w tr hq => ⟨hq.1, ⟨hq.2.pos, hq.2.valid, hq.2.plaus, hq.2.nodup, hq.2.file⟩⟩)
    (fun w hq => hq.2)
    (fun w x hq _ htr' => ⟨⟨(evictFire_ok cfg w hq.1 x.1 x.2).1, FInv.evictFire cfg w hq.2 hq.1.sub x.1 x.2⟩,
        opEvictFire_now cfg w x.1 x.2, opEvictFire_faithful cfg w htr' x.1 x.2, crash_evictFire cfg w hq.2 htr' hq.1.sub x.1 x.2⟩)
    w.mem.look (opOpen cfg ((drainFires w.mem).foldl (fun w x => opEvictFire cfg w x.1 x.2) w)).1.mem.look (drainFires w.mem)
    w ⟨hi, hf⟩ htr (fun _ _ _ _ => trivial)
  refine (h ?_).1
  intro pre post _ k
  left
  obtain ⟨_, _, habs⟩ := shutdown_ok cfg pre w hi hf
  have e1 := congrArg (fun s => s.m k) habs
  have n1 := congrArg (fun s => s.now) habs
  simp only [W.abs] at e1 n1
  rw [Eqv_iff]
  rw [n1] at e1
  exact e1

end Iora.Kv

namespace Iora.Kv
open Iora

/-- a batch is a map: its keys are pairwise different (`std::unordered_map` argument of `setBatch`) -/
def Op.Distinct : Op → Prop
  | .setBatch kvs => (kvs.map (·.1)).Nodup
  | .setBatchTtl kvs _ => (kvs.map (·.1)).Nodup
  | _ => True

/-- **every operation, crashed anywhere**: each crash image of the file operations one step issues is a directory the
constructor recovers from, and it shows for every key what memory held before the step or what it holds after it -/
theorem crash_step (cfg : Cfg) (hl : cfg.lim.OK) (w : W) (hi : Inv cfg w) (op : Op) (hok : StepOK cfg w op) (hd : op.Distinct) :
    CrashAdm cfg w.now w.fs (step cfg w op).1.tr w.mem.look (step cfg w op).1.mem.look := by
  have hf := FInv.resetTr cfg w hi.file
  have him : MemInv ({ w with tr := [] } : W).mem := hi.mem
  obtain ⟨hc, ht⟩ := hok
  unfold step
  cases op with
  | set k v => exact crash_set cfg _ hf rfl k v hc
  | setTtl k v ttl => exact crash_setTtl cfg hl _ hf rfl k v ttl hc
  | setBatch kvs => exact crash_setBatch cfg _ hf him hi.cacheOff rfl kvs hd hc
  | setBatchTtl kvs ttl => exact crash_setBatchTtl cfg hl _ hf him hi.cacheOff rfl kvs ttl hd hc
  | get k => exact crash_get cfg _ hf rfl k
  | remove k => exact crash_remove cfg _ hf rfl k (by simp only [Op.adds] at hc; exact hc)
  | removeWithPrefix p ord => exact crash_removeWithPrefix cfg _ him hf rfl p ord (by simp only [Op.adds] at hc; exact hc)
  | clear => exact crash_clear cfg _ hf rfl
  | expireAt k t => exact crash_expireAt cfg hl _ hf rfl k t ht
  | persist k => exact crash_persist cfg _ hf rfl k
  | compact => exact crash_compact cfg _ hf rfl (by simp only [Op.adds] at hc; exact hc)
  | advance dt => exact crash_none cfg _ hf _
  | evictFire k g => exact crash_evictFire cfg _ hf rfl him.sub k g
  | reopen => exact crash_reopen cfg hl _ him hf rfl

/-- a process crash at file operation `k` (cut after `cut` bytes if it is a write) of step `op`, then a new process on
what is left, at time `t` -/
def crashRecover (cfg : Cfg) (w : W) (op : Op) (k cut : Nat) (t : Int) (m0 : Mem) : W × Out :=
  opOpen cfg { mem := m0, fs := crashImage w.fs (step cfg w op).1.tr k cut, tr := [], now := t }

theorem crashRecover_ok (cfg : Cfg) (hl : cfg.lim.OK) (w : W) (hi : Inv cfg w) (op : Op) (hok : StepOK cfg w op) (hd : op.Distinct)
    (k cut : Nat) (t : Int) (ht : w.now ≤ t) (m0 : Mem) :
    (crashRecover cfg w op k cut t m0).2 = .ok ∧ Inv cfg (crashRecover cfg w op k cut t m0).1 ∧
    (crashRecover cfg w op k cut t m0).1.now = t ∧
    ∀ key, (crashRecover cfg w op k cut t m0).1.abs.m key = live t (w.mem.look key) ∨
           (crashRecover cfg w op k cut t m0).1.abs.m key = live t ((step cfg w op).1.mem.look key) := by
  obtain ⟨ents, rs, p, htd, hadm⟩ := crash_step cfg hl w hi op hok hd _ (crashImage_is w.fs (step cfg w op).1.tr k cut)
  have hpos : 0 < t := by have := hi.file.pos; omega
  obtain ⟨h1, h2, h3, h4⟩ := open_torn cfg hl _ ents rs p htd t hpos m0
  refine ⟨h1, h2, h3, fun key => ?_⟩
  have habs : (crashRecover cfg w op k cut t m0).1.abs.m key = live t ((rep cfg.lim ents rs).look key) := by
    show live (crashRecover cfg w op k cut t m0).1.now ((crashRecover cfg w op k cut t m0).1.mem.look key) = _
    unfold crashRecover
    rw [h3, h4 key]
    exact (Eqv_iff _ _ _).mp (sweep_eqv t _ key)
  rw [habs]
  rcases hadm key with h | h
  · exact .inl (h t ht)
  · exact .inr (h t ht)

end Iora.Kv
