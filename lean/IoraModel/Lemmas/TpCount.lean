import IoraModel.Lemmas.TpNoRestart
/-!
# C09 — conservation: every accepted submission is in exactly one place (queue, a worker's hand, done),
and bodies are started exactly as often as tasks were taken into execution
-/
namespace Iora.ThreadPool

/-- `1` if the option is `some id` -/
def hd (o : Option Nat) (id : Nat) : Nat := if o = some id then 1 else 0

@[simp] theorem hd_none (id : Nat) : hd none id = 0 := by simp [hd]

/-- number of threads having task `id` in hand / running its body -/
def handCnt (l : List Thread) (id : Nat) : Nat := l.countP (fun th => decide (cur th = some id))
def runCnt (l : List Thread) (id : Nat) : Nat := l.countP (fun th => decide (running th = some id))

/-- P1 (conservation): `accepted = queued ⊎ in hand ⊎ done`, `started = running ⊎ done` -/
def Conserved (s : St) : Prop :=
  (∀ id, s.sh.tasks.count id + handCnt s.thr id + s.sh.doneCnt id = s.sh.accCnt id) ∧
  (∀ id, s.sh.startCnt id = runCnt s.thr id + s.sh.doneCnt id)

@[simp] theorem cur_wake (x : Thread) (b : Bool) : cur (wake x b) = cur x := by
  unfold wake; split <;> simp [cur]
@[simp] theorem running_wake (x : Thread) (b : Bool) : running (wake x b) = running x := by
  unfold wake; split <;> simp [running]

def postAdd (p : Thread → Bool) : Post → Nat
  | .spawn nt => if p nt then 1 else 0
  | _ => 0

theorem applyPost_countP (p : Thread → Bool) (hw : ∀ x b, p (wake x b) = p x) (l l' : List Thread) (post : Post) (alt : Nat)
    (h : applyPost l post alt = some l') :
    l'.countP p = l.countP p + postAdd p post := by
  cases post with
  | none => simp [applyPost] at h; subst h; simp [postAdd]
  | spawn nt => simp [applyPost] at h; subst h; simp [List.countP_append, List.countP_cons, postAdd]
  | wakeAll =>
    simp [applyPost] at h; subst h
    simp only [wakeAll]
    rw [countP_map_same p (fun th => wake th false) l (fun a => hw a false)]; simp [postAdd]
  | wakeOne =>
    simp only [applyPost, notifyOne] at h
    by_cases ha : anyAsleep l = true
    · rw [if_pos ha] at h
      cases hx : l[alt]? with
      | none => rw [hx] at h; cases h
      | some x =>
        rw [hx] at h
        simp only [] at h
        by_cases hs : isAsleep x = true
        · rw [if_pos hs] at h
          have h := (Option.some.inj h).symm
          subst h
          rw [countP_set_same p l alt x _ hx (hw x false)]; simp [postAdd]
        · rw [if_neg hs] at h; cases h
    · rw [if_neg ha] at h
      have h := (Option.some.inj h).symm
      subst h; simp [postAdd]

-- ---------------------------------------------------------------- local balance of every transition
/-- the ledger of one step: what it does to the queue and the counters, per task id; `c0 c1` = task in the acting
thread's hand before/after, `r0 r1` = task whose body it runs before/after -/
structure Balance (sh sh' : Shared) (c0 c1 r0 r1 : Option Nat) : Prop where
  queue : ∀ id, sh'.tasks.count id + hd c1 id + sh'.doneCnt id + sh.accCnt id = sh.tasks.count id + hd c0 id + sh.doneCnt id + sh'.accCnt id
  start : ∀ id, sh'.startCnt id + hd r0 id + sh.doneCnt id = sh.startCnt id + hd r1 id + sh'.doneCnt id

theorem bump_apply (f : Nat → Nat) (k i : Nat) : bump f k i = f i + hd (some k) i := by
  unfold bump hd; by_cases h : i = k
  · subst h; simp
  · have : ¬ (some k = some i) := by intro e; exact h (Option.some.inj e).symm
    simp [h, this]

theorem count_append_single (l : List Nat) (c id : Nat) : (l ++ [c]).count id = l.count id + hd (some c) id := by
  unfold hd
  by_cases h : c = id
  · subst h; simp [List.count_append]
  · have : ¬ (some c = some id) := by intro e; exact h (Option.some.inj e)
    simp [List.count_append, this, h]

theorem count_cons_hd (l : List Nat) (c id : Nat) : (c :: l).count id = l.count id + hd (some c) id := by
  unfold hd
  by_cases h : c = id
  · subst h; simp
  · have : ¬ (some c = some id) := by intro e; exact h (Option.some.inj e)
    simp [List.count_cons, this, h]

theorem balance_same (sh sh' : Shared) (c r : Option Nat) (h1 : sh'.tasks = sh.tasks) (h2 : sh'.accCnt = sh.accCnt)
    (h3 : sh'.startCnt = sh.startCnt) (h4 : sh'.doneCnt = sh.doneCnt) : Balance sh sh' c c r r := by
  constructor <;> intro i <;> simp [h1, h2, h3, h4]

theorem callStep_ledger (cfg : Cfg) (sh : Shared) (n : Nat) (t : Tid) (c : CallSt) (o r : Option Nat) :
    Balance sh (callStep cfg sh n t c).1 o o r r := by
  cases c with
  | yield_ sc =>
    cases sc with
    | nil => exact balance_same _ _ _ _ rfl rfl rfl rfl
    | cons a rest => simp only [callStep]; split <;> exact balance_same _ _ _ _ rfl rfl rfl rfl
  | inCall rest cid e =>
    cases e <;> simp only [callStep]
    · split
      · exact balance_same _ _ _ _ rfl rfl rfl rfl
      · split
        · exact balance_same _ _ _ _ rfl rfl rfl rfl
        · split <;> constructor <;> intro i <;> simp only [count_append_single, bump_apply] <;> omega
    all_goals exact balance_same _ _ _ _ rfl rfl rfl rfl

theorem bodyEnd_balance (cfg : Cfg) (sh : Shared) (id : Nat) :
    Balance sh (bodyEnd cfg sh id).1 (some id) none (some id) none := by
  unfold bodyEnd
  split <;> constructor <;> intro i <;> simp only [bump_apply, hd_none] <;> omega

theorem bodyEnd_cur (cfg : Cfg) (sh : Shared) (id : Nat) :
    cur (.worker (bodyEnd cfg sh id).2) = none ∧ running (.worker (bodyEnd cfg sh id).2) = none := by
  unfold bodyEnd; split <;> simp [cur, running]

theorem balance_trans {sh sh1 sh2 : Shared} {c0 c1 c2 r0 r1 r2 : Option Nat}
    (a : Balance sh sh1 c0 c1 r0 r1) (b : Balance sh1 sh2 c1 c2 r1 r2) : Balance sh sh2 c0 c2 r0 r2 := by
  constructor <;> intro i
  · have := a.queue i; have := b.queue i; omega
  · have := a.start i; have := b.start i; omega

theorem afterWait_balance (cfg : Cfg) (sh : Shared) (t : Tid) (res : Bool) :
    Balance sh (afterWait cfg sh t res).1 none (cur (.worker (afterWait cfg sh t res).2)) none
      (running (.worker (afterWait cfg sh t res).2)) := by
  unfold afterWait
  split
  · (repeat' split) <;> exact balance_same _ _ _ _ rfl rfl rfl rfl
  · split
    · exact balance_same _ _ _ _ rfl rfl rfl rfl
    · split
      · exact balance_same _ _ _ _ rfl rfl rfl rfl
      · next id' rest heq =>
        constructor <;> intro i <;> simp only [cur, running, heq, count_cons_hd, hd_none] <;> omega

theorem reacq_balance (cfg : Cfg) (sh : Shared) (t : Tid) (late : Bool) :
    Balance sh (reacq cfg sh t late).1 none (cur (.worker (reacq cfg sh t late).2)) none
      (running (.worker (reacq cfg sh t late).2)) := by
  unfold reacq
  split
  · have := afterWait_balance cfg { sh with owner := some t, waiting := sh.waiting - 1 } t (waitPred sh)
    exact ⟨this.queue, this.start⟩
  · split
    · have := afterWait_balance cfg { sh with owner := some t, waiting := sh.waiting - 1 } t true
      exact ⟨this.queue, this.start⟩
    · exact balance_same _ _ _ _ rfl rfl rfl rfl

theorem transW_balance (cfg : Cfg) (sh : Shared) (n : Nat) (t : Tid) (w : WSt) :
    Balance sh (transW cfg sh n t w).1 (cur (.worker w)) (cur (.worker (transW cfg sh n t w).2.1))
      (running (.worker w)) (running (.worker (transW cfg sh n t w).2.1)) := by
  cases w with
  | body id c =>
    simp only [transW]
    have h := callStep_ledger cfg sh n t c (some id) (some id)
    cases hx : (callStep cfg sh n t c).2.1 with
    | more c' => exact h
    | done =>
      have b := bodyEnd_balance cfg (callStep cfg sh n t c).1 id
      have e := bodyEnd_cur cfg (callStep cfg sh n t c).1 id
      simp only [e.1, e.2]
      exact balance_trans h b
  | lock =>
    simp only [transW]
    split
    · have := afterWait_balance cfg { sh with owner := some t } t true
      exact ⟨this.queue, this.start⟩
    · exact balance_same _ _ _ _ rfl rfl rfl rfl
  | unlockTask id =>
    simp only [transW, beginTask]
    split
    · exact balance_same _ _ _ _ rfl rfl rfl rfl
    · constructor <;> intro i <;> simp only [cur, running, bump_apply, hd_none] <;> omega
  | popped id =>
    simp only [transW, beginTask]
    constructor <;> intro i <;> simp only [cur, running, bump_apply, hd_none] <;> omega
  | bYield id sc =>
    simp only [transW]
    split
    · have e := bodyEnd_cur cfg sh id
      simp only [e.1, e.2]
      exact bodyEnd_balance cfg sh id
    · exact balance_same _ _ _ _ rfl rfl rfl rfl
  | cfgUnlock id again => simp only [transW, taskDone]; split <;> exact balance_same _ _ _ _ rfl rfl rfl rfl
  | _ => simp only [transW, taskDone] <;> exact balance_same _ _ _ _ rfl rfl rfl rfl

theorem transS_balance (cfg : Cfg) (sh : Shared) (n : Nat) (t : Tid) (x : SSt) :
    Balance sh (transS cfg sh n t x).1 none none none none := by
  cases x with
  | run c =>
    simp only [transS]
    have h := callStep_ledger cfg sh n t c none none
    cases hx : (callStep cfg sh n t c).2.1 <;> exact h
  | start sc => simp only [transS]; split <;> exact balance_same _ _ _ _ rfl rfl rfl rfl
  | done => simp only [transS]; exact balance_same _ _ _ _ rfl rfl rfl rfl

theorem pollExit_ledger (sh : Shared) (r : MRegs) (k : Poll) (d : Bool) :
    (pollExit sh r k d).1.tasks = sh.tasks ∧ (pollExit sh r k d).1.accCnt = sh.accCnt ∧
    (pollExit sh r k d).1.startCnt = sh.startCnt ∧ (pollExit sh r k d).1.doneCnt = sh.doneCnt := by
  unfold pollExit drainReturn; (repeat' split) <;> simp
theorem pollHead_ledger (sh : Shared) (r : MRegs) (k : Poll) :
    (pollHead sh r k).1.tasks = sh.tasks ∧ (pollHead sh r k).1.accCnt = sh.accCnt ∧
    (pollHead sh r k).1.startCnt = sh.startCnt ∧ (pollHead sh r k).1.doneCnt = sh.doneCnt := by
  unfold pollHead; split
  · simp
  · exact pollExit_ledger sh r k false
theorem stepMYield_ledger (cfg : Cfg) (sh : Shared) (r : MRegs) :
    (stepMYield cfg sh r).1.tasks = sh.tasks ∧ (stepMYield cfg sh r).1.accCnt = sh.accCnt ∧
    (stepMYield cfg sh r).1.startCnt = sh.startCnt ∧ (stepMYield cfg sh r).1.doneCnt = sh.doneCnt := by
  unfold stepMYield drainEnter; (repeat' split) <;> simp
theorem drainReturn_ledger (sh : Shared) (r : MRegs) (b : Bool) :
    (drainReturn sh r b).1.tasks = sh.tasks ∧ (drainReturn sh r b).1.accCnt = sh.accCnt ∧
    (drainReturn sh r b).1.startCnt = sh.startCnt ∧ (drainReturn sh r b).1.doneCnt = sh.doneCnt := by
  unfold drainReturn; (repeat' split) <;> simp
theorem shutdownReturn_ledger (sh : Shared) (r : MRegs) :
    (shutdownReturn sh r).1.tasks = sh.tasks ∧ (shutdownReturn sh r).1.accCnt = sh.accCnt ∧
    (shutdownReturn sh r).1.startCnt = sh.startCnt ∧ (shutdownReturn sh r).1.doneCnt = sh.doneCnt := by
  unfold shutdownReturn; (repeat' split) <;> simp
theorem dtorReturn_ledger (sh : Shared) (r : MRegs) :
    (dtorReturn sh r).1.tasks = sh.tasks ∧ (dtorReturn sh r).1.accCnt = sh.accCnt ∧
    (dtorReturn sh r).1.startCnt = sh.startCnt ∧ (dtorReturn sh r).1.doneCnt = sh.doneCnt := by
  unfold dtorReturn; simp

theorem balance_of_same (sh sh' : Shared) (h : sh'.tasks = sh.tasks ∧ sh'.accCnt = sh.accCnt ∧ sh'.startCnt = sh.startCnt ∧
    sh'.doneCnt = sh.doneCnt) : Balance sh sh' none none none none :=
  balance_same _ _ _ _ h.1 h.2.1 h.2.2.1 h.2.2.2

theorem dtorEarly_ledger (sh : Shared) (r : MRegs) :
    (dtorEarly sh r).1.tasks = sh.tasks ∧ (dtorEarly sh r).1.accCnt = sh.accCnt ∧
    (dtorEarly sh r).1.startCnt = sh.startCnt ∧ (dtorEarly sh r).1.doneCnt = sh.doneCnt := by
  unfold dtorEarly; split
  · exact dtorReturn_ledger sh r
  · simp

theorem transM_balance (cfg : Cfg) (sh : Shared) (n : Nat) (t : Tid) (pc : MPc) (r : MRegs) (alt : Nat) (hnr : restartPc pc = false) :
    Balance sh (transM cfg sh n t pc r alt).1 none none none none := by
  cases pc with
  | rsL => simp [restartPc] at hnr
  | inCall c =>
    simp only [transM]
    have h := callStep_ledger cfg sh n t c none none
    cases hx : (callStep cfg sh n t c).2.1 <;> exact h
  | _ =>
    apply balance_of_same
    simp only [transM] <;> (repeat' split) <;>
    (try simp only [pollExit_ledger, pollHead_ledger, stepMYield_ledger, drainReturn_ledger, shutdownReturn_ledger, dtorReturn_ledger, dtorEarly_ledger]) <;>
    simp

theorem trans_balance (cfg : Cfg) (sh : Shared) (n : Nat) (t : Tid) (th : Thread) (alt : Nat) (hnr : restartTh th = false) :
    Balance sh (trans cfg sh n t th alt).1 (cur th) (cur (trans cfg sh n t th alt).2.1)
      (running th) (running (trans cfg sh n t th alt).2.1) := by
  cases th with
  | main pc r => simpa [trans, cur, running] using transM_balance cfg sh n t pc r alt hnr
  | sub x => simpa [trans, cur, running] using transS_balance cfg sh n t x
  | worker w => simpa [trans] using transW_balance cfg sh n t w

theorem fresh_cur (nt : Thread) (h : isFresh nt = true) : cur nt = none ∧ running nt = none := by
  cases nt with
  | main pc r => simp [cur, running]
  | sub x => simp [cur, running]
  | worker w => cases w <;> simp [isFresh] at h; simp [cur, running]

theorem conserved_init (cfg : Cfg) : Conserved (init cfg) := by
  constructor <;> intro id <;> simp [init, handCnt, runCnt, cur, running]

/-- lifting: a step whose acting thread satisfies the local balance keeps the global conservation laws -/
theorem conserved_of_balance (s : St) (sh' : Shared) (t : Tid) (th th' : Thread) (l : List Thread)
    (h : Conserved s) (hget : s.thr[t]? = some th)
    (hb : Balance s.sh sh' (cur th) (cur th') (running th) (running th'))
    (hl1 : ∀ id, handCnt l id = handCnt (s.thr.set t th') id) (hl2 : ∀ id, runCnt l id = runCnt (s.thr.set t th') id) :
    Conserved { sh := sh', thr := l } := by
  obtain ⟨c1, c2⟩ := h
  constructor
  · intro id
    have e := countP_set (fun th => decide (cur th = some id)) s.thr t th th' hget
    have h1 := hb.queue id
    have h2 := c1 id
    have h3 := hl1 id
    simp only [handCnt, hd, decide_eq_true_eq] at e h1 h2 h3 ⊢
    omega
  · intro id
    have e := countP_set (fun th => decide (running th = some id)) s.thr t th th' hget
    have h1 := hb.start id
    have h2 := c2 id
    have h3 := hl2 id
    simp only [runCnt, hd, decide_eq_true_eq] at e h1 h2 h3 ⊢
    omega

theorem woken_cur (th : Thread) (to : Bool) (h : wokenBy th = some to) : cur th = none ∧ running th = none := by
  cases th with
  | main pc r => simp [wokenBy] at h
  | sub x => simp [wokenBy] at h
  | worker w => cases w <;> simp [wokenBy] at h; simp [cur, running]

theorem conserved_step (cfg : Cfg) (s : St) (c : Choice) (hn : NoRs s) (h : Conserved s) : Conserved (step cfg s c) := by
  apply step_cases cfg s c Conserved
  · exact h
  · intro t th b hget _
    obtain ⟨c1, c2⟩ := h
    constructor <;> intro id
    · have := countP_set_same (fun th => decide (cur th = some id)) s.thr t th (wake th b) hget (by simp)
      simp only [handCnt] at *; rw [this]; exact c1 id
    · have := countP_set_same (fun th => decide (running th = some id)) s.thr t th (wake th b) hget (by simp)
      simp only [runCnt] at *; rw [this]; exact c2 id
  · intro t th to late hget hw _
    have hb := reacq_balance cfg s.sh t late
    apply conserved_of_balance s _ t th (.worker (reacq cfg s.sh t late).2) _ h hget
    · rw [(woken_cur th to hw).1, (woken_cur th to hw).2]; exact hb
    · intro id; rfl
    · intro id; rfl
  · intro t th alt l hget _ _ _ _ hp
    have hb := trans_balance cfg s.sh s.thr.length t th alt (hn t th hget)
    apply conserved_of_balance s _ t th _ l h hget hb
    · intro id
      have := applyPost_countP (fun th => decide (cur th = some id)) (by simp) _ l _ alt hp
      simp only [handCnt]; rw [this]
      cases hpost : (trans cfg s.sh s.thr.length t th alt).2.2 with
      | spawn nt => simp [postAdd, (fresh_cur nt (trans_spawn cfg s.sh s.thr.length t th alt nt hpost)).1]
      | _ => simp [postAdd]
    · intro id
      have := applyPost_countP (fun th => decide (running th = some id)) (by simp) _ l _ alt hp
      simp only [runCnt]; rw [this]
      cases hpost : (trans cfg s.sh s.thr.length t th alt).2.2 with
      | spawn nt => simp [postAdd, (fresh_cur nt (trans_spawn cfg s.sh s.thr.length t th alt nt hpost)).2]
      | _ => simp [postAdd]

theorem conserved_run (cfg : Cfg) (hr : cfg.allowRestart = false) (sched : List Choice) : Conserved (run cfg sched) := by
  have : NoRs (run cfg sched) ∧ Conserved (run cfg sched) :=
    inv_run cfg (fun s => NoRs s ∧ Conserved s) ⟨noRs_init cfg, conserved_init cfg⟩
      (fun s c h => ⟨noRs_step cfg hr s c h.1, conserved_step cfg s c h.1 h.2⟩) sched
  exact this.2

end Iora.ThreadPool
