import IoraModel.Model.Teardown
/-! Invariants of the teardown model (C05) and their preservation by every step that respects the environment contract. -/
namespace Iora.Teardown
set_option linter.unusedSimpArgs false
set_option linter.unusedVariables false

/-- the program counter fits the kind of call -/
def kindOk (t : Thread) : Bool :=
  match t.kind, t.pc with
  | _, .notStarted | _, .done _ => true
  | .recv _, .parked _ => true
  | .conn, .parked _ | .conn, .window | .conn, .relock => true
  | .flush, .floop | .flush, .fcb | .flush, .fend _ | .flush, .fdtor => true
  | _, _ => false

/-! the regenerated values the model is instantiated with (a change of the source that flips one breaks the build here) -/
theorem gated_r : gated "activeReceives" = true := by decide
theorem gated_c : gated "activeConnects" = true := by decide
theorem gated_f : gated "activeFlushes" = true := by decide
theorem nrIo_true : nrIo = true := by decide
theorem nrStopped_true : nrStopped = true := by decide
theorem ioBranch_ok : ioBranchIdentityOnly = true := by decide
theorem guard_ok (op : SyncOp) : guardIdentityOnly op = true := by cases op <;> decide

/-- the wait predicate is the conjunction of all three counters being zero -/
theorem gate_def (s : State) : gate s = (s.activeReceives == 0 && s.activeConnects == 0 && s.activeFlushes == 0) := by
  simp [gate, gated_r, gated_c, gated_f]

theorem inside_counted {t : Thread} (hk : kindOk t = true) (hi : inside t.pc = true) :
    countedRecv t = true ∨ countedConn t = true ∨ countedFlush t = true := by
  cases t with
  | mk kind pc completed =>
    cases kind <;> cases pc <;> simp_all [kindOk, inside, countedRecv, countedConn, countedFlush]

theorem get_set {l : List Thread} {i j : Nat} {x u : Thread} (hj : (l.set i x)[j]? = some u) :
    (j = i ∧ u = x) ∨ (j ≠ i ∧ l[j]? = some u) := by
  rw [List.getElem?_set] at hj
  split at hj
  · rename_i h; split at hj
    · simp at hj; exact Or.inl ⟨h.symm, hj.symm⟩
    · simp at hj
  · rename_i h; exact Or.inr ⟨fun h' => h h'.symm, hj⟩

theorem lt_of_get {l : List Thread} {i : Nat} {t : Thread} (h : l[i]? = some t) : i < l.length := by
  rcases Nat.lt_or_ge i l.length with h' | h'
  · exact h'
  · simp [List.getElem?_eq_none h'] at h

theorem countP_set_add (p : Thread → Bool) {l : List Thread} {i : Nat} {t : Thread} (x : Thread) (h : l[i]? = some t) :
    (l.set i x).countP p + (if p t = true then 1 else 0) = l.countP p + (if p x = true then 1 else 0) := by
  induction l generalizing i with
  | nil => simp at h
  | cons a rest ih =>
    cases i with
    | zero =>
      simp at h; subst h
      simp [List.countP_cons]; omega
    | succ n =>
      simp at h
      have := ih h
      simp [List.set_cons_succ, List.countP_cons]; omega

theorem countP_pos_of_get (p : Thread → Bool) {l : List Thread} {i : Nat} {t : Thread} (h : l[i]? = some t) (hp : p t = true) :
    0 < l.countP p := by
  have hm : t ∈ l := List.mem_iff_getElem?.mpr ⟨i, h⟩
  exact List.countP_pos_iff.mpr ⟨t, hm, hp⟩

/-- `wakeAll` only flips `awake` flags -/
def woken (t : Thread) : Thread := match t.pc with | .parked _ => { t with pc := .parked true } | _ => t

theorem get_wakeAll {q : Thread → Bool} {l : List Thread} {j : Nat} {u : Thread} (hj : (wakeAll q l)[j]? = some u) :
    ∃ t, l[j]? = some t ∧ u = (if q t = true then woken t else t) := by
  unfold wakeAll at hj
  rw [List.getElem?_map] at hj
  cases ht : l[j]? with
  | none => simp [ht] at hj
  | some t =>
    simp [ht] at hj
    refine ⟨t, rfl, ?_⟩
    cases hp : t.pc <;> simp_all [woken]
    all_goals (split <;> simp_all)

theorem woken_props (t : Thread) :
    (woken t).kind = t.kind ∧ (woken t).completed = t.completed ∧ kindOk (woken t) = kindOk t ∧
    inside (woken t).pc = inside t.pc ∧ countedRecv (woken t) = countedRecv t ∧ countedConn (woken t) = countedConn t ∧
    countedFlush (woken t) = countedFlush t := by
  cases t with
  | mk kind pc completed => cases kind <;> cases pc <;> simp [woken, kindOk, inside, countedRecv, countedConn, countedFlush]

theorem countP_wakeAll (p : Thread → Bool) (hp : ∀ t, p (woken t) = p t) (q : Thread → Bool) (l : List Thread) :
    (wakeAll q l).countP p = l.countP p := by
  unfold wakeAll
  rw [List.countP_map]
  congr 1
  funext t
  simp only [Function.comp]
  have := hp t
  cases h : t.pc <;> simp_all [woken]
  split <;> simp_all

theorem countP_zero_get (p : Thread → Bool) {l : List Thread} (h : l.countP p = 0) {j : Nat} {t : Thread} (hj : l[j]? = some t) :
    p t = false := by
  have := (List.countP_eq_zero.mp h) t (List.mem_iff_getElem?.mpr ⟨j, hj⟩)
  simpa using this

structure Inv (s : State) : Prop where
  KP : ∀ (j : Nat) (t : Thread), s.threads[j]? = some t → kindOk t = true
  CR : s.activeReceives = s.threads.countP countedRecv
  CC : s.activeConnects = s.threads.countP countedConn
  CF : s.activeFlushes = s.threads.countP countedFlush
  WC : waitCompleted s.td = true → ∀ (j : Nat) (t : Thread), s.threads[j]? = some t → inside t.pc = false
  IA : s.implAlive = false → s.td = .destroyed
  UAF : s.uaf = false
  FS : s.td ≠ .idle → s.shuttingDown = true
  RN : s.recvNotified = true → s.shuttingDown = true
  Wc : s.shuttingDown = true → ∀ (j : Nat) (t : Thread) (a : Bool), s.threads[j]? = some t → t.kind = .conn → t.pc = .parked a → a = true
  Wd : ∀ (j : Nat) (t : Thread) (a : Bool), s.threads[j]? = some t → t.kind = .conn → t.completed = true → t.pc = .parked a → a = true
  Wr : ∀ (j : Nat) (t : Thread) (sid : Nat) (a : Bool), s.threads[j]? = some t → t.kind = .recv sid → s.closed sid = true → t.pc = .parked a → a = true
  Wn : s.recvNotified = true → ∀ (j : Nat) (t : Thread) (a : Bool), s.threads[j]? = some t → isRecv t = true → t.pc = .parked a → a = true
  Wt : s.td = .waiting false ∨ s.td = .ioWaiting false → gate s = false
  IO1 : Ev.stopReturned ∈ s.log → s.ioAlive = false
  IO2 : s.running = false → s.stopJoining = true ∨ s.td ≠ .idle ∨ s.ioAlive = false

theorem Inv_mk (threads : List Thread) (live : List Nat) (h : ∀ t ∈ threads, t.pc = .notStarted) : Inv (mk threads live) := by
  have hget : ∀ (j : Nat) (t : Thread), threads[j]? = some t → t.pc = .notStarted :=
    fun j t hj => h t (List.mem_iff_getElem?.mpr ⟨j, hj⟩)
  have hz : ∀ (p : Thread → Bool), (∀ t, t.pc = .notStarted → p t = false) → threads.countP p = 0 := by
    intro p hp
    apply List.countP_eq_zero.mpr
    intro t ht; simp [hp t (h t ht)]
  constructor
  · intro j t hj; have := hget j t hj; cases t with | mk k pc c => simp_all [kindOk]
  · exact (hz countedRecv (by intro t ht; cases t with | mk k pc c => simp_all [countedRecv])).symm
  · exact (hz countedConn (by intro t ht; cases t with | mk k pc c => simp_all [countedConn])).symm
  · exact (hz countedFlush (by intro t ht; cases t with | mk k pc c => simp_all [countedFlush])).symm
  · simp [mk, waitCompleted]
  · simp [mk]
  · simp [mk]
  · simp [mk]
  · simp [mk]
  · intro _ j t a hj _ hp; have := hget j t hj; simp_all [mk]
  · intro j t a hj _ _ hp; have := hget j t hj; simp_all [mk]
  · intro j t sid a hj _ _ hp; have := hget j t hj; simp_all [mk]
  · simp [mk]
  · simp [mk]
  · simp [mk]
  · simp [mk]

theorem notifyTd_cases (td : Td) :
    (notifyTd td = td ∧ td ≠ .waiting false ∧ td ≠ .ioWaiting false) ∨ (td = .waiting false ∧ notifyTd td = .waiting true) ∨
    (td = .ioWaiting false ∧ notifyTd td = .ioWaiting true) := by
  cases td <;> simp [notifyTd]
  all_goals (rename_i a; cases a <;> simp)

theorem waitCompleted_notifyTd (td : Td) : waitCompleted (notifyTd td) = waitCompleted td := by
  cases td <;> simp [notifyTd, waitCompleted]

theorem notifyTd_idle (td : Td) : notifyTd td = .idle ↔ td = .idle := by
  cases td <;> simp [notifyTd]

/-- generic preservation lemma for a step of ONE application thread: thread `i` goes from `t` to `t'` -/
theorem upd_inv {s s' : State} (h : Inv s) {i : Nat} {t t' : Thread} (hi : s.threads[i]? = some t)
    (hth : s'.threads = s.threads.set i t') (hk : kindOk t' = true) (hkind : t'.kind = t.kind)
    (hR : s'.activeReceives + (if countedRecv t = true then 1 else 0) = s.activeReceives + (if countedRecv t' = true then 1 else 0))
    (hC : s'.activeConnects + (if countedConn t = true then 1 else 0) = s.activeConnects + (if countedConn t' = true then 1 else 0))
    (hF : s'.activeFlushes + (if countedFlush t = true then 1 else 0) = s.activeFlushes + (if countedFlush t' = true then 1 else 0))
    (hsh : s'.shuttingDown = s.shuttingDown) (hcl : s'.closed = s.closed) (hrn : s'.recvNotified = s.recvNotified)
    (htd : (s'.td = s.td ∧ s.activeReceives ≤ s'.activeReceives ∧ s.activeConnects ≤ s'.activeConnects ∧
             s.activeFlushes ≤ s'.activeFlushes) ∨ s'.td = notifyTd s.td)
    (hia : s'.implAlive = s.implAlive) (hio : s'.ioAlive = s.ioAlive) (hrun : s'.running = s.running)
    (hsj : s'.stopJoining = s.stopJoining) (huaf : s'.uaf = false)
    (hin : waitCompleted s.td = true → inside t'.pc = false)
    (hpk : ∀ a, t'.pc = .parked a → a = true ∨ (s.shuttingDown = false ∧ (t'.kind = .conn → t'.completed = false) ∧
              ∀ sid, t'.kind = .recv sid → s.closed sid = false))
    (hlog : Ev.stopReturned ∈ s'.log → Ev.stopReturned ∈ s.log) : Inv s' := by
  have hwc' : waitCompleted s'.td = waitCompleted s.td := by
    rcases htd with ⟨h1, _⟩ | h1
    · rw [h1]
    · rw [h1, waitCompleted_notifyTd]
  have hidle : s'.td = .idle ↔ s.td = .idle := by
    rcases htd with ⟨h1, _⟩ | h1
    · rw [h1]
    · rw [h1, notifyTd_idle]
  constructor
  · intro j u hj; rw [hth] at hj
    rcases get_set hj with ⟨_, rfl⟩ | ⟨_, h'⟩
    · exact hk
    · exact h.KP j u h'
  · have := countP_set_add countedRecv t' hi; rw [hth]; have := h.CR; omega
  · have := countP_set_add countedConn t' hi; rw [hth]; have := h.CC; omega
  · have := countP_set_add countedFlush t' hi; rw [hth]; have := h.CF; omega
  · intro hw j u hj; rw [hth] at hj; rw [hwc'] at hw
    rcases get_set hj with ⟨_, rfl⟩ | ⟨_, h'⟩
    · exact hin hw
    · exact h.WC hw j u h'
  · intro hf; rw [hia] at hf
    have hd := h.IA hf
    rcases htd with ⟨h1, _⟩ | h1
    · rw [h1]; exact hd
    · rw [h1, hd]; rfl
  · exact huaf
  · intro hne; rw [hsh]; exact h.FS (fun hh => hne (hidle.mpr hh))
  · intro hh; rw [hrn] at hh; rw [hsh]; exact h.RN hh
  · intro hs j u a hj hku hpu; rw [hth] at hj; rw [hsh] at hs
    rcases get_set hj with ⟨_, rfl⟩ | ⟨_, h'⟩
    · rcases hpk a hpu with h1 | ⟨h1, _⟩
      · exact h1
      · simp [hs] at h1
    · exact h.Wc hs j u a h' hku hpu
  · intro j u a hj hku hcu hpu; rw [hth] at hj
    rcases get_set hj with ⟨_, rfl⟩ | ⟨_, h'⟩
    · rcases hpk a hpu with h1 | ⟨_, h1, _⟩
      · exact h1
      · have := h1 hku; simp [hcu] at this
    · exact h.Wd j u a h' hku hcu hpu
  · intro j u sid a hj hku hcs hpu; rw [hth] at hj; rw [hcl] at hcs
    rcases get_set hj with ⟨_, rfl⟩ | ⟨_, h'⟩
    · rcases hpk a hpu with h1 | ⟨_, _, h1⟩
      · exact h1
      · have := h1 sid hku; simp [hcs] at this
    · exact h.Wr j u sid a h' hku hcs hpu
  · intro hr j u a hj hru hpu; rw [hth] at hj; rw [hrn] at hr
    rcases get_set hj with ⟨_, rfl⟩ | ⟨_, h'⟩
    · rcases hpk a hpu with h1 | ⟨h1, _⟩
      · exact h1
      · have := h.RN hr; simp [this] at h1
    · exact h.Wn hr j u a h' hru hpu
  · intro hw
    rcases htd with ⟨h1, h2, h3, h4⟩ | h1
    · rw [h1] at hw
      have := h.Wt hw
      simp only [gate_def, Bool.and_eq_false_iff, beq_eq_false_iff_ne] at this ⊢
      rcases this with (hx | hx) | hx
      · exact Or.inl (Or.inl (by omega))
      · exact Or.inl (Or.inr (by omega))
      · exact Or.inr (by omega)
    · rw [h1] at hw
      rcases notifyTd_cases s.td with ⟨h2, h3, h4⟩ | ⟨_, h2⟩ | ⟨_, h2⟩
      · rw [h2] at hw; rcases hw with hw | hw
        · exact absurd hw h3
        · exact absurd hw h4
      · rw [h2] at hw; simp at hw
      · rw [h2] at hw; simp at hw
  · intro hl; rw [hio]; exact h.IO1 (hlog hl)
  · intro hr; rw [hrun] at hr; rw [hsj, hio]
    rcases h.IO2 hr with h1 | h1 | h1
    · exact Or.inl h1
    · exact Or.inr (Or.inl (fun hh => h1 (hidle.mp hh)))
    · exact Or.inr (Or.inr h1)

theorem alive_of_not_destroyed {s : State} (h : Inv s) (hw : s.td ≠ .destroyed) : s.implAlive = true := by
  cases hia : s.implAlive with
  | true => rfl
  | false => exact absurd (h.IA hia) hw

theorem alive_of_not_completed {s : State} (h : Inv s) (hw : waitCompleted s.td = false) : s.implAlive = true := by
  apply alive_of_not_destroyed h
  intro hd; rw [hd] at hw; simp [waitCompleted] at hw

theorem touch_id {s : State} (h : Inv s) (hw : waitCompleted s.td = false) : touch s = s := by
  simp [touch, alive_of_not_completed h hw]

theorem not_completed_of_inside {s : State} (h : Inv s) {i : Nat} {t : Thread} (hi : s.threads[i]? = some t)
    (hin : inside t.pc = true) : waitCompleted s.td = false := by
  cases hw : waitCompleted s.td with
  | false => rfl
  | true => have := h.WC hw i t hi; simp [hin] at this

macro "side" : tactic =>
  `(tactic| first
    | rfl
    | (simp_all [kindOk, inside, countedRecv, countedConn, countedFlush, setT, notifyTd]; done)
    | (simp_all [kindOk, inside, countedRecv, countedConn, countedFlush, setT, notifyTd]; omega))

theorem woken_parked {t : Thread} {a : Bool} (h : (woken t).pc = .parked a) : a = true ∧ ∃ b, t.pc = .parked b := by
  cases t with
  | mk k pc c => cases pc <;> simp_all [woken]

theorem gate_no_inside {s : State} (h : Inv s) (hg : gate s = true) :
    ∀ (j : Nat) (t : Thread), s.threads[j]? = some t → inside t.pc = false := by
  intro j t hj
  simp only [gate_def, Bool.and_eq_true, beq_iff_eq] at hg
  obtain ⟨⟨h1, h2⟩, h3⟩ := hg
  have c1 := countP_zero_get countedRecv (by rw [← h.CR]; exact h1) hj
  have c2 := countP_zero_get countedConn (by rw [← h.CC]; exact h2) hj
  have c3 := countP_zero_get countedFlush (by rw [← h.CF]; exact h3) hj
  cases hi : inside t.pc with
  | false => rfl
  | true => rcases inside_counted (h.KP j t hj) hi with h' | h' | h' <;> simp_all

/-- generic preservation lemma for a step that only flips `awake` flags (`wakeAll q`) and raises flags -/
theorem wake_inv {s s' : State} (h : Inv s) (q : Thread → Bool) (hth : s'.threads = wakeAll q s.threads)
    (hR : s'.activeReceives = s.activeReceives) (hC : s'.activeConnects = s.activeConnects)
    (hF : s'.activeFlushes = s.activeFlushes) (htd : s'.td = s.td) (hia : s'.implAlive = s.implAlive)
    (hio : s'.ioAlive = s.ioAlive) (hrun : s'.running = s.running) (hsj : s'.stopJoining = s.stopJoining)
    (huaf : s'.uaf = s.uaf) (hlog : Ev.stopReturned ∈ s'.log → Ev.stopReturned ∈ s.log)
    (hsh : s.shuttingDown = true → s'.shuttingDown = true)
    (hrn : s'.recvNotified = true → s'.shuttingDown = true)
    (hfs : s.td ≠ .idle → s'.shuttingDown = true)
    (hWc : s'.shuttingDown = true → s.shuttingDown = true ∨ ∀ t, t.kind = .conn → q t = true)
    (hWr : ∀ sid, s'.closed sid = true → s.closed sid = true ∨ ∀ t, t.kind = .recv sid → q t = true)
    (hWn : s'.recvNotified = true → s.recvNotified = true ∨ ∀ t, isRecv t = true → q t = true) : Inv s' := by
  have key : ∀ (j : Nat) (u : Thread), s'.threads[j]? = some u →
      ∃ t, s.threads[j]? = some t ∧ u = (if q t = true then woken t else t) := by
    intro j u hj; rw [hth] at hj; exact get_wakeAll hj
  constructor
  · intro j u hj; obtain ⟨t, ht, rfl⟩ := key j u hj
    split
    · rw [(woken_props t).2.2.1]; exact h.KP j t ht
    · exact h.KP j t ht
  · rw [hth, hR, countP_wakeAll _ (fun t => (woken_props t).2.2.2.2.1)]; exact h.CR
  · rw [hth, hC, countP_wakeAll _ (fun t => (woken_props t).2.2.2.2.2.1)]; exact h.CC
  · rw [hth, hF, countP_wakeAll _ (fun t => (woken_props t).2.2.2.2.2.2)]; exact h.CF
  · intro hw j u hj; rw [htd] at hw; obtain ⟨t, ht, rfl⟩ := key j u hj
    split
    · rw [(woken_props t).2.2.2.1]; exact h.WC hw j t ht
    · exact h.WC hw j t ht
  · intro hf; rw [hia] at hf; rw [htd]; exact h.IA hf
  · rw [huaf]; exact h.UAF
  · intro hne; rw [htd] at hne; exact hfs hne
  · exact hrn
  · intro hs j u a hj hku hpu; obtain ⟨t, ht, rfl⟩ := key j u hj
    split at hpu
    · exact (woken_parked hpu).1
    · rename_i hq
      simp only [hq, if_false] at hku
      rcases hWc hs with h1 | h1
      · exact h.Wc h1 j t a ht hku hpu
      · exact absurd (h1 t hku) hq
  · intro j u a hj hku hcu hpu; obtain ⟨t, ht, rfl⟩ := key j u hj
    split at hpu
    · exact (woken_parked hpu).1
    · rename_i hq
      simp only [hq, if_false] at hku hcu
      exact h.Wd j t a ht hku hcu hpu
  · intro j u sid a hj hku hcs hpu; obtain ⟨t, ht, rfl⟩ := key j u hj
    split at hpu
    · exact (woken_parked hpu).1
    · rename_i hq
      simp only [hq, if_false] at hku
      rcases hWr sid hcs with h1 | h1
      · exact h.Wr j t sid a ht hku h1 hpu
      · exact absurd (h1 t hku) hq
  · intro hr j u a hj hru hpu; obtain ⟨t, ht, rfl⟩ := key j u hj
    split at hpu
    · exact (woken_parked hpu).1
    · rename_i hq
      simp only [hq, if_false] at hru
      rcases hWn hr with h1 | h1
      · exact h.Wn h1 j t a ht hru hpu
      · exact absurd (h1 t hru) hq
  · intro hw; rw [htd] at hw
    have := h.Wt hw
    simpa [gate_def, hR, hC, hF] using this
  · intro hl; rw [hio]; exact h.IO1 (hlog hl)
  · intro hr; rw [hrun] at hr; rw [hsj, hio, htd]; exact h.IO2 hr

/-- generic preservation lemma for a step that leaves threads, counters and the wake-relevant flags alone -/
theorem frame_inv {s s' : State} (h : Inv s) (hth : s'.threads = s.threads)
    (hR : s'.activeReceives = s.activeReceives) (hC : s'.activeConnects = s.activeConnects)
    (hF : s'.activeFlushes = s.activeFlushes) (hsh : s'.shuttingDown = s.shuttingDown) (hcl : s'.closed = s.closed)
    (hrn : s'.recvNotified = s.recvNotified) (huaf : s'.uaf = false)
    (hWC : waitCompleted s'.td = true → ∀ (j : Nat) (t : Thread), s.threads[j]? = some t → inside t.pc = false)
    (hIA : s'.implAlive = false → s'.td = .destroyed)
    (hFS : s'.td ≠ .idle → s.shuttingDown = true)
    (hWt : s'.td = .waiting false ∨ s'.td = .ioWaiting false → gate s = false)
    (hIO1 : Ev.stopReturned ∈ s'.log → s'.ioAlive = false)
    (hIO2 : s'.running = false → s'.stopJoining = true ∨ s'.td ≠ .idle ∨ s'.ioAlive = false) : Inv s' := by
  constructor
  · intro j t hj; rw [hth] at hj; exact h.KP j t hj
  · rw [hth, hR]; exact h.CR
  · rw [hth, hC]; exact h.CC
  · rw [hth, hF]; exact h.CF
  · intro hw j t hj; rw [hth] at hj; exact hWC hw j t hj
  · exact hIA
  · exact huaf
  · intro hne; rw [hsh]; exact hFS hne
  · intro hr; rw [hrn] at hr; rw [hsh]; exact h.RN hr
  · intro hs j t a hj; rw [hth] at hj; rw [hsh] at hs; exact h.Wc hs j t a hj
  · intro j t a hj; rw [hth] at hj; exact h.Wd j t a hj
  · intro j t sid a hj hk hc; rw [hth] at hj; rw [hcl] at hc; exact h.Wr j t sid a hj hk hc
  · intro hr j t a hj; rw [hth] at hj; rw [hrn] at hr; exact h.Wn hr j t a hj
  · intro hw; have := hWt hw; simpa [gate_def, hR, hC, hF] using this
  · exact hIO1
  · exact hIO2

theorem touch_alive {s : State} (hal : s.implAlive = true) : touch s = s := by simp [touch, hal]

theorem doEnter_inv {s : State} (h : Inv s) (i : Nat) (hok : ok s (.enter i) = true) : Inv (doEnter s i) := by
  have hw : waitCompleted s.td = false := by simpa [ok] using hok
  have ht := touch_id h hw
  unfold doEnter
  split
  · rename_i t hi
    split
    · rename_i hpc
      simp only [ht]
      have hkp := h.KP i t hi
      split
      · -- fence: rejected without parking
        refine upd_inv h hi rfl ?_ rfl ?_ ?_ ?_ rfl rfl rfl (Or.inl ⟨rfl, Nat.le_refl _, Nat.le_refl _, Nat.le_refl _⟩)
          rfl rfl rfl rfl h.UAF ?_ ?_ ?_
        all_goals (cases t with | mk k pc c => cases k <;> simp_all [kindOk, inside, countedRecv, countedConn, countedFlush])
      · rename_i hsh
        have hsh' : s.shuttingDown = false := by simpa using hsh
        cases hk : t.kind with
        | recv sid =>
          simp only []
          split
          · refine upd_inv h hi rfl ?_ (by simp [hk]) ?_ ?_ ?_ rfl rfl rfl (Or.inl ⟨rfl, Nat.le_refl _, Nat.le_refl _, Nat.le_refl _⟩)
              rfl rfl rfl rfl h.UAF ?_ ?_ ?_
            all_goals (cases t with | mk k pc c => simp_all [kindOk, inside, countedRecv, countedConn, countedFlush])
          · rename_i hcl
            refine upd_inv h hi rfl ?_ (by simp [hk]) ?_ ?_ ?_ rfl rfl rfl (Or.inl ⟨rfl, Nat.le_succ _, Nat.le_refl _, Nat.le_refl _⟩)
              rfl rfl rfl rfl h.UAF ?_ ?_ ?_
            all_goals (cases t with | mk k pc c => simp_all [kindOk, inside, countedRecv, countedConn, countedFlush])
        | conn =>
          simp only []
          refine upd_inv h hi rfl ?_ (by simp [hk]) ?_ ?_ ?_ rfl rfl rfl (Or.inl ⟨rfl, Nat.le_refl _, Nat.le_succ _, Nat.le_refl _⟩)
            rfl rfl rfl rfl h.UAF ?_ ?_ ?_
          all_goals (cases t with | mk k pc c => simp_all [kindOk, inside, countedRecv, countedConn, countedFlush])
        | flush =>
          simp only []
          refine upd_inv h hi rfl ?_ (by simp [hk]) ?_ ?_ ?_ rfl rfl rfl (Or.inl ⟨rfl, Nat.le_refl _, Nat.le_refl _, Nat.le_succ _⟩)
            rfl rfl rfl rfl h.UAF ?_ ?_ ?_
          all_goals (cases t with | mk k pc c => simp_all [kindOk, inside, countedRecv, countedConn, countedFlush])
    · exact h
  · exact h

theorem doWake_inv {s : State} (h : Inv s) (i : Nat) (to : Bool) : Inv (doWake s i to) := by
  unfold doWake
  split
  · rename_i t hi
    obtain ⟨k, pc, c⟩ := t
    cases pc <;> try exact h
    rename_i a
    have hw := not_completed_of_inside h hi (by simp [inside])
    have hkp := h.KP i _ hi
    simp only [touch_id h hw]
    cases k with
    | recv sid =>
      simp only []
      have hpos : 0 < s.activeReceives := by rw [h.CR]; exact countP_pos_of_get _ hi (by simp [countedRecv])
      split
      · refine upd_inv h hi rfl ?_ rfl ?_ ?_ ?_ rfl rfl rfl (Or.inr rfl) rfl rfl rfl rfl h.UAF ?_ ?_ ?_
        all_goals (first | (simp_all [kindOk, inside, countedRecv, countedConn, countedFlush]; done) | (simp_all [kindOk, inside, countedRecv, countedConn, countedFlush]; omega))
      · rename_i hc
        simp only [Bool.or_eq_true, not_or, Bool.not_eq_true] at hc
        refine upd_inv h hi rfl ?_ rfl ?_ ?_ ?_ rfl rfl rfl (Or.inl ⟨rfl, Nat.le_refl _, Nat.le_refl _, Nat.le_refl _⟩)
          rfl rfl rfl rfl h.UAF ?_ ?_ ?_
        all_goals (first | (simp_all [kindOk, inside, countedRecv, countedConn, countedFlush]; done) | (simp_all [kindOk, inside, countedRecv, countedConn, countedFlush]; omega))
    | conn =>
      simp only []
      have hpos : 0 < s.activeConnects := by rw [h.CC]; exact countP_pos_of_get _ hi (by simp [countedConn])
      split
      · refine upd_inv h hi rfl ?_ rfl ?_ ?_ ?_ rfl rfl rfl (Or.inr rfl) rfl rfl rfl rfl h.UAF ?_ ?_ ?_
        all_goals (first | (simp_all [kindOk, inside, countedRecv, countedConn, countedFlush]; done) | (simp_all [kindOk, inside, countedRecv, countedConn, countedFlush]; omega))
      · split
        · refine upd_inv h hi rfl ?_ rfl ?_ ?_ ?_ rfl rfl rfl (Or.inr rfl) rfl rfl rfl rfl h.UAF ?_ ?_ ?_
          all_goals (first | (simp_all [kindOk, inside, countedRecv, countedConn, countedFlush]; done) | (simp_all [kindOk, inside, countedRecv, countedConn, countedFlush]; omega))
        · split
          · refine upd_inv h hi rfl ?_ rfl ?_ ?_ ?_ rfl rfl rfl (Or.inl ⟨rfl, Nat.le_refl _, Nat.le_refl _, Nat.le_refl _⟩)
              rfl rfl rfl rfl h.UAF ?_ ?_ ?_
            all_goals (first | (simp_all [kindOk, inside, countedRecv, countedConn, countedFlush]; done) | (simp_all [kindOk, inside, countedRecv, countedConn, countedFlush]; omega))
          · refine upd_inv h hi rfl ?_ rfl ?_ ?_ ?_ rfl rfl rfl (Or.inl ⟨rfl, Nat.le_refl _, Nat.le_refl _, Nat.le_refl _⟩)
              rfl rfl rfl rfl h.UAF ?_ ?_ ?_
            all_goals (first | (simp_all [kindOk, inside, countedRecv, countedConn, countedFlush]; done) | (simp_all [kindOk, inside, countedRecv, countedConn, countedFlush]; omega))
    | flush => exact h
  · exact h

theorem doConnClose_inv {s : State} (h : Inv s) (i : Nat) : Inv (doConnClose s i) := by
  unfold doConnClose
  split
  · rename_i t hi
    obtain ⟨k, pc, c⟩ := t
    cases pc <;> try exact h
    have hw := not_completed_of_inside h hi (by simp [inside])
    have hkp := h.KP i _ hi
    simp only [touch_id h hw]
    refine upd_inv h hi rfl ?_ rfl ?_ ?_ ?_ rfl rfl rfl (Or.inl ⟨rfl, Nat.le_refl _, Nat.le_refl _, Nat.le_refl _⟩)
      rfl rfl rfl rfl h.UAF ?_ ?_ ?_
    all_goals (cases k <;> simp_all [kindOk, inside, countedRecv, countedConn, countedFlush])
  · exact h

theorem doConnRelock_inv {s : State} (h : Inv s) (i : Nat) : Inv (doConnRelock s i) := by
  unfold doConnRelock
  split
  · rename_i t hi
    obtain ⟨k, pc, c⟩ := t
    cases pc <;> try exact h
    have hw := not_completed_of_inside h hi (by simp [inside])
    have hkp := h.KP i _ hi
    simp only [touch_id h hw]
    cases k <;> simp [kindOk] at hkp
    have hpos : 0 < s.activeConnects := by rw [h.CC]; exact countP_pos_of_get _ hi (by simp [countedConn])
    refine upd_inv h hi rfl ?_ rfl ?_ ?_ ?_ rfl rfl rfl (Or.inr rfl) rfl rfl rfl rfl h.UAF ?_ ?_ ?_
    all_goals (first | (simp_all [kindOk, inside, countedRecv, countedConn, countedFlush]; done) | (simp_all [kindOk, inside, countedRecv, countedConn, countedFlush]; omega))
  · exact h
theorem doFlushStep_inv {s : State} (h : Inv s) (i : Nat) (more : Bool) : Inv (doFlushStep s i more) := by
  unfold doFlushStep
  split
  · rename_i t hi
    obtain ⟨k, pc, c⟩ := t
    have hkp := h.KP i _ hi
    cases pc <;> try exact h
    · -- floop
      have hw := not_completed_of_inside h hi (by simp [inside])
      simp only [touch_id h hw]
      cases k <;> simp [kindOk] at hkp
      split
      · refine upd_inv h hi rfl ?_ rfl ?_ ?_ ?_ rfl rfl rfl (Or.inl ⟨rfl, Nat.le_refl _, Nat.le_refl _, Nat.le_refl _⟩)
          rfl rfl rfl rfl h.UAF ?_ ?_ ?_
        all_goals (simp_all [kindOk, inside, countedRecv, countedConn, countedFlush])
      · split
        · refine upd_inv h hi rfl ?_ rfl ?_ ?_ ?_ rfl rfl rfl (Or.inl ⟨rfl, Nat.le_refl _, Nat.le_refl _, Nat.le_refl _⟩)
            rfl rfl rfl rfl h.UAF ?_ ?_ ?_
          all_goals (simp_all [kindOk, inside, countedRecv, countedConn, countedFlush])
        · refine upd_inv h hi rfl ?_ rfl ?_ ?_ ?_ rfl rfl rfl (Or.inl ⟨rfl, Nat.le_refl _, Nat.le_refl _, Nat.le_refl _⟩)
            rfl rfl rfl rfl h.UAF ?_ ?_ ?_
          all_goals (simp_all [kindOk, inside, countedRecv, countedConn, countedFlush])
    · -- fcb
      have hw := not_completed_of_inside h hi (by simp [inside])
      cases k <;> simp [kindOk] at hkp
      refine upd_inv h hi rfl ?_ rfl ?_ ?_ ?_ rfl rfl rfl (Or.inl ⟨rfl, Nat.le_refl _, Nat.le_refl _, Nat.le_refl _⟩)
        rfl rfl rfl rfl h.UAF ?_ ?_ ?_
      all_goals (simp_all [kindOk, inside, countedRecv, countedConn, countedFlush])
    · -- fend
      have hw := not_completed_of_inside h hi (by simp [inside])
      simp only [touch_id h hw]
      cases k <;> simp [kindOk] at hkp
      have hpos : 0 < s.activeFlushes := by rw [h.CF]; exact countP_pos_of_get _ hi (by simp [countedFlush])
      refine upd_inv h hi rfl ?_ rfl ?_ ?_ ?_ rfl rfl rfl (Or.inr rfl) rfl rfl rfl rfl h.UAF ?_ ?_ ?_
      all_goals (first | (simp_all [kindOk, inside, countedRecv, countedConn, countedFlush]; done) | (simp_all [kindOk, inside, countedRecv, countedConn, countedFlush]; omega))
    · -- fdtor: the flusher that ran the destructor in its callback unwinds and deletes Impl
      simp only []
      split
      · rename_i htd
        have hal : s.implAlive = true := alive_of_not_destroyed h (by rw [htd]; simp)
        simp only [touch_alive hal]
        cases k <;> simp [kindOk] at hkp
        -- stage 1: the thread leaves the call
        have h1 : Inv { s with threads := setT s.threads i { kind := .flush, pc := .done (.flushed false), completed := c } } := by
          refine upd_inv h hi rfl ?_ rfl ?_ ?_ ?_ rfl rfl rfl (Or.inl ⟨rfl, Nat.le_refl _, Nat.le_refl _, Nat.le_refl _⟩)
            rfl rfl rfl rfl h.UAF ?_ ?_ ?_
          all_goals (simp_all [kindOk, inside, countedRecv, countedConn, countedFlush])
        -- stage 2: Impl is deleted by the flush frame
        have hwc : waitCompleted s.td = true := by rw [htd]; rfl
        refine frame_inv h1 rfl rfl rfl rfl rfl rfl rfl h1.UAF (fun _ => h1.WC hwc) (fun _ => rfl) ?_ ?_ ?_ ?_
        · intro _; exact h.FS (by rw [htd]; simp)
        · intro hw; rcases hw with hw | hw <;> simp at hw
        · intro hl
          simp only [List.mem_append, List.mem_cons, List.mem_nil_iff, or_false] at hl
          rcases hl with hl | hl | hl
          · exact h.IO1 hl
          · cases hl
          · cases hl
        · intro _; exact Or.inr (Or.inl (by simp))
      · exact h
  · exact h

theorem doFlushSelfDestruct_inv {s : State} (h : Inv s) (i : Nat) : Inv (doFlushSelfDestruct s i) := by
  unfold doFlushSelfDestruct
  split
  · rename_i t hi
    split
    · rename_i hpc htd hdt
      obtain ⟨k, pc, c⟩ := t
      simp only at hpc; subst hpc
      have hkp := h.KP i _ hi
      have hw := not_completed_of_inside h hi (by simp [inside])
      simp only [touch_id h hw]
      cases k <;> simp [kindOk] at hkp
      have hpos : 0 < s.activeFlushes := by rw [h.CF]; exact countP_pos_of_get _ hi (by simp [countedFlush])
      refine upd_inv h hi rfl ?_ rfl ?_ ?_ ?_ rfl rfl rfl (Or.inr rfl) rfl rfl rfl rfl h.UAF ?_ ?_ ?_
      all_goals (first | (simp_all [kindOk, inside, countedRecv, countedConn, countedFlush]; done) | (simp_all [kindOk, inside, countedRecv, countedConn, countedFlush]; omega))
    · exact h
  · exact h

theorem doIoConnDone_inv {s : State} (h : Inv s) (hio : s.ioAlive = true → s.implAlive = true) (i : Nat) : Inv (doIoConnDone s i) := by
  unfold doIoConnDone
  split
  · rename_i hf
    have hal := hio (by simp only [ioFree, Bool.and_eq_true] at hf; exact hf.1)
    split
    · rename_i t hi
      obtain ⟨k, pc, c⟩ := t
      have hkp := h.KP i _ hi
      split
      · rename_i a hk hpc
        simp only at hk hpc; subst hk; subst hpc
        simp only [touch_alive hal]
        refine upd_inv h hi rfl ?_ rfl ?_ ?_ ?_ rfl rfl rfl (Or.inl ⟨rfl, Nat.le_refl _, Nat.le_refl _, Nat.le_refl _⟩)
          rfl rfl rfl rfl h.UAF ?_ ?_ ?_
        all_goals (first | (simp_all [kindOk, inside, countedRecv, countedConn, countedFlush]; done) | skip)
        · intro hwc; have := not_completed_of_inside h hi (by simp [inside]); simp [hwc] at this
      · exact h
    · exact h
  · exact h

theorem closeSess_inv {s : State} (h : Inv s) (hal : s.implAlive = true) (sid : Nat) : Inv (closeSess s sid) := by
  unfold closeSess
  simp only [touch_alive hal]
  refine wake_inv h (isRecvOf sid) rfl rfl rfl rfl rfl rfl rfl rfl rfl rfl ?_ (fun hs => hs) h.RN h.FS
    (fun hs => Or.inl hs) ?_ (fun hr => Or.inl hr)
  · intro hl; simpa using hl
  · intro sid' hc
    simp only at hc
    by_cases hs : sid' = sid
    · subst hs; right; intro t hk; simp [isRecvOf, hk]
    · left; simpa [hs] using hc

theorem waitOut_inv {s : State} (h : Inv s) (nr : Bool) : Inv (waitOutEntry s nr) := by
  refine wake_inv h (fun t => isConn t || (nr && isRecv t)) rfl rfl rfl rfl rfl rfl rfl rfl rfl rfl (fun hl => hl)
    (fun _ => rfl) (fun _ => rfl) (fun _ => rfl) ?_ (fun sid hc => Or.inl hc) ?_
  · intro _; right; intro t hk; simp [isConn, hk]
  · intro hr
    simp only [waitOutEntry, Bool.or_eq_true] at hr
    rcases hr with hr | hr
    · exact Or.inl hr
    · right; intro t ht; simp [hr, ht]

theorem waitCompleted_cases (td : Td) :
    waitCompleted td = true ↔ td = .waited ∨ td = .ioReleased ∨ td = .flushOwned ∨ td = .destroyed := by
  cases td <;> simp [waitCompleted]

/-- after an entry section of `teardownWaitOut`: either the gate is already open or the thread goes to sleep -/
theorem gated_inv {s : State} (h : Inv s) (hnc : waitCompleted s.td = false) (hsh : s.shuttingDown = true)
    (done sleep : Td) (hd : waitCompleted done = true) (hd' : done ≠ .idle) (hdd : done ≠ .destroyed)
    (hs : waitCompleted sleep = false) (hs' : sleep ≠ .idle)
    (hsl : sleep = .waiting false ∨ sleep = .ioWaiting false ∨ (sleep ≠ .waiting false ∧ sleep ≠ .ioWaiting false))
    (s' : State) (hs'eq : s' = if gate s = true then { s with td := done } else { s with td := sleep }) : Inv s' := by
  have hal := alive_of_not_completed h hnc
  subst hs'eq
  split
  · rename_i hg
    refine frame_inv h rfl rfl rfl rfl rfl rfl rfl h.UAF (fun _ => gate_no_inside h hg) ?_ (fun _ => hsh) ?_ h.IO1 ?_
    · intro hf; simp [hal] at hf
    · intro hw; rcases hw with hw | hw <;> (simp only [] at hw; rw [hw] at hd; simp [waitCompleted] at hd)
    · intro _; exact Or.inr (Or.inl hd')
  · rename_i hg
    refine frame_inv h rfl rfl rfl rfl rfl rfl rfl h.UAF ?_ ?_ (fun _ => hsh) ?_ h.IO1 ?_
    · intro hw; simp only [] at hw; rw [hs] at hw; simp at hw
    · intro hf; simp [hal] at hf
    · intro _; simpa using hg
    · intro _; exact Or.inr (Or.inl hs')

theorem ioFree_alive {s : State} (hf : ioFree s = true) : s.ioAlive = true := by
  simp only [ioFree, Bool.and_eq_true] at hf; exact hf.1

theorem doIoCloseSess_inv {s : State} (h : Inv s) (hio : s.ioAlive = true → s.implAlive = true) (sid : Nat) :
    Inv (doIoCloseSess s sid) := by
  unfold doIoCloseSess; split
  · rename_i hc
    simp only [Bool.and_eq_true] at hc
    exact closeSess_inv h (hio (ioFree_alive hc.1)) sid
  · exact h

theorem doIoDrain_inv {s : State} (h : Inv s) (hio : s.ioAlive = true → s.implAlive = true) (sid : Option Nat) :
    Inv (doIoDrain s sid) := by
  unfold doIoDrain
  split
  · rename_i hc
    simp only [Bool.and_eq_true, Bool.not_eq_true'] at hc
    cases sid with
    | some sid => simp only []; split
                  · exact closeSess_inv h (hio (ioFree_alive hc.1)) sid
                  · exact h
    | none =>
      simp only []
      split
      · split
        · -- the self-destruct deleter runs: Impl is deleted by the I/O thread's epilogue
          rename_i htd
          have hwc : waitCompleted s.td = true := by simp [htd, waitCompleted]
          refine frame_inv h rfl rfl rfl rfl rfl rfl rfl h.UAF (fun _ => h.WC hwc) (fun _ => rfl) ?_ ?_ (fun _ => rfl)
            (fun _ => Or.inr (Or.inr rfl))
          · intro _; exact h.FS (by simp [htd])
          · intro hw; rcases hw with hw | hw <;> simp at hw
        · refine frame_inv h rfl rfl rfl rfl rfl rfl rfl h.UAF h.WC h.IA h.FS h.Wt (fun _ => rfl) (fun _ => Or.inr (Or.inr rfl))
      · exact h
  · exact h

theorem doIoSyncCall_inv {s : State} (h : Inv s) (hio : s.ioAlive = true → s.implAlive = true) (op : SyncOp) :
    Inv (doIoSyncCall s op) := by
  unfold doIoSyncCall
  split
  · rename_i hf
    have hal := hio (ioFree_alive hf)
    simp only [guard_ok, Bool.true_or, if_true, touch_alive hal]
    refine frame_inv h rfl rfl rfl rfl rfl rfl rfl h.UAF h.WC h.IA h.FS h.Wt ?_ h.IO2
    intro hl
    simp only [List.mem_append, List.mem_singleton] at hl
    rcases hl with hl | hl
    · exact h.IO1 hl
    · cases hl
  · exact h

theorem doStopCall_inv {s : State} (h : Inv s) (hok : ok s .stopCall = true) : Inv (doStopCall s) := by
  have hidle : s.td = .idle := by
    simp only [ok, Bool.and_eq_true, beq_iff_eq] at hok; exact hok.1
  have hal : s.implAlive = true := alive_of_not_destroyed h (by rw [hidle]; simp)
  unfold doStopCall
  split
  · exact h
  · rename_i hsj
    simp only [touch_alive hal]
    split
    · refine frame_inv h rfl rfl rfl rfl rfl rfl rfl h.UAF h.WC h.IA h.FS h.Wt h.IO1 (fun _ => Or.inl rfl)
    · rename_i hr
      have hr' : s.running = false := by simpa using hr
      have hio : s.ioAlive = false := by
        rcases h.IO2 hr' with h1 | h1 | h1
        · exact absurd h1 hsj
        · exact absurd hidle h1
        · exact h1
      refine frame_inv h rfl rfl rfl rfl rfl rfl rfl h.UAF h.WC h.IA h.FS h.Wt (fun _ => hio) h.IO2

theorem doStopJoin_inv {s : State} (h : Inv s) (hsj : s.stopJoining = true → s.implAlive = true) : Inv (doStopJoin s) := by
  unfold doStopJoin
  split
  · rename_i hc
    simp only [Bool.and_eq_true, Bool.not_eq_true'] at hc
    simp only [touch_alive (hsj hc.1)]
    refine frame_inv h rfl rfl rfl rfl rfl rfl rfl h.UAF h.WC h.IA h.FS h.Wt (fun _ => hc.2) (fun _ => Or.inr (Or.inr hc.2))
  · exact h

theorem waitOut_fields (s : State) (nr : Bool) :
    (waitOutEntry s nr).td = s.td ∧ (waitOutEntry s nr).shuttingDown = true ∧ (waitOutEntry s nr).running = s.running ∧
    (waitOutEntry s nr).ioAlive = s.ioAlive ∧ (waitOutEntry s nr).stopJoining = s.stopJoining ∧
    (waitOutEntry s nr).log = s.log ∧ (waitOutEntry s nr).implAlive = s.implAlive := by
  simp [waitOutEntry]

/-- a ghost-only update keeps the invariant -/
theorem path_inv {s : State} (h : Inv s) (p : Path) : Inv { s with path := p } :=
  frame_inv h rfl rfl rfl rfl rfl rfl rfl h.UAF h.WC h.IA h.FS h.Wt h.IO1 h.IO2

theorem doTdBegin_inv {s : State} (h : Inv s) : Inv (doTdBegin s) := by
  unfold doTdBegin
  split
  · rename_i htd
    split
    · -- NORMAL: fence
      have h1 := waitOut_inv h false
      have hf := waitOut_fields s false
      refine frame_inv h1 rfl rfl rfl rfl rfl rfl rfl h1.UAF ?_ ?_ (fun _ => hf.2.1) ?_ ?_ ?_
      · intro hw; simp [waitCompleted] at hw
      · intro hf'; simp only [] at hf'; rw [hf.2.2.2.2.2.2] at hf'
        have := h.IA hf'; rw [htd] at this; cases this
      · intro hw; rcases hw with hw | hw <;> simp at hw
      · intro hl; simp only [] at hl ⊢; rw [hf.2.2.2.2.2.1] at hl; rw [hf.2.2.2.1]; exact h.IO1 hl
      · intro _; exact Or.inr (Or.inl (by simp))
    · -- ALREADY-STOPPED: teardownWaitOut(<as written>)
      have h1 := path_inv (waitOut_inv h nrStopped) .stopped
      have hf := waitOut_fields s nrStopped
      exact gated_inv h1 (by simp only []; rw [hf.1, htd]; rfl) hf.2.1 .waited (.waiting false) rfl (by simp) (by simp) rfl (by simp)
        (Or.inl rfl) _ rfl
  · exact h

theorem doTdStop_inv {s : State} (h : Inv s) : Inv (doTdStop s) := by
  unfold doTdStop
  split
  · rename_i htd
    have hsh := h.FS (by simp [htd])
    split
    · refine frame_inv h rfl rfl rfl rfl rfl rfl rfl h.UAF ?_ ?_ (fun _ => hsh) ?_ h.IO1 (fun _ => Or.inr (Or.inl (by simp)))
      · intro hw; simp [waitCompleted] at hw
      · intro hf; have := h.IA hf; rw [htd] at this; cases this
      · intro hw; rcases hw with hw | hw <;> simp at hw
    · have h1 := waitOut_inv h nrNormal
      have hf := waitOut_fields s nrNormal
      exact gated_inv h1 (by rw [hf.1, htd]; rfl) hf.2.1 .waited (.waiting false) rfl (by simp) (by simp) rfl (by simp)
        (Or.inl rfl) _ rfl
  · exact h

theorem doTdJoined_inv {s : State} (h : Inv s) : Inv (doTdJoined s) := by
  unfold doTdJoined
  split
  · rename_i htd
    split
    · exact h
    · have h1 := waitOut_inv h nrNormal
      have hf := waitOut_fields s nrNormal
      exact gated_inv h1 (by rw [hf.1, htd]; rfl) hf.2.1 .waited (.waiting false) rfl (by simp) (by simp) rfl (by simp)
        (Or.inl rfl) _ rfl
  · exact h

theorem doTdWake_inv {s : State} (h : Inv s) : Inv (doTdWake s) := by
  unfold doTdWake
  split
  · rename_i a htd
    have hsh := h.FS (by simp [htd])
    exact gated_inv h (by rw [htd]; rfl) hsh .waited (.waiting false) rfl (by simp) (by simp) rfl (by simp)
      (Or.inl rfl) _ rfl
  · rename_i a htd
    have hsh := h.FS (by simp [htd])
    have hal := alive_of_not_completed h (by rw [htd]; rfl)
    split
    · rename_i hg
      refine frame_inv h rfl rfl rfl rfl rfl rfl rfl h.UAF (fun _ => gate_no_inside h hg) ?_ (fun _ => hsh) ?_ h.IO1
        (fun _ => Or.inr (Or.inl (by simp)))
      · intro hf; simp [hal] at hf
      · intro hw; rcases hw with hw | hw <;> simp at hw
    · rename_i hg
      refine frame_inv h rfl rfl rfl rfl rfl rfl rfl h.UAF ?_ ?_ (fun _ => hsh) ?_ h.IO1 ?_
      · intro hw; simp [waitCompleted] at hw
      · intro hf; simp [hal] at hf
      · intro _; simpa using hg
      · intro hr; simp only [] at hr ⊢
        rcases h.IO2 hr with h1 | h1 | h1
        · exact Or.inl h1
        · exact Or.inr (Or.inl (by simp))
        · exact Or.inr (Or.inr h1)
  · exact h

theorem doTdDestroy_inv {s : State} (h : Inv s) : Inv (doTdDestroy s) := by
  unfold doTdDestroy
  split
  · rename_i htd hdt
    have hwc : waitCompleted s.td = true := by simp [htd, waitCompleted]
    have hsh := h.FS (by simp [htd])
    refine frame_inv h rfl rfl rfl rfl rfl rfl rfl h.UAF (fun _ => h.WC hwc) (fun _ => rfl) (fun _ => hsh) ?_ ?_ ?_
    · intro hw; rcases hw with hw | hw <;> simp at hw
    · intro hl; simp only [List.mem_append, List.mem_singleton] at hl
      rcases hl with hl | hl
      · exact h.IO1 hl
      · cases hl
    · intro _; exact Or.inr (Or.inl (by simp))
  · exact h

theorem doTdOrphan_inv {s : State} (h : Inv s) : Inv (doTdOrphan s) := by
  unfold doTdOrphan
  split
  · rename_i i htd hdt
    have hwc : waitCompleted s.td = true := by simp [htd, waitCompleted]
    have hsh := h.FS (by simp [htd])
    refine frame_inv h rfl rfl rfl rfl rfl rfl rfl h.UAF (fun _ => h.WC hwc) ?_ (fun _ => hsh) ?_ h.IO1 ?_
    · intro hf; have := h.IA hf; rw [htd] at this; cases this
    · intro hw; rcases hw with hw | hw <;> simp at hw
    · intro _; exact Or.inr (Or.inl (by simp))
  · exact h

theorem doIoSelfDestruct_inv {s : State} (h : Inv s) : Inv (doIoSelfDestruct s) := by
  unfold doIoSelfDestruct
  split
  · rename_i htd hdt
    split
    · simp only [ioBranch_ok, Bool.not_true, Bool.false_and, Bool.false_eq_true, if_false]
      have h1 := path_inv (waitOut_inv h nrIo) .io
      have hf := waitOut_fields s nrIo
      have hal : s.implAlive = true := alive_of_not_completed h (by rw [htd]; rfl)
      split
      · rename_i hg
        refine frame_inv h1 rfl rfl rfl rfl rfl rfl rfl h1.UAF (fun _ => gate_no_inside h1 hg) ?_ (fun _ => hf.2.1) ?_ h1.IO1
          (fun _ => Or.inr (Or.inl (by simp)))
        · intro hf'; simp only [] at hf'; rw [hf.2.2.2.2.2.2, hal] at hf'; cases hf'
        · intro hw; rcases hw with hw | hw <;> simp at hw
      · rename_i hg
        refine frame_inv h1 rfl rfl rfl rfl rfl rfl rfl h1.UAF ?_ ?_ (fun _ => hf.2.1) ?_ h1.IO1
          (fun _ => Or.inr (Or.inl (by simp)))
        · intro hw; simp [waitCompleted] at hw
        · intro hf'; simp only [] at hf'; rw [hf.2.2.2.2.2.2, hal] at hf'; cases hf'
        · intro _; simpa using hg
    · exact h
  · exact h

/-! ## second group of invariants: who runs the destructor, the I/O thread's life, the teardown path, close callbacks -/

/-- the destructor's program counter without the `awake` flag -/
def shape : Td → Nat
  | .idle => 0 | .fenced => 1 | .joining => 2 | .waiting _ => 3 | .waited => 4 | .ioWaiting _ => 5 | .ioReleased => 6
  | .flushOwned => 7 | .destroyed => 8

@[simp] theorem shape_notifyTd (td : Td) : shape (notifyTd td) = shape td := by cases td <;> rfl

/-- thread `j` is a flusher that ran the destructor inside its data callback -/
def fdAt (l : List Thread) (j : Nat) : Bool := match l[j]? with | some t => t.pc == .fdtor | none => false

theorem get_set_self {l : List Thread} {i : Nat} {t x : Thread} (h : l[i]? = some t) : (l.set i x)[i]? = some x :=
  List.getElem?_set_self (lt_of_get h)

theorem fdAt_set_self {l : List Thread} {i : Nat} {t x : Thread} (hi : l[i]? = some t) :
    fdAt (l.set i x) i = (x.pc == .fdtor) := by
  unfold fdAt; rw [get_set_self hi]

theorem fdAt_set_ne {l : List Thread} {i j : Nat} {x : Thread} (h : j ≠ i) : fdAt (l.set i x) j = fdAt l j := by
  unfold fdAt; rw [List.getElem?_set_ne (Ne.symm h)]

@[simp] theorem fdAt_wakeAll (q : Thread → Bool) (l : List Thread) (j : Nat) : fdAt (wakeAll q l) j = fdAt l j := by
  unfold fdAt wakeAll
  rw [List.getElem?_map]
  cases h : l[j]? with
  | none => rfl
  | some t =>
    simp only [Option.map_some]
    cases hp : t.pc <;> simp [hp]
    split <;> first | rfl | (simp [hp]; done) | (rename_i a _; cases a <;> rfl)

theorem fdAt_of_get {l : List Thread} {j : Nat} {t : Thread} (h : l[j]? = some t) : fdAt l j = (t.pc == .fdtor) := by
  unfold fdAt; rw [h]

structure Inv2 (s : State) : Prop where
  SB : s.ioSelfBlock = false
  SJ : s.stopJoining = true → shape s.td = 0 ∧ s.dtorOn = none ∧ s.running = false
  FR : shape s.td = 1 → s.running = true
  JR : shape s.td = 2 → s.running = false
  DIO : shape s.td = 3 ∨ shape s.td = 4 ∨ shape s.td = 7 ∨ shape s.td = 8 → s.ioAlive = false
  IOA : shape s.td = 5 ∨ shape s.td = 6 → s.ioAlive = true ∧ s.dtorOn = none
  IOR : shape s.td = 6 → s.running = false
  DT1 : ∀ j, fdAt s.threads j = true → s.dtorOn = some j
  DT2 : ∀ i, s.dtorOn = some i → shape s.td ≠ 8 → fdAt s.threads i = true
  DT3 : shape s.td = 7 → s.dtorOn ≠ none
  PN : s.path = .stopped ∨ s.path = .io → s.recvNotified = true
  PI : shape s.td = 5 → s.path = .io
  SD : s.shuttingDown = true → shape s.td ≠ 0
  CL : ∀ sid, s.log.count (.cbClose sid) ≤ 1 ∧ (sid ∈ s.live → s.log.count (.cbClose sid) = 0)

theorem Inv2_mk (threads : List Thread) (live : List Nat) (h : ∀ t ∈ threads, t.pc = .notStarted) : Inv2 (mk threads live) := by
  constructor <;> simp [mk, shape]
  intro j
  unfold fdAt
  split
  · rename_i t ht
    have := h t (List.mem_iff_getElem?.mpr ⟨j, ht⟩)
    simp [this]
  · rfl

/-- a step of ONE application thread that is not (and does not become) the destructor-running flusher -/
theorem upd_inv2 {s s' : State} (h : Inv2 s) {i : Nat} {t t' : Thread} (hi : s.threads[i]? = some t)
    (hth : s'.threads = s.threads.set i t') (hpc : t.pc ≠ .fdtor) (hpc' : t'.pc ≠ .fdtor)
    (hsh : s'.shuttingDown = s.shuttingDown) (htd : shape s'.td = shape s.td) (hrun : s'.running = s.running)
    (hio : s'.ioAlive = s.ioAlive) (hsj : s'.stopJoining = s.stopJoining) (hdt : s'.dtorOn = s.dtorOn)
    (hsb : s'.ioSelfBlock = s.ioSelfBlock) (hrn : s'.recvNotified = s.recvNotified) (hpa : s'.path = s.path)
    (hlive : s'.live = s.live) (hlog : ∀ sid, s'.log.count (.cbClose sid) = s.log.count (.cbClose sid)) : Inv2 s' := by
  have hfi : fdAt s.threads i = false := by rw [fdAt_of_get hi]; simpa using hpc
  have hfi' : fdAt s'.threads i = false := by rw [hth, fdAt_set_self hi]; simpa using hpc'
  constructor
  · rw [hsb]; exact h.SB
  · rw [hsj, htd, hdt, hrun]; exact h.SJ
  · rw [htd, hrun]; exact h.FR
  · rw [htd, hrun]; exact h.JR
  · rw [htd, hio]; exact h.DIO
  · rw [htd, hio, hdt]; exact h.IOA
  · rw [htd, hrun]; exact h.IOR
  · intro j hj
    rw [hdt]
    by_cases hji : j = i
    · subst hji; rw [hfi'] at hj; cases hj
    · rw [hth, fdAt_set_ne hji] at hj; exact h.DT1 j hj
  · intro k hk hne
    rw [hdt] at hk; rw [htd] at hne
    have := h.DT2 k hk hne
    by_cases hki : k = i
    · subst hki; rw [hfi] at this; cases this
    · rw [hth, fdAt_set_ne hki]; exact this
  · rw [htd, hdt]; exact h.DT3
  · rw [hpa, hrn]; exact h.PN
  · rw [htd, hpa]; exact h.PI
  · rw [hsh, htd]; exact h.SD
  · intro sid; rw [hlog sid, hlive]; exact h.CL sid

macro "u2" : tactic =>
  `(tactic| first
    | rfl
    | (simp; done)
    | (intro sid; simp [List.count_append, List.count_cons]; done))

theorem doEnter_inv2 {s : State} (h : Inv2 s) (i : Nat) : Inv2 (doEnter s i) := by
  unfold doEnter
  split
  · rename_i t hi
    split
    · rename_i hpc
      have hne : t.pc ≠ .fdtor := by rw [hpc]; simp
      cases hal : s.implAlive <;> simp only [touch, hal, if_true, if_false, Bool.false_eq_true] <;> (repeat' split) <;>
        exact upd_inv2 h hi rfl hne (by simp) rfl rfl rfl rfl rfl rfl rfl rfl rfl rfl (by u2)
    · exact h
  · exact h

/-- a step that leaves every field the second group of invariants speaks about alone -/
theorem inv2_congr {s s' : State} (h : Inv2 s) (hth : s'.threads = s.threads) (htd : s'.td = s.td)
    (hsh : s'.shuttingDown = s.shuttingDown) (hrun : s'.running = s.running)
    (hio : s'.ioAlive = s.ioAlive) (hsj : s'.stopJoining = s.stopJoining) (hdt : s'.dtorOn = s.dtorOn)
    (hsb : s'.ioSelfBlock = s.ioSelfBlock) (hrn : s'.recvNotified = s.recvNotified) (hpa : s'.path = s.path)
    (hlive : s'.live = s.live) (hlog : ∀ sid, s'.log.count (.cbClose sid) = s.log.count (.cbClose sid)) : Inv2 s' := by
  constructor
  · rw [hsb]; exact h.SB
  · rw [hsj, htd, hdt, hrun]; exact h.SJ
  · rw [htd, hrun]; exact h.FR
  · rw [htd, hrun]; exact h.JR
  · rw [htd, hio]; exact h.DIO
  · rw [htd, hio, hdt]; exact h.IOA
  · rw [htd, hrun]; exact h.IOR
  · rw [hth, hdt]; exact h.DT1
  · rw [hth, hdt, htd]; exact h.DT2
  · rw [htd, hdt]; exact h.DT3
  · rw [hpa, hrn]; exact h.PN
  · rw [htd, hpa]; exact h.PI
  · rw [hsh, htd]; exact h.SD
  · intro sid; rw [hlog sid, hlive]; exact h.CL sid

macro "thr2" h:ident hi:ident hne:ident : tactic =>
  `(tactic| first
    | exact $h
    | exact upd_inv2 $h $hi rfl $hne (by simp) rfl (by simp) rfl rfl rfl rfl rfl rfl rfl rfl (by u2)
    | exact inv2_congr $h rfl rfl rfl rfl rfl rfl rfl rfl rfl rfl rfl (by u2))

theorem doWake_inv2 {s : State} (h : Inv2 s) (i : Nat) (to : Bool) : Inv2 (doWake s i to) := by
  unfold doWake
  split
  · rename_i t hi
    split
    · rename_i a hpc
      have hne : t.pc ≠ .fdtor := by rw [hpc]; simp
      cases hal : s.implAlive <;> simp only [touch, hal, if_true, if_false, Bool.false_eq_true] <;> (repeat' split) <;>
        thr2 h hi hne
    · exact h
  · exact h

theorem doConnClose_inv2 {s : State} (h : Inv2 s) (i : Nat) : Inv2 (doConnClose s i) := by
  unfold doConnClose
  split
  · rename_i t hi
    split
    · rename_i hpc
      have hne : t.pc ≠ .fdtor := by rw [hpc]; simp
      cases hal : s.implAlive <;> simp only [touch, hal, if_true, if_false, Bool.false_eq_true] <;> thr2 h hi hne
    · exact h
  · exact h

theorem doConnRelock_inv2 {s : State} (h : Inv2 s) (i : Nat) : Inv2 (doConnRelock s i) := by
  unfold doConnRelock
  split
  · rename_i t hi
    split
    · rename_i hpc
      have hne : t.pc ≠ .fdtor := by rw [hpc]; simp
      cases hal : s.implAlive <;> simp only [touch, hal, if_true, if_false, Bool.false_eq_true] <;> thr2 h hi hne
    · exact h
  · exact h

theorem doFlushStep_inv2 {s : State} (h : Inv2 s) (i : Nat) (more : Bool) : Inv2 (doFlushStep s i more) := by
  unfold doFlushStep
  split
  · rename_i t hi
    split
    · rename_i hpc
      have hne : t.pc ≠ .fdtor := by rw [hpc]; simp
      cases hal : s.implAlive <;> simp only [touch, hal, if_true, if_false, Bool.false_eq_true] <;> (repeat' split) <;>
        thr2 h hi hne
    · rename_i hpc
      have hne : t.pc ≠ .fdtor := by rw [hpc]; simp
      thr2 h hi hne
    · rename_i r hpc
      have hne : t.pc ≠ .fdtor := by rw [hpc]; simp
      cases hal : s.implAlive <;> simp only [touch, hal, if_true, if_false, Bool.false_eq_true] <;> thr2 h hi hne
    · -- fdtor
      rename_i hpc
      split
      · rename_i htd
        have hsh : shape s.td = 7 := by rw [htd]; rfl
        have hio := h.DIO (Or.inr (Or.inr (Or.inl hsh)))
        have hsj : s.stopJoining = false := by
          cases hs : s.stopJoining with
          | false => rfl
          | true => have := (h.SJ hs).1; rw [hsh] at this; cases this
        have hdt1 := h.DT1
        have hcl := h.CL
        have hpn := h.PN
        have hsb := h.SB
        cases hal : s.implAlive <;> simp only [touch, hal, if_true, if_false, Bool.false_eq_true]
        all_goals
          constructor
          · exact hsb
          · intro hs; simp only [] at hs; rw [hsj] at hs; cases hs
          · intro hs; simp [shape] at hs
          · intro hs; simp [shape] at hs
          · intro _; exact hio
          · intro hs; simp [shape] at hs
          · intro hs; simp [shape] at hs
          · intro j hj
            simp only [setT] at hj
            by_cases hji : j = i
            · subst hji; rw [fdAt_set_self hi] at hj; simp at hj
            · rw [fdAt_set_ne hji] at hj; exact hdt1 j hj
          · intro k _ hne; simp [shape] at hne
          · intro hs; simp [shape] at hs
          · exact hpn
          · intro hs; simp [shape] at hs
          · intro _; simp [shape]
          · intro sid
            have := hcl sid
            simpa [List.count_append, List.count_cons] using this
      · exact h
    · exact h
  · exact h

theorem doFlushSelfDestruct_inv2 {s : State} (h : Inv2 s) (i : Nat) (hok : ok s (.flushSelfDestruct i) = true) :
    Inv2 (doFlushSelfDestruct s i) := by
  have hsj : s.stopJoining = false := by simpa [ok] using hok
  unfold doFlushSelfDestruct
  split
  · rename_i t hi
    split
    · rename_i hpc htd hdt
      have hsb := h.SB; have hdt1 := h.DT1; have hcl := h.CL; have hpn := h.PN; have hsd := h.SD
      cases hal : s.implAlive <;> simp only [touch, hal, if_true, if_false, Bool.false_eq_true]
      all_goals
        constructor
        · exact hsb
        · intro hs; simp only [] at hs; rw [hsj] at hs; cases hs
        · intro hs; simp [htd, notifyTd, shape] at hs
        · intro hs; simp [htd, notifyTd, shape] at hs
        · intro hs; simp [htd, notifyTd, shape] at hs
        · intro hs; simp [htd, notifyTd, shape] at hs
        · intro hs; simp [htd, notifyTd, shape] at hs
        · intro j hj
          simp only [setT] at hj ⊢
          by_cases hji : j = i
          · subst hji; rfl
          · rw [fdAt_set_ne hji] at hj
            have := hdt1 j hj; rw [hdt] at this; cases this
        · intro k hk _
          simp only [Option.some.injEq] at hk
          subst hk
          simp only [setT]
          rw [fdAt_set_self hi]; rfl
        · intro hs; simp [htd, notifyTd, shape] at hs
        · exact hpn
        · intro hs; simp [htd, notifyTd, shape] at hs
        · intro hs
          have := hsd hs; rw [htd] at this; exact absurd rfl this
        · exact hcl
    · exact h
  · exact h

theorem closeSess_inv2 {s : State} (h : Inv2 s) (sid : Nat) (hmem : s.live.contains sid = true) : Inv2 (closeSess s sid) := by
  have hsb := h.SB; have hsj := h.SJ; have hfr := h.FR; have hjr := h.JR; have hdio := h.DIO; have hioa := h.IOA
  have hior := h.IOR; have hdt1 := h.DT1; have hdt2 := h.DT2; have hdt3 := h.DT3; have hpn := h.PN; have hpi := h.PI
  have hsd := h.SD; have hcl := h.CL
  have hm : sid ∈ s.live := by simpa using hmem
  unfold closeSess
  cases hal : s.implAlive <;> simp only [touch, hal, if_true, if_false, Bool.false_eq_true]
  all_goals
    constructor
    · exact hsb
    · exact hsj
    · exact hfr
    · exact hjr
    · exact hdio
    · exact hioa
    · exact hior
    · intro j hj; simp only [fdAt_wakeAll] at hj; exact hdt1 j hj
    · intro k hk hne; simp only [fdAt_wakeAll]; exact hdt2 k hk hne
    · exact hdt3
    · exact hpn
    · exact hpi
    · exact hsd
    · intro sid'
      have h1 := hcl sid'
      by_cases hs : sid' = sid
      · subst hs
        have h0 := h1.2 hm
        simp [List.count_append, List.count_cons, h0]
      · have hne : ¬ (sid = sid') := fun e => hs e.symm
        simp only [List.count_append, List.count_cons, List.count_nil, beq_iff_eq, Ev.cbClose.injEq, hne, if_false,
          Nat.add_zero, List.mem_filter, bne_iff_ne, ne_eq]
        exact ⟨h1.1, fun hm' => h1.2 hm'.1⟩

theorem doIoCloseSess_inv2 {s : State} (h : Inv2 s) (sid : Nat) : Inv2 (doIoCloseSess s sid) := by
  unfold doIoCloseSess; split
  · rename_i hc
    simp only [Bool.and_eq_true] at hc
    exact closeSess_inv2 h sid hc.2
  · exact h

theorem doIoConnDone_inv2 {s : State} (h : Inv2 s) (i : Nat) : Inv2 (doIoConnDone s i) := by
  unfold doIoConnDone
  split
  · split
    · rename_i t hi
      split
      · rename_i a hk hpc
        have hne : t.pc ≠ .fdtor := by rw [hpc]; simp
        cases hal : s.implAlive <;> simp only [touch, hal, if_true, if_false, Bool.false_eq_true] <;> thr2 h hi hne
      · exact h
    · exact h
  · exact h

theorem doIoSyncCall_inv2 {s : State} (h : Inv2 s) (op : SyncOp) : Inv2 (doIoSyncCall s op) := by
  unfold doIoSyncCall
  split
  · simp only [guard_ok, Bool.true_or, if_true]
    cases hal : s.implAlive <;> simp only [touch, hal, if_true, if_false, Bool.false_eq_true] <;>
      exact inv2_congr h rfl rfl rfl rfl rfl rfl rfl rfl rfl rfl rfl (by u2)
  · exact h

theorem doIoDrain_inv2 {s : State} (h : Inv2 s) (sid : Option Nat) : Inv2 (doIoDrain s sid) := by
  unfold doIoDrain
  split
  · rename_i hc
    simp only [Bool.and_eq_true, Bool.not_eq_true'] at hc
    cases sid with
    | some sid =>
      simp only []; split
      · rename_i hm; exact closeSess_inv2 h sid hm
      · exact h
    | none =>
      simp only []
      have hsb := h.SB; have hsj := h.SJ; have hfr := h.FR; have hjr := h.JR; have hdio := h.DIO; have hioa := h.IOA
      have hior := h.IOR; have hdt1 := h.DT1; have hdt2 := h.DT2; have hdt3 := h.DT3; have hpn := h.PN; have hpi := h.PI
      have hsd := h.SD; have hcl := h.CL
      have hfree := hc.1
      split
      · split
        · rename_i htd
          have hsh : shape s.td = 6 := by rw [htd]; rfl
          constructor
          · exact hsb
          · intro hs; have := (hsj hs).1; rw [hsh] at this; cases this
          · intro hs; simp [shape] at hs
          · intro hs; simp [shape] at hs
          · intro _; rfl
          · intro hs; simp [shape] at hs
          · intro hs; simp [shape] at hs
          · exact hdt1
          · intro k _ hne; simp [shape] at hne
          · intro hs; simp [shape] at hs
          · exact hpn
          · intro hs; simp [shape] at hs
          · intro _; simp [shape]
          · intro sid'
            have := hcl sid'
            simpa [List.count_append, List.count_cons] using this
        · rename_i hnr
          have h5 : shape s.td ≠ 5 := by
            intro h5; cases htd : s.td <;> simp [htd, shape, ioFree] at h5 hfree
          have h6 : shape s.td ≠ 6 := by
            intro h6; cases htd : s.td <;> simp [htd, shape] at h6
            exact hnr htd
          constructor
          · exact hsb
          · exact hsj
          · exact hfr
          · exact hjr
          · intro _; rfl
          · intro hs; rcases hs with hs | hs
            · exact absurd hs h5
            · exact absurd hs h6
          · exact hior
          · exact hdt1
          · exact hdt2
          · exact hdt3
          · exact hpn
          · exact hpi
          · exact hsd
          · exact hcl
      · exact h
  · exact h

theorem doStopCall_inv2 {s : State} (h : Inv2 s) (hok : ok s .stopCall = true) : Inv2 (doStopCall s) := by
  have hidle : s.td = .idle ∧ s.dtorOn = none := by
    simpa [ok] using hok
  have hsb := h.SB; have hsj := h.SJ; have hfr := h.FR; have hjr := h.JR; have hdio := h.DIO; have hioa := h.IOA
  have hior := h.IOR; have hdt1 := h.DT1; have hdt2 := h.DT2; have hdt3 := h.DT3; have hpn := h.PN; have hpi := h.PI
  have hsd := h.SD; have hcl := h.CL
  unfold doStopCall
  split
  · exact h
  · cases hal : s.implAlive <;> simp only [touch, hal, if_true, if_false, Bool.false_eq_true] <;> split
    all_goals first
      | exact inv2_congr h rfl rfl rfl rfl rfl rfl rfl rfl rfl rfl rfl (by u2)
      | (constructor
         · exact hsb
         · intro _; exact ⟨by rw [hidle.1]; rfl, hidle.2, rfl⟩
         · intro hs; simp [hidle.1, shape] at hs
         · intro _; rfl
         · exact hdio
         · exact hioa
         · intro _; rfl
         · exact hdt1
         · exact hdt2
         · exact hdt3
         · exact hpn
         · exact hpi
         · exact hsd
         · exact hcl)

theorem doStopJoin_inv2 {s : State} (h : Inv2 s) : Inv2 (doStopJoin s) := by
  have hsb := h.SB; have hsj := h.SJ; have hfr := h.FR; have hjr := h.JR; have hdio := h.DIO; have hioa := h.IOA
  have hior := h.IOR; have hdt1 := h.DT1; have hdt2 := h.DT2; have hdt3 := h.DT3; have hpn := h.PN; have hpi := h.PI
  have hsd := h.SD; have hcl := h.CL
  unfold doStopJoin
  split
  · cases hal : s.implAlive <;> simp only [touch, hal, if_true, if_false, Bool.false_eq_true]
    all_goals
      constructor
      · exact hsb
      · intro hs; cases hs
      · exact hfr
      · exact hjr
      · exact hdio
      · exact hioa
      · exact hior
      · exact hdt1
      · exact hdt2
      · exact hdt3
      · exact hpn
      · exact hpi
      · exact hsd
      · intro sid; have := hcl sid; simpa [List.count_append, List.count_cons] using this
  · exact h

/-- the entry section of `teardownWaitOut` / `setTeardownFence` followed by the destructor's next program counter -/
theorem waitOut_td_inv2 {s : State} (h : Inv2 s) (nr : Bool) (td' : Td) (p : Path) (run' : Bool)
    (hsj : s.stopJoining = false) (hs8 : shape s.td ≠ 8) (h0 : shape td' ≠ 0)
    (hfr : shape td' = 1 → run' = true) (hjr : shape td' = 2 → run' = false)
    (hdio : shape td' = 3 ∨ shape td' = 4 ∨ shape td' = 7 ∨ shape td' = 8 → s.ioAlive = false)
    (hioa : shape td' = 5 ∨ shape td' = 6 → s.ioAlive = true ∧ s.dtorOn = none) (hior : shape td' = 6 → run' = false)
    (h7 : shape td' ≠ 7)
    (hpn : p = .stopped ∨ p = .io → (s.recvNotified || nr) = true) (hpi : shape td' = 5 → p = .io) :
    Inv2 { waitOutEntry s nr with td := td', path := p, running := run' } := by
  constructor
  · exact h.SB
  · intro hs; simp only [waitOutEntry] at hs; rw [hsj] at hs; cases hs
  · exact hfr
  · exact hjr
  · exact hdio
  · exact hioa
  · exact hior
  · intro j hj; simp only [waitOutEntry, fdAt_wakeAll] at hj; exact h.DT1 j hj
  · intro k hk _
    simp only [waitOutEntry, fdAt_wakeAll]
    simp only [waitOutEntry] at hk
    exact h.DT2 k hk hs8
  · intro hs; exact absurd hs h7
  · exact hpn
  · exact hpi
  · intro _; exact h0
  · exact h.CL

/-- the destructor moves on without a critical section of its own -/
theorem td_inv2 {s : State} (h : Inv2 s) (td' : Td) (run' : Bool) (io' : Bool)
    (hsj : s.stopJoining = false) (hs0 : shape s.td ≠ 0) (h0 : shape td' ≠ 0)
    (hfr : shape td' = 1 → run' = true) (hjr : shape td' = 2 → run' = false)
    (hdio : shape td' = 3 ∨ shape td' = 4 ∨ shape td' = 7 ∨ shape td' = 8 → io' = false)
    (hioa : shape td' = 5 ∨ shape td' = 6 → io' = true ∧ s.dtorOn = none) (hior : shape td' = 6 → run' = false)
    (hdt2 : ∀ i, s.dtorOn = some i → shape td' ≠ 8 → fdAt s.threads i = true)
    (h7 : shape td' = 7 → s.dtorOn ≠ none) (hpi : shape td' = 5 → s.path = .io) (evs : List Ev)
    (hevs : ∀ sid, evs.count (.cbClose sid) = 0) :
    Inv2 { s with td := td', running := run', ioAlive := io', log := s.log ++ evs } := by
  constructor
  · exact h.SB
  · intro hs; simp only [] at hs; rw [hsj] at hs; cases hs
  · exact hfr
  · exact hjr
  · exact hdio
  · exact hioa
  · exact hior
  · exact h.DT1
  · exact hdt2
  · exact h7
  · exact h.PN
  · exact hpi
  · intro _; exact h0
  · intro sid; simp only [List.count_append, hevs sid, Nat.add_zero]; exact h.CL sid

theorem sj_false_of_shape {s : State} (h : Inv2 s) (hs : shape s.td ≠ 0) : s.stopJoining = false := by
  cases hsj : s.stopJoining with
  | false => rfl
  | true => exact absurd (h.SJ hsj).1 hs

theorem doTdBegin_inv2 {s : State} (h1 : Inv s) (h : Inv2 s) (hok : ok s .tdBegin = true) : Inv2 (doTdBegin s) := by
  have hsj : s.stopJoining = false := by simpa [ok] using hok
  unfold doTdBegin
  split
  · rename_i htd
    have hs8 : shape s.td ≠ 8 := by rw [htd]; simp [shape]
    split
    · rename_i hrun
      have := waitOut_td_inv2 h false .fenced .normal s.running hsj hs8 (by simp [shape]) (fun _ => hrun) (by simp [shape])
        (by simp [shape]) (by simp [shape]) (by simp [shape]) (by simp [shape]) (by simp) (by simp [shape])
      exact this
    · rename_i hrun
      have hrun' : s.running = false := by simpa using hrun
      have hio : s.ioAlive = false := by
        rcases h1.IO2 hrun' with hx | hx | hx
        · rw [hsj] at hx; cases hx
        · exact absurd htd hx
        · exact hx
      simp only []
      split
      · have := waitOut_td_inv2 h nrStopped .waited .stopped s.running hsj hs8 (by simp [shape]) (by simp [shape]) (by simp [shape])
          (fun _ => hio) (by simp [shape]) (by simp [shape]) (by simp [shape]) (by simp [nrStopped_true]) (by simp [shape])
        exact this
      · have := waitOut_td_inv2 h nrStopped (.waiting false) .stopped s.running hsj hs8 (by simp [shape]) (by simp [shape]) (by simp [shape])
          (fun _ => hio) (by simp [shape]) (by simp [shape]) (by simp [shape]) (by simp [nrStopped_true]) (by simp [shape])
        exact this
  · exact h

theorem doTdStop_inv2 {s : State} (h : Inv2 s) : Inv2 (doTdStop s) := by
  unfold doTdStop
  split
  · rename_i htd
    have hs1 : shape s.td = 1 := by rw [htd]; rfl
    have hrun := h.FR hs1
    have hsj := sj_false_of_shape h (by rw [hs1]; simp)
    simp only [hrun, if_true]
    have := td_inv2 h .joining false s.ioAlive hsj (by rw [hs1]; simp) (by simp [shape]) (by simp [shape]) (fun _ => rfl)
      (by simp [shape]) (by simp [shape]) (by simp [shape])
      (fun i hi _ => h.DT2 i hi (by rw [hs1]; simp)) (by simp [shape]) (by simp [shape]) [] (by simp)
    simpa using this
  · exact h

theorem doTdJoined_inv2 {s : State} (h : Inv2 s) : Inv2 (doTdJoined s) := by
  unfold doTdJoined
  split
  · rename_i htd
    have hs2 : shape s.td = 2 := by rw [htd]; rfl
    have hsj := sj_false_of_shape h (by rw [hs2]; simp)
    have hs8 : shape s.td ≠ 8 := by rw [hs2]; simp
    have hrun := h.JR hs2
    split
    · exact h
    · rename_i hio
      have hio' : s.ioAlive = false := by simpa using hio
      simp only []
      split
      · have := waitOut_td_inv2 h nrNormal .waited s.path s.running hsj hs8 (by simp [shape]) (by simp [shape]) (by simp [shape])
          (fun _ => hio') (by simp [shape]) (by simp [shape]) (by simp [shape])
          (fun hp => by have := h.PN hp; simp [this]) (by simp [shape])
        exact this
      · have := waitOut_td_inv2 h nrNormal (.waiting false) s.path s.running hsj hs8 (by simp [shape]) (by simp [shape]) (by simp [shape])
          (fun _ => hio') (by simp [shape]) (by simp [shape]) (by simp [shape])
          (fun hp => by have := h.PN hp; simp [this]) (by simp [shape])
        exact this
  · exact h

theorem doTdWake_inv2 {s : State} (h : Inv2 s) : Inv2 (doTdWake s) := by
  unfold doTdWake
  split
  · rename_i a htd
    have hs3 : shape s.td = 3 := by rw [htd]; rfl
    have hsj := sj_false_of_shape h (by rw [hs3]; simp)
    have hio := h.DIO (Or.inl hs3)
    split
    · have := td_inv2 h .waited s.running s.ioAlive hsj (by rw [hs3]; simp) (by simp [shape]) (by simp [shape]) (by simp [shape])
        (fun _ => hio) (by simp [shape]) (by simp [shape])
        (fun i hi _ => h.DT2 i hi (by rw [hs3]; simp)) (by simp [shape]) (by simp [shape]) [] (by simp)
      simpa using this
    · have := td_inv2 h (.waiting false) s.running s.ioAlive hsj (by rw [hs3]; simp) (by simp [shape]) (by simp [shape]) (by simp [shape])
        (fun _ => hio) (by simp [shape]) (by simp [shape])
        (fun i hi _ => h.DT2 i hi (by rw [hs3]; simp)) (by simp [shape]) (by simp [shape]) [] (by simp)
      simpa using this
  · rename_i a htd
    have hs5 : shape s.td = 5 := by rw [htd]; rfl
    have hsj := sj_false_of_shape h (by rw [hs5]; simp)
    have hio := h.IOA (Or.inl hs5)
    have hpi := h.PI hs5
    split
    · have := td_inv2 h .ioReleased false s.ioAlive hsj (by rw [hs5]; simp) (by simp [shape]) (by simp [shape]) (by simp [shape])
        (by simp [shape]) (fun _ => hio) (fun _ => rfl)
        (fun i hi _ => h.DT2 i hi (by rw [hs5]; simp)) (by simp [shape]) (by simp [shape]) [] (by simp)
      simpa using this
    · have := td_inv2 h (.ioWaiting false) s.running s.ioAlive hsj (by rw [hs5]; simp) (by simp [shape]) (by simp [shape]) (by simp [shape])
        (by simp [shape]) (fun _ => hio) (by simp [shape])
        (fun i hi _ => h.DT2 i hi (by rw [hs5]; simp)) (by simp [shape]) (fun _ => hpi) [] (by simp)
      simpa using this
  · exact h

theorem doTdDestroy_inv2 {s : State} (h : Inv2 s) : Inv2 (doTdDestroy s) := by
  unfold doTdDestroy
  split
  · rename_i htd hdt
    have hs4 : shape s.td = 4 := by rw [htd]; rfl
    have hsj := sj_false_of_shape h (by rw [hs4]; simp)
    have hio := h.DIO (Or.inr (Or.inl hs4))
    have := td_inv2 h .destroyed s.running s.ioAlive hsj (by rw [hs4]; simp) (by simp [shape]) (by simp [shape]) (by simp [shape])
      (fun _ => hio) (by simp [shape]) (by simp [shape])
      (fun i _ hne => absurd rfl hne) (by simp [shape]) (by simp [shape]) [.destroyed] (by simp [List.count_cons])
    have e : ({ s with td := .destroyed, implAlive := false, log := s.log ++ [.destroyed] } : State) =
        { ({ s with td := .destroyed, running := s.running, ioAlive := s.ioAlive, log := s.log ++ [.destroyed] } : State) with implAlive := false } := rfl
    rw [e]
    exact inv2_congr this rfl rfl rfl rfl rfl rfl rfl rfl rfl rfl rfl (fun _ => rfl)
  · exact h

theorem doTdOrphan_inv2 {s : State} (h : Inv2 s) : Inv2 (doTdOrphan s) := by
  unfold doTdOrphan
  split
  · rename_i i htd hdt
    have hs4 : shape s.td = 4 := by rw [htd]; rfl
    have hsj := sj_false_of_shape h (by rw [hs4]; simp)
    have hio := h.DIO (Or.inr (Or.inl hs4))
    have := td_inv2 h .flushOwned s.running s.ioAlive hsj (by rw [hs4]; simp) (by simp [shape]) (by simp [shape]) (by simp [shape])
      (fun _ => hio) (by simp [shape]) (by simp [shape])
      (fun k hk _ => h.DT2 k hk (by rw [hs4]; simp)) (fun _ => by rw [hdt]; simp) (by simp [shape]) [] (by simp)
    simpa using this
  · exact h

theorem doIoSelfDestruct_inv2 {s : State} (h : Inv2 s) (hok : ok s .ioSelfDestruct = true) : Inv2 (doIoSelfDestruct s) := by
  have hsj : s.stopJoining = false := by simpa [ok] using hok
  unfold doIoSelfDestruct
  split
  · rename_i htd hdt
    have hs8 : shape s.td ≠ 8 := by rw [htd]; simp [shape]
    split
    · rename_i hfree
      have hio := ioFree_alive hfree
      simp only [ioBranch_ok, Bool.not_true, Bool.false_and, Bool.false_eq_true, if_false]
      split
      · have := waitOut_td_inv2 h nrIo .ioReleased .io false hsj hs8 (by simp [shape]) (by simp [shape]) (by simp [shape])
          (by simp [shape]) (fun _ => ⟨hio, hdt⟩) (fun _ => rfl) (by simp [shape]) (by simp [nrIo_true]) (by simp [shape])
        exact this
      · have := waitOut_td_inv2 h nrIo (.ioWaiting false) .io s.running hsj hs8 (by simp [shape]) (by simp [shape]) (by simp [shape])
          (by simp [shape]) (fun _ => ⟨hio, hdt⟩) (by simp [shape]) (by simp [shape]) (by simp [nrIo_true]) (fun _ => rfl)
        exact this
    · exact h
  · exact h

/-! ## every step that respects the environment contract keeps both groups -/

theorem io_alive_impl {s : State} (h : Inv s) (h2 : Inv2 s) : s.ioAlive = true → s.implAlive = true := by
  intro hio
  apply alive_of_not_destroyed h
  intro hd
  have := h2.DIO (Or.inr (Or.inr (Or.inr (by rw [hd]; rfl))))
  rw [hio] at this; cases this

theorem sj_impl {s : State} (h : Inv s) (h2 : Inv2 s) : s.stopJoining = true → s.implAlive = true := by
  intro hsj
  apply alive_of_not_destroyed h
  intro hd
  have := (h2.SJ hsj).1
  rw [hd] at this; cases this

theorem step_inv {s : State} (h : Inv s) (h2 : Inv2 s) (st : Step) (hok : ok s st = true) :
    Inv (step s st) ∧ Inv2 (step s st) := by
  have hio := io_alive_impl h h2
  cases st with
  | enter i => exact ⟨doEnter_inv h i hok, doEnter_inv2 h2 i⟩
  | wake i t => exact ⟨doWake_inv h i t, doWake_inv2 h2 i t⟩
  | connClose i => exact ⟨doConnClose_inv h i, doConnClose_inv2 h2 i⟩
  | connRelock i => exact ⟨doConnRelock_inv h i, doConnRelock_inv2 h2 i⟩
  | flushStep i m => exact ⟨doFlushStep_inv h i m, doFlushStep_inv2 h2 i m⟩
  | ioCloseSess sid => exact ⟨doIoCloseSess_inv h hio sid, doIoCloseSess_inv2 h2 sid⟩
  | ioConnDone i => exact ⟨doIoConnDone_inv h hio i, doIoConnDone_inv2 h2 i⟩
  | ioDrain sid => exact ⟨doIoDrain_inv h hio sid, doIoDrain_inv2 h2 sid⟩
  | ioSyncCall op => exact ⟨doIoSyncCall_inv h hio op, doIoSyncCall_inv2 h2 op⟩
  | stopCall => exact ⟨doStopCall_inv h hok, doStopCall_inv2 h2 hok⟩
  | stopJoin => exact ⟨doStopJoin_inv h (sj_impl h h2), doStopJoin_inv2 h2⟩
  | tdBegin => exact ⟨doTdBegin_inv h, doTdBegin_inv2 h h2 hok⟩
  | tdStop => exact ⟨doTdStop_inv h, doTdStop_inv2 h2⟩
  | tdJoined => exact ⟨doTdJoined_inv h, doTdJoined_inv2 h2⟩
  | tdWake => exact ⟨doTdWake_inv h, doTdWake_inv2 h2⟩
  | tdDestroy => exact ⟨doTdDestroy_inv h, doTdDestroy_inv2 h2⟩
  | tdOrphan => exact ⟨doTdOrphan_inv h, doTdOrphan_inv2 h2⟩
  | ioSelfDestruct => exact ⟨doIoSelfDestruct_inv h, doIoSelfDestruct_inv2 h2 hok⟩
  | flushSelfDestruct i => exact ⟨doFlushSelfDestruct_inv h i, doFlushSelfDestruct_inv2 h2 i hok⟩

theorem run_inv : ∀ (steps : List Step) (s : State), Inv s → Inv2 s → Disciplined s steps → Inv (run s steps) ∧ Inv2 (run s steps) := by
  intro steps
  induction steps with
  | nil => intro s h h2 _; exact ⟨h, h2⟩
  | cons st rest ih =>
    intro s h h2 hd
    have := step_inv h h2 st hd.1
    exact ih _ this.1 this.2 hd.2

/-! ## consequences used by the property theorems -/

theorem counted_inside (t : Thread) :
    (countedRecv t = true → inside t.pc = true) ∧ (countedConn t = true → inside t.pc = true) ∧
    (countedFlush t = true → inside t.pc = true) := by
  cases t with
  | mk k pc c => cases k <;> cases pc <;> simp [countedRecv, countedConn, countedFlush, inside]

theorem gate_of_no_inside {s : State} (h : Inv s)
    (hn : ∀ (j : Nat) (t : Thread), s.threads[j]? = some t → inside t.pc = false) : gate s = true := by
  have z : ∀ (p : Thread → Bool), (∀ t, p t = true → inside t.pc = true) → s.threads.countP p = 0 := by
    intro p hp
    apply List.countP_eq_zero.mpr
    intro t ht hpt
    obtain ⟨j, hj⟩ := List.mem_iff_getElem?.mp ht
    have := hn j t hj
    simp [hp t hpt] at this
  simp only [gate_def, Bool.and_eq_true, beq_iff_eq]
  refine ⟨⟨?_, ?_⟩, ?_⟩
  · rw [h.CR]; exact z _ (fun t => (counted_inside t).1)
  · rw [h.CC]; exact z _ (fun t => (counted_inside t).2.1)
  · rw [h.CF]; exact z _ (fun t => (counted_inside t).2.2)

@[simp] theorem touch_threads (s : State) : (touch s).threads = s.threads := by unfold touch; split <;> rfl
@[simp] theorem touch_sh (s : State) : (touch s).shuttingDown = s.shuttingDown := by unfold touch; split <;> rfl
@[simp] theorem touch_closed (s : State) : (touch s).closed = s.closed := by unfold touch; split <;> rfl

/-- what one own step does to the program counter of a thread that is inside a call -/
theorem wake_pc {s : State} {i : Nat} {t : Thread} {a : Bool} (hi : s.threads[i]? = some t) (hpc : t.pc = .parked a)
    (hk : kindOk t = true) :
    ∃ t', (doWake s i true).threads[i]? = some t' ∧ t'.kind = t.kind ∧ kindOk t' = true ∧
      ((∃ r, t'.pc = .done r) ∨ t'.pc = .window) := by
  obtain ⟨k, pc, c⟩ := t
  simp only at hpc; subst hpc
  unfold doWake
  simp only [hi]
  cases k with
  | recv sid =>
    simp only [touch_closed, touch_sh, touch_threads, Bool.or_true, if_true, setT]
    exact ⟨_, get_set_self hi, rfl, by simp [kindOk], Or.inl ⟨_, rfl⟩⟩
  | conn =>
    simp only [touch_sh, touch_threads, setT]
    split
    · exact ⟨_, get_set_self hi, rfl, by simp [kindOk], Or.inl ⟨_, rfl⟩⟩
    · split
      · exact ⟨_, get_set_self hi, rfl, by simp [kindOk], Or.inl ⟨_, rfl⟩⟩
      · simp only [if_true]
        exact ⟨_, get_set_self hi, rfl, by simp [kindOk], Or.inr rfl⟩
  | flush => simp [kindOk] at hk

theorem connClose_pc {s : State} {i : Nat} {t : Thread} (hi : s.threads[i]? = some t) (hpc : t.pc = .window) :
    ∃ t', (doConnClose s i).threads[i]? = some t' ∧ t'.kind = t.kind ∧ t'.pc = .relock := by
  obtain ⟨k, pc, c⟩ := t
  simp only at hpc; subst hpc
  unfold doConnClose
  simp only [hi, setT]
  exact ⟨_, get_set_self hi, rfl, rfl⟩

theorem connRelock_pc {s : State} {i : Nat} {t : Thread} (hi : s.threads[i]? = some t) (hpc : t.pc = .relock) :
    ∃ t' r, (doConnRelock s i).threads[i]? = some t' ∧ t'.pc = .done r := by
  obtain ⟨k, pc, c⟩ := t
  simp only at hpc; subst hpc
  unfold doConnRelock
  simp only [hi, setT, touch_threads]
  exact ⟨_, _, get_set_self hi, rfl⟩

theorem flush_pc {s : State} {i : Nat} {t : Thread} (hi : s.threads[i]? = some t) :
    (t.pc = .floop → ∃ t' r, (doFlushStep s i false).threads[i]? = some t' ∧ t'.kind = t.kind ∧ t'.pc = .fend r) ∧
    (t.pc = .fcb → ∃ t', (doFlushStep s i false).threads[i]? = some t' ∧ t'.kind = t.kind ∧ t'.pc = .floop) ∧
    (∀ r, t.pc = .fend r → ∃ t' r', (doFlushStep s i false).threads[i]? = some t' ∧ t'.pc = .done r') := by
  obtain ⟨k, pc, c⟩ := t
  refine ⟨?_, ?_, ?_⟩
  · intro hpc; simp only at hpc; subst hpc
    unfold doFlushStep
    simp only [hi, setT, touch_threads, touch_sh]
    split
    · exact ⟨_, _, get_set_self hi, rfl, rfl⟩
    · simp only [Bool.false_eq_true, if_false]
      exact ⟨_, _, get_set_self hi, rfl, rfl⟩
  · intro hpc; simp only at hpc; subst hpc
    unfold doFlushStep
    simp only [hi, setT]
    exact ⟨_, get_set_self hi, rfl, rfl⟩
  · intro r hpc; simp only at hpc; subst hpc
    unfold doFlushStep
    simp only [hi, setT, touch_threads]
    exact ⟨_, _, get_set_self hi, rfl⟩

/-- a thread inside a call reaches `done` within three steps of its own (timeouts are always available) -/
theorem finite_path {s : State} {i : Nat} {t : Thread} (hi : s.threads[i]? = some t) (hk : kindOk t = true)
    (hin : inside t.pc = true) :
    ∃ steps : List Step, steps.length ≤ 3 ∧ ∃ t' r, (run s steps).threads[i]? = some t' ∧ t'.pc = .done r := by
  have relock_done : ∀ (s : State) (t : Thread), s.threads[i]? = some t → t.pc = .relock →
      ∃ t' r, (run s [.connRelock i]).threads[i]? = some t' ∧ t'.pc = .done r := by
    intro s t h1 h2; exact connRelock_pc h1 h2
  have window_done : ∀ (s : State) (t : Thread), s.threads[i]? = some t → t.pc = .window →
      ∃ t' r, (run s [.connClose i, .connRelock i]).threads[i]? = some t' ∧ t'.pc = .done r := by
    intro s t h1 h2
    obtain ⟨t1, h3, _, h4⟩ := connClose_pc h1 h2
    exact connRelock_pc h3 h4
  have fend_done : ∀ (s : State) (t : Thread) (r : Bool), s.threads[i]? = some t → t.pc = .fend r →
      ∃ t' r', (run s [.flushStep i false]).threads[i]? = some t' ∧ t'.pc = .done r' := by
    intro s t r h1 h2; exact (flush_pc h1).2.2 r h2
  have floop_done : ∀ (s : State) (t : Thread), s.threads[i]? = some t → t.pc = .floop →
      ∃ t' r', (run s [.flushStep i false, .flushStep i false]).threads[i]? = some t' ∧ t'.pc = .done r' := by
    intro s t h1 h2
    obtain ⟨t1, r, h3, _, h4⟩ := (flush_pc h1).1 h2
    exact (flush_pc h3).2.2 r h4
  cases hpc : t.pc with
  | notStarted => simp [hpc, inside] at hin
  | done r => simp [hpc, inside] at hin
  | fdtor => simp [hpc, inside] at hin
  | parked a =>
    obtain ⟨t1, h1, hk1, hko, h2⟩ := wake_pc hi hpc hk
    rcases h2 with ⟨r, h2⟩ | h2
    · exact ⟨[.wake i true], by simp, t1, r, h1, h2⟩
    · obtain ⟨t', r, h3, h4⟩ := window_done _ t1 h1 h2
      exact ⟨[.wake i true, .connClose i, .connRelock i], by simp, t', r, h3, h4⟩
  | window =>
    obtain ⟨t', r, h3, h4⟩ := window_done _ t hi hpc
    exact ⟨[.connClose i, .connRelock i], by simp, t', r, h3, h4⟩
  | relock =>
    obtain ⟨t', r, h3, h4⟩ := relock_done _ t hi hpc
    exact ⟨[.connRelock i], by simp, t', r, h3, h4⟩
  | floop =>
    obtain ⟨t', r, h3, h4⟩ := floop_done _ t hi hpc
    exact ⟨[.flushStep i false, .flushStep i false], by simp, t', r, h3, h4⟩
  | fcb =>
    obtain ⟨t1, h1, _, h2⟩ := (flush_pc hi).2.1 hpc
    obtain ⟨t', r, h3, h4⟩ := floop_done _ t1 h1 h2
    exact ⟨[.flushStep i false, .flushStep i false, .flushStep i false], by simp, t', r, h3, h4⟩
  | fend r0 =>
    obtain ⟨t', r, h3, h4⟩ := fend_done _ t r0 hi hpc
    exact ⟨[.flushStep i false], by simp, t', r, h3, h4⟩



/-! ## callbacks, by counting -/

@[simp] theorem touch_log (s : State) : (touch s).log = s.log := by unfold touch; split <;> rfl
@[simp] theorem touch_live (s : State) : (touch s).live = s.live := by unfold touch; split <;> rfl
@[simp] theorem touch_td (s : State) : (touch s).td = s.td := by unfold touch; split <;> rfl
@[simp] theorem touch_ioAlive (s : State) : (touch s).ioAlive = s.ioAlive := by unfold touch; split <;> rfl
@[simp] theorem waitOut_log (s : State) (nr : Bool) : (waitOutEntry s nr).log = s.log := rfl

theorem closeSess_log (s : State) (sid : Nat) : (closeSess s sid).log = s.log ++ [.cbClose sid] := by
  simp [closeSess]

macro "nocb" : tactic =>
  `(tactic| ((repeat' split) <;> simp [List.count_append, List.count_cons, closeSess_log, waitOutEntry]))

/-- close callbacks: a step adds at most one, and only a step of the I/O thread, while that thread exists, for a session the
engine still has open -/
theorem cbClose_step (s : State) (st : Step) (sid : Nat) :
    (step s st).log.count (.cbClose sid) = s.log.count (.cbClose sid) ∨
    ((step s st).log.count (.cbClose sid) = s.log.count (.cbClose sid) + 1 ∧ s.ioAlive = true ∧ s.live.contains sid = true ∧
      (st = .ioCloseSess sid ∨ st = .ioDrain (some sid))) := by
  cases st with
  | ioCloseSess x =>
    simp only [step, doIoCloseSess]
    split
    · rename_i hc
      simp only [Bool.and_eq_true] at hc
      by_cases hx : x = sid
      · subst hx; right
        exact ⟨by simp [closeSess_log, List.count_append, List.count_cons], ioFree_alive hc.1, hc.2, Or.inl rfl⟩
      · left; simp [closeSess_log, List.count_append, List.count_cons, hx]
    · left; rfl
  | ioDrain x =>
    simp only [step, doIoDrain]
    split
    · rename_i hc
      simp only [Bool.and_eq_true] at hc
      cases x with
      | some x =>
        simp only []
        split
        · rename_i hm
          by_cases hx : x = sid
          · subst hx; right
            exact ⟨by simp [closeSess_log, List.count_append, List.count_cons], ioFree_alive hc.1, hm, Or.inr rfl⟩
          · left; simp [closeSess_log, List.count_append, List.count_cons, hx]
        · left; rfl
      | none => left; simp only []; nocb
    · left; rfl
  | enter i => left; simp only [step, doEnter]; nocb
  | wake i t => left; simp only [step, doWake]; nocb
  | connClose i => left; simp only [step, doConnClose]; nocb
  | connRelock i => left; simp only [step, doConnRelock]; nocb
  | flushStep i m => left; simp only [step, doFlushStep]; nocb
  | ioConnDone i => left; simp only [step, doIoConnDone]; nocb
  | ioSyncCall op => left; simp only [step, doIoSyncCall]; nocb
  | stopCall => left; simp only [step, doStopCall]; nocb
  | stopJoin => left; simp only [step, doStopJoin]; nocb
  | tdBegin => left; simp only [step, doTdBegin]; nocb
  | tdStop => left; simp only [step, doTdStop]; nocb
  | tdJoined => left; simp only [step, doTdJoined]; nocb
  | tdWake => left; simp only [step, doTdWake]; nocb
  | tdDestroy => left; simp only [step, doTdDestroy]; nocb
  | tdOrphan => left; simp only [step, doTdOrphan]; nocb
  | ioSelfDestruct => left; simp only [step, doIoSelfDestruct]; nocb
  | flushSelfDestruct i => left; simp only [step, doFlushSelfDestruct]; nocb

/-- the data callback of a flush: a step adds at most one, and only the flushing thread's own loop step, before the fence -/
theorem cbData_step (s : State) (st : Step) (i : Nat) :
    (step s st).log.count (.cbData i) = s.log.count (.cbData i) ∨
    ((step s st).log.count (.cbData i) = s.log.count (.cbData i) + 1 ∧ s.shuttingDown = false ∧
      (∃ t, s.threads[i]? = some t ∧ t.pc = .floop) ∧ st = .flushStep i true) := by
  cases st with
  | flushStep j m =>
    simp only [step, doFlushStep]
    split
    · rename_i t hj
      split
      · rename_i hpc
        simp only [touch_sh, touch_threads, touch_log]
        split
        · left; simp
        · rename_i hsh
          split
          · rename_i hm
            by_cases hji : j = i
            · subst hji; right
              refine ⟨by simp [List.count_append, List.count_cons], by simpa using hsh, ⟨t, hj, hpc⟩, ?_⟩
              simp [hm]
            · left; simp [List.count_append, List.count_cons, hji]
          · left; simp
      · left; simp
      · left; simp [List.count_append, List.count_cons]
      · left; nocb
      · left; rfl
    · left; rfl
  | ioCloseSess x => left; simp only [step, doIoCloseSess]; nocb
  | ioDrain x => left; simp only [step, doIoDrain]; nocb
  | enter i => left; simp only [step, doEnter]; nocb
  | wake i t => left; simp only [step, doWake]; nocb
  | connClose i => left; simp only [step, doConnClose]; nocb
  | connRelock i => left; simp only [step, doConnRelock]; nocb
  | ioConnDone i => left; simp only [step, doIoConnDone]; nocb
  | ioSyncCall op => left; simp only [step, doIoSyncCall]; nocb
  | stopCall => left; simp only [step, doStopCall]; nocb
  | stopJoin => left; simp only [step, doStopJoin]; nocb
  | tdBegin => left; simp only [step, doTdBegin]; nocb
  | tdStop => left; simp only [step, doTdStop]; nocb
  | tdJoined => left; simp only [step, doTdJoined]; nocb
  | tdWake => left; simp only [step, doTdWake]; nocb
  | tdDestroy => left; simp only [step, doTdDestroy]; nocb
  | tdOrphan => left; simp only [step, doTdOrphan]; nocb
  | ioSelfDestruct => left; simp only [step, doIoSelfDestruct]; nocb
  | flushSelfDestruct i => left; simp only [step, doFlushSelfDestruct]; nocb

/-! ## completion: no reachable state is a dead end -/

def pcRank : Pc → Nat
  | .notStarted => 0 | .parked _ => 3 | .window => 2 | .relock => 1 | .floop => 2 | .fcb => 3 | .fend _ => 1 | .fdtor => 1
  | .done _ => 0

def tdRank : Td → Nat
  | .idle => 6 | .fenced => 5 | .joining => 4 | .waiting _ => 3 | .waited => 2 | .ioWaiting _ => 3 | .ioReleased => 2
  | .flushOwned => 1 | .destroyed => 0

def trank (l : List Thread) : Nat := (l.map (fun t => pcRank t.pc)).sum

/-- steps still owed: by every thread inside a call, by the destructor, by the I/O thread (one per open session, one to terminate) -/
def rank (s : State) : Nat := trank s.threads + tdRank s.td + (if s.ioAlive then s.live.length + 1 else 0)

theorem trank_set {l : List Thread} {i : Nat} {t : Thread} (x : Thread) (h : l[i]? = some t) :
    trank (l.set i x) + pcRank t.pc = trank l + pcRank x.pc := by
  induction l generalizing i with
  | nil => simp at h
  | cons a rest ih =>
    cases i with
    | zero =>
      simp at h; subst h
      simp [trank]; omega
    | succ n =>
      simp at h
      have := ih h
      simp [trank] at this ⊢; omega

theorem trank_wakeAll (q : Thread → Bool) (l : List Thread) : trank (wakeAll q l) = trank l := by
  unfold trank wakeAll
  rw [List.map_map]
  congr 1
  apply List.map_congr_left
  intro t _
  simp only [Function.comp]
  cases h : t.pc <;> simp [h]
  split <;> simp [pcRank, h]

@[simp] theorem tdRank_notifyTd (td : Td) : tdRank (notifyTd td) = tdRank td := by cases td <;> rfl

@[simp] theorem rank_touch (s : State) : rank (touch s) = rank s := by unfold touch; split <;> rfl

theorem filter_length_lt {l : List Nat} {x : Nat} (h : l.contains x = true) : (l.filter (· != x)).length < l.length := by
  induction l with
  | nil => simp at h
  | cons a rest ih =>
    simp only [List.contains_cons, Bool.or_eq_true, beq_iff_eq] at h
    by_cases hax : a = x
    · subst hax
      simp only [List.filter_cons, bne_self_eq_false, Bool.false_eq_true, if_false, List.length_cons]
      exact Nat.lt_succ_of_le (List.length_filter_le _ _)
    · have hxa : ¬ (x = a) := fun e => hax e.symm
      have hin : rest.contains x = true := by
        rcases h with h | h
        · exact absurd h hxa
        · exact h
      have := ih hin
      have hne : (a != x) = true := by simpa using hax
      simp only [List.filter_cons, hne, if_true, List.length_cons]
      omega

theorem rank_closeSess {s : State} {sid : Nat} (hio : s.ioAlive = true) (hm : s.live.contains sid = true) :
    rank (closeSess s sid) < rank s := by
  have := filter_length_lt hm
  unfold closeSess rank
  simp only [touch_threads, touch_td, touch_ioAlive, touch_live, trank_wakeAll, hio, if_true]
  omega

/-- a thread inside a call can always take a step of its own that brings it closer to its return, once the fence is set -/
theorem thread_progress {s : State} (h : Inv s) (hsh : s.shuttingDown = true) {j : Nat} {t : Thread}
    (hj : s.threads[j]? = some t) (hin : inside t.pc = true) :
    ∃ st, ok s st = true ∧ rank (step s st) < rank s ∧ shape (step s st).td = shape s.td ∧ (step s st).dtorOn = s.dtorOn := by
  have hk := h.KP j t hj
  obtain ⟨k, pc, c⟩ := t
  cases pc with
  | notStarted => simp [inside] at hin
  | done r => simp [inside] at hin
  | fdtor => simp [inside] at hin
  | parked a =>
    refine ⟨.wake j true, rfl, ?_⟩
    simp only [step, doWake, hj]
    cases k with
    | recv sid =>
      simp only [touch_closed, touch_sh, touch_threads, Bool.or_true, if_true, setT]
      have := trank_set { kind := Kind.recv sid, pc := Pc.done (if s.closed sid = true then Res.peerClosed else if s.shuttingDown = true then Res.shuttingDown else Res.timeout), completed := c } hj
      refine ⟨?_, by simp, by simp [touch]; split <;> rfl⟩
      simp only [rank, pcRank, tdRank_notifyTd, touch_td, touch_ioAlive, touch_live] at this ⊢
      omega
    | conn =>
      simp only [touch_sh, touch_threads, setT, hsh, if_true]
      split
      · have := trank_set { kind := Kind.conn, pc := Pc.done Res.completed, completed := c } hj
        refine ⟨?_, by simp, by simp [touch]; split <;> rfl⟩
        simp only [rank, pcRank, tdRank_notifyTd, touch_td, touch_ioAlive, touch_live] at this ⊢
        omega
      · have := trank_set { kind := Kind.conn, pc := Pc.done Res.shuttingDown, completed := c } hj
        refine ⟨?_, by simp, by simp [touch]; split <;> rfl⟩
        simp only [rank, pcRank, tdRank_notifyTd, touch_td, touch_ioAlive, touch_live] at this ⊢
        omega
    | flush => simp [kindOk] at hk
  | window =>
    refine ⟨.connClose j, rfl, ?_⟩
    simp only [step, doConnClose, hj, setT]
    have := trank_set { kind := k, pc := Pc.relock, completed := c } hj
    refine ⟨?_, by simp, by simp [touch]; split <;> rfl⟩
    simp only [rank, pcRank, touch_threads, touch_td, touch_ioAlive, touch_live] at this ⊢
    omega
  | relock =>
    refine ⟨.connRelock j, rfl, ?_⟩
    simp only [step, doConnRelock, hj, setT, touch_threads, touch_sh]
    have := trank_set { kind := k, pc := Pc.done (if s.shuttingDown = true then Res.shuttingDown else Res.timeout), completed := c } hj
    refine ⟨?_, by simp, by simp [touch]; split <;> rfl⟩
    simp only [rank, pcRank, tdRank_notifyTd, touch_td, touch_ioAlive, touch_live] at this ⊢
    omega
  | floop =>
    refine ⟨.flushStep j false, rfl, ?_⟩
    simp only [step, doFlushStep, hj, setT, touch_threads, touch_sh, hsh, if_true]
    have := trank_set { kind := k, pc := Pc.fend false, completed := c } hj
    refine ⟨?_, by simp, by simp [touch]; split <;> rfl⟩
    simp only [rank, pcRank, touch_td, touch_ioAlive, touch_live] at this ⊢
    omega
  | fcb =>
    refine ⟨.flushStep j false, rfl, ?_⟩
    simp only [step, doFlushStep, hj, setT]
    have := trank_set { kind := k, pc := Pc.floop, completed := c } hj
    refine ⟨?_, by first | rfl | trivial, by first | rfl | trivial⟩
    simp only [rank, pcRank] at this ⊢
    omega
  | fend r =>
    refine ⟨.flushStep j false, rfl, ?_⟩
    simp only [step, doFlushStep, hj, setT, touch_threads]
    have := trank_set { kind := k, pc := Pc.done (Res.flushed r), completed := c } hj
    refine ⟨?_, by simp, by simp [touch]; split <;> rfl⟩
    simp only [rank, pcRank, tdRank_notifyTd, touch_td, touch_ioAlive, touch_live] at this ⊢
    omega

/-- destruction has begun: the destructor has taken its first step, or a flusher has released its guard inside `~Transport` -/
def begun (s : State) : Prop := shape s.td ≠ 0 ∨ s.dtorOn ≠ none

theorem exists_inside_of_gate_false {s : State} (h : Inv s) (hg : gate s = false) :
    ∃ (j : Nat) (t : Thread), s.threads[j]? = some t ∧ inside t.pc = true := by
  have key : ∀ (p : Thread → Bool), (∀ t, p t = true → inside t.pc = true) → 0 < s.threads.countP p →
      ∃ (j : Nat) (t : Thread), s.threads[j]? = some t ∧ inside t.pc = true := by
    intro p hp hpos
    obtain ⟨t, ht, hpt⟩ := List.countP_pos_iff.mp hpos
    obtain ⟨j, hj⟩ := List.mem_iff_getElem?.mp ht
    exact ⟨j, t, hj, hp t hpt⟩
  rw [gate_def] at hg
  simp only [Bool.and_eq_false_iff, beq_eq_false_iff_ne] at hg
  rcases hg with (hx | hx) | hx
  · exact key countedRecv (fun t => (counted_inside t).1) (by rw [← h.CR]; omega)
  · exact key countedConn (fun t => (counted_inside t).2.1) (by rw [← h.CC]; omega)
  · exact key countedFlush (fun t => (counted_inside t).2.2) (by rw [← h.CF]; omega)

theorem get_of_fdAt {l : List Thread} {i : Nat} (h : fdAt l i = true) : ∃ t, l[i]? = some t ∧ t.pc = .fdtor := by
  unfold fdAt at h
  split at h
  · rename_i t ht; exact ⟨t, ht, by simpa using h⟩
  · cases h

/-- **no dead end**: once destruction has begun and until `Impl` is gone, some thread can take a step that respects the contract
and strictly decreases `rank` -/
theorem progress {s : State} (h : Inv s) (h2 : Inv2 s) (hb : begun s) (hnd : s.td ≠ .destroyed) :
    ∃ st, ok s st = true ∧ rank (step s st) < rank s ∧ begun (step s st) := by
  cases htd : s.td with
  | destroyed => exact absurd htd hnd
  | idle =>
    have hdt : s.dtorOn ≠ none := by
      rcases hb with hb | hb
      · rw [htd] at hb; exact absurd rfl hb
      · exact hb
    have hsj : s.stopJoining = false := by
      cases hs : s.stopJoining with
      | false => rfl
      | true => exact absurd (h2.SJ hs).2.1 hdt
    refine ⟨.tdBegin, by simp [ok, hsj], ?_⟩
    simp only [step, doTdBegin, htd]
    split
    · refine ⟨?_, Or.inl (by simp [shape])⟩
      simp [rank, waitOutEntry, trank_wakeAll, tdRank, htd]
    · split
      · refine ⟨?_, Or.inl (by simp [shape])⟩
        simp [rank, waitOutEntry, trank_wakeAll, tdRank, htd]
      · refine ⟨?_, Or.inl (by simp [shape])⟩
        simp [rank, waitOutEntry, trank_wakeAll, tdRank, htd]
  | fenced =>
    have hrun := h2.FR (by rw [htd]; rfl)
    refine ⟨.tdStop, rfl, ?_⟩
    simp only [step, doTdStop, htd, hrun, if_true]
    refine ⟨?_, Or.inl (by simp [shape])⟩
    simp [rank, tdRank, htd]
  | joining =>
    cases hio : s.ioAlive with
    | true =>
      have hrun := h2.JR (by rw [htd]; rfl)
      have hfree : ioFree s = true := by simp [ioFree, hio, htd]
      cases hl : s.live with
      | nil =>
        refine ⟨.ioDrain none, rfl, ?_⟩
        simp only [step, doIoDrain, hfree, hrun, hl, htd]
        refine ⟨?_, Or.inl (by simp [shape, htd])⟩
        simp [rank, hio, hl, htd, tdRank]
      | cons sid rest =>
        have hm : s.live.contains sid = true := by simp [hl]
        refine ⟨.ioDrain (some sid), rfl, ?_⟩
        simp only [step, doIoDrain, hfree, hrun, hm]
        refine ⟨by simpa using rank_closeSess hio hm, Or.inl ?_⟩
        simp [closeSess, htd, shape]
    | false =>
      refine ⟨.tdJoined, rfl, ?_⟩
      simp only [step, doTdJoined, htd, hio]
      simp only [Bool.false_eq_true, if_false]
      split
      · refine ⟨?_, Or.inl (by simp [shape])⟩
        simp [rank, waitOutEntry, trank_wakeAll, tdRank, htd]
      · refine ⟨?_, Or.inl (by simp [shape])⟩
        simp [rank, waitOutEntry, trank_wakeAll, tdRank, htd]
  | waiting a =>
    have hsh := h.FS (by rw [htd]; simp)
    cases hg : gate s with
    | true =>
      refine ⟨.tdWake, rfl, ?_⟩
      simp only [step, doTdWake, htd, hg, if_true]
      refine ⟨?_, Or.inl (by simp [shape])⟩
      simp [rank, tdRank, htd]
    | false =>
      obtain ⟨j, t, hj, hin⟩ := exists_inside_of_gate_false h hg
      obtain ⟨st, hok, hr, hs, _⟩ := thread_progress h hsh hj hin
      exact ⟨st, hok, hr, Or.inl (by rw [hs, htd]; simp [shape])⟩
  | waited =>
    cases hdt : s.dtorOn with
    | none =>
      refine ⟨.tdDestroy, rfl, ?_⟩
      simp only [step, doTdDestroy, htd, hdt]
      refine ⟨?_, Or.inl (by simp [shape])⟩
      simp [rank, tdRank, htd]
    | some i =>
      refine ⟨.tdOrphan, rfl, ?_⟩
      simp only [step, doTdOrphan, htd, hdt]
      refine ⟨?_, Or.inl (by simp [shape])⟩
      simp [rank, tdRank, htd]
  | ioWaiting a =>
    have hsh := h.FS (by rw [htd]; simp)
    cases hg : gate s with
    | true =>
      refine ⟨.tdWake, rfl, ?_⟩
      simp only [step, doTdWake, htd, hg, if_true]
      refine ⟨?_, Or.inl (by simp [shape])⟩
      simp [rank, tdRank, htd]
    | false =>
      obtain ⟨j, t, hj, hin⟩ := exists_inside_of_gate_false h hg
      obtain ⟨st, hok, hr, hs, _⟩ := thread_progress h hsh hj hin
      exact ⟨st, hok, hr, Or.inl (by rw [hs, htd]; simp [shape])⟩
  | ioReleased =>
    have hio := (h2.IOA (Or.inr (by rw [htd]; rfl))).1
    have hrun := h2.IOR (by rw [htd]; rfl)
    have hfree : ioFree s = true := by simp [ioFree, hio, htd]
    cases hl : s.live with
    | nil =>
      refine ⟨.ioDrain none, rfl, ?_⟩
      simp only [step, doIoDrain, hfree, hrun, hl, htd]
      refine ⟨?_, Or.inl (by simp [shape])⟩
      simp [rank, hio, hl, tdRank, htd] <;> omega
    | cons sid rest =>
      have hm : s.live.contains sid = true := by simp [hl]
      refine ⟨.ioDrain (some sid), rfl, ?_⟩
      simp only [step, doIoDrain, hfree, hrun, hm]
      refine ⟨by simpa using rank_closeSess hio hm, Or.inl ?_⟩
      simp [closeSess, htd, shape]
  | flushOwned =>
    have hne := h2.DT3 (by rw [htd]; rfl)
    cases hdt : s.dtorOn with
    | none => exact absurd hdt hne
    | some i =>
      obtain ⟨t, hi, hpc⟩ := get_of_fdAt (h2.DT2 i hdt (by rw [htd]; simp [shape]))
      refine ⟨.flushStep i false, rfl, ?_⟩
      obtain ⟨k, pc, c⟩ := t
      simp only at hpc; subst hpc
      simp only [step, doFlushStep, hi, htd, setT, touch_threads]
      have := trank_set { kind := k, pc := Pc.done (Res.flushed false), completed := c } hi
      refine ⟨?_, Or.inl (by simp [shape])⟩
      simp only [rank, pcRank, tdRank, htd, touch_ioAlive, touch_live] at this ⊢
      omega

/-- from every state in which destruction has begun there is a schedule, respecting the contract and at most `rank s` steps
long, that ends with `Impl` destroyed -/
theorem completes : ∀ (n : Nat) (s : State), Inv s → Inv2 s → begun s → rank s ≤ n →
    ∃ steps : List Step, Disciplined s steps ∧ steps.length ≤ n ∧ (run s steps).td = .destroyed := by
  intro n
  induction n with
  | zero =>
    intro s _ _ _ hr
    refine ⟨[], trivial, Nat.le_refl _, ?_⟩
    have : tdRank s.td = 0 := by unfold rank at hr; omega
    simp only [run]
    cases htd : s.td <;> simp [htd, tdRank] at this
    rfl
  | succ n ih =>
    intro s h h2 hb hr
    by_cases hd : s.td = .destroyed
    · exact ⟨[], trivial, Nat.zero_le _, hd⟩
    · obtain ⟨st, hok, hlt, hb'⟩ := progress h h2 hb hd
      have hi := step_inv h h2 st hok
      obtain ⟨steps, hds, hlen, hfin⟩ := ih (step s st) hi.1 hi.2 hb' (by omega)
      exact ⟨st :: steps, ⟨hok, hds⟩, by simp; omega, hfin⟩

/-- `stop()` completes: a thread inside `stop()` returns after at most one step of the I/O thread per open session, one for the
I/O thread to terminate, and one for the join -/
theorem stop_completes : ∀ (n : Nat) (s : State), s.live.length ≤ n → s.stopJoining = true → s.running = false → s.td = .idle →
    ∃ steps : List Step, steps.length ≤ n + 2 ∧ Disciplined s steps ∧ Ev.stopReturned ∈ (run s steps).log ∧
      (run s steps).stopJoining = false := by
  intro n
  induction n with
  | zero =>
    intro s hl hsj hrun htd
    have hnil : s.live = [] := List.eq_nil_of_length_eq_zero (Nat.le_zero.mp hl)
    cases hio : s.ioAlive with
    | false =>
      refine ⟨[.stopJoin], by simp, ⟨rfl, trivial⟩, ?_⟩
      simp [run, step, doStopJoin, hsj, hio]
    | true =>
      have hfree : ioFree s = true := by simp [ioFree, hio, htd]
      refine ⟨[.ioDrain none, .stopJoin], by simp, ⟨rfl, rfl, trivial⟩, ?_⟩
      simp [run, step, doIoDrain, doStopJoin, hfree, hrun, hnil, htd, hsj]
  | succ n ih =>
    intro s hl hsj hrun htd
    cases hio : s.ioAlive with
    | false =>
      refine ⟨[.stopJoin], by simp, ⟨rfl, trivial⟩, ?_⟩
      simp [run, step, doStopJoin, hsj, hio]
    | true =>
      have hfree : ioFree s = true := by simp [ioFree, hio, htd]
      cases hlv : s.live with
      | nil =>
        refine ⟨[.ioDrain none, .stopJoin], by simp, ⟨rfl, rfl, trivial⟩, ?_⟩
        simp [run, step, doIoDrain, doStopJoin, hfree, hrun, hlv, htd, hsj]
      | cons sid rest =>
        have hm : s.live.contains sid = true := by simp [hlv]
        have hlt := filter_length_lt hm
        have hm' : sid ∈ s.live := by simp [hlv]
        have hstep : step s (.ioDrain (some sid)) = closeSess s sid := by
          simp [step, doIoDrain, hfree, hrun, hm, hm']
        obtain ⟨steps, hlen, hd, hlog, hsj'⟩ := ih (closeSess s sid) (by simp [closeSess]; omega) (by simp [closeSess, touch]; split <;> exact hsj)
          (by simp [closeSess, touch]; split <;> exact hrun) (by simp [closeSess, htd])
        refine ⟨.ioDrain (some sid) :: steps, by simp; omega, ⟨rfl, by rw [hstep]; exact hd⟩, ?_⟩
        simp only [run, hstep]
        exact ⟨hlog, hsj'⟩
end Iora.Teardown

